/-
Proofs/Id3Bpi.lean — `determine_bpi` (mutagen/id3/_tags.py), the heuristic that decides whether the frame sizes of a
v2.4 tag are syncsafe or plain integers (iTunes), on tags written by `save_frame`: a decidable sufficient condition under
which it answers "syncsafe".
-/
import MutagenModel.Proofs.C01Files
set_option linter.unusedVariables false
set_option linter.unusedSimpArgs false
namespace Mutagen.C01F
open Mutagen Mutagen.Id3

/-! ## `determine_bpi` -/

/-- a rendered v2.3/v2.4 frame: id, the four size bytes, the two flag bytes, the body -/
structure Rec where
  nm : Bytes
  sz : Bytes
  fl : Bytes := [0, 0]
  body : Bytes

def Rec.bytes (r : Rec) : Bytes := r.nm ++ r.sz ++ r.fl ++ r.body

def flat (recs : List Rec) : Bytes := (recs.map Rec.bytes).flatten

/-- what `save_frame` writes under a v2.4 configuration: a four-character ASCII id of the table, the syncsafe size
of a non-empty body -/
structure RecOK (tbl : Table) (r : Rec) : Prop where
  nm4 : r.nm.length = 4
  ascii : ∀ x ∈ r.nm, 0 < x.toNat ∧ x.toNat < 128
  known : (tbl.find r.nm).isSome = true
  sz4 : r.sz.length = 4
  fl2 : r.fl.length = 2
  szSafe : ∀ x ∈ r.sz, x.toNat < 128
  szVal : bpFromBytes 7 true r.sz = r.body.length
  ne : r.body ≠ []

/-- the four size bytes read as a plain big-endian integer (what the iTunes reading makes of a syncsafe size) -/
def plainOf (n : Nat) : Nat := n / 2 ^ 21 % 128 * 2 ^ 24 + n / 2 ^ 14 % 128 * 2 ^ 16 + n / 2 ^ 7 % 128 * 2 ^ 8 + n % 128

theorem ofBE_syncsafe (sz : Bytes) (n : Nat) (h4 : sz.length = 4) (hs : ∀ x ∈ sz, x.toNat < 128)
    (hv : bpFromBytes 7 true sz = n) : ofBE sz = plainOf n := by
  obtain ⟨a, b, c, d, rfl⟩ := Id3F.len4 sz h4
  have ha := hs a (by simp); have hb := hs b (by simp); have hc := hs c (by simp); have hd := hs d (by simp)
  simp only [bpFromBytes, ↓reduceIte, List.reverse_cons, List.reverse_nil, List.nil_append, List.cons_append,
    List.map_cons, List.map_nil, fromLE] at hv
  simp only [ofBE, ofLE, List.reverse_cons, List.reverse_nil, List.nil_append, List.cons_append]
  unfold plainOf
  omega

/-- one round of a counting loop of `determine_bpi` on a frame header with a known id -/
theorem bpiCount_step (tbl : Table) (ss : Bool) (data : Bytes) (o c : Nat) (nm sz fl : Bytes) (s : Nat)
    (hlt : o + 10 < data.length) (hpart : (data.drop o).take 10 = nm ++ sz ++ fl)
    (hnm4 : nm.length = 4) (hsz4 : sz.length = 4) (hfl2 : fl.length = 2) (hascii : ∀ x ∈ nm, 0 < x.toNat ∧ x.toNat < 128)
    (hknown : (tbl.find nm).isSome = true)
    (hs : (if ss then bpFromBytes 7 true sz else ofBE sz) = s) :
    bpiCount tbl ss data o c = bpiCount tbl ss data (o + 10 + s) (c + 1) := by
  obtain ⟨n1, n2, n3, n4, rfl⟩ := Id3F.len4 nm hnm4
  obtain ⟨s1, s2, s3, s4, rfl⟩ := Id3F.len4 sz hsz4
  obtain ⟨f1, f2, rfl⟩ : ∃ f1 f2, fl = [f1, f2] := by
    match fl, hfl2 with
    | [f1, f2], _ => exact ⟨f1, f2, rfl⟩
  rw [bpiCount]
  have hz : ¬ ([n1, n2, n3, n4] ++ [s1, s2, s3, s4] ++ [f1, f2] = zeros 10) := by
    intro h
    have h1 := (hascii n1 (by simp)).1
    simp only [zeros, List.cons_append, List.nil_append] at h
    have : n1 = 0 := by
      have := congrArg (fun l => l.head?) h
      simpa [List.replicate] using this
    rw [this] at h1; exact absurd h1 (by decide)
  have hasc : (([n1, n2, n3, n4] : Bytes).all fun x => decide (x.toNat < 128)) = true := by
    simp only [List.all_cons, List.all_nil, Bool.and_true, Bool.and_eq_true, decide_eq_true_eq]
    exact ⟨(hascii n1 (by simp)).2, (hascii n2 (by simp)).2, (hascii n3 (by simp)).2, (hascii n4 (by simp)).2⟩
  simp only [hlt, ↓reduceDIte, hpart, hz, ↓reduceIte]
  have e1 : ([n1, n2, n3, n4] ++ [s1, s2, s3, s4] ++ [f1, f2] : Bytes).take 4 = [n1, n2, n3, n4] := rfl
  have e2 : (([n1, n2, n3, n4] ++ [s1, s2, s3, s4] ++ [f1, f2] : Bytes).drop 4).take 4 = [s1, s2, s3, s4] := rfl
  simp only [e1, e2, hasc, decide_true, hknown, Bool.and_self, ↓reduceIte, hs]

/-- where a counting loop stops in the padding (or at the end): the count it has, and an offset that is not positive -/
theorem bpiCount_end (tbl : Table) (ss : Bool) (F : Bytes) (p c : Nat) :
    ∃ off : Int, bpiCount tbl ss (F ++ zeros p) F.length c = (c, off) ∧ off ≤ 0 := by
  rw [bpiCount]
  by_cases hlt : F.length + 10 < (F ++ zeros p).length
  · have hp : 10 < p := by simp at hlt; omega
    have : ((F ++ zeros p).drop F.length).take 10 = zeros 10 := by
      rw [List.drop_left' rfl]
      simp only [zeros, List.take_replicate]
      congr 1; omega
    simp only [hlt, ↓reduceDIte, this, ↓reduceIte]
    exact ⟨_, rfl, by omega⟩
  · simp only [hlt, ↓reduceDIte]
    refine ⟨_, rfl, ?_⟩
    simp only [List.length_append, length_zeros]; omega

theorem Rec.length_bytes (tbl : Table) (r : Rec) (h : RecOK tbl r) : r.bytes.length = 10 + r.body.length := by
  simp [Rec.bytes, h.nm4, h.sz4, h.fl2]; omega

/-- one frame: the loop at the start of `r` (behind a prefix `A`) goes to the start of what follows, counting it -/
theorem bpiCount_rec (tbl : Table) (ss : Bool) (A R : Bytes) (r : Rec) (h : RecOK tbl r) (c s : Nat)
    (hs : (if ss then bpFromBytes 7 true r.sz else ofBE r.sz) = s) :
    bpiCount tbl ss (A ++ r.bytes ++ R) A.length c = bpiCount tbl ss (A ++ r.bytes ++ R) (A.length + 10 + s) (c + 1) := by
  have hb : 0 < r.body.length := List.length_pos_iff.mpr h.ne
  apply bpiCount_step tbl ss _ _ _ r.nm r.sz r.fl s _ _ h.nm4 h.sz4 h.fl2 h.ascii h.known hs
  · simp only [List.length_append, Rec.length_bytes tbl r h]; omega
  · rw [List.append_assoc, List.drop_left' rfl]
    simp only [Rec.bytes, List.append_assoc]
    rw [← List.append_assoc r.nm, ← List.append_assoc (r.nm ++ r.sz)]
    rw [List.take_left' (by simp [h.nm4, h.sz4, h.fl2])]
    simp [List.append_assoc]

/-- the loop with the reading under which every size is right walks from frame to frame -/
theorem bpiCount_recs (tbl : Table) (ss : Bool) (recs : List Rec) :
    ∀ (A R : Bytes) (c : Nat), (∀ r ∈ recs, RecOK tbl r ∧ (if ss then bpFromBytes 7 true r.sz else ofBE r.sz) = r.body.length) →
      bpiCount tbl ss (A ++ flat recs ++ R) A.length c =
        bpiCount tbl ss (A ++ flat recs ++ R) (A ++ flat recs).length (c + recs.length) := by
  induction recs with
  | nil => intro A R c _; simp [flat]
  | cons r rs ih =>
    intro A R c h
    have hr := h r List.mem_cons_self
    have hfl : flat (r :: rs) = r.bytes ++ flat rs := by simp [flat]
    have e1 : A ++ flat (r :: rs) ++ R = A ++ r.bytes ++ (flat rs ++ R) := by rw [hfl]; simp [List.append_assoc]
    have e2 : A ++ flat (r :: rs) ++ R = (A ++ r.bytes) ++ flat rs ++ R := by rw [hfl]; simp [List.append_assoc]
    rw [e1, bpiCount_rec tbl ss A _ r hr.1 c r.body.length hr.2, ← e1, e2]
    have hl : A.length + 10 + r.body.length = (A ++ r.bytes).length := by
      simp only [List.length_append, Rec.length_bytes tbl r hr.1]; omega
    rw [hl, ih (A ++ r.bytes) R (c + 1) (fun x hx => h x (List.mem_cons_of_mem _ hx))]
    congr 1
    · rw [hfl]; simp [List.append_assoc]
    · simp only [List.length_cons]; omega

/-- THE CONDITION, on the body lengths of the frames in the order written (`o` = offset of the frame considered,
`total` = length of the frames region incl. padding): all bodies shorter than 128 bytes — their syncsafe size reads the
same as a plain integer —, or the first body of 128 bytes or more is so placed that the plain-integer reading of its
size (`plainOf`) points at or beyond the last ten bytes of the region, where the counting loop stops -/
def intWalkSafe (total : Nat) : Nat → List Nat → Bool
  | _, [] => true
  | o, s :: rest => if s < 128 then intWalkSafe total (o + 10 + s) rest else decide (total ≤ o + 10 + plainOf s + 10)

theorem small_same (r : Rec) (tbl : Table) (h : RecOK tbl r) (hs : r.body.length < 128) : ofBE r.sz = r.body.length := by
  rw [ofBE_syncsafe r.sz r.body.length h.sz4 h.szSafe h.szVal]
  unfold plainOf; omega

/-- the plain-integer loop on such a region counts at most the frames there are -/
theorem bpiCount_int_le (tbl : Table) (p : Nat) (recs : List Rec) :
    ∀ (A : Bytes) (c : Nat), (∀ r ∈ recs, RecOK tbl r) →
      intWalkSafe (A ++ flat recs ++ zeros p).length A.length (recs.map fun r => r.body.length) = true →
      ∃ c' off, bpiCount tbl false (A ++ flat recs ++ zeros p) A.length c = (c', off) ∧ c' ≤ c + recs.length := by
  induction recs with
  | nil =>
    intro A c _ _
    obtain ⟨off, h, _⟩ := bpiCount_end tbl false A p c
    exact ⟨c, off, by simpa [flat] using h, by simp⟩
  | cons r rs ih =>
    intro A c h hsafe
    have hr := h r List.mem_cons_self
    have hfl : flat (r :: rs) = r.bytes ++ flat rs := by simp [flat]
    have e1 : A ++ flat (r :: rs) ++ zeros p = A ++ r.bytes ++ (flat rs ++ zeros p) := by rw [hfl]; simp [List.append_assoc]
    have e2 : A ++ flat (r :: rs) ++ zeros p = (A ++ r.bytes) ++ flat rs ++ zeros p := by rw [hfl]; simp [List.append_assoc]
    simp only [List.map_cons, intWalkSafe] at hsafe
    by_cases hs : r.body.length < 128
    · simp only [hs, ↓reduceIte] at hsafe
      rw [e1, bpiCount_rec tbl false A _ r hr c r.body.length (by simpa using small_same r tbl hr hs), ← e1, e2]
      have hl : A.length + 10 + r.body.length = (A ++ r.bytes).length := by
        simp only [List.length_append, Rec.length_bytes tbl r hr]; omega
      rw [hl]
      obtain ⟨c', off, hrun, hle⟩ := ih (A ++ r.bytes) (c + 1) (fun x hx => h x (List.mem_cons_of_mem _ hx))
        (by rw [← e2, ← hl]; exact hsafe)
      exact ⟨c', off, hrun, by simp only [List.length_cons]; omega⟩
    · simp only [hs, ↓reduceIte, decide_eq_true_eq] at hsafe
      rw [e1, bpiCount_rec tbl false A _ r hr c (plainOf r.body.length)
        (by simpa using ofBE_syncsafe r.sz r.body.length hr.sz4 hr.szSafe hr.szVal), ← e1]
      rw [bpiCount]
      have : ¬ (A.length + 10 + plainOf r.body.length + 10 < (A ++ flat (r :: rs) ++ zeros p).length) := by omega
      simp only [this, ↓reduceDIte]
      exact ⟨c + 1, _, rfl, by simp only [List.length_cons]; omega⟩

/-- `determine_bpi` answers "syncsafe" on the frames `save_frame` wrote for a v2.4 tag, followed by any padding,
whenever the body lengths satisfy `intWalkSafe` -/
theorem determineBpi_safe (tbl : Table) (recs : List Rec) (p : Nat) (h : ∀ r ∈ recs, RecOK tbl r)
    (hsafe : intWalkSafe ((flat recs).length + p) 0 (recs.map fun r => r.body.length) = true) :
    determineBpi tbl (flat recs ++ zeros p) = true := by
  have hb := bpiCount_recs tbl true recs [] (zeros p) 0 (fun r hr => ⟨h r hr, by simpa using (h r hr).szVal⟩)
  simp only [List.nil_append, List.length_nil, Nat.zero_add] at hb
  obtain ⟨off1, he, hoff⟩ := bpiCount_end tbl true (flat recs) p recs.length
  rw [he] at hb
  obtain ⟨c2, off2, hi, hle⟩ := bpiCount_int_le tbl p recs [] 0 h (by simpa using hsafe)
  simp only [List.nil_append, List.length_nil, Nat.zero_add] at hi hle
  unfold determineBpi
  rw [hb, hi]
  simp only [Bool.not_eq_true', Bool.or_eq_false_iff, decide_eq_false_iff_not, Bool.and_eq_false_imp, decide_eq_true_eq]
  refine ⟨by omega, fun h1 => ?_⟩
  simp only [Bool.and_eq_true, decide_eq_true_eq] at h1
  omega

/-- `FrameRT` with the length `s` of the written body made visible -/
def FrameRTS (E : Id3.Env) (tbl : Table) (fv out : Val) (s : Nat) : Prop :=
  ∃ (id : String) (vals : List Val) (cls : FrameClass) (outvals : List Val) (b : Bytes),
    fv = .frame id vals ∧ out = .frame id outvals ∧
    tbl.find (nameBytes id) = some cls ∧ upgradeName cls = some id ∧
    (nameBytes id).length = 4 ∧ (∀ x ∈ nameBytes id, 0 < x.toNat ∧ x.toNat < 128) ∧
    ¬ (cls.isText = true ∧ textEmpty cls.required vals = true) ∧
    writeFrame E.subw E.cfg cls vals = .ok b ∧ readFrame E.sub E.h cls b = .ok (outvals, []) ∧
    b ≠ [] ∧ b.length < sizeLimit E.cfg ∧ b.length = s

theorem FrameRTS.toFrameRT {E : Id3.Env} {tbl : Table} {f o : Val} {s : Nat} (h : FrameRTS E tbl f o s) : FrameRT E tbl f o := by
  obtain ⟨id, vals, cls, outvals, b, h1, h2, h3, h4, h5, h6, h7, h8, h9, h10, h11, _⟩ := h
  exact ⟨id, vals, cls, outvals, b, h1, h2, h3, h4, h5, h6, h7, h8, h9, h10, h11⟩

theorem FrameRT.toS {E : Id3.Env} {tbl : Table} {f o : Val} (h : FrameRT E tbl f o) : ∃ s, FrameRTS E tbl f o s := by
  obtain ⟨id, vals, cls, outvals, b, h1, h2, h3, h4, h5, h6, h7, h8, h9, h10, h11⟩ := h
  exact ⟨b.length, id, vals, cls, outvals, b, h1, h2, h3, h4, h5, h6, h7, h8, h9, h10, h11, rfl⟩

/-- `TagRT` with the body lengths of the frames written, in the order written -/
inductive TagRTS (E : Id3.Env) (tbl : Table) : List Val → List Val → List Nat → Prop
  | nil : TagRTS E tbl [] [] []
  | frame {f o : Val} {s : Nat} {fs os : List Val} {ss : List Nat} :
      FrameRTS E tbl f o s → TagRTS E tbl fs os ss → TagRTS E tbl (f :: fs) (o :: os) (s :: ss)
  | empty {f : Val} {fs os : List Val} {ss : List Nat} :
      FrameEmpty tbl f → TagRTS E tbl fs os ss → TagRTS E tbl (f :: fs) os ss

theorem TagRTS.toTagRT {E : Id3.Env} {tbl : Table} {fs os : List Val} {ss : List Nat} (h : TagRTS E tbl fs os ss) :
    TagRT E tbl fs os := by
  induction h with
  | nil => exact .nil
  | frame hf _ ih => exact .frame hf.toFrameRT ih
  | empty he _ ih => exact .empty he ih

/-- the record `save_frame` writes for such a frame under a v2.4 configuration -/
theorem frameRTS_rec (E : Id3.Env) (tbl : Table) (hv4 : E.cfg.version = 4) (f o : Val) (s : Nat) (h : FrameRTS E tbl f o s) :
    ∃ r, RecOK tbl r ∧ r.body.length = s ∧ saveFrame E.subw tbl E.cfg f = .ok r.bytes := by
  obtain ⟨id, vals, cls, outvals, b, rfl, rfl, hfind, hup, hl4, hid, hne, hw, hr, hb, hlim, rfl⟩ := h
  simp only [sizeLimit, hv4, ↓reduceIte] at hlim
  obtain ⟨sz, h1, h2, h3, h4, _⟩ := C14.to_str_roundtrip b.length 4 7 4 true (by decide) (by simpa using hlim)
  refine ⟨⟨nameBytes id, sz, [0, 0], b⟩, ⟨hl4, hid, by rw [hfind]; rfl, h2, rfl, by simpa using h4, h3, hb⟩, rfl, ?_⟩
  have hne' : (cls.isText && textEmpty cls.required vals) = false := by
    cases h1 : cls.isText <;> cases h2 : textEmpty cls.required vals <;> simp_all
  have : bpToStr (b.length : Int) 7 true ((4 : Nat) : Int) 4 = bpToStr b.length 7 true 4 4 := rfl
  simp only [saveFrame, hfind, hne', Bool.false_eq_true, ↓reduceIte, hw, hv4, ← this, h1, Rec.bytes]

theorem tagRTS_recs (E : Id3.Env) (tbl : Table) (hv4 : E.cfg.version = 4) (fs os : List Val) (ss : List Nat)
    (h : TagRTS E tbl fs os ss) :
    ∃ recs, saveFrames E.subw tbl E.cfg fs = .ok (flat recs) ∧ (∀ r ∈ recs, RecOK tbl r) ∧
      (recs.map fun r => r.body.length) = ss := by
  induction h with
  | nil => exact ⟨[], rfl, by simp, rfl⟩
  | frame hf _ ih =>
    obtain ⟨recs, hw, hok, hs⟩ := ih
    obtain ⟨r, hr, hl, hsave⟩ := frameRTS_rec E tbl hv4 _ _ _ hf
    refine ⟨r :: recs, by simp only [saveFrames, hsave, hw, flat, List.map_cons, List.flatten_cons], ?_, by simp [hl, hs]⟩
    intro x hx
    rcases List.mem_cons.mp hx with rfl | hx
    · exact hr
    · exact hok x hx
  | empty he _ ih =>
    obtain ⟨recs, hw, hok, hs⟩ := ih
    exact ⟨recs, by simp only [saveFrames, saveFrame_empty E.subw tbl E.cfg _ he, hw, List.nil_append], hok, hs⟩

/-- THE tag-level round trip with `determine_bpi` discharged: under a v2.4 configuration the hypothesis is the
decidable condition `intWalkSafe` on the body lengths; under v2.3 there is none -/
theorem readFramesWith_roundtrip_safe (E : Id3.Env) (tbl : Table) (hv : E.cfg.version = 3 ∨ E.cfg.version = 4)
    (hh : E.h = { version := E.cfg.version, unsynch := false }) (fs os : List Val) (ss : List Nat)
    (h : TagRTS E tbl fs os ss) (frames : Bytes) (hw : saveFrames E.subw tbl E.cfg fs = .ok frames) (p : Nat)
    (hsafe : E.cfg.version = 4 → intWalkSafe (frames.length + p) 0 ss = true) :
    readFramesWith E.sub tbl E.h (frames ++ zeros p) = .ok (os, zeros p) := by
  apply readFramesWith_roundtrip E tbl hv hh fs os h.toTagRT frames hw p
  intro hv4
  obtain ⟨recs, hw', hok, hs⟩ := tagRTS_recs E tbl hv4 fs os ss h
  rw [hw] at hw'; cases hw'
  exact determineBpi_safe tbl recs p hok (by rw [hs]; exact hsafe hv4)

end Mutagen.C01F
