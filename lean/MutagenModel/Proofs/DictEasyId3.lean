/- Proofs/DictEasyId3.lean — the plain-key part of `EasyID3` refines the dictionary of its own items (C16) -/
import MutagenModel.Model.DictEasyId3
import MutagenModel.Proofs.DictView
import MutagenModel.Proofs.DictEasyMp4
import MutagenModel.Proofs.DictGuard
set_option linter.unusedVariables false
set_option linter.unusedSimpArgs false
namespace Mutagen.Dict
open Mutagen

/-! ### facts about the registry (finite checks) -/

theorem eiReg_keys_nodup : (easyId3Registry.map (·.key)).Nodup := by decide +kernel
theorem eiReg_lower_all : easyId3Registry.all (fun e => decide (pyLower e.key = e.key)) = true := by decide +kernel
theorem eiReg_nostar_all : easyId3Registry.all (fun e => !eiGood e || !e.key.contains 42) = true := by decide +kernel
/-- HashKeys of the plain non-website entries: distinct -/
theorem eiReg_hk_nodup : ((easyId3Registry.filter (fun e => eiPlain e && (hkOf e).isSome)).map hkOf).Nodup := by
  decide +kernel
theorem eiReg_class_all : easyId3Registry.all (fun e => match e.kind with
    | .text fid => hkClass fid == .text
    | .txxx d => hkClass (pTXXX ++ d) == .text
    | .date fid => hkClass fid == .stamps
    | _ => true) = true := by decide +kernel
theorem eiReg_plain_hk : easyId3Registry.all (fun e => !eiPlain e || (hkOf e).isSome) = true := by
  decide +kernel

theorem globMatch_nostar (p s : Text) (h : p.contains 42 = false) : globMatch p s = (p == s) := by
  induction p generalizing s with
  | nil => cases s <;> simp [globMatch]
  | cons c t ih =>
    have hc : c ≠ 42 := by intro e; subst e; simp at h
    have ht : t.contains 42 = false := by
      simp only [List.contains_cons, Bool.or_eq_false_iff] at h; exact h.2
    cases s with
    | nil => simp [globMatch, hc]
    | cons d r => simp [globMatch, hc, ih r ht]

theorem eiFind_of_plain (e : EIEntry) (he : e ∈ easyId3Registry) : eiFind e.key = some e := by
  unfold eiFind
  have h1 : easyId3Registry.find? (fun x => decide (x.key = e.key)) = some e := by
    have hn := eiReg_keys_nodup
    generalize easyId3Registry = l at he hn
    induction l with
    | nil => simp at he
    | cons a t ih =>
      simp only [List.map_cons, List.nodup_cons] at hn
      rcases List.mem_cons.1 he with h | h
      · subst h; simp
      · have hne : a.key ≠ e.key := fun heq => hn.1 (heq ▸ List.mem_map_of_mem h)
        simp [List.find?_cons, hne, ih h hn.2]
  simp [h1]

theorem eiFind_plain_key (t : Text) (e : EIEntry) (h : eiFind t = some e) (hp : eiGood e = true) :
    e ∈ easyId3Registry ∧ e.key = t := by
  unfold eiFind at h
  cases h1 : easyId3Registry.find? (fun x => decide (x.key = t)) with
  | some e1 =>
    simp only [h1, Option.some.injEq] at h
    subst h
    exact ⟨List.mem_of_find?_eq_some h1, by simpa using List.find?_some h1⟩
  | none =>
    simp only [h1] at h
    have hm := List.mem_of_find?_eq_some h
    have hg : globMatch e.key t = true := by
      have := List.find?_some h
      simpa using this
    have hs := List.all_eq_true.1 eiReg_nostar_all e hm
    simp only [hp, Bool.not_true, Bool.false_or, Bool.not_eq_true'] at hs
    rw [globMatch_nostar _ _ hs] at hg
    exact ⟨hm, by simpa using hg⟩

theorem eiReg_lower (e : EIEntry) (h : e ∈ easyId3Registry) : pyLower e.key = e.key := by
  have := List.all_eq_true.1 eiReg_lower_all e h
  simpa using this

theorem eiEntryOf_plain (e : EIEntry) (he : e ∈ easyId3Registry) : eiEntryOf (.str e.key) = some (e, e.key) := by
  simp [eiEntryOf, eiReg_lower e he, eiFind_of_plain e he]

/-- the entry of a good registered key: a plain registry entry filed under the lower-cased key -/
theorem eiEntryOf_good (k : PKey) (e : EIEntry) (kt : Text) (h : eiEntryOf k = some (e, kt)) (hg : eiGoodKey k = true) :
    eiGood e = true ∧ e ∈ easyId3Registry ∧ k = .str kt ∧ e.key = pyLower kt := by
  have hp : eiGood e = true := by simpa [eiGoodKey, h] using hg
  cases k with
  | str t =>
    simp only [eiEntryOf, Option.map_eq_some_iff, Prod.mk.injEq] at h
    obtain ⟨e', h1, h2, h3⟩ := h
    subst h2; subst h3
    obtain ⟨hm, hk⟩ := eiFind_plain_key _ _ h1 hp
    exact ⟨hp, hm, rfl, hk⟩
  | _ => simp [eiEntryOf] at h

/-- invariant of the native tags under the plain-key part of the view: unique HashKeys, every
frame of the shape its HashKey calls for (so: no TMCL, no RVA2 frame) -/
def EasyId3Inv (s : Id3) : Prop := NodupKeys s ∧ ∀ p ∈ s, frameOK p.1 p.2 = true

theorem easyId3Inv_nil : EasyId3Inv [] := ⟨List.nodup_nil, fun p hp => by simp at hp⟩

theorem inv_lookup (s : Id3) (hs : EasyId3Inv s) (hk : Text) (f : IFrame) (h : lookup hk s = some f) :
    frameOK hk f = true := hs.2 (hk, f) ((mem_iff_lookup hk f s hs.1).2 h)

theorem eiGet_congr (s1 s2 : Id3) (e : EIEntry) (kt : Text) (hk : Text) (h : hkOf e = some hk)
    (hl : lookup hk s1 = lookup hk s2) : eiGet s1 e kt = eiGet s2 e kt := by
  unfold hkOf at h
  unfold eiGet
  cases hkd : e.kind <;> simp only [hkd] at h ⊢ <;> first
    | (simp only [Option.some.injEq] at h; subst h; rw [hl])
    | simp at h

theorem eiGet_web_congr (s1 s2 : Id3) (e : EIEntry) (kt : Text) (h : e.kind = .website)
    (hl : getallPrefix pWOAR s1 = getallPrefix pWOAR s2) : eiGet s1 e kt = eiGet s2 e kt := by
  unfold eiGet; simp only [h, hl]

theorem class_of_entry (e : EIEntry) (he : e ∈ easyId3Registry) :
    (∀ fid, e.kind = .text fid → hkClass fid = .text) ∧ (∀ d, e.kind = .txxx d → hkClass (pTXXX ++ d) = .text) ∧
      (∀ fid, e.kind = .date fid → hkClass fid = .stamps) := by
  have := List.all_eq_true.1 eiReg_class_all e he
  refine ⟨?_, ?_, ?_⟩ <;> intro x hx <;> simp [hx] at this <;> exact this

/-- under the invariant the getter of a plain entry answers `KeyError` or a value -/
theorem eiGet_plain (s : Id3) (hs : EasyId3Inv s) (e : EIEntry) (he : e ∈ easyId3Registry) (hp : eiPlain e = true)
    (kt : Text) : eiGet s e kt = .error .key ∨ ∃ v, eiGet s e kt = .ok v := by
  obtain ⟨c1, c2, c3⟩ := class_of_entry e he
  unfold eiGet
  cases hkd : e.kind with
  | text fid =>
    simp only
    cases hl : lookup fid s with
    | none => left; rfl
    | some f =>
      have := inv_lookup s hs fid f hl
      cases f <;> simp [frameOK, c1 fid hkd] at this
      right; exact ⟨_, rfl⟩
  | txxx d =>
    simp only
    cases hl : lookup (pTXXX ++ d) s with
    | none => left; rfl
    | some f =>
      have := inv_lookup s hs _ f hl
      cases f <;> simp [frameOK, c2 d hkd] at this
      right; exact ⟨_, rfl⟩
  | genre =>
    simp only
    cases hl : lookup kTCON s with
    | none => left; rfl
    | some f =>
      have := inv_lookup s hs _ f hl
      have hc : hkClass kTCON = .genre := by decide
      cases f <;> simp [frameOK, hc] at this
      right
      have h2 : (List.all ‹List Text› genrePlain) = true := by rw [List.all_eq_true]; exact this
      refine ⟨textsVal ‹List Text›, ?_⟩
      simp only [h2, if_true]
  | date fid =>
    simp only
    cases hl : lookup fid s with
    | none => left; rfl
    | some f =>
      have := inv_lookup s hs fid f hl
      cases f <;> simp [frameOK, c3 fid hkd] at this
      right; exact ⟨_, rfl⟩
  | trackid =>
    simp only
    cases hl : lookup kUFID s with
    | none => left; rfl
    | some f =>
      have := inv_lookup s hs _ f hl
      have hc : hkClass kUFID = .ufid := by decide
      cases f <;> simp [frameOK, hc] at this
      right; exact ⟨_, rfl⟩
  | website => simp [eiPlain, hkd] at hp
  | performer => simp [eiPlain, hkd] at hp
  | gain => simp [eiPlain, hkd] at hp
  | peak => simp [eiPlain, hkd] at hp

/-- the frame the setter of a plain single-frame entry makes of a value (no state involved) -/
def slotFrame (e : EIEntry) (v : PVal) : Except PyErr IFrame :=
  match eiItems v with
  | none => .error .notImplemented
  | some items =>
    match e.kind, eiTexts items with
    | .text _, some l => .ok (.text 3 l)
    | .txxx _, some l => .ok (.text (txxxEnc l) l)
    | .genre, some l => if l.all genrePlain then .ok (.text 3 l) else .error .notImplemented
    | .date _, some l =>
      match l.mapM tsNorm with
      | some l' => .ok (.stamps 3 l')
      | none => .error .notImplemented
    | .trackid, _ => trackidFrame items
    | _, _ => .error .notImplemented

theorem eiSet_slot (s : Id3) (e : EIEntry) (kt : Text) (v : PVal) (hk : Text) (h : hkOf e = some hk)
    (hp : eiPlain e = true) :
    eiSet s e kt v = match slotFrame e v with
      | .ok f => (.ok (), insert hk f s)
      | .error err => (.error err, s) := by
  unfold hkOf at h
  unfold eiPlain at hp
  unfold eiSet slotFrame
  cases hi : eiItems v with
  | none => rfl
  | some items =>
    simp only
    cases hkd : e.kind <;> simp only [hkd] at h hp ⊢ <;> try (first | (simp at hp; done) | (simp at h; done))
    all_goals (simp only [Option.some.injEq] at h; subst h)
    · cases eiTexts items <;> rfl
    · cases eiTexts items <;> rfl
    · cases eiTexts items with
      | none => rfl
      | some l => simp only; split <;> rfl
    · cases eiTexts items with
      | none => rfl
      | some l => simp only; cases l.mapM tsNorm <;> rfl
    · cases trackidFrame items <;> rfl


theorem eiDel_slot (s : Id3) (e : EIEntry) (kt : Text) (hk : Text) (h : hkOf e = some hk) (hp : eiPlain e = true) :
    eiDel s e kt = match lookup hk s with
      | some _ => .ok (erase hk s)
      | none => .error .key := by
  unfold hkOf at h
  unfold eiPlain at hp
  unfold eiDel
  cases hkd : e.kind <;> simp only [hkd] at h hp ⊢ <;> try (first | (simp at hp; done) | (simp at h; done))
  all_goals (simp only [Option.some.injEq] at h; subst h; rfl)

theorem hk_of_plain (e : EIEntry) (he : e ∈ easyId3Registry) (hp : eiPlain e = true) : ∃ hk, hkOf e = some hk := by
  have := List.all_eq_true.1 eiReg_plain_hk e he
  simp only [hp, Bool.not_true, Bool.false_or] at this
  exact Option.isSome_iff_exists.1 this

theorem hk_inj (e1 e2 : EIEntry) (h1 : e1 ∈ easyId3Registry) (h2 : e2 ∈ easyId3Registry) (p1 : eiPlain e1 = true)
    (p2 : eiPlain e2 = true) (hk : Text) (k1 : hkOf e1 = some hk) (k2 : hkOf e2 = some hk) : e1 = e2 := by
  have m1 : e1 ∈ easyId3Registry.filter (fun e => eiPlain e && (hkOf e).isSome) := by
    simp [List.mem_filter, h1, p1, k1]
  have m2 : e2 ∈ easyId3Registry.filter (fun e => eiPlain e && (hkOf e).isSome) := by
    simp [List.mem_filter, h2, p2, k2]
  exact inj_of_nodup_map hkOf _ eiReg_hk_nodup e1 e2 m1 m2 (k1.trans k2.symm)

theorem slotFrame_ok (e : EIEntry) (he : e ∈ easyId3Registry) (v : PVal) (f : IFrame) (hk : Text)
    (h : hkOf e = some hk) (hf : slotFrame e v = .ok f) : frameOK hk f = true := by
  obtain ⟨c1, c2, c3⟩ := class_of_entry e he
  unfold hkOf at h
  unfold slotFrame at hf
  cases hi : eiItems v with
  | none => simp [hi] at hf
  | some items =>
    simp only [hi] at hf
    cases hkd : e.kind <;> simp only [hkd] at h hf <;> try (simp at h; done)
    all_goals (simp only [Option.some.injEq] at h; subst h)
    · cases ht : eiTexts items with
      | none => simp [ht] at hf
      | some l => simp [ht] at hf; subst hf; simp [frameOK, c1 _ hkd]
    · cases ht : eiTexts items with
      | none => simp [ht] at hf
      | some l => simp [ht] at hf; subst hf; simp [frameOK, c2 _ hkd]
    · cases ht : eiTexts items with
      | none => simp [ht] at hf
      | some l =>
        simp only [ht] at hf
        split at hf
        · rename_i hg
          simp at hf; subst hf
          have hc : hkClass kTCON = .genre := by decide
          simp only [frameOK, hc]; exact hg
        · simp at hf
    · cases ht : eiTexts items with
      | none => simp [ht] at hf
      | some l =>
        simp only [ht] at hf
        cases hm : l.mapM tsNorm with
        | none => simp [hm] at hf
        | some l' => simp [hm] at hf; subst hf; simp [frameOK, c3 _ hkd]
    · cases eiTexts items <;> simp at hf
    · have hc : hkClass kUFID = .ufid := by decide
      unfold trackidFrame at hf
      split at hf
      · split at hf
        · simp at hf; subst hf; simp [frameOK, hc]
        · simp at hf
      · simp at hf
      · simp at hf

theorem eiGet_none (s : Id3) (e : EIEntry) (kt hk : Text) (h : hkOf e = some hk) (hl : lookup hk s = none) :
    eiGet s e kt = .error .key := by
  unfold hkOf at h
  unfold eiGet
  cases hkd : e.kind <;> simp only [hkd] at h ⊢ <;> try (simp at h; done)
  all_goals (simp only [Option.some.injEq] at h; subst h; rw [hl])

theorem eiGet_some (s : Id3) (hs : EasyId3Inv s) (e : EIEntry) (he : e ∈ easyId3Registry) (hp : eiPlain e = true)
    (kt hk : Text) (f : IFrame) (h : hkOf e = some hk) (hl : lookup hk s = some f) : ∃ v, eiGet s e kt = .ok v := by
  rcases eiGet_plain s hs e he hp kt with h1 | h1
  · exfalso
    unfold hkOf at h
    unfold eiPlain at hp
    unfold eiGet at h1
    cases hkd : e.kind <;> simp only [hkd] at h h1 hp <;> try (first | (simp at h; done) | (simp at hp; done))
    all_goals (simp only [Option.some.injEq] at h; subst h; rw [hl] at h1; cases f <;> simp at h1)
    · split at h1 <;> simp at h1
  · exact h1


/-! ### `website`: one WOAR frame per URL -/

theorem startsWith_append (p u : Text) : startsWith p (p ++ u) = true := by
  simp [startsWith]

theorem lookup_delall (pre k : Text) (s : Id3) :
    lookup k (delallPrefix pre s) = if startsWith pre k then none else lookup k s := by
  induction s with
  | nil => simp [delallPrefix]
  | cons p t ih =>
    obtain ⟨k', f⟩ := p
    unfold delallPrefix at ih ⊢
    by_cases hp : startsWith pre k' = true
    · by_cases hk : k' = k
      · subst hk; simp [List.filter_cons, hp, ih]
      · simp [List.filter_cons, hp, ih, hk]
    · simp only [Bool.not_eq_true] at hp
      by_cases hk : k' = k
      · subst hk; simp [List.filter_cons, hp]
      · simp [List.filter_cons, hp, ih, hk]

theorem lookup_woarPut_other (k : Text) (hk : startsWith pWOAR k = false) (l : List Text) :
    ∀ base : Id3, lookup k (woarPut l base) = lookup k base := by
  induction l with
  | nil => intro base; rfl
  | cons u t ih =>
    intro base
    have hne : ¬ pWOAR ++ u = k := by
      intro e; rw [← e, startsWith_append] at hk; cases hk
    show lookup k (woarPut t (insert (pWOAR ++ u) (.woar u) base)) = _
    rw [ih, lookup_insert]; simp [hne]

theorem filter_insert_in (P : Text → Bool) (k : Text) (f : IFrame) (hk : P k = true) (r : Id3) :
    (insert k f r).filter (fun p => P p.1) = insert k f (r.filter (fun p => P p.1)) := by
  induction r with
  | nil => simp [insert, hk]
  | cons q t ih =>
    obtain ⟨k', f'⟩ := q
    by_cases h : k' = k
    · subst h; simp [insert, List.filter_cons, hk]
    · by_cases hp : P k' = true
      · simp [insert, h, List.filter_cons, hp, ih]
      · simp [insert, h, List.filter_cons, hp, ih]

theorem filter_insert_out (P : Text → Bool) (k : Text) (f : IFrame) (hk : P k = false) (r : Id3) :
    (insert k f r).filter (fun p => P p.1) = r.filter (fun p => P p.1) := by
  induction r with
  | nil => simp [insert, hk]
  | cons q t ih =>
    obtain ⟨k', f'⟩ := q
    by_cases h : k' = k
    · subst h; simp [insert, List.filter_cons, hk]
    · by_cases hp : P k' = true
      · simp [insert, h, List.filter_cons, hp, ih]
      · simp [insert, h, List.filter_cons, hp, ih]

theorem filter_erase_out (P : Text → Bool) (k : Text) (hk : P k = false) (r : Id3) :
    (erase k r).filter (fun p => P p.1) = r.filter (fun p => P p.1) := by
  induction r with
  | nil => rfl
  | cons q t ih =>
    obtain ⟨k', f'⟩ := q
    by_cases h : k' = k
    · subst h; simp [erase, List.filter_cons, hk]
    · by_cases hp : P k' = true
      · simp [erase, h, List.filter_cons, hp, ih]
      · simp [erase, h, List.filter_cons, hp, ih]

theorem getall_insert_other (pre k : Text) (f : IFrame) (hk : startsWith pre k = false) (s : Id3) :
    getallPrefix pre (insert k f s) = getallPrefix pre s := filter_insert_out (startsWith pre) k f hk s

theorem getall_erase_other (pre k : Text) (hk : startsWith pre k = false) (s : Id3) :
    getallPrefix pre (erase k s) = getallPrefix pre s := filter_erase_out (startsWith pre) k hk s

theorem getall_woarPut (l : List Text) : ∀ base : Id3,
    getallPrefix pWOAR (woarPut l base) = woarPut l (getallPrefix pWOAR base) := by
  induction l with
  | nil => intro base; rfl
  | cons u t ih =>
    intro base
    show getallPrefix pWOAR (woarPut t (insert (pWOAR ++ u) (.woar u) base)) = _
    rw [ih]
    show _ = woarPut t (insert (pWOAR ++ u) (.woar u) (getallPrefix pWOAR base))
    congr 1
    exact filter_insert_in (startsWith pWOAR) _ _ (startsWith_append _ _) base

theorem getall_delall (pre : Text) (s : Id3) : getallPrefix pre (delallPrefix pre s) = [] := by
  unfold getallPrefix delallPrefix
  rw [List.filter_filter, List.filter_eq_nil_iff]
  intro p _; cases startsWith pre p.1 <;> simp

/-- read-back after `website_set` does not depend on what was there -/
theorem getall_website_set (l : List Text) (s : Id3) :
    getallPrefix pWOAR (woarPut l (delallPrefix pWOAR s)) = getallPrefix pWOAR (woarPut l (delallPrefix pWOAR [])) := by
  rw [getall_woarPut, getall_woarPut, getall_delall, getall_delall]

theorem mem_woarPut (l : List Text) : ∀ (base : Id3) (p : Text × IFrame), p ∈ woarPut l base →
    p ∈ base ∨ ∃ u, p = (pWOAR ++ u, .woar u) := by
  induction l with
  | nil => intro base p hp; exact Or.inl hp
  | cons u t ih =>
    intro base p hp
    rcases ih _ p hp with h | h
    · rcases mem_insert_cases _ _ _ _ h with h' | h'
      · exact Or.inr ⟨u, h'⟩
      · exact Or.inl h'
    · exact Or.inr h

theorem nodup_woarPut (l : List Text) : ∀ base : Id3, NodupKeys base → NodupKeys (woarPut l base) := by
  induction l with
  | nil => intro base h; exact h
  | cons u t ih => intro base h; exact ih _ (nodup_insert _ _ _ h)

theorem class_woar_put (u : Text) : hkClass (pWOAR ++ u) = .woar := by
  unfold hkClass
  have h1 : (pWOAR ++ u == kTCON) = false := by simp [pWOAR, kTCON]
  have h2 : (pWOAR ++ u == [84, 68, 82, 67] || pWOAR ++ u == [84, 68, 79, 82]) = false := by simp [pWOAR]
  have h3 : (pWOAR ++ u == kTMCL) = false := by simp [pWOAR, kTMCL]
  have h4 : (pWOAR ++ u == kUFID) = false := by simp [pWOAR, kUFID]
  simp [h1, h2, h3, h4, startsWith_append]

theorem inv_filter (s : Id3) (hs : EasyId3Inv s) (P : Text × IFrame → Bool) : EasyId3Inv (s.filter P) := by
  refine ⟨?_, fun p hp => hs.2 p (List.mem_filter.1 hp).1⟩
  exact List.Nodup.sublist (List.Sublist.map _ List.filter_sublist) hs.1

theorem inv_website_set (l : List Text) (s : Id3) (hs : EasyId3Inv s) :
    EasyId3Inv (woarPut l (delallPrefix pWOAR s)) := by
  have hb := inv_filter s hs (fun p => !startsWith pWOAR p.1)
  refine ⟨nodup_woarPut l _ hb.1, ?_⟩
  intro p hp
  rcases mem_woarPut l _ p hp with h | ⟨u, rfl⟩
  · exact hb.2 p h
  · simp [frameOK, class_woar_put]

theorem class_woar (hk : Text) (h : startsWith pWOAR hk = true) : hkClass hk = .woar := by
  unfold hkClass
  have h1 : (hk == kTCON) = false := by
    cases hh : hk == kTCON with
    | false => rfl
    | true => have := eq_of_beq hh; subst this; exact absurd h (by decide)
  have h2 : (hk == [84, 68, 82, 67] || hk == [84, 68, 79, 82]) = false := by
    cases hh : (hk == [84, 68, 82, 67] || hk == [84, 68, 79, 82]) with
    | false => rfl
    | true =>
      rcases Bool.or_eq_true_iff.1 hh with h' | h' <;> (have := eq_of_beq h'; subst this; exact absurd h (by decide))
  have h3 : (hk == kTMCL) = false := by
    cases hh : hk == kTMCL with
    | false => rfl
    | true => have := eq_of_beq hh; subst this; exact absurd h (by decide)
  have h4 : (hk == kUFID) = false := by
    cases hh : hk == kUFID with
    | false => rfl
    | true => have := eq_of_beq hh; subst this; exact absurd h (by decide)
  simp [h1, h2, h3, h4, h]

/-- under the invariant every `WOAR:…` key holds a WOAR frame -/
theorem web_frames (s : Id3) (hs : EasyId3Inv s) (p : Text × IFrame) (hp : p ∈ getallPrefix pWOAR s) :
    ∃ u, p.2 = .woar u := by
  have hm := List.mem_filter.1 hp
  have hok := hs.2 p hm.1
  unfold frameOK at hok
  rw [class_woar p.1 hm.2] at hok
  cases hf : p.2 <;> simp [hf] at hok
  exact ⟨_, rfl⟩

theorem web_urls_nil (s : Id3) (hs : EasyId3Inv s) :
    (getallPrefix pWOAR s).filterMap (fun p => woarUrl p.2) = [] ↔ getallPrefix pWOAR s = [] := by
  constructor
  · intro h
    cases hg : getallPrefix pWOAR s with
    | nil => rfl
    | cons p t =>
      exfalso
      obtain ⟨u, hu⟩ := web_frames s hs p (by rw [hg]; simp)
      rw [hg] at h
      simp [List.filterMap_cons, hu, woarUrl] at h
  · intro h; rw [h]; rfl

theorem web_get_nil (s : Id3) (e : EIEntry) (kt : Text) (h : e.kind = .website)
    (hf : (getallPrefix pWOAR s).filterMap (fun p => woarUrl p.2) = []) : eiGet s e kt = .error .key := by
  unfold eiGet; simp only [h, hf]

theorem web_get_cons (s : Id3) (e : EIEntry) (kt : Text) (h : e.kind = .website) (a : Text) (t : List Text)
    (hf : (getallPrefix pWOAR s).filterMap (fun p => woarUrl p.2) = a :: t) :
    eiGet s e kt = .ok (textsVal (a :: t)) := by
  unfold eiGet; simp only [h, hf]

/-! ### good entries -/

theorem eiGood_cases (e : EIEntry) (h : eiGood e = true) : eiPlain e = true ∨ e.kind = .website := by
  simp only [eiGood, Bool.or_eq_true, beq_iff_eq] at h; exact h

theorem eiNormKey_good (e : EIEntry) (kt : Text) (hp : eiGood e = true) : eiNormKey e kt = e.key := by
  unfold eiNormKey
  rcases eiGood_cases e hp with h | h
  · unfold eiPlain at h
    cases hkd : e.kind <;> simp only [hkd] at h ⊢ <;> simp at h
  · simp [h]

theorem eiGet_kt (s : Id3) (e : EIEntry) (k1 k2 : Text) (hp : eiGood e = true) : eiGet s e k1 = eiGet s e k2 := by
  unfold eiGet
  rcases eiGood_cases e hp with h | h
  · unfold eiPlain at h
    cases hkd : e.kind <;> simp only [hkd] at h ⊢ <;> simp at h
  · simp only [h]

theorem eiGoodKey_good (e : EIEntry) (he : e ∈ easyId3Registry) (hp : eiGood e = true) :
    eiGoodKey (.str e.key) = true := by
  simp [eiGoodKey, eiEntryOf_plain e he, hp]

theorem normG_ok (k κ : PKey) (h : easyId3PolicyG.norm k = .ok κ) :
    ∃ e kt, eiEntryOf k = some (e, kt) ∧ eiGoodKey k = true ∧ eiGood e = true ∧ e ∈ easyId3Registry ∧
      κ = .str e.key := by
  simp only [easyId3PolicyG, easyId3Policy] at h
  cases hg : eiGoodKey k with
  | false => simp [hg] at h
  | true =>
    simp only [hg, ↓reduceIte] at h
    cases he : eiEntryOf k with
    | none => simp [he] at h
    | some p =>
      obtain ⟨e, kt⟩ := p
      simp only [he, Except.ok.injEq] at h
      obtain ⟨hp, hm, _, _⟩ := eiEntryOf_good k e kt he hg
      exact ⟨e, kt, rfl, rfl, hp, hm, by rw [← h, eiNormKey_good e kt hp]⟩

theorem normG_good (e : EIEntry) (he : e ∈ easyId3Registry) (hp : eiGood e = true) :
    easyId3PolicyG.norm (.str e.key) = .ok (.str e.key) := by
  simp [easyId3PolicyG, easyId3Policy, eiGoodKey_good e he hp, eiEntryOf_plain e he, eiNormKey_good e _ hp]

theorem getG_good (s : Id3) (e : EIEntry) (he : e ∈ easyId3Registry) (hp : eiGood e = true) :
    easyId3ImplG.getitem s (.str e.key) = eiGet s e e.key := by
  simp [easyId3ImplG, eiGoodKey_good e he hp, easyId3Get, eiEntryOf_plain e he]

/-- under the invariant the getter of a good entry answers `KeyError` or a value -/
theorem eiGet_good (s : Id3) (hs : EasyId3Inv s) (e : EIEntry) (he : e ∈ easyId3Registry) (hp : eiGood e = true)
    (kt : Text) : eiGet s e kt = .error .key ∨ ∃ v, eiGet s e kt = .ok v := by
  rcases eiGood_cases e hp with h | h
  · exact eiGet_plain s hs e he h kt
  · cases hf : (getallPrefix pWOAR s).filterMap (fun p => woarUrl p.2) with
    | nil => left; exact web_get_nil s e kt h hf
    | cons a t => right; exact ⟨_, web_get_cons s e kt h a t hf⟩

theorem slot_hk (e : EIEntry) (he : e ∈ easyId3Registry) (hp : eiPlain e = true) :
    ∃ hk, hkOf e = some hk ∧ startsWith pWOAR hk = false := by
  have h1 : easyId3Registry.all (fun e => !eiPlain e || match hkOf e with
      | some hk => !startsWith pWOAR hk
      | none => false) = true := by decide +kernel
  have := List.all_eq_true.1 h1 e he
  simp only [hp, Bool.not_true, Bool.false_or] at this
  cases hh : hkOf e with
  | none => simp [hh] at this
  | some hk => simp [hh] at this; exact ⟨hk, rfl, this⟩

theorem inv_lookup_none (s : Id3) (hs : EasyId3Inv s) (hk : Text) (hc : ∀ f, frameOK hk f = false) :
    lookup hk s = none := by
  cases hl : lookup hk s with
  | none => rfl
  | some f => have := inv_lookup s hs hk f hl; rw [hc f] at this; cases this

theorem inv_no_tmcl (s : Id3) (hs : EasyId3Inv s) : lookup kTMCL s = none :=
  inv_lookup_none s hs _ (fun f => by
    have hc : hkClass kTMCL = .tmcl := by decide
    cases f <;> simp [frameOK, hc])

theorem inv_no_rva2star (s : Id3) (hs : EasyId3Inv s) : lookup (pRVA2 ++ [42]) s = none :=
  inv_lookup_none s hs _ (fun f => by
    have hc : hkClass (pRVA2 ++ [42]) = .rva2 := by decide
    cases f <;> simp [frameOK, hc])

theorem frameOK_not_rva2 (hk : Text) (f : IFrame) (h : frameOK hk f = true) : ∀ d c g p, f ≠ .rva2 d c g p := by
  intro d c g p e; subst e; unfold frameOK at h; cases hkClass hk <;> simp at h

theorem performerKeys_inv (s : Id3) (hs : EasyId3Inv s) : performerKeys s = [] := by
  simp [performerKeys, peopleOf, inv_no_tmcl s hs]

theorem gainKeys_inv (s : Id3) (hs : EasyId3Inv s) : gainKeys s = [] := by
  unfold gainKeys
  rw [List.flatten_eq_nil_iff]
  intro l hl
  obtain ⟨p, hp, rfl⟩ := List.mem_map.1 hl
  have hm : p ∈ s := (List.mem_filter.1 hp).1
  have := frameOK_not_rva2 p.1 p.2 (hs.2 p hm)
  cases hf : p.2 <;> simp [hf]
  exact absurd hf (this _ _ _ _)

/-- under the invariant, what one key of `Get` contributes to `keys()` -/
theorem eiKeysOf_inv (s : Id3) (hs : EasyId3Inv s) (e : EIEntry) (he : e ∈ easyId3Registry) :
    eiKeysOf s e = if eiGood e && (eiGet s e e.key).toOption.isSome then [e.key] else [] := by
  unfold eiKeysOf
  cases hkd : e.kind with
  | performer => simp [eiGood, eiPlain, hkd, performerKeys_inv s hs]
  | gain => simp [eiGood, eiPlain, hkd, gainKeys_inv s hs]
  | peak =>
    have hkey : e.key = pReplaygain ++ [42] ++ sPeak := by
      have : easyId3Registry.all (fun e => !(e.kind == .peak) || e.key == pReplaygain ++ [42] ++ sPeak) = true := by
        decide +kernel
      have := List.all_eq_true.1 this e he
      simpa [hkd] using this
    have hg : easyId3Get s (.str e.key) = .error .key := by
      simp only [easyId3Get, eiEntryOf_plain e he, eiGet, hkd]
      have hd : descOf e.key = [42] := by rw [hkey]; decide
      rw [hd, inv_no_rva2star s hs]
    simp [eiGood, eiPlain, hkd, hg]
  | _ =>
    have hp : eiGood e = true := by simp [eiGood, eiPlain, hkd]
    have hg : easyId3Get s (.str e.key) = eiGet s e e.key := by simp [easyId3Get, eiEntryOf_plain e he]
    rw [hg]
    rcases eiGet_good s hs e he hp e.key with h1 | ⟨v, h1⟩ <;> simp [hp, h1, Except.toOption]

def eiShown (s : Id3) (e : EIEntry) : Bool := eiGood e && (eiGet s e e.key).toOption.isSome

theorem flatten_singletons {α β : Type} (l : List α) (q : α → Bool) (g : α → β) (f : α → List β)
    (h : ∀ a ∈ l, f a = if q a then [g a] else []) : (l.map f).flatten = (l.filter q).map g := by
  induction l with
  | nil => rfl
  | cons a t ih =>
    have ha := h a (by simp)
    have := ih (fun x hx => h x (by simp [hx]))
    by_cases hq : q a <;> simp [List.filter_cons, hq, ha, this]

theorem easyId3Keys_inv (s : Id3) (hs : EasyId3Inv s) :
    easyId3Keys s = (easyId3Registry.filter (eiShown s)).map (fun e => PKey.str e.key) := by
  unfold easyId3Keys
  rw [flatten_singletons easyId3Registry (eiShown s) (·.key) (eiKeysOf s) (fun e he => eiKeysOf_inv s hs e he)]
  simp [List.map_map]

theorem str_key_inj (e1 e2 : EIEntry) (h1 : e1 ∈ easyId3Registry) (h2 : e2 ∈ easyId3Registry) (h : e1.key = e2.key) :
    e1 = e2 := inj_of_nodup_map (·.key) _ eiReg_keys_nodup e1 e2 h1 h2 h

theorem mem_keys_inv (s : Id3) (hs : EasyId3Inv s) (e : EIEntry) (he : e ∈ easyId3Registry) :
    PKey.str e.key ∈ easyId3Keys s ↔ eiShown s e = true := by
  rw [easyId3Keys_inv s hs, List.mem_map]
  constructor
  · rintro ⟨e', hm, hk⟩
    have hm' := List.mem_filter.1 hm
    injection hk with hk
    have := str_key_inj e' e hm'.1 he hk
    subst this; exact hm'.2
  · intro h; exact ⟨e, List.mem_filter.2 ⟨he, h⟩, rfl⟩

theorem keys_nodup_inv (s : Id3) (hs : EasyId3Inv s) : (easyId3Keys s).Nodup := by
  rw [easyId3Keys_inv s hs]
  have h1 : ((easyId3Registry.filter (eiShown s)).map (·.key)).Nodup :=
    List.Nodup.sublist (List.Sublist.map _ List.filter_sublist) eiReg_keys_nodup
  have : (easyId3Registry.filter (eiShown s)).map (fun e => PKey.str e.key) =
      ((easyId3Registry.filter (eiShown s)).map (·.key)).map PKey.str := by simp [List.map_map]
  rw [this]
  exact List.Pairwise.map PKey.str (fun a b h e => h (by injection e)) h1

theorem inv_insert (s : Id3) (hs : EasyId3Inv s) (hk : Text) (f : IFrame) (hf : frameOK hk f = true) :
    EasyId3Inv (insert hk f s) := by
  refine ⟨nodup_insert _ _ _ hs.1, ?_⟩
  intro p hp
  rcases mem_insert_cases _ _ _ _ hp with h | h
  · subst h; exact hf
  · exact hs.2 p h

theorem inv_erase (s : Id3) (hs : EasyId3Inv s) (hk : Text) : EasyId3Inv (erase hk s) :=
  ⟨nodup_erase _ _ hs.1, fun p hp => hs.2 p (mem_of_mem_erase _ _ _ hp)⟩


/-- the reading of a good entry does not change when the native tags change elsewhere: outside
its own HashKey (single-frame entries) resp. outside the `WOAR:` keys (`website`) -/
theorem eiGet_frame (s s' : Id3) (e2 : EIEntry) (he2 : e2 ∈ easyId3Registry) (hg2 : eiGood e2 = true) (k2 : Text)
    (hslot : ∀ hk, hkOf e2 = some hk → lookup hk s' = lookup hk s)
    (hweb : e2.kind = .website → getallPrefix pWOAR s' = getallPrefix pWOAR s) :
    eiGet s' e2 k2 = eiGet s e2 k2 := by
  rcases eiGood_cases e2 hg2 with h | h
  · obtain ⟨hk2, h2, _⟩ := slot_hk e2 he2 h
    exact eiGet_congr s' s e2 k2 hk2 h2 (hslot hk2 h2)
  · exact eiGet_web_congr s' s e2 k2 h (hweb h)

/-- what the setter of a good entry does, for all states at once -/
theorem ei_set_effect (e : EIEntry) (he : e ∈ easyId3Registry) (hg : eiGood e = true) (kt : Text) (v : PVal) :
    (∃ err, ∀ s0, eiSet s0 e kt v = (.error err, s0)) ∨
    (∃ T : Id3 → Id3, (∀ s0, eiSet s0 e kt v = (.ok (), T s0)) ∧ (∀ s0, EasyId3Inv s0 → EasyId3Inv (T s0)) ∧
      (∀ s0 e2 k2, e2 ∈ easyId3Registry → eiGood e2 = true → e2 ≠ e → eiGet (T s0) e2 k2 = eiGet s0 e2 k2) ∧
      (∀ s0, eiGet (T s0) e kt = eiGet (T []) e kt)) := by
  rcases eiGood_cases e hg with hp | hw
  · obtain ⟨hk, hhk, hnw⟩ := slot_hk e he hp
    cases hf : slotFrame e v with
    | error err =>
      left; exact ⟨err, fun s0 => by rw [eiSet_slot s0 e kt v hk hhk hp, hf]⟩
    | ok f =>
      right
      have hok := slotFrame_ok e he v f hk hhk hf
      refine ⟨fun s0 => insert hk f s0, fun s0 => by rw [eiSet_slot s0 e kt v hk hhk hp, hf],
        fun s0 hs0 => inv_insert s0 hs0 hk f hok, ?_, ?_⟩
      · intro s0 e2 k2 he2 hg2 hne
        apply eiGet_frame _ _ e2 he2 hg2 k2
        · intro hk2 h2
          have hp2 : eiPlain e2 = true := by
            rcases eiGood_cases e2 hg2 with h | h
            · exact h
            · simp [hkOf, h] at h2
          have : ¬ hk = hk2 := fun heq => hne (hk_inj e e2 he he2 hp hp2 hk hhk (heq ▸ h2)).symm
          rw [lookup_insert]; simp [this]
        · intro _; exact getall_insert_other pWOAR hk f hnw s0
      · intro s0
        exact eiGet_congr _ _ e kt hk hhk (by rw [lookup_insert, lookup_insert]; simp)
  · -- website
    unfold eiSet
    cases hi : eiItems v with
    | none => left; exact ⟨.notImplemented, fun s0 => rfl⟩
    | some items =>
      cases ht : eiTexts items with
      | none => left; exact ⟨.notImplemented, fun s0 => by simp only [hw, ht]⟩
      | some l =>
        right
        refine ⟨fun s0 => woarPut l (delallPrefix pWOAR s0), fun s0 => by simp only [hw, ht],
          fun s0 hs0 => inv_website_set l s0 hs0, ?_, ?_⟩
        · intro s0 e2 k2 he2 hg2 hne
          apply eiGet_frame _ _ e2 he2 hg2 k2
          · intro hk2 h2
            have hp2 : eiPlain e2 = true := by
              rcases eiGood_cases e2 hg2 with h | h
              · exact h
              · simp [hkOf, h] at h2
            obtain ⟨hk2', h2', hnw⟩ := slot_hk e2 he2 hp2
            rw [h2] at h2'; injection h2' with h2'; subst h2'
            rw [lookup_woarPut_other hk2 hnw, lookup_delall]; simp [hnw]
          · intro hw2
            exfalso; apply hne
            have h1 : easyId3Registry.all (fun x => !(x.kind == .website) || x.key == [119, 101, 98, 115, 105, 116, 101]) = true := by
              decide +kernel
            have a := List.all_eq_true.1 h1 e he
            have b := List.all_eq_true.1 h1 e2 he2
            simp [hw, hw2] at a b
            exact str_key_inj e2 e he2 he (b.trans a.symm)
        · intro s0
          exact eiGet_web_congr _ _ e kt hw (getall_website_set l s0)

/-- what the deleter of a good entry does -/
theorem ei_del_effect (s : Id3) (hs : EasyId3Inv s) (e : EIEntry) (he : e ∈ easyId3Registry) (hg : eiGood e = true)
    (kt : Text) :
    (eiGet s e kt = .error .key → eiDel s e kt = .error .key) ∧
    (∀ v, eiGet s e kt = .ok v → ∃ s', eiDel s e kt = .ok s' ∧ EasyId3Inv s' ∧ eiGet s' e kt = .error .key ∧
      ∀ e2 k2, e2 ∈ easyId3Registry → eiGood e2 = true → e2 ≠ e → eiGet s' e2 k2 = eiGet s e2 k2) := by
  rcases eiGood_cases e hg with hp | hw
  · obtain ⟨hk, hhk, hnw⟩ := slot_hk e he hp
    rw [eiDel_slot s e kt hk hhk hp]
    cases hl : lookup hk s with
    | none => exact ⟨fun _ => rfl, fun v hv => by rw [eiGet_none s e kt hk hhk hl] at hv; cases hv⟩
    | some f =>
      refine ⟨fun h => ?_, fun v hv => ⟨erase hk s, rfl, inv_erase s hs hk, ?_, ?_⟩⟩
      · obtain ⟨v, hv⟩ := eiGet_some s hs e he hp kt hk f hhk hl
        rw [hv] at h; cases h
      · exact eiGet_none _ e kt hk hhk (by rw [lookup_erase _ _ _ hs.1]; simp)
      · intro e2 k2 he2 hg2 hne
        apply eiGet_frame _ _ e2 he2 hg2 k2
        · intro hk2 h2
          have hp2 : eiPlain e2 = true := by
            rcases eiGood_cases e2 hg2 with h | h
            · exact h
            · simp [hkOf, h] at h2
          have : hk ≠ hk2 := fun heq => hne (hk_inj e e2 he he2 hp hp2 hk hhk (heq ▸ h2)).symm
          exact lookup_erase_ne _ _ _ this
        · intro _; exact getall_erase_other pWOAR hk hnw s
  · cases hga : getallPrefix pWOAR s with
    | nil =>
      have hdel : eiDel s e kt = .error .key := by unfold eiDel; simp only [hw, hga]
      rw [hdel]
      refine ⟨fun _ => rfl, fun v hv => ?_⟩
      rw [web_get_nil s e kt hw (by rw [hga]; rfl)] at hv; cases hv
    | cons p t =>
      have hdel : eiDel s e kt = .ok (delallPrefix pWOAR s) := by unfold eiDel; simp only [hw, hga]
      rw [hdel]
      refine ⟨fun h => ?_, fun v hv => ⟨delallPrefix pWOAR s, rfl, inv_filter s hs _, ?_, ?_⟩⟩
      · exfalso
        cases hfm : (getallPrefix pWOAR s).filterMap (fun p => woarUrl p.2) with
        | nil => rw [(web_urls_nil s hs).1 hfm] at hga; cases hga
        | cons a r => rw [web_get_cons s e kt hw a r hfm] at h; cases h
      · exact web_get_nil _ e kt hw (by rw [getall_delall]; rfl)
      · intro e2 k2 he2 hg2 hne
        apply eiGet_frame _ _ e2 he2 hg2 k2
        · intro hk2 h2
          have hp2 : eiPlain e2 = true := by
            rcases eiGood_cases e2 hg2 with h | h
            · exact h
            · simp [hkOf, h] at h2
          obtain ⟨hk2', h2', hnw⟩ := slot_hk e2 he2 hp2
          rw [h2] at h2'; injection h2' with h2'; subst h2'
          rw [lookup_delall]; simp [hnw]
        · intro hw2
          exfalso; apply hne
          have h1 : easyId3Registry.all (fun x => !(x.kind == .website) || x.key == [119, 101, 98, 115, 105, 116, 101]) = true := by
            decide +kernel
          have a := List.all_eq_true.1 h1 e he
          have b := List.all_eq_true.1 h1 e2 he2
          simp [hw, hw2] at a b
          exact str_key_inj e2 e he2 he (b.trans a.symm)

theorem easyid3_viewlaws : ViewLaws easyId3ImplG easyId3PolicyG EasyId3Inv where
  keys_nodup := keys_nodup_inv
  keys_normal := fun s hs κ hκ => by
    have hκ : κ ∈ easyId3Keys s := hκ
    rw [easyId3Keys_inv s hs, List.mem_map] at hκ
    obtain ⟨e, hm, rfl⟩ := hκ
    have hm' := List.mem_filter.1 hm
    have hp : eiGood e = true := by
      have := hm'.2; simp only [eiShown, Bool.and_eq_true] at this; exact this.1
    exact normG_good e hm'.1 hp
  keys_get := fun s hs κ hκ => by
    obtain ⟨e, kt, _, _, hp, he, rfl⟩ := normG_ok κ κ hκ
    show PKey.str e.key ∈ easyId3Keys s ↔ _
    rw [mem_keys_inv s hs e he, getG_good s e he hp]
    simp only [eiShown, hp, Bool.true_and]
    cases eiGet s e e.key <;> simp [Except.toOption]
  get_err := fun s hs κ err hκ hg => by
    obtain ⟨e, kt, _, _, hp, he, rfl⟩ := normG_ok κ κ hκ
    rw [getG_good s e he hp] at hg
    rcases eiGet_good s hs e he hp e.key with h1 | ⟨v, h1⟩
    · rw [h1] at hg; injection hg with hg; exact hg.symm
    · rw [h1] at hg; cases hg
  norm_idem := fun k κ h => by
    obtain ⟨e, kt, _, _, hp, he, rfl⟩ := normG_ok k κ h
    exact normG_good e he hp
  get_norm := fun s k κ hs h => by
    obtain ⟨e, kt, hent, hg, hp, he, rfl⟩ := normG_ok k κ h
    rw [getG_good s e he hp]
    simp only [easyId3ImplG, hg, ↓reduceIte, easyId3Get, hent]
    exact eiGet_kt s e kt e.key hp
  bad_key := fun s k err hs h => by
    simp only [easyId3PolicyG, easyId3Policy] at h
    cases hg : eiGoodKey k with
    | false =>
      simp only [hg] at h
      have : err = .notImplemented := by simpa using h.symm
      subst this
      simp [easyId3ImplG, hg]
    | true =>
      simp only [hg, ↓reduceIte] at h
      cases hent : eiEntryOf k with
      | some p => simp [hent] at h
      | none =>
        simp only [hent, Except.error.injEq] at h
        subst h
        simp [easyId3ImplG, hg, easyId3Get, easyId3Set, easyId3SetFull, easyId3Del, hent]
  set_err := fun s k κ v err hs hn hc => by
    obtain ⟨e, kt, hent, hg, hp, he, rfl⟩ := normG_ok k κ hn
    simp only [easyId3PolicyG, easyId3Policy, hent, eiCoerce] at hc
    simp only [easyId3ImplG, hg, ↓reduceIte, easyId3Set, easyId3SetFull, hent]
    rcases ei_set_effect e he hp kt v with ⟨err', h1⟩ | ⟨T, h1, h2, h3, h4⟩
    · rw [h1 []] at hc; rw [h1 s]
      simpa using hc
    · exfalso
      rw [h1 []] at hc
      rcases eiGet_good (T []) (h2 [] easyId3Inv_nil) e he hp kt with h5 | ⟨vv, h5⟩ <;> simp [h5] at hc
  set_some := fun s k κ v v' hs hn hc => by
    obtain ⟨e, kt, hent, hg, hp, he, rfl⟩ := normG_ok k κ hn
    simp only [easyId3PolicyG, easyId3Policy, hent, eiCoerce] at hc
    rcases ei_set_effect e he hp kt v with ⟨err', h1⟩ | ⟨T, h1, h2, h3, h4⟩
    · rw [h1 []] at hc; simp at hc
    · rw [h1 []] at hc
      have hread : eiGet (T []) e kt = .ok v' := by
        rcases eiGet_good (T []) (h2 [] easyId3Inv_nil) e he hp kt with h5 | ⟨vv, h5⟩ <;> simp [h5] at hc
        rw [h5, hc]
      refine ⟨T s, ?_, h2 s hs, ?_⟩
      · simp [easyId3ImplG, hg, easyId3Set, easyId3SetFull, hent, h1 s]
      · intro κ2 hn2
        obtain ⟨e2, kt2, _, _, hp2, he2, rfl⟩ := normG_ok κ2 κ2 hn2
        rw [getG_good _ e2 he2 hp2, getG_good _ e2 he2 hp2]
        by_cases heq : e = e2
        · subst heq
          simp only [↓reduceIte]
          rw [eiGet_kt _ e e.key kt hp, h4 s, hread]
        · have hne : ¬ PKey.str e.key = PKey.str e2.key := fun h => heq (str_key_inj e e2 he he2 (by injection h))
          simp only [hne, ↓reduceIte]
          exact h3 s e2 e2.key he2 hp2 (fun h => heq h.symm)
  set_none := fun s k κ v hs hn hc => by
    obtain ⟨e, kt, hent, hg, hp, he, rfl⟩ := normG_ok k κ hn
    simp only [easyId3PolicyG, easyId3Policy, hent, eiCoerce] at hc
    rcases ei_set_effect e he hp kt v with ⟨err', h1⟩ | ⟨T, h1, h2, h3, h4⟩
    · rw [h1 []] at hc; simp at hc
    · rw [h1 []] at hc
      have hread : eiGet (T []) e kt = .error .key := by
        rcases eiGet_good (T []) (h2 [] easyId3Inv_nil) e he hp kt with h5 | ⟨vv, h5⟩
        · exact h5
        · simp [h5] at hc
      refine ⟨T s, ?_, h2 s hs, ?_⟩
      · simp [easyId3ImplG, hg, easyId3Set, easyId3SetFull, hent, h1 s]
      · intro κ2 hn2
        obtain ⟨e2, kt2, _, _, hp2, he2, rfl⟩ := normG_ok κ2 κ2 hn2
        rw [getG_good _ e2 he2 hp2, getG_good _ e2 he2 hp2]
        by_cases heq : e = e2
        · subst heq
          simp only [↓reduceIte]
          rw [eiGet_kt _ e e.key kt hp, h4 s, hread]
        · have hne : ¬ PKey.str e.key = PKey.str e2.key := fun h => heq (str_key_inj e e2 he he2 (by injection h))
          simp only [hne, ↓reduceIte]
          exact h3 s e2 e2.key he2 hp2 (fun h => heq h.symm)
  del_absent := fun s k κ hs hn hg0 => by
    obtain ⟨e, kt, hent, hg, hp, he, rfl⟩ := normG_ok k κ hn
    rw [getG_good s e he hp, eiGet_kt s e e.key kt hp] at hg0
    simp only [easyId3ImplG, hg, ↓reduceIte, easyId3Del, hent]
    exact (ei_del_effect s hs e he hp kt).1 hg0
  del_present := fun s k κ v hs hn hg0 => by
    obtain ⟨e, kt, hent, hg, hp, he, rfl⟩ := normG_ok k κ hn
    rw [getG_good s e he hp, eiGet_kt s e e.key kt hp] at hg0
    obtain ⟨s', h1, h2, h3, h4⟩ := (ei_del_effect s hs e he hp kt).2 v hg0
    refine ⟨s', ?_, h2, ?_⟩
    · simp [easyId3ImplG, hg, easyId3Del, hent, h1]
    · intro κ2 hn2
      obtain ⟨e2, kt2, _, _, hp2, he2, rfl⟩ := normG_ok κ2 κ2 hn2
      rw [getG_good _ e2 he2 hp2, getG_good _ e2 he2 hp2]
      by_cases heq : e = e2
      · subst heq
        simp only [↓reduceIte]
        rw [eiGet_kt _ e e.key kt hp, h3]
      · have hne : ¬ PKey.str e.key = PKey.str e2.key := fun h => heq (str_key_inj e e2 he he2 (by injection h))
        simp only [hne, ↓reduceIte]
        exact h4 e2 e2.key he2 hp2 (fun h => heq h.symm)

theorem easyid3_refines_aux : KRefines easyId3ImplG easyId3PolicyG EasyId3Inv (viewAbs easyId3ImplG) :=
  view_refines easyid3_viewlaws

/-! ### the guarded store is the model on good keys: run congruence -/

theorem easyid3_guardOf : GuardOf eiGoodKey easyId3Impl easyId3ImplG where
  keys := fun s => rfl
  get := fun s k h => by simp [easyId3ImplG, easyId3Impl, h]
  set := fun s k v h => by simp [easyId3ImplG, easyId3Impl, h]
  del := fun s k h => by simp [easyId3ImplG, easyId3Impl, h]

theorem keys_good_inv (s : Id3) (hs : EasyId3Inv s) : ∀ k ∈ easyId3Impl.keys s, eiGoodKey k = true := by
  intro k hk
  have hn := easyid3_viewlaws.keys_normal s hs k hk
  obtain ⟨_, _, _, hg, _⟩ := normG_ok k k hn
  exact hg

theorem easyid3_run_congr_aux (ops : List (Op PKey PVal)) (s : Id3) (hs : EasyId3Inv s)
    (hops : ∀ op ∈ ops, ∀ k ∈ Op.keysOf op, eiGoodKey k = true) :
    easyId3ImplG.run ops s = easyId3Impl.run ops s ∧ easyId3ImplG.exec ops s = easyId3Impl.exec ops s :=
  guard_run easyid3_guardOf EasyId3Inv keys_good_inv
    (fun s op hs => (kstep_exact easyid3_refines_aux s hs op).2.1) ops s hs hops

/-- on a good key a raising `__setitem__` leaves the native tags alone (no residue) -/
theorem setFull_good (s : Id3) (k : PKey) (v : PVal) (hg : eiGoodKey k = true) :
    (∃ err, easyId3SetFull s k v = (.error err, s)) ∨ (∃ s', easyId3SetFull s k v = (.ok (), s')) := by
  unfold easyId3SetFull
  cases hent : eiEntryOf k with
  | none => left; exact ⟨.key, rfl⟩
  | some p =>
    obtain ⟨e, kt⟩ := p
    obtain ⟨hp, he, _, _⟩ := eiEntryOf_good k e kt hent hg
    rcases ei_set_effect e he hp kt v with ⟨err, h1⟩ | ⟨T, h1, _⟩
    · left; exact ⟨err, h1 s⟩
    · right; exact ⟨T s, h1 s⟩

theorem updateFull_good (l : List (PKey × PVal)) (hl : ∀ p ∈ l, eiGoodKey p.1 = true) :
    ∀ s, easyId3UpdateFull l s = easyId3Impl.update l s := by
  induction l with
  | nil => intro s; rfl
  | cons p t ih =>
    obtain ⟨k, v⟩ := p
    intro s
    have ih' := ih (fun q hq => hl q (by simp [hq]))
    simp only [easyId3UpdateFull, MapImpl.update, easyId3Impl, easyId3Set]
    rcases setFull_good s k v (hl (k, v) (by simp)) with ⟨err, h⟩ | ⟨s', h⟩
    · simp [h]
    · simp only [h]; exact ih' s'

/-- on operations that mention good keys only, the real object (`easyId3Step`, with its residues)
is `DictMixin` over the four primitives -/
theorem easyId3Step_good (s : Id3) (op : Op PKey PVal) (hop : ∀ k ∈ Op.keysOf op, eiGoodKey k = true) :
    easyId3Step s op = easyId3Impl.step s op := by
  cases op with
  | set k v =>
    simp only [easyId3Step, MapImpl.step, easyId3Impl, easyId3Set]
    rcases setFull_good s k v (hop k (by simp [Op.keysOf])) with ⟨err, h⟩ | ⟨s', h⟩ <;> simp [h]
  | update l =>
    simp only [easyId3Step, MapImpl.step]
    rw [updateFull_good l (fun p hp => hop p.1 (by simp only [Op.keysOf]; exact List.mem_map_of_mem hp)) s]
  | setdefault k d =>
    simp only [easyId3Step, MapImpl.step, MapImpl.setdefault, easyId3Impl, easyId3Set]
    cases easyId3Get s k with
    | ok v => rfl
    | error e =>
      by_cases he : e = .key
      · simp only [he, ↓reduceIte]
        rcases setFull_good s k d (hop k (by simp [Op.keysOf])) with ⟨err, h⟩ | ⟨s', h⟩ <;> simp [h, outOf]
      · simp [he, outOf]
  | _ => rfl

theorem easyid3_real_run_congr_aux (ops : List (Op PKey PVal)) : ∀ (s : Id3), EasyId3Inv s →
    (∀ op ∈ ops, ∀ k ∈ Op.keysOf op, eiGoodKey k = true) → easyId3Run ops s = easyId3ImplG.run ops s := by
  induction ops with
  | nil => intro s _ _; rfl
  | cons op t ih =>
    intro s hs hall
    have h1 := easyId3Step_good s op (hall op (by simp))
    have h2 := guard_step easyid3_guardOf s (keys_good_inv s hs) op (hall op (by simp))
    simp only [easyId3Run, MapImpl.run, h1, ← h2]
    rw [ih _ (kstep_exact easyid3_refines_aux s hs op).2.1 (fun o ho => hall o (by simp [ho]))]

/-- the native side of a successful `view[k] = v` on a good key -/
theorem easySetG_native (s s' : Id3) (k : PKey) (v : PVal) (h : easyId3ImplG.setitem s k v = .ok s') :
    ∃ e kt, eiEntryOf k = some (e, kt) ∧
      ((∃ hk f, hkOf e = some hk ∧ eiPlain e = true ∧ slotFrame e v = .ok f ∧ s' = insert hk f s) ∨
       (e.kind = .website ∧ ∃ l, s' = woarPut l (delallPrefix pWOAR s))) := by
  simp only [easyId3ImplG] at h
  cases hg : eiGoodKey k with
  | false => simp [hg] at h
  | true =>
    simp only [hg, ↓reduceIte, easyId3Set, easyId3SetFull] at h
    cases hent : eiEntryOf k with
    | none => simp [hent] at h
    | some p =>
      obtain ⟨e, kt⟩ := p
      obtain ⟨hp, he, _, _⟩ := eiEntryOf_good k e kt hent hg
      refine ⟨e, kt, rfl, ?_⟩
      simp only [hent] at h
      rcases eiGood_cases e hp with hpl | hw
      · left
        obtain ⟨hk, hhk, _⟩ := slot_hk e he hpl
        simp only [eiSet_slot s e kt v hk hhk hpl] at h
        cases hf : slotFrame e v with
        | error err => simp [hf] at h
        | ok f =>
          simp only [hf, Except.ok.injEq] at h
          exact ⟨hk, f, hhk, hpl, rfl, h.symm⟩
      · right
        refine ⟨hw, ?_⟩
        unfold eiSet at h
        cases hi : eiItems v with
        | none => simp [hi] at h
        | some items =>
          cases ht : eiTexts items with
          | none => simp [hi, hw, ht] at h
          | some l =>
            simp only [hi, hw, ht, Except.ok.injEq] at h
            exact ⟨l, h.symm⟩

theorem easyDelG_native (s s' : Id3) (k : PKey) (h : easyId3ImplG.delitem s k = .ok s') :
    ∃ e kt, eiEntryOf k = some (e, kt) ∧
      ((∃ hk, hkOf e = some hk ∧ eiPlain e = true ∧ s' = erase hk s) ∨
       (e.kind = .website ∧ s' = delallPrefix pWOAR s)) := by
  simp only [easyId3ImplG] at h
  cases hg : eiGoodKey k with
  | false => simp [hg] at h
  | true =>
    simp only [hg, ↓reduceIte, easyId3Del] at h
    cases hent : eiEntryOf k with
    | none => simp [hent] at h
    | some p =>
      obtain ⟨e, kt⟩ := p
      obtain ⟨hp, he, _, _⟩ := eiEntryOf_good k e kt hent hg
      refine ⟨e, kt, rfl, ?_⟩
      simp only [hent] at h
      rcases eiGood_cases e hp with hpl | hw
      · left
        obtain ⟨hk, hhk, _⟩ := slot_hk e he hpl
        simp only [eiDel_slot s e kt hk hhk hpl] at h
        cases hl : lookup hk s with
        | none => simp [hl] at h
        | some f =>
          simp only [hl, Except.ok.injEq] at h
          exact ⟨hk, hhk, hpl, h.symm⟩
      · right
        refine ⟨hw, ?_⟩
        unfold eiDel at h
        cases hga : getallPrefix pWOAR s with
        | nil => simp [hw, hga] at h
        | cons p t => simp only [hw, hga, Except.ok.injEq] at h; exact h.symm

/-- the HashKeys the single-frame entries own -/
def easyId3Owned : List Text := easyId3Registry.filterMap (fun e => if eiPlain e then hkOf e else none)

theorem mem_owned (e : EIEntry) (he : e ∈ easyId3Registry) (hp : eiPlain e = true) (hk : Text) (h : hkOf e = some hk) :
    hk ∈ easyId3Owned := by
  simp only [easyId3Owned, List.mem_filterMap]
  exact ⟨e, he, by simp [hp, h]⟩

theorem easyG_foreign_untouched (ops : List (Op PKey PVal)) (s : Id3) (a : Text) (ha : a ∉ easyId3Owned)
    (hw : startsWith pWOAR a = false) : lookup a (easyId3ImplG.exec ops s) = lookup a s := by
  apply exec_preserves easyId3ImplG (fun s' => lookup a s' = lookup a s)
  · intro s0 k v s' hset hq
    have hg : eiGoodKey k = true := by
      cases hg : eiGoodKey k with
      | true => rfl
      | false => simp [easyId3ImplG, hg] at hset
    obtain ⟨e, kt, hent, hcase⟩ := easySetG_native s0 s' k v hset
    obtain ⟨_, he, _, _⟩ := eiEntryOf_good k e kt hent hg
    rcases hcase with ⟨hk, f, hhk, hp, _, rfl⟩ | ⟨_, l, rfl⟩
    · have hne : ¬ hk = a := fun h => ha (h ▸ mem_owned e he hp hk hhk)
      rw [lookup_insert]; simp [hne, hq]
    · rw [lookup_woarPut_other a hw, lookup_delall]; simp [hw, hq]
  · intro s0 k s' hdel hq
    have hg : eiGoodKey k = true := by
      cases hg : eiGoodKey k with
      | true => rfl
      | false => simp [easyId3ImplG, hg] at hdel
    obtain ⟨e, kt, hent, hcase⟩ := easyDelG_native s0 s' k hdel
    obtain ⟨_, he, _, _⟩ := eiEntryOf_good k e kt hent hg
    rcases hcase with ⟨hk, hhk, hp, rfl⟩ | ⟨_, rfl⟩
    · have hne : hk ≠ a := fun h => ha (h ▸ mem_owned e he hp hk hhk)
      rw [lookup_erase_ne _ _ _ hne]; exact hq
    · rw [lookup_delall]; simp [hw, hq]
  · rfl

theorem easyId3KeysE_inv (s : Id3) (hs : EasyId3Inv s) : easyId3KeysE s = .ok (easyId3Keys s) := by
  unfold easyId3KeysE
  have : easyId3Registry.findSome? (eiOtherErr s) = none := by
    rw [List.findSome?_eq_none_iff]
    intro e he
    have hk := eiKeysOf_inv s hs e he
    unfold eiOtherErr
    unfold eiKeysOf at hk
    cases hkd : e.kind <;> simp only [hkd] at hk ⊢ <;> try rfl
    all_goals
      cases hg : easyId3Get s (.str e.key) with
      | ok v => rfl
      | error err =>
        simp only [hg] at hk ⊢
        by_cases herr : err = .key
        · subst herr; rfl
        · exfalso
          have hg' : easyId3Get s (.str e.key) = eiGet s e e.key := by simp [easyId3Get, eiEntryOf_plain e he]
          rw [hg'] at hg
          cases err <;> simp [hg, Except.toOption] at hk herr
  rw [this]


end Mutagen.Dict
