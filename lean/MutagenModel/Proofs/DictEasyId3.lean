/- Proofs/DictEasyId3.lean — the plain-key part of `EasyID3` refines the dictionary of its own items (C16) -/
import MutagenModel.Model.DictEasyId3
import MutagenModel.Proofs.DictView
import MutagenModel.Proofs.DictEasyMp4
import MutagenModel.Proofs.DictGuard
set_option linter.unusedVariables false
set_option linter.unusedSimpArgs false
namespace Mutagen.Dict
open Mutagen

/-! ### facts about the registry (finite checks) -/

theorem eiReg_keys_nodup : (easyId3Registry.map (·.key)).Nodup := by decide +kernel
theorem eiReg_lower_all : easyId3Registry.all (fun e => decide (pyLower e.key = e.key)) = true := by decide +kernel
theorem eiReg_nostar_all : easyId3Registry.all (fun e => !eiGood e || !e.key.contains 42) = true := by decide +kernel
/-- HashKeys of the plain non-website entries: distinct -/
theorem eiReg_hk_nodup : ((easyId3Registry.filter (fun e => eiPlain e && (hkOf e).isSome)).map hkOf).Nodup := by
  decide +kernel
theorem eiReg_class_all : easyId3Registry.all (fun e => match e.kind with
    | .text fid => hkClass fid == .text
    | .txxx d => hkClass (pTXXX ++ d) == .text
    | .date fid => hkClass fid == .stamps
    | _ => true) = true := by decide +kernel
theorem eiReg_plain_hk : easyId3Registry.all (fun e => !eiPlain e || (hkOf e).isSome) = true := by
  decide +kernel

theorem globMatch_nostar (p s : Text) (h : p.contains 42 = false) : globMatch p s = (p == s) := by
  induction p generalizing s with
  | nil => cases s <;> simp [globMatch]
  | cons c t ih =>
    have hc : c ≠ 42 := by intro e; subst e; simp at h
    have ht : t.contains 42 = false := by
      simp only [List.contains_cons, Bool.or_eq_false_iff] at h; exact h.2
    cases s with
    | nil => simp [globMatch, hc]
    | cons d r => simp [globMatch, hc, ih r ht]

theorem eiFind_of_plain (e : EIEntry) (he : e ∈ easyId3Registry) : eiFind e.key = some e := by
  unfold eiFind
  have h1 : easyId3Registry.find? (fun x => decide (x.key = e.key)) = some e := by
    have hn := eiReg_keys_nodup
    generalize easyId3Registry = l at he hn
    induction l with
    | nil => simp at he
    | cons a t ih =>
      simp only [List.map_cons, List.nodup_cons] at hn
      rcases List.mem_cons.1 he with h | h
      · subst h; simp
      · have hne : a.key ≠ e.key := fun heq => hn.1 (heq ▸ List.mem_map_of_mem h)
        simp [List.find?_cons, hne, ih h hn.2]
  simp [h1]

theorem eiFind_plain_key (t : Text) (e : EIEntry) (h : eiFind t = some e) (hp : eiGood e = true) :
    e ∈ easyId3Registry ∧ e.key = t := by
  unfold eiFind at h
  cases h1 : easyId3Registry.find? (fun x => decide (x.key = t)) with
  | some e1 =>
    simp only [h1, Option.some.injEq] at h
    subst h
    exact ⟨List.mem_of_find?_eq_some h1, by simpa using List.find?_some h1⟩
  | none =>
    simp only [h1] at h
    have hm := List.mem_of_find?_eq_some h
    have hg : globMatch e.key t = true := by
      have := List.find?_some h
      simpa using this
    have hs := List.all_eq_true.1 eiReg_nostar_all e hm
    simp only [hp, Bool.not_true, Bool.false_or, Bool.not_eq_true'] at hs
    rw [globMatch_nostar _ _ hs] at hg
    exact ⟨hm, by simpa using hg⟩

theorem eiReg_lower (e : EIEntry) (h : e ∈ easyId3Registry) : pyLower e.key = e.key := by
  have := List.all_eq_true.1 eiReg_lower_all e h
  simpa using this

theorem eiEntryOf_plain (e : EIEntry) (he : e ∈ easyId3Registry) : eiEntryOf (.str e.key) = some (e, e.key) := by
  simp [eiEntryOf, eiReg_lower e he, eiFind_of_plain e he]

/-- invariant of the native tags under the plain-key part of the view: unique HashKeys, every
frame of the shape its HashKey calls for (so: no TMCL, no RVA2 frame) -/
def EasyId3Inv (s : Id3) : Prop := NodupKeys s ∧ ∀ p ∈ s, frameOK p.1 p.2 = true

theorem easyId3Inv_nil : EasyId3Inv [] := ⟨List.nodup_nil, fun p hp => by simp at hp⟩

theorem inv_lookup (s : Id3) (hs : EasyId3Inv s) (hk : Text) (f : IFrame) (h : lookup hk s = some f) :
    frameOK hk f = true := hs.2 (hk, f) ((mem_iff_lookup hk f s hs.1).2 h)

theorem eiGet_congr (s1 s2 : Id3) (e : EIEntry) (kt : Text) (hk : Text) (h : hkOf e = some hk)
    (hl : lookup hk s1 = lookup hk s2) : eiGet s1 e kt = eiGet s2 e kt := by
  unfold hkOf at h
  unfold eiGet perfRead
  cases hkd : e.kind <;> simp only [hkd] at h ⊢ <;> first
    | (simp only [Option.some.injEq] at h; subst h; rw [hl])
    | simp at h

theorem eiGet_web_congr (s1 s2 : Id3) (e : EIEntry) (kt : Text) (h : e.kind = .website)
    (hl : getallPrefix pWOAR s1 = getallPrefix pWOAR s2) : eiGet s1 e kt = eiGet s2 e kt := by
  unfold eiGet; simp only [h, hl]

theorem class_of_entry (e : EIEntry) (he : e ∈ easyId3Registry) :
    (∀ fid, e.kind = .text fid → hkClass fid = .text) ∧ (∀ d, e.kind = .txxx d → hkClass (pTXXX ++ d) = .text) ∧
      (∀ fid, e.kind = .date fid → hkClass fid = .stamps) := by
  have := List.all_eq_true.1 eiReg_class_all e he
  refine ⟨?_, ?_, ?_⟩ <;> intro x hx <;> simp [hx] at this <;> exact this

/-- under the invariant the getter of a plain entry answers `KeyError` or a value -/
theorem eiGet_plain (s : Id3) (hs : EasyId3Inv s) (e : EIEntry) (he : e ∈ easyId3Registry) (hp : eiPlain e = true)
    (kt : Text) : eiGet s e kt = .error .key ∨ ∃ v, eiGet s e kt = .ok v := by
  obtain ⟨c1, c2, c3⟩ := class_of_entry e he
  unfold eiGet
  cases hkd : e.kind with
  | text fid =>
    simp only
    cases hl : lookup fid s with
    | none => left; rfl
    | some f =>
      have := inv_lookup s hs fid f hl
      cases f <;> simp [frameOK, c1 fid hkd] at this
      right; exact ⟨_, rfl⟩
  | txxx d =>
    simp only
    cases hl : lookup (pTXXX ++ d) s with
    | none => left; rfl
    | some f =>
      have := inv_lookup s hs _ f hl
      cases f <;> simp [frameOK, c2 d hkd] at this
      right; exact ⟨_, rfl⟩
  | genre =>
    simp only
    cases hl : lookup kTCON s with
    | none => left; rfl
    | some f =>
      have := inv_lookup s hs _ f hl
      have hc : hkClass kTCON = .genre := by decide
      cases f <;> simp [frameOK, hc] at this
      right
      have h2 : (List.all ‹List Text› genrePlain) = true := by rw [List.all_eq_true]; exact this
      refine ⟨textsVal ‹List Text›, ?_⟩
      simp only [h2, if_true]
  | date fid =>
    simp only
    cases hl : lookup fid s with
    | none => left; rfl
    | some f =>
      have := inv_lookup s hs fid f hl
      cases f <;> simp [frameOK, c3 fid hkd] at this
      right; exact ⟨_, rfl⟩
  | trackid =>
    simp only
    cases hl : lookup kUFID s with
    | none => left; rfl
    | some f =>
      have := inv_lookup s hs _ f hl
      have hc : hkClass kUFID = .ufid := by decide
      cases f <;> simp [frameOK, hc] at this
      right; exact ⟨_, rfl⟩
  | website => simp [eiPlain, hkd] at hp
  | performer => simp [eiPlain, hkd] at hp
  | gain => simp [eiPlain, hkd] at hp
  | peak => simp [eiPlain, hkd] at hp

/-- the frame the setter of a plain single-frame entry makes of a value (no state involved) -/
def slotFrame (e : EIEntry) (v : PVal) : Except PyErr IFrame :=
  match eiItems v with
  | none => .error .notImplemented
  | some items =>
    match e.kind, eiTexts items with
    | .text _, some l => .ok (.text 3 l)
    | .txxx _, some l => .ok (.text (txxxEnc l) l)
    | .genre, some l => if l.all genrePlain then .ok (.text 3 l) else .error .notImplemented
    | .date _, some l =>
      match l.mapM tsNorm with
      | some l' => .ok (.stamps 3 l')
      | none => .error .notImplemented
    | .trackid, _ => trackidFrame items
    | _, _ => .error .notImplemented

theorem eiSet_slot (s : Id3) (e : EIEntry) (kt : Text) (v : PVal) (hk : Text) (h : hkOf e = some hk)
    (hp : eiPlain e = true) :
    eiSet s e kt v = match slotFrame e v with
      | .ok f => (.ok (), insert hk f s)
      | .error err => (.error err, s) := by
  unfold hkOf at h
  unfold eiPlain at hp
  unfold eiSet slotFrame
  cases hi : eiItems v with
  | none => rfl
  | some items =>
    simp only
    cases hkd : e.kind <;> simp only [hkd] at h hp ⊢ <;> try (first | (simp at hp; done) | (simp at h; done))
    all_goals (simp only [Option.some.injEq] at h; subst h)
    · cases eiTexts items <;> rfl
    · cases eiTexts items <;> rfl
    · cases eiTexts items with
      | none => rfl
      | some l => simp only; split <;> rfl
    · cases eiTexts items with
      | none => rfl
      | some l => simp only; cases l.mapM tsNorm <;> rfl
    · cases trackidFrame items <;> rfl


theorem eiDel_slot (s : Id3) (e : EIEntry) (kt : Text) (hk : Text) (h : hkOf e = some hk) (hp : eiPlain e = true) :
    eiDel s e kt = match lookup hk s with
      | some _ => .ok (erase hk s)
      | none => .error .key := by
  unfold hkOf at h
  unfold eiPlain at hp
  unfold eiDel
  cases hkd : e.kind <;> simp only [hkd] at h hp ⊢ <;> try (first | (simp at hp; done) | (simp at h; done))
  all_goals (simp only [Option.some.injEq] at h; subst h; rfl)

theorem hk_of_plain (e : EIEntry) (he : e ∈ easyId3Registry) (hp : eiPlain e = true) : ∃ hk, hkOf e = some hk := by
  have := List.all_eq_true.1 eiReg_plain_hk e he
  simp only [hp, Bool.not_true, Bool.false_or] at this
  exact Option.isSome_iff_exists.1 this

theorem hk_inj (e1 e2 : EIEntry) (h1 : e1 ∈ easyId3Registry) (h2 : e2 ∈ easyId3Registry) (p1 : eiPlain e1 = true)
    (p2 : eiPlain e2 = true) (hk : Text) (k1 : hkOf e1 = some hk) (k2 : hkOf e2 = some hk) : e1 = e2 := by
  have m1 : e1 ∈ easyId3Registry.filter (fun e => eiPlain e && (hkOf e).isSome) := by
    simp [List.mem_filter, h1, p1, k1]
  have m2 : e2 ∈ easyId3Registry.filter (fun e => eiPlain e && (hkOf e).isSome) := by
    simp [List.mem_filter, h2, p2, k2]
  exact inj_of_nodup_map hkOf _ eiReg_hk_nodup e1 e2 m1 m2 (k1.trans k2.symm)

theorem slotFrame_ok (e : EIEntry) (he : e ∈ easyId3Registry) (v : PVal) (f : IFrame) (hk : Text)
    (h : hkOf e = some hk) (hf : slotFrame e v = .ok f) : frameOK hk f = true := by
  obtain ⟨c1, c2, c3⟩ := class_of_entry e he
  unfold hkOf at h
  unfold slotFrame at hf
  cases hi : eiItems v with
  | none => simp [hi] at hf
  | some items =>
    simp only [hi] at hf
    cases hkd : e.kind <;> simp only [hkd] at h hf <;> try (simp at h; done)
    all_goals (simp only [Option.some.injEq] at h; subst h)
    · cases ht : eiTexts items with
      | none => simp [ht] at hf
      | some l => simp [ht] at hf; subst hf; simp [frameOK, c1 _ hkd]
    · cases ht : eiTexts items with
      | none => simp [ht] at hf
      | some l => simp [ht] at hf; subst hf; simp [frameOK, c2 _ hkd]
    · cases ht : eiTexts items with
      | none => simp [ht] at hf
      | some l =>
        simp only [ht] at hf
        split at hf
        · rename_i hg
          simp at hf; subst hf
          have hc : hkClass kTCON = .genre := by decide
          simp only [frameOK, hc]; exact hg
        · simp at hf
    · cases ht : eiTexts items with
      | none => simp [ht] at hf
      | some l =>
        simp only [ht] at hf
        cases hm : l.mapM tsNorm with
        | none => simp [hm] at hf
        | some l' => simp [hm] at hf; subst hf; simp [frameOK, c3 _ hkd]
    · cases eiTexts items <;> simp at hf
    · have hc : hkClass kUFID = .ufid := by decide
      unfold trackidFrame at hf
      split at hf
      · split at hf
        · simp at hf; subst hf; simp [frameOK, hc]
        · simp at hf
      · simp at hf
      · simp at hf

theorem eiGet_none (s : Id3) (e : EIEntry) (kt hk : Text) (h : hkOf e = some hk) (hl : lookup hk s = none) :
    eiGet s e kt = .error .key := by
  unfold hkOf at h
  unfold eiGet perfRead
  cases hkd : e.kind <;> simp only [hkd] at h ⊢ <;> try (simp at h; done)
  all_goals (simp only [Option.some.injEq] at h; subst h; rw [hl])

theorem eiGet_some (s : Id3) (hs : EasyId3Inv s) (e : EIEntry) (he : e ∈ easyId3Registry) (hp : eiPlain e = true)
    (kt hk : Text) (f : IFrame) (h : hkOf e = some hk) (hl : lookup hk s = some f) : ∃ v, eiGet s e kt = .ok v := by
  rcases eiGet_plain s hs e he hp kt with h1 | h1
  · exfalso
    unfold hkOf at h
    unfold eiPlain at hp
    unfold eiGet at h1
    cases hkd : e.kind <;> simp only [hkd] at h h1 hp <;> try (first | (simp at h; done) | (simp at hp; done))
    all_goals (simp only [Option.some.injEq] at h; subst h; rw [hl] at h1; cases f <;> simp at h1)
    · split at h1 <;> simp at h1
  · exact h1


/-! ### `website`: one WOAR frame per URL -/

theorem startsWith_append (p u : Text) : startsWith p (p ++ u) = true := by
  simp [startsWith]

theorem lookup_delall (pre k : Text) (s : Id3) :
    lookup k (delallPrefix pre s) = if startsWith pre k then none else lookup k s := by
  induction s with
  | nil => simp [delallPrefix]
  | cons p t ih =>
    obtain ⟨k', f⟩ := p
    unfold delallPrefix at ih ⊢
    by_cases hp : startsWith pre k' = true
    · by_cases hk : k' = k
      · subst hk; simp [List.filter_cons, hp, ih]
      · simp [List.filter_cons, hp, ih, hk]
    · simp only [Bool.not_eq_true] at hp
      by_cases hk : k' = k
      · subst hk; simp [List.filter_cons, hp]
      · simp [List.filter_cons, hp, ih, hk]

theorem lookup_woarPut_other (k : Text) (hk : startsWith pWOAR k = false) (l : List Text) :
    ∀ base : Id3, lookup k (woarPut l base) = lookup k base := by
  induction l with
  | nil => intro base; rfl
  | cons u t ih =>
    intro base
    have hne : ¬ pWOAR ++ u = k := by
      intro e; rw [← e, startsWith_append] at hk; cases hk
    show lookup k (woarPut t (insert (pWOAR ++ u) (.woar u) base)) = _
    rw [ih, lookup_insert]; simp [hne]

theorem filter_insert_in (P : Text → Bool) (k : Text) (f : IFrame) (hk : P k = true) (r : Id3) :
    (insert k f r).filter (fun p => P p.1) = insert k f (r.filter (fun p => P p.1)) := by
  induction r with
  | nil => simp [insert, hk]
  | cons q t ih =>
    obtain ⟨k', f'⟩ := q
    by_cases h : k' = k
    · subst h; simp [insert, List.filter_cons, hk]
    · by_cases hp : P k' = true
      · simp [insert, h, List.filter_cons, hp, ih]
      · simp [insert, h, List.filter_cons, hp, ih]

theorem filter_insert_out (P : Text → Bool) (k : Text) (f : IFrame) (hk : P k = false) (r : Id3) :
    (insert k f r).filter (fun p => P p.1) = r.filter (fun p => P p.1) := by
  induction r with
  | nil => simp [insert, hk]
  | cons q t ih =>
    obtain ⟨k', f'⟩ := q
    by_cases h : k' = k
    · subst h; simp [insert, List.filter_cons, hk]
    · by_cases hp : P k' = true
      · simp [insert, h, List.filter_cons, hp, ih]
      · simp [insert, h, List.filter_cons, hp, ih]

theorem filter_erase_out (P : Text → Bool) (k : Text) (hk : P k = false) (r : Id3) :
    (erase k r).filter (fun p => P p.1) = r.filter (fun p => P p.1) := by
  induction r with
  | nil => rfl
  | cons q t ih =>
    obtain ⟨k', f'⟩ := q
    by_cases h : k' = k
    · subst h; simp [erase, List.filter_cons, hk]
    · by_cases hp : P k' = true
      · simp [erase, h, List.filter_cons, hp, ih]
      · simp [erase, h, List.filter_cons, hp, ih]

theorem getall_insert_other (pre k : Text) (f : IFrame) (hk : startsWith pre k = false) (s : Id3) :
    getallPrefix pre (insert k f s) = getallPrefix pre s := filter_insert_out (startsWith pre) k f hk s

theorem getall_erase_other (pre k : Text) (hk : startsWith pre k = false) (s : Id3) :
    getallPrefix pre (erase k s) = getallPrefix pre s := filter_erase_out (startsWith pre) k hk s

theorem getall_woarPut (l : List Text) : ∀ base : Id3,
    getallPrefix pWOAR (woarPut l base) = woarPut l (getallPrefix pWOAR base) := by
  induction l with
  | nil => intro base; rfl
  | cons u t ih =>
    intro base
    show getallPrefix pWOAR (woarPut t (insert (pWOAR ++ u) (.woar u) base)) = _
    rw [ih]
    show _ = woarPut t (insert (pWOAR ++ u) (.woar u) (getallPrefix pWOAR base))
    congr 1
    exact filter_insert_in (startsWith pWOAR) _ _ (startsWith_append _ _) base

theorem getall_delall (pre : Text) (s : Id3) : getallPrefix pre (delallPrefix pre s) = [] := by
  unfold getallPrefix delallPrefix
  rw [List.filter_filter, List.filter_eq_nil_iff]
  intro p _; cases startsWith pre p.1 <;> simp

/-- read-back after `website_set` does not depend on what was there -/
theorem getall_website_set (l : List Text) (s : Id3) :
    getallPrefix pWOAR (woarPut l (delallPrefix pWOAR s)) = getallPrefix pWOAR (woarPut l (delallPrefix pWOAR [])) := by
  rw [getall_woarPut, getall_woarPut, getall_delall, getall_delall]

theorem mem_woarPut (l : List Text) : ∀ (base : Id3) (p : Text × IFrame), p ∈ woarPut l base →
    p ∈ base ∨ ∃ u, p = (pWOAR ++ u, .woar u) := by
  induction l with
  | nil => intro base p hp; exact Or.inl hp
  | cons u t ih =>
    intro base p hp
    rcases ih _ p hp with h | h
    · rcases mem_insert_cases _ _ _ _ h with h' | h'
      · exact Or.inr ⟨u, h'⟩
      · exact Or.inl h'
    · exact Or.inr h

theorem nodup_woarPut (l : List Text) : ∀ base : Id3, NodupKeys base → NodupKeys (woarPut l base) := by
  induction l with
  | nil => intro base h; exact h
  | cons u t ih => intro base h; exact ih _ (nodup_insert _ _ _ h)

theorem class_woar_put (u : Text) : hkClass (pWOAR ++ u) = .woar := by
  unfold hkClass
  have h1 : (pWOAR ++ u == kTCON) = false := by simp [pWOAR, kTCON]
  have h2 : (pWOAR ++ u == [84, 68, 82, 67] || pWOAR ++ u == [84, 68, 79, 82]) = false := by simp [pWOAR]
  have h3 : (pWOAR ++ u == kTMCL) = false := by simp [pWOAR, kTMCL]
  have h4 : (pWOAR ++ u == kUFID) = false := by simp [pWOAR, kUFID]
  simp [h1, h2, h3, h4, startsWith_append]

theorem inv_filter (s : Id3) (hs : EasyId3Inv s) (P : Text × IFrame → Bool) : EasyId3Inv (s.filter P) := by
  refine ⟨?_, fun p hp => hs.2 p (List.mem_filter.1 hp).1⟩
  exact List.Nodup.sublist (List.Sublist.map _ List.filter_sublist) hs.1

theorem inv_website_set (l : List Text) (s : Id3) (hs : EasyId3Inv s) :
    EasyId3Inv (woarPut l (delallPrefix pWOAR s)) := by
  have hb := inv_filter s hs (fun p => !startsWith pWOAR p.1)
  refine ⟨nodup_woarPut l _ hb.1, ?_⟩
  intro p hp
  rcases mem_woarPut l _ p hp with h | ⟨u, rfl⟩
  · exact hb.2 p h
  · simp [frameOK, class_woar_put]

theorem class_woar (hk : Text) (h : startsWith pWOAR hk = true) : hkClass hk = .woar := by
  unfold hkClass
  have h1 : (hk == kTCON) = false := by
    cases hh : hk == kTCON with
    | false => rfl
    | true => have := eq_of_beq hh; subst this; exact absurd h (by decide)
  have h2 : (hk == [84, 68, 82, 67] || hk == [84, 68, 79, 82]) = false := by
    cases hh : (hk == [84, 68, 82, 67] || hk == [84, 68, 79, 82]) with
    | false => rfl
    | true =>
      rcases Bool.or_eq_true_iff.1 hh with h' | h' <;> (have := eq_of_beq h'; subst this; exact absurd h (by decide))
  have h3 : (hk == kTMCL) = false := by
    cases hh : hk == kTMCL with
    | false => rfl
    | true => have := eq_of_beq hh; subst this; exact absurd h (by decide)
  have h4 : (hk == kUFID) = false := by
    cases hh : hk == kUFID with
    | false => rfl
    | true => have := eq_of_beq hh; subst this; exact absurd h (by decide)
  simp [h1, h2, h3, h4, h]

/-- under the invariant every `WOAR:…` key holds a WOAR frame -/
theorem web_frames (s : Id3) (hs : EasyId3Inv s) (p : Text × IFrame) (hp : p ∈ getallPrefix pWOAR s) :
    ∃ u, p.2 = .woar u := by
  have hm := List.mem_filter.1 hp
  have hok := hs.2 p hm.1
  unfold frameOK at hok
  rw [class_woar p.1 hm.2] at hok
  cases hf : p.2 <;> simp [hf] at hok
  exact ⟨_, rfl⟩

theorem web_urls_nil (s : Id3) (hs : EasyId3Inv s) :
    (getallPrefix pWOAR s).filterMap (fun p => woarUrl p.2) = [] ↔ getallPrefix pWOAR s = [] := by
  constructor
  · intro h
    cases hg : getallPrefix pWOAR s with
    | nil => rfl
    | cons p t =>
      exfalso
      obtain ⟨u, hu⟩ := web_frames s hs p (by rw [hg]; simp)
      rw [hg] at h
      simp [List.filterMap_cons, hu, woarUrl] at h
  · intro h; rw [h]; rfl

theorem web_get_nil (s : Id3) (e : EIEntry) (kt : Text) (h : e.kind = .website)
    (hf : (getallPrefix pWOAR s).filterMap (fun p => woarUrl p.2) = []) : eiGet s e kt = .error .key := by
  unfold eiGet; simp only [h, hf]

theorem web_get_cons (s : Id3) (e : EIEntry) (kt : Text) (h : e.kind = .website) (a : Text) (t : List Text)
    (hf : (getallPrefix pWOAR s).filterMap (fun p => woarUrl p.2) = a :: t) :
    eiGet s e kt = .ok (textsVal (a :: t)) := by
  unfold eiGet; simp only [h, hf]

/-! ### the glob entry `performer:*` -/

/-- the registry entry `performer:*` -/
def perfEntry : EIEntry := ⟨pPerformer ++ [42], .performer⟩

theorem perfEntry_mem : perfEntry ∈ easyId3Registry := by decide +kernel

theorem perf_unique (e : EIEntry) (he : e ∈ easyId3Registry) (h : e.kind = .performer) : e = perfEntry := by
  have h1 : easyId3Registry.all (fun x => !(x.kind == .performer) || x == perfEntry) = true := by decide +kernel
  have := List.all_eq_true.1 h1 e he
  simpa [h] using this

theorem perfPrefix_unique (e : EIEntry) (he : e ∈ easyId3Registry) (h : startsWith pPerformer e.key = true) :
    e = perfEntry := by
  have h1 : easyId3Registry.all (fun x => !startsWith pPerformer x.key || x == perfEntry) = true := by decide +kernel
  have := List.all_eq_true.1 h1 e he
  simpa [h] using this

theorem globMatch_star (s : Text) : globMatch [42] s = true := by
  unfold globMatch
  simp only [↓reduceIte, List.any_eq_true]
  refine ⟨s.length, by simp, ?_⟩
  simp [globMatch]

theorem globMatch_prefix_star (p : Text) (hp : p.contains 42 = false) (s : Text) :
    globMatch (p ++ [42]) s = startsWith p s := by
  induction p generalizing s with
  | nil => simp [globMatch_star, startsWith]
  | cons c t ih =>
    have hc : c ≠ 42 := by intro e; subst e; simp at hp
    have ht : t.contains 42 = false := by
      simp only [List.contains_cons, Bool.or_eq_false_iff] at hp; exact hp.2
    cases s with
    | nil => simp [globMatch, hc, startsWith]
    | cons d r =>
      simp only [List.cons_append, globMatch, hc, ↓reduceIte, ih ht r, startsWith, List.length_cons, List.take_succ_cons]
      by_cases hcd : c = d
      · simp [hcd]
      · have : ¬ d = c := fun e => hcd e.symm
        have h1 : (c == d) = false := by simp [hcd]
        have h2 : (d == c) = false := by simp [this]
        rw [h1]
        have : (d :: List.take t.length r == c :: t) = false := by
          simp [this]
        rw [this]; simp

theorem startsWith_eq (p s : Text) (h : startsWith p s = true) : s = p ++ s.drop p.length := by
  simp only [startsWith, beq_iff_eq] at h
  conv => lhs; rw [← List.take_append_drop p.length s, h]

theorem find_unique {α : Type} (l : List α) (p : α → Bool) (a : α) (ha : a ∈ l) (hp : p a = true)
    (hu : ∀ x ∈ l, p x = true → x = a) : l.find? p = some a := by
  induction l with
  | nil => simp at ha
  | cons x t ih =>
    by_cases hx : p x = true
    · have := hu x (by simp) hx; subst this; simp [List.find?_cons, hx]
    · have hat : a ∈ t := by
        rcases List.mem_cons.1 ha with h | h
        · subst h; exact absurd hp hx
        · exact h
      simp only [List.find?_cons, hx]
      exact ih hat (fun y hy => hu y (by simp [hy]))

/-- which kinds the registry has -/
theorem reg_kinds (e : EIEntry) (he : e ∈ easyId3Registry) :
    eiGood e = true ∨ e = perfEntry ∨
      e.key = pReplaygain ++ [42] ++ sGain ∨ e.key = pReplaygain ++ [42] ++ sPeak := by
  have h1 : easyId3Registry.all (fun x => eiGood x || x == perfEntry ||
      x.key == pReplaygain ++ [42] ++ sGain || x.key == pReplaygain ++ [42] ++ sPeak) = true := by decide +kernel
  have := List.all_eq_true.1 h1 e he
  simp only [Bool.or_eq_true, beq_iff_eq] at this
  rcases this with ((h | h) | h) | h
  · exact Or.inl h
  · exact Or.inr (Or.inl h)
  · exact Or.inr (Or.inr (Or.inl h))
  · exact Or.inr (Or.inr (Or.inr h))

/-- every `performer:<anything>` key goes to the `performer:*` entry -/
theorem eiFind_performer (r : Text) : eiFind (pPerformer ++ r) = some perfEntry := by
  unfold eiFind
  cases h1 : easyId3Registry.find? (fun x => decide (x.key = pPerformer ++ r)) with
  | some e =>
    have hm := List.mem_of_find?_eq_some h1
    have hk : e.key = pPerformer ++ r := by simpa using List.find?_some h1
    have := perfPrefix_unique e hm (by rw [hk]; exact startsWith_append _ _)
    simp [this]
  | none =>
    simp only
    apply find_unique _ _ perfEntry perfEntry_mem
    · show globMatch (pPerformer ++ [42]) (pPerformer ++ r) = true
      rw [globMatch_prefix_star _ (by decide)]; exact startsWith_append _ _
    · intro x hx hg
      rcases reg_kinds x hx with h | h | h | h
      · have hs := List.all_eq_true.1 eiReg_nostar_all x hx
        simp only [h, Bool.not_true, Bool.false_or, Bool.not_eq_true'] at hs
        rw [globMatch_nostar _ _ hs] at hg
        have hk : x.key = pPerformer ++ r := by simpa using hg
        exact perfPrefix_unique x hx (by rw [hk]; exact startsWith_append _ _)
      · exact h
      · exfalso; rw [h] at hg; simp [pReplaygain, pPerformer, globMatch] at hg
      · exfalso; rw [h] at hg; simp [pReplaygain, pPerformer, globMatch] at hg

/-- a key that goes to the `performer:*` entry starts with `performer:` -/
theorem eiFind_perf_prefix (t : Text) (e : EIEntry) (h : eiFind t = some e) (hk : e.kind = .performer) :
    e = perfEntry ∧ startsWith pPerformer t = true := by
  unfold eiFind at h
  cases h1 : easyId3Registry.find? (fun x => decide (x.key = t)) with
  | some e1 =>
    simp only [h1, Option.some.injEq] at h; subst h
    have hm := List.mem_of_find?_eq_some h1
    have hkey : e1.key = t := by simpa using List.find?_some h1
    have := perf_unique e1 hm hk
    refine ⟨this, ?_⟩
    rw [← hkey, this]; decide
  | none =>
    simp only [h1] at h
    have hm := List.mem_of_find?_eq_some h
    have hg : globMatch e.key t = true := by
      have := List.find?_some h
      simpa using this
    have := perf_unique e hm hk
    refine ⟨this, ?_⟩
    rw [this] at hg
    rw [← globMatch_prefix_star pPerformer (by decide)]; exact hg

theorem pyLower_drop (t : Text) (n : Nat) : (pyLower t).drop n = pyLower (t.drop n) := by
  simp [pyLower, List.map_drop]

theorem pyLower_append (a b : Text) : pyLower (a ++ b) = pyLower a ++ pyLower b := by
  simp [pyLower]

theorem roleOf_perf (r : Text) : roleOf (pPerformer ++ r) = r := by
  simp [roleOf, pPerformer]

/-! ### good entries, good pairs -/

theorem eiGood_cases (e : EIEntry) (h : eiGood e = true) : eiPlain e = true ∨ e.kind = .website := by
  simp only [eiGood, Bool.or_eq_true, beq_iff_eq] at h; exact h

theorem eiNormKey_good (e : EIEntry) (kt : Text) (hp : eiGood e = true) : eiNormKey e kt = e.key := by
  unfold eiNormKey
  rcases eiGood_cases e hp with h | h
  · unfold eiPlain at h
    cases hkd : e.kind <;> simp only [hkd] at h ⊢ <;> simp at h
  · simp [h]

theorem eiGet_kt (s : Id3) (e : EIEntry) (k1 k2 : Text) (hp : eiGood e = true) : eiGet s e k1 = eiGet s e k2 := by
  unfold eiGet
  rcases eiGood_cases e hp with h | h
  · unfold eiPlain at h
    cases hkd : e.kind <;> simp only [hkd] at h ⊢ <;> simp at h
  · simp only [h]

/-- under the invariant the getter of a good entry answers `KeyError` or a value -/
theorem eiGet_good (s : Id3) (hs : EasyId3Inv s) (e : EIEntry) (he : e ∈ easyId3Registry) (hp : eiGood e = true)
    (kt : Text) : eiGet s e kt = .error .key ∨ ∃ v, eiGet s e kt = .ok v := by
  rcases eiGood_cases e hp with h | h
  · exact eiGet_plain s hs e he h kt
  · cases hf : (getallPrefix pWOAR s).filterMap (fun p => woarUrl p.2) with
    | nil => left; exact web_get_nil s e kt h hf
    | cons a t => right; exact ⟨_, web_get_cons s e kt h a t hf⟩

theorem slot_hk (e : EIEntry) (he : e ∈ easyId3Registry) (hp : eiPlain e = true) :
    ∃ hk, hkOf e = some hk ∧ startsWith pWOAR hk = false := by
  have h1 : easyId3Registry.all (fun e => !eiPlain e || match hkOf e with
      | some hk => !startsWith pWOAR hk
      | none => false) = true := by decide +kernel
  have := List.all_eq_true.1 h1 e he
  simp only [hp, Bool.not_true, Bool.false_or] at this
  cases hh : hkOf e with
  | none => simp [hh] at this
  | some hk => simp [hh] at this; exact ⟨hk, rfl, this⟩


theorem str_key_inj (e1 e2 : EIEntry) (h1 : e1 ∈ easyId3Registry) (h2 : e2 ∈ easyId3Registry) (h : e1.key = e2.key) :
    e1 = e2 := inj_of_nodup_map (·.key) _ eiReg_keys_nodup e1 e2 h1 h2 h

/-- a (registry entry, key as typed) pair of the proved part: a single-frame entry or `website`
with any spelling of its key, or `performer:*` with a role that `str.lower()` leaves alone -/
def GoodPair (e : EIEntry) (kt : Text) : Prop :=
  e ∈ easyId3Registry ∧ (eiGood e = true ∨ (e = perfEntry ∧ pyLower (roleOf kt) = roleOf kt))

theorem perf_not_good : eiGood perfEntry = false := by decide

theorem eiNormKey_perf (kt : Text) : eiNormKey perfEntry kt = pPerformer ++ roleOf kt := rfl

/-- the entry of a good registered key -/
theorem eiEntryOf_goodP (k : PKey) (e : EIEntry) (kt : Text) (h : eiEntryOf k = some (e, kt)) (hg : eiGoodKey k = true) :
    k = .str kt ∧ GoodPair e kt := by
  cases k with
  | str t =>
    simp only [eiEntryOf, Option.map_eq_some_iff, Prod.mk.injEq] at h
    obtain ⟨e', h1, h2, h3⟩ := h
    subst h2; subst h3
    refine ⟨rfl, ?_⟩
    simp only [eiGoodKey, eiEntryOf, h1, Option.map_some, Bool.or_eq_true, Bool.and_eq_true, beq_iff_eq] at hg
    rcases hg with hg | ⟨hk, hr⟩
    · exact ⟨(eiFind_plain_key _ _ h1 hg).1, Or.inl hg⟩
    · obtain ⟨he, _⟩ := eiFind_perf_prefix _ _ h1 hk
      subst he
      exact ⟨perfEntry_mem, Or.inr ⟨rfl, hr⟩⟩
  | _ => simp [eiEntryOf] at h

theorem pair_entry (e : EIEntry) (kt : Text) (h : GoodPair e kt) :
    eiEntryOf (.str (eiNormKey e kt)) = some (e, eiNormKey e kt) := by
  rcases h.2 with hg | ⟨rfl, hr⟩
  · rw [eiNormKey_good e kt hg]; exact eiEntryOf_plain e h.1
  · have hl : pyLower (pPerformer ++ roleOf kt) = pPerformer ++ roleOf kt := by
      rw [pyLower_append, hr]; congr 1
    simp [eiEntryOf, eiNormKey_perf, hl, eiFind_performer]

theorem pair_norm_pair (e : EIEntry) (kt : Text) (h : GoodPair e kt) : GoodPair e (eiNormKey e kt) := by
  refine ⟨h.1, ?_⟩
  rcases h.2 with hg | ⟨rfl, hr⟩
  · exact Or.inl hg
  · exact Or.inr ⟨rfl, by rw [eiNormKey_perf, roleOf_perf]; exact hr⟩

theorem pair_norm_idem (e : EIEntry) (kt : Text) (h : GoodPair e kt) :
    eiNormKey e (eiNormKey e kt) = eiNormKey e kt := by
  rcases h.2 with hg | ⟨rfl, hr⟩
  · rw [eiNormKey_good e _ hg, eiNormKey_good e _ hg]
  · rw [eiNormKey_perf, eiNormKey_perf, roleOf_perf]

theorem pair_goodKey (e : EIEntry) (kt : Text) (h : GoodPair e kt) : eiGoodKey (.str (eiNormKey e kt)) = true := by
  have hp := pair_norm_pair e kt h
  simp only [eiGoodKey, pair_entry e kt h, Bool.or_eq_true, Bool.and_eq_true, beq_iff_eq]
  rcases hp.2 with hg | ⟨rfl, hr⟩
  · exact Or.inl hg
  · exact Or.inr ⟨rfl, hr⟩

theorem eiGet_role (s : Id3) (k1 k2 : Text) (h : roleOf k1 = roleOf k2) :
    eiGet s perfEntry k1 = eiGet s perfEntry k2 := by
  unfold eiGet; simp only [perfEntry, h]

theorem pair_get_norm (s : Id3) (e : EIEntry) (kt : Text) (h : GoodPair e kt) :
    eiGet s e kt = eiGet s e (eiNormKey e kt) := by
  rcases h.2 with hg | ⟨rfl, hr⟩
  · exact eiGet_kt s e _ _ hg
  · exact eiGet_role s _ _ (by rw [eiNormKey_perf, roleOf_perf])

/-- distinct normal keys: distinct entries, or two roles of `performer:*` -/
theorem pair_key_inj (e e2 : EIEntry) (kt kt2 : Text) (h : GoodPair e kt) (h2 : GoodPair e2 kt2)
    (hk : eiNormKey e kt = eiNormKey e2 kt2) : e = e2 ∧ (e = perfEntry → roleOf kt = roleOf kt2) := by
  rcases h.2 with hg | ⟨rfl, hr⟩ <;> rcases h2.2 with hg2 | ⟨rfl, hr2⟩
  · rw [eiNormKey_good e kt hg, eiNormKey_good e2 kt2 hg2] at hk
    have := str_key_inj e e2 h.1 h2.1 hk
    subst this
    exact ⟨rfl, fun hp => by rw [hp, perf_not_good] at hg; cases hg⟩
  · exfalso
    rw [eiNormKey_good e kt hg, eiNormKey_perf] at hk
    have := perfPrefix_unique e h.1 (by rw [hk]; exact startsWith_append _ _)
    rw [this, perf_not_good] at hg; cases hg
  · exfalso
    rw [eiNormKey_good e2 kt2 hg2, eiNormKey_perf] at hk
    have := perfPrefix_unique e2 h2.1 (by rw [← hk]; exact startsWith_append _ _)
    rw [this, perf_not_good] at hg2; cases hg2
  · refine ⟨rfl, fun _ => ?_⟩
    rw [eiNormKey_perf, eiNormKey_perf] at hk
    exact List.append_cancel_left hk

theorem normG_ok (k κ : PKey) (h : easyId3PolicyG.norm k = .ok κ) :
    ∃ e kt, eiEntryOf k = some (e, kt) ∧ eiGoodKey k = true ∧ GoodPair e kt ∧ κ = .str (eiNormKey e kt) := by
  simp only [easyId3PolicyG, easyId3Policy] at h
  cases hg : eiGoodKey k with
  | false => simp [hg] at h
  | true =>
    simp only [hg, ↓reduceIte] at h
    cases he : eiEntryOf k with
    | none => simp [he] at h
    | some p =>
      obtain ⟨e, kt⟩ := p
      simp only [he, Except.ok.injEq] at h
      exact ⟨e, kt, rfl, rfl, (eiEntryOf_goodP k e kt he hg).2, h.symm⟩

theorem normG_pair (e : EIEntry) (kt : Text) (h : GoodPair e kt) :
    easyId3PolicyG.norm (.str (eiNormKey e kt)) = .ok (.str (eiNormKey e kt)) := by
  simp [easyId3PolicyG, easyId3Policy, pair_goodKey e kt h, pair_entry e kt h, pair_norm_idem e kt h]

theorem getG_pair (s : Id3) (e : EIEntry) (kt : Text) (h : GoodPair e kt) :
    easyId3ImplG.getitem s (.str (eiNormKey e kt)) = eiGet s e kt := by
  simp only [easyId3ImplG, pair_goodKey e kt h, ↓reduceIte, easyId3Get, pair_entry e kt h]
  exact (pair_get_norm s e kt h).symm

/-! ### `performer:<role>`: all roles in one TMCL frame -/

abbrev People := List (Text × Text)

def rolesStable (p : People) : Bool := p.all (fun x => pyLower x.1 == x.1)

/-- under the invariant TMCL is absent or a TMCL frame with stable roles -/
theorem tmcl_shape (s : Id3) (hs : EasyId3Inv s) :
    lookup kTMCL s = none ∨ ∃ enc p, lookup kTMCL s = some (.tmcl enc p) ∧ rolesStable p = true := by
  cases hl : lookup kTMCL s with
  | none => left; rfl
  | some f =>
    right
    have hok := inv_lookup s hs kTMCL f hl
    have hc : hkClass kTMCL = .tmcl := by decide
    cases f <;> simp [frameOK, hc] at hok
    exact ⟨_, _, rfl, by simpa [rolesStable] using hok⟩

/-- the people of the TMCL frame (none: no frame) -/
def peopleD (s : Id3) : People := (peopleOf s).getD []

theorem people_filter_other (p new : People) (r r2 : Text) (hne : r2 ≠ r) (hnew : ∀ x ∈ new, x.1 = r) :
    (p.filter (fun x => x.1 != r) ++ new).filter (fun x => x.1 == r2) = p.filter (fun x => x.1 == r2) := by
  rw [List.filter_append, List.filter_filter]
  have h1 : new.filter (fun x => x.1 == r2) = [] := by
    rw [List.filter_eq_nil_iff]; intro x hx
    have : ¬ r = r2 := fun h => hne h.symm
    simp [hnew x hx, this]
  rw [h1, List.append_nil]
  apply List.filter_congr
  intro x _
  by_cases h : x.1 = r2
  · simp [h, hne]
  · simp [h]

theorem people_filter_same (p : People) (r : Text) (l : List Text) :
    ((p.filter (fun x => x.1 != r) ++ l.map (fun x => (r, x))).filter (fun x => x.1 == r)).map Prod.snd = l := by
  rw [List.filter_append, List.filter_filter]
  have h1 : p.filter (fun x => x.1 == r && x.1 != r) = [] := by
    rw [List.filter_eq_nil_iff]; intro x _; by_cases h : x.1 = r <;> simp [h]
  have h2 : (l.map (fun x => (r, x))).filter (fun x => x.1 == r) = l.map (fun x => (r, x)) := by
    rw [List.filter_eq_self]; intro x hx; obtain ⟨a, _, rfl⟩ := List.mem_map.1 hx; simp
  rw [h1, h2]; simp [List.map_map, Function.comp_def]

theorem people_rest_filter (p : People) (r r2 : Text) (hne : r2 ≠ r) :
    (p.filter (fun x => x.1 != r)).filter (fun x => x.1 == r2) = p.filter (fun x => x.1 == r2) := by
  rw [List.filter_filter]
  apply List.filter_congr
  intro x _
  by_cases h : x.1 = r2
  · simp [h, hne]
  · simp [h]

theorem people_rest_same (p : People) (r : Text) :
    (p.filter (fun x => x.1 != r)).filter (fun x => x.1 == r) = [] := by
  rw [List.filter_filter, List.filter_eq_nil_iff]; intro x _; by_cases h : x.1 = r <;> simp [h]

theorem people_rest_eq_iff (p : People) (r : Text) :
    p.filter (fun x => x.1 != r) = p ↔ p.filter (fun x => x.1 == r) = [] := by
  rw [List.filter_eq_self, List.filter_eq_nil_iff]
  constructor
  · intro h x hx; have := h x hx; simpa using this
  · intro h x hx; have := h x hx; simpa using this

theorem eiGet_perf (s : Id3) (kt : Text) : eiGet s perfEntry kt = perfRead s (roleOf kt) := by
  unfold eiGet; simp only [perfEntry]

theorem perfRead_none (s : Id3) (h : lookup kTMCL s = none) (r : Text) : perfRead s r = .error .key := by
  unfold perfRead; rw [h]

theorem perfRead_nil (s : Id3) (enc : Nat) (p : People) (h : lookup kTMCL s = some (.tmcl enc p)) (r : Text)
    (hf : (p.filter (fun x => x.1 == r)).map Prod.snd = []) : perfRead s r = .error .key := by
  unfold perfRead; simp only [h, hf]

theorem perfRead_cons (s : Id3) (enc : Nat) (p : People) (h : lookup kTMCL s = some (.tmcl enc p)) (r : Text)
    (a : Text) (t : List Text) (hf : (p.filter (fun x => x.1 == r)).map Prod.snd = a :: t) :
    perfRead s r = .ok (textsVal (a :: t)) := by
  unfold perfRead; simp only [h, hf]

theorem perfRead_congr (s1 s2 : Id3) (enc1 enc2 : Nat) (p1 p2 : People) (h1 : lookup kTMCL s1 = some (.tmcl enc1 p1))
    (h2 : lookup kTMCL s2 = some (.tmcl enc2 p2)) (r : Text)
    (hf : p1.filter (fun x => x.1 == r) = p2.filter (fun x => x.1 == r)) : perfRead s1 r = perfRead s2 r := by
  cases hq : (p2.filter (fun x => x.1 == r)).map Prod.snd with
  | nil => rw [perfRead_nil s1 enc1 p1 h1 r (by rw [hf]; exact hq), perfRead_nil s2 enc2 p2 h2 r hq]
  | cons a t => rw [perfRead_cons s1 enc1 p1 h1 r a t (by rw [hf]; exact hq), perfRead_cons s2 enc2 p2 h2 r a t hq]

/-- under the invariant the performer getter answers `KeyError` or a value -/
theorem perfRead_good (s : Id3) (hs : EasyId3Inv s) (r : Text) : perfRead s r = .error .key ∨ ∃ v, perfRead s r = .ok v := by
  rcases tmcl_shape s hs with h | ⟨enc, p, h, _⟩
  · left; exact perfRead_none s h r
  · cases hq : (p.filter (fun x => x.1 == r)).map Prod.snd with
    | nil => left; exact perfRead_nil s enc p h r hq
    | cons a t => right; exact ⟨_, perfRead_cons s enc p h r a t hq⟩

theorem kTMCL_not_woar : startsWith pWOAR kTMCL = false := by decide

theorem slot_hk_ne_tmcl (e : EIEntry) (he : e ∈ easyId3Registry) (hp : eiPlain e = true) (hk : Text)
    (h : hkOf e = some hk) : hk ≠ kTMCL := by
  have h1 : easyId3Registry.all (fun x => !eiPlain x || hkOf x != some kTMCL) = true := by decide +kernel
  have := List.all_eq_true.1 h1 e he
  simp only [hp, Bool.not_true, Bool.false_or, bne_iff_ne, ne_eq] at this
  intro heq; exact this (heq ▸ h)

theorem inv_tmcl_insert (s : Id3) (hs : EasyId3Inv s) (enc : Nat) (p : People) (hp : rolesStable p = true) :
    EasyId3Inv (insert kTMCL (.tmcl enc p) s) := by
  refine ⟨nodup_insert _ _ _ hs.1, ?_⟩
  intro q hq
  rcases mem_insert_cases _ _ _ _ hq with h | h
  · subst h
    have hc : hkClass kTMCL = .tmcl := by decide
    simpa [frameOK, hc, rolesStable] using hp
  · exact hs.2 q h

theorem inv_lookup_none (s : Id3) (hs : EasyId3Inv s) (hk : Text) (hc : ∀ f, frameOK hk f = false) :
    lookup hk s = none := by
  cases hl : lookup hk s with
  | none => rfl
  | some f => have := inv_lookup s hs hk f hl; rw [hc f] at this; cases this

theorem inv_no_rva2star (s : Id3) (hs : EasyId3Inv s) : lookup (pRVA2 ++ [42]) s = none :=
  inv_lookup_none s hs _ (fun f => by
    have hc : hkClass (pRVA2 ++ [42]) = .rva2 := by decide
    cases f <;> simp [frameOK, hc])

theorem frameOK_not_rva2 (hk : Text) (f : IFrame) (h : frameOK hk f = true) : ∀ d c g p, f ≠ .rva2 d c g p := by
  intro d c g p e; subst e; unfold frameOK at h; cases hkClass hk <;> simp at h

theorem gainKeys_inv (s : Id3) (hs : EasyId3Inv s) : gainKeys s = [] := by
  unfold gainKeys
  rw [List.flatten_eq_nil_iff]
  intro l hl
  obtain ⟨p, hp, rfl⟩ := List.mem_map.1 hl
  have hm : p ∈ s := (List.mem_filter.1 hp).1
  have := frameOK_not_rva2 p.1 p.2 (hs.2 p hm)
  cases hf : p.2 <;> simp [hf]
  exact absurd hf (this _ _ _ _)

theorem inv_insert (s : Id3) (hs : EasyId3Inv s) (hk : Text) (f : IFrame) (hf : frameOK hk f = true) :
    EasyId3Inv (insert hk f s) := by
  refine ⟨nodup_insert _ _ _ hs.1, ?_⟩
  intro p hp
  rcases mem_insert_cases _ _ _ _ hp with h | h
  · subst h; exact hf
  · exact hs.2 p h

theorem inv_erase (s : Id3) (hs : EasyId3Inv s) (hk : Text) : EasyId3Inv (erase hk s) :=
  ⟨nodup_erase _ _ hs.1, fun p hp => hs.2 p (mem_of_mem_erase _ _ _ hp)⟩


/-- the reading of a good entry does not change when the native tags change elsewhere: outside
its own HashKey (single-frame entries) resp. outside the `WOAR:` keys (`website`) -/
theorem eiGet_frame (s s' : Id3) (e2 : EIEntry) (he2 : e2 ∈ easyId3Registry) (hg2 : eiGood e2 = true) (k2 : Text)
    (hslot : ∀ hk, hkOf e2 = some hk → lookup hk s' = lookup hk s)
    (hweb : e2.kind = .website → getallPrefix pWOAR s' = getallPrefix pWOAR s) :
    eiGet s' e2 k2 = eiGet s e2 k2 := by
  rcases eiGood_cases e2 hg2 with h | h
  · obtain ⟨hk2, h2, _⟩ := slot_hk e2 he2 h
    exact eiGet_congr s' s e2 k2 hk2 h2 (hslot hk2 h2)
  · exact eiGet_web_congr s' s e2 k2 h (hweb h)

/-- what the setter of a good entry does, for all states at once -/
theorem ei_set_effect (e : EIEntry) (he : e ∈ easyId3Registry) (hg : eiGood e = true) (kt : Text) (v : PVal) :
    (∃ err, ∀ s0, eiSet s0 e kt v = (.error err, s0)) ∨
    (∃ T : Id3 → Id3, (∀ s0, eiSet s0 e kt v = (.ok (), T s0)) ∧ (∀ s0, EasyId3Inv s0 → EasyId3Inv (T s0)) ∧
      (∀ s0 e2 k2, e2 ∈ easyId3Registry → eiGood e2 = true → e2 ≠ e → eiGet (T s0) e2 k2 = eiGet s0 e2 k2) ∧
      (∀ s0, eiGet (T s0) e kt = eiGet (T []) e kt) ∧ (∀ s0, lookup kTMCL (T s0) = lookup kTMCL s0)) := by
  rcases eiGood_cases e hg with hp | hw
  · obtain ⟨hk, hhk, hnw⟩ := slot_hk e he hp
    cases hf : slotFrame e v with
    | error err =>
      left; exact ⟨err, fun s0 => by rw [eiSet_slot s0 e kt v hk hhk hp, hf]⟩
    | ok f =>
      right
      have hok := slotFrame_ok e he v f hk hhk hf
      refine ⟨fun s0 => insert hk f s0, fun s0 => by rw [eiSet_slot s0 e kt v hk hhk hp, hf],
        fun s0 hs0 => inv_insert s0 hs0 hk f hok, ?_, ?_, ?_⟩
      · intro s0 e2 k2 he2 hg2 hne
        apply eiGet_frame _ _ e2 he2 hg2 k2
        · intro hk2 h2
          have hp2 : eiPlain e2 = true := by
            rcases eiGood_cases e2 hg2 with h | h
            · exact h
            · simp [hkOf, h] at h2
          have : ¬ hk = hk2 := fun heq => hne (hk_inj e e2 he he2 hp hp2 hk hhk (heq ▸ h2)).symm
          rw [lookup_insert]; simp [this]
        · intro _; exact getall_insert_other pWOAR hk f hnw s0
      · intro s0
        exact eiGet_congr _ _ e kt hk hhk (by rw [lookup_insert, lookup_insert]; simp)
      · intro s0
        have := slot_hk_ne_tmcl e he hp hk hhk
        rw [lookup_insert]; simp [this]
  · -- website
    unfold eiSet
    cases hi : eiItems v with
    | none => left; exact ⟨.notImplemented, fun s0 => rfl⟩
    | some items =>
      cases ht : eiTexts items with
      | none => left; exact ⟨.notImplemented, fun s0 => by simp only [hw, ht]⟩
      | some l =>
        right
        refine ⟨fun s0 => woarPut l (delallPrefix pWOAR s0), fun s0 => by simp only [hw, ht],
          fun s0 hs0 => inv_website_set l s0 hs0, ?_, ?_, ?_⟩
        · intro s0 e2 k2 he2 hg2 hne
          apply eiGet_frame _ _ e2 he2 hg2 k2
          · intro hk2 h2
            have hp2 : eiPlain e2 = true := by
              rcases eiGood_cases e2 hg2 with h | h
              · exact h
              · simp [hkOf, h] at h2
            obtain ⟨hk2', h2', hnw⟩ := slot_hk e2 he2 hp2
            rw [h2] at h2'; injection h2' with h2'; subst h2'
            rw [lookup_woarPut_other hk2 hnw, lookup_delall]; simp [hnw]
          · intro hw2
            exfalso; apply hne
            have h1 : easyId3Registry.all (fun x => !(x.kind == .website) || x.key == [119, 101, 98, 115, 105, 116, 101]) = true := by
              decide +kernel
            have a := List.all_eq_true.1 h1 e he
            have b := List.all_eq_true.1 h1 e2 he2
            simp [hw, hw2] at a b
            exact str_key_inj e2 e he2 he (b.trans a.symm)
        · intro s0
          exact eiGet_web_congr _ _ e kt hw (getall_website_set l s0)
        · intro s0
          rw [lookup_woarPut_other kTMCL kTMCL_not_woar, lookup_delall]; simp [kTMCL_not_woar]

/-- what the deleter of a good entry does -/
theorem ei_del_effect (s : Id3) (hs : EasyId3Inv s) (e : EIEntry) (he : e ∈ easyId3Registry) (hg : eiGood e = true)
    (kt : Text) :
    (eiGet s e kt = .error .key → eiDel s e kt = .error .key) ∧
    (∀ v, eiGet s e kt = .ok v → ∃ s', eiDel s e kt = .ok s' ∧ EasyId3Inv s' ∧ eiGet s' e kt = .error .key ∧
      (∀ e2 k2, e2 ∈ easyId3Registry → eiGood e2 = true → e2 ≠ e → eiGet s' e2 k2 = eiGet s e2 k2) ∧
      lookup kTMCL s' = lookup kTMCL s) := by
  rcases eiGood_cases e hg with hp | hw
  · obtain ⟨hk, hhk, hnw⟩ := slot_hk e he hp
    rw [eiDel_slot s e kt hk hhk hp]
    cases hl : lookup hk s with
    | none => exact ⟨fun _ => rfl, fun v hv => by rw [eiGet_none s e kt hk hhk hl] at hv; cases hv⟩
    | some f =>
      refine ⟨fun h => ?_, fun v hv => ⟨erase hk s, rfl, inv_erase s hs hk, ?_, ?_, lookup_erase_ne _ _ _ (slot_hk_ne_tmcl e he hp hk hhk)⟩⟩
      · obtain ⟨v, hv⟩ := eiGet_some s hs e he hp kt hk f hhk hl
        rw [hv] at h; cases h
      · exact eiGet_none _ e kt hk hhk (by rw [lookup_erase _ _ _ hs.1]; simp)
      · intro e2 k2 he2 hg2 hne
        apply eiGet_frame _ _ e2 he2 hg2 k2
        · intro hk2 h2
          have hp2 : eiPlain e2 = true := by
            rcases eiGood_cases e2 hg2 with h | h
            · exact h
            · simp [hkOf, h] at h2
          have : hk ≠ hk2 := fun heq => hne (hk_inj e e2 he he2 hp hp2 hk hhk (heq ▸ h2)).symm
          exact lookup_erase_ne _ _ _ this
        · intro _; exact getall_erase_other pWOAR hk hnw s
  · cases hga : getallPrefix pWOAR s with
    | nil =>
      have hdel : eiDel s e kt = .error .key := by unfold eiDel; simp only [hw, hga]
      rw [hdel]
      refine ⟨fun _ => rfl, fun v hv => ?_⟩
      rw [web_get_nil s e kt hw (by rw [hga]; rfl)] at hv; cases hv
    | cons p t =>
      have hdel : eiDel s e kt = .ok (delallPrefix pWOAR s) := by unfold eiDel; simp only [hw, hga]
      rw [hdel]
      refine ⟨fun h => ?_, fun v hv => ⟨delallPrefix pWOAR s, rfl, inv_filter s hs _, ?_, ?_, by rw [lookup_delall]; simp [kTMCL_not_woar]⟩⟩
      · exfalso
        cases hfm : (getallPrefix pWOAR s).filterMap (fun p => woarUrl p.2) with
        | nil => rw [(web_urls_nil s hs).1 hfm] at hga; cases hga
        | cons a r => rw [web_get_cons s e kt hw a r hfm] at h; cases h
      · exact web_get_nil _ e kt hw (by rw [getall_delall]; rfl)
      · intro e2 k2 he2 hg2 hne
        apply eiGet_frame _ _ e2 he2 hg2 k2
        · intro hk2 h2
          have hp2 : eiPlain e2 = true := by
            rcases eiGood_cases e2 hg2 with h | h
            · exact h
            · simp [hkOf, h] at h2
          obtain ⟨hk2', h2', hnw⟩ := slot_hk e2 he2 hp2
          rw [h2] at h2'; injection h2' with h2'; subst h2'
          rw [lookup_delall]; simp [hnw]
        · intro hw2
          exfalso; apply hne
          have h1 : easyId3Registry.all (fun x => !(x.kind == .website) || x.key == [119, 101, 98, 115, 105, 116, 101]) = true := by
            decide +kernel
          have a := List.all_eq_true.1 h1 e he
          have b := List.all_eq_true.1 h1 e2 he2
          simp [hw, hw2] at a b
          exact str_key_inj e2 e he2 he (b.trans a.symm)


theorem perfRead_lookup (s1 s2 : Id3) (r : Text) (h : lookup kTMCL s1 = lookup kTMCL s2) :
    perfRead s1 r = perfRead s2 r := by
  unfold perfRead; rw [h]

theorem eiSet_perf_none (s : Id3) (kt : Text) (v : PVal) (hi : eiItems v = none) :
    eiSet s perfEntry kt v = (.error .notImplemented, s) := by
  unfold eiSet; simp only [hi]

theorem eiSet_perf_notexts (s : Id3) (kt : Text) (v : PVal) (items : List Item) (hi : eiItems v = some items)
    (ht : eiTexts items = none) : eiSet s perfEntry kt v = (.error .notImplemented, s) := by
  unfold eiSet; simp only [hi, perfEntry, ht]

theorem eiSet_perf_some (s : Id3) (kt : Text) (v : PVal) (items : List Item) (l : List Text)
    (hi : eiItems v = some items) (ht : eiTexts items = some l) :
    eiSet s perfEntry kt v = perfSet s (roleOf kt) l := by
  unfold eiSet; simp only [hi, perfEntry, ht]

theorem eiDel_perf (s : Id3) (kt : Text) : eiDel s perfEntry kt = perfDel s (roleOf kt) := by
  unfold eiDel; simp only [perfEntry]

/-- the people after `performer_set` -/
def perfNew (s : Id3) (r : Text) (l : List Text) : People :=
  (peopleD s).filter (fun p => p.1 != r) ++ l.map (fun x => (r, x))

theorem perfSet_inv (s : Id3) (hs : EasyId3Inv s) (r : Text) (l : List Text) :
    perfSet s r l = (.ok (), insert kTMCL (.tmcl 3 (perfNew s r l)) s) := by
  unfold perfSet perfNew peopleD peopleOf
  rcases tmcl_shape s hs with h | ⟨enc, p, h, _⟩
  · simp [h]
  · simp [h]

theorem peopleD_stable (s : Id3) (hs : EasyId3Inv s) : rolesStable (peopleD s) = true := by
  unfold peopleD peopleOf
  rcases tmcl_shape s hs with h | ⟨enc, p, h, hp⟩
  · simp [h, rolesStable]
  · simp [h, hp]

theorem perfNew_stable (s : Id3) (hs : EasyId3Inv s) (r : Text) (hr : pyLower r = r) (l : List Text) :
    rolesStable (perfNew s r l) = true := by
  have h0 := peopleD_stable s hs
  simp only [rolesStable, List.all_eq_true, beq_iff_eq] at h0 ⊢
  intro x hx
  rcases List.mem_append.1 hx with h | h
  · exact h0 x (List.mem_filter.1 h).1
  · obtain ⟨a, _, rfl⟩ := List.mem_map.1 h; exact hr

theorem perfRead_after_set_other (s : Id3) (hs : EasyId3Inv s) (r r2 : Text) (l : List Text) (hne : r2 ≠ r) :
    perfRead (insert kTMCL (.tmcl 3 (perfNew s r l)) s) r2 = perfRead s r2 := by
  have hl : lookup kTMCL (insert kTMCL (.tmcl 3 (perfNew s r l)) s) = some (.tmcl 3 (perfNew s r l)) := by
    rw [lookup_insert]; simp
  have hf := people_filter_other (peopleD s) (l.map (fun x => (r, x))) r r2 hne (fun x hx => by
    obtain ⟨a, _, rfl⟩ := List.mem_map.1 hx; rfl)
  rcases tmcl_shape s hs with h | ⟨enc, p, h, _⟩
  · rw [perfRead_none s h]
    apply perfRead_nil _ 3 _ hl
    have : peopleD s = [] := by simp [peopleD, peopleOf, h]
    unfold perfNew; rw [hf, this]; rfl
  · apply perfRead_congr _ _ 3 enc _ p hl h
    have : peopleD s = p := by simp [peopleD, peopleOf, h]
    unfold perfNew; rw [hf, this]

theorem perfRead_after_set_same (s : Id3) (r : Text) (l : List Text) :
    perfRead (insert kTMCL (.tmcl 3 (perfNew s r l)) s) r =
      perfRead (insert kTMCL (.tmcl 3 (perfNew [] r l)) []) r := by
  have hl : ∀ s0 : Id3, lookup kTMCL (insert kTMCL (.tmcl 3 (perfNew s0 r l)) s0) = some (.tmcl 3 (perfNew s0 r l)) := by
    intro s0; rw [lookup_insert]; simp
  have hs : ∀ s0 : Id3, ((perfNew s0 r l).filter (fun x => x.1 == r)).map Prod.snd = l :=
    fun s0 => people_filter_same (peopleD s0) r l
  cases l with
  | nil => rw [perfRead_nil _ 3 _ (hl s) r (hs s), perfRead_nil _ 3 _ (hl []) r (hs [])]
  | cons a t => rw [perfRead_cons _ 3 _ (hl s) r a t (hs s), perfRead_cons _ 3 _ (hl []) r a t (hs [])]

/-- reading of a good pair after a change that leaves its own frame(s) alone -/
theorem pair_get_frame (s s' : Id3) (e2 : EIEntry) (t2 : Text) (h2 : GoodPair e2 t2)
    (hslot : ∀ hk, eiPlain e2 = true → hkOf e2 = some hk → lookup hk s' = lookup hk s)
    (hweb : e2.kind = .website → getallPrefix pWOAR s' = getallPrefix pWOAR s)
    (hperf : e2 = perfEntry → perfRead s' (roleOf t2) = perfRead s (roleOf t2)) :
    eiGet s' e2 t2 = eiGet s e2 t2 := by
  rcases h2.2 with hg | ⟨rfl, _⟩
  · apply eiGet_frame _ _ e2 h2.1 hg t2
    · intro hk hhk
      have hp2 : eiPlain e2 = true := by
        rcases eiGood_cases e2 hg with h | h
        · exact h
        · simp [hkOf, h] at hhk
      exact hslot hk hp2 hhk
    · exact hweb
  · rw [eiGet_perf, eiGet_perf]; exact hperf rfl

theorem pair_set_effect (e : EIEntry) (kt : Text) (h : GoodPair e kt) (v : PVal) :
    (∃ err, ∀ s0, EasyId3Inv s0 → eiSet s0 e kt v = (.error err, s0)) ∨
    (∃ T : Id3 → Id3, (∀ s0, EasyId3Inv s0 → eiSet s0 e kt v = (.ok (), T s0)) ∧
      (∀ s0, EasyId3Inv s0 → EasyId3Inv (T s0)) ∧
      (∀ s0 e2 t2, EasyId3Inv s0 → GoodPair e2 t2 → eiNormKey e2 t2 ≠ eiNormKey e kt →
        eiGet (T s0) e2 t2 = eiGet s0 e2 t2) ∧
      (∀ s0, EasyId3Inv s0 → eiGet (T s0) e kt = eiGet (T []) e kt)) := by
  rcases h.2 with hg | ⟨rfl, hr⟩
  · rcases ei_set_effect e h.1 hg kt v with ⟨err, h1⟩ | ⟨T, h1, h2, h3, h4, h5⟩
    · left; exact ⟨err, fun s0 _ => h1 s0⟩
    · right
      refine ⟨T, fun s0 _ => h1 s0, h2, ?_, fun s0 _ => h4 s0⟩
      intro s0 e2 t2 hs0 hp2 hne
      rcases hp2.2 with hg2 | ⟨rfl, _⟩
      · apply h3 s0 e2 t2 hp2.1 hg2
        intro heq; subst heq
        exact hne (by rw [eiNormKey_good e2 t2 hg2, eiNormKey_good e2 kt hg])
      · rw [eiGet_perf, eiGet_perf]; exact perfRead_lookup _ _ _ (h5 s0)
  · cases hi : eiItems v with
    | none => left; exact ⟨.notImplemented, fun s0 _ => eiSet_perf_none s0 kt v hi⟩
    | some items =>
      cases ht : eiTexts items with
      | none => left; exact ⟨.notImplemented, fun s0 _ => eiSet_perf_notexts s0 kt v items hi ht⟩
      | some l =>
        right
        refine ⟨fun s0 => insert kTMCL (.tmcl 3 (perfNew s0 (roleOf kt) l)) s0, ?_, ?_, ?_, ?_⟩
        · intro s0 hs0; rw [eiSet_perf_some s0 kt v items l hi ht, perfSet_inv s0 hs0]
        · intro s0 hs0; exact inv_tmcl_insert s0 hs0 3 _ (perfNew_stable s0 hs0 _ hr l)
        · intro s0 e2 t2 hs0 hp2 hne
          apply pair_get_frame _ _ e2 t2 hp2
          · intro hk hp hhk
            have := slot_hk_ne_tmcl e2 hp2.1 hp hk hhk
            have hne' : ¬ kTMCL = hk := fun h => this h.symm
            rw [lookup_insert]; simp [hne']
          · intro _; exact getall_insert_other pWOAR kTMCL _ kTMCL_not_woar s0
          · intro he2; subst he2
            apply perfRead_after_set_other s0 hs0
            intro heq; apply hne; rw [eiNormKey_perf, eiNormKey_perf, heq]
        · intro s0 _
          rw [eiGet_perf, eiGet_perf]; exact perfRead_after_set_same s0 (roleOf kt) l

theorem rolesStable_filter (p : People) (q : Text × Text → Bool) (h : rolesStable p = true) :
    rolesStable (p.filter q) = true := by
  simp only [rolesStable, List.all_eq_true] at h ⊢
  intro x hx; exact h x (List.mem_filter.1 hx).1

theorem perf_del_effect (s : Id3) (hs : EasyId3Inv s) (r : Text) :
    (perfRead s r = .error .key → perfDel s r = .error .key) ∧
    (∀ v, perfRead s r = .ok v → ∃ s', perfDel s r = .ok s' ∧ EasyId3Inv s' ∧ perfRead s' r = .error .key ∧
      ∀ e2 t2, GoodPair e2 t2 → eiNormKey e2 t2 ≠ pPerformer ++ r → eiGet s' e2 t2 = eiGet s e2 t2) := by
  rcases tmcl_shape s hs with hl | ⟨enc, p, hl, hp⟩
  · refine ⟨fun _ => by unfold perfDel; rw [hl], fun v hv => ?_⟩
    rw [perfRead_none s hl] at hv; cases hv
  · have hdel : perfDel s r = (if (p.filter (fun x => x.1 != r) == p) = true then .error .key
        else if (p.filter (fun x => x.1 != r)).isEmpty = true then .ok (erase kTMCL s)
        else .ok (insert kTMCL (.tmcl enc (p.filter (fun x => x.1 != r))) s)) := by
      unfold perfDel; rw [hl]
    by_cases hf : p.filter (fun x => x.1 == r) = []
    · have hrest := (people_rest_eq_iff p r).2 hf
      refine ⟨fun _ => by rw [hdel, hrest]; simp, fun v hv => ?_⟩
      rw [perfRead_nil s enc p hl r (by rw [hf]; rfl)] at hv; cases hv
    · have hrest : ¬ p.filter (fun x => x.1 != r) = p := fun h => hf ((people_rest_eq_iff p r).1 h)
      have hbeq : (p.filter (fun x => x.1 != r) == p) = false := by
        cases hh : (p.filter (fun x => x.1 != r) == p) with
        | false => rfl
        | true => exact absurd (eq_of_beq hh) hrest
      refine ⟨fun hk => ?_, fun v hv => ?_⟩
      · exfalso
        cases hq : (p.filter (fun x => x.1 == r)).map Prod.snd with
        | nil => exact hf (List.map_eq_nil_iff.1 hq)
        | cons a t => rw [perfRead_cons s enc p hl r a t hq] at hk; cases hk
      · by_cases hemp : (p.filter (fun x => x.1 != r)).isEmpty = true
        · refine ⟨erase kTMCL s, by rw [hdel, hbeq]; simp [hemp], inv_erase s hs kTMCL, ?_, ?_⟩
          · apply perfRead_none; rw [lookup_erase _ _ _ hs.1]; simp
          · intro e2 t2 hp2 hne
            apply pair_get_frame _ _ e2 t2 hp2
            · intro hk hpl hhk
              have := slot_hk_ne_tmcl e2 hp2.1 hpl hk hhk
              exact lookup_erase_ne _ _ _ (fun h => this h.symm)
            · intro _; exact getall_erase_other pWOAR kTMCL kTMCL_not_woar s
            · intro he2; subst he2
              have hr2 : roleOf t2 ≠ r := by
                intro heq; apply hne; rw [eiNormKey_perf, heq]
              rw [perfRead_none _ (by rw [lookup_erase _ _ _ hs.1]; simp)]
              symm
              apply perfRead_nil s enc p hl
              rw [← people_rest_filter p r (roleOf t2) hr2, List.isEmpty_iff.1 hemp]; rfl
        · have hl' : lookup kTMCL (insert kTMCL (.tmcl enc (p.filter (fun x => x.1 != r))) s) =
              some (.tmcl enc (p.filter (fun x => x.1 != r))) := by rw [lookup_insert]; simp
          refine ⟨insert kTMCL (.tmcl enc (p.filter (fun x => x.1 != r))) s, by rw [hdel, hbeq]; simp [hemp],
            inv_tmcl_insert s hs enc _ (rolesStable_filter p _ hp), ?_, ?_⟩
          · apply perfRead_nil _ enc _ hl'
            rw [people_rest_same]; rfl
          · intro e2 t2 hp2 hne
            apply pair_get_frame _ _ e2 t2 hp2
            · intro hk hpl hhk
              have := slot_hk_ne_tmcl e2 hp2.1 hpl hk hhk
              have hne' : ¬ kTMCL = hk := fun h => this h.symm
              rw [lookup_insert]; simp [hne']
            · intro _; exact getall_insert_other pWOAR kTMCL _ kTMCL_not_woar s
            · intro he2; subst he2
              have hr2 : roleOf t2 ≠ r := by
                intro heq; apply hne; rw [eiNormKey_perf, heq]
              exact perfRead_congr _ _ enc enc _ p hl' hl _ (people_rest_filter p r (roleOf t2) hr2)


theorem pair_del_effect (s : Id3) (hs : EasyId3Inv s) (e : EIEntry) (kt : Text) (h : GoodPair e kt) :
    (eiGet s e kt = .error .key → eiDel s e kt = .error .key) ∧
    (∀ v, eiGet s e kt = .ok v → ∃ s', eiDel s e kt = .ok s' ∧ EasyId3Inv s' ∧ eiGet s' e kt = .error .key ∧
      ∀ e2 t2, GoodPair e2 t2 → eiNormKey e2 t2 ≠ eiNormKey e kt → eiGet s' e2 t2 = eiGet s e2 t2) := by
  rcases h.2 with hg | ⟨rfl, hr⟩
  · obtain ⟨h1, h2⟩ := ei_del_effect s hs e h.1 hg kt
    refine ⟨h1, fun v hv => ?_⟩
    obtain ⟨s', a1, a2, a3, a4, a5⟩ := h2 v hv
    refine ⟨s', a1, a2, a3, ?_⟩
    intro e2 t2 hp2 hne
    rcases hp2.2 with hg2 | ⟨rfl, _⟩
    · apply a4 e2 t2 hp2.1 hg2
      intro heq; subst heq
      exact hne (by rw [eiNormKey_good e2 t2 hg2, eiNormKey_good e2 kt hg])
    · rw [eiGet_perf, eiGet_perf]; exact perfRead_lookup _ _ _ a5
  · rw [eiGet_perf, eiDel_perf]
    obtain ⟨h1, h2⟩ := perf_del_effect s hs (roleOf kt)
    refine ⟨h1, fun v hv => ?_⟩
    obtain ⟨s', a1, a2, a3, a4⟩ := h2 v hv
    exact ⟨s', a1, a2, by rw [eiGet_perf]; exact a3, a4⟩

/-! ### `keys()` under the invariant -/

theorem pair_get_good (s : Id3) (hs : EasyId3Inv s) (e : EIEntry) (t : Text) (h : GoodPair e t) :
    eiGet s e t = .error .key ∨ ∃ v, eiGet s e t = .ok v := by
  rcases h.2 with hg | ⟨rfl, _⟩
  · exact eiGet_good s hs e h.1 hg t
  · rw [eiGet_perf]; exact perfRead_good s hs _

theorem reg_gainpeak (e : EIEntry) (he : e ∈ easyId3Registry)
    (h : e.key = pReplaygain ++ [42] ++ sGain ∨ e.key = pReplaygain ++ [42] ++ sPeak) :
    eiGood e = false ∧ e ≠ perfEntry ∧ (e.kind = .gain ∨ e.kind = .peak) := by
  have h1 : easyId3Registry.all (fun x => !(x.key == pReplaygain ++ [42] ++ sGain || x.key == pReplaygain ++ [42] ++ sPeak) ||
      (!eiGood x && x != perfEntry && (x.kind == .gain || x.kind == .peak))) = true := by decide +kernel
  have := List.all_eq_true.1 h1 e he
  have hk : (e.key == pReplaygain ++ [42] ++ sGain || e.key == pReplaygain ++ [42] ++ sPeak) = true := by
    rcases h with h | h <;> simp [h]
  simp only [hk, Bool.not_true, Bool.false_or, Bool.and_eq_true, Bool.not_eq_true', bne_iff_ne, ne_eq,
    Bool.or_eq_true, beq_iff_eq] at this
  exact ⟨this.1.1, this.1.2, this.2⟩

theorem eiKeysOf_gainpeak (s : Id3) (hs : EasyId3Inv s) (e : EIEntry) (he : e ∈ easyId3Registry)
    (h : e.key = pReplaygain ++ [42] ++ sGain ∨ e.key = pReplaygain ++ [42] ++ sPeak) : eiKeysOf s e = [] := by
  obtain ⟨_, _, hk⟩ := reg_gainpeak e he h
  unfold eiKeysOf
  rcases hk with hk | hk
  · simp only [hk]; exact gainKeys_inv s hs
  · have hkey : e.key = pReplaygain ++ [42] ++ sPeak := by
      rcases h with h | h
      · exfalso
        have h1 : easyId3Registry.all (fun x => !(x.kind == .peak) || x.key == pReplaygain ++ [42] ++ sPeak) = true := by
          decide +kernel
        have := List.all_eq_true.1 h1 e he
        simp [hk] at this
        rw [h] at this; revert this; decide
      · exact h
    have hg : easyId3Get s (.str e.key) = .error .key := by
      simp only [easyId3Get, eiEntryOf_plain e he, eiGet, hk]
      have hd : descOf e.key = [42] := by rw [hkey]; decide
      rw [hd, inv_no_rva2star s hs]
    simp only [hk, eiKeyIfPresent, hg]

theorem mem_eiKeysOf (s : Id3) (hs : EasyId3Inv s) (e : EIEntry) (he : e ∈ easyId3Registry) (t : Text) :
    t ∈ eiKeysOf s e ↔ GoodPair e t ∧ eiNormKey e t = t ∧ ∃ v, eiGet s e t = .ok v := by
  rcases reg_kinds e he with hg | rfl | hgp | hgp
  · -- single-frame / website entry
    have hg' : easyId3Get s (.str e.key) = eiGet s e e.key := by simp [easyId3Get, eiEntryOf_plain e he]
    have hform : eiKeysOf s e = eiKeyIfPresent s e := by
      unfold eiKeysOf
      rcases eiGood_cases e hg with h | h
      · unfold eiPlain at h
        cases hkd : e.kind <;> simp only [hkd] at h ⊢ <;> simp at h
      · simp only [h]
    rw [hform]
    constructor
    · intro hm
      rcases eiGet_good s hs e he hg e.key with h1 | ⟨v, h1⟩
      · simp [eiKeyIfPresent, hg', h1] at hm
      · have : t = e.key := by simpa [eiKeyIfPresent, hg', h1] using hm
        subst this
        exact ⟨⟨he, Or.inl hg⟩, eiNormKey_good e _ hg, v, h1⟩
    · rintro ⟨_, hn, v, hv⟩
      rw [eiNormKey_good e t hg] at hn
      subst hn
      simp [eiKeyIfPresent, hg', hv]
  · -- performer:*
    have hform : eiKeysOf s perfEntry = performerKeys s := by unfold eiKeysOf; simp only [perfEntry]
    rw [hform]
    unfold performerKeys peopleOf
    rcases tmcl_shape s hs with hl | ⟨enc, p, hl, hp⟩
    · simp only [hl, List.not_mem_nil, false_iff]
      rintro ⟨_, _, v, hv⟩
      rw [eiGet_perf, perfRead_none s hl] at hv; cases hv
    · simp only [hl, mem_dedup, List.mem_map]
      constructor
      · rintro ⟨x, hx, rfl⟩
        have hst : pyLower x.1 = x.1 := by
          have := List.all_eq_true.1 hp x hx; simpa using this
        refine ⟨⟨perfEntry_mem, Or.inr ⟨rfl, by rw [roleOf_perf]; exact hst⟩⟩, by rw [eiNormKey_perf, roleOf_perf], ?_⟩
        rw [eiGet_perf, roleOf_perf]
        cases hq : (p.filter (fun y => y.1 == x.1)).map Prod.snd with
        | nil =>
          exfalso
          have : x ∈ p.filter (fun y => y.1 == x.1) := List.mem_filter.2 ⟨hx, by simp⟩
          rw [List.map_eq_nil_iff.1 hq] at this; cases this
        | cons a r => exact ⟨_, perfRead_cons s enc p hl x.1 a r hq⟩
      · rintro ⟨_, hn, v, hv⟩
        rw [eiNormKey_perf] at hn
        rw [eiGet_perf] at hv
        cases hq : p.filter (fun y => y.1 == roleOf t) with
        | nil => rw [perfRead_nil s enc p hl _ (by rw [hq]; rfl)] at hv; cases hv
        | cons x r =>
          have hx : x ∈ p.filter (fun y => y.1 == roleOf t) := by rw [hq]; simp
          obtain ⟨hxp, hxr⟩ := List.mem_filter.1 hx
          exact ⟨x, hxp, by rw [← hn]; congr 1; simpa using hxr⟩
  · rw [eiKeysOf_gainpeak s hs e he (Or.inl hgp)]
    obtain ⟨h1, h2, _⟩ := reg_gainpeak e he (Or.inl hgp)
    simp only [List.not_mem_nil, false_iff]
    rintro ⟨⟨_, h | ⟨h, _⟩⟩, _⟩
    · rw [h1] at h; cases h
    · exact h2 h
  · rw [eiKeysOf_gainpeak s hs e he (Or.inr hgp)]
    obtain ⟨h1, h2, _⟩ := reg_gainpeak e he (Or.inr hgp)
    simp only [List.not_mem_nil, false_iff]
    rintro ⟨⟨_, h | ⟨h, _⟩⟩, _⟩
    · rw [h1] at h; cases h
    · exact h2 h

theorem mem_easyId3Keys (s : Id3) (κ : PKey) :
    κ ∈ easyId3Keys s ↔ ∃ e ∈ easyId3Registry, ∃ t ∈ eiKeysOf s e, κ = .str t := by
  unfold easyId3Keys
  simp only [List.mem_map, List.mem_flatten]
  constructor
  · rintro ⟨t, ⟨l, ⟨e, he, rfl⟩, ht⟩, rfl⟩; exact ⟨e, he, t, ht, rfl⟩
  · rintro ⟨e, he, t, ht, rfl⟩; exact ⟨t, ⟨_, ⟨e, he, rfl⟩, ht⟩, rfl⟩

theorem eiKeysOf_nodup (s : Id3) (hs : EasyId3Inv s) (e : EIEntry) (he : e ∈ easyId3Registry) : (eiKeysOf s e).Nodup := by
  rcases reg_kinds e he with hg | rfl | hgp | hgp
  · have hform : eiKeysOf s e = eiKeyIfPresent s e := by
      unfold eiKeysOf
      rcases eiGood_cases e hg with h | h
      · unfold eiPlain at h
        cases hkd : e.kind <;> simp only [hkd] at h ⊢ <;> simp at h
      · simp only [h]
    rw [hform]; unfold eiKeyIfPresent; split <;> simp
  · have hform : eiKeysOf s perfEntry = performerKeys s := by unfold eiKeysOf; simp only [perfEntry]
    rw [hform]; unfold performerKeys
    cases peopleOf s with
    | none => simp
    | some p => exact nodup_dedup _
  · rw [eiKeysOf_gainpeak s hs e he (Or.inl hgp)]; simp
  · rw [eiKeysOf_gainpeak s hs e he (Or.inr hgp)]; simp

theorem nodup_flatten_of {α : Type} (L : List (List α)) (h1 : ∀ l ∈ L, l.Nodup)
    (h2 : L.Pairwise (fun a b => ∀ x, x ∈ a → x ∈ b → False)) : L.flatten.Nodup := by
  induction L with
  | nil => simp
  | cons l t ih =>
    rw [List.pairwise_cons] at h2
    rw [List.flatten_cons, List.nodup_append]
    refine ⟨h1 l (by simp), ih (fun x hx => h1 x (by simp [hx])) h2.2, ?_⟩
    intro a ha b hb hab
    obtain ⟨l', hl', hbl⟩ := List.mem_flatten.1 hb
    exact h2.1 l' hl' a ha (hab ▸ hbl)

theorem keys_nodup_inv (s : Id3) (hs : EasyId3Inv s) : (easyId3Keys s).Nodup := by
  unfold easyId3Keys
  have hflat : ((easyId3Registry.map (eiKeysOf s)).flatten).Nodup := by
    apply nodup_flatten_of
    · intro l hl
      obtain ⟨e, he, rfl⟩ := List.mem_map.1 hl
      exact eiKeysOf_nodup s hs e he
    · rw [List.pairwise_map]
      have hreg : easyId3Registry.Pairwise (fun a b => a.key ≠ b.key) := by
        have := eiReg_keys_nodup
        rw [List.Nodup, List.pairwise_map] at this; exact this
      apply List.Pairwise.imp_of_mem _ hreg
      intro a b ha hb hab t hta htb
      obtain ⟨pa, na, _⟩ := (mem_eiKeysOf s hs a ha t).1 hta
      obtain ⟨pb, nb, _⟩ := (mem_eiKeysOf s hs b hb t).1 htb
      have := (pair_key_inj a b t t pa pb (na.trans nb.symm)).1
      exact hab (by rw [this])
  exact List.Pairwise.map PKey.str (fun a b h e => h (by injection e)) hflat

/-- a normal key: its own pair -/
theorem normal_pair (κ : PKey) (h : easyId3PolicyG.norm κ = .ok κ) :
    ∃ e t, κ = .str t ∧ GoodPair e t ∧ eiNormKey e t = t ∧ eiEntryOf κ = some (e, t) := by
  obtain ⟨e, kt, hent, hg, hp, hκ⟩ := normG_ok κ κ h
  have hk := (eiEntryOf_goodP κ e kt hent hg).1
  have : kt = eiNormKey e kt := by rw [hk] at hκ; injection hκ
  exact ⟨e, kt, hk, hp, this.symm, hent⟩

theorem getG_normal (s : Id3) (e : EIEntry) (t : Text) (hp : GoodPair e t) (hn : eiNormKey e t = t) :
    easyId3ImplG.getitem s (.str t) = eiGet s e t := by
  have := getG_pair s e t hp; rw [hn] at this; exact this

theorem easyid3_viewlaws : ViewLaws easyId3ImplG easyId3PolicyG EasyId3Inv where
  keys_nodup := keys_nodup_inv
  keys_normal := fun s hs κ hκ => by
    have hκ : κ ∈ easyId3Keys s := hκ
    obtain ⟨e, he, t, ht, rfl⟩ := (mem_easyId3Keys s κ).1 hκ
    obtain ⟨hp, hn, _⟩ := (mem_eiKeysOf s hs e he t).1 ht
    have := normG_pair e t hp; rw [hn] at this; exact this
  keys_get := fun s hs κ hκ => by
    obtain ⟨e, t, rfl, hp, hn, _⟩ := normal_pair κ hκ
    rw [getG_normal s e t hp hn]
    show PKey.str t ∈ easyId3Keys s ↔ _
    rw [mem_easyId3Keys]
    constructor
    · rintro ⟨e', he', t', ht', heq⟩
      injection heq with heq; subst heq
      obtain ⟨hp', hn', v, hv⟩ := (mem_eiKeysOf s hs e' he' t).1 ht'
      have := (pair_key_inj e' e t t hp' hp (hn'.trans hn.symm)).1
      subst this; exact ⟨v, hv⟩
    · rintro ⟨v, hv⟩
      exact ⟨e, hp.1, t, (mem_eiKeysOf s hs e hp.1 t).2 ⟨hp, hn, v, hv⟩, rfl⟩
  get_err := fun s hs κ err hκ hg => by
    obtain ⟨e, t, rfl, hp, hn, _⟩ := normal_pair κ hκ
    rw [getG_normal s e t hp hn] at hg
    rcases pair_get_good s hs e t hp with h1 | ⟨v, h1⟩
    · rw [h1] at hg; injection hg with hg; exact hg.symm
    · rw [h1] at hg; cases hg
  norm_idem := fun k κ h => by
    obtain ⟨e, kt, _, _, hp, rfl⟩ := normG_ok k κ h
    exact normG_pair e kt hp
  get_norm := fun s k κ hs h => by
    obtain ⟨e, kt, hent, hg, hp, rfl⟩ := normG_ok k κ h
    rw [getG_pair s e kt hp]
    simp only [easyId3ImplG, hg, ↓reduceIte, easyId3Get, hent]
  bad_key := fun s k err hs h => by
    simp only [easyId3PolicyG, easyId3Policy] at h
    cases hg : eiGoodKey k with
    | false =>
      simp only [hg] at h
      have : err = .notImplemented := by simpa using h.symm
      subst this
      simp [easyId3ImplG, hg]
    | true =>
      simp only [hg, ↓reduceIte] at h
      cases hent : eiEntryOf k with
      | some p => simp [hent] at h
      | none =>
        simp only [hent, Except.error.injEq] at h
        subst h
        simp [easyId3ImplG, hg, easyId3Get, easyId3Set, easyId3SetFull, easyId3Del, hent]
  set_err := fun s k κ v err hs hn hc => by
    obtain ⟨e, kt, hent, hg, hp, rfl⟩ := normG_ok k κ hn
    simp only [easyId3PolicyG, easyId3Policy, hent, eiCoerce] at hc
    simp only [easyId3ImplG, hg, ↓reduceIte, easyId3Set, easyId3SetFull, hent]
    rcases pair_set_effect e kt hp v with ⟨err', h1⟩ | ⟨T, h1, h2, h3, h4⟩
    · rw [h1 [] easyId3Inv_nil] at hc; rw [h1 s hs]
      simpa using hc
    · exfalso
      rw [h1 [] easyId3Inv_nil] at hc
      rcases pair_get_good (T []) (h2 [] easyId3Inv_nil) e kt hp with h5 | ⟨vv, h5⟩ <;> simp [h5] at hc
  set_some := fun s k κ v v' hs hn hc => by
    obtain ⟨e, kt, hent, hg, hp, rfl⟩ := normG_ok k κ hn
    simp only [easyId3PolicyG, easyId3Policy, hent, eiCoerce] at hc
    rcases pair_set_effect e kt hp v with ⟨err', h1⟩ | ⟨T, h1, h2, h3, h4⟩
    · rw [h1 [] easyId3Inv_nil] at hc; simp at hc
    · rw [h1 [] easyId3Inv_nil] at hc
      have hread : eiGet (T []) e kt = .ok v' := by
        rcases pair_get_good (T []) (h2 [] easyId3Inv_nil) e kt hp with h5 | ⟨vv, h5⟩ <;> simp [h5] at hc
        rw [h5, hc]
      refine ⟨T s, ?_, h2 s hs, ?_⟩
      · simp [easyId3ImplG, hg, easyId3Set, easyId3SetFull, hent, h1 s hs]
      · intro κ2 hn2
        obtain ⟨e2, t2, rfl, hp2, hnk2, _⟩ := normal_pair κ2 hn2
        rw [getG_normal _ e2 t2 hp2 hnk2, getG_normal _ e2 t2 hp2 hnk2]
        by_cases heq : eiNormKey e kt = t2
        · have hpi := pair_key_inj e e2 kt t2 hp hp2 (heq.trans hnk2.symm)
          obtain ⟨rfl, hrole⟩ := hpi
          simp only [heq, ↓reduceIte]
          have : eiGet (T s) e t2 = eiGet (T s) e kt := by
            rw [pair_get_norm _ e t2 hp2, pair_get_norm _ e kt hp, hnk2, heq]
          rw [this, h4 s hs, hread]
        · have hne : ¬ PKey.str (eiNormKey e kt) = PKey.str t2 := fun h => heq (by injection h)
          simp only [hne, ↓reduceIte]
          exact h3 s e2 t2 hs hp2 (by rw [hnk2]; exact fun h => heq h.symm)
  set_none := fun s k κ v hs hn hc => by
    obtain ⟨e, kt, hent, hg, hp, rfl⟩ := normG_ok k κ hn
    simp only [easyId3PolicyG, easyId3Policy, hent, eiCoerce] at hc
    rcases pair_set_effect e kt hp v with ⟨err', h1⟩ | ⟨T, h1, h2, h3, h4⟩
    · rw [h1 [] easyId3Inv_nil] at hc; simp at hc
    · rw [h1 [] easyId3Inv_nil] at hc
      have hread : eiGet (T []) e kt = .error .key := by
        rcases pair_get_good (T []) (h2 [] easyId3Inv_nil) e kt hp with h5 | ⟨vv, h5⟩
        · exact h5
        · simp [h5] at hc
      refine ⟨T s, ?_, h2 s hs, ?_⟩
      · simp [easyId3ImplG, hg, easyId3Set, easyId3SetFull, hent, h1 s hs]
      · intro κ2 hn2
        obtain ⟨e2, t2, rfl, hp2, hnk2, _⟩ := normal_pair κ2 hn2
        rw [getG_normal _ e2 t2 hp2 hnk2, getG_normal _ e2 t2 hp2 hnk2]
        by_cases heq : eiNormKey e kt = t2
        · have hpi := pair_key_inj e e2 kt t2 hp hp2 (heq.trans hnk2.symm)
          obtain ⟨rfl, hrole⟩ := hpi
          simp only [heq, ↓reduceIte]
          have : eiGet (T s) e t2 = eiGet (T s) e kt := by
            rw [pair_get_norm _ e t2 hp2, pair_get_norm _ e kt hp, hnk2, heq]
          rw [this, h4 s hs, hread]
        · have hne : ¬ PKey.str (eiNormKey e kt) = PKey.str t2 := fun h => heq (by injection h)
          simp only [hne, ↓reduceIte]
          exact h3 s e2 t2 hs hp2 (by rw [hnk2]; exact fun h => heq h.symm)
  del_absent := fun s k κ hs hn hg0 => by
    obtain ⟨e, kt, hent, hg, hp, rfl⟩ := normG_ok k κ hn
    rw [getG_pair s e kt hp] at hg0
    simp only [easyId3ImplG, hg, ↓reduceIte, easyId3Del, hent]
    exact (pair_del_effect s hs e kt hp).1 hg0
  del_present := fun s k κ v hs hn hg0 => by
    obtain ⟨e, kt, hent, hg, hp, rfl⟩ := normG_ok k κ hn
    rw [getG_pair s e kt hp] at hg0
    obtain ⟨s', h1, h2, h3, h4⟩ := (pair_del_effect s hs e kt hp).2 v hg0
    refine ⟨s', ?_, h2, ?_⟩
    · simp [easyId3ImplG, hg, easyId3Del, hent, h1]
    · intro κ2 hn2
      obtain ⟨e2, t2, rfl, hp2, hnk2, _⟩ := normal_pair κ2 hn2
      rw [getG_normal _ e2 t2 hp2 hnk2, getG_normal _ e2 t2 hp2 hnk2]
      by_cases heq : eiNormKey e kt = t2
      · have hpi := pair_key_inj e e2 kt t2 hp hp2 (heq.trans hnk2.symm)
        obtain ⟨rfl, hrole⟩ := hpi
        simp only [heq, ↓reduceIte]
        have : eiGet s' e t2 = eiGet s' e kt := by
          rw [pair_get_norm _ e t2 hp2, pair_get_norm _ e kt hp, hnk2, heq]
        rw [this, h3]
      · have hne : ¬ PKey.str (eiNormKey e kt) = PKey.str t2 := fun h => heq (by injection h)
        simp only [hne, ↓reduceIte]
        exact h4 e2 t2 hp2 (by rw [hnk2]; exact fun h => heq h.symm)

theorem easyid3_refines_aux : KRefines easyId3ImplG easyId3PolicyG EasyId3Inv (viewAbs easyId3ImplG) :=
  view_refines easyid3_viewlaws

/-! ### the guarded store is the model on good keys: run congruence -/

theorem easyid3_guardOf : GuardOf eiGoodKey easyId3Impl easyId3ImplG where
  keys := fun s => rfl
  get := fun s k h => by simp [easyId3ImplG, easyId3Impl, h]
  set := fun s k v h => by simp [easyId3ImplG, easyId3Impl, h]
  del := fun s k h => by simp [easyId3ImplG, easyId3Impl, h]

theorem keys_good_inv (s : Id3) (hs : EasyId3Inv s) : ∀ k ∈ easyId3Impl.keys s, eiGoodKey k = true := by
  intro k hk
  have hn := easyid3_viewlaws.keys_normal s hs k hk
  obtain ⟨_, _, _, hg, _⟩ := normG_ok k k hn
  exact hg

theorem easyid3_run_congr_aux (ops : List (Op PKey PVal)) (s : Id3) (hs : EasyId3Inv s)
    (hops : ∀ op ∈ ops, ∀ k ∈ Op.keysOf op, eiGoodKey k = true) :
    easyId3ImplG.run ops s = easyId3Impl.run ops s ∧ easyId3ImplG.exec ops s = easyId3Impl.exec ops s :=
  guard_run easyid3_guardOf EasyId3Inv keys_good_inv
    (fun s op hs => (kstep_exact easyid3_refines_aux s hs op).2.1) ops s hs hops


theorem perfSet_form (s : Id3) (r : Text) (l : List Text) :
    (∃ err, perfSet s r l = (.error err, s)) ∨ (∃ f, perfSet s r l = (.ok (), insert kTMCL f s)) := by
  unfold perfSet
  split
  · right; exact ⟨_, rfl⟩
  · right; exact ⟨_, rfl⟩
  · left; exact ⟨_, rfl⟩

/-- on a good key a raising `__setitem__` leaves the native tags alone (no residue) -/
theorem setFull_good (s : Id3) (k : PKey) (v : PVal) (hg : eiGoodKey k = true) :
    (∃ err, easyId3SetFull s k v = (.error err, s)) ∨ (∃ s', easyId3SetFull s k v = (.ok (), s')) := by
  unfold easyId3SetFull
  cases hent : eiEntryOf k with
  | none => left; exact ⟨.key, rfl⟩
  | some p =>
    obtain ⟨e, kt⟩ := p
    obtain ⟨_, hp⟩ := eiEntryOf_goodP k e kt hent hg
    simp only
    rcases hp.2 with hgd | ⟨rfl, _⟩
    · rcases ei_set_effect e hp.1 hgd kt v with ⟨err, h1⟩ | ⟨T, h1, _⟩
      · left; exact ⟨err, h1 s⟩
      · right; exact ⟨T s, h1 s⟩
    · cases hi : eiItems v with
      | none => left; exact ⟨_, eiSet_perf_none s kt v hi⟩
      | some items =>
        cases ht : eiTexts items with
        | none => left; exact ⟨_, eiSet_perf_notexts s kt v items hi ht⟩
        | some l =>
          rw [eiSet_perf_some s kt v items l hi ht]
          rcases perfSet_form s (roleOf kt) l with ⟨err, h⟩ | ⟨f, h⟩
          · left; exact ⟨err, h⟩
          · right; exact ⟨_, h⟩

theorem updateFull_good (l : List (PKey × PVal)) (hl : ∀ p ∈ l, eiGoodKey p.1 = true) :
    ∀ s, easyId3UpdateFull l s = easyId3Impl.update l s := by
  induction l with
  | nil => intro s; rfl
  | cons p t ih =>
    obtain ⟨k, v⟩ := p
    intro s
    have ih' := ih (fun q hq => hl q (by simp [hq]))
    simp only [easyId3UpdateFull, MapImpl.update, easyId3Impl, easyId3Set]
    rcases setFull_good s k v (hl (k, v) (by simp)) with ⟨err, h⟩ | ⟨s', h⟩
    · simp [h]
    · simp only [h]; exact ih' s'

/-- on operations that mention good keys only, the real object (`easyId3Step`, with its residues)
is `DictMixin` over the four primitives -/
theorem easyId3Step_good (s : Id3) (op : Op PKey PVal) (hop : ∀ k ∈ Op.keysOf op, eiGoodKey k = true) :
    easyId3Step s op = easyId3Impl.step s op := by
  cases op with
  | set k v =>
    simp only [easyId3Step, MapImpl.step, easyId3Impl, easyId3Set]
    rcases setFull_good s k v (hop k (by simp [Op.keysOf])) with ⟨err, h⟩ | ⟨s', h⟩ <;> simp [h]
  | update l =>
    simp only [easyId3Step, MapImpl.step]
    rw [updateFull_good l (fun p hp => hop p.1 (by simp only [Op.keysOf]; exact List.mem_map_of_mem hp)) s]
  | setdefault k d =>
    simp only [easyId3Step, MapImpl.step, MapImpl.setdefault, easyId3Impl, easyId3Set]
    cases easyId3Get s k with
    | ok v => rfl
    | error e =>
      by_cases he : e = .key
      · simp only [he, ↓reduceIte]
        rcases setFull_good s k d (hop k (by simp [Op.keysOf])) with ⟨err, h⟩ | ⟨s', h⟩ <;> simp [h, outOf]
      · simp [he, outOf]
  | _ => rfl

theorem easyid3_real_run_congr_aux (ops : List (Op PKey PVal)) : ∀ (s : Id3), EasyId3Inv s →
    (∀ op ∈ ops, ∀ k ∈ Op.keysOf op, eiGoodKey k = true) → easyId3Run ops s = easyId3ImplG.run ops s := by
  induction ops with
  | nil => intro s _ _; rfl
  | cons op t ih =>
    intro s hs hall
    have h1 := easyId3Step_good s op (hall op (by simp))
    have h2 := guard_step easyid3_guardOf s (keys_good_inv s hs) op (hall op (by simp))
    simp only [easyId3Run, MapImpl.run, h1, ← h2]
    rw [ih _ (kstep_exact easyid3_refines_aux s hs op).2.1 (fun o ho => hall o (by simp [ho]))]


/-- the native side of a successful `view[k] = v` on a good key -/
theorem easySetG_native (s s' : Id3) (k : PKey) (v : PVal) (h : easyId3ImplG.setitem s k v = .ok s') :
    ∃ e kt, eiEntryOf k = some (e, kt) ∧
      ((∃ hk f, hkOf e = some hk ∧ eiPlain e = true ∧ slotFrame e v = .ok f ∧ s' = insert hk f s) ∨
       (e.kind = .website ∧ ∃ l, s' = woarPut l (delallPrefix pWOAR s)) ∨
       (e = perfEntry ∧ ∃ f, s' = insert kTMCL f s)) := by
  simp only [easyId3ImplG] at h
  cases hg : eiGoodKey k with
  | false => simp [hg] at h
  | true =>
    simp only [hg, ↓reduceIte, easyId3Set, easyId3SetFull] at h
    cases hent : eiEntryOf k with
    | none => simp [hent] at h
    | some p =>
      obtain ⟨e, kt⟩ := p
      obtain ⟨_, hp⟩ := eiEntryOf_goodP k e kt hent hg
      refine ⟨e, kt, rfl, ?_⟩
      simp only [hent] at h
      rcases hp.2 with hgd | ⟨rfl, _⟩
      · rcases eiGood_cases e hgd with hpl | hw
        · left
          obtain ⟨hk, hhk, _⟩ := slot_hk e hp.1 hpl
          simp only [eiSet_slot s e kt v hk hhk hpl] at h
          cases hf : slotFrame e v with
          | error err => simp [hf] at h
          | ok f =>
            simp only [hf, Except.ok.injEq] at h
            exact ⟨hk, f, hhk, hpl, rfl, h.symm⟩
        · right; left
          refine ⟨hw, ?_⟩
          unfold eiSet at h
          cases hi : eiItems v with
          | none => simp [hi] at h
          | some items =>
            cases ht : eiTexts items with
            | none => simp [hi, hw, ht] at h
            | some l =>
              simp only [hi, hw, ht, Except.ok.injEq] at h
              exact ⟨l, h.symm⟩
      · right; right
        refine ⟨rfl, ?_⟩
        cases hi : eiItems v with
        | none => rw [eiSet_perf_none s kt v hi] at h; simp at h
        | some items =>
          cases ht : eiTexts items with
          | none => rw [eiSet_perf_notexts s kt v items hi ht] at h; simp at h
          | some l =>
            rw [eiSet_perf_some s kt v items l hi ht] at h
            rcases perfSet_form s (roleOf kt) l with ⟨err, hh⟩ | ⟨f, hh⟩
            · rw [hh] at h; simp at h
            · rw [hh] at h; simp only [Except.ok.injEq] at h; exact ⟨f, h.symm⟩

theorem perfDel_form (s s' : Id3) (r : Text) (h : perfDel s r = .ok s') :
    s' = erase kTMCL s ∨ ∃ f, s' = insert kTMCL f s := by
  unfold perfDel at h
  split at h
  · cases h
  · simp only at h
    split at h
    · cases h
    · split at h
      · left; injection h with h; exact h.symm
      · right; injection h with h; exact ⟨_, h.symm⟩
  · cases h

theorem easyDelG_native (s s' : Id3) (k : PKey) (h : easyId3ImplG.delitem s k = .ok s') :
    ∃ e kt, eiEntryOf k = some (e, kt) ∧
      ((∃ hk, hkOf e = some hk ∧ eiPlain e = true ∧ s' = erase hk s) ∨
       (e.kind = .website ∧ s' = delallPrefix pWOAR s) ∨
       (e = perfEntry ∧ (s' = erase kTMCL s ∨ ∃ f, s' = insert kTMCL f s))) := by
  simp only [easyId3ImplG] at h
  cases hg : eiGoodKey k with
  | false => simp [hg] at h
  | true =>
    simp only [hg, ↓reduceIte, easyId3Del] at h
    cases hent : eiEntryOf k with
    | none => simp [hent] at h
    | some p =>
      obtain ⟨e, kt⟩ := p
      obtain ⟨_, hp⟩ := eiEntryOf_goodP k e kt hent hg
      refine ⟨e, kt, rfl, ?_⟩
      simp only [hent] at h
      rcases hp.2 with hgd | ⟨rfl, _⟩
      · rcases eiGood_cases e hgd with hpl | hw
        · left
          obtain ⟨hk, hhk, _⟩ := slot_hk e hp.1 hpl
          simp only [eiDel_slot s e kt hk hhk hpl] at h
          cases hl : lookup hk s with
          | none => simp [hl] at h
          | some f =>
            simp only [hl, Except.ok.injEq] at h
            exact ⟨hk, hhk, hpl, h.symm⟩
        · right; left
          refine ⟨hw, ?_⟩
          unfold eiDel at h
          cases hga : getallPrefix pWOAR s with
          | nil => simp [hw, hga] at h
          | cons p t => simp only [hw, hga, Except.ok.injEq] at h; exact h.symm
      · right; right
        rw [eiDel_perf] at h
        exact ⟨rfl, perfDel_form s s' _ h⟩

/-- the HashKeys the single-frame entries own -/
def easyId3Owned : List Text := easyId3Registry.filterMap (fun e => if eiPlain e then hkOf e else none)

theorem mem_owned (e : EIEntry) (he : e ∈ easyId3Registry) (hp : eiPlain e = true) (hk : Text) (h : hkOf e = some hk) :
    hk ∈ easyId3Owned := by
  simp only [easyId3Owned, List.mem_filterMap]
  exact ⟨e, he, by simp [hp, h]⟩

theorem easyG_foreign_untouched (ops : List (Op PKey PVal)) (s : Id3) (a : Text) (ha : a ∉ easyId3Owned)
    (hw : startsWith pWOAR a = false) (ht : a ≠ kTMCL) : lookup a (easyId3ImplG.exec ops s) = lookup a s := by
  have ht' : ¬ kTMCL = a := fun h => ht h.symm
  apply exec_preserves easyId3ImplG (fun s' => lookup a s' = lookup a s)
  · intro s0 k v s' hset hq
    have hg : eiGoodKey k = true := by
      cases hg : eiGoodKey k with
      | true => rfl
      | false => simp [easyId3ImplG, hg] at hset
    obtain ⟨e, kt, hent, hcase⟩ := easySetG_native s0 s' k v hset
    obtain ⟨_, hp⟩ := eiEntryOf_goodP k e kt hent hg
    rcases hcase with ⟨hk, f, hhk, hpl, _, rfl⟩ | ⟨_, l, rfl⟩ | ⟨_, f, rfl⟩
    · have hne : ¬ hk = a := fun h => ha (h ▸ mem_owned e hp.1 hpl hk hhk)
      rw [lookup_insert]; simp [hne, hq]
    · rw [lookup_woarPut_other a hw, lookup_delall]; simp [hw, hq]
    · rw [lookup_insert]; simp [ht', hq]
  · intro s0 k s' hdel hq
    have hg : eiGoodKey k = true := by
      cases hg : eiGoodKey k with
      | true => rfl
      | false => simp [easyId3ImplG, hg] at hdel
    obtain ⟨e, kt, hent, hcase⟩ := easyDelG_native s0 s' k hdel
    obtain ⟨_, hp⟩ := eiEntryOf_goodP k e kt hent hg
    rcases hcase with ⟨hk, hhk, hpl, rfl⟩ | ⟨_, rfl⟩ | ⟨_, rfl | ⟨f, rfl⟩⟩
    · have hne : hk ≠ a := fun h => ha (h ▸ mem_owned e hp.1 hpl hk hhk)
      rw [lookup_erase_ne _ _ _ hne]; exact hq
    · rw [lookup_delall]; simp [hw, hq]
    · rw [lookup_erase_ne _ _ _ (fun h => ht h.symm)]; exact hq
    · rw [lookup_insert]; simp [ht', hq]
  · rfl

theorem easyId3KeysE_inv (s : Id3) (hs : EasyId3Inv s) : easyId3KeysE s = .ok (easyId3Keys s) := by
  unfold easyId3KeysE
  have : easyId3Registry.findSome? (eiOtherErr s) = none := by
    rw [List.findSome?_eq_none_iff]
    intro e he
    have hg' : easyId3Get s (.str e.key) = eiGet s e e.key := by simp [easyId3Get, eiEntryOf_plain e he]
    rcases reg_kinds e he with hg | rfl | hgp | hgp
    · unfold eiOtherErr
      rcases eiGet_good s hs e he hg e.key with h1 | ⟨v, h1⟩
      · rcases eiGood_cases e hg with h | h
        · unfold eiPlain at h
          cases hkd : e.kind <;> simp only [hkd] at h ⊢ <;> first | (simp at h; done) | simp [hg', h1]
        · simp [h, hg', h1]
      · rcases eiGood_cases e hg with h | h
        · unfold eiPlain at h
          cases hkd : e.kind <;> simp only [hkd] at h ⊢ <;> first | (simp at h; done) | simp [hg', h1]
        · simp [h, hg', h1]
    · rfl
    · obtain ⟨_, _, hk⟩ := reg_gainpeak e he (Or.inl hgp)
      have hnil := eiKeysOf_gainpeak s hs e he (Or.inl hgp)
      unfold eiOtherErr
      rcases hk with hk | hk
      · simp [hk]
      · unfold eiKeysOf at hnil
        simp only [hk, eiKeyIfPresent] at hnil ⊢
        cases hgg : easyId3Get s (.str e.key) with
        | ok v => rfl
        | error err =>
          rw [hgg] at hnil
          cases err <;> simp at hnil ⊢
    · obtain ⟨_, _, hk⟩ := reg_gainpeak e he (Or.inr hgp)
      have hnil := eiKeysOf_gainpeak s hs e he (Or.inr hgp)
      unfold eiOtherErr
      rcases hk with hk | hk
      · simp [hk]
      · unfold eiKeysOf at hnil
        simp only [hk, eiKeyIfPresent] at hnil ⊢
        cases hgg : easyId3Get s (.str e.key) with
        | ok v => rfl
        | error err =>
          rw [hgg] at hnil
          cases err <;> simp at hnil ⊢
  rw [this]

end Mutagen.Dict
