/- Proofs/DictEasyId3.lean — the plain-key part of `EasyID3` refines the dictionary of its own items (C16) -/
import MutagenModel.Model.DictEasyId3
import MutagenModel.Proofs.DictView
import MutagenModel.Proofs.DictEasyMp4
set_option linter.unusedVariables false
set_option linter.unusedSimpArgs false
namespace Mutagen.Dict
open Mutagen

/-! ### facts about the registry (finite checks) -/

theorem eiReg_keys_nodup : (easyId3Registry.map (·.key)).Nodup := by decide +kernel
theorem eiReg_lower_all : easyId3Registry.all (fun e => decide (pyLower e.key = e.key)) = true := by decide +kernel
theorem eiReg_nostar_all : easyId3Registry.all (fun e => !eiPlain e || !e.key.contains 42) = true := by decide +kernel
/-- HashKeys of the plain non-website entries: distinct -/
theorem eiReg_hk_nodup : ((easyId3Registry.filter (fun e => eiPlain e && (hkOf e).isSome)).map hkOf).Nodup := by
  decide +kernel
theorem eiReg_class_all : easyId3Registry.all (fun e => match e.kind with
    | .text fid => hkClass fid == .text
    | .txxx d => hkClass (pTXXX ++ d) == .text
    | .date fid => hkClass fid == .stamps
    | _ => true) = true := by decide +kernel
theorem eiReg_plain_hk : easyId3Registry.all (fun e => !eiPlain e || (hkOf e).isSome) = true := by
  decide +kernel

theorem globMatch_nostar (p s : Text) (h : p.contains 42 = false) : globMatch p s = (p == s) := by
  induction p generalizing s with
  | nil => cases s <;> simp [globMatch]
  | cons c t ih =>
    have hc : c ≠ 42 := by intro e; subst e; simp at h
    have ht : t.contains 42 = false := by
      simp only [List.contains_cons, Bool.or_eq_false_iff] at h; exact h.2
    cases s with
    | nil => simp [globMatch, hc]
    | cons d r => simp [globMatch, hc, ih r ht]

theorem eiFind_of_plain (e : EIEntry) (he : e ∈ easyId3Registry) : eiFind e.key = some e := by
  unfold eiFind
  have h1 : easyId3Registry.find? (fun x => decide (x.key = e.key)) = some e := by
    have hn := eiReg_keys_nodup
    generalize easyId3Registry = l at he hn
    induction l with
    | nil => simp at he
    | cons a t ih =>
      simp only [List.map_cons, List.nodup_cons] at hn
      rcases List.mem_cons.1 he with h | h
      · subst h; simp
      · have hne : a.key ≠ e.key := fun heq => hn.1 (heq ▸ List.mem_map_of_mem h)
        simp [List.find?_cons, hne, ih h hn.2]
  simp [h1]

theorem eiFind_plain_key (t : Text) (e : EIEntry) (h : eiFind t = some e) (hp : eiPlain e = true) :
    e ∈ easyId3Registry ∧ e.key = t := by
  unfold eiFind at h
  cases h1 : easyId3Registry.find? (fun x => decide (x.key = t)) with
  | some e1 =>
    simp only [h1, Option.some.injEq] at h
    subst h
    exact ⟨List.mem_of_find?_eq_some h1, by simpa using List.find?_some h1⟩
  | none =>
    simp only [h1] at h
    have hm := List.mem_of_find?_eq_some h
    have hg : globMatch e.key t = true := by
      have := List.find?_some h
      simpa using this
    have hs := List.all_eq_true.1 eiReg_nostar_all e hm
    simp only [hp, Bool.not_true, Bool.false_or, Bool.not_eq_true'] at hs
    rw [globMatch_nostar _ _ hs] at hg
    exact ⟨hm, by simpa using hg⟩

theorem eiReg_lower (e : EIEntry) (h : e ∈ easyId3Registry) : pyLower e.key = e.key := by
  have := List.all_eq_true.1 eiReg_lower_all e h
  simpa using this

theorem eiEntryOf_plain (e : EIEntry) (he : e ∈ easyId3Registry) : eiEntryOf (.str e.key) = some (e, e.key) := by
  simp [eiEntryOf, eiReg_lower e he, eiFind_of_plain e he]

/-- the entry of a good registered key: a plain registry entry filed under the lower-cased key -/
theorem eiEntryOf_good (k : PKey) (e : EIEntry) (kt : Text) (h : eiEntryOf k = some (e, kt)) (hg : eiGoodKey k = true) :
    eiPlain e = true ∧ e ∈ easyId3Registry ∧ k = .str kt ∧ e.key = pyLower kt := by
  have hp : eiPlain e = true := by simpa [eiGoodKey, h] using hg
  cases k with
  | str t =>
    simp only [eiEntryOf, Option.map_eq_some_iff, Prod.mk.injEq] at h
    obtain ⟨e', h1, h2, h3⟩ := h
    subst h2; subst h3
    obtain ⟨hm, hk⟩ := eiFind_plain_key _ _ h1 hp
    exact ⟨hp, hm, rfl, hk⟩
  | _ => simp [eiEntryOf] at h

/-- invariant of the native tags under the plain-key part of the view: unique HashKeys, every
frame of the shape its HashKey calls for (so: no TMCL, no RVA2 frame) -/
def EasyId3Inv (s : Id3) : Prop := NodupKeys s ∧ ∀ p ∈ s, frameOK p.1 p.2 = true

theorem easyId3Inv_nil : EasyId3Inv [] := ⟨List.nodup_nil, fun p hp => by simp at hp⟩

theorem inv_lookup (s : Id3) (hs : EasyId3Inv s) (hk : Text) (f : IFrame) (h : lookup hk s = some f) :
    frameOK hk f = true := hs.2 (hk, f) ((mem_iff_lookup hk f s hs.1).2 h)

theorem eiGet_congr (s1 s2 : Id3) (e : EIEntry) (kt : Text) (hk : Text) (h : hkOf e = some hk)
    (hl : lookup hk s1 = lookup hk s2) : eiGet s1 e kt = eiGet s2 e kt := by
  unfold hkOf at h
  unfold eiGet
  cases hkd : e.kind <;> simp only [hkd] at h ⊢ <;> first
    | (simp only [Option.some.injEq] at h; subst h; rw [hl])
    | simp at h

theorem eiGet_web_congr (s1 s2 : Id3) (e : EIEntry) (kt : Text) (h : e.kind = .website)
    (hl : getallPrefix pWOAR s1 = getallPrefix pWOAR s2) : eiGet s1 e kt = eiGet s2 e kt := by
  unfold eiGet; simp only [h, hl]

theorem class_of_entry (e : EIEntry) (he : e ∈ easyId3Registry) :
    (∀ fid, e.kind = .text fid → hkClass fid = .text) ∧ (∀ d, e.kind = .txxx d → hkClass (pTXXX ++ d) = .text) ∧
      (∀ fid, e.kind = .date fid → hkClass fid = .stamps) := by
  have := List.all_eq_true.1 eiReg_class_all e he
  refine ⟨?_, ?_, ?_⟩ <;> intro x hx <;> simp [hx] at this <;> exact this

/-- under the invariant the getter of a plain entry answers `KeyError` or a value -/
theorem eiGet_plain (s : Id3) (hs : EasyId3Inv s) (e : EIEntry) (he : e ∈ easyId3Registry) (hp : eiPlain e = true)
    (kt : Text) : eiGet s e kt = .error .key ∨ ∃ v, eiGet s e kt = .ok v := by
  obtain ⟨c1, c2, c3⟩ := class_of_entry e he
  unfold eiGet
  cases hkd : e.kind with
  | text fid =>
    simp only
    cases hl : lookup fid s with
    | none => left; rfl
    | some f =>
      have := inv_lookup s hs fid f hl
      cases f <;> simp [frameOK, c1 fid hkd] at this
      right; exact ⟨_, rfl⟩
  | txxx d =>
    simp only
    cases hl : lookup (pTXXX ++ d) s with
    | none => left; rfl
    | some f =>
      have := inv_lookup s hs _ f hl
      cases f <;> simp [frameOK, c2 d hkd] at this
      right; exact ⟨_, rfl⟩
  | genre =>
    simp only
    cases hl : lookup kTCON s with
    | none => left; rfl
    | some f =>
      have := inv_lookup s hs _ f hl
      have hc : hkClass kTCON = .genre := by decide
      cases f <;> simp [frameOK, hc] at this
      right
      have h2 : (List.all ‹List Text› genrePlain) = true := by rw [List.all_eq_true]; exact this
      refine ⟨textsVal ‹List Text›, ?_⟩
      simp only [h2, if_true]
  | date fid =>
    simp only
    cases hl : lookup fid s with
    | none => left; rfl
    | some f =>
      have := inv_lookup s hs fid f hl
      cases f <;> simp [frameOK, c3 fid hkd] at this
      right; exact ⟨_, rfl⟩
  | trackid =>
    simp only
    cases hl : lookup kUFID s with
    | none => left; rfl
    | some f =>
      have := inv_lookup s hs _ f hl
      have hc : hkClass kUFID = .ufid := by decide
      cases f <;> simp [frameOK, hc] at this
      right; exact ⟨_, rfl⟩
  | website => simp [eiPlain, hkd] at hp
  | performer => simp [eiPlain, hkd] at hp
  | gain => simp [eiPlain, hkd] at hp
  | peak => simp [eiPlain, hkd] at hp

/-- the frame the setter of a plain single-frame entry makes of a value (no state involved) -/
def slotFrame (e : EIEntry) (v : PVal) : Except PyErr IFrame :=
  match eiItems v with
  | none => .error .notImplemented
  | some items =>
    match e.kind, eiTexts items with
    | .text _, some l => .ok (.text 3 l)
    | .txxx _, some l => .ok (.text (txxxEnc l) l)
    | .genre, some l => if l.all genrePlain then .ok (.text 3 l) else .error .notImplemented
    | .date _, some l =>
      match l.mapM tsNorm with
      | some l' => .ok (.stamps 3 l')
      | none => .error .notImplemented
    | .trackid, _ => trackidFrame items
    | _, _ => .error .notImplemented

theorem eiSet_slot (s : Id3) (e : EIEntry) (kt : Text) (v : PVal) (hk : Text) (h : hkOf e = some hk)
    (hp : eiPlain e = true) :
    eiSet s e kt v = match slotFrame e v with
      | .ok f => (.ok (), insert hk f s)
      | .error err => (.error err, s) := by
  unfold hkOf at h
  unfold eiPlain at hp
  unfold eiSet slotFrame
  cases hi : eiItems v with
  | none => rfl
  | some items =>
    simp only
    cases hkd : e.kind <;> simp only [hkd] at h hp ⊢ <;> try (first | (simp at hp; done) | (simp at h; done))
    all_goals (simp only [Option.some.injEq] at h; subst h)
    · cases eiTexts items <;> rfl
    · cases eiTexts items <;> rfl
    · cases eiTexts items with
      | none => rfl
      | some l => simp only; split <;> rfl
    · cases eiTexts items with
      | none => rfl
      | some l => simp only; cases l.mapM tsNorm <;> rfl
    · cases trackidFrame items <;> rfl


theorem eiDel_slot (s : Id3) (e : EIEntry) (kt : Text) (hk : Text) (h : hkOf e = some hk) (hp : eiPlain e = true) :
    eiDel s e kt = match lookup hk s with
      | some _ => .ok (erase hk s)
      | none => .error .key := by
  unfold hkOf at h
  unfold eiPlain at hp
  unfold eiDel
  cases hkd : e.kind <;> simp only [hkd] at h hp ⊢ <;> try (first | (simp at hp; done) | (simp at h; done))
  all_goals (simp only [Option.some.injEq] at h; subst h; rfl)

theorem hk_of_plain (e : EIEntry) (he : e ∈ easyId3Registry) (hp : eiPlain e = true) : ∃ hk, hkOf e = some hk := by
  have := List.all_eq_true.1 eiReg_plain_hk e he
  simp only [hp, Bool.not_true, Bool.false_or] at this
  exact Option.isSome_iff_exists.1 this

theorem hk_inj (e1 e2 : EIEntry) (h1 : e1 ∈ easyId3Registry) (h2 : e2 ∈ easyId3Registry) (p1 : eiPlain e1 = true)
    (p2 : eiPlain e2 = true) (hk : Text) (k1 : hkOf e1 = some hk) (k2 : hkOf e2 = some hk) : e1 = e2 := by
  have m1 : e1 ∈ easyId3Registry.filter (fun e => eiPlain e && (hkOf e).isSome) := by
    simp [List.mem_filter, h1, p1, k1]
  have m2 : e2 ∈ easyId3Registry.filter (fun e => eiPlain e && (hkOf e).isSome) := by
    simp [List.mem_filter, h2, p2, k2]
  exact inj_of_nodup_map hkOf _ eiReg_hk_nodup e1 e2 m1 m2 (k1.trans k2.symm)

theorem slotFrame_ok (e : EIEntry) (he : e ∈ easyId3Registry) (v : PVal) (f : IFrame) (hk : Text)
    (h : hkOf e = some hk) (hf : slotFrame e v = .ok f) : frameOK hk f = true := by
  obtain ⟨c1, c2, c3⟩ := class_of_entry e he
  unfold hkOf at h
  unfold slotFrame at hf
  cases hi : eiItems v with
  | none => simp [hi] at hf
  | some items =>
    simp only [hi] at hf
    cases hkd : e.kind <;> simp only [hkd] at h hf <;> try (simp at h; done)
    all_goals (simp only [Option.some.injEq] at h; subst h)
    · cases ht : eiTexts items with
      | none => simp [ht] at hf
      | some l => simp [ht] at hf; subst hf; simp [frameOK, c1 _ hkd]
    · cases ht : eiTexts items with
      | none => simp [ht] at hf
      | some l => simp [ht] at hf; subst hf; simp [frameOK, c2 _ hkd]
    · cases ht : eiTexts items with
      | none => simp [ht] at hf
      | some l =>
        simp only [ht] at hf
        split at hf
        · rename_i hg
          simp at hf; subst hf
          have hc : hkClass kTCON = .genre := by decide
          simp only [frameOK, hc]; exact hg
        · simp at hf
    · cases ht : eiTexts items with
      | none => simp [ht] at hf
      | some l =>
        simp only [ht] at hf
        cases hm : l.mapM tsNorm with
        | none => simp [hm] at hf
        | some l' => simp [hm] at hf; subst hf; simp [frameOK, c3 _ hkd]
    · cases eiTexts items <;> simp at hf
    · have hc : hkClass kUFID = .ufid := by decide
      unfold trackidFrame at hf
      split at hf
      · split at hf
        · simp at hf; subst hf; simp [frameOK, hc]
        · simp at hf
      · simp at hf
      · simp at hf

theorem eiGet_none (s : Id3) (e : EIEntry) (kt hk : Text) (h : hkOf e = some hk) (hl : lookup hk s = none) :
    eiGet s e kt = .error .key := by
  unfold hkOf at h
  unfold eiGet
  cases hkd : e.kind <;> simp only [hkd] at h ⊢ <;> try (simp at h; done)
  all_goals (simp only [Option.some.injEq] at h; subst h; rw [hl])

theorem eiGet_some (s : Id3) (hs : EasyId3Inv s) (e : EIEntry) (he : e ∈ easyId3Registry) (hp : eiPlain e = true)
    (kt hk : Text) (f : IFrame) (h : hkOf e = some hk) (hl : lookup hk s = some f) : ∃ v, eiGet s e kt = .ok v := by
  rcases eiGet_plain s hs e he hp kt with h1 | h1
  · exfalso
    unfold hkOf at h
    unfold eiPlain at hp
    unfold eiGet at h1
    cases hkd : e.kind <;> simp only [hkd] at h h1 hp <;> try (first | (simp at h; done) | (simp at hp; done))
    all_goals (simp only [Option.some.injEq] at h; subst h; rw [hl] at h1; cases f <;> simp at h1)
    · split at h1 <;> simp at h1
  · exact h1

theorem eiNormKey_plain (e : EIEntry) (kt : Text) (hp : eiPlain e = true) : eiNormKey e kt = e.key := by
  unfold eiPlain at hp; unfold eiNormKey
  cases hkd : e.kind <;> simp only [hkd] at hp ⊢ <;> simp at hp

theorem eiGet_kt (s : Id3) (e : EIEntry) (k1 k2 : Text) (hp : eiPlain e = true) : eiGet s e k1 = eiGet s e k2 := by
  unfold eiPlain at hp; unfold eiGet
  cases hkd : e.kind <;> simp only [hkd] at hp ⊢ <;> simp at hp

theorem eiGoodKey_plain (e : EIEntry) (he : e ∈ easyId3Registry) (hp : eiPlain e = true) :
    eiGoodKey (.str e.key) = true := by
  simp [eiGoodKey, eiEntryOf_plain e he, hp]

/-- what `norm k = ok κ` means under the guard -/
theorem normG_ok (k κ : PKey) (h : easyId3PolicyG.norm k = .ok κ) :
    ∃ e kt, eiEntryOf k = some (e, kt) ∧ eiGoodKey k = true ∧ eiPlain e = true ∧ e ∈ easyId3Registry ∧
      κ = .str e.key := by
  simp only [easyId3PolicyG, easyId3Policy] at h
  cases hg : eiGoodKey k with
  | false => simp [hg] at h
  | true =>
    simp only [hg, ↓reduceIte] at h
    cases he : eiEntryOf k with
    | none => simp [he] at h
    | some p =>
      obtain ⟨e, kt⟩ := p
      simp only [he, Except.ok.injEq] at h
      obtain ⟨hp, hm, _, _⟩ := eiEntryOf_good k e kt he hg
      exact ⟨e, kt, rfl, rfl, hp, hm, by rw [← h, eiNormKey_plain e kt hp]⟩

theorem normG_plain (e : EIEntry) (he : e ∈ easyId3Registry) (hp : eiPlain e = true) :
    easyId3PolicyG.norm (.str e.key) = .ok (.str e.key) := by
  simp [easyId3PolicyG, easyId3Policy, eiGoodKey_plain e he hp, eiEntryOf_plain e he, eiNormKey_plain e _ hp]

theorem getG_plain (s : Id3) (e : EIEntry) (he : e ∈ easyId3Registry) (hp : eiPlain e = true) :
    easyId3ImplG.getitem s (.str e.key) = eiGet s e e.key := by
  simp [easyId3ImplG, eiGoodKey_plain e he hp, easyId3Get, eiEntryOf_plain e he]

/-! ### `keys()` under the invariant -/

theorem inv_lookup_none (s : Id3) (hs : EasyId3Inv s) (hk : Text) (hc : ∀ f, frameOK hk f = false) :
    lookup hk s = none := by
  cases hl : lookup hk s with
  | none => rfl
  | some f => have := inv_lookup s hs hk f hl; rw [hc f] at this; cases this

theorem inv_no_tmcl (s : Id3) (hs : EasyId3Inv s) : lookup kTMCL s = none :=
  inv_lookup_none s hs _ (fun f => by
    have hc : hkClass kTMCL = .tmcl := by decide
    cases f <;> simp [frameOK, hc])

theorem inv_no_rva2star (s : Id3) (hs : EasyId3Inv s) : lookup (pRVA2 ++ [42]) s = none :=
  inv_lookup_none s hs _ (fun f => by
    have hc : hkClass (pRVA2 ++ [42]) = .rva2 := by decide
    cases f <;> simp [frameOK, hc])

theorem frameOK_shape (hk : Text) (f : IFrame) (h : frameOK hk f = true) :
    (∀ u, f ≠ .woar u) ∧ (∀ d c g p, f ≠ .rva2 d c g p) := by
  constructor
  · intro u e; subst e; unfold frameOK at h; cases hkClass hk <;> simp at h
  · intro d c g p e; subst e; unfold frameOK at h; cases hkClass hk <;> simp at h

theorem performerKeys_inv (s : Id3) (hs : EasyId3Inv s) : performerKeys s = [] := by
  simp [performerKeys, peopleOf, inv_no_tmcl s hs]

theorem gainKeys_inv (s : Id3) (hs : EasyId3Inv s) : gainKeys s = [] := by
  unfold gainKeys
  rw [List.flatten_eq_nil_iff]
  intro l hl
  obtain ⟨p, hp, rfl⟩ := List.mem_map.1 hl
  have hm : p ∈ s := (List.mem_filter.1 hp).1
  have := (frameOK_shape p.1 p.2 (hs.2 p hm)).2
  cases hf : p.2 <;> simp [hf]
  exact absurd hf (this _ _ _ _)

theorem websiteGet_inv (s : Id3) (hs : EasyId3Inv s) (e : EIEntry) (kt : Text) (h : e.kind = .website) :
    eiGet s e kt = .error .key := by
  unfold eiGet
  simp only [h]
  have : (getallPrefix pWOAR s).filterMap (fun p => woarUrl p.2) = [] := by
    rw [List.filterMap_eq_nil_iff]
    intro p hp
    have hm : p ∈ s := (List.mem_filter.1 hp).1
    have := (frameOK_shape p.1 p.2 (hs.2 p hm)).1
    cases hf : p.2 <;> simp [hf, woarUrl]
    exact absurd hf (this _)
  rw [this]


/-- under the invariant, what one key of `Get` contributes to `keys()` -/
theorem eiKeysOf_inv (s : Id3) (hs : EasyId3Inv s) (e : EIEntry) (he : e ∈ easyId3Registry) :
    eiKeysOf s e = if eiPlain e && (eiGet s e e.key).toOption.isSome then [e.key] else [] := by
  unfold eiKeysOf
  cases hkd : e.kind with
  | performer => simp [eiPlain, hkd, performerKeys_inv s hs]
  | gain => simp [eiPlain, hkd, gainKeys_inv s hs]
  | peak =>
    have hkey : e.key = pReplaygain ++ [42] ++ sPeak := by
      have : easyId3Registry.all (fun e => !(e.kind == .peak) || e.key == pReplaygain ++ [42] ++ sPeak) = true := by
        decide +kernel
      have := List.all_eq_true.1 this e he
      simpa [hkd] using this
    have hg : easyId3Get s (.str e.key) = .error .key := by
      simp only [easyId3Get, eiEntryOf_plain e he, eiGet, hkd]
      have hd : descOf e.key = [42] := by rw [hkey]; decide
      rw [hd, inv_no_rva2star s hs]
    simp [eiPlain, hkd, hg]
  | website =>
    have hg : easyId3Get s (.str e.key) = .error .key := by
      simp only [easyId3Get, eiEntryOf_plain e he]
      exact websiteGet_inv s hs e _ hkd
    simp [eiPlain, hkd, hg]
  | _ =>
    have hp : eiPlain e = true := by simp [eiPlain, hkd]
    have hg : easyId3Get s (.str e.key) = eiGet s e e.key := by simp [easyId3Get, eiEntryOf_plain e he]
    rw [hg]
    rcases eiGet_plain s hs e he hp e.key with h1 | ⟨v, h1⟩ <;> simp [hp, h1, Except.toOption]

def eiShown (s : Id3) (e : EIEntry) : Bool := eiPlain e && (eiGet s e e.key).toOption.isSome

theorem flatten_singletons {α β : Type} (l : List α) (q : α → Bool) (g : α → β) (f : α → List β)
    (h : ∀ a ∈ l, f a = if q a then [g a] else []) : (l.map f).flatten = (l.filter q).map g := by
  induction l with
  | nil => rfl
  | cons a t ih =>
    have ha := h a (by simp)
    have := ih (fun x hx => h x (by simp [hx]))
    by_cases hq : q a <;> simp [List.filter_cons, hq, ha, this]

theorem easyId3Keys_inv (s : Id3) (hs : EasyId3Inv s) :
    easyId3Keys s = (easyId3Registry.filter (eiShown s)).map (fun e => PKey.str e.key) := by
  unfold easyId3Keys
  rw [flatten_singletons easyId3Registry (eiShown s) (·.key) (eiKeysOf s) (fun e he => eiKeysOf_inv s hs e he)]
  simp [List.map_map]

theorem str_key_inj (e1 e2 : EIEntry) (h1 : e1 ∈ easyId3Registry) (h2 : e2 ∈ easyId3Registry) (h : e1.key = e2.key) :
    e1 = e2 := inj_of_nodup_map (·.key) _ eiReg_keys_nodup e1 e2 h1 h2 h

theorem mem_keys_inv (s : Id3) (hs : EasyId3Inv s) (e : EIEntry) (he : e ∈ easyId3Registry) :
    PKey.str e.key ∈ easyId3Keys s ↔ eiShown s e = true := by
  rw [easyId3Keys_inv s hs, List.mem_map]
  constructor
  · rintro ⟨e', hm, hk⟩
    have hm' := List.mem_filter.1 hm
    injection hk with hk
    have := str_key_inj e' e hm'.1 he hk
    subst this; exact hm'.2
  · intro h; exact ⟨e, List.mem_filter.2 ⟨he, h⟩, rfl⟩

theorem keys_nodup_inv (s : Id3) (hs : EasyId3Inv s) : (easyId3Keys s).Nodup := by
  rw [easyId3Keys_inv s hs]
  have h1 : ((easyId3Registry.filter (eiShown s)).map (·.key)).Nodup :=
    List.Nodup.sublist (List.Sublist.map _ List.filter_sublist) eiReg_keys_nodup
  have : (easyId3Registry.filter (eiShown s)).map (fun e => PKey.str e.key) =
      ((easyId3Registry.filter (eiShown s)).map (·.key)).map PKey.str := by simp [List.map_map]
  rw [this]
  exact List.Pairwise.map PKey.str (fun a b h e => h (by injection e)) h1

theorem inv_insert (s : Id3) (hs : EasyId3Inv s) (hk : Text) (f : IFrame) (hf : frameOK hk f = true) :
    EasyId3Inv (insert hk f s) := by
  refine ⟨nodup_insert _ _ _ hs.1, ?_⟩
  intro p hp
  rcases mem_insert_cases _ _ _ _ hp with h | h
  · subst h; exact hf
  · exact hs.2 p h

theorem inv_erase (s : Id3) (hs : EasyId3Inv s) (hk : Text) : EasyId3Inv (erase hk s) :=
  ⟨nodup_erase _ _ hs.1, fun p hp => hs.2 p (mem_of_mem_erase _ _ _ hp)⟩

/-- reading of entry `e2` after the frame of entry `e` changed -/
theorem get_after (s s' : Id3) (e e2 : EIEntry) (he : e ∈ easyId3Registry) (he2 : e2 ∈ easyId3Registry)
    (hp : eiPlain e = true) (hp2 : eiPlain e2 = true) (hk : Text) (h : hkOf e = some hk)
    (hl : ∀ k2, k2 ≠ hk → lookup k2 s' = lookup k2 s) (hne : e ≠ e2) :
    eiGet s' e2 e2.key = eiGet s e2 e2.key := by
  obtain ⟨hk2, h2⟩ := hk_of_plain e2 he2 hp2
  have : hk2 ≠ hk := fun heq => hne (hk_inj e e2 he he2 hp hp2 hk h (heq ▸ h2))
  exact eiGet_congr s' s e2 e2.key hk2 h2 (hl hk2 this)

theorem easyid3_viewlaws : ViewLaws easyId3ImplG easyId3PolicyG EasyId3Inv where
  keys_nodup := keys_nodup_inv
  keys_normal := fun s hs κ hκ => by
    have hκ : κ ∈ easyId3Keys s := hκ
    rw [easyId3Keys_inv s hs, List.mem_map] at hκ
    obtain ⟨e, hm, rfl⟩ := hκ
    have hm' := List.mem_filter.1 hm
    have hp : eiPlain e = true := by
      have := hm'.2; simp only [eiShown, Bool.and_eq_true] at this; exact this.1
    exact normG_plain e hm'.1 hp
  keys_get := fun s hs κ hκ => by
    obtain ⟨e, kt, _, _, hp, he, rfl⟩ := normG_ok κ κ hκ
    show PKey.str e.key ∈ easyId3Keys s ↔ _
    rw [mem_keys_inv s hs e he, getG_plain s e he hp]
    simp only [eiShown, hp, Bool.true_and]
    cases eiGet s e e.key <;> simp [Except.toOption]
  get_err := fun s hs κ err hκ hg => by
    obtain ⟨e, kt, _, _, hp, he, rfl⟩ := normG_ok κ κ hκ
    rw [getG_plain s e he hp] at hg
    rcases eiGet_plain s hs e he hp e.key with h1 | ⟨v, h1⟩
    · rw [h1] at hg; injection hg with hg; exact hg.symm
    · rw [h1] at hg; cases hg
  norm_idem := fun k κ h => by
    obtain ⟨e, kt, _, _, hp, he, rfl⟩ := normG_ok k κ h
    exact normG_plain e he hp
  get_norm := fun s k κ hs h => by
    obtain ⟨e, kt, hent, hg, hp, he, rfl⟩ := normG_ok k κ h
    rw [getG_plain s e he hp]
    simp only [easyId3ImplG, hg, ↓reduceIte, easyId3Get, hent]
    exact eiGet_kt s e kt e.key hp
  bad_key := fun s k err hs h => by
    simp only [easyId3PolicyG, easyId3Policy] at h
    cases hg : eiGoodKey k with
    | false =>
      simp only [hg] at h
      have : err = .notImplemented := by simpa using h.symm
      subst this
      simp [easyId3ImplG, hg]
    | true =>
      simp only [hg, ↓reduceIte] at h
      cases hent : eiEntryOf k with
      | some p => simp [hent] at h
      | none =>
        simp only [hent, Except.error.injEq] at h
        subst h
        simp [easyId3ImplG, hg, easyId3Get, easyId3Set, easyId3SetFull, easyId3Del, hent]
  set_err := fun s k κ v err hs hn hc => by
    obtain ⟨e, kt, hent, hg, hp, he, rfl⟩ := normG_ok k κ hn
    obtain ⟨hk, hhk⟩ := hk_of_plain e he hp
    simp only [easyId3PolicyG, easyId3Policy, hent, eiCoerce, eiSet_slot [] e kt v hk hhk hp] at hc
    simp only [easyId3ImplG, hg, ↓reduceIte, easyId3Set, easyId3SetFull, hent, eiSet_slot s e kt v hk hhk hp]
    cases hf : slotFrame e v with
    | error e' => simp only [hf] at hc ⊢; simpa using hc
    | ok f =>
      exfalso
      simp only [hf] at hc
      have hok := slotFrame_ok e he v f hk hhk hf
      obtain ⟨vv, hvv⟩ := eiGet_some (insert hk f []) (inv_insert [] easyId3Inv_nil hk f hok) e he hp kt hk f hhk
        (by rw [lookup_insert]; simp)
      simp [hvv] at hc
  set_some := fun s k κ v v' hs hn hc => by
    obtain ⟨e, kt, hent, hg, hp, he, rfl⟩ := normG_ok k κ hn
    obtain ⟨hk, hhk⟩ := hk_of_plain e he hp
    simp only [easyId3PolicyG, easyId3Policy, hent, eiCoerce, eiSet_slot [] e kt v hk hhk hp] at hc
    cases hf : slotFrame e v with
    | error e' => simp [hf] at hc
    | ok f =>
      simp only [hf] at hc
      have hok := slotFrame_ok e he v f hk hhk hf
      obtain ⟨vv, hvv⟩ := eiGet_some (insert hk f []) (inv_insert [] easyId3Inv_nil hk f hok) e he hp kt hk f hhk
        (by rw [lookup_insert]; simp)
      simp only [hvv, Except.ok.injEq, Option.some.injEq] at hc
      subst hc
      refine ⟨insert hk f s, ?_, inv_insert s hs hk f hok, ?_⟩
      · simp [easyId3ImplG, hg, easyId3Set, easyId3SetFull, hent, eiSet_slot s e kt v hk hhk hp, hf]
      · intro κ2 hn2
        obtain ⟨e2, kt2, _, _, hp2, he2, rfl⟩ := normG_ok κ2 κ2 hn2
        rw [getG_plain _ e2 he2 hp2, getG_plain _ e2 he2 hp2]
        by_cases heq : e = e2
        · subst heq
          simp only [↓reduceIte]
          rw [← hvv, eiGet_kt _ e e.key kt hp]
          exact eiGet_congr _ _ e kt hk hhk (by rw [lookup_insert, lookup_insert]; simp)
        · have hne : ¬ PKey.str e.key = PKey.str e2.key := fun h => heq (str_key_inj e e2 he he2 (by injection h))
          simp only [hne, ↓reduceIte]
          exact get_after s _ e e2 he he2 hp hp2 hk hhk (fun k2 hk2 => by
            rw [lookup_insert]; have : ¬ hk = k2 := fun h => hk2 h.symm
            simp [this]) heq
  set_none := fun s k κ v hs hn hc => by
    exfalso
    obtain ⟨e, kt, hent, hg, hp, he, rfl⟩ := normG_ok k κ hn
    obtain ⟨hk, hhk⟩ := hk_of_plain e he hp
    simp only [easyId3PolicyG, easyId3Policy, hent, eiCoerce, eiSet_slot [] e kt v hk hhk hp] at hc
    cases hf : slotFrame e v with
    | error e' => simp [hf] at hc
    | ok f =>
      simp only [hf] at hc
      have hok := slotFrame_ok e he v f hk hhk hf
      obtain ⟨vv, hvv⟩ := eiGet_some (insert hk f []) (inv_insert [] easyId3Inv_nil hk f hok) e he hp kt hk f hhk
        (by rw [lookup_insert]; simp)
      simp [hvv] at hc
  del_absent := fun s k κ hs hn hg0 => by
    obtain ⟨e, kt, hent, hg, hp, he, rfl⟩ := normG_ok k κ hn
    obtain ⟨hk, hhk⟩ := hk_of_plain e he hp
    rw [getG_plain s e he hp] at hg0
    simp only [easyId3ImplG, hg, ↓reduceIte, easyId3Del, hent, eiDel_slot s e kt hk hhk hp]
    cases hl : lookup hk s with
    | none => rfl
    | some f =>
      obtain ⟨v, hv⟩ := eiGet_some s hs e he hp e.key hk f hhk hl
      rw [hv] at hg0; cases hg0
  del_present := fun s k κ v hs hn hg0 => by
    obtain ⟨e, kt, hent, hg, hp, he, rfl⟩ := normG_ok k κ hn
    obtain ⟨hk, hhk⟩ := hk_of_plain e he hp
    rw [getG_plain s e he hp] at hg0
    cases hl : lookup hk s with
    | none => rw [eiGet_none s e e.key hk hhk hl] at hg0; cases hg0
    | some f =>
      refine ⟨erase hk s, ?_, inv_erase s hs hk, ?_⟩
      · simp [easyId3ImplG, hg, easyId3Del, hent, eiDel_slot s e kt hk hhk hp, hl]
      · intro κ2 hn2
        obtain ⟨e2, kt2, _, _, hp2, he2, rfl⟩ := normG_ok κ2 κ2 hn2
        rw [getG_plain _ e2 he2 hp2, getG_plain _ e2 he2 hp2]
        by_cases heq : e = e2
        · subst heq
          simp only [↓reduceIte]
          exact eiGet_none _ e e.key hk hhk (by rw [lookup_erase _ _ _ hs.1]; simp)
        · have hne : ¬ PKey.str e.key = PKey.str e2.key := fun h => heq (str_key_inj e e2 he he2 (by injection h))
          simp only [hne, ↓reduceIte]
          exact get_after s _ e e2 he he2 hp hp2 hk hhk (fun k2 hk2 => lookup_erase_ne _ _ _ (fun h => hk2 h.symm)) heq


theorem easyid3_refines_aux : KRefines easyId3ImplG easyId3PolicyG EasyId3Inv (viewAbs easyId3ImplG) :=
  view_refines easyid3_viewlaws

/-- the native side of a successful `view[k] = v` on a good key -/
theorem easySetG_native (s s' : Id3) (k : PKey) (v : PVal) (h : easyId3ImplG.setitem s k v = .ok s') :
    ∃ e kt hk f, eiEntryOf k = some (e, kt) ∧ hkOf e = some hk ∧ slotFrame e v = .ok f ∧ s' = insert hk f s := by
  simp only [easyId3ImplG] at h
  cases hg : eiGoodKey k with
  | false => simp [hg] at h
  | true =>
    simp only [hg, ↓reduceIte, easyId3Set, easyId3SetFull] at h
    cases hent : eiEntryOf k with
    | none => simp [hent] at h
    | some p =>
      obtain ⟨e, kt⟩ := p
      obtain ⟨hp, he, _, _⟩ := eiEntryOf_good k e kt hent hg
      obtain ⟨hk, hhk⟩ := hk_of_plain e he hp
      simp only [hent, eiSet_slot s e kt v hk hhk hp] at h
      cases hf : slotFrame e v with
      | error err => simp [hf] at h
      | ok f =>
        simp only [hf, Except.ok.injEq] at h
        exact ⟨e, kt, hk, f, rfl, hhk, hf, h.symm⟩

theorem easyDelG_native (s s' : Id3) (k : PKey) (h : easyId3ImplG.delitem s k = .ok s') :
    ∃ e kt hk, eiEntryOf k = some (e, kt) ∧ hkOf e = some hk ∧ s' = erase hk s := by
  simp only [easyId3ImplG] at h
  cases hg : eiGoodKey k with
  | false => simp [hg] at h
  | true =>
    simp only [hg, ↓reduceIte, easyId3Del] at h
    cases hent : eiEntryOf k with
    | none => simp [hent] at h
    | some p =>
      obtain ⟨e, kt⟩ := p
      obtain ⟨hp, he, _, _⟩ := eiEntryOf_good k e kt hent hg
      obtain ⟨hk, hhk⟩ := hk_of_plain e he hp
      simp only [hent, eiDel_slot s e kt hk hhk hp] at h
      cases hl : lookup hk s with
      | none => simp [hl] at h
      | some f =>
        simp only [hl, Except.ok.injEq] at h
        exact ⟨e, kt, hk, rfl, hhk, h.symm⟩

/-- the HashKeys the plain entries own -/
def easyId3Owned : List Text := easyId3Registry.filterMap (fun e => if eiPlain e then hkOf e else none)

theorem mem_owned (e : EIEntry) (he : e ∈ easyId3Registry) (hp : eiPlain e = true) (hk : Text) (h : hkOf e = some hk) :
    hk ∈ easyId3Owned := by
  simp only [easyId3Owned, List.mem_filterMap]
  exact ⟨e, he, by simp [hp, h]⟩

theorem easyG_foreign_untouched (ops : List (Op PKey PVal)) (s : Id3) (a : Text) (ha : a ∉ easyId3Owned) :
    lookup a (easyId3ImplG.exec ops s) = lookup a s := by
  apply exec_preserves easyId3ImplG (fun s' => lookup a s' = lookup a s)
  · intro s0 k v s' hset hq
    obtain ⟨e, kt, hk, f, hent, hhk, _, rfl⟩ := easySetG_native s0 s' k v hset
    have hg : eiGoodKey k = true := by
      cases hg : eiGoodKey k with
      | true => rfl
      | false => simp [easyId3ImplG, hg] at hset
    obtain ⟨hp, he, _, _⟩ := eiEntryOf_good k e kt hent hg
    have hne : ¬ hk = a := fun h => ha (h ▸ mem_owned e he hp hk hhk)
    rw [lookup_insert]; simp [hne, hq]
  · intro s0 k s' hdel hq
    obtain ⟨e, kt, hk, hent, hhk, rfl⟩ := easyDelG_native s0 s' k hdel
    have hg : eiGoodKey k = true := by
      cases hg : eiGoodKey k with
      | true => rfl
      | false => simp [easyId3ImplG, hg] at hdel
    obtain ⟨hp, he, _, _⟩ := eiEntryOf_good k e kt hent hg
    have hne : hk ≠ a := fun h => ha (h ▸ mem_owned e he hp hk hhk)
    rw [lookup_erase_ne _ _ _ hne]; exact hq
  · rfl

theorem easyId3KeysE_inv (s : Id3) (hs : EasyId3Inv s) : easyId3KeysE s = .ok (easyId3Keys s) := by
  unfold easyId3KeysE
  have : easyId3Registry.findSome? (eiOtherErr s) = none := by
    rw [List.findSome?_eq_none_iff]
    intro e he
    have hk := eiKeysOf_inv s hs e he
    unfold eiOtherErr
    unfold eiKeysOf at hk
    cases hkd : e.kind <;> simp only [hkd] at hk ⊢ <;> try rfl
    all_goals
      cases hg : easyId3Get s (.str e.key) with
      | ok v => rfl
      | error err =>
        simp only [hg] at hk ⊢
        by_cases herr : err = .key
        · subst herr; rfl
        · exfalso
          have hg' : easyId3Get s (.str e.key) = eiGet s e e.key := by simp [easyId3Get, eiEntryOf_plain e he]
          rw [hg'] at hg
          cases err <;> simp [hg, Except.toOption] at hk herr
  rw [this]

end Mutagen.Dict
