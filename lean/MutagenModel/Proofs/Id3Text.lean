/- Proofs/Id3Text.lean — round trips of the text codecs of Model/Id3Text.lean -/
import MutagenModel.Model.Id3Text
set_option linter.unusedVariables false
namespace Mutagen.Id3
open Mutagen

theorem toNat_b8 (n : Nat) (h : n < 256) : (b8 n).toNat = n := by
  simp [b8, UInt8.toNat_ofNat', Nat.mod_eq_of_lt h]

theorem b8_toNat (x : UInt8) : b8 x.toNat = x := by
  simp [b8]

theorem b8_ne_zero (n : Nat) (h : n < 256) (h0 : n ≠ 0) : b8 n ≠ 0 := by
  intro e
  have := congrArg UInt8.toNat e
  rw [toNat_b8 n h] at this
  simp at this
  exact h0 this

theorem isScalar_iff (c : Nat) : isScalar c = true ↔ c < 0x110000 ∧ ¬ (0xD800 ≤ c ∧ c < 0xE000) := by
  simp [isScalar]; omega

/-! ### Latin-1 -/

theorem map_toNat_b8 (t : Text) (h : ∀ x ∈ t, x < 256) : (t.map b8).map UInt8.toNat = t := by
  induction t with
  | nil => rfl
  | cons x r ih =>
    simp only [List.map_cons, List.cons.injEq]
    exact ⟨toNat_b8 x (h x (by simp)), ih (fun y hy => h y (by simp [hy]))⟩

theorem latin1Encode_ok (t : Text) (h : ∀ x ∈ t, x < 256) : latin1Encode t = .ok (t.map b8) := by
  have : t.all (fun c => decide (c < 256)) = true := by simpa [List.all_eq_true] using h
  simp [latin1Encode, this]

theorem latin1Decode_map (t : Text) (h : ∀ x ∈ t, x < 256) : latin1Decode (t.map b8) = t := by
  simp [latin1Decode, map_toNat_b8 t h]

/-! ### UTF-8 -/

theorem utf8Decode_enc1 (c : Nat) (hc : isScalar c = true) (rest : Bytes) :
    utf8Decode (utf8Enc1 c ++ rest) = consOk c (utf8Decode rest) := by
  obtain ⟨h1, h2⟩ := (isScalar_iff c).mp hc
  unfold utf8Enc1
  split
  · rename_i h
    rw [List.singleton_append, utf8Decode.eq_def]
    simp [toNat_b8 c (by omega), h]
  · split
    · rename_i h0 h
      have e1 := toNat_b8 (0xC0 + c / 64) (by omega)
      have e2 := toNat_b8 (0x80 + c % 64) (by omega)
      simp only [List.cons_append, List.nil_append, utf8Decode, isCont, e1, e2]
      have : ¬ (0xC0 + c / 64 < 0x80) := by omega
      have : ¬ (0xC0 + c / 64 < 0xC2) := by omega
      have : (0xC0 + c / 64 < 0xE0) := by omega
      have hv : c / 64 * 64 + c % 64 = c := by omega
      have g1 : 0x80 ≤ 0x80 + c % 64 := by omega
      have g2 : 0x80 + c % 64 < 0xC0 := by omega
      simp [*]
    · split
      · rename_i h0 h00 h
        have e1 := toNat_b8 (0xE0 + c / 4096) (by omega)
        have e2 := toNat_b8 (0x80 + c / 64 % 64) (by omega)
        have e3 := toNat_b8 (0x80 + c % 64) (by omega)
        simp only [List.cons_append, List.nil_append, utf8Decode, isCont, e1, e2, e3]
        have : ¬ (0xE0 + c / 4096 < 0x80) := by omega
        have : ¬ (0xE0 + c / 4096 < 0xC2) := by omega
        have : ¬ (0xE0 + c / 4096 < 0xE0) := by omega
        have : (0xE0 + c / 4096 < 0xF0) := by omega
        have hv : c / 4096 * 4096 + c / 64 % 64 * 64 + c % 64 = c := by omega
        have g1 : 0x80 ≤ 0x80 + c / 64 % 64 := by omega
        have g2 : 0x80 + c / 64 % 64 < 0xC0 := by omega
        have g3 : 0x80 ≤ 0x80 + c % 64 := by omega
        have g4 : 0x80 + c % 64 < 0xC0 := by omega
        have g5 : ¬ (c < 0x800 ∨ (0xD800 ≤ c ∧ c < 0xE000)) := by omega
        simp [*]
      · rename_i h0 h00 h
        have e1 := toNat_b8 (0xF0 + c / 262144) (by omega)
        have e2 := toNat_b8 (0x80 + c / 4096 % 64) (by omega)
        have e3 := toNat_b8 (0x80 + c / 64 % 64) (by omega)
        have e4 := toNat_b8 (0x80 + c % 64) (by omega)
        simp only [List.cons_append, List.nil_append, utf8Decode, isCont, e1, e2, e3, e4]
        have : ¬ (0xF0 + c / 262144 < 0x80) := by omega
        have : ¬ (0xF0 + c / 262144 < 0xC2) := by omega
        have : ¬ (0xF0 + c / 262144 < 0xE0) := by omega
        have : ¬ (0xF0 + c / 262144 < 0xF0) := by omega
        have : (0xF0 + c / 262144 < 0xF5) := by omega
        have hv : c / 262144 * 262144 + c / 4096 % 64 * 4096 + c / 64 % 64 * 64 + c % 64 = c := by omega
        have g1 : 0x80 ≤ 0x80 + c / 4096 % 64 := by omega
        have g2 : 0x80 + c / 4096 % 64 < 0xC0 := by omega
        have g3 : 0x80 ≤ 0x80 + c / 64 % 64 := by omega
        have g4 : 0x80 + c / 64 % 64 < 0xC0 := by omega
        have g5 : 0x80 ≤ 0x80 + c % 64 := by omega
        have g6 : 0x80 + c % 64 < 0xC0 := by omega
        have g7 : ¬ (c < 0x10000 ∨ c ≥ 0x110000) := by omega
        have g8 : ¬ (1114112 ≤ c) := by omega
        simp [*]

theorem utf8Decode_encodeRaw (t : Text) (h : ∀ x ∈ t, isScalar x = true) :
    utf8Decode (utf8EncodeRaw t) = .ok t := by
  induction t with
  | nil => simp [utf8EncodeRaw, utf8Decode]
  | cons c r ih =>
    simp only [utf8EncodeRaw]
    rw [utf8Decode_enc1 c (h c (by simp)), ih (fun y hy => h y (by simp [hy]))]
    rfl

theorem utf8Encode_ok (t : Text) (h : ∀ x ∈ t, isScalar x = true) : utf8Encode t = .ok (utf8EncodeRaw t) := by
  have : t.all isScalar = true := by simpa [List.all_eq_true] using h
  simp [utf8Encode, this]

theorem utf8Enc1_ne_zero (c : Nat) (hs : isScalar c = true) (h0 : c ≠ 0) : ∀ x ∈ utf8Enc1 c, x ≠ 0 := by
  obtain ⟨h1, h2⟩ := (isScalar_iff c).mp hs
  intro x hx
  unfold utf8Enc1 at hx
  split at hx
  · simp at hx; subst hx; exact b8_ne_zero c (by omega) h0
  · split at hx
    · simp at hx
      rcases hx with rfl | rfl <;> exact b8_ne_zero _ (by omega) (by omega)
    · split at hx
      · simp at hx
        rcases hx with rfl | rfl | rfl <;> exact b8_ne_zero _ (by omega) (by omega)
      · simp at hx
        rcases hx with rfl | rfl | rfl | rfl <;> exact b8_ne_zero _ (by omega) (by omega)

theorem utf8EncodeRaw_ne_zero (t : Text) (h : ∀ x ∈ t, isScalar x = true ∧ x ≠ 0) :
    ∀ x ∈ utf8EncodeRaw t, x ≠ 0 := by
  induction t with
  | nil => simp [utf8EncodeRaw]
  | cons c r ih =>
    intro x hx
    simp only [utf8EncodeRaw, List.mem_append] at hx
    rcases hx with hx | hx
    · exact utf8Enc1_ne_zero c (h c (by simp)).1 (h c (by simp)).2 x hx
    · exact ih (fun y hy => h y (by simp [hy])) x hx

/-! ### UTF-16 -/

theorem unitOf_unitBytes (be : Bool) (u : Nat) (h : u < 65536) (rest : Bytes) :
    ∃ a b, unitBytes be u ++ rest = a :: b :: rest ∧ unitOf be a b = u := by
  have e1 := toNat_b8 (u / 256) (by omega)
  have e2 := toNat_b8 (u % 256) (by omega)
  cases be
  · refine ⟨b8 (u % 256), b8 (u / 256), by simp [unitBytes], ?_⟩
    simp [unitOf, e1, e2]; omega
  · refine ⟨b8 (u / 256), b8 (u % 256), by simp [unitBytes], ?_⟩
    simp [unitOf, e1, e2]; omega

/-- one scalar value other than U+0000, encoded, is scanned back -/
theorem utf16Scan_units (be : Bool) (c : Nat) (hs : isScalar c = true) (h0 : c ≠ 0) (rest : Bytes) :
    utf16Scan be (unitsBytes be (utf16Units c) ++ rest) = consScan c (utf16Scan be rest) := by
  obtain ⟨h1, h2⟩ := (isScalar_iff c).mp hs
  unfold utf16Units
  split
  · rename_i hlt
    obtain ⟨a, b, hab, hu⟩ := unitOf_unitBytes be c (by omega) rest
    simp only [unitsBytes, List.append_nil]
    rw [hab]
    have nh : isHigh c = false := by simp [isHigh]; omega
    have nl : isLow c = false := by simp [isLow]; omega
    rw [utf16Scan.eq_def]
    simp [hu, h0, nh, nl]
  · rename_i hge
    have hhi : 0xD800 + (c - 0x10000) / 0x400 < 65536 := by omega
    have hlo : 0xDC00 + (c - 0x10000) % 0x400 < 65536 := by omega
    obtain ⟨c', d', hcd, hu2⟩ := unitOf_unitBytes be (0xDC00 + (c - 0x10000) % 0x400) hlo rest
    obtain ⟨a, b, hab, hu⟩ := unitOf_unitBytes be (0xD800 + (c - 0x10000) / 0x400) hhi (c' :: d' :: rest)
    simp only [unitsBytes, List.append_nil, List.append_assoc]
    rw [hcd, hab]
    have n0 : ¬ (0xD800 + (c - 0x10000) / 0x400 = 0) := by omega
    have ih : isHigh (0xD800 + (c - 0x10000) / 0x400) = true := by simp [isHigh]; omega
    have il : isLow (0xDC00 + (c - 0x10000) % 0x400) = true := by simp [isLow]; omega
    have hv : 65536 + (c - 65536) / 1024 * 1024 + (c - 65536) % 1024 = c := by omega
    rw [utf16Scan.eq_def]
    simp [hu, hu2, ih, il, hv]

/-- NUL-free text, encoded and followed by the two-byte terminator, is scanned back with the
rest left over -/
theorem utf16Scan_encodeRaw_term (be : Bool) (t : Text) (h : ∀ x ∈ t, isScalar x = true ∧ x ≠ 0)
    (rest : Bytes) :
    utf16Scan be (utf16EncodeRaw be t ++ 0 :: 0 :: rest) = .ok (t, some rest) := by
  induction t with
  | nil =>
    simp only [utf16EncodeRaw, List.nil_append]
    rw [utf16Scan.eq_def]
    cases be <;> simp [unitOf]
  | cons c r ih =>
    simp only [utf16EncodeRaw, List.append_assoc]
    rw [utf16Scan_units be c (h c (by simp)).1 (h c (by simp)).2, ih (fun y hy => h y (by simp [hy]))]
    rfl

/-- … and without a terminator the whole text comes back (`strict=False` path) -/
theorem utf16Scan_encodeRaw (be : Bool) (t : Text) (h : ∀ x ∈ t, isScalar x = true ∧ x ≠ 0) :
    utf16Scan be (utf16EncodeRaw be t) = .ok (t, none) := by
  induction t with
  | nil => simp [utf16EncodeRaw, utf16Scan]
  | cons c r ih =>
    simp only [utf16EncodeRaw]
    have := utf16Scan_units be c (h c (by simp)).1 (h c (by simp)).2 (utf16EncodeRaw be r)
    rw [this, ih (fun y hy => h y (by simp [hy]))]
    rfl

theorem utf16Encode_ok (be : Bool) (t : Text) (h : ∀ x ∈ t, isScalar x = true) :
    utf16Encode be t = .ok (utf16EncodeRaw be t) := by
  have : t.all isScalar = true := by simpa [List.all_eq_true] using h
  simp [utf16Encode, this]

/-! ### splitNul -/

theorem splitNul_append (t rest : Bytes) (h : ∀ x ∈ t, x ≠ 0) : splitNul (t ++ 0 :: rest) = (t, some rest) := by
  induction t with
  | nil => simp [splitNul]
  | cons x r ih =>
    have hx : x ≠ 0 := h x (by simp)
    have hr := ih (fun y hy => h y (by simp [hy]))
    simp [splitNul, hx, hr]

theorem splitNul_none (t : Bytes) (h : ∀ x ∈ t, x ≠ 0) : splitNul t = (t, none) := by
  induction t with
  | nil => simp [splitNul]
  | cons x r ih =>
    have hx : x ≠ 0 := h x (by simp)
    have hr := ih (fun y hy => h y (by simp [hy]))
    simp [splitNul, hx, hr]

theorem map_b8_ne_zero (t : Text) (h : ∀ x ∈ t, x < 256 ∧ x ≠ 0) : ∀ y ∈ t.map b8, y ≠ 0 := by
  intro y hy
  obtain ⟨x, hx, rfl⟩ := List.mem_map.mp hy
  exact b8_ne_zero x (h x hx).1 (h x hx).2

end Mutagen.Id3
