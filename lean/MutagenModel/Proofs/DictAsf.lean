/- Proofs/DictAsf.lean — `ASFTags` (a Python list of pairs) refines the reference dictionary (C16) -/
import MutagenModel.Model.DictAsf
import MutagenModel.Proofs.Dict
set_option linter.unusedVariables false
set_option linter.unusedSectionVars false
set_option linter.unusedSimpArgs false
namespace Mutagen.Dict
open Mutagen

/-! ### lists of pairs grouped by key -/

section pairlist
variable {K A V : Type} [DecidableEq K]

/-- group the pairs by key (first occurrences), `mk` wraps the values of one key -/
def plAbs (mk : List A → V) (s : List (K × A)) : RefDict K V :=
  (plKeys s).map (fun k => (k, mk (plValuesOf k s)))

theorem keysOf_plAbs (mk : List A → V) (s : List (K × A)) : keysOf (plAbs mk s) = plKeys s := by
  simp only [plAbs, keysOf, List.map_map]
  show List.map (fun k => k) (plKeys s) = plKeys s
  simp

@[simp] theorem plValuesOf_nil (k : K) : plValuesOf k ([] : List (K × A)) = [] := rfl

theorem plValuesOf_cons (k : K) (p : K × A) (t : List (K × A)) :
    plValuesOf k (p :: t) = if p.1 = k then p.2 :: plValuesOf k t else plValuesOf k t := by
  unfold plValuesOf
  by_cases h : p.1 = k <;> simp [List.filterMap_cons, h]

@[simp] theorem plWithout_nil (k : K) : plWithout k ([] : List (K × A)) = [] := rfl

theorem plWithout_cons (k : K) (p : K × A) (t : List (K × A)) :
    plWithout k (p :: t) = if p.1 = k then plWithout k t else p :: plWithout k t := by
  unfold plWithout
  by_cases h : p.1 = k <;> simp [List.filter_cons, h]

theorem plValuesOf_eq_nil (k : K) (s : List (K × A)) : plValuesOf k s = [] ↔ ∀ p ∈ s, p.1 ≠ k := by
  induction s with
  | nil => simp
  | cons p t ih =>
    rw [plValuesOf_cons]
    by_cases h : p.1 = k
    · simp [h]
    · simp [h, ih]

theorem mem_plKeys (k : K) (s : List (K × A)) : k ∈ plKeys s ↔ plValuesOf k s ≠ [] := by
  rw [plKeys, mem_dedup, Ne, plValuesOf_eq_nil]
  simp only [List.mem_map]
  constructor
  · rintro ⟨p, hp, e⟩ hall; exact hall p hp e
  · intro hne
    apply Classical.byContradiction
    intro hcon
    apply hne
    intro p hp e
    exact hcon ⟨p, hp, e⟩

theorem pl_lookup (mk : List A → V) (k : K) (s : List (K × A)) :
    lookup k (plAbs mk s) = if plValuesOf k s = [] then none else some (mk (plValuesOf k s)) := by
  rw [plAbs, lookup_map_mk]
  by_cases h : plValuesOf k s = []
  · have : k ∉ plKeys s := fun hm => (mem_plKeys k s).1 hm h
    simp [h, this]
  · simp [h, (mem_plKeys k s).2 h]

theorem plValuesOf_append (k : K) (a b : List (K × A)) :
    plValuesOf k (a ++ b) = plValuesOf k a ++ plValuesOf k b := by
  simp [plValuesOf, List.filterMap_append]

theorem plValuesOf_without (k2 k : K) (s : List (K × A)) :
    plValuesOf k2 (plWithout k s) = if k2 = k then [] else plValuesOf k2 s := by
  induction s with
  | nil => simp
  | cons p t ih =>
    rw [plWithout_cons, plValuesOf_cons]
    by_cases h : p.1 = k
    · by_cases h2 : k2 = k
      · subst h2; simpa [h] using ih
      · have : ¬ k = k2 := fun e => h2 e.symm
        simp [h, h2, this, ih]
    · by_cases h2 : k2 = k
      · subst h2; simpa [h, plValuesOf_cons] using ih
      · simp only [h, ↓reduceIte, plValuesOf_cons, ih, h2]

theorem plValuesOf_new (k2 k : K) (l : List A) :
    plValuesOf k2 (l.map (fun a => (k, a))) = if k = k2 then l else [] := by
  induction l with
  | nil => simp
  | cons a t ih =>
    rw [List.map_cons, plValuesOf_cons, ih]
    by_cases h : k = k2 <;> simp [h]

theorem nodup_plAbs (mk : List A → V) (s : List (K × A)) : NodupKeys (plAbs mk s) := by
  unfold NodupKeys; rw [keysOf_plAbs]; exact nodup_dedup _

theorem pl_any (k : K) (s : List (K × A)) :
    s.any (fun p => decide (p.1 = k)) = !(plValuesOf k s).isEmpty := by
  induction s with
  | nil => simp
  | cons p t ih =>
    rw [List.any_cons, plValuesOf_cons, ih]
    by_cases h : p.1 = k <;> simp [h]

theorem plAbs_eq_nil (mk : List A → V) (s : List (K × A)) (h : plAbs mk s = []) : s = [] := by
  cases s with
  | nil => rfl
  | cons p t => simp [plAbs, plKeys, dedup] at h

theorem pl_count (s : List (K × A)) : ∀ (ks : List K), ks.Nodup → (∀ p ∈ s, p.1 ∈ ks) →
    (ks.map (fun k => (plValuesOf k s).length)).sum = s.length := by
  induction s with
  | nil => intro ks _ _; simp [sum_map_zero]
  | cons p t ih =>
    intro ks nd hall
    have h1 : ks.map (fun k => (plValuesOf k (p :: t)).length) =
        ks.map (fun k => (if p.1 = k then 1 else 0) + (plValuesOf k t).length) := by
      apply List.map_congr_left
      intro k _
      rw [plValuesOf_cons]
      by_cases h : p.1 = k <;> simp [h]; omega
    rw [h1, sum_map_add, sum_indicator p.1 ks nd (hall p (by simp)),
      ih ks nd (fun q hq => hall q (List.mem_cons_of_mem _ hq))]
    simp; omega

end pairlist

/-! ### ASFTags -/

/-- pairs grouped by key, values in list order -/
def asfAbs (s : Asf) : RefDict PKey PVal := plAbs PVal.list s

theorem asf_refines_aux : Refines asfImpl asfPolicy (fun _ => True) asfAbs where
  nodup := fun s _ => nodup_plAbs _ s
  keys := fun s _ => by
    rw [asfAbs, keysOf_plAbs]
    simp [asfImpl, asfKeys, asfPolicy]
  get := fun s k _ => by
    simp only [asfImpl, asfGet, Ref.get, asfPolicy, lookupE, asfAbs, pl_lookup]
    cases hv : plValuesOf k s <;> simp
  set := fun s k v _ => by
    simp only [asfImpl, asfSet, Ref.set, asfPolicy]
    cases hw : asfWrapAll v with
    | error e => simp [SimStep]
    | ok items =>
      cases items with
      | nil =>
        simp only [SimStep, List.map_nil, List.append_nil, true_and]
        intro k2
        simp only [asfAbs]
        rw [lookup_erase _ _ _ (nodup_plAbs _ s), pl_lookup, pl_lookup, plValuesOf_without]
        by_cases h2 : k2 = k
        · subst h2; simp
        · have : ¬ k = k2 := fun e => h2 e.symm
          simp [h2, this]
      | cons a t =>
        simp only [SimStep, true_and]
        intro k2
        simp only [asfAbs]
        rw [lookup_insert, pl_lookup, pl_lookup, plValuesOf_append, plValuesOf_without, plValuesOf_new]
        by_cases h2 : k2 = k
        · subst h2; simp
        · have : ¬ k = k2 := fun e => h2 e.symm
          simp [h2, this]
  del := fun s k _ => by
    simp only [asfImpl, asfDel, Ref.del, asfPolicy, asfAbs, pl_lookup]
    cases hv : plValuesOf k s with
    | nil => simp [SimStep]
    | cons a t =>
      simp only [SimStep, reduceCtorEq, ↓reduceIte, true_and]
      intro k2
      simp only [asfAbs]
      rw [lookup_erase _ _ _ (nodup_plAbs _ s), pl_lookup, pl_lookup, plValuesOf_without]
      by_cases h2 : k2 = k
      · subst h2; simp
      · have : ¬ k = k2 := fun e => h2 e.symm
        simp [h2, this]

/-! #### the methods ASFTags does not take from DictMixin -/

theorem asf_contains_eq_aux (s : Asf) (k : PKey) : .ok (asfContains s k) = asfImpl.contains s k := by
  unfold asfContains MapImpl.contains
  simp only [asfImpl, asfGet, pl_any]
  cases hv : plValuesOf k s <;> simp

theorem asf_clear_eq_aux (s : Asf) : asfImpl.clear s = (.ok (), []) := by
  obtain ⟨h1, h2, h3⟩ := clear_sim asf_refines_aux s (asfAbs s) trivial (SameMap.refl _) (nodup_plAbs _ s)
  exact Prod.ext h1 (plAbs_eq_nil _ _ h3)

theorem asf_len_aux (s : Asf) : s.length = ((asfAbs s).map (fun p => (asfAsList p.2).length)).sum := by
  have := pl_count s (plKeys s) (nodup_dedup _) (fun p hp => by
    rw [plKeys, mem_dedup]; exact List.mem_map_of_mem hp)
  rw [← this, asfAbs, plAbs, List.map_map]
  rfl

/-- every stored key is hashable (what the real `keys()` needs) -/
def AsfHashable (s : Asf) : Prop := ∀ p ∈ s, p.1.hashable = true

theorem asfKeysE_of_hashable (s : Asf) (h : AsfHashable s) : asfKeysE s = .ok (asfKeys s) := by
  unfold asfKeysE
  have : s.all (fun p => p.1.hashable) = true := by
    rw [List.all_eq_true]; exact h
  simp [this]

theorem asfSet_hashable (s s' : Asf) (k : PKey) (v : PVal) (hs : AsfHashable s) (hk : k.hashable = true)
    (h : asfSet s k v = .ok s') : AsfHashable s' := by
  unfold asfSet at h
  cases hw : asfWrapAll v with
  | error e => simp [hw] at h
  | ok items =>
    simp only [hw, Except.ok.injEq] at h
    subst h
    intro p hp
    rcases List.mem_append.1 hp with h1 | h1
    · exact hs p (List.mem_filter.1 h1).1
    · obtain ⟨a, _, e⟩ := List.mem_map.1 h1; subst e; exact hk

theorem asfDel_hashable (s s' : Asf) (k : PKey) (hs : AsfHashable s) (h : asfDel s k = .ok s') : AsfHashable s' := by
  unfold asfDel at h
  cases hv : plValuesOf k s with
  | nil => simp [hv] at h
  | cons a t =>
    simp only [hv, Except.ok.injEq] at h
    subst h
    intro p hp
    exact hs p (List.mem_filter.1 hp).1

theorem asfUpdate_hashable (l : List (PKey × PVal)) : ∀ s, AsfHashable s → (∀ p ∈ l, p.1.hashable = true) →
    AsfHashable (asfImpl.update l s).2 := by
  induction l with
  | nil => intro s hs _; exact hs
  | cons p t ih =>
    obtain ⟨k, v⟩ := p
    intro s hs hl
    simp only [MapImpl.update]
    cases hset : asfImpl.setitem s k v with
    | error e => exact hs
    | ok s' =>
      exact ih s' (asfSet_hashable s s' k v hs (hl (k, v) (by simp)) hset)
        (fun q hq => hl q (List.mem_cons_of_mem _ hq))

theorem asfStep_hashable (s : Asf) (op : Op PKey PVal) (hs : AsfHashable s)
    (hk : ∀ k ∈ Op.setKeys op, k.hashable = true) : AsfHashable (asfStep s op).2 := by
  cases op with
  | set k v =>
    simp only [asfStep, MapImpl.step]
    cases hset : asfImpl.setitem s k v with
    | error e => exact hs
    | ok s' => exact asfSet_hashable s s' k v hs (hk k (by simp [Op.setKeys])) hset
  | del k =>
    simp only [asfStep, MapImpl.step]
    cases hdel : asfImpl.delitem s k with
    | error e => exact hs
    | ok s' => exact asfDel_hashable s s' k hs hdel
  | clear => intro p hp; simp [asfStep] at hp
  | update l =>
    simp only [asfStep, MapImpl.step]
    exact asfUpdate_hashable l s hs (fun p hp => hk p.1 (by simp only [Op.setKeys]; exact List.mem_map_of_mem hp))
  | setdefault k d =>
    simp only [asfStep, MapImpl.step, MapImpl.setdefault]
    cases asfImpl.getitem s k with
    | ok v => exact hs
    | error e =>
      by_cases he : e = .key
      · simp only [he, ↓reduceIte]
        cases hset : asfImpl.setitem s k d with
        | error e => exact hs
        | ok s' => exact asfSet_hashable s s' k d hs (hk k (by simp [Op.setKeys])) hset
      · simp only [he, ↓reduceIte]; exact hs
  | pop k => cases k <;> exact hs
  | popD k d => exact hs
  | popitem => exact hs
  | get k => exact hs
  | contains k => exact hs
  | keys => exact hs
  | values => exact hs
  | items => exact hs
  | len => exact hs
  | getD k d => exact hs

theorem asfStep_eq (s : Asf) (hs : AsfHashable s) (op : Op PKey PVal) (hop : Op.isPairListDict op = true) :
    asfStep s op = asfImpl.step s op := by
  cases op <;> simp [Op.isPairListDict] at hop <;> try rfl
  · simp only [asfStep, MapImpl.step, ← asf_contains_eq_aux, outOf]
  · simp only [asfStep, MapImpl.step, asfKeysE_of_hashable s hs, outOf]; rfl
  · simp only [asfStep, asfKeysE_of_hashable s hs]; rfl
  · simp only [asfStep, asfKeysE_of_hashable s hs]; rfl
  · simp only [asfStep, MapImpl.step, asf_clear_eq_aux s, outOf]

theorem asfRun_eq (ops : List (Op PKey PVal)) : ∀ (s : Asf), AsfHashable s →
    (∀ op ∈ ops, Op.isPairListDict op = true ∧ ∀ k ∈ Op.setKeys op, k.hashable = true) →
    asfRun ops s = asfImpl.run ops s := by
  induction ops with
  | nil => intro s _ _; rfl
  | cons op ops ih =>
    intro s hs hall
    have h1 := asfStep_eq s hs op (hall op (by simp)).1
    have h2 := asfStep_hashable s op hs (hall op (by simp)).2
    simp only [asfRun, MapImpl.run]
    rw [ih _ h2 (fun o ho => hall o (by simp [ho])), h1]

theorem isPairListDict_not_popitem {K V : Type} (op : Op K V) (h : Op.isPairListDict op = true) :
    Op.isPopitem op = false := by
  cases op <;> simp [Op.isPairListDict] at h <;> rfl

end Mutagen.Dict
