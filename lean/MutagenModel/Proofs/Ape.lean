/- Proofs/Ape.lean — APEv2 item list round trip -/
import MutagenModel.Model.Ape
import MutagenModel.Proofs.IntCodec
set_option linter.unusedVariables false
namespace Mutagen.Ape
open Mutagen

theorem splitNul_append (k v : Bytes) (hk : (0 : UInt8) ∉ k) : splitNul (k ++ [0] ++ v) = some (k, v) := by
  induction k with
  | nil => simp [splitNul]
  | cons b r ih =>
    have hb : b ≠ 0 := fun h => hk (h ▸ List.mem_cons_self)
    have hr : (0 : UInt8) ∉ r := fun h => hk (List.mem_cons_of_mem _ h)
    simp only [List.cons_append, splitNul, hb, ↓reduceIte]
    have := ih hr
    simp only [List.append_assoc, List.cons_append, List.nil_append] at this ⊢
    rw [this]; rfl

def ItemOK (i : Item) : Prop := (0 : UInt8) ∉ i.key ∧ i.kind < 4 ∧ i.value.length < 256 ^ 4

theorem take_left_len (a b : Bytes) : (a ++ b).take a.length = a := List.take_left' rfl
theorem drop_left_len (a b : Bytes) : (a ++ b).drop a.length = b := List.drop_left' rfl

/-- the strict item decoder reads back exactly the items APEv2.save wrote, whatever follows -/
theorem decodeItems_encode (items : List Item) (h : ∀ i ∈ items, ItemOK i) (tail : Bytes) :
    decodeItems items.length ((items.map encodeItem).flatten ++ tail) = some (items, tail) := by
  induction items with
  | nil => simp [decodeItems]
  | cons it r ih =>
    obtain ⟨hk, hkind, hl⟩ := h it (List.mem_cons_self)
    have ih' := ih (fun x hx => h x (List.mem_cons_of_mem _ hx))
    simp only [List.length_cons, List.map_cons, List.flatten_cons, decodeItems]
    generalize hR : (r.map encodeItem).flatten ++ tail = R at ih'
    have hshape : encodeItem it ++ (r.map encodeItem).flatten ++ tail =
        toLE 4 it.value.length ++ (toLE 4 (it.kind * 2) ++ (it.key ++ [0] ++ (it.value ++ R))) := by
      rw [← hR]; simp only [encodeItem, List.append_assoc]
    rw [hshape]
    have h4 : (toLE 4 it.value.length).length = 4 := length_toLE 4 _
    have h4' : (toLE 4 (it.kind * 2)).length = 4 := length_toLE 4 _
    have hlen : ¬ ((toLE 4 it.value.length ++ (toLE 4 (it.kind * 2) ++ (it.key ++ [0] ++ (it.value ++ R)))).length < 8) := by
      simp [h4, h4']; omega
    have e1 : (toLE 4 it.value.length ++ (toLE 4 (it.kind * 2) ++ (it.key ++ [0] ++ (it.value ++ R)))).take 4 =
        toLE 4 it.value.length := by rw [← h4]; exact take_left_len _ _
    have e2 : (toLE 4 it.value.length ++ (toLE 4 (it.kind * 2) ++ (it.key ++ [0] ++ (it.value ++ R)))).drop 4 =
        toLE 4 (it.kind * 2) ++ (it.key ++ [0] ++ (it.value ++ R)) := by rw [← h4]; exact drop_left_len _ _
    have e3 : (toLE 4 (it.kind * 2) ++ (it.key ++ [0] ++ (it.value ++ R))).take 4 = toLE 4 (it.kind * 2) := by
      rw [← h4']; exact take_left_len _ _
    have e4 : (toLE 4 it.value.length ++ (toLE 4 (it.kind * 2) ++ (it.key ++ [0] ++ (it.value ++ R)))).drop 8 =
        it.key ++ [0] ++ (it.value ++ R) := by
      rw [show (8 : Nat) = 4 + 4 from rfl, ← List.drop_drop, e2, ← h4']; exact drop_left_len _ _
    simp only [hlen, ↓reduceIte, e1, e2, e3, e4, ofLE_toLE 4 _ hl, ofLE_toLE 4 (it.kind * 2) (by omega),
      splitNul_append it.key (it.value ++ R) hk]
    have hb : ¬ ((it.value ++ R).length < it.value.length) := by simp
    simp only [hb, ↓reduceIte, take_left_len, drop_left_len, ih', Option.map_some]
    have : it.kind * 2 / 2 % 4 = it.kind := by omega
    rw [this]

/-! ## the whole tag: header, items, footer -/

theorem toLE4 (n : Nat) : ∃ a b c d, toLE 4 n = [a, b, c, d] := ⟨_, _, _, _, rfl⟩

theorem hf_shape (size count flags : Nat) :
    ∃ v s c f : Bytes, v = toLE 4 2000 ∧ s = toLE 4 size ∧ c = toLE 4 count ∧ f = toLE 4 flags ∧
      headerOrFooter size count flags = preamble ++ v ++ s ++ c ++ f ++ zeros 8 := ⟨_, _, _, _, rfl, rfl, rfl, rfl, rfl⟩

theorem hf_length (size count flags : Nat) : (headerOrFooter size count flags).length = 32 := by
  simp [headerOrFooter, preamble]

theorem hf_take8 (size count flags : Nat) : (headerOrFooter size count flags).take 8 = preamble := by
  simp only [headerOrFooter, List.append_assoc]
  exact List.take_left' (by simp [preamble])

theorem hf_fields (size count flags : Nat) :
    ((headerOrFooter size count flags).drop 12).take 4 = toLE 4 size ∧
    ((headerOrFooter size count flags).drop 16).take 4 = toLE 4 count ∧
    ((headerOrFooter size count flags).drop 20).take 4 = toLE 4 flags ∧
    ((headerOrFooter size count flags).drop 8).take 12 = toLE 4 2000 ++ toLE 4 size ++ toLE 4 count := by
  obtain ⟨a1, a2, a3, a4, h1⟩ := toLE4 2000
  obtain ⟨b1, b2, b3, b4, h2⟩ := toLE4 size
  obtain ⟨c1, c2, c3, c4, h3⟩ := toLE4 count
  obtain ⟨d1, d2, d3, d4, h4⟩ := toLE4 flags
  simp only [headerOrFooter, preamble, h1, h2, h3, h4]
  refine ⟨rfl, rfl, rfl, rfl⟩

def TagOK (items : List Item) : Prop :=
  (∀ i ∈ items, ItemOK i) ∧ items.length < 256 ^ 4 ∧ ((items.map encodeItem).flatten).length + 32 < 256 ^ 4

/-- the strict tag decoder (preamble, header/footer agreement, header flag, declared size fills
the tag exactly, item count) reads back exactly the items APEv2.save wrote -/
theorem decodeTag_encodeTag (items : List Item) (h : TagOK items) : decodeTag (encodeTag items) = some items := by
  obtain ⟨hi, hc, hs⟩ := h
  simp only [encodeTag]
  generalize hB : (items.map encodeItem).flatten = body at hs ⊢
  have hdec := decodeItems_encode items hi []
  rw [hB, List.append_nil] at hdec
  generalize hH : headerOrFooter (body.length + 32) items.length (hasHeader + isHeader) = H
  generalize hF : headerOrFooter (body.length + 32) items.length hasHeader = F
  have lH : H.length = 32 := by rw [← hH]; exact hf_length _ _ _
  have lF : F.length = 32 := by rw [← hF]; exact hf_length _ _ _
  have fH := hf_fields (body.length + 32) items.length (hasHeader + isHeader)
  have fF := hf_fields (body.length + 32) items.length hasHeader
  rw [hH] at fH; rw [hF] at fF
  have tH : H.take 8 = preamble := by rw [← hH]; exact hf_take8 _ _ _
  have tF : F.take 8 = preamble := by rw [← hF]; exact hf_take8 _ _ _
  have len : (H ++ body ++ F).length = body.length + 64 := by simp [lH, lF]; omega
  have e1 : (H ++ body ++ F).take 32 = H := by
    rw [List.append_assoc, ← lH]; exact List.take_left' rfl
  have e2 : (H ++ body ++ F).drop (body.length + 64 - 32) = F := by
    have : body.length + 64 - 32 = (H ++ body).length := by simp only [List.length_append, lH]; omega
    rw [this]; exact List.drop_left' rfl
  have e3 : ((H ++ body ++ F).drop 32).take (body.length + 32 - 32) = body := by
    rw [List.append_assoc, ← lH, List.drop_left' rfl]
    have : H.length + body.length + 32 - H.length - 0 = body.length + 32 := by omega
    simp only [Nat.add_sub_cancel]
    exact List.take_left' rfl
  unfold decodeTag
  simp only [len, e1, e2, tH, tF, fH.1, fH.2.1, fH.2.2.1, fH.2.2.2, fF.2.2.2,
    ofLE_toLE 4 _ hs, ofLE_toLE 4 _ hc]
  have hfl : ofLE (toLE 4 (hasHeader + isHeader)) = hasHeader + isHeader :=
    ofLE_toLE 4 _ (by decide)
  rw [hfl]
  have c1 : ¬ (body.length + 64 < 64) := by omega
  have c2 : (hasHeader + isHeader) / isHeader % 2 = 1 := by decide
  have c3 : body.length + 32 + 32 = body.length + 64 := by omega
  simp only [c1, c2, c3, e3, hdec, ↓reduceIte, ne_eq, not_true_eq_false, or_self]

end Mutagen.Ape
