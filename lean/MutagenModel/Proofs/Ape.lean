/- Proofs/Ape.lean — APEv2 item list round trip -/
import MutagenModel.Model.Ape
import MutagenModel.Proofs.IntCodec
set_option linter.unusedVariables false
namespace Mutagen.Ape
open Mutagen

theorem splitNul_append (k v : Bytes) (hk : (0 : UInt8) ∉ k) : splitNul (k ++ [0] ++ v) = some (k, v) := by
  induction k with
  | nil => simp [splitNul]
  | cons b r ih =>
    have hb : b ≠ 0 := fun h => hk (h ▸ List.mem_cons_self)
    have hr : (0 : UInt8) ∉ r := fun h => hk (List.mem_cons_of_mem _ h)
    simp only [List.cons_append, splitNul, hb, ↓reduceIte]
    have := ih hr
    simp only [List.append_assoc, List.cons_append, List.nil_append] at this ⊢
    rw [this]; rfl

def ItemOK (i : Item) : Prop := (0 : UInt8) ∉ i.key ∧ i.kind < 4 ∧ i.value.length < 256 ^ 4

theorem take_left_len (a b : Bytes) : (a ++ b).take a.length = a := List.take_left' rfl
theorem drop_left_len (a b : Bytes) : (a ++ b).drop a.length = b := List.drop_left' rfl

/-- the strict item decoder reads back exactly the items APEv2.save wrote, whatever follows -/
theorem decodeItems_encode (items : List Item) (h : ∀ i ∈ items, ItemOK i) (tail : Bytes) :
    decodeItems items.length ((items.map encodeItem).flatten ++ tail) = some (items, tail) := by
  induction items with
  | nil => simp [decodeItems]
  | cons it r ih =>
    obtain ⟨hk, hkind, hl⟩ := h it (List.mem_cons_self)
    have ih' := ih (fun x hx => h x (List.mem_cons_of_mem _ hx))
    simp only [List.length_cons, List.map_cons, List.flatten_cons, decodeItems]
    generalize hR : (r.map encodeItem).flatten ++ tail = R at ih'
    have hshape : encodeItem it ++ (r.map encodeItem).flatten ++ tail =
        toLE 4 it.value.length ++ (toLE 4 (it.kind * 2) ++ (it.key ++ [0] ++ (it.value ++ R))) := by
      rw [← hR]; simp only [encodeItem, List.append_assoc]
    rw [hshape]
    have h4 : (toLE 4 it.value.length).length = 4 := length_toLE 4 _
    have h4' : (toLE 4 (it.kind * 2)).length = 4 := length_toLE 4 _
    have hlen : ¬ ((toLE 4 it.value.length ++ (toLE 4 (it.kind * 2) ++ (it.key ++ [0] ++ (it.value ++ R)))).length < 8) := by
      simp [h4, h4']; omega
    have e1 : (toLE 4 it.value.length ++ (toLE 4 (it.kind * 2) ++ (it.key ++ [0] ++ (it.value ++ R)))).take 4 =
        toLE 4 it.value.length := by rw [← h4]; exact take_left_len _ _
    have e2 : (toLE 4 it.value.length ++ (toLE 4 (it.kind * 2) ++ (it.key ++ [0] ++ (it.value ++ R)))).drop 4 =
        toLE 4 (it.kind * 2) ++ (it.key ++ [0] ++ (it.value ++ R)) := by rw [← h4]; exact drop_left_len _ _
    have e3 : (toLE 4 (it.kind * 2) ++ (it.key ++ [0] ++ (it.value ++ R))).take 4 = toLE 4 (it.kind * 2) := by
      rw [← h4']; exact take_left_len _ _
    have e4 : (toLE 4 it.value.length ++ (toLE 4 (it.kind * 2) ++ (it.key ++ [0] ++ (it.value ++ R)))).drop 8 =
        it.key ++ [0] ++ (it.value ++ R) := by
      rw [show (8 : Nat) = 4 + 4 from rfl, ← List.drop_drop, e2, ← h4']; exact drop_left_len _ _
    simp only [hlen, ↓reduceIte, e1, e2, e3, e4, ofLE_toLE 4 _ hl, ofLE_toLE 4 (it.kind * 2) (by omega),
      splitNul_append it.key (it.value ++ R) hk]
    have hb : ¬ ((it.value ++ R).length < it.value.length) := by simp
    simp only [hb, ↓reduceIte, take_left_len, drop_left_len, ih', Option.map_some]
    have : it.kind * 2 / 2 % 4 = it.kind := by omega
    rw [this]

end Mutagen.Ape
