/- Proofs/FlacBlocks.lean — the FLAC metadata block classes: round trips, strict decoding, totality -/
import MutagenModel.Model.FlacBlocks
import MutagenModel.Proofs.IntCodec
import MutagenModel.Proofs.Utf8
set_option linter.unusedVariables false
namespace Mutagen.FlacB
open Mutagen

/-! ### helpers -/

@[simp] theorem bnd_ok (a : α) (f : α → Except PyErr β) : bnd (.ok a) f = f a := rfl
@[simp] theorem bnd_error (e : PyErr) (f : α → Except PyErr β) : bnd (.error e : Except PyErr α) f = .error e := rfl

theorem rd_app (a r : Bytes) (n : Nat) (h : a.length = n) : rd n (a ++ r) = .ok (a, r) := by
  unfold rd
  have : ¬ ((a ++ r).length < n) := by simp; omega
  rw [if_neg this, List.take_left' h, List.drop_left' h]

theorem packU_ok (w n : Nat) (h : n < 256 ^ w) : packU w n = .ok (toBE w n) := by simp [packU, h]

theorem slice_mid (A M R : Bytes) (i k : Nat) (hA : A.length = i) (hM : M.length = k) : ((A ++ M ++ R).drop i).take k = M := by
  rw [List.append_assoc, List.drop_left' hA, List.take_left' hM]

theorem take_toBE (w n : Nat) (r : Bytes) : (toBE w n ++ r).take w = toBE w n := List.take_left' (length_toBE w n)
theorem drop_toBE (w n : Nat) (r : Bytes) : (toBE w n ++ r).drop w = r := List.drop_left' (length_toBE w n)

/-- only MutagenError -/
def OnlyM (m : Except PyErr α) : Prop := ∀ e, m = .error e → e = .mutagen

theorem OnlyM.ok (a : α) : OnlyM (.ok a : Except PyErr α) := fun e h => by cases h
theorem OnlyM.bnd {m : Except PyErr α} {f : α → Except PyErr β} (hm : OnlyM m) (hf : ∀ a, OnlyM (f a)) : OnlyM (bnd m f) := by
  intro e h
  cases m with
  | error x => simp at h; subst h; exact hm x rfl
  | ok a => exact hf a e h
theorem OnlyM.rd (n : Nat) (b : Bytes) : OnlyM (rd n b) := by
  intro e h; unfold FlacB.rd at h; split at h
  · cases h; rfl
  · cases h

/-! ### decode('UTF-8', 'replace') of encoded text -/

theorem decodeReplaceFuel_encode (cs : List Nat) (h : ∀ c ∈ cs, Utf8.Scalar c) (fuel : Nat) (hf : cs.length ≤ fuel) :
    decodeReplaceFuel fuel (Utf8.encode cs) = cs := by
  induction cs generalizing fuel with
  | nil => cases fuel <;> simp [Utf8.encode, decodeReplaceFuel]
  | cons c r ih =>
    cases fuel with
    | zero => simp at hf
    | succ n =>
      have hc := h c (List.mem_cons_self)
      have hr : ∀ x ∈ r, Utf8.Scalar x := fun x hx => h x (List.mem_cons_of_mem _ hx)
      have e : Utf8.encode (c :: r) = Utf8.utf8Enc1 c ++ Utf8.encode r := by simp [Utf8.encode]
      rw [e]
      cases hne : Utf8.utf8Enc1 c ++ Utf8.encode r with
      | nil =>
        have := Utf8.utf8Enc1_ne_nil c
        simp at hne; exact absurd hne.1 this
      | cons a b =>
        simp only [decodeReplaceFuel]
        rw [← hne, Utf8.utf8Dec1_enc1 c hc (Utf8.encode r)]
        simp only [ih hr n (by simp at hf; omega)]

/-- text of Unicode scalar values survives `encode('UTF-8')` and `decode('UTF-8', 'replace')` -/
theorem decodeReplace_encode (cs : List Nat) (h : ∀ c ∈ cs, Utf8.Scalar c) : decodeReplace (Utf8.encode cs) = cs :=
  decodeReplaceFuel_encode cs h _ (Utf8.length_encode_ge cs)

theorem encodeText_ok (t : List Nat) (h : ∀ c ∈ t, Utf8.Scalar c) : encodeText t = .ok (Utf8.encode t) := by
  unfold encodeText
  have : t.all (fun c => decide (Utf8.Scalar c)) = true := by simpa using h
  rw [if_pos this]

/-! ### PICTURE -/

/-- mutagen writes the format's layout -/
theorem writePicture_eq (p : Picture) (h : p.Fits) : writePicture p = .ok (renderPicture p) := by
  obtain ⟨h1, h2, h3, h4, h5, h6, h7, h8, h9, h10⟩ := h
  unfold writePicture renderPicture
  simp only [encodeText_ok _ h2, encodeText_ok _ h3, bnd_ok, packU_ok 4 _ (by simpa using h1), packU_ok 4 _ (by simpa using h4),
    packU_ok 4 _ (by simpa using h5), packU_ok 4 _ (by simpa using h6), packU_ok 4 _ (by simpa using h7),
    packU_ok 4 _ (by simpa using h8), packU_ok 4 _ (by simpa using h9), packU_ok 4 _ (by simpa using h10), List.append_assoc]

/-- the loader on the format's layout, whatever follows it -/
theorem loadPictureS_render (p : Picture) (h : p.Fits) (rest : Bytes) : loadPictureS (renderPicture p ++ rest) = .ok (p, rest) := by
  obtain ⟨h1, h2, h3, h4, h5, h6, h7, h8, h9, h10⟩ := h
  have b32 : (2 : Nat) ^ 32 = 256 ^ 4 := by decide
  rw [b32] at h1 h4 h5 h6 h7 h8 h9 h10
  unfold loadPictureS renderPicture
  generalize hm : Utf8.encode p.mime = M at h4
  generalize hds : Utf8.encode p.desc = D at h5
  have e1 : toBE 4 p.type_ ++ toBE 4 M.length ++ M ++ toBE 4 D.length ++ D ++ toBE 4 p.width ++ toBE 4 p.height ++ toBE 4 p.depth ++
      toBE 4 p.colors ++ toBE 4 p.data.length ++ p.data ++ rest =
      (toBE 4 p.type_ ++ toBE 4 M.length) ++ (M ++ (toBE 4 D.length ++ (D ++ ((toBE 4 p.width ++ toBE 4 p.height ++ toBE 4 p.depth ++
      toBE 4 p.colors ++ toBE 4 p.data.length) ++ (p.data ++ rest))))) := by simp only [List.append_assoc]
  rw [e1, rd_app _ _ 8 (by simp)]
  simp only [bnd_ok, drop_toBE, take_toBE, ofBE_toBE 4 _ h4, ofBE_toBE 4 _ h1]
  rw [rd_app _ _ _ rfl]
  simp only [bnd_ok]
  rw [rd_app _ _ 4 (by simp)]
  simp only [bnd_ok, ofBE_toBE 4 _ h5]
  rw [rd_app _ _ _ rfl]
  simp only [bnd_ok]
  rw [rd_app _ _ 20 (by simp)]
  simp only [bnd_ok]
  have f1 : (toBE 4 p.width ++ toBE 4 p.height ++ toBE 4 p.depth ++ toBE 4 p.colors ++ toBE 4 p.data.length).take 4 = toBE 4 p.width := by
    simp only [List.append_assoc]; exact take_toBE _ _ _
  have f2 : ((toBE 4 p.width ++ toBE 4 p.height ++ toBE 4 p.depth ++ toBE 4 p.colors ++ toBE 4 p.data.length).drop 4).take 4 = toBE 4 p.height := by
    have := slice_mid (toBE 4 p.width) (toBE 4 p.height) (toBE 4 p.depth ++ toBE 4 p.colors ++ toBE 4 p.data.length) 4 4 (by simp) (by simp)
    simpa only [List.append_assoc] using this
  have f3 : ((toBE 4 p.width ++ toBE 4 p.height ++ toBE 4 p.depth ++ toBE 4 p.colors ++ toBE 4 p.data.length).drop 8).take 4 = toBE 4 p.depth := by
    have := slice_mid (toBE 4 p.width ++ toBE 4 p.height) (toBE 4 p.depth) (toBE 4 p.colors ++ toBE 4 p.data.length) 8 4 (by simp) (by simp)
    simpa only [List.append_assoc] using this
  have f4 : ((toBE 4 p.width ++ toBE 4 p.height ++ toBE 4 p.depth ++ toBE 4 p.colors ++ toBE 4 p.data.length).drop 12).take 4 = toBE 4 p.colors := by
    have := slice_mid (toBE 4 p.width ++ toBE 4 p.height ++ toBE 4 p.depth) (toBE 4 p.colors) (toBE 4 p.data.length) 12 4 (by simp) (by simp)
    simpa only [List.append_assoc] using this
  have f5 : (toBE 4 p.width ++ toBE 4 p.height ++ toBE 4 p.depth ++ toBE 4 p.colors ++ toBE 4 p.data.length).drop 16 = toBE 4 p.data.length :=
    List.drop_left' (by simp)
  simp only [f1, f2, f3, f4, f5, ofBE_toBE 4 _ h6, ofBE_toBE 4 _ h7, ofBE_toBE 4 _ h8, ofBE_toBE 4 _ h9, ofBE_toBE 4 _ h10]
  rw [rd_app _ _ _ rfl]
  simp only [bnd_ok, ← hm, ← hds, decodeReplace_encode _ h2, decodeReplace_encode _ h3]

theorem loadPicture_render (p : Picture) (h : p.Fits) : loadPicture (renderPicture p) = .ok p := by
  have := loadPictureS_render p h []
  rw [List.append_nil] at this
  simp [loadPicture, this]

theorem loadPictureS_total (b : Bytes) : OnlyM (loadPictureS b) := by
  unfold loadPictureS
  exact (OnlyM.rd _ _).bnd fun _ => (OnlyM.rd _ _).bnd fun _ => (OnlyM.rd _ _).bnd fun _ => (OnlyM.rd _ _).bnd fun _ =>
    (OnlyM.rd _ _).bnd fun _ => (OnlyM.rd _ _).bnd fun _ => OnlyM.ok _

theorem loadPicture_total (b : Bytes) : OnlyM (loadPicture b) := (loadPictureS_total b).bnd fun _ => OnlyM.ok _

/-! ### SEEKTABLE -/

theorem length_renderSeekTable (l : List SeekPoint) : (renderSeekTable l).length = 18 * l.length := by
  induction l with
  | nil => rfl
  | cons p r ih => simp [renderSeekTable, ih]; omega

theorem writeSeekTable_eq (l : List SeekPoint) (h : seekFits l) : writeSeekTable l = .ok (renderSeekTable l) := by
  induction l with
  | nil => rfl
  | cons p r ih =>
    obtain ⟨h1, h2, h3⟩ := h p (by simp)
    have b64 : (2 : Nat) ^ 64 = 256 ^ 8 := by decide
    have b16 : (2 : Nat) ^ 16 = 256 ^ 2 := by decide
    rw [b64] at h1 h2; rw [b16] at h3
    simp only [writeSeekTable, renderSeekTable, packU_ok 8 _ h1, packU_ok 8 _ h2, packU_ok 2 _ h3, bnd_ok,
      ih (fun x hx => h x (by simp [hx])), List.append_assoc]

/-- the loop of `SeekTable.load` on the format's layout followed by fewer than 18 bytes -/
theorem loadSeekFuel_render (l : List SeekPoint) (h : seekFits l) (tail : Bytes) (ht : tail.length < 18) (fuel : Nat) (hf : l.length ≤ fuel) :
    loadSeekFuel fuel (renderSeekTable l ++ tail) = l := by
  induction l generalizing fuel with
  | nil =>
    cases fuel with
    | zero => rfl
    | succ n => simp [loadSeekFuel, renderSeekTable, ht]
  | cons p r ih =>
    cases fuel with
    | zero => simp at hf
    | succ n =>
      obtain ⟨h1, h2, h3⟩ := h p (by simp)
      have b64 : (2 : Nat) ^ 64 = 256 ^ 8 := by decide
      have b16 : (2 : Nat) ^ 16 = 256 ^ 2 := by decide
      rw [b64] at h1 h2; rw [b16] at h3
      unfold loadSeekFuel
      have hl : ¬ ((renderSeekTable (p :: r) ++ tail).length < 18) := by
        simp [length_renderSeekTable]; omega
      rw [if_neg hl]
      have e : renderSeekTable (p :: r) ++ tail = toBE 8 p.first ++ toBE 8 p.offset ++ toBE 2 p.samples ++ (renderSeekTable r ++ tail) := by
        simp [renderSeekTable, List.append_assoc]
      rw [e]
      have f1 : (toBE 8 p.first ++ toBE 8 p.offset ++ toBE 2 p.samples ++ (renderSeekTable r ++ tail)).take 8 = toBE 8 p.first := by
        simp only [List.append_assoc]; exact take_toBE _ _ _
      have f2 : ((toBE 8 p.first ++ toBE 8 p.offset ++ toBE 2 p.samples ++ (renderSeekTable r ++ tail)).drop 8).take 8 = toBE 8 p.offset := by
        have := slice_mid (toBE 8 p.first) (toBE 8 p.offset) (toBE 2 p.samples ++ (renderSeekTable r ++ tail)) 8 8 (by simp) (by simp)
        simpa only [List.append_assoc] using this
      have f3 : ((toBE 8 p.first ++ toBE 8 p.offset ++ toBE 2 p.samples ++ (renderSeekTable r ++ tail)).drop 16).take 2 = toBE 2 p.samples := by
        have := slice_mid (toBE 8 p.first ++ toBE 8 p.offset) (toBE 2 p.samples) (renderSeekTable r ++ tail) 16 2 (by simp) (by simp)
        simpa only [List.append_assoc] using this
      have f4 : (toBE 8 p.first ++ toBE 8 p.offset ++ toBE 2 p.samples ++ (renderSeekTable r ++ tail)).drop 18 = renderSeekTable r ++ tail :=
        List.drop_left' (by simp)
      rw [f1, f2, f3, f4, ofBE_toBE 8 _ h1, ofBE_toBE 8 _ h2, ofBE_toBE 2 _ h3,
        ih (fun x hx => h x (by simp [hx])) n (by simpa using hf)]

theorem loadSeekTable_render (l : List SeekPoint) (h : seekFits l) : loadSeekTable (renderSeekTable l) = .ok l := by
  unfold loadSeekTable
  have := loadSeekFuel_render l h [] (by simp) (renderSeekTable l).length (by rw [length_renderSeekTable]; omega)
  rw [List.append_nil] at this
  rw [this]

theorem loadSeekTable_total (b : Bytes) : OnlyM (loadSeekTable b) := OnlyM.ok _


/-! ### CUESHEET -/

theorem dropWhile_zeros (k : Nat) (y : Bytes) : (zeros k ++ y).dropWhile (· == 0) = y.dropWhile (· == 0) := by
  induction k with
  | zero => simp [zeros]
  | succ n ih => simp only [zeros, List.replicate_succ, List.cons_append] at ih ⊢; simp [List.dropWhile_cons, ih]

theorem rstrip0_pad (x : Bytes) (k : Nat) : rstrip0 (x ++ zeros k) = rstrip0 x := by
  unfold rstrip0
  have : (x ++ zeros k).reverse = zeros k ++ x.reverse := by simp [zeros]
  rw [this, dropWhile_zeros]

theorem padTo_le (n : Nat) (l : Bytes) (h : l.length ≤ n) : padTo n l = l ++ zeros (n - l.length) := by
  unfold padTo; rw [List.take_of_length_le h]

theorem ofBE_single (x : UInt8) : ofBE [x] = x.toNat := by simp [ofBE, ofLE]

theorem length_renderIndexes (l : List TrackIndex) : (renderIndexes l).length = 12 * l.length := by
  induction l with
  | nil => rfl
  | cons p r ih => simp [renderIndexes, ih]; omega

theorem writeIndexes_eq (l : List TrackIndex) (h : ∀ i ∈ l, indexFits i) : writeIndexes l = .ok (renderIndexes l) := by
  induction l with
  | nil => rfl
  | cons p r ih =>
    obtain ⟨h1, h2⟩ := h p (by simp)
    have b64 : (2 : Nat) ^ 64 = 256 ^ 8 := by decide
    rw [b64] at h2
    simp only [writeIndexes, renderIndexes, packU_ok 8 _ h2, packU_ok 1 _ (by simpa using h1), bnd_ok,
      ih (fun x hx => h x (by simp [hx])), List.append_assoc]
    rfl

theorem loadIndexes_render (l : List TrackIndex) (h : ∀ i ∈ l, indexFits i) (rest : Bytes) :
    loadIndexes l.length (renderIndexes l ++ rest) = .ok (l, rest) := by
  induction l with
  | nil => rfl
  | cons p r ih =>
    obtain ⟨h1, h2⟩ := h p (by simp)
    have b64 : (2 : Nat) ^ 64 = 256 ^ 8 := by decide
    rw [b64] at h2
    have e : renderIndexes (p :: r) ++ rest = (toBE 8 p.offset ++ toBE 1 p.number ++ [0, 0, 0]) ++ (renderIndexes r ++ rest) := by
      simp [renderIndexes, List.append_assoc]
    simp only [List.length_cons, loadIndexes]
    rw [e, rd_app _ _ 12 (by simp)]
    simp only [bnd_ok, ih (fun x hx => h x (by simp [hx]))]
    have f1 : (toBE 8 p.offset ++ toBE 1 p.number ++ [0, 0, 0]).take 8 = toBE 8 p.offset := by
      simp only [List.append_assoc]; exact take_toBE _ _ _
    have f2 : ((toBE 8 p.offset ++ toBE 1 p.number ++ [0, 0, 0]).drop 8).take 1 = toBE 1 p.number :=
      slice_mid _ _ _ 8 1 (by simp) (by simp)
    rw [f1, f2, ofBE_toBE 8 _ h2, ofBE_toBE 1 _ (by simpa using h1)]

theorem flagsByte (ty : Nat) (pre : Bool) (h : ty < 2) :
    (UInt8.ofNat (ty * 128 + (if pre then 64 else 0))).toNat = ty * 128 + (if pre then 64 else 0) := by
  have : ty * 128 + (if pre then 64 else 0) < 256 := by cases pre <;> simp <;> omega
  simp [UInt8.toNat_ofNat', Nat.mod_eq_of_lt this]

/-- the 36 bytes in front of the index points of a track -/
def trackHead (t : Track) : Bytes :=
  toBE 8 t.startOffset ++ toBE 1 t.number ++ (t.isrc ++ zeros (12 - t.isrc.length)) ++
    [UInt8.ofNat (t.type_ * 128 + (if t.preEmphasis then 64 else 0))] ++ zeros 13 ++ toBE 1 t.indexes.length

theorem renderTracks_cons (t : Track) (r : List Track) :
    renderTracks (t :: r) = trackHead t ++ (renderIndexes t.indexes ++ renderTracks r) := by
  simp [renderTracks, trackHead, List.append_assoc]

theorem writeTracks_eq (l : List Track) (h : ∀ t ∈ l, t.Fits) : writeTracks l = .ok (renderTracks l) := by
  induction l with
  | nil => rfl
  | cons t r ih =>
    obtain ⟨h1, h2, h3, h4, h5, h6, h7⟩ := h t (by simp)
    have b64 : (2 : Nat) ^ 64 = 256 ^ 8 := by decide
    rw [b64] at h2
    have hty : t.type_ % 2 = t.type_ := Nat.mod_eq_of_lt h5
    simp only [writeTracks, renderTracks, packU_ok 8 _ h2, packU_ok 1 _ (show t.number < 256 ^ 1 by simpa using h1),
      packU_ok 1 _ (show t.indexes.length < 256 ^ 1 by simpa using h6), bnd_ok, writeIndexes_eq _ h7,
      ih (fun x hx => h x (by simp [hx])), padTo_le 12 _ h3, hty, List.append_assoc]

theorem loadTracks_render (l : List Track) (h : ∀ t ∈ l, t.Fits) (rest : Bytes) :
    loadTracks l.length (renderTracks l ++ rest) = .ok (l, rest) := by
  induction l with
  | nil => rfl
  | cons t r ih =>
    obtain ⟨h1, h2, h3, h4, h5, h6, h7⟩ := h t (by simp)
    have b64 : (2 : Nat) ^ 64 = 256 ^ 8 := by decide
    rw [b64] at h2
    have hpadl : (t.isrc ++ zeros (12 - t.isrc.length)).length = 12 := by simp; omega
    have hlen : (trackHead t).length = 36 := by
      simp only [trackHead, List.length_append, length_toBE, length_zeros, List.length_cons, List.length_nil]; omega
    simp only [List.length_cons, loadTracks]
    rw [renderTracks_cons]
    simp only [List.append_assoc]
    rw [rd_app _ _ 36 hlen]
    simp only [bnd_ok]
    have f1 : (trackHead t).take 8 = toBE 8 t.startOffset := by
      simp only [trackHead, List.append_assoc]; exact take_toBE _ _ _
    have f2 : ((trackHead t).drop 8).take 1 = toBE 1 t.number := by
      have := slice_mid (toBE 8 t.startOffset) (toBE 1 t.number) ((t.isrc ++ zeros (12 - t.isrc.length)) ++
        [UInt8.ofNat (t.type_ * 128 + (if t.preEmphasis then 64 else 0))] ++ zeros 13 ++ toBE 1 t.indexes.length) 8 1 (by simp) (by simp)
      simpa only [trackHead, List.append_assoc] using this
    have f3 : ((trackHead t).drop 9).take 12 = t.isrc ++ zeros (12 - t.isrc.length) := by
      have := slice_mid (toBE 8 t.startOffset ++ toBE 1 t.number) (t.isrc ++ zeros (12 - t.isrc.length))
        ([UInt8.ofNat (t.type_ * 128 + (if t.preEmphasis then 64 else 0))] ++ zeros 13 ++ toBE 1 t.indexes.length) 9 12 (by simp) hpadl
      simpa only [trackHead, List.append_assoc] using this
    have f4 : ((trackHead t).drop 21).take 1 = [UInt8.ofNat (t.type_ * 128 + (if t.preEmphasis then 64 else 0))] := by
      have := slice_mid (toBE 8 t.startOffset ++ toBE 1 t.number ++ (t.isrc ++ zeros (12 - t.isrc.length)))
        [UInt8.ofNat (t.type_ * 128 + (if t.preEmphasis then 64 else 0))] (zeros 13 ++ toBE 1 t.indexes.length) 21 1
        (by simp only [List.length_append, length_toBE, hpadl]) rfl
      simpa only [trackHead, List.append_assoc] using this
    have f5 : ((trackHead t).drop 35).take 1 = toBE 1 t.indexes.length := by
      have := slice_mid (toBE 8 t.startOffset ++ toBE 1 t.number ++ (t.isrc ++ zeros (12 - t.isrc.length)) ++
        [UInt8.ofNat (t.type_ * 128 + (if t.preEmphasis then 64 else 0))] ++ zeros 13) (toBE 1 t.indexes.length) [] 35 1
        (by simp only [List.length_append, length_toBE, hpadl, length_zeros, List.length_cons, List.length_nil]) (by simp)
      simpa only [trackHead, List.append_assoc, List.append_nil] using this
    rw [f1, f2, f3, f4, f5, ofBE_toBE 8 _ h2, ofBE_toBE 1 t.number (by simpa using h1), ofBE_toBE 1 t.indexes.length (by simpa using h6),
      loadIndexes_render _ h7]
    simp only [bnd_ok, ih (fun x hx => h x (by simp [hx])), ofBE_single, flagsByte _ _ h5, rstrip0_pad, h4]
    have g1 : (t.type_ * 128 + (if t.preEmphasis then 64 else 0)) / 128 % 2 = t.type_ := by
      cases t.preEmphasis <;> simp <;> omega
    have g2 : decide ((t.type_ * 128 + (if t.preEmphasis then 64 else 0)) / 64 % 2 = 1) = t.preEmphasis := by
      cases t.preEmphasis <;> simp <;> omega
    rw [g1, g2]

/-- the 396 bytes in front of the tracks -/
def cueHead (c : CueSheet) : Bytes :=
  (c.mcn ++ zeros (128 - c.mcn.length)) ++ toBE 8 c.leadIn ++ [if c.cd then 128 else 0] ++ zeros 258 ++ toBE 1 c.tracks.length

theorem writeCueSheet_eq (c : CueSheet) (h : c.Fits) : writeCueSheet c = .ok (renderCueSheet c) := by
  obtain ⟨h1, h2, h3, h4, h5⟩ := h
  have b64 : (2 : Nat) ^ 64 = 256 ^ 8 := by decide
  rw [b64] at h3
  simp only [writeCueSheet, renderCueSheet, packU_ok 8 _ h3, packU_ok 1 _ (show c.tracks.length < 256 ^ 1 by simpa using h4), bnd_ok,
    writeTracks_eq _ h5, padTo_le 128 _ h1, List.append_assoc]

theorem loadCueSheet_render (c : CueSheet) (h : c.Fits) : loadCueSheet (renderCueSheet c) = .ok c := by
  obtain ⟨h1, h2, h3, h4, h5⟩ := h
  have b64 : (2 : Nat) ^ 64 = 256 ^ 8 := by decide
  rw [b64] at h3
  have hpadl : (c.mcn ++ zeros (128 - c.mcn.length)).length = 128 := by simp; omega
  have hlen : (cueHead c).length = 396 := by
    simp only [cueHead, List.length_append, length_toBE, length_zeros, List.length_cons, List.length_nil]; omega
  have e : renderCueSheet c = cueHead c ++ renderTracks c.tracks := by simp [renderCueSheet, cueHead, List.append_assoc]
  unfold loadCueSheet
  rw [e, rd_app _ _ 396 hlen]
  simp only [bnd_ok]
  have f1 : (cueHead c).take 128 = c.mcn ++ zeros (128 - c.mcn.length) := by
    have := slice_mid [] (c.mcn ++ zeros (128 - c.mcn.length)) (toBE 8 c.leadIn ++ [if c.cd then (128 : UInt8) else 0] ++ zeros 258 ++ toBE 1 c.tracks.length)
      0 128 rfl hpadl
    simpa only [cueHead, List.append_assoc, List.nil_append, List.drop_zero] using this
  have f2 : ((cueHead c).drop 128).take 8 = toBE 8 c.leadIn := by
    have := slice_mid (c.mcn ++ zeros (128 - c.mcn.length)) (toBE 8 c.leadIn) ([if c.cd then 128 else 0] ++ zeros 258 ++ toBE 1 c.tracks.length)
      128 8 hpadl (by simp)
    simpa only [cueHead, List.append_assoc] using this
  have f3 : ((cueHead c).drop 136).take 1 = [if c.cd then 128 else 0] := by
    have := slice_mid ((c.mcn ++ zeros (128 - c.mcn.length)) ++ toBE 8 c.leadIn) [if c.cd then (128 : UInt8) else 0] (zeros 258 ++ toBE 1 c.tracks.length)
      136 1 (by simp only [List.length_append, length_toBE, hpadl]) rfl
    simpa only [cueHead, List.append_assoc] using this
  have f4 : ((cueHead c).drop 395).take 1 = toBE 1 c.tracks.length := by
    have := slice_mid ((c.mcn ++ zeros (128 - c.mcn.length)) ++ toBE 8 c.leadIn ++ [if c.cd then (128 : UInt8) else 0] ++ zeros 258)
      (toBE 1 c.tracks.length) [] 395 1
      (by simp only [List.length_append, length_toBE, hpadl, length_zeros, List.length_cons, List.length_nil]) (by simp)
    simpa only [cueHead, List.append_assoc, List.append_nil] using this
  rw [f1, f2, f3, f4, ofBE_toBE 8 _ h3, ofBE_toBE 1 _ (by simpa using h4)]
  have := loadTracks_render c.tracks h5 []
  rw [List.append_nil] at this
  simp only [this, bnd_ok, rstrip0_pad, h2, ofBE_single]
  have g : decide ((if c.cd then (128 : UInt8) else 0).toNat / 128 % 2 = 1) = c.cd := by cases c.cd <;> rfl
  rw [g]

theorem loadIndexes_total (n : Nat) (b : Bytes) : OnlyM (loadIndexes n b) := by
  induction n generalizing b with
  | zero => exact OnlyM.ok _
  | succ k ih => unfold loadIndexes; exact (OnlyM.rd _ _).bnd fun _ => (ih _).bnd fun _ => OnlyM.ok _

theorem loadTracks_total (n : Nat) (b : Bytes) : OnlyM (loadTracks n b) := by
  induction n generalizing b with
  | zero => exact OnlyM.ok _
  | succ k ih =>
    unfold loadTracks
    exact (OnlyM.rd _ _).bnd fun _ => (loadIndexes_total _ _).bnd fun _ => (ih _).bnd fun _ => OnlyM.ok _

theorem loadCueSheet_total (b : Bytes) : OnlyM (loadCueSheet b) := by
  unfold loadCueSheet
  exact (OnlyM.rd _ _).bnd fun _ => (loadTracks_total _ _).bnd fun _ => OnlyM.ok _


end Mutagen.FlacB
