/- Proofs/DictEasyMp4.lean — `EasyMP4Tags` over the `MP4Tags` model refines the reference dictionary (C16) -/
import MutagenModel.Model.DictEasyMp4
import MutagenModel.Proofs.DictMp4
import MutagenModel.Proofs.Utf8
set_option linter.unusedVariables false
set_option linter.unusedSimpArgs false
set_option linter.unusedSectionVars false
namespace Mutagen.Dict
open Mutagen

/-! ### facts about the registry (finite checks) -/

theorem emReg_keys_nodup : (easyMp4Registry.map (·.key)).Nodup := by decide +kernel
theorem emReg_atoms_nodup : (easyMp4Registry.map (·.atom)).Nodup := by decide +kernel
theorem emReg_lower_all : easyMp4Registry.all (fun e => decide (pyLower e.key = e.key)) = true := by decide +kernel

theorem emReg_lower (e : EMEntry) (h : e ∈ easyMp4Registry) : pyLower e.key = e.key := by
  have := List.all_eq_true.1 emReg_lower_all e h
  simpa using this

/-- `find?` on a list whose keys are distinct finds the member itself -/
theorem find_of_mem_nodup (l : List EMEntry) (hn : (l.map (·.key)).Nodup) (e : EMEntry) (he : e ∈ l) :
    l.find? (fun x => decide (x.key = e.key)) = some e := by
  induction l with
  | nil => simp at he
  | cons a t ih =>
    simp only [List.map_cons, List.nodup_cons] at hn
    rcases List.mem_cons.1 he with h | h
    · subst h; simp
    · have hne : a.key ≠ e.key := by
        intro heq
        exact hn.1 (heq ▸ List.mem_map_of_mem h)
      simp [List.find?_cons, hne, ih hn.2 h]

theorem emFind_of_mem (e : EMEntry) (h : e ∈ easyMp4Registry) : emFind e.key = some e :=
  find_of_mem_nodup _ emReg_keys_nodup e h

theorem emFind_some (t : Text) (e : EMEntry) (h : emFind t = some e) : e ∈ easyMp4Registry ∧ e.key = t := by
  unfold emFind at h
  exact ⟨List.mem_of_find?_eq_some h, by simpa using List.find?_some h⟩

theorem inj_of_nodup_map {α β : Type} (f : α → β) (l : List α) (h : (l.map f).Nodup) (a b : α)
    (ha : a ∈ l) (hb : b ∈ l) (e : f a = f b) : a = b := by
  induction l with
  | nil => simp at ha
  | cons x t ih =>
    simp only [List.map_cons, List.nodup_cons] at h
    rcases List.mem_cons.1 ha with h1 | h1 <;> rcases List.mem_cons.1 hb with h2 | h2
    · rw [h1, h2]
    · subst h1; exact absurd (e ▸ List.mem_map_of_mem h2) h.1
    · subst h2; exact absurd (e ▸ List.mem_map_of_mem h1) h.1
    · exact ih h.2 h1 h2

theorem emReg_atom_inj (e1 e2 : EMEntry) (h1 : e1 ∈ easyMp4Registry) (h2 : e2 ∈ easyMp4Registry)
    (h : e1.atom = e2.atom) : e1 = e2 :=
  inj_of_nodup_map (·.atom) _ emReg_atoms_nodup e1 e2 h1 h2 h

theorem emEntryOf_reg (e : EMEntry) (h : e ∈ easyMp4Registry) : emEntryOf (.str e.key) = some e := by
  simp [emEntryOf, emReg_lower e h, emFind_of_mem e h]

theorem emEntryOf_some (k : PKey) (e : EMEntry) (h : emEntryOf k = some e) : e ∈ easyMp4Registry := by
  cases k <;> simp [emEntryOf] at h
  exact (emFind_some _ e h).1

/-! ### lookups in the view -/

section absl
variable (s : Mp4)

theorem abs_lookup_aux (l : List EMEntry) (hn : (l.map (·.key)).Nodup) (t : Text) :
    lookup (PKey.str t) (l.filterMap (fun e => (emView s e).map (fun vv => (PKey.str e.key, vv)))) =
      (l.find? (fun x => decide (x.key = t))).bind (emView s) := by
  induction l with
  | nil => rfl
  | cons a r ih =>
    simp only [List.map_cons, List.nodup_cons] at hn
    by_cases hk : a.key = t
    · subst hk
      cases hv : emView s a with
      | some vv => simp [List.filterMap_cons, hv]
      | none =>
        have hnone : r.find? (fun x => decide (x.key = a.key)) = none := by
          rw [List.find?_eq_none]
          intro x hx
          simp only [decide_eq_true_eq]
          intro heq
          exact hn.1 (heq ▸ List.mem_map_of_mem hx)
        simp [List.filterMap_cons, hv, ih hn.2, hnone]
    · cases hv : emView s a with
      | some vv =>
        have : ¬ PKey.str a.key = PKey.str t := by simp [hk]
        simp [List.filterMap_cons, hv, this, ih hn.2, hk]
      | none => simp [List.filterMap_cons, hv, ih hn.2, hk]

theorem abs_lookup_str (t : Text) : lookup (PKey.str t) (easyMp4Abs s) = (emFind t).bind (emView s) :=
  abs_lookup_aux s _ emReg_keys_nodup t

theorem abs_keys_str_aux (l : List EMEntry) (k : PKey) (hk : ∀ t, k ≠ .str t) :
    lookup k (l.filterMap (fun e => (emView s e).map (fun vv => (PKey.str e.key, vv)))) = none := by
  induction l with
  | nil => rfl
  | cons a r ih =>
    cases hv : emView s a with
    | some vv =>
      have : ¬ PKey.str a.key = k := fun h => hk _ h.symm
      simp [List.filterMap_cons, hv, this, ih]
    | none => simp [List.filterMap_cons, hv, ih]

theorem abs_lookup_nonstr (k : PKey) (hk : ∀ t, k ≠ .str t) : lookup k (easyMp4Abs s) = none :=
  abs_keys_str_aux s _ k hk

theorem abs_keysOf_aux (l : List EMEntry) :
    keysOf (l.filterMap (fun e => (emView s e).map (fun vv => (PKey.str e.key, vv)))) =
      (l.filter (fun e => (emView s e).isSome)).map (fun e => PKey.str e.key) := by
  induction l with
  | nil => rfl
  | cons a r ih =>
    cases hv : emView s a with
    | some vv => simp [List.filterMap_cons, List.filter_cons, hv, ih]
    | none => simp [List.filterMap_cons, List.filter_cons, hv, ih]

theorem abs_nodup : NodupKeys (easyMp4Abs s) := by
  unfold NodupKeys easyMp4Abs
  rw [abs_keysOf_aux]
  have h1 : ((easyMp4Registry.filter (fun e => (emView s e).isSome)).map (·.key)).Nodup :=
    List.Nodup.sublist (List.Sublist.map _ List.filter_sublist) emReg_keys_nodup
  have : (easyMp4Registry.filter (fun e => (emView s e).isSome)).map (fun e => PKey.str e.key) =
      ((easyMp4Registry.filter (fun e => (emView s e).isSome)).map (·.key)).map PKey.str := by
    simp [List.map_map]
  rw [this]
  exact List.Pairwise.map PKey.str (fun a b h e => h (by injection e)) h1

end absl
/-! ### the getter reads what the setter wrote -/

theorem mapE_ok_of_forall {α β : Type} (f : α → Except PyErr β) (l : List α) (h : ∀ x ∈ l, ∃ y, f x = .ok y) :
    ∃ ys, mapE f l = .ok ys := by
  induction l with
  | nil => exact ⟨[], rfl⟩
  | cons a t ih =>
    obtain ⟨y, hy⟩ := h a (by simp)
    obtain ⟨ys, hys⟩ := ih (fun x hx => h x (by simp [hx]))
    exact ⟨y :: ys, by simp [mapE, hy, hys]⟩

theorem mapE_mem {α β : Type} (f : α → Except PyErr β) (l : List α) (ys : List β) (h : mapE f l = .ok ys) :
    ∀ y ∈ ys, ∃ x ∈ l, f x = .ok y := by
  induction l generalizing ys with
  | nil => simp [mapE] at h; subst h; simp
  | cons a t ih =>
    simp only [mapE] at h
    cases ha : f a with
    | error e => simp [ha] at h
    | ok b =>
      simp only [ha] at h
      cases ht : mapE f t with
      | error e => simp [ht] at h
      | ok bs =>
        simp only [ht, Except.ok.injEq] at h
        subst h
        intro y hy
        rcases List.mem_cons.1 hy with h1 | h1
        · subst h1; exact ⟨a, by simp, ha⟩
        · obtain ⟨x, hx, hfx⟩ := ih bs ht y h1
          exact ⟨x, by simp [hx], hfx⟩

theorem emPairOf_shape (lo hi : Int) (v p : Item) (h : emPairOf lo hi v = .ok p) :
    ∃ a b, p = .tuple [.int a, .int b] := by
  unfold emPairOf at h
  have fb : ∀ q, (match pyInt v with
      | .ok n => (.ok (.tuple [.int (clampI lo hi n), .int lo]) : Except PyErr Item)
      | .error e => .error e) = .ok q → ∃ a b, q = .tuple [.int a, .int b] := by
    intro q hq
    cases hp : pyInt v with
    | error e => simp [hp] at hq
    | ok n => simp [hp] at hq; exact ⟨_, _, hq.symm⟩
  (repeat' split at h) <;> first
    | exact fb p h
    | (simp at h; exact ⟨_, _, h.symm⟩)
    | simp at h

theorem emPairStr_ok (a b : Int) : ∃ y, emPairStr (.tuple [.int a, .int b]) = .ok y := by
  simp only [emPairStr, unpack2]
  by_cases h : (Prim.int b).truthy
  · simp [h, fmtD]
  · simp [h]

theorem emDecode_encode (t : Text) (h : t.all (fun c => decide (Utf8.Scalar c)) = true) :
    emDecode (.prim (.bytes (Utf8.encode t))) = .ok (.prim (.str t)) := by
  have hs : ∀ c ∈ t, Utf8.Scalar c := by
    intro c hc
    have := List.all_eq_true.1 h c hc
    simpa using this
  simp [emDecode, Utf8.decode_encode t hs]

theorem emRead_conv (kd : EMKind) (v nv : PVal) (h : emConv kd v = .ok nv) : ∃ vv, emRead kd nv = .ok vv := by
  cases kd with
  | text => exact ⟨nv, rfl⟩
  | int lo hi =>
    simp only [emConv] at h
    cases hi' : iterVal v with
    | error e => simp [hi'] at h
    | ok items =>
      simp only [hi'] at h
      cases hm : mapE pyInt items with
      | error e => simp [hm, Except.map] at h
      | ok ns =>
        simp only [hm, Except.map, Except.ok.injEq] at h
        subst h
        obtain ⟨ys, hys⟩ := mapE_ok_of_forall emStrOf (ns.map (fun n => Item.prim (.int (clampI lo hi n))))
          (fun x hx => by
            obtain ⟨n, _, rfl⟩ := List.mem_map.1 hx
            exact ⟨_, rfl⟩)
        exact ⟨.list ys, by simp [emRead, iterVal, hys, Except.map]⟩
  | pair lo hi =>
    simp only [emConv] at h
    cases hi' : iterVal v with
    | error e => simp [hi'] at h
    | ok items =>
      simp only [hi'] at h
      cases hm : mapE (emPairOf lo hi) items with
      | error e => simp [hm, Except.map] at h
      | ok ps =>
        simp only [hm, Except.map, Except.ok.injEq] at h
        subst h
        obtain ⟨ys, hys⟩ := mapE_ok_of_forall emPairStr ps (fun p hp => by
          obtain ⟨x, _, hx⟩ := mapE_mem _ _ _ hm p hp
          obtain ⟨a, b, rfl⟩ := emPairOf_shape lo hi x p hx
          exact emPairStr_ok a b)
        exact ⟨.list ys, by simp [emRead, iterVal, hys, Except.map]⟩
  | freeform =>
    simp only [emConv] at h
    cases hi' : iterVal v with
    | error e => simp [hi'] at h
    | ok items =>
      simp only [hi'] at h
      cases hm : mapE emEncode items with
      | error e => simp [hm, Except.map] at h
      | ok bs =>
        simp only [hm, Except.map, Except.ok.injEq] at h
        subst h
        obtain ⟨ys, hys⟩ := mapE_ok_of_forall emDecode bs (fun p hp => by
          obtain ⟨x, _, hx⟩ := mapE_mem _ _ _ hm p hp
          cases x with
          | prim q =>
            cases q with
            | str t =>
              simp only [emEncode] at hx
              split at hx
              · rename_i hsc
                simp only [Except.ok.injEq] at hx
                subst hx
                exact ⟨_, emDecode_encode t hsc⟩
              · simp at hx
            | _ => simp [emEncode] at hx
          | _ => simp [emEncode] at hx)
        exact ⟨.list ys, by simp [emRead, iterVal, hys, Except.map]⟩

/-! ### the refinement -/

/-- invariant of the native tags under an `EasyMP4Tags`: the `MP4Tags` invariant, and every
atom a registered key owns holds something its getter can read (true of the empty tags and
kept by everything the view does; a caller writing to the native tags directly can break it) -/
def EasyMp4Inv (s : Mp4) : Prop :=
  Mp4Inv s ∧ ∀ e ∈ easyMp4Registry, ∀ nv, lookup (PKey.str e.atom) s = some nv → ∃ vv, emRead e.kind nv = .ok vv

theorem easyMp4Inv_nil : EasyMp4Inv [] := ⟨mp4Inv_nil, fun e _ nv h => by simp at h⟩

theorem emView_of_inv (s : Mp4) (hs : EasyMp4Inv s) (e : EMEntry) (he : e ∈ easyMp4Registry) :
    (lookup (PKey.str e.atom) s = none ∧ emView s e = none) ∨
    (∃ nv vv, lookup (PKey.str e.atom) s = some nv ∧ emRead e.kind nv = .ok vv ∧ emView s e = some vv) := by
  cases hl : lookup (PKey.str e.atom) s with
  | none => left; simp [emView, hl]
  | some nv =>
    right
    obtain ⟨vv, hvv⟩ := hs.2 e he nv hl
    exact ⟨nv, vv, rfl, hvv, by simp [emView, hl, hvv]⟩

theorem easyGet_reg (s : Mp4) (e : EMEntry) (he : e ∈ easyMp4Registry) :
    easyMp4Get s (.str e.key) = match lookup (PKey.str e.atom) s with
      | none => .error .key
      | some nv => emRead e.kind nv := by
  simp only [easyMp4Get, emEntryOf_reg e he, mp4Impl, mp4Get, PKey.hashable, ↓reduceIte, lookupE]
  cases lookup (PKey.str e.atom) s <;> rfl

theorem mp4Inv_insert (s : Mp4) (k : PKey) (v : PVal) (hs : Mp4Inv s) (hc : mp4Check k v = .ok ()) :
    Mp4Inv (insert k v s) := by
  refine ⟨nodup_insert _ _ _ hs.1, ?_⟩
  intro p hp
  rcases mem_insert_cases _ _ _ _ hp with h | h
  · subst h; exact hc
  · exact hs.2 p h

theorem mp4Inv_erase (s : Mp4) (k : PKey) (hs : Mp4Inv s) : Mp4Inv (erase k s) :=
  ⟨nodup_erase _ _ hs.1, fun p hp => hs.2 p (mem_of_mem_erase _ _ _ hp)⟩

theorem str_ne_of_atom_ne (a b : Text) (h : a ≠ b) : ¬ PKey.str a = PKey.str b := by
  intro e; injection e with e; exact h e

theorem emView_insert (s : Mp4) (e e2 : EMEntry) (he : e ∈ easyMp4Registry) (he2 : e2 ∈ easyMp4Registry)
    (nv vv : PVal) (hr : emRead e.kind nv = .ok vv) :
    emView (insert (PKey.str e.atom) nv s) e2 = if e = e2 then some vv else emView s e2 := by
  unfold emView
  rw [lookup_insert]
  by_cases h : e = e2
  · subst h; simp [hr]
  · have : e.atom ≠ e2.atom := fun ha => h (emReg_atom_inj e e2 he he2 ha)
    simp [h, str_ne_of_atom_ne _ _ this]

theorem emView_erase (s : Mp4) (hn : NodupKeys s) (e e2 : EMEntry) (he : e ∈ easyMp4Registry)
    (he2 : e2 ∈ easyMp4Registry) :
    emView (erase (PKey.str e.atom) s) e2 = if e = e2 then none else emView s e2 := by
  unfold emView
  rw [lookup_erase _ _ _ hn]
  by_cases h : e = e2
  · subst h; simp
  · have : e.atom ≠ e2.atom := fun ha => h (emReg_atom_inj e e2 he he2 ha)
    simp [h, str_ne_of_atom_ne _ _ this]

/-- lookups in the view after the owned atom of `e` changed so that `e` now shows `nw` -/
theorem abs_after (s s' : Mp4) (e : EMEntry) (he : e ∈ easyMp4Registry) (nw : Option PVal)
    (hv : ∀ e2 ∈ easyMp4Registry, emView s' e2 = if e = e2 then nw else emView s e2) (k2 : PKey) :
    lookup k2 (easyMp4Abs s') = if PKey.str e.key = k2 then nw else lookup k2 (easyMp4Abs s) := by
  cases k2 with
  | str t =>
    rw [abs_lookup_str, abs_lookup_str]
    cases hf : emFind t with
    | none =>
      have : ¬ PKey.str e.key = PKey.str t := by
        intro h; injection h with h
        rw [← h, emFind_of_mem e he] at hf; cases hf
      simp [this]
    | some e2 =>
      obtain ⟨he2, hk2⟩ := emFind_some t e2 hf
      simp only [Option.bind_some, hv e2 he2]
      by_cases h : e = e2
      · subst h; simp [hk2]
      · have : ¬ PKey.str e.key = PKey.str t := by
          intro hh; injection hh with hh
          apply h
          have h1 := emFind_of_mem e he
          rw [hh, hf] at h1
          exact (Option.some.inj h1).symm
        simp [h, this]
  | _ => rw [abs_lookup_nonstr _ _ (by intro t h; cases h), abs_lookup_nonstr _ _ (by intro t h; cases h)]; simp

theorem easymp4_refines_aux : KRefines easyMp4Impl easyMp4Policy EasyMp4Inv easyMp4Abs where
  nodup := fun s _ => abs_nodup s
  keys := fun s hs => by
    simp only [easyMp4Impl, easyMp4Keys, easyMp4Abs, abs_keysOf_aux, List.map_map]
    have hfilter : easyMp4Registry.filter (emPresent s) = easyMp4Registry.filter (fun e => (emView s e).isSome) := by
      apply List.filter_congr
      intro e he
      unfold emPresent
      rw [easyGet_reg s e he]
      rcases emView_of_inv s hs e he with ⟨h1, h2⟩ | ⟨nv, vv, h1, h2, h3⟩
      · simp [h1, h2]
      · simp [h1, h2, h3]
    rw [hfilter]
    apply List.map_congr_left
    intro e he
    have he' := (List.mem_filter.1 he).1
    simp [easyMp4Policy, emEntryOf_reg e he']
  get := fun s k hs => by
    simp only [easyMp4Impl, Ref.get, KPolicy.keys, easyMp4Policy]
    cases he : emEntryOf k with
    | none => simp [easyMp4Get, he]
    | some e =>
      have hreg := emEntryOf_some k e he
      simp only [easyMp4Get, he, mp4Impl, mp4Get, PKey.hashable, ↓reduceIte, lookupE, abs_lookup_str,
        emFind_of_mem e hreg, Option.bind_some]
      rcases emView_of_inv s hs e hreg with ⟨h1, h2⟩ | ⟨nv, vv, h1, h2, h3⟩
      · simp [h1, h2]
      · simp [h1, h2, h3]
  set := fun s k v hs => by
    simp only [easyMp4Impl, easyMp4Set, KRef.set, easyMp4Policy]
    cases he : emEntryOf k with
    | none => simp [SimStep]
    | some e =>
      have hreg := emEntryOf_some k e he
      simp only
      cases hc : emConv e.kind (emWrapStr v) with
      | error err => simp [SimStep]
      | ok nv =>
        simp only [mp4Impl, mp4Set]
        cases hk : mp4Check (.str e.atom) nv with
        | error err => simp [SimStep]
        | ok u =>
          cases u
          obtain ⟨vv, hvv⟩ := emRead_conv e.kind _ nv hc
          simp only [hvv, SimStep]
          refine ⟨⟨mp4Inv_insert s _ nv hs.1 hk, ?_⟩, ?_⟩
          · intro e2 he2 nv2 hl
            rw [lookup_insert] at hl
            by_cases h : e.atom = e2.atom
            · have := emReg_atom_inj e e2 hreg he2 h
              subst this
              simp at hl; subst hl; exact ⟨vv, hvv⟩
            · simp [str_ne_of_atom_ne _ _ h] at hl
              exact hs.2 e2 he2 nv2 hl
          · intro k2
            rw [lookup_insert]
            exact abs_after s _ e hreg (some vv) (fun e2 he2 => emView_insert s e e2 hreg he2 nv vv hvv) k2
  del := fun s k hs => by
    simp only [easyMp4Impl, easyMp4Del, Ref.del, KPolicy.keys, easyMp4Policy]
    cases he : emEntryOf k with
    | none => simp [SimStep]
    | some e =>
      have hreg := emEntryOf_some k e he
      simp only [mp4Impl, mp4Del, PKey.hashable, ↓reduceIte, abs_lookup_str, emFind_of_mem e hreg, Option.bind_some]
      rcases emView_of_inv s hs e hreg with ⟨h1, h2⟩ | ⟨nv, vv, h1, h2, h3⟩
      · simp [h1, h2, SimStep]
      · simp only [h1, h3, SimStep]
        refine ⟨⟨mp4Inv_erase s _ hs.1, ?_⟩, ?_⟩
        · intro e2 he2 nv2 hl
          rw [lookup_erase _ _ _ hs.1.1] at hl
          by_cases h : e.atom = e2.atom
          · simp [h] at hl
          · simp [str_ne_of_atom_ne _ _ h] at hl
            exact hs.2 e2 he2 nv2 hl
        · intro k2
          rw [lookup_erase _ _ _ (abs_nodup s)]
          exact abs_after s _ e hreg none (fun e2 he2 => emView_erase s hs.1.1 e e2 hreg he2) k2

/-! ### what the primitives preserve, every operation preserves -/

section preserve
variable {S K V : Type} (m : MapImpl S K V) (Q : S → Prop)
  (hset : ∀ s k v s', m.setitem s k v = .ok s' → Q s → Q s')
  (hdel : ∀ s k s', m.delitem s k = .ok s' → Q s → Q s')
include hset hdel

theorem delAll_preserves (ks : List K) : ∀ s, Q s → Q (m.delAll ks s).2 := by
  induction ks with
  | nil => intro s h; exact h
  | cons k t ih =>
    intro s h
    simp only [MapImpl.delAll]
    cases hd : m.delitem s k with
    | error e => exact h
    | ok s' => exact ih s' (hdel s k s' hd h)

theorem pop_preserves (s : S) (k : K) (d : Option V) (h : Q s) : Q (m.pop s k d).2 := by
  simp only [MapImpl.pop]
  cases m.getitem s k with
  | ok v =>
    cases hd : m.delitem s k with
    | error e => exact h
    | ok s' => exact hdel s k s' hd h
  | error e =>
    by_cases he : e = .key
    · cases d <;> simp [he] <;> exact h
    · simp [he]; exact h

theorem update_preserves (l : List (K × V)) : ∀ s, Q s → Q (m.update l s).2 := by
  induction l with
  | nil => intro s h; exact h
  | cons p t ih =>
    obtain ⟨k, v⟩ := p
    intro s h
    simp only [MapImpl.update]
    cases hs : m.setitem s k v with
    | error e => exact h
    | ok s' => exact ih s' (hset s k v s' hs h)

theorem step_preserves (s : S) (op : Op K V) (h : Q s) : Q (m.step s op).2 := by
  cases op with
  | set k v =>
    simp only [MapImpl.step]
    cases hs : m.setitem s k v with
    | error e => exact h
    | ok s' => exact hset s k v s' hs h
  | del k =>
    simp only [MapImpl.step]
    cases hd : m.delitem s k with
    | error e => exact h
    | ok s' => exact hdel s k s' hd h
  | clear => exact delAll_preserves m Q hset hdel _ s h
  | pop k => exact pop_preserves m Q hset hdel s k none h
  | popD k d => exact pop_preserves m Q hset hdel s k (some d) h
  | popitem =>
    simp only [MapImpl.step, MapImpl.popitem]
    cases m.keys s with
    | nil => exact h
    | cons k t =>
      have := pop_preserves m Q hset hdel s k none h
      cases hp : (m.pop s k none).1 <;> simp [hp] <;> exact this
  | update l => exact update_preserves m Q hset hdel l s h
  | setdefault k d =>
    simp only [MapImpl.step, MapImpl.setdefault]
    cases m.getitem s k with
    | ok v => exact h
    | error e =>
      by_cases he : e = .key
      · simp only [he, ↓reduceIte]
        cases hs : m.setitem s k d with
        | error e => exact h
        | ok s' => exact hset s k d s' hs h
      · simp only [he, ↓reduceIte]; exact h
  | get k => exact h
  | contains k => exact h
  | keys => exact h
  | values => exact h
  | items => exact h
  | len => exact h
  | getD k d => exact h

theorem exec_preserves (ops : List (Op K V)) : ∀ s, Q s → Q (m.exec ops s) := by
  induction ops with
  | nil => intro s h; exact h
  | cons op t ih => intro s h; exact ih _ (step_preserves m Q hset hdel s op h)

end preserve

theorem lookup_erase_ne {K V : Type} [DecidableEq K] (k k2 : K) (r : RefDict K V) (h : k ≠ k2) :
    lookup k2 (erase k r) = lookup k2 r := by
  induction r with
  | nil => rfl
  | cons p t ih =>
    obtain ⟨k', v'⟩ := p
    by_cases h1 : k' = k
    · subst h1; simp [erase, h]
    · simp [erase, h1, ih]

/-! ### the native side of the view's primitives -/

theorem easySet_native (s s' : Mp4) (k : PKey) (v : PVal) (h : easyMp4Impl.setitem s k v = .ok s') :
    ∃ e nv, emEntryOf k = some e ∧ emConv e.kind (emWrapStr v) = .ok nv ∧ mp4Check (.str e.atom) nv = .ok () ∧
      s' = insert (PKey.str e.atom) nv s := by
  simp only [easyMp4Impl, easyMp4Set] at h
  cases he : emEntryOf k with
  | none => simp [he] at h
  | some e =>
    simp only [he] at h
    cases hc : emConv e.kind (emWrapStr v) with
    | error err => simp [hc] at h
    | ok nv =>
      simp only [hc, mp4Impl, mp4Set] at h
      cases hk : mp4Check (.str e.atom) nv with
      | error err => simp [hk] at h
      | ok u =>
        simp only [hk, Except.ok.injEq] at h
        exact ⟨e, nv, rfl, hc, hk, h.symm⟩

theorem easyDel_native (s s' : Mp4) (k : PKey) (h : easyMp4Impl.delitem s k = .ok s') :
    ∃ e, emEntryOf k = some e ∧ s' = erase (PKey.str e.atom) s := by
  simp only [easyMp4Impl, easyMp4Del] at h
  cases he : emEntryOf k with
  | none => simp [he] at h
  | some e =>
    simp only [he, mp4Impl, mp4Del, PKey.hashable, ↓reduceIte] at h
    cases hl : lookup (PKey.str e.atom) s with
    | none => simp [hl] at h
    | some nv =>
      simp only [hl, Except.ok.injEq] at h
      exact ⟨e, rfl, h.symm⟩

theorem mem_easyMp4Atoms (e : EMEntry) (h : e ∈ easyMp4Registry) : PKey.str e.atom ∈ easyMp4Atoms :=
  List.mem_map_of_mem (f := fun e => PKey.str e.atom) h

theorem easy_foreign_untouched (ops : List (Op PKey PVal)) (s : Mp4) (a : PKey) (ha : a ∉ easyMp4Atoms) :
    lookup a (easyMp4Impl.exec ops s) = lookup a s := by
  apply exec_preserves easyMp4Impl (fun s' => lookup a s' = lookup a s)
  · intro s0 k v s' hset hq
    obtain ⟨e, nv, he, _, _, rfl⟩ := easySet_native s0 s' k v hset
    have hne : PKey.str e.atom ≠ a := fun h => ha (h ▸ mem_easyMp4Atoms e (emEntryOf_some k e he))
    rw [lookup_insert]; simp [hne, hq]
  · intro s0 k s' hdel hq
    obtain ⟨e, he, rfl⟩ := easyDel_native s0 s' k hdel
    have hne : PKey.str e.atom ≠ a := fun h => ha (h ▸ mem_easyMp4Atoms e (emEntryOf_some k e he))
    rw [lookup_erase_ne _ _ _ hne]; exact hq
  · rfl

theorem easyKeysE_of_inv (s : Mp4) (hs : EasyMp4Inv s) : easyMp4KeysE s = .ok (easyMp4Keys s) := by
  unfold easyMp4KeysE
  have : easyMp4Registry.findSome? (emOtherErr s) = none := by
    rw [List.findSome?_eq_none_iff]
    intro e he
    unfold emOtherErr
    rw [easyGet_reg s e he]
    rcases emView_of_inv s hs e he with ⟨h1, _⟩ | ⟨nv, vv, h1, h2, _⟩
    · simp [h1]
    · simp [h1, h2]
  rw [this]

end Mutagen.Dict
