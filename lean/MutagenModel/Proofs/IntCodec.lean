/- Proofs/IntCodec.lean — round trips of the fixed-width integer codecs -/
import MutagenModel.Model.IntCodec
namespace Mutagen

theorem ofLE_toLE (w n : Nat) (h : n < 256 ^ w) : ofLE (toLE w n) = n := by
  induction w generalizing n with
  | zero => simp at h; simp [toLE, ofLE, h]
  | succ w ih =>
    have h' : n / 256 < 256 ^ w := by
      rw [Nat.div_lt_iff_lt_mul (by decide)]; rw [Nat.pow_succ] at h; exact h
    simp only [toLE, ofLE, ih _ h']
    have : (UInt8.ofNat (n % 256)).toNat = n % 256 := by simp [UInt8.toNat_ofNat']
    rw [this]; omega

@[simp] theorem length_toLE (w n : Nat) : (toLE w n).length = w := by
  induction w generalizing n with
  | zero => rfl
  | succ w ih => simp [toLE, ih]

theorem ofBE_toBE (w n : Nat) (h : n < 256 ^ w) : ofBE (toBE w n) = n := by
  simp [ofBE, toBE, ofLE_toLE w n h]

@[simp] theorem length_toBE (w n : Nat) : (toBE w n).length = w := by simp [toBE]

theorem toLE_ofLE (b : Bytes) : toLE b.length (ofLE b) = b := by
  induction b with
  | nil => rfl
  | cons x r ih =>
    simp only [List.length_cons, toLE, ofLE]
    have hx := x.toNat_lt
    have h1 : (x.toNat + 256 * ofLE r) % 256 = x.toNat := by omega
    have h2 : (x.toNat + 256 * ofLE r) / 256 = ofLE r := by omega
    rw [h1, h2, ih]; simp

theorem toBE_ofBE (b : Bytes) : toBE b.length (ofBE b) = b := by
  have := toLE_ofLE b.reverse
  simp only [List.length_reverse] at this
  simp [toBE, ofBE, this]

theorem ofLE_lt (b : Bytes) : ofLE b < 256 ^ b.length := by
  induction b with
  | nil => simp [ofLE]
  | cons x r ih =>
    simp only [ofLE, List.length_cons, Nat.pow_succ]
    have := x.toNat_lt
    omega

end Mutagen
