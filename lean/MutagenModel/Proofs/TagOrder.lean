/- Proofs/TagOrder.lean — sorting by a total antisymmetric key makes the output a function of the set -/
import MutagenModel.Model.TagOrder
set_option linter.unusedVariables false
namespace Mutagen.TagOrder
open Mutagen

theorem lexLe_total : ∀ a b : List Nat, lexLe a b || lexLe b a
  | [], _ => by simp [lexLe]
  | _ :: _, [] => by simp [lexLe]
  | a :: as, b :: bs => by
    have ih := lexLe_total as bs
    simp only [lexLe, Bool.or_eq_true, Bool.and_eq_true, decide_eq_true_eq] at ih ⊢
    by_cases h1 : a < b
    · exact Or.inl (Or.inl h1)
    · by_cases h2 : b < a
      · exact Or.inr (Or.inl h2)
      · have : a = b := by omega
        rcases ih with h | h
        · exact Or.inl (Or.inr ⟨this, h⟩)
        · exact Or.inr (Or.inr ⟨this.symm, h⟩)

theorem lexLe_trans : ∀ a b c : List Nat, lexLe a b → lexLe b c → lexLe a c
  | [], _, _ => by simp [lexLe]
  | _ :: _, [], _ => by simp [lexLe]
  | _ :: _, _ :: _, [] => by simp [lexLe]
  | a :: as, b :: bs, c :: cs => by
    have ih := lexLe_trans as bs cs
    simp only [lexLe, Bool.or_eq_true, Bool.and_eq_true, decide_eq_true_eq]
    intro h1 h2
    rcases h1 with h1 | ⟨e1, h1⟩ <;> rcases h2 with h2 | ⟨e2, h2⟩
    · exact Or.inl (by omega)
    · exact Or.inl (by omega)
    · exact Or.inl (by omega)
    · exact Or.inr ⟨by omega, ih h1 h2⟩

theorem lexLe_antisymm : ∀ a b : List Nat, lexLe a b → lexLe b a → a = b
  | [], [] => by simp
  | [], _ :: _ => by simp [lexLe]
  | _ :: _, [] => by simp [lexLe]
  | a :: as, b :: bs => by
    have ih := lexLe_antisymm as bs
    simp only [lexLe, Bool.or_eq_true, Bool.and_eq_true, decide_eq_true_eq]
    intro h1 h2
    rcases h1 with h1 | ⟨e1, h1⟩ <;> rcases h2 with h2 | ⟨e2, h2⟩
    · omega
    · omega
    · omega
    · rw [e1, ih h1 h2]

theorem bytesNat_inj (a b : Bytes) (h : bytesNat a = bytesNat b) : a = b := by
  induction a generalizing b with
  | nil => cases b <;> simp_all [bytesNat]
  | cons x xs ih =>
    cases b with
    | nil => simp [bytesNat] at h
    | cons y ys =>
      simp only [bytesNat, List.map_cons, List.cons.injEq] at h
      rw [UInt8.toNat_inj.mp h.1, ih ys h.2]

theorem apeLe_total (a b : Bytes) : apeLe a b || apeLe b a := by
  have := lexLe_total (bytesNat a) (bytesNat b)
  simp only [apeLe, Bool.or_eq_true, Bool.and_eq_true, decide_eq_true_eq] at this ⊢
  by_cases h1 : a.length < b.length
  · exact Or.inl (Or.inl h1)
  · by_cases h2 : b.length < a.length
    · exact Or.inr (Or.inl h2)
    · have e : a.length = b.length := by omega
      rcases this with h | h
      · exact Or.inl (Or.inr ⟨e, h⟩)
      · exact Or.inr (Or.inr ⟨e.symm, h⟩)

theorem apeLe_trans (a b c : Bytes) : apeLe a b → apeLe b c → apeLe a c := by
  simp only [apeLe, Bool.or_eq_true, Bool.and_eq_true, decide_eq_true_eq]
  intro h1 h2
  rcases h1 with h1 | ⟨e1, h1⟩ <;> rcases h2 with h2 | ⟨e2, h2⟩
  · exact Or.inl (by omega)
  · exact Or.inl (by omega)
  · exact Or.inl (by omega)
  · exact Or.inr ⟨by omega, lexLe_trans _ _ _ h1 h2⟩

theorem apeLe_antisymm (a b : Bytes) : apeLe a b → apeLe b a → a = b := by
  simp only [apeLe, Bool.or_eq_true, Bool.and_eq_true, decide_eq_true_eq]
  intro h1 h2
  rcases h1 with h1 | ⟨e1, h1⟩ <;> rcases h2 with h2 | ⟨e2, h2⟩
  · omega
  · omega
  · omega
  · exact bytesNat_inj _ _ (lexLe_antisymm _ _ h1 h2)

/-- generic: a total, transitive order that is antisymmetric on the elements present sorts every
permutation of a list to the same list -/
theorem mergeSort_perm_eq {α : Type} (le : α → α → Bool) (l₁ l₂ : List α)
    (trans : ∀ a b c : α, le a b → le b c → le a c) (total : ∀ a b : α, le a b || le b a)
    (anti : ∀ a b, a ∈ l₁ → b ∈ l₁ → le a b → le b a → a = b) (h : l₁.Perm l₂) :
    l₁.mergeSort le = l₂.mergeSort le := by
  have p1 := List.mergeSort_perm l₁ le
  have p2 := List.mergeSort_perm l₂ le
  refine List.Perm.eq_of_pairwise (le := fun a b => le a b = true) ?_ (List.pairwise_mergeSort trans total l₁)
    (List.pairwise_mergeSort trans total l₂) (p1.trans (h.trans p2.symm))
  intro a b ha hb hab hba
  exact anti a b (p1.subset ha) (h.symm.subset (p2.subset hb)) hab hba

theorem frameLe_total (a b : Frame) : frameLe a b || frameLe b a := by
  have := lexLe_total a.hashKey b.hashKey
  simp only [frameLe, Bool.or_eq_true, Bool.and_eq_true, decide_eq_true_eq] at this ⊢
  by_cases h1 : a.prio < b.prio
  · exact Or.inl (Or.inl h1)
  by_cases h2 : b.prio < a.prio
  · exact Or.inr (Or.inl h2)
  have e : a.prio = b.prio := by omega
  by_cases h3 : a.data.length < b.data.length
  · exact Or.inl (Or.inr ⟨e, Or.inl h3⟩)
  by_cases h4 : b.data.length < a.data.length
  · exact Or.inr (Or.inr ⟨e.symm, Or.inl h4⟩)
  have e' : a.data.length = b.data.length := by omega
  rcases this with h | h
  · exact Or.inl (Or.inr ⟨e, Or.inr ⟨e', h⟩⟩)
  · exact Or.inr (Or.inr ⟨e.symm, Or.inr ⟨e'.symm, h⟩⟩)

theorem frameLe_trans (a b c : Frame) : frameLe a b → frameLe b c → frameLe a c := by
  simp only [frameLe, Bool.or_eq_true, Bool.and_eq_true, decide_eq_true_eq]
  intro h1 h2
  rcases h1 with h1 | ⟨e1, h1⟩ <;> rcases h2 with h2 | ⟨e2, h2⟩
  · exact Or.inl (by omega)
  · exact Or.inl (by omega)
  · exact Or.inl (by omega)
  · refine Or.inr ⟨by omega, ?_⟩
    rcases h1 with h1 | ⟨f1, h1⟩ <;> rcases h2 with h2 | ⟨f2, h2⟩
    · exact Or.inl (by omega)
    · exact Or.inl (by omega)
    · exact Or.inl (by omega)
    · exact Or.inr ⟨by omega, lexLe_trans _ _ _ h1 h2⟩

/-- equal sort keys mean equal hash keys -/
theorem frameLe_antisymm_key (a b : Frame) : frameLe a b → frameLe b a → a.hashKey = b.hashKey := by
  simp only [frameLe, Bool.or_eq_true, Bool.and_eq_true, decide_eq_true_eq]
  intro h1 h2
  rcases h1 with h1 | ⟨e1, h1⟩ <;> rcases h2 with h2 | ⟨e2, h2⟩
  · omega
  · omega
  · omega
  · rcases h1 with h1 | ⟨f1, h1⟩ <;> rcases h2 with h2 | ⟨f2, h2⟩
    · omega
    · omega
    · omega
    · exact lexLe_antisymm _ _ h1 h2

end Mutagen.TagOrder
