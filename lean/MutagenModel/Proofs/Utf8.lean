/- Proofs/Utf8.lean — strict UTF-8 round trip -/
import MutagenModel.Model.Utf8
set_option linter.unusedVariables false
namespace Mutagen.Utf8
open Mutagen

theorem toNat_b (n : Nat) (h : n < 256) : (b n).toNat = n := by
  simp [b, UInt8.toNat_ofNat', Nat.mod_eq_of_lt h]

theorem utf8Dec1_enc1 (c : Nat) (hc : Scalar c) (rest : Bytes) :
    utf8Dec1 (utf8Enc1 c ++ rest) = some (c, rest) := by
  obtain ⟨h1, h2⟩ := hc
  unfold utf8Enc1
  split
  · rename_i h
    simp [utf8Dec1, toNat_b c (by omega), h]
  · split
    · rename_i h0 h
      have e1 := toNat_b (0xC0 + c / 64) (by omega)
      have e2 := toNat_b (0x80 + c % 64) (by omega)
      simp only [List.cons_append, List.nil_append, utf8Dec1, isCont, e1, e2]
      have : ¬ (0xC0 + c / 64 < 0x80) := by omega
      have : ¬ (0xC0 + c / 64 < 0xC2) := by omega
      have : (0xC0 + c / 64 < 0xE0) := by omega
      simp [*]
      omega
    · split
      · rename_i h0 h00 h
        have e1 := toNat_b (0xE0 + c / 4096) (by omega)
        have e2 := toNat_b (0x80 + c / 64 % 64) (by omega)
        have e3 := toNat_b (0x80 + c % 64) (by omega)
        simp only [List.cons_append, List.nil_append, utf8Dec1, isCont, e1, e2, e3]
        have : ¬ (0xE0 + c / 4096 < 0x80) := by omega
        have : ¬ (0xE0 + c / 4096 < 0xC2) := by omega
        have : ¬ (0xE0 + c / 4096 < 0xE0) := by omega
        have : (0xE0 + c / 4096 < 0xF0) := by omega
        have hv : (0xE0 + c / 4096 - 0xE0) * 4096 + (0x80 + c / 64 % 64 - 0x80) * 64 + (0x80 + c % 64 - 0x80) = c := by omega
        simp [*]
        omega
      · rename_i h0 h00 h
        have e1 := toNat_b (0xF0 + c / 262144) (by omega)
        have e2 := toNat_b (0x80 + c / 4096 % 64) (by omega)
        have e3 := toNat_b (0x80 + c / 64 % 64) (by omega)
        have e4 := toNat_b (0x80 + c % 64) (by omega)
        simp only [List.cons_append, List.nil_append, utf8Dec1, isCont, e1, e2, e3, e4]
        have : ¬ (0xF0 + c / 262144 < 0x80) := by omega
        have : ¬ (0xF0 + c / 262144 < 0xC2) := by omega
        have : ¬ (0xF0 + c / 262144 < 0xE0) := by omega
        have : ¬ (0xF0 + c / 262144 < 0xF0) := by omega
        have : (0xF0 + c / 262144 < 0xF5) := by omega
        have hv : (0xF0 + c / 262144 - 0xF0) * 262144 + (0x80 + c / 4096 % 64 - 0x80) * 4096 + (0x80 + c / 64 % 64 - 0x80) * 64 + (0x80 + c % 64 - 0x80) = c := by omega
        simp [*]
        omega

theorem utf8Enc1_ne_nil (c : Nat) : utf8Enc1 c ≠ [] := by
  unfold utf8Enc1; split <;> (try split) <;> (try split) <;> simp

theorem length_encode_ge (cs : List Nat) : cs.length ≤ (encode cs).length := by
  induction cs with
  | nil => simp [encode]
  | cons c r ih =>
    simp only [encode, List.map_cons, List.flatten_cons, List.length_append, List.length_cons] at ih ⊢
    have : 1 ≤ (utf8Enc1 c).length := by
      cases h : utf8Enc1 c with
      | nil => exact absurd h (utf8Enc1_ne_nil c)
      | cons a b => simp
    omega

theorem decodeFuel_encode (cs : List Nat) (h : ∀ c ∈ cs, Scalar c) (fuel : Nat) (hf : cs.length ≤ fuel) :
    decodeFuel fuel (encode cs) = some cs := by
  induction cs generalizing fuel with
  | nil => cases fuel <;> simp [encode, decodeFuel]
  | cons c r ih =>
    cases fuel with
    | zero => simp at hf
    | succ n =>
      have hc := h c (List.mem_cons_self)
      have hr : ∀ x ∈ r, Scalar x := fun x hx => h x (List.mem_cons_of_mem _ hx)
      have e : encode (c :: r) = utf8Enc1 c ++ encode r := by simp [encode]
      rw [e]
      cases hne : utf8Enc1 c ++ encode r with
      | nil =>
        have := utf8Enc1_ne_nil c
        simp at hne; exact absurd hne.1 this
      | cons a b =>
        simp only [decodeFuel]
        rw [← hne, utf8Dec1_enc1 c hc (encode r)]
        simp only [ih hr n (by simp at hf; omega), Option.map_some]

/-- every list of Unicode scalar values survives UTF-8 encoding and strict decoding -/
theorem decode_encode (cs : List Nat) (h : ∀ c ∈ cs, Scalar c) : decode (encode cs) = some cs :=
  decodeFuel_encode cs h _ (length_encode_ge cs)

end Mutagen.Utf8
