/- Proofs/Bits.lean — round trips of the bit-level packing -/
import MutagenModel.Model.Bits
set_option linter.unusedVariables false
namespace Mutagen

@[simp] theorem length_natToBits (w v : Nat) : (natToBits w v).length = w := by
  induction w with
  | zero => rfl
  | succ w ih => simp [natToBits, ih]

theorem bitsToNatAux_eq (acc : Nat) (bs : List Bool) :
    bitsToNatAux acc bs = acc * 2 ^ bs.length + bitsToNatAux 0 bs := by
  induction bs generalizing acc with
  | nil => simp [bitsToNatAux]
  | cons b bs ih =>
    simp only [bitsToNatAux, List.length_cons]
    rw [ih (2 * acc + _), ih (2 * 0 + _)]
    simp only [Nat.pow_succ, Nat.mul_zero, Nat.zero_add]
    generalize 2 ^ bs.length = p
    generalize bitsToNatAux 0 bs = r
    cases b
    · simp only [Bool.false_eq_true, ↓reduceIte, Nat.add_zero, Nat.zero_mul, Nat.zero_add]
      rw [Nat.mul_comm 2 acc, Nat.mul_assoc, Nat.mul_comm 2 p]
    · simp only [↓reduceIte, Nat.add_mul, Nat.one_mul]
      rw [Nat.mul_comm 2 acc, Nat.mul_assoc, Nat.mul_comm 2 p]; omega

theorem bitsToNat_cons (b : Bool) (bs : List Bool) :
    bitsToNat (b :: bs) = (if b then 1 else 0) * 2 ^ bs.length + bitsToNat bs := by
  simp only [bitsToNat, bitsToNatAux]
  rw [bitsToNatAux_eq]; simp

theorem bitsToNat_natToBits_mod (w v : Nat) : bitsToNat (natToBits w v) = v % 2 ^ w := by
  induction w with
  | zero => simp [natToBits, bitsToNat, bitsToNatAux, Nat.mod_one]
  | succ w ih =>
    simp only [natToBits, bitsToNat_cons, length_natToBits, ih]
    have hp : 0 < 2 ^ w := Nat.pow_pos (by decide)
    have h1 : v % 2 ^ (w + 1) = v % 2 ^ w + 2 ^ w * (v / 2 ^ w % 2) := by
      rw [Nat.pow_succ, Nat.mod_mul]
    rw [h1]
    have h2 : v / 2 ^ w % 2 < 2 := Nat.mod_lt _ (by decide)
    by_cases hb : v / 2 ^ w % 2 = 1
    · simp [hb]; omega
    · have : v / 2 ^ w % 2 = 0 := by omega
      simp [this]

theorem bitsToNat_natToBits (w v : Nat) (h : v < 2 ^ w) : bitsToNat (natToBits w v) = v := by
  rw [bitsToNat_natToBits_mod, Nat.mod_eq_of_lt h]

theorem readBits_natToBits (w v : Nat) (h : v < 2 ^ w) (rest : List Bool) :
    readBits w (natToBits w v ++ rest) = some (v, rest) := by
  simp [readBits, bitsToNat_natToBits w v h]

/-- reading back the fields of a packed bit string (followed by anything) -/
theorem readFields_pack (fs : List (Nat × Nat)) (h : ∀ f ∈ fs, f.2 < 2 ^ f.1) (rest : List Bool) :
    readFields (fs.map (·.1)) (packFields fs ++ rest) = some (fs.map (·.2), rest) := by
  induction fs with
  | nil => simp [readFields, packFields]
  | cons f fs ih =>
    obtain ⟨w, v⟩ := f
    have hv : v < 2 ^ w := h (w, v) (List.mem_cons_self)
    have ih' := ih (fun g hg => h g (List.mem_cons_of_mem _ hg))
    simp only [packFields, List.flatMap_cons, List.append_assoc, List.map_cons, readFields]
    rw [readBits_natToBits w v hv]
    simp only [packFields] at ih'
    simp only [ih']

end Mutagen

namespace Mutagen

theorem bitsToNat_lt (bs : List Bool) : bitsToNat bs < 2 ^ bs.length := by
  induction bs with
  | nil => simp [bitsToNat, bitsToNatAux]
  | cons b bs ih =>
    rw [bitsToNat_cons, List.length_cons, Nat.pow_succ]
    cases b <;> simp <;> omega

/-- `natToBits w` only looks at `v mod 2^(w+k)` -/
theorem natToBits_mod (w k v : Nat) : natToBits w (v % 2 ^ (w + k)) = natToBits w v := by
  induction w generalizing k with
  | zero => rfl
  | succ w ih =>
    simp only [natToBits]
    congr 1
    · have : 2 ^ (w + 1 + k) = 2 ^ w * 2 ^ (k + 1) := by rw [← Nat.pow_add]; congr 1; omega
      rw [this, Nat.mod_mul_right_div_self]
      have hd : 2 ∣ 2 ^ (k + 1) := ⟨2 ^ k, by rw [Nat.pow_succ, Nat.mul_comm]⟩
      rw [Nat.mod_mod_of_dvd _ hd]
    · have : w + 1 + k = w + (k + 1) := by omega
      rw [this]; exact ih (k + 1)

theorem natToBits_bitsToNat (bs : List Bool) : natToBits bs.length (bitsToNat bs) = bs := by
  induction bs with
  | nil => rfl
  | cons b bs ih =>
    simp only [List.length_cons, natToBits, bitsToNat_cons]
    have hlt := bitsToNat_lt bs
    have hp : 0 < 2 ^ bs.length := Nat.pow_pos (by decide)
    congr 1
    · cases b
      · simp [Nat.div_eq_of_lt hlt]
      · simp only [↓reduceIte, Nat.one_mul]
        rw [Nat.add_div_left _ hp, Nat.div_eq_of_lt hlt]
        decide
    · have := natToBits_mod bs.length 0 ((if b = true then 1 else 0) * 2 ^ bs.length + bitsToNat bs)
      rw [← this, Nat.add_zero]
      cases b
      · simp [Nat.mod_eq_of_lt hlt, ih]
      · simp only [↓reduceIte, Nat.one_mul, Nat.add_mod_left, Nat.mod_eq_of_lt hlt, ih]

theorem bytesToBits_cons (x : UInt8) (r : Bytes) :
    bytesToBits (x :: r) = natToBits 8 x.toNat ++ bytesToBits r := by
  simp [bytesToBits]

/-- bits → bytes → bits is the identity on whole bytes -/
theorem bytesToBits_bitsToBytes (bs : List Bool) (h : 8 ∣ bs.length) :
    bytesToBits (bitsToBytes bs) = bs := by
  induction hn : bs.length using Nat.strongRecOn generalizing bs with
  | _ n ih =>
    unfold bitsToBytes
    by_cases hb : bs = []
    · simp [hb, bytesToBits]
    · simp only [hb, ↓reduceDIte, bytesToBits_cons]
      have hlen : 8 ≤ bs.length := by
        obtain ⟨k, hk⟩ := h
        have : bs.length ≠ 0 := by simpa using hb
        omega
      have ht : (bs.take 8).length = 8 := by simp [List.length_take]; omega
      rw [ht]
      simp only [Nat.sub_self, List.replicate_zero, List.append_nil]
      have hlt := bitsToNat_lt (bs.take 8)
      rw [ht] at hlt
      have : (UInt8.ofNat (bitsToNat (bs.take 8))).toNat = bitsToNat (bs.take 8) := by
        simp only [UInt8.toNat_ofNat']; omega
      rw [this]
      have h8 := natToBits_bitsToNat (bs.take 8)
      rw [ht] at h8
      rw [h8]
      have hd : 8 ∣ (bs.drop 8).length := by
        obtain ⟨k, hk⟩ := h
        exact ⟨k - 1, by simp [List.length_drop]; omega⟩
      rw [ih (bs.drop 8).length (by simp [List.length_drop]; omega) (bs.drop 8) hd rfl]
      exact List.take_append_drop 8 bs

end Mutagen

namespace Mutagen

theorem length_bitsToBytes (bs : List Bool) : (bitsToBytes bs).length = (bs.length + 7) / 8 := by
  induction hn : bs.length using Nat.strongRecOn generalizing bs with
  | _ n ih =>
    unfold bitsToBytes
    by_cases hb : bs = []
    · subst hb; simp at hn; subst hn; simp
    · simp only [hb, ↓reduceDIte, List.length_cons]
      have hpos : bs.length ≠ 0 := by simpa using hb
      rw [ih (bs.drop 8).length (by simp [List.length_drop]; omega) (bs.drop 8) rfl]
      simp only [List.length_drop]
      omega

theorem length_packFields (fs : List (Nat × Nat)) : (packFields fs).length = (fs.map (·.1)).sum := by
  induction fs with
  | nil => rfl
  | cons f fs ih =>
    simp only [packFields, List.flatMap_cons, List.length_append, length_natToBits, List.map_cons,
      List.sum_cons]
    simp only [packFields] at ih
    rw [ih]

/-- decoding the bytes built from packed fields whose widths fill whole bytes -/
theorem readFields_bytes (fs : List (Nat × Nat)) (h : ∀ f ∈ fs, f.2 < 2 ^ f.1)
    (h8 : 8 ∣ (fs.map (·.1)).sum) :
    readFields (fs.map (·.1)) (bytesToBits (bitsToBytes (packFields fs))) = some (fs.map (·.2), []) := by
  rw [bytesToBits_bitsToBytes _ (by rw [length_packFields]; exact h8)]
  have := readFields_pack fs h []
  simpa using this

end Mutagen
