/-
Proofs/C01Files.lean — composition of the tag codecs (Model/Id3Spec.lean, Model/Ape.lean) with the container
models (Model/Container/Id3File.lean, Model/Container/ApeFile.lean) for C01 at file level.
-/
import MutagenModel.Props.C12
import MutagenModel.Proofs.Container.Id3File
import MutagenModel.Proofs.Container.ApeFileCap
set_option linter.unusedVariables false
set_option linter.unusedSimpArgs false
namespace Mutagen.C01F
open Mutagen

/-! ## APEv2 files -/

open Mutagen.ApeF in
/-- after `APEv2.save` of `items` on a file where `_APEv2Data` found `loc`: the file is `payload ++ tag`,
`_APEv2Data` on it finds exactly that tag (start = end of the payload, end = end of the file), and the bytes
between start and end decode, with the strict decoder written from the APEv2 specification, to `items` -/
theorem ape_saved_file (f : Bytes) (loc : Option Loc) (hl : locate f = .ok loc) (items : List Ape.Item)
    (hok : Ape.TagOK items) (ha : AudioOK (baseOf f loc) (Ape.encodeTag items)) :
    ∃ out, save f (Ape.encodeTag items) = .ok out ∧ out = baseOf f loc ++ Ape.encodeTag items ∧
      locate out = .ok (some { start := (baseOf f loc).length, endd := out.length, isAtStart := false }) ∧
      Ape.decodeTag ((out.drop (baseOf f loc).length).take (out.length - (baseOf f loc).length)) = some items := by
  refine ⟨_, save_eq_base f _ loc hl, rfl, locate_tag _ items hok.2.2 ha, ?_⟩
  rw [List.drop_left' rfl, List.take_of_length_le (by simp)]
  exact Ape.decodeTag_encodeTag items hok

open Mutagen.Id3

/-! ## ID3: the frames region -/

/-- one round of the v2.3 / v2.4 loop of `read_frames` on a frame with a known id, a non-empty body and
flags 0: the frame, then what the loop makes of the rest -/
theorem readFrames34_step (sub : Hdr → Bytes → Except PyErr (List Val × Bytes)) (tbl : Table) (h : Hdr) (ss : Bool)
    (data nm body rest : Bytes) (cls : FrameClass) (n : String) (vals : List Val)
    (h10 : ¬ data.length < 10) (hnm : data.take 4 = nm) (hz : (nm.all fun x => x == 0) = false)
    (hsize : (if ss then bpFromBytes 7 true ((data.drop 4).take 4) else ofBE ((data.drop 4).take 4)) = body.length)
    (hflags : ofBE ((data.drop 8).take 2) = 0)
    (hbody : (data.drop 10).take body.length = body) (hrest : data.drop (10 + body.length) = rest)
    (hne : body.length ≠ 0) (hascii : (nm.all fun x => decide (x.toNat < 128)) = true) (hlast : nm.getLast? ≠ some 0)
    (hfind : tbl.find nm = some cls) (hfd : fromData sub h cls 0 body = .frame vals) (hup : upgradeName cls = some n) :
    readFrames34 sub tbl h ss data =
      match readFrames34 sub tbl h ss rest with
      | .error e => .error e
      | .ok (fs, d) => .ok (.frame n vals :: fs, d) := by
  rw [readFrames34]
  simp only [h10, ↓reduceDIte, hnm, hz, Bool.false_eq_true, ↓reduceIte, hsize, hflags, hbody, hrest, hne, hascii,
    Bool.not_true, hlast, Option.bind_some, hfind, hfd, hup]
  generalize readFrames34 sub tbl h ss rest = r
  cases r with
  | error e => rfl
  | ok p => cases p; rfl

/-- the loop stops at the padding (or the end of the data) -/
theorem readFrames34_pad (sub : Hdr → Bytes → Except PyErr (List Val × Bytes)) (tbl : Table) (h : Hdr) (ss : Bool) (p : Nat) :
    readFrames34 sub tbl h ss (zeros p) = .ok ([], zeros p) := by
  rw [readFrames34]
  by_cases hp : (zeros p).length < 10
  · simp only [hp, ↓reduceDIte]
  · have : ((zeros p).take 4).all (fun x => x == 0) = true := by
      simp only [List.all_eq_true]
      intro x hx
      have := List.mem_of_mem_take hx
      simp only [zeros, List.mem_replicate] at this
      simp [this.2]
    simp only [hp, ↓reduceDIte, this, ↓reduceIte]

/-- a frame without content (an empty TextFrame, which `save_frame` does not write) leaves the loop where it is -/
theorem readFrames34_nil (sub : Hdr → Bytes → Except PyErr (List Val × Bytes)) (tbl : Table) (h : Hdr) (ss : Bool) (d : Bytes) :
    readFrames34 sub tbl h ss ([] ++ d) = readFrames34 sub tbl h ss d := by simp

/-- the size limit of a frame body: 28 bits (syncsafe) for v2.4, 32 bits for v2.3 -/
def sizeLimit (cfg : Cfg) : Nat := if cfg.version = 4 then 2 ^ 28 else 2 ^ 32

/-- a frame the codec writes and reads back — the conclusion of `C12.frame_roundtrip` (v2.4) resp.
`C12.frame_roundtrip_v23` for its class — whose id is a four-character id of the table, whose body is not empty
(`read_frames` skips frames of size 0) and fits the size field; `out` is what is read back -/
def FrameRT (E : Id3.Env) (tbl : Table) (fv out : Val) : Prop :=
  ∃ (id : String) (vals : List Val) (cls : FrameClass) (outvals : List Val) (b : Bytes),
    fv = .frame id vals ∧ out = .frame id outvals ∧
    tbl.find (nameBytes id) = some cls ∧ upgradeName cls = some id ∧
    (nameBytes id).length = 4 ∧ (∀ x ∈ nameBytes id, 0 < x.toNat ∧ x.toNat < 128) ∧
    ¬ (cls.isText = true ∧ textEmpty cls.required vals = true) ∧
    writeFrame E.subw E.cfg cls vals = .ok b ∧ readFrame E.sub E.h cls b = .ok (outvals, []) ∧
    b ≠ [] ∧ b.length < sizeLimit E.cfg

/-- a TextFrame whose text is `[]` or `[""]`: `save_frame` writes nothing for it -/
def FrameEmpty (tbl : Table) (fv : Val) : Prop :=
  ∃ (id : String) (vals : List Val) (cls : FrameClass),
    fv = .frame id vals ∧ tbl.find (nameBytes id) = some cls ∧ cls.isText = true ∧ textEmpty cls.required vals = true

/-- the frames set (`fs`) and the frames read back (`os`): every frame round-trips, empty text frames vanish -/
inductive TagRT (E : Id3.Env) (tbl : Table) : List Val → List Val → Prop
  | nil : TagRT E tbl [] []
  | frame {f o : Val} {fs os : List Val} : FrameRT E tbl f o → TagRT E tbl fs os → TagRT E tbl (f :: fs) (o :: os)
  | empty {f : Val} {fs os : List Val} : FrameEmpty tbl f → TagRT E tbl fs os → TagRT E tbl (f :: fs) os

theorem saveFrame_empty (subw : Cfg → List Val → Except PyErr Bytes) (tbl : Table) (cfg : Cfg) (f : Val)
    (h : FrameEmpty tbl f) : saveFrame subw tbl cfg f = .ok [] := by
  obtain ⟨id, vals, cls, rfl, hf, ht, he⟩ := h
  simp [saveFrame, hf, ht, he]

theorem fromData_plain (sub : Hdr → Bytes → Except PyErr (List Val × Bytes)) (h : Hdr) (hu : h.unsynch = false)
    (cls : FrameClass) (b : Bytes) (vals : List Val) (r : Bytes) (hr : readFrame sub h cls b = .ok (vals, r)) :
    fromData sub h cls 0 b = .frame vals := by
  unfold fromData
  have e1 : hasFlag 0 FLAG24_ENCRYPT = false := by decide
  have e2 : hasFlag 0 FLAG23_ENCRYPT = false := by decide
  have e3 : hasFlag 0 FLAG24_COMPRESS = false := by decide
  have e4 : hasFlag 0 FLAG23_COMPRESS = false := by decide
  simp only [e1, e2, e3, e4, ite_self, Bool.false_eq_true, and_false, false_and, ↓reduceIte, fromDataBytes_plain h hu, hr]

/-- the frame header + body `save_frame` writes, and how one round of the reading loop takes it -/
theorem frame_step (E : Id3.Env) (tbl : Table) (hu : E.h.unsynch = false) (ss : Bool)
    (hss : ss = decide (E.cfg.version = 4)) (f o : Val) (hf : FrameRT E tbl f o) :
    ∃ w, saveFrame E.subw tbl E.cfg f = .ok w ∧
      ∀ rest, readFrames34 E.sub tbl E.h ss (w ++ rest) =
        match readFrames34 E.sub tbl E.h ss rest with
        | .error e => .error e
        | .ok (fs, d) => .ok (o :: fs, d) := by
  obtain ⟨id, vals, cls, outvals, b, rfl, rfl, hfind, hup, hl4, hid, hne, hw, hr, hb, hlim⟩ := hf
  obtain ⟨n1, n2, n3, n4, hn⟩ := Id3F.len4 _ hl4
  -- the size field
  have hsz : ∃ s1 s2 s3 s4 : UInt8, bpToStr b.length (if E.cfg.version = 4 then 7 else 8) true 4 4 = .ok [s1, s2, s3, s4] ∧
      (if ss then bpFromBytes 7 true [s1, s2, s3, s4] else ofBE [s1, s2, s3, s4]) = b.length := by
    unfold sizeLimit at hlim
    by_cases hv : E.cfg.version = 4
    · simp only [hv, ↓reduceIte] at hlim ⊢
      obtain ⟨sz, h1, h2, h3, _⟩ := C14.to_str_roundtrip b.length 4 7 4 true (by decide) (by simpa using hlim)
      obtain ⟨s1, s2, s3, s4, rfl⟩ := Id3F.len4 sz h2
      refine ⟨s1, s2, s3, s4, h1, ?_⟩
      simp [hss, hv, h3]
    · simp only [hv, ↓reduceIte] at hlim ⊢
      obtain ⟨sz, h1, h2, h3, _⟩ := C14.to_str_roundtrip b.length 4 8 4 true (by decide) (by simpa using hlim)
      obtain ⟨s1, s2, s3, s4, rfl⟩ := Id3F.len4 sz h2
      refine ⟨s1, s2, s3, s4, h1, ?_⟩
      simp [hss, hv, ← ofBE_eq_bpFromBytes, h3]
  obtain ⟨s1, s2, s3, s4, hsz1, hsz2⟩ := hsz
  refine ⟨nameBytes id ++ [s1, s2, s3, s4] ++ [0, 0] ++ b, ?_, ?_⟩
  · have hne' : (cls.isText && textEmpty cls.required vals) = false := by
      cases h1 : cls.isText <;> cases h2 : textEmpty cls.required vals <;> simp_all
    simp only [saveFrame, hfind, hne', Bool.false_eq_true, ↓reduceIte, hw, hsz1]
  · intro rest
    have hbl : b.length ≠ 0 := by
      intro h0; exact hb (List.length_eq_zero_iff.mp h0)
    have hid' := hid
    rw [hn] at hid'
    have hdata : nameBytes id ++ [s1, s2, s3, s4] ++ [0, 0] ++ b ++ rest =
        n1 :: n2 :: n3 :: n4 :: s1 :: s2 :: s3 :: s4 :: 0 :: 0 :: (b ++ rest) := by rw [hn]; simp
    rw [hdata]
    apply readFrames34_step E.sub tbl E.h ss _ [n1, n2, n3, n4] b rest cls id outvals
    · simp
    · rfl
    · have := (hid' n1 (by simp)).1
      simp only [List.all_cons, List.all_nil, Bool.and_true, Bool.and_eq_false_imp]
      intro h1
      simp only [beq_iff_eq] at h1
      rw [h1] at this
      exact absurd this (by decide)
    · simpa using hsz2
    · rfl
    · simp
    · rw [← List.drop_drop]; simp
    · exact hbl
    · simp only [List.all_cons, List.all_nil, Bool.and_true, Bool.and_eq_true, decide_eq_true_eq]
      exact ⟨(hid' n1 (by simp)).2, (hid' n2 (by simp)).2, (hid' n3 (by simp)).2, (hid' n4 (by simp)).2⟩
    · simp only [List.getLast?_cons_cons, List.getLast?_singleton, ne_eq, Option.some.injEq]
      intro h4
      have := (hid' n4 (by simp)).1
      rw [h4] at this
      exact absurd this (by decide)
    · rw [← hn]; exact hfind
    · exact fromData_plain E.sub E.h hu cls b outvals [] hr
    · exact hup

/-- THE tag-level round trip for the v2.3 / v2.4 loop: the frames `ID3Tags._write` renders, followed by any
amount of padding, are read back by `read_frames` as the frames that round-trip, in order, and the padding is
what the loop leaves -/
theorem tag_roundtrip34 (E : Id3.Env) (tbl : Table) (hu : E.h.unsynch = false) (ss : Bool)
    (hss : ss = decide (E.cfg.version = 4)) (fs os : List Val) (h : TagRT E tbl fs os) :
    ∃ w, saveFrames E.subw tbl E.cfg fs = .ok w ∧
      ∀ p, readFrames34 E.sub tbl E.h ss (w ++ zeros p) = .ok (os, zeros p) := by
  induction h with
  | nil => exact ⟨[], rfl, fun p => by simpa using readFrames34_pad E.sub tbl E.h ss p⟩
  | frame hf _ ih =>
    obtain ⟨w2, hw2, hr2⟩ := ih
    obtain ⟨w1, hw1, hr1⟩ := frame_step E tbl hu ss hss _ _ hf
    refine ⟨w1 ++ w2, by simp only [saveFrames, hw1, hw2], fun p => ?_⟩
    rw [List.append_assoc, hr1, hr2]
  | empty he _ ih =>
    obtain ⟨w2, hw2, hr2⟩ := ih
    refine ⟨[] ++ w2, by simp only [saveFrames, saveFrame_empty E.subw tbl E.cfg _ he, hw2], fun p => ?_⟩
    simpa using hr2 p

theorem find_mem (tbl : Table) (nb : Bytes) (cls : FrameClass) (h : tbl.find nb = some cls) : cls ∈ tbl :=
  List.mem_of_find?_eq_some h

/-- `C12.frame_roundtrip` gives `FrameRT`: a frame of the generated table, ID3v2.4 save configuration -/
theorem frameRT_v24 (E : Id3.Env) (hcfg : E.cfg.version = 4) (id : String) (vals : List Val) (cls : FrameClass)
    (hfind : Id3Table.frames.find (nameBytes id) = some cls) (hup : upgradeName cls = some id)
    (hl4 : (nameBytes id).length = 4) (hid : ∀ x ∈ nameBytes id, 0 < x.toNat ∧ x.toNat < 128)
    (hne : ¬ (cls.isText = true ∧ textEmpty cls.required vals = true))
    (hlen1 : cls.required.length ≤ vals.length) (hlen2 : vals.length ≤ (cls.required ++ cls.optional).length)
    (hvalid : FieldsValid E (initCtx cls.required {}) (cls.required ++ cls.optional) vals)
    (hcomp : ∀ hlt : vals.length < (cls.required ++ cls.optional).length,
      handleNoData ((cls.required ++ cls.optional)[vals.length]).kind = false)
    (hbody : ∀ b, writeFrame E.subw E.cfg cls vals = .ok b → b ≠ [] ∧ b.length < 2 ^ 28) :
    FrameRT E Id3Table.frames (.frame id vals) (.frame id (normVals (cls.required ++ cls.optional) vals)) := by
  obtain ⟨b, hw, hr⟩ := C12.frame_roundtrip E cls (find_mem _ _ _ hfind) vals (by omega) hlen1 hlen2 hvalid hcomp
  exact ⟨id, vals, cls, _, b, rfl, rfl, hfind, hup, hl4, hid, hne, hw, hr, (hbody b hw).1,
    by simp only [sizeLimit, hcfg, ↓reduceIte]; exact (hbody b hw).2⟩

/-- `C12.frame_roundtrip_v23` gives `FrameRT`: ID3v2.3 save configuration; what comes back is the
`_get_v23_frame` conversion `vals'` of the values -/
theorem frameRT_v23 (E : Id3.Env) (hcfg : E.cfg.version = 3) (id : String) (vals vals' : List Val) (cls : FrameClass)
    (hfind : Id3Table.frames.find (nameBytes id) = some cls) (hup : upgradeName cls = some id)
    (hl4 : (nameBytes id).length = 4) (hid : ∀ x ∈ nameBytes id, 0 < x.toNat ∧ x.toNat < 128)
    (hne : ¬ (cls.isText = true ∧ textEmpty cls.required vals = true))
    (hconv : toV23 E.cfg.sep (cls.required ++ cls.optional) vals = .ok vals')
    (hlen1 : cls.required.length ≤ vals'.length) (hlen2 : vals'.length ≤ (cls.required ++ cls.optional).length)
    (hvalid : FieldsValid E (initCtx cls.required {}) (cls.required ++ cls.optional) vals')
    (hcomp : ∀ hlt : vals'.length < (cls.required ++ cls.optional).length,
      handleNoData ((cls.required ++ cls.optional)[vals'.length]).kind = false)
    (hbody : ∀ b, writeFrame E.subw E.cfg cls vals = .ok b → b ≠ [] ∧ b.length < 2 ^ 32) :
    FrameRT E Id3Table.frames (.frame id vals) (.frame id (normVals (cls.required ++ cls.optional) vals')) := by
  obtain ⟨b, hw, hr⟩ := C12.frame_roundtrip_v23 E cls (find_mem _ _ _ hfind) vals vals' hcfg hconv hlen1 hlen2 hvalid hcomp
  exact ⟨id, vals, cls, _, b, rfl, rfl, hfind, hup, hl4, hid, hne, hw, hr, (hbody b hw).1,
    by simp only [sizeLimit, hcfg]; exact (hbody b hw).2⟩

/-- `read_frames` (with the version dispatch and the `determine_bpi` heuristic of v2.4) on the rendered frames
followed by padding -/
theorem readFramesWith_roundtrip (E : Id3.Env) (tbl : Table) (hv : E.cfg.version = 3 ∨ E.cfg.version = 4)
    (hh : E.h = { version := E.cfg.version, unsynch := false }) (fs os : List Val) (h : TagRT E tbl fs os)
    (frames : Bytes) (hw : saveFrames E.subw tbl E.cfg fs = .ok frames) (p : Nat)
    (hbpi : E.cfg.version = 4 → determineBpi tbl (frames ++ zeros p) = true) :
    readFramesWith E.sub tbl E.h (frames ++ zeros p) = .ok (os, zeros p) := by
  have hu : E.h.unsynch = false := by rw [hh]
  have hver : E.h.version = E.cfg.version := by rw [hh]
  unfold readFramesWith
  have c0 : ¬ (E.h.version < 4 ∧ E.h.unsynch = true) := by rw [hu]; simp
  simp only [c0, ↓reduceIte]
  rcases hv with hv | hv
  · obtain ⟨w, hw', hr⟩ := tag_roundtrip34 E tbl hu false (by simp [hv]) fs os h
    rw [hw] at hw'; cases hw'
    have c1 : ¬ (E.h.version ≥ 4) := by rw [hver, hv]; omega
    have c2 : E.h.version = 3 := by rw [hver, hv]
    rw [if_neg c1, if_pos c2, hr p]
  · obtain ⟨w, hw', hr⟩ := tag_roundtrip34 E tbl hu true (by simp [hv]) fs os h
    rw [hw] at hw'; cases hw'
    have c1 : E.h.version ≥ 4 := by rw [hver, hv]; omega
    rw [if_pos c1, hbpi hv, hr p]

/-- the composition: `ID3.save` of frames `fs` on a well-formed layout, then reading the saved FILE the way
`ID3.load` does — `ID3Header` (size, version, flags), the frames region of the declared size, `read_frames` -/
theorem id3_saved_file (E : Id3.Env) (hv : E.cfg.version = 3 ∨ E.cfg.version = 4)
    (hh : E.h = { version := E.cfg.version, unsynch := false })
    (L : Id3F.Layout) (hL : L.OK) (fs os : List Val) (hrt : TagRT E Id3Table.frames fs os)
    (frames : Bytes) (hw : saveFrames E.subw Id3Table.frames E.cfg fs = .ok frames)
    (pad : PadChoice) (v1opt : Nat) (blk : Bytes) (p : Nat)
    (hp : getPadding pad ((L.tag.length : Int) - (frames.length + 10 : Nat)) (L.audio.length + L.v1.length) = p)
    (hfit : frames.length + p < 2 ^ 28)
    (hbpi : E.cfg.version = 4 → determineBpi Id3Table.frames (frames ++ zeros p) = true) :
    ∃ hd out, Id3F.header E.cfg.version (frames.length + p) = .ok hd ∧
      Id3F.save L.render E.cfg.version frames pad v1opt blk = .ok out ∧
      out = hd ++ frames ++ zeros p ++ L.audio ++ Id3F.newV1 L.v1 v1opt blk ∧
      Id3F.headerSize out = .ok (some (frames.length + p + 10)) ∧
      out.take 6 = Id3F.magicID3 ++ [UInt8.ofNat E.cfg.version, 0, 0] ∧
      readFramesWith E.sub Id3Table.frames E.h ((out.drop 10).take (frames.length + p)) = .ok (os, zeros p) := by
  obtain ⟨hd, hhd, hsave⟩ := Id3F.save_layout L hL E.cfg.version hv frames pad v1opt blk p hp hfit
  obtain ⟨a, b, c, d, h1, _⟩ := Id3F.header_ok E.cfg.version (frames.length + p) hfit
  have hde : hd = Id3F.magicID3 ++ [UInt8.ofNat E.cfg.version, 0, 0] ++ [a, b, c, d] := by
    rw [h1] at hhd; cases hhd; rfl
  have hl : hd.length = 10 := by rw [hde]; simp [Id3F.magicID3]
  refine ⟨hd, _, hhd, hsave, rfl, ?_, ?_, ?_⟩
  · have := Id3F.headerSize_tag E.cfg.version (frames.length + p) (by omega) hd
      (frames ++ zeros p ++ L.audio ++ Id3F.newV1 L.v1 v1opt blk) hfit hhd
    simpa [List.append_assoc] using this
  · rw [hde]; simp [Id3F.magicID3]
  · have hdrop : (hd ++ frames ++ zeros p ++ L.audio ++ Id3F.newV1 L.v1 v1opt blk).drop 10 =
        (frames ++ zeros p) ++ (L.audio ++ Id3F.newV1 L.v1 v1opt blk) := by
      rw [← hl]; simp [List.append_assoc]
    rw [hdrop, List.take_left' (by simp)]
    exact readFramesWith_roundtrip E _ hv hh fs os hrt frames hw p hbpi

theorem readTag_eq (tbl : Table) (h : Hdr) (data : Bytes) :
    readTag tbl h data = readFramesWith (readTagN tbl data.length) tbl h data := rfl

theorem writeTag_eq (tbl : Table) (cfg : Cfg) (fs : List Val) :
    writeTag tbl cfg fs = saveFrames (writeTagN tbl (Val.depthList fs)) tbl cfg fs := rfl

end Mutagen.C01F
