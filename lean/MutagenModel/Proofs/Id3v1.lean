/- Proofs/Id3v1.lean — MakeID3v1 / ParseID3v1 against the ID3v1.1 layout -/
import MutagenModel.Model.Id3v1
set_option linter.unusedVariables false
set_option linter.unusedSimpArgs false
namespace Mutagen.Id3v1
open Mutagen

theorem length_padTo (n : Nat) (b : Bytes) (h : b.length ≤ n) : (padTo n b).length = n := by
  simp [padTo]; omega

/-! ### what MakeID3v1 puts where -/

/-- the bytes of a text field before padding -/
def textBytes (f : Option (List Str)) : Bytes :=
  match f with
  | some (t :: _) => (latin1Replace t).take 30
  | _ => []

def commentBytes (f : Option (List Str)) : Bytes :=
  match f with
  | some (t :: _) => (latin1Replace t).take 28
  | _ => []

theorem textField_eq (f : Option (List Str)) (b : Bytes) (h : textField f = .ok b) :
    b = padTo 30 (textBytes f) ∧ (textBytes f).length ≤ 30 := by
  unfold textField at h
  match f, h with
  | none, h => cases h; exact ⟨by simp [padTo, textBytes], by simp [textBytes]⟩
  | some (t :: _), h => cases h; exact ⟨rfl, by simp [textBytes]; omega⟩

theorem commentField_eq (f : Option (List Str)) :
    commentField f = padTo 28 (commentBytes f) ++ [0] ∧ (commentBytes f).length ≤ 28 := by
  unfold commentField commentBytes
  match f with
  | none => exact ⟨by simp [padTo, zeros], by simp⟩
  | some [] => exact ⟨by simp [padTo, zeros], by simp⟩
  | some (t :: _) =>
    have hl : ((latin1Replace t).take 28).length ≤ 28 := by simp; omega
    refine ⟨?_, hl⟩
    simp only [padTo, List.append_assoc]
    congr 1
    simp only [zeros]
    rw [show 29 - ((latin1Replace t).take 28).length = (28 - ((latin1Replace t).take 28).length) + 1 by omega,
      List.replicate_succ']

/-- the year as `MakeID3v1` takes it: `str(TDRC)` if there is a TDRC, else `str(TYER)` -/
def yearStr (s : Src) : Str := match s.tdrc with | some t => t | none => match s.tyer with | some t => t | none => []

theorem yearField_eq (s : Src) (b : Bytes) (h : yearField s = .ok b) :
    b = padTo 4 (((yearStr s).map UInt8.ofNat).take 4) ∧ (yearStr s).all (· < 128) = true := by
  have key : ∀ (t : Str) (y : Bytes), asciiEncode t = .ok y → y = t.map UInt8.ofNat ∧ t.all (· < 128) = true := by
    intro t y hy
    unfold asciiEncode at hy
    split at hy
    · rename_i hall; cases hy; exact ⟨rfl, hall⟩
    · cases hy
  have pad : ∀ y : Bytes, (y ++ zeros 4).take 4 = padTo 4 (y.take 4) := by
    intro y
    simp only [padTo, zeros, List.take_append, List.length_take, List.take_replicate]
    congr 2
    omega
  unfold yearField at h
  unfold yearStr
  cases h1 : s.tdrc with
  | some t =>
    simp only [h1] at h
    cases h2 : asciiEncode t with
    | error e => rw [h2] at h; cases h
    | ok y => rw [h2] at h; cases h; obtain ⟨rfl, ha⟩ := key t y h2; exact ⟨pad _, ha⟩
  | none =>
    simp only [h1] at h
    cases h3 : s.tyer with
    | some t =>
      simp only [h3] at h
      cases h2 : asciiEncode t with
      | error e => rw [h2] at h; cases h
      | ok y => rw [h2] at h; cases h; obtain ⟨rfl, ha⟩ := key t y h2; exact ⟨pad _, ha⟩
    | none => simp only [h3] at h; cases h; exact ⟨by simp [padTo, zeros], by simp⟩

/-- the fields of the block `MakeID3v1` builds -/
def fieldsOf (s : Src) (track : UInt8) : Fields :=
  { title := textBytes s.tit2, artist := textBytes s.tpe1, album := textBytes s.talb,
    year := ((yearStr s).map UInt8.ofNat).take 4, comment := commentBytes s.comm, track := track, genre := genreByte s.tcon }

structure Fields.Fits (f : Fields) : Prop where
  title : f.title.length ≤ 30
  artist : f.artist.length ≤ 30
  album : f.album.length ≤ 30
  year : f.year.length ≤ 4
  comment : f.comment.length ≤ 28

theorem length_render (f : Fields) (h : f.Fits) : (render f).length = 128 := by
  simp only [render, List.length_append, length_padTo _ _ h.title, length_padTo _ _ h.artist, length_padTo _ _ h.album,
    length_padTo _ _ h.year, length_padTo _ _ h.comment, tagMagic, List.length_cons, List.length_nil]

/-- `MakeID3v1` writes the ID3v1.1 layout of the Latin-1 truncations of the v2 values -/
theorem make_layout (s : Src) (b : Bytes) (h : makeID3v1 s = .ok b) :
    ∃ track, trackByte s.trck = .ok track ∧ b = render (fieldsOf s track) ∧ (fieldsOf s track).Fits := by
  unfold makeID3v1 at h
  cases h1 : textField s.tit2 with
  | error e => rw [h1] at h; cases h
  | ok title =>
  cases h2 : textField s.tpe1 with
  | error e => rw [h1, h2] at h; cases h
  | ok artist =>
  cases h3 : textField s.talb with
  | error e => rw [h1, h2, h3] at h; cases h
  | ok album =>
  cases h4 : trackByte s.trck with
  | error e => rw [h1, h2, h3, h4] at h; cases h
  | ok track =>
  cases h5 : yearField s with
  | error e => rw [h1, h2, h3, h4, h5] at h; cases h
  | ok year =>
    rw [h1, h2, h3, h4, h5] at h
    cases h
    obtain ⟨e1, l1⟩ := textField_eq _ _ h1
    obtain ⟨e2, l2⟩ := textField_eq _ _ h2
    obtain ⟨e3, l3⟩ := textField_eq _ _ h3
    obtain ⟨e5, _⟩ := yearField_eq _ _ h5
    obtain ⟨e6, l6⟩ := commentField_eq s.comm
    refine ⟨track, rfl, ?_, ⟨l1, l2, l3, by simp [fieldsOf]; omega, l6⟩⟩
    rw [e1, e2, e3, e5, e6]
    simp [render, fieldsOf, List.append_assoc]

/-! ### ParseID3v1 on the layout -/

theorem takeWhile_append_zeros (x : Bytes) (k : Nat) : (x ++ zeros k).takeWhile (· != 0) = x.takeWhile (· != 0) := by
  induction x with
  | nil => cases k with
    | zero => rfl
    | succ k => simp [zeros, List.replicate_succ]
  | cons a r ih =>
    simp only [List.cons_append, List.takeWhile_cons, ih]

theorem takeWhile_padTo (n : Nat) (x : Bytes) : (padTo n x).takeWhile (· != 0) = x.takeWhile (· != 0) :=
  takeWhile_append_zeros x _

theorem fix_padTo (n : Nat) (x : Bytes) : fix (padTo n x) = fix x := by
  unfold fix; rw [takeWhile_padTo]

theorem fix_padTo_zero (n : Nat) (x : Bytes) : fix (padTo n x ++ [0]) = fix x := by
  unfold fix
  have : (padTo n x ++ [0]) = x ++ zeros (n - x.length + 1) := by
    simp [padTo, zeros, List.replicate_succ', List.append_assoc]
  rw [this, takeWhile_append_zeros]

theorem findTag_magic (r : Bytes) : findTag (tagMagic ++ r) = some 0 := by
  simp [findTag, tagMagic, List.isPrefixOf]

/-- `ParseID3v1` on a block in the ID3v1.1 layout: the five texts are the fields cut at the first NUL, stripped,
decoded as Latin-1; track 0 and genre 255 mean "none" -/
theorem parse_render (v2 : Nat) (hv : v2 = 3 ∨ v2 = 4) (f : Fields) (h : f.Fits) :
    parseID3v1 v2 (render f) = .ok (some
      { title := fix f.title, artist := fix f.artist, album := fix f.album, year := fix f.year, comment := fix f.comment
        track := if f.track.toNat ≠ 0 then some f.track.toNat else none
        genre := if f.genre.toNat ≠ 255 then some f.genre.toNat else none }) := by
  have hlen := length_render f h
  unfold parseID3v1
  have c0 : ¬ (v2 ≠ 3 ∧ v2 ≠ 4) := by omega
  rw [if_neg c0]
  have hr : render f = tagMagic ++ (padTo 30 f.title ++ padTo 30 f.artist ++ padTo 30 f.album ++ padTo 4 f.year ++
      padTo 28 f.comment ++ [0, f.track, f.genre]) := by simp [render, List.append_assoc]
  rw [hr, findTag_magic]
  simp only [List.drop_zero]
  rw [← hr]
  have c1 : ¬ (128 < (render f).length ∨ (render f).length < 124) := by omega
  rw [if_neg c1]
  simp only [hlen, show 128 - 124 = 4 from rfl, show 93 + 4 = 97 from rfl, show 122 + 4 = 126 from rfl,
    show 123 + 4 = 127 from rfl, show 128 - 3 = 125 from rfl]
  have l1 := length_padTo 30 f.title h.title
  have l2 := length_padTo 30 f.artist h.artist
  have l3 := length_padTo 30 f.album h.album
  have l4 := length_padTo 4 f.year h.year
  have l5 := length_padTo 28 f.comment h.comment
  generalize hT : padTo 30 f.title = T at l1
  generalize hA : padTo 30 f.artist = A at l2
  generalize hB : padTo 30 f.album = B at l3
  generalize hY : padTo 4 f.year = Y at l4
  generalize hC : padTo 28 f.comment = C at l5
  have hd : render f = tagMagic ++ T ++ A ++ B ++ Y ++ C ++ [0, f.track, f.genre] := by
    simp [render, hT, hA, hB, hY, hC]
  have e1 : ((render f).drop 3).take 30 = T := by
    rw [hd]; simp only [List.append_assoc]
    rw [List.drop_left' (by simp [tagMagic]), List.take_left' l1]
  have e2 : ((render f).drop 33).take 30 = A := by
    rw [hd]; simp only [List.append_assoc]
    rw [← List.append_assoc tagMagic T, List.drop_left' (by simp [tagMagic, l1]), List.take_left' l2]
  have e3 : ((render f).drop 63).take 30 = B := by
    rw [hd]; simp only [List.append_assoc]
    rw [← List.append_assoc tagMagic T, ← List.append_assoc (tagMagic ++ T) A,
      List.drop_left' (by simp [tagMagic, l1, l2]), List.take_left' l3]
  have e4 : ((render f).drop 93).take 4 = Y := by
    rw [hd]; simp only [List.append_assoc]
    rw [← List.append_assoc tagMagic T, ← List.append_assoc (tagMagic ++ T) A, ← List.append_assoc (tagMagic ++ T ++ A) B,
      List.drop_left' (by simp [tagMagic, l1, l2, l3]), List.take_left' l4]
  have e5 : ((render f).drop 97).take 29 = C ++ [0] := by
    rw [hd]; simp only [List.append_assoc]
    rw [← List.append_assoc tagMagic T, ← List.append_assoc (tagMagic ++ T) A, ← List.append_assoc (tagMagic ++ T ++ A) B,
      ← List.append_assoc (tagMagic ++ T ++ A ++ B) Y, List.drop_left' (by simp [tagMagic, l1, l2, l3, l4])]
    rw [show C ++ ([0, f.track, f.genre] : Bytes) = (C ++ [0]) ++ [f.track, f.genre] by simp]
    rw [List.take_left' (by simp [l5])]
  have hget : ∀ k, (render f).getD (125 + k) 1 = ([0, f.track, f.genre] : Bytes).getD k 1 ∧
      (render f).getD (125 + k) 0 = ([0, f.track, f.genre] : Bytes).getD k 0 := by
    intro k
    rw [hd]
    have hl : (tagMagic ++ T ++ A ++ B ++ Y ++ C).length = 125 := by simp [tagMagic, l1, l2, l3, l4, l5]
    simp only [List.getD_eq_getElem?_getD]
    rw [List.getElem?_append_right (by omega)]
    have : 125 + k - (tagMagic ++ T ++ A ++ B ++ Y ++ C).length = k := by omega
    rw [this]
    exact ⟨rfl, rfl⟩
  have g125 := (hget 0).1
  have g126 := (hget 1).2
  have g127 := (hget 2).2
  simp only [Nat.add_zero, List.getD_cons_zero, List.getD_cons_succ] at g125 g126 g127
  simp only [e1, e2, e3, e4, e5, g125, g126, g127, ← hT, ← hA, ← hB, ← hY, ← hC, fix_padTo, fix_padTo_zero,
    or_true, and_true, ne_eq]

/-! ### the representable part -/

/-- a text ID3v1 can hold in a field of `n` bytes and `ParseID3v1` gives back unchanged: at most `n` characters, all
Latin-1 and none NUL, no white space (space, TAB, LF, VT, FF, CR) at either end -/
structure Representable (n : Nat) (t : Str) : Prop where
  len : t.length ≤ n
  latin1 : ∀ c ∈ t, 0 < c ∧ c < 256
  head : ∀ c, t.head? = some c → isBytesSpace (UInt8.ofNat c) = false
  last : ∀ c, t.getLast? = some c → isBytesSpace (UInt8.ofNat c) = false

theorem toNat_ofNat_lt (c : Nat) (h : c < 256) : (UInt8.ofNat c).toNat = c := by
  simp only [UInt8.toNat_ofNat']; omega

theorem latin1_decode_replace (t : Str) (h : ∀ c ∈ t, c < 256) : latin1Decode (latin1Replace t) = t := by
  induction t with
  | nil => rfl
  | cons c r ih =>
    have hc := h c List.mem_cons_self
    simp only [latin1Decode, latin1Replace, List.map_cons, hc, ↓reduceIte, toNat_ofNat_lt c hc]
    congr 1
    exact ih (fun x hx => h x (List.mem_cons_of_mem _ hx))

theorem dropWhile_head (p : UInt8 → Bool) (l : Bytes) (h : ∀ c, l.head? = some c → p c = false) : l.dropWhile p = l := by
  cases l with
  | nil => rfl
  | cons a r => simp [List.dropWhile_cons, h a rfl]

/-- a field without NUL and without white space at its ends is read as it stands -/
theorem fix_clean (x : Bytes) (h0 : ∀ b ∈ x, b ≠ 0) (hh : ∀ c, x.head? = some c → isBytesSpace c = false)
    (hl : ∀ c, x.getLast? = some c → isBytesSpace c = false) : fix x = latin1Decode x := by
  unfold fix
  have h1 : ∀ y : Bytes, (∀ b ∈ y, b ≠ 0) → y.takeWhile (· != 0) = y := by
    intro y hy
    induction y with
    | nil => rfl
    | cons a r ih =>
      have ha : (a != 0) = true := by simpa using hy a List.mem_cons_self
      simp only [List.takeWhile_cons, ha, ↓reduceIte]
      rw [ih (fun b hb => hy b (List.mem_cons_of_mem _ hb))]
  have h1 := h1 x h0
  simp only [h1]
  rw [dropWhile_head _ x hh, dropWhile_head _ x.reverse (by simpa [List.head?_reverse] using hl), List.reverse_reverse]

theorem fix_representable (n : Nat) (t : Str) (h : Representable n t) : fix ((latin1Replace t).take n) = t := by
  have hlt : ∀ c ∈ t, c < 256 := fun c hc => (h.latin1 c hc).2
  have hmap : latin1Replace t = t.map UInt8.ofNat := by
    unfold latin1Replace
    apply List.map_congr_left
    intro c hc
    simp [hlt c hc]
  have htake : (latin1Replace t).take n = latin1Replace t := List.take_of_length_le (by simp [latin1Replace]; exact h.len)
  rw [htake, fix_clean, latin1_decode_replace t hlt]
  · intro b hb
    rw [hmap] at hb
    obtain ⟨c, hc, rfl⟩ := List.mem_map.mp hb
    intro h0
    have := toNat_ofNat_lt c (hlt c hc)
    rw [h0] at this
    have := (h.latin1 c hc).1
    simp at *; omega
  · intro c hc
    rw [hmap, List.head?_map] at hc
    cases hh : t.head? with
    | none => rw [hh] at hc; cases hc
    | some d => rw [hh] at hc; cases hc; exact h.head d hh
  · intro c hc
    rw [hmap, List.getLast?_map] at hc
    cases hh : t.getLast? with
    | none => rw [hh] at hc; cases hc
    | some d => rw [hh] at hc; cases hc; exact h.last d hh

/-- THE round trip: `ParseID3v1(MakeID3v1(frames))` -/
theorem parse_make (v2 : Nat) (hv : v2 = 3 ∨ v2 = 4) (s : Src) (b : Bytes) (h : makeID3v1 s = .ok b) :
    ∃ track, trackByte s.trck = .ok track ∧
      parseID3v1 v2 b = .ok (some
        { title := fix (textBytes s.tit2), artist := fix (textBytes s.tpe1), album := fix (textBytes s.talb),
          year := fix (((yearStr s).map UInt8.ofNat).take 4), comment := fix (commentBytes s.comm),
          track := if track.toNat ≠ 0 then some track.toNat else none,
          genre := if (genreByte s.tcon).toNat ≠ 255 then some (genreByte s.tcon).toNat else none }) := by
  obtain ⟨track, ht, hb, hfits⟩ := make_layout s b h
  exact ⟨track, ht, by rw [hb, parse_render v2 hv _ hfits]; rfl⟩

end Mutagen.Id3v1
