/-
Proofs/FileOpsCap.lean — the file primitives on a device with finite capacity (ENOSPC):
environments without injected faults or short reads but with an arbitrary capacity and an
arbitrary amount of a failing write leaking into the file.  For C19 (and the ENOSPC part of C06).
-/
import MutagenModel.Proofs.FileOps
set_option linter.unusedVariables false
namespace Mutagen

/-- no injected exception, no short read; capacity and leak arbitrary -/
structure Quiet (e : Env) : Prop where
  nf : ∀ i, e.failAt i = none
  ns : ∀ i, e.shortAt i = none

theorem tick_q {e : Env} (hq : Quiet e) (o : Op) (s : FS) :
    tick o e s = (.ok (), { s with ops := s.ops + 1, log := o :: s.log }) := by
  simp [tick, hq.nf]

theorem fseek_q {e : Env} (hq : Quiet e) (p : Nat) (s : FS) :
    fseek p e s = (.ok (), { data := s.data, pos := p, ops := s.ops + 1, log := .seek p :: s.log }) := by
  simp [fseek, bind_run, tick_q hq]

theorem fseekEnd_q {e : Env} (hq : Quiet e) (s : FS) :
    fseekEnd e s = (.ok (), { data := s.data, pos := s.data.length, ops := s.ops + 1, log := .seekEnd :: s.log }) := by
  simp [fseekEnd, bind_run, tick_q hq]

theorem ftell_q {e : Env} (hq : Quiet e) (s : FS) :
    ftell e s = (.ok s.pos, { s with ops := s.ops + 1, log := .tell :: s.log }) := by
  simp [ftell, bind_run, tick_q hq]

theorem fflush_q {e : Env} (hq : Quiet e) (s : FS) :
    fflush e s = (.ok (), { s with ops := s.ops + 1, log := .flush :: s.log }) := by
  simp [fflush, tick_q hq]

theorem ftruncate_q {e : Env} (hq : Quiet e) (n : Nat) (s : FS) :
    ftruncate n e s = (.ok (), { data := s.data.take n, pos := s.pos, ops := s.ops + 1, log := .truncate n :: s.log }) := by
  simp [ftruncate, bind_run, tick_q hq]

theorem fread_q {e : Env} (hq : Quiet e) (n : Nat) (s : FS) :
    fread n e s = (.ok (readAt s.data s.pos n),
       { data := s.data, pos := s.pos + (readAt s.data s.pos n).length, ops := s.ops + 1, log := .read n :: s.log }) := by
  simp [fread, tick_q hq, hq.ns]

theorem length_writeData_inside (d : Bytes) (pos : Nat) (b : Bytes) (h : pos + b.length ≤ d.length) :
    (writeData d pos b).length = d.length := by
  rw [writeData_inside _ _ _ (by omega)]; exact length_writeAt _ _ _ h

/-- a write that stays inside the file never hits the capacity limit -/
theorem fwrite_q_inside {e : Env} (hq : Quiet e) (b : Bytes) (s : FS) (h : s.pos + b.length ≤ s.data.length) :
    fwrite b e s = (.ok (), { data := writeData s.data s.pos b, pos := s.pos + b.length, ops := s.ops + 1,
                              log := .write b.length :: s.log }) := by
  unfold fwrite
  simp only [tick_q hq]
  have hl := length_writeData_inside s.data s.pos b h
  cases hc : e.cap with
  | none => simp
  | some c => simp [hl]

theorem readFull_q {e : Env} (hq : Quiet e) (n : Nat) (s : FS) (h : s.pos + n ≤ s.data.length) :
    readFull n e s =
      (.ok (readAt s.data s.pos n),
       { data := s.data, pos := s.pos + n, ops := s.ops + 1, log := .read n :: s.log }) := by
  have hl : (readAt s.data s.pos n).length = n := length_readAt _ _ _ h
  have c1 : ¬ ((n : Int) < 0) := by omega
  simp [readFull, bind_run, c1, hl, fread_q hq]

theorem moveStep_q {e : Env} (hq : Quiet e) (a b n : Nat) (s : FS)
    (hr : a + n ≤ s.data.length) (h : b + (readAt s.data a n).length ≤ s.data.length) :
    moveStep a b n e s =
      (.ok (), { data := writeData s.data b (readAt s.data a n), pos := b + (readAt s.data a n).length,
                 ops := s.ops + 4,
                 log := .write (readAt s.data a n).length :: .seek b :: .read n :: .seek a :: s.log }) := by
  unfold moveStep
  simp only [bind_run, fseek_q hq]
  rw [readFull_q hq n _ (by simpa using hr)]
  simp only
  rw [fwrite_q_inside hq _ _ (by simpa using h)]

/-- "`m` started in `s` in environment `e` returns normally with file content `d`" -/
def RunsOk (e : Env) (m : FileM α) (s : FS) (d : Bytes) : Prop :=
  ∃ a s', m e s = (.ok a, s') ∧ s'.data = d

theorem moveFwdM_q {e : Env} (hq : Quiet e) (B : Nat) (hB : 0 < B) (dest src count moved : Nat) (f : Bytes) (s : FS)
    (hs : s.data = f) (hin : src + count ≤ f.length) (hsd : dest < src) (hm : moved ≤ count) :
    RunsOk e (moveFwdM B dest src count moved) s (moveFwd B f dest src count moved) := by
  fun_induction moveFwd B f dest src count moved generalizing s with
  | case1 f moved h =>
    have h' : count - moved = 0 := by omega
    exact ⟨(), s, by unfold moveFwdM; simp [h'], hs⟩
  | case2 f moved h this_move ih =>
    have h1 : ¬ (count - moved = 0) := by omega
    have h2 : ¬ (B = 0) := by omega
    have hrl : (readAt s.data (src + moved) this_move).length = this_move := by
      apply length_readAt; rw [hs]; omega
    unfold RunsOk
    unfold moveFwdM
    simp only [h1, h2, ↓reduceDIte, bind_run]
    rw [moveStep_q hq _ _ _ s (by rw [hs]; omega) (by rw [hrl, hs]; omega)]
    have hw : dest + moved ≤ s.data.length := by rw [hs]; omega
    have hl : (writeAt f (dest + moved) (readAt f (src + moved) this_move)).length = f.length := by
      apply length_writeAt
      rw [length_readAt _ _ _ (by omega)]; omega
    apply ih
    · show writeData s.data (dest + moved) (readAt s.data (src + moved) this_move) = _
      rw [writeData_inside _ _ _ hw, hs]
    · rw [hl]; exact hin
    · omega

theorem moveBwdM_q {e : Env} (hq : Quiet e) (B : Nat) (hB : 0 < B) (dest src count : Nat) (f : Bytes) (s : FS)
    (hs : s.data = f) (hin : dest + count ≤ f.length) (hsd : src ≤ dest) :
    RunsOk e (moveBwdM B dest src count) s (moveBwd B f dest src count) := by
  fun_induction moveBwd B f dest src count generalizing s with
  | case1 f count h =>
    have h' : count = 0 := by omega
    exact ⟨(), s, by unfold moveBwdM; simp [h'], hs⟩
  | case2 f count h this_move ih =>
    have h1 : ¬ (count = 0) := by omega
    have h2 : ¬ (B = 0) := by omega
    have hrl : (readAt s.data (src + count - this_move) this_move).length = this_move := by
      apply length_readAt; rw [hs]; omega
    unfold RunsOk
    unfold moveBwdM
    simp only [h1, h2, ↓reduceDIte, bind_run]
    rw [moveStep_q hq _ _ _ s (by rw [hs]; omega) (by rw [hrl, hs]; omega)]
    have hw : count + dest - this_move ≤ s.data.length := by rw [hs]; omega
    have hl : (writeAt f (count + dest - this_move) (readAt f (src + count - this_move) this_move)).length
        = f.length := by
      apply length_writeAt
      rw [length_readAt _ _ _ (by omega)]; omega
    apply ih
    · show writeData s.data (count + dest - this_move) (readAt s.data (src + count - this_move) this_move) = _
      rw [writeData_inside _ _ _ hw, hs]
    · rw [hl]; omega

/-- move_bytes only writes inside the file: a full device does not disturb it -/
theorem moveBytes_q {e : Env} (hq : Quiet e) (B : Nat) (hB : 0 < B) (dest src count : Nat) (s : FS)
    (hin : max dest src + count ≤ s.data.length) :
    ∃ s', moveBytes B dest src count e s = (.ok (), s') ∧ Moved s.data s'.data dest src dest (dest + count) := by
  unfold moveBytes
  have c1 : ¬ ((dest : Int) < 0 ∨ (src : Int) < 0 ∨ (count : Int) < 0) := by omega
  have c2 : ¬ (max (dest : Int) (src : Int) + (count : Int) > ((s.data.length : Nat) : Int)) := by omega
  simp only [c1, ↓reduceIte, bind_run, pure_run, fseekEnd_q hq, ftell_q hq, c2, Int.toNat_natCast]
  by_cases hsd : (src : Int) > (dest : Int)
  · simp only [hsd, ↓reduceIte, bind_run]
    have hsd' : dest < src := by omega
    obtain ⟨a, s', hrun, hdata⟩ := moveFwdM_q hq B hB dest src count 0 s.data
      { data := s.data, pos := s.data.length, ops := s.ops + 1 + 1, log := .tell :: .seekEnd :: s.log }
      rfl (by omega) hsd' (by omega)
    rw [hrun]
    refine ⟨_, by simp only [fflush_q hq]; rfl, ?_⟩
    simp only [hdata]
    exact moveFwd_spec B hB s.data s.data dest src count 0 hsd' (by omega) (by omega)
      (by simpa using Moved.refl s.data dest src dest)
  · simp only [hsd, ↓reduceIte, bind_run]
    have hsd' : src ≤ dest := by omega
    obtain ⟨a, s', hrun, hdata⟩ := moveBwdM_q hq B hB dest src count s.data
      { data := s.data, pos := s.data.length, ops := s.ops + 1 + 1, log := .tell :: .seekEnd :: s.log }
      rfl (by omega) hsd'
    rw [hrun]
    refine ⟨_, by simp only [fflush_q hq]; rfl, ?_⟩
    simp only [hdata]
    exact moveBwd_spec B hB s.data s.data dest src count count hsd' (by omega) (by omega)
      (Moved.refl s.data dest src (dest + count))

end Mutagen

namespace Mutagen

/-- appending at the end of the file on a device with finite capacity -/
theorem fwrite_q_end {e : Env} (hq : Quiet e) (b : Bytes) (s : FS) (hp : s.pos = s.data.length) :
    (∃ s', fwrite b e s = (.ok (), s') ∧ s'.data = s.data ++ b ∧ s'.pos = s'.data.length) ∨
    (∃ s' z, fwrite b e s = (.error .enospc, s') ∧ s'.data = s.data ++ z) := by
  unfold fwrite
  simp only [tick_q hq]
  have hok : ∀ (x : FS), x = { data := writeData s.data s.pos b, pos := s.pos + b.length, ops := s.ops + 1, log := .write b.length :: s.log } → x.data = s.data ++ b ∧ x.pos = x.data.length := by
    intro x hx
    subst hx
    constructor
    · show writeData s.data s.pos b = _
      rw [hp, writeData_end]
    · show s.pos + b.length = (writeData s.data s.pos b).length
      rw [hp, writeData_end]; simp
  cases hc : e.cap with
  | none =>
    left
    simp only [↓reduceIte]
    exact ⟨_, rfl, (hok _ rfl).1, (hok _ rfl).2⟩
  | some c =>
    simp only
    by_cases hf : (decide ((writeData s.data s.pos b).length ≤ c) ||
        decide ((writeData s.data s.pos b).length ≤ s.data.length)) = true
    · left
      rw [if_pos hf]
      exact ⟨_, rfl, (hok _ rfl).1, (hok _ rfl).2⟩
    · right
      rw [if_neg hf]
      refine ⟨_, b.take (min (e.leak b.length) (s.data.length - s.pos + ((some c).getD 0 - max s.pos s.data.length))), rfl, ?_⟩
      show writeData s.data s.pos _ = s.data ++ _
      rw [hp, writeData_end]

theorem growLoop_q {e : Env} (hq : Quiet e) (B : Nat) (hB : 0 < B) (diff : Nat) (s : FS) (hp : s.pos = s.data.length) :
    (∃ s', growLoop B diff e s = (.ok (), s') ∧ s'.data = s.data ++ zeros diff ∧ s'.pos = s'.data.length) ∨
    (∃ s' z, growLoop B diff e s = (.error .enospc, s') ∧ s'.data = s.data ++ z) := by
  fun_induction growLoop B diff generalizing s with
  | case1 => left; exact ⟨s, rfl, by simp [zeros], hp⟩
  | case2 diff h hB0 => omega
  | case3 diff h hB0 addsize ih =>
    simp only [bind_run]
    rcases fwrite_q_end hq (zeros addsize) s hp with ⟨s1, hr, hd, hp1⟩ | ⟨s1, z, hr, hd⟩
    · rw [hr]
      rcases ih s1 hp1 with ⟨s2, hr2, hd2, hp2⟩ | ⟨s2, z, hr2, hd2⟩
      · left
        refine ⟨s2, hr2, ?_, hp2⟩
        rw [hd2, hd]
        simp only [List.append_assoc, zeros, List.replicate_append_replicate]
        congr 2; omega
      · right
        exact ⟨s2, zeros addsize ++ z, hr2, by rw [hd2, hd, List.append_assoc]⟩
    · rw [hr]
      right; exact ⟨s1, z, rfl, hd⟩

/-- C19 core: growing the file either succeeds (zeros appended) or, when the device is full at
any byte of the enlargement, raises ENOSPC with the file exactly as it was — for every
capacity, every leak of the failing write and every buffer size -/
theorem resizeFile_grow_q {e : Env} (hq : Quiet e) (B : Nat) (hB : 0 < B) (size : Nat) (s : FS) :
    (∃ s', resizeFile B size e s = (.ok (), s') ∧ s'.data = s.data ++ zeros size) ∨
    (∃ s', resizeFile B size e s = (.error .enospc, s') ∧ s'.data = s.data) := by
  unfold resizeFile
  have c1 : ¬ ((size : Int) < 0) := by omega
  simp only [bind_run, fseekEnd_q hq, ftell_q hq, c1, ↓reduceIte]
  by_cases h0 : (size : Int) > 0
  · simp only [h0, ↓reduceIte, Int.toNat_natCast]
    rcases growLoop_q hq B hB size
      { data := s.data, pos := s.data.length, ops := s.ops + 1 + 1, log := .tell :: .seekEnd :: s.log } rfl with
      ⟨s1, hr, hd, _⟩ | ⟨s1, z, hr, hd⟩
    · left
      refine ⟨{ s1 with ops := s1.ops + 1, log := .flush :: s1.log }, ?_, hd⟩
      simp only [tryCatch, bind_run, hr, fflush_q hq]
    · right
      simp only [tryCatch, bind_run, hr, PyErr.isIO, ↓reduceIte, ftruncate_q hq, raise_run]
      refine ⟨_, rfl, ?_⟩
      show s1.data.take s.data.length = s.data
      rw [hd]; simp
  · have : size = 0 := by omega
    subst this
    left
    exact ⟨_, by simp; rfl, by simp [zeros]⟩

theorem resizeFile_shrink_q {e : Env} (hq : Quiet e) (B : Nat) (size : Nat) (s : FS) (h : size ≤ s.data.length) :
    ∃ s', resizeFile B (-(size : Int)) e s = (.ok (), s') ∧ s'.data = s.data.take (s.data.length - size) := by
  unfold resizeFile
  by_cases h0 : size = 0
  · subst h0
    simp only [Int.natCast_zero, Int.neg_zero, bind_run, fseekEnd_q hq, ftell_q hq, Int.lt_irrefl,
      ↓reduceIte, gt_iff_lt, pure_run]
    exact ⟨_, rfl, by simp⟩
  · have c1 : (-(size : Int)) < 0 := by omega
    have c2 : ¬ (((s.data.length : Nat) : Int) + -(size : Int) < 0) := by omega
    simp only [bind_run, fseekEnd_q hq, ftell_q hq, c1, ↓reduceIte, c2, pure_run, ftruncate_q hq]
    refine ⟨_, rfl, ?_⟩
    show s.data.take _ = _
    congr 1; omega

/-- insert_bytes is atomic with respect to ENOSPC: the growth comes first, the move only
writes inside the file -/
theorem insertBytes_q {e : Env} (hq : Quiet e) (B : Nat) (hB : 0 < B) (size offset : Nat) (s : FS)
    (ho : offset ≤ s.data.length) :
    (∃ s', insertBytes B size offset e s = (.ok (), s') ∧
      s'.data = s.data.take offset ++ readAt (s.data ++ zeros size) offset size ++ s.data.drop offset) ∨
    (∃ s', insertBytes B size offset e s = (.error .enospc, s') ∧ s'.data = s.data) := by
  unfold insertBytes
  have c1 : ¬ ((size : Int) < 0 ∨ (offset : Int) < 0) := by omega
  have c2 : ¬ (((s.data.length : Nat) : Int) - (offset : Int) < 0) := by omega
  simp only [c1, ↓reduceIte, bind_run, pure_run, fseekEnd_q hq, ftell_q hq, c2]
  rcases resizeFile_grow_q hq B hB size
    { data := s.data, pos := s.data.length, ops := s.ops + 1 + 1, log := .tell :: .seekEnd :: s.log } with
    ⟨s1, hrun1, hd1⟩ | ⟨s1, hrun1, hd1⟩
  · left
    rw [hrun1]
    simp only
    have e1 : (offset : Int) + (size : Int) = ((offset + size : Nat) : Int) := by omega
    have e2 : ((s.data.length : Nat) : Int) - (offset : Int) = ((s.data.length - offset : Nat) : Int) := by omega
    rw [e1, e2]
    obtain ⟨s2, hrun2, hm⟩ := moveBytes_q hq B hB (offset + size) offset (s.data.length - offset) s1
      (by rw [hd1]; simp; omega)
    refine ⟨s2, hrun2, ?_⟩
    rw [hd1] at hm
    have hgl : (readAt (s.data ++ zeros size) offset size).length = size := by
      apply length_readAt; simp; omega
    have hg : ∀ j, (readAt (s.data ++ zeros size) offset size)[j]? =
        if j < size then (s.data ++ zeros size)[offset + j]? else none := fun j => getElem?_readAt _ _ _ _
    generalize readAt (s.data ++ zeros size) offset size = gap at hgl hg ⊢
    apply Moved.eq_of _ _ _ _ _ _ hm
    · simp [hgl]; omega
    · intro i hi
      simp only [List.length_append, length_zeros] at hi
      simp only [List.getElem?_append, List.length_take, List.length_append, hgl, hg,
        List.getElem?_take, List.getElem?_drop]
      repeat' split
      all_goals first | rfl | omega | (congr 1; omega) | skip
  · right
    rw [hrun1]
    exact ⟨s1, rfl, hd1⟩

theorem deleteBytes_q {e : Env} (hq : Quiet e) (B : Nat) (hB : 0 < B) (size offset : Nat) (s : FS)
    (ho : offset + size ≤ s.data.length) :
    ∃ s', deleteBytes B size offset e s = (.ok (), s') ∧
      s'.data = s.data.take offset ++ s.data.drop (offset + size) := by
  unfold deleteBytes
  have c1 : ¬ ((size : Int) < 0 ∨ (offset : Int) < 0) := by omega
  have c2 : ¬ (((s.data.length : Nat) : Int) - (offset : Int) - (size : Int) < 0) := by omega
  simp only [c1, ↓reduceIte, bind_run, pure_run, fseekEnd_q hq, ftell_q hq, c2]
  have e1 : (offset : Int) + (size : Int) = ((offset + size : Nat) : Int) := by omega
  have e2 : ((s.data.length : Nat) : Int) - (offset : Int) - (size : Int)
      = ((s.data.length - offset - size : Nat) : Int) := by omega
  rw [e1, e2]
  obtain ⟨s1, hrun1, hm⟩ := moveBytes_q hq B hB offset (offset + size) (s.data.length - offset - size)
    { data := s.data, pos := s.data.length, ops := s.ops + 1 + 1, log := .tell :: .seekEnd :: s.log }
    (by simp; omega)
  rw [hrun1]
  simp only
  obtain ⟨s2, hrun2, hd2⟩ := resizeFile_shrink_q hq B size s1 (by rw [hm.1]; simp; omega)
  refine ⟨s2, hrun2, ?_⟩
  rw [hd2]
  apply List.ext_getElem?
  intro i
  have hl : s1.data.length = s.data.length := hm.1
  simp only [List.getElem?_take, hm.2, hl, List.getElem?_append, List.length_take, List.getElem?_drop]
  repeat' split
  all_goals first | rfl | omega | (congr 1; omega) | skip
  all_goals (symm; apply List.getElem?_eq_none; omega)

/-- resize_bytes on a device with finite capacity: it completes (the region has its new size,
prefix and suffix intact) or it raises ENOSPC and the file is byte-identical to before -/
theorem resizeBytes_q {e : Env} (hq : Quiet e) (B : Nat) (hB : 0 < B) (old new offset : Nat) (s : FS)
    (ho : offset + old ≤ s.data.length) :
    (∃ s' gap, resizeBytes B old new offset e s = (.ok (), s') ∧ gap.length = new - old ∧
      s'.data = s.data.take offset ++ (s.data.drop offset).take (min old new) ++ gap ++ s.data.drop (offset + old)) ∨
    (∃ s', resizeBytes B old new offset e s = (.error .enospc, s') ∧ s'.data = s.data) := by
  unfold resizeBytes
  have h0 : ¬ ((old : Int) < 0 ∨ (new : Int) < 0 ∨ (offset : Int) < 0) := by omega
  simp only [h0, ↓reduceIte]
  by_cases h1 : (new : Int) < (old : Int)
  · left
    simp only [h1, ↓reduceIte]
    have e1 : (old : Int) - (new : Int) = ((old - new : Nat) : Int) := by omega
    have e2 : (offset : Int) + (new : Int) = ((offset + new : Nat) : Int) := by omega
    rw [e1, e2]
    obtain ⟨s', hr, hd⟩ := deleteBytes_q hq B hB (old - new) (offset + new) s (by omega)
    refine ⟨s', [], hr, by simp; omega, ?_⟩
    rw [hd, show offset + new + (old - new) = offset + old by omega, show min old new = new by omega]
    simp only [List.append_nil, List.append_assoc]
    rw [← List.append_assoc, ← List.take_add]
  · by_cases h2 : (new : Int) > (old : Int)
    · simp only [h1, h2, ↓reduceIte]
      have e1 : (new : Int) - (old : Int) = ((new - old : Nat) : Int) := by omega
      have e2 : (offset : Int) + (old : Int) = ((offset + old : Nat) : Int) := by omega
      rw [e1, e2]
      rcases insertBytes_q hq B hB (new - old) (offset + old) s ho with ⟨s', hr, hd⟩ | ⟨s', hr, hd⟩
      · left
        refine ⟨s', readAt (s.data ++ zeros (new - old)) (offset + old) (new - old), hr,
          by apply length_readAt; simp; omega, ?_⟩
        rw [hd, show min old new = old by omega, ← List.take_add]
      · right; exact ⟨s', hr, hd⟩
    · left
      simp only [h1, h2, ↓reduceIte, pure_run]
      have : new = old := by omega
      subst this
      refine ⟨s, [], rfl, by simp, ?_⟩
      simp only [Nat.min_self, List.append_nil]
      rw [← List.take_add, List.take_append_drop]

end Mutagen
