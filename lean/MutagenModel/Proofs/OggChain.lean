/- Proofs/OggChain.lean — sequence numbers, continuation flags and to_packets' checks on the
pages produced by from_packets -/
import MutagenModel.Proofs.Ogg
set_option linter.unusedVariables false
namespace Mutagen.Ogg
open Mutagen

/-- continuation consistency of a page run; `c` = "the run must start continued" -/
def contOK : Bool → List Page → Prop
  | _, [] => True
  | c, p :: ps => p.continued = c ∧ (p.complete = false → p.packets ≠ []) ∧ contOK (!p.complete) ps

/-- the `continued` flag a page following `done` must carry -/
def endC : Bool → List Page → Bool
  | c, [] => c
  | _, p :: ps => endC (!p.complete) ps

theorem contOK_append (c : Bool) (xs ys : List Page) :
    contOK c (xs ++ ys) ↔ contOK c xs ∧ contOK (endC c xs) ys := by
  induction xs generalizing c with
  | nil => simp [contOK, endC]
  | cons p ps ih => simp [contOK, endC, ih, and_assoc]

theorem endC_append_singleton (c : Bool) (xs : List Page) (p : Page) :
    endC c (xs ++ [p]) = !p.complete := by
  induction xs generalizing c with
  | nil => simp [endC]
  | cons q qs ih => simp [endC, ih]

theorem step_ne_nil (acc : List Bytes) (p : Page) (h : p.packets ≠ []) : step acc p ≠ [] := by
  unfold step
  match hp : p.packets, h with
  | f :: rest, _ =>
    simp only
    split
    · rcases List.eq_nil_or_concat acc with h | ⟨l, x, h⟩
      · rw [h]; simp
      · rw [h, List.concat_eq_append, extLast_concat]; simp
    · simp

theorem step_ne_nil_of_acc (acc : List Bytes) (p : Page) (h : acc ≠ []) : step acc p ≠ [] := by
  unfold step
  split
  · exact h
  · split
    · rcases List.eq_nil_or_concat acc with h' | ⟨l, x, h'⟩
      · exact absurd h' h
      · rw [h', List.concat_eq_append, extLast_concat]; simp
    · simp [h]

theorem reasm_cons (acc : List Bytes) (p : Page) (ps : List Page) :
    reasm acc (p :: ps) = reasm (step acc p) ps := by
  simp only [reasm, step]
  cases hp : p.packets with
  | nil => rfl
  | cons f rest =>
    simp only
    split <;> rfl

/-- on a run with constant serial, consecutive sequence numbers and consistent continuation
flags, the checks of to_packets never fire and its result is the reassembly -/
theorem toPacketsLoop_eq (serial : Nat) (pages : List Page) (seq : Nat) (acc : List Bytes) (c : Bool)
    (hser : ∀ p ∈ pages, p.serial = serial)
    (hseq : pages.map (·.sequence) = List.range' seq pages.length)
    (hcont : contOK c pages) (hacc : c = true → acc ≠ []) :
    toPacketsLoop serial seq acc pages = .ok (reasm acc pages) := by
  induction pages generalizing seq acc c with
  | nil => simp [toPacketsLoop, reasm]
  | cons p ps ih =>
    have hs : p.serial = serial := hser p (List.mem_cons_self)
    simp only [List.map_cons, List.length_cons, List.range'_succ, List.cons.injEq] at hseq
    obtain ⟨hc1, hc2, hc3⟩ := hcont
    have hser' : ∀ q ∈ ps, q.serial = serial := fun q hq => hser q (List.mem_cons_of_mem _ hq)
    rw [reasm_cons]
    unfold toPacketsLoop
    simp only [hs, hseq.1, ne_eq, not_true_eq_false, ↓reduceIte]
    have hnext : (!p.complete) = true → step acc p ≠ [] := by
      intro hic
      apply step_ne_nil
      apply hc2
      simpa using hic
    match hp : p.packets with
    | [] =>
      simp only
      have : step acc p = acc := by simp [step, hp]
      rw [this]
      have hc2' : p.complete = true := by
        cases hpc : p.complete with
        | true => rfl
        | false => exact absurd hp (hc2 hpc)
      exact ih (seq + 1) acc (!p.complete) hser' hseq.2 hc3 (by simp [hc2'])
    | f :: rest =>
      simp only
      by_cases hpc : p.continued = true
      · have hne : acc ≠ [] := hacc (by rw [← hc1]; exact hpc)
        simp only [hpc, ↓reduceIte, hne]
        have : step acc p = extLast acc f ++ rest := by simp [step, hp, hpc]
        rw [this] at hnext ⊢
        exact ih (seq + 1) _ (!p.complete) hser' hseq.2 hc3 hnext
      · simp only [hpc, Bool.false_eq_true, ↓reduceIte]
        have : step acc p = acc ++ f :: rest := by simp [step, hp, hpc]
        rw [this] at hnext ⊢
        exact ih (seq + 1) _ (!p.complete) hser' hseq.2 hc3 hnext

/-! ### the bookkeeping invariant of from_packets -/

structure Inv2 (seq0 : Nat) (s : St) : Prop where
  seqs : (s.done ++ [s.cur]).map (·.sequence) = List.range' seq0 (s.done.length + 1)
  ser : ∀ p ∈ s.done ++ [s.cur], p.serial = 0
  chain : contOK false (s.done ++ [s.cur])
  compl : s.cur.complete = true

/-- changing only the packets of the current (complete) page -/
theorem Inv2.setPackets {seq0 : Nat} {s : St} (h : Inv2 seq0 s) (q : List Bytes) :
    Inv2 seq0 { s with cur := { s.cur with packets := q } } := by
  refine ⟨?_, ?_, ?_, h.compl⟩
  · simpa using h.seqs
  · intro p hp
    simp only [List.mem_append, List.mem_singleton] at hp
    rcases hp with hp | hp
    · exact h.ser p (by simp [hp])
    · subst hp; exact h.ser s.cur (by simp)
  · have := h.chain
    rw [contOK_append] at this ⊢
    refine ⟨this.1, ?_⟩
    obtain ⟨a, _, _⟩ := this.2
    exact ⟨a, fun hc => by simp [h.compl] at hc, trivial⟩

theorem range'_snoc (a n : Nat) : List.range' a (n + 1) = List.range' a n ++ [a + n] := by
  rw [List.range'_concat]; simp

/-- appending a finished page `old` (same sequence number and serial as `cur`) and opening a
new current page with the next sequence number -/
theorem Inv2.brk {seq0 : Nat} {s : St} (h : Inv2 seq0 s) (old : Page) (pk : List Bytes) (cont : Bool)
    (hseq : old.sequence = s.cur.sequence) (hser : old.serial = 0)
    (hcontd : old.continued = s.cur.continued)
    (hpk : old.complete = false → old.packets ≠ [])
    (hc : cont = !old.complete) :
    Inv2 seq0 { done := s.done ++ [old],
                cur := { packets := pk, continued := cont, sequence := s.cur.sequence + 1 } } := by
  have hs := h.seqs
  simp only [List.map_append, List.map_cons, List.map_nil, range'_snoc] at hs
  have hs1 := List.append_inj' hs (by simp)
  refine ⟨?_, ?_, ?_, rfl⟩
  · simp only [List.map_append, List.map_cons, List.map_nil, List.length_append, List.length_cons,
      List.length_nil, range'_snoc, hseq]
    rw [hs1.1]
    have : s.cur.sequence = seq0 + s.done.length := by simpa using hs1.2
    simp [this]; omega
  · intro p hp
    simp only [List.mem_append, List.mem_singleton] at hp
    rcases hp with (hp | hp) | hp
    · exact h.ser p (by simp [hp])
    · subst hp; exact hser
    · subst hp; rfl
  · have := h.chain
    rw [contOK_append] at this
    rw [contOK_append, contOK_append]
    obtain ⟨a, _, _⟩ := this.2
    refine ⟨⟨this.1, ?_⟩, ?_⟩
    · exact ⟨by rw [hcontd]; exact a, hpk, trivial⟩
    · rw [endC_append_singleton]
      exact ⟨hc, fun hcc => by simp at hcc, trivial⟩

theorem inner_inv2 (pol : Policy) (chunk wiggle : Nat) (hc : 0 < chunk) (seq0 : Nat)
    (s : St) (packet : Bytes) (h : Inv2 seq0 s) : Inv2 seq0 (inner pol chunk wiggle hc s packet) := by
  fun_induction inner pol chunk wiggle hc s packet with
  | case1 s => exact h
  | case2 s packet hpk data rest s1 hw =>
    have h1 : Inv2 seq0 s1 := by
      simp only [s1]
      split
      · exact h.setPackets _
      · split
        · rename_i l hl
          split
          · rename_i hne
            exact h.brk _ _ _ rfl (h.ser s.cur (by simp)) rfl
              (fun _ => by intro he; rw [he] at hl; simp at hl) rfl
          · exact h.brk _ _ _ rfl (h.ser s.cur (by simp)) rfl
              (fun hcf => by simp [h.compl] at hcf) rfl
        · exact h
    exact h1.setPackets _
  | case3 s packet hpk data rest s1 hw ih =>
    have h1 : Inv2 seq0 s1 := by
      simp only [s1]
      split
      · exact h.setPackets _
      · split
        · rename_i l hl
          split
          · rename_i hne
            exact h.brk _ _ _ rfl (h.ser s.cur (by simp)) rfl
              (fun _ => by intro he; rw [he] at hl; simp at hl) rfl
          · exact h.brk _ _ _ rfl (h.ser s.cur (by simp)) rfl
              (fun hcf => by simp [h.compl] at hcf) rfl
        · exact h
    exact ih h1

theorem outer_inv2 (pol : Policy) (chunk wiggle : Nat) (hc : 0 < chunk) (seq0 : Nat)
    (s : St) (ps : List Bytes) (h : Inv2 seq0 s) : Inv2 seq0 (outer pol chunk wiggle hc s ps) := by
  induction ps generalizing s with
  | nil => simpa [outer] using h
  | cons p ps ih =>
    simp only [outer]
    apply ih
    apply inner_inv2
    have hf : Inv2 seq0 (if pol.pre s.cur = true ∧ s.cur.packets ≠ [] then
        ({ done := s.done ++ [s.cur], cur := { sequence := s.cur.sequence + 1 } } : St) else s) := by
      split
      · have := h.brk s.cur [] false rfl (h.ser s.cur (by simp)) rfl
          (fun hcf => by simp [h.compl] at hcf) (by simp [h.compl])
        exact this
      · exact h
    exact hf.setPackets _

theorem init_inv2 (seq : Nat) : Inv2 seq { done := [], cur := { sequence := seq } } :=
  ⟨by simp [List.range'], by simp, by simp [contOK], rfl⟩

end Mutagen.Ogg
