/- Proofs/DictMp4.lean — `MP4Tags` refines the reference dictionary (C16) -/
import MutagenModel.Model.DictMp4
import MutagenModel.Proofs.DictK
set_option linter.unusedVariables false
set_option linter.unusedSimpArgs false
namespace Mutagen.Dict
open Mutagen

/-- invariant of an `MP4Tags` filled through its dictionary interface: unique keys, and every
stored pair passed the render check (so every key is a Latin-1 `str` and `save` will not meet
a value it cannot render) -/
def Mp4Inv (s : Mp4) : Prop := NodupKeys s ∧ ∀ p ∈ s, mp4Check p.1 p.2 = .ok ()

theorem mp4Check_ok_str (k : PKey) (v : PVal) (h : mp4Check k v = .ok ()) : ∃ t, k = .str t := by
  cases k <;> simp [mp4Check] at h
  exact ⟨_, rfl⟩

theorem mp4Check_ok_hashable (k : PKey) (v : PVal) (h : mp4Check k v = .ok ()) : k.hashable = true := by
  obtain ⟨t, rfl⟩ := mp4Check_ok_str k v h
  rfl

theorem mp4Check_unhashable (k : PKey) (v : PVal) (h : k.hashable = false) : mp4Check k v = .error .type_ := by
  cases k <;> simp [PKey.hashable] at h
  rfl

theorem mp4Inv_nil : Mp4Inv [] := ⟨List.nodup_nil, fun p hp => by simp at hp⟩

theorem mp4_refines_aux : KRefines mp4Impl mp4Policy Mp4Inv (fun s => s) where
  nodup := fun s hs => hs.1
  keys := fun s hs => by
    simp only [mp4Impl, keysOf, List.map_map]
    apply List.map_congr_left
    intro p hp
    simp [mp4Policy, mp4Check_ok_hashable _ _ (hs.2 p hp)]
  get := fun s k hs => by
    simp only [mp4Impl, mp4Get, Ref.get, KPolicy.keys, mp4Policy]
    cases k.hashable <;> simp
  set := fun s k v hs => by
    simp only [mp4Impl, mp4Set, KRef.set, mp4Policy]
    cases hc : mp4Check k v with
    | error e =>
      cases hh : k.hashable with
      | false => rw [mp4Check_unhashable k v hh] at hc; cases hc; simp [SimStep]
      | true => simp [SimStep]
    | ok u =>
      cases u
      simp only [mp4Check_ok_hashable k v hc, ↓reduceIte, SimStep]
      refine ⟨⟨nodup_insert _ _ _ hs.1, ?_⟩, SameMap.refl _⟩
      intro p hp
      rcases mem_insert_cases _ _ _ _ hp with h | h
      · subst h; exact hc
      · exact hs.2 p h
  del := fun s k hs => by
    simp only [mp4Impl, mp4Del, Ref.del, KPolicy.keys, mp4Policy]
    cases hh : k.hashable with
    | false => simp [SimStep]
    | true =>
      simp only [↓reduceIte]
      cases hl : lookup k s with
      | none => simp [SimStep]
      | some v =>
        simp only [SimStep]
        exact ⟨⟨nodup_erase _ _ hs.1, fun p hp => hs.2 p (mem_of_mem_erase _ _ _ hp)⟩, SameMap.refl _⟩

/-! ### exception classes of `__setitem__` -/

theorem unpack2_noFloat (i : Item) (p : Prim × Prim) (h : i.noFloat = true) (hu : unpack2 i = .ok p) :
    p.1.isFloat = false ∧ p.2.isFloat = false := by
  cases i with
  | prim q =>
    cases q with
    | str t =>
      match t, hu with
      | [a, b], hu => simp [unpack2] at hu; subst hu; exact ⟨rfl, rfl⟩
    | bytes t =>
      match t, hu with
      | [a, b], hu => simp [unpack2] at hu; subst hu; exact ⟨rfl, rfl⟩
    | int n => simp [unpack2] at hu
    | none => simp [unpack2] at hu
    | bool b => simp [unpack2] at hu
    | float m => simp [unpack2] at hu
  | tuple l =>
    match l, hu, h with
    | [a, b], hu, h =>
      simp [unpack2] at hu; subst hu
      simpa [Item.noFloat] using h
  | cover t f =>
    match t, hu with
    | [a, b], hu => simp [unpack2] at hu; subst hu; exact ⟨rfl, rfl⟩
  | asf ty q => simp [unpack2] at hu

theorem checkPair_err (p : Prim × Prim) (e : PyErr) (h1 : p.1.isFloat = false) (h2 : p.2.isFloat = false)
    (h : checkPair p = .error e) : e = .type_ ∨ e = .value := by
  unfold checkPair at h
  rcases p with ⟨a, b⟩
  cases a <;> cases b <;> simp_all [inU16, Prim.isFloat] <;> (repeat' split at h) <;> simp_all

theorem checkPairs_err (c : Bool) (l : List Item) (e : PyErr) (hl : ∀ i ∈ l, i.noFloat = true)
    (h : checkPairs c l = .error e) : e = .type_ ∨ e = .value := by
  induction l with
  | nil => simp [checkPairs] at h
  | cons i t ih =>
    simp only [checkPairs] at h
    cases hu : unpack2 i with
    | error e' =>
      simp only [hu, Except.error.injEq] at h
      have : e' = .type_ ∨ e' = .value := by
        cases i with
        | prim q => cases q <;> simp [unpack2] at hu <;> first | (left; exact hu.symm) | skip
                    all_goals (split at hu <;> simp_all)
        | tuple l => unfold unpack2 at hu; split at hu <;> simp_all
        | cover b f => unfold unpack2 at hu; split at hu <;> simp_all
        | asf ty q => simp [unpack2] at hu; left; exact hu.symm
      subst h
      rcases this with h1 | h1 <;> subst h1 <;> cases c <;> simp
    | ok p =>
      simp only [hu] at h
      obtain ⟨h1, h2⟩ := unpack2_noFloat i p (hl i (by simp)) hu
      cases hc : checkPair p with
      | error e' =>
        simp only [hc, Except.error.injEq] at h
        subst h
        exact checkPair_err p e' h1 h2 hc
      | ok u =>
        simp only [hc] at h
        exact ih (fun j hj => hl j (by simp [hj])) h

theorem iterVal_noFloat (v : PVal) (l : List Item) (hv : v.noFloat = true) (h : iterVal v = .ok l) :
    ∀ i ∈ l, i.noFloat = true := by
  cases v with
  | list l' =>
    simp [iterVal] at h; subst h
    simpa [PVal.noFloat] using hv
  | item it =>
    cases it with
    | prim q =>
      cases q <;> simp [iterVal] at h <;> subst h <;> intro i hi <;> simp at hi <;>
        obtain ⟨_, _, rfl⟩ := hi <;> rfl
    | tuple t =>
      simp [iterVal] at h; subst h
      intro i hi
      simp at hi
      obtain ⟨q, hq, rfl⟩ := hi
      simp [PVal.noFloat, Item.noFloat] at hv
      simpa [Item.noFloat] using hv q hq
    | cover b f =>
      simp [iterVal] at h; subst h; intro i hi; simp at hi; obtain ⟨_, _, rfl⟩ := hi; rfl
    | asf ty q => simp [iterVal] at h

theorem iterVal_err (v : PVal) (e : PyErr) (h : iterVal v = .error e) : e = .type_ := by
  cases v with
  | list l => simp [iterVal] at h
  | item it => cases it with
    | prim q => cases q <;> simp [iterVal] at h <;> exact h.symm
    | tuple _ => simp [iterVal] at h
    | cover _ _ => simp [iterVal] at h
    | asf _ _ => simp [iterVal] at h; exact h.symm

theorem mp4Check_err_classes (k : PKey) (v : PVal) (e : PyErr) (hv : v.noFloat = true)
    (h : mp4Check k v = .error e) : e = .type_ ∨ e = .value := by
  cases k with
  | str t =>
    simp only [mp4Check] at h
    split at h
    · split at h
      · unfold mp4CheckFreeform at h
        (repeat' split at h) <;> simp_all
        rename_i hi; exact Or.inl (iterVal_err _ _ hi)
      · simp only [mp4CheckPair] at h
        cases hi : iterVal v with
        | error e' => simp [hi] at h; subst h; exact Or.inl (iterVal_err _ _ hi)
        | ok l => simp [hi] at h; exact checkPairs_err _ l e (iterVal_noFloat v l hv hi) h
      · simp only [mp4CheckPair] at h
        cases hi : iterVal v with
        | error e' => simp [hi] at h; subst h; exact Or.inl (iterVal_err _ _ hi)
        | ok l => simp [hi] at h; exact checkPairs_err _ l e (iterVal_noFloat v l hv hi) h
      · simp_all
      · unfold mp4CheckInt at h; (repeat' split at h) <;> simp_all
      · simp at h
      · unfold mp4CheckCover at h
        (repeat' split at h) <;> simp_all
        rename_i hi; exact Or.inl (iterVal_err _ _ hi)
      · unfold mp4CheckText at h
        (repeat' split at h) <;> simp_all
        rename_i hi; exact Or.inl (iterVal_err _ _ hi)
    · simp_all
  | _ => simp [mp4Check] at h; exact Or.inl h.symm

end Mutagen.Dict
