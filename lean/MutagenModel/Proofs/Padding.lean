/- Proofs/Padding.lean — arithmetic of the default padding policy (regenerated from source) -/
import MutagenModel.Model.Padding
namespace Mutagen
open Generated

theorem defaultPadding_nonneg (p : Int) (size : Nat) : 0 ≤ defaultPadding p size := by
  unfold defaultPadding; simp only; split <;> (try split) <;> omega

/-- an existing padding of moderate size (up to 10 KiB + 1 % of the trailing data) is kept as is -/
theorem defaultPadding_keeps (p : Int) (size : Nat) (h0 : 0 ≤ p) (h1 : p ≤ 10240 + (size / 100 : Nat)) :
    defaultPadding p size = p := by
  unfold defaultPadding; simp only; split <;> (try split) <;> omega

theorem defaultPadding_idempotent (p : Int) (size : Nat) :
    defaultPadding (defaultPadding p size) size = defaultPadding p size := by
  apply defaultPadding_keeps
  · exact defaultPadding_nonneg p size
  · unfold defaultPadding; simp only; split <;> (try split) <;> omega

/-- edits that fit into existing padding of up to 1 KiB never change the padding answer away
from "what is left" -/
theorem defaultPadding_fits_small (p : Int) (size : Nat) (h0 : 0 ≤ p) (h1 : p ≤ 1024) :
    defaultPadding p size = p := defaultPadding_keeps p size h0 (by omega)

theorem getPadding_default (p : Int) (size : Nat) :
    getPadding .default p size = getPadding (.callback defaultPadding) p size := rfl

end Mutagen
