/-
Proofs/FileOps.lean — helper lemmas for C11/C19/C06: pointwise behaviour of readAt /
writeAt, the pure kernels of the two move loops with their loop invariants, and the
fault-free runs of the FileM programs.
-/
import MutagenModel.Model.FileOps
set_option linter.unusedVariables false
namespace Mutagen

/-! ### readAt / writeAt -/

theorem length_writeAt (f : Bytes) (pos : Nat) (buf : Bytes) (h : pos + buf.length ≤ f.length) :
    (writeAt f pos buf).length = f.length := by
  simp [writeAt]; omega

theorem getElem?_writeAt (f : Bytes) (pos : Nat) (buf : Bytes) (i : Nat)
    (h : pos + buf.length ≤ f.length) :
    (writeAt f pos buf)[i]? =
      if i < pos then f[i]? else if i < pos + buf.length then buf[i - pos]? else f[i]? := by
  unfold writeAt
  simp only [List.getElem?_append, List.length_append, List.length_take, List.getElem?_take,
    List.getElem?_drop]
  grind

theorem getElem?_readAt (f : Bytes) (pos n i : Nat) :
    (readAt f pos n)[i]? = if i < n then f[pos + i]? else none := by
  unfold readAt
  simp only [List.getElem?_take, List.getElem?_drop]

theorem length_readAt (f : Bytes) (pos n : Nat) (h : pos + n ≤ f.length) :
    (readAt f pos n).length = n := by
  simp [readAt]; omega

theorem writeData_inside (d : Bytes) (pos : Nat) (b : Bytes) (h : pos ≤ d.length) :
    writeData d pos b = writeAt d pos b := by
  have : pos - d.length = 0 := by omega
  simp [writeData, writeAt, this, zeros]

/-! ### pure kernels of the move loops -/

def moveFwd (B : Nat) (f : Bytes) (dest src count moved : Nat) : Bytes :=
  if h : count - moved = 0 ∨ B = 0 then f else
    let this_move := min B (count - moved)
    moveFwd B (writeAt f (dest + moved) (readAt f (src + moved) this_move)) dest src count
      (moved + this_move)
termination_by count - moved
decreasing_by simp only [not_or] at h; omega

def moveBwd (B : Nat) (f : Bytes) (dest src count : Nat) : Bytes :=
  if h : count = 0 ∨ B = 0 then f else
    let this_move := min B count
    moveBwd B (writeAt f (count + dest - this_move) (readAt f (src + count - this_move) this_move))
      dest src (count - this_move)
termination_by count
decreasing_by simp only [not_or] at h; omega

/-- `g` is `f` with `f[src+lo-dest … )` copied to positions `[lo, hi)` -/
def Moved (f g : Bytes) (dest src lo hi : Nat) : Prop :=
  g.length = f.length ∧
  ∀ i, g[i]? = if lo ≤ i ∧ i < hi then f[src + (i - dest)]? else f[i]?

theorem Moved.refl (f : Bytes) (dest src lo : Nat) : Moved f f dest src lo lo := by
  refine ⟨rfl, fun i => ?_⟩
  have : ¬ (lo ≤ i ∧ i < lo) := by omega
  simp [this]

theorem moveFwd_spec (B : Nat) (hB : 0 < B) (f g : Bytes) (dest src count moved : Nat)
    (hsd : dest < src) (hin : src + count ≤ f.length) (hm : moved ≤ count)
    (hg : Moved f g dest src dest (dest + moved)) :
    Moved f (moveFwd B g dest src count moved) dest src dest (dest + count) := by
  fun_induction moveFwd B g dest src count moved with
  | case1 g moved h =>
    have : moved = count := by omega
    subst this; exact hg
  | case2 g moved h this_move ih =>
    apply ih
    · omega
    · obtain ⟨hl, hp⟩ := hg
      have hbl : (readAt g (src + moved) this_move).length = this_move := by
        apply length_readAt; omega
      have hw : (dest + moved) + (readAt g (src + moved) this_move).length ≤ g.length := by omega
      refine ⟨by rw [length_writeAt _ _ _ hw]; exact hl, ?_⟩
      intro i
      rw [getElem?_writeAt _ _ _ _ hw, hbl]
      simp only [getElem?_readAt, hp]
      repeat' split
      all_goals first | rfl | omega | (congr 1; omega)

theorem moveBwd_spec (B : Nat) (hB : 0 < B) (f g : Bytes) (dest src count0 count : Nat)
    (hsd : src ≤ dest) (hin : dest + count0 ≤ f.length) (hm : count ≤ count0)
    (hg : Moved f g dest src (dest + count) (dest + count0)) :
    Moved f (moveBwd B g dest src count) dest src dest (dest + count0) := by
  fun_induction moveBwd B g dest src count with
  | case1 g count h =>
    have : count = 0 := by omega
    subst this; simpa using hg
  | case2 g count h this_move ih =>
    apply ih
    · omega
    · obtain ⟨hl, hp⟩ := hg
      have hbl : (readAt g (src + count - this_move) this_move).length = this_move := by
        apply length_readAt; omega
      have hw : (count + dest - this_move) + (readAt g (src + count - this_move) this_move).length
          ≤ g.length := by omega
      refine ⟨by rw [length_writeAt _ _ _ hw]; exact hl, ?_⟩
      intro i
      rw [getElem?_writeAt _ _ _ _ hw, hbl]
      simp only [getElem?_readAt, hp]
      repeat' split
      all_goals first | rfl | omega | (congr 1; omega)

end Mutagen

namespace Mutagen
/-! ### fault-free runs of the primitives -/

@[simp] theorem tick_clean (o : Op) (s : FS) :
    tick o Env.clean s = (.ok (), { s with ops := s.ops + 1, log := o :: s.log }) := rfl

@[simp] theorem fseek_clean (p : Nat) (s : FS) :
    fseek p Env.clean s = (.ok (), { data := s.data, pos := p, ops := s.ops + 1, log := .seek p :: s.log }) := rfl

@[simp] theorem fseekEnd_clean (s : FS) :
    fseekEnd Env.clean s =
      (.ok (), { data := s.data, pos := s.data.length, ops := s.ops + 1, log := .seekEnd :: s.log }) := rfl

@[simp] theorem ftell_clean (s : FS) :
    ftell Env.clean s = (.ok s.pos, { s with ops := s.ops + 1, log := .tell :: s.log }) := rfl

@[simp] theorem fflush_clean (s : FS) :
    fflush Env.clean s = (.ok (), { s with ops := s.ops + 1, log := .flush :: s.log }) := rfl

@[simp] theorem fread_clean (n : Nat) (s : FS) :
    fread n Env.clean s =
      (.ok (readAt s.data s.pos n),
       { data := s.data, pos := s.pos + (readAt s.data s.pos n).length, ops := s.ops + 1,
         log := .read n :: s.log }) := rfl

@[simp] theorem fwrite_clean (b : Bytes) (s : FS) :
    fwrite b Env.clean s =
      (.ok (), { data := writeData s.data s.pos b, pos := s.pos + b.length, ops := s.ops + 1,
                 log := .write b.length :: s.log }) := rfl

@[simp] theorem ftruncate_clean (n : Nat) (s : FS) :
    ftruncate n Env.clean s =
      (.ok (), { data := s.data.take n, pos := s.pos, ops := s.ops + 1, log := .truncate n :: s.log }) := rfl

theorem readFull_clean (n : Nat) (s : FS) (h : s.pos + n ≤ s.data.length) :
    readFull n Env.clean s =
      (.ok (readAt s.data s.pos n),
       { data := s.data, pos := s.pos + n, ops := s.ops + 1, log := .read n :: s.log }) := by
  have hl : (readAt s.data s.pos n).length = n := length_readAt _ _ _ h
  have c1 : ¬ ((n : Int) < 0) := by omega
  simp [readFull, bind_run, c1, hl]

theorem moveStep_clean (a b n : Nat) (s : FS) (h : a + n ≤ s.data.length) :
    moveStep a b n Env.clean s =
      (.ok (), { data := writeData s.data b (readAt s.data a n), pos := b + (readAt s.data a n).length,
                 ops := s.ops + 4,
                 log := .write (readAt s.data a n).length :: .seek b :: .read n :: .seek a :: s.log }) := by
  have hl : (readAt s.data a n).length = n := length_readAt _ _ _ h
  unfold moveStep
  simp only [bind_run, fseek_clean]
  rw [readFull_clean n _ (by simpa using h)]
  simp [hl]

/-- the number of mutating calls in a log -/
def mutCount (l : List Op) : Nat := (l.filter Op.mutates).length

/-- "`m` started in `s` runs fault-free to a normal return with file content `d`" -/
def CleanOk (m : FileM α) (s : FS) (d : Bytes) : Prop :=
  ∃ a s', m Env.clean s = (.ok a, s') ∧ s'.data = d

theorem moveFwdM_clean (B : Nat) (hB : 0 < B) (dest src count moved : Nat) (f : Bytes) (s : FS)
    (hs : s.data = f) (hin : src + count ≤ f.length) (hsd : dest < src) (hm : moved ≤ count) :
    CleanOk (moveFwdM B dest src count moved) s (moveFwd B f dest src count moved) := by
  fun_induction moveFwd B f dest src count moved generalizing s with
  | case1 f moved h =>
    have h' : count - moved = 0 := by omega
    exact ⟨(), s, by unfold moveFwdM; simp [h'], hs⟩
  | case2 f moved h this_move ih =>
    have h1 : ¬ (count - moved = 0) := by omega
    have h2 : ¬ (B = 0) := by omega
    unfold CleanOk
    unfold moveFwdM
    simp only [h1, h2, ↓reduceDIte, bind_run]
    rw [moveStep_clean _ _ _ s (by rw [hs]; omega)]
    have hw : dest + moved ≤ s.data.length := by rw [hs]; omega
    have hl : (writeAt f (dest + moved) (readAt f (src + moved) this_move)).length = f.length := by
      apply length_writeAt
      rw [length_readAt _ _ _ (by omega)]; omega
    apply ih
    · show writeData s.data (dest + moved) (readAt s.data (src + moved) this_move) = _
      rw [writeData_inside _ _ _ hw, hs]
    · rw [hl]; exact hin
    · omega

theorem moveBwdM_clean (B : Nat) (hB : 0 < B) (dest src count : Nat) (f : Bytes) (s : FS)
    (hs : s.data = f) (hin : dest + count ≤ f.length) (hsd : src ≤ dest) :
    CleanOk (moveBwdM B dest src count) s (moveBwd B f dest src count) := by
  fun_induction moveBwd B f dest src count generalizing s with
  | case1 f count h =>
    have h' : count = 0 := by omega
    exact ⟨(), s, by unfold moveBwdM; simp [h'], hs⟩
  | case2 f count h this_move ih =>
    have h1 : ¬ (count = 0) := by omega
    have h2 : ¬ (B = 0) := by omega
    unfold CleanOk
    unfold moveBwdM
    simp only [h1, h2, ↓reduceDIte, bind_run]
    rw [moveStep_clean _ _ _ s (by rw [hs]; omega)]
    have hw : count + dest - this_move ≤ s.data.length := by rw [hs]; omega
    have hl : (writeAt f (count + dest - this_move) (readAt f (src + count - this_move) this_move)).length
        = f.length := by
      apply length_writeAt
      rw [length_readAt _ _ _ (by omega)]; omega
    apply ih
    · show writeData s.data (count + dest - this_move) (readAt s.data (src + count - this_move) this_move) = _
      rw [writeData_inside _ _ _ hw, hs]
    · rw [hl]; omega

end Mutagen

namespace Mutagen
/-! ### fault-free runs of the composite programs -/

theorem moveBytes_clean (B : Nat) (hB : 0 < B) (dest src count : Nat) (s : FS)
    (hin : max dest src + count ≤ s.data.length) :
    ∃ s', moveBytes B dest src count Env.clean s = (.ok (), s') ∧
      Moved s.data s'.data dest src dest (dest + count) := by
  unfold moveBytes
  have c1 : ¬ ((dest : Int) < 0 ∨ (src : Int) < 0 ∨ (count : Int) < 0) := by omega
  have c2 : ¬ (max (dest : Int) (src : Int) + (count : Int) > ((s.data.length : Nat) : Int)) := by omega
  simp only [c1, ↓reduceIte, bind_run, pure_run, fseekEnd_clean, ftell_clean, c2, Int.toNat_natCast]
  by_cases hsd : (src : Int) > (dest : Int)
  · simp only [hsd, ↓reduceIte, bind_run]
    have hsd' : dest < src := by omega
    obtain ⟨a, s', hrun, hdata⟩ := moveFwdM_clean B hB dest src count 0 s.data
      { data := s.data, pos := s.data.length, ops := s.ops + 1 + 1, log := .tell :: .seekEnd :: s.log }
      rfl (by omega) hsd' (by omega)
    rw [hrun]
    refine ⟨_, by simp only [fflush_clean]; rfl, ?_⟩
    simp only [hdata]
    exact moveFwd_spec B hB s.data s.data dest src count 0 hsd' (by omega) (by omega)
      (by simpa using Moved.refl s.data dest src dest)
  · simp only [hsd, ↓reduceIte, bind_run]
    have hsd' : src ≤ dest := by omega
    obtain ⟨a, s', hrun, hdata⟩ := moveBwdM_clean B hB dest src count s.data
      { data := s.data, pos := s.data.length, ops := s.ops + 1 + 1, log := .tell :: .seekEnd :: s.log }
      rfl (by omega) hsd'
    rw [hrun]
    refine ⟨_, by simp only [fflush_clean]; rfl, ?_⟩
    simp only [hdata]
    exact moveBwd_spec B hB s.data s.data dest src count count hsd' (by omega) (by omega)
      (Moved.refl s.data dest src (dest + count))

theorem writeData_end (d b : Bytes) : writeData d d.length b = d ++ b := by
  simp [writeData, zeros]

theorem growLoop_clean (B : Nat) (hB : 0 < B) (diff : Nat) (s : FS) (hp : s.pos = s.data.length) :
    ∃ s', growLoop B diff Env.clean s = (.ok (), s') ∧ s'.data = s.data ++ zeros diff ∧
      s'.pos = s'.data.length := by
  fun_induction growLoop B diff generalizing s with
  | case1 => exact ⟨s, rfl, by simp [zeros], hp⟩
  | case2 diff h hB0 => omega
  | case3 diff h hB0 addsize ih =>
    simp only [bind_run, fwrite_clean]
    obtain ⟨s', hrun, hd, hpos⟩ := ih
      { data := writeData s.data s.pos (zeros addsize), pos := s.pos + (zeros addsize).length,
        ops := s.ops + 1, log := .write (zeros addsize).length :: s.log }
      (by simp only [hp, writeData_end, List.length_append])
    refine ⟨s', hrun, ?_, hpos⟩
    rw [hd]
    simp only [hp, writeData_end, List.append_assoc, zeros, List.replicate_append_replicate]
    congr 2; omega

end Mutagen

namespace Mutagen

theorem tryCatch_ok (body : FileM α) (pred : PyErr → Bool) (h : PyErr → FileM α) (e : Env) (s s' : FS)
    (a : α) (hb : body e s = (.ok a, s')) : tryCatch body pred h e s = (.ok a, s') := by
  simp [tryCatch, hb]

theorem resizeFile_grow_clean (B : Nat) (hB : 0 < B) (size : Nat) (s : FS) :
    ∃ s', resizeFile B size Env.clean s = (.ok (), s') ∧ s'.data = s.data ++ zeros size := by
  unfold resizeFile
  have c1 : ¬ ((size : Int) < 0) := by omega
  simp only [bind_run, fseekEnd_clean, ftell_clean, c1, ↓reduceIte]
  by_cases h0 : (size : Int) > 0
  · simp only [h0, ↓reduceIte, Int.toNat_natCast]
    obtain ⟨s1, hrun, hd, _⟩ := growLoop_clean B hB size
      { data := s.data, pos := s.data.length, ops := s.ops + 1 + 1, log := .tell :: .seekEnd :: s.log } rfl
    refine ⟨{ s1 with ops := s1.ops + 1, log := .flush :: s1.log }, ?_, hd⟩
    apply tryCatch_ok
    simp only [bind_run, hrun, fflush_clean]
  · have : size = 0 := by omega
    subst this
    exact ⟨_, by simp; rfl, by simp [zeros]⟩

theorem resizeFile_shrink_clean (B : Nat) (size : Nat) (s : FS) (h : size ≤ s.data.length) :
    ∃ s', resizeFile B (-(size : Int)) Env.clean s = (.ok (), s') ∧
      s'.data = s.data.take (s.data.length - size) := by
  unfold resizeFile
  by_cases h0 : size = 0
  · subst h0
    simp only [Int.natCast_zero, Int.neg_zero, bind_run, fseekEnd_clean, ftell_clean, Int.lt_irrefl,
      ↓reduceIte, gt_iff_lt, pure_run]
    exact ⟨_, rfl, by simp⟩
  · have c1 : (-(size : Int)) < 0 := by omega
    have c2 : ¬ (((s.data.length : Nat) : Int) + -(size : Int) < 0) := by omega
    simp only [bind_run, fseekEnd_clean, ftell_clean, c1, ↓reduceIte, c2, pure_run, ftruncate_clean]
    refine ⟨_, rfl, ?_⟩
    show s.data.take _ = _
    congr 1; omega

/-- list-level reading of `Moved` -/
theorem Moved.eq_of (f g : Bytes) (dest src lo hi : Nat) (h : Moved f g dest src lo hi) (r : Bytes)
    (hr : r.length = f.length)
    (hp : ∀ i, i < f.length → r[i]? = if lo ≤ i ∧ i < hi then f[src + (i - dest)]? else f[i]?) :
    g = r := by
  apply List.ext_getElem?
  intro i
  by_cases hi' : i < f.length
  · rw [h.2, hp i hi']
  · have h1 : g.length ≤ i := by rw [h.1]; omega
    have h2 : r.length ≤ i := by rw [hr]; omega
    rw [List.getElem?_eq_none h1, List.getElem?_eq_none h2]

theorem insertBytes_clean (B : Nat) (hB : 0 < B) (size offset : Nat) (s : FS)
    (ho : offset ≤ s.data.length) :
    ∃ s', insertBytes B size offset Env.clean s = (.ok (), s') ∧
      s'.data = s.data.take offset ++ readAt (s.data ++ zeros size) offset size ++ s.data.drop offset := by
  unfold insertBytes
  have c1 : ¬ ((size : Int) < 0 ∨ (offset : Int) < 0) := by omega
  have c2 : ¬ (((s.data.length : Nat) : Int) - (offset : Int) < 0) := by omega
  simp only [c1, ↓reduceIte, bind_run, pure_run, fseekEnd_clean, ftell_clean, c2]
  obtain ⟨s1, hrun1, hd1⟩ := resizeFile_grow_clean B hB size
    { data := s.data, pos := s.data.length, ops := s.ops + 1 + 1, log := .tell :: .seekEnd :: s.log }
  rw [hrun1]
  simp only
  have e1 : (offset : Int) + (size : Int) = ((offset + size : Nat) : Int) := by omega
  have e2 : ((s.data.length : Nat) : Int) - (offset : Int) = ((s.data.length - offset : Nat) : Int) := by omega
  rw [e1, e2]
  obtain ⟨s2, hrun2, hm⟩ := moveBytes_clean B hB (offset + size) offset (s.data.length - offset) s1
    (by rw [hd1]; simp; omega)
  refine ⟨s2, hrun2, ?_⟩
  rw [hd1] at hm
  have hgl : (readAt (s.data ++ zeros size) offset size).length = size := by
    apply length_readAt; simp; omega
  have hg : ∀ j, (readAt (s.data ++ zeros size) offset size)[j]? =
      if j < size then (s.data ++ zeros size)[offset + j]? else none := fun j => getElem?_readAt _ _ _ _
  generalize readAt (s.data ++ zeros size) offset size = gap at hgl hg ⊢
  apply Moved.eq_of _ _ _ _ _ _ hm
  · simp [hgl]; omega
  · intro i hi
    simp only [List.length_append, length_zeros] at hi
    simp only [List.getElem?_append, List.length_take, List.length_append, hgl, hg,
      List.getElem?_take, List.getElem?_drop]
    repeat' split
    all_goals first | rfl | omega | (congr 1; omega) | skip

theorem deleteBytes_clean (B : Nat) (hB : 0 < B) (size offset : Nat) (s : FS)
    (ho : offset + size ≤ s.data.length) :
    ∃ s', deleteBytes B size offset Env.clean s = (.ok (), s') ∧
      s'.data = s.data.take offset ++ s.data.drop (offset + size) := by
  unfold deleteBytes
  have c1 : ¬ ((size : Int) < 0 ∨ (offset : Int) < 0) := by omega
  have c2 : ¬ (((s.data.length : Nat) : Int) - (offset : Int) - (size : Int) < 0) := by omega
  simp only [c1, ↓reduceIte, bind_run, pure_run, fseekEnd_clean, ftell_clean, c2]
  have e1 : (offset : Int) + (size : Int) = ((offset + size : Nat) : Int) := by omega
  have e2 : ((s.data.length : Nat) : Int) - (offset : Int) - (size : Int)
      = ((s.data.length - offset - size : Nat) : Int) := by omega
  rw [e1, e2]
  obtain ⟨s1, hrun1, hm⟩ := moveBytes_clean B hB offset (offset + size) (s.data.length - offset - size)
    { data := s.data, pos := s.data.length, ops := s.ops + 1 + 1, log := .tell :: .seekEnd :: s.log }
    (by simp; omega)
  rw [hrun1]
  simp only
  obtain ⟨s2, hrun2, hd2⟩ := resizeFile_shrink_clean B size s1 (by rw [hm.1]; simp; omega)
  refine ⟨s2, hrun2, ?_⟩
  rw [hd2]
  apply List.ext_getElem?
  intro i
  have hl : s1.data.length = s.data.length := hm.1
  simp only [List.getElem?_take, hm.2, hl, List.getElem?_append, List.length_take, List.getElem?_drop]
  repeat' split
  all_goals first | rfl | omega | (congr 1; omega) | skip
  all_goals (symm; apply List.getElem?_eq_none; omega)

end Mutagen

namespace Mutagen
/-! ### rejection before modification -/

/-- "`m` rejects with ValueError, the bytes are untouched and no write/truncate was issued" -/
def Rejects (m : FileM α) (s : FS) : Prop :=
  ∃ s', m Env.clean s = (.error .value, s') ∧ s'.data = s.data ∧ mutCount s'.log = mutCount s.log

theorem moveBytes_rejects (B : Nat) (dest src count : Int) (s : FS)
    (h : dest < 0 ∨ src < 0 ∨ count < 0 ∨ max dest src + count > s.data.length) :
    Rejects (moveBytes B dest src count) s := by
  unfold Rejects moveBytes
  by_cases c1 : dest < 0 ∨ src < 0 ∨ count < 0
  · exact ⟨s, by simp [c1], rfl, rfl⟩
  · have c2 : max dest src + count > ((s.data.length : Nat) : Int) := by omega
    simp only [c1, ↓reduceIte, bind_run, pure_run, fseekEnd_clean, ftell_clean, c2, raise_run]
    exact ⟨_, rfl, rfl, by simp [mutCount, Op.mutates]⟩

theorem insertBytes_rejects (B : Nat) (size offset : Int) (s : FS)
    (h : size < 0 ∨ offset < 0 ∨ offset > s.data.length) :
    Rejects (insertBytes B size offset) s := by
  unfold Rejects insertBytes
  by_cases c1 : size < 0 ∨ offset < 0
  · exact ⟨s, by simp [c1], rfl, rfl⟩
  · have c2 : ((s.data.length : Nat) : Int) - offset < 0 := by omega
    simp only [c1, ↓reduceIte, bind_run, pure_run, fseekEnd_clean, ftell_clean, c2, raise_run]
    exact ⟨_, rfl, rfl, by simp [mutCount, Op.mutates]⟩

theorem deleteBytes_rejects (B : Nat) (size offset : Int) (s : FS)
    (h : size < 0 ∨ offset < 0 ∨ offset + size > s.data.length) :
    Rejects (deleteBytes B size offset) s := by
  unfold Rejects deleteBytes
  by_cases c1 : size < 0 ∨ offset < 0
  · exact ⟨s, by simp [c1], rfl, rfl⟩
  · have c2 : ((s.data.length : Nat) : Int) - offset - size < 0 := by omega
    simp only [c1, ↓reduceIte, bind_run, pure_run, fseekEnd_clean, ftell_clean, c2, raise_run]
    exact ⟨_, rfl, rfl, by simp [mutCount, Op.mutates]⟩

end Mutagen

namespace Mutagen

/-- fault-free `resize_bytes` as an existence statement with the resulting bytes -/
theorem resizeBytes_clean (B : Nat) (hB : 0 < B) (old new offset : Nat) (s : FS)
    (ho : offset + old ≤ s.data.length) :
    ∃ s' gap, resizeBytes B old new offset Env.clean s = (.ok (), s') ∧ gap.length = new - old ∧
      s'.data = s.data.take offset ++ (s.data.drop offset).take (min old new) ++ gap
                  ++ s.data.drop (offset + old) := by
  unfold resizeBytes
  have h0 : ¬ ((old : Int) < 0 ∨ (new : Int) < 0 ∨ (offset : Int) < 0) := by omega
  simp only [h0, ↓reduceIte]
  by_cases h1 : (new : Int) < (old : Int)
  · simp only [h1, ↓reduceIte]
    have e1 : (old : Int) - (new : Int) = ((old - new : Nat) : Int) := by omega
    have e2 : (offset : Int) + (new : Int) = ((offset + new : Nat) : Int) := by omega
    rw [e1, e2]
    obtain ⟨s', hr, hd⟩ := deleteBytes_clean B hB (old - new) (offset + new) s (by omega)
    refine ⟨s', [], hr, by simp; omega, ?_⟩
    rw [hd, show offset + new + (old - new) = offset + old by omega, show min old new = new by omega]
    simp only [List.append_nil, List.append_assoc]
    rw [← List.append_assoc, ← List.take_add]
  · by_cases h2 : (new : Int) > (old : Int)
    · simp only [h1, h2, ↓reduceIte]
      have e1 : (new : Int) - (old : Int) = ((new - old : Nat) : Int) := by omega
      have e2 : (offset : Int) + (old : Int) = ((offset + old : Nat) : Int) := by omega
      rw [e1, e2]
      obtain ⟨s', hr, hd⟩ := insertBytes_clean B hB (new - old) (offset + old) s ho
      refine ⟨s', readAt (s.data ++ zeros (new - old)) (offset + old) (new - old), hr,
        by apply length_readAt; simp; omega, ?_⟩
      rw [hd, show min old new = old by omega, ← List.take_add]
    · simp only [h1, h2, ↓reduceIte, pure_run]
      have : new = old := by omega
      subst this
      refine ⟨s, [], rfl, by simp, ?_⟩
      simp only [Nat.min_self, List.append_nil]
      rw [← List.take_add, List.take_append_drop]

theorem writeAt_mid (A M Z new : Bytes) (h : M.length = new.length) :
    writeAt (A ++ M ++ Z) A.length new = A ++ new ++ Z := by
  unfold writeAt
  rw [List.append_assoc A M Z, List.take_left' rfl]
  congr 1
  rw [← List.append_assoc, show A.length + new.length = (A ++ M).length by simp [h], List.drop_left' rfl]

/-- `resize_bytes; seek; write`: the region `[off, off+old)` is replaced by `new`, the bytes
before and after it are untouched -/
theorem replaceRegion_clean (B : Nat) (hB : 0 < B) (off old : Nat) (new : Bytes) (s : FS)
    (ho : off + old ≤ s.data.length) :
    ∃ s', replaceRegion B off old new Env.clean s = (.ok (), s') ∧
      s'.data = s.data.take off ++ new ++ s.data.drop (off + old) := by
  unfold replaceRegion
  obtain ⟨s1, gap, hr, hg, hd⟩ := resizeBytes_clean B hB old new.length off s ho
  simp only [bind_run, hr, fseek_clean, fwrite_clean]
  refine ⟨_, rfl, ?_⟩
  show writeData s1.data off new = _
  have hlen : off + new.length ≤ s1.data.length := by
    rw [hd]; simp only [List.length_append, List.length_take, List.length_drop, hg]; omega
  rw [writeData_inside _ _ _ (by omega), hd]
  have hto : (s.data.take off).length = off := by simp [List.length_take]; omega
  have hmid : ((s.data.drop off).take (min old new.length) ++ gap).length = new.length := by
    simp only [List.length_append, List.length_take, List.length_drop, hg]; omega
  have := writeAt_mid (s.data.take off) ((s.data.drop off).take (min old new.length) ++ gap)
    (s.data.drop (off + old)) new hmid
  rw [hto] at this
  rw [← this]
  simp only [List.append_assoc]

end Mutagen
