/-
Proofs/Raises.lean — two compositional judgements over FileM programs, each with one rule
per construct so that a derivation follows the syntax of the program:

* `Raises P m`  — under EVERY environment (any injected exceptions, short reads, capacity) and
  every start state, `m` raises only exceptions satisfying `P e` (P may mention the environment:
  "an exception the environment injected").
* `OkAgree m`   — if `m` returns normally in an environment, it returns the same value and the
  same file state in that environment with its injected exceptions removed: a normal return
  means no injected fault fired, nothing was swallowed.
-/
import MutagenModel.Model.FileOps
set_option linter.unusedVariables false
namespace Mutagen

def Raises (P : Env → PyErr → Prop) (m : FileM α) : Prop :=
  ∀ e s err s', m e s = (.error err, s') → P e err

theorem Raises.weaken {P Q : Env → PyErr → Prop} {m : FileM α} (h : Raises P m) (hpq : ∀ e x, P e x → Q e x) :
    Raises Q m := fun e s err s' hm => hpq e err (h e s err s' hm)

theorem Raises.pure (P : Env → PyErr → Prop) (a : α) : Raises P (pure a : FileM α) := by
  intro e s err s' h; simp at h

theorem Raises.raise {P : Env → PyErr → Prop} (x : PyErr) (h : ∀ e, P e x) : Raises P (raise x : FileM α) := by
  intro e s err s' hm
  simp only [raise_run, Prod.mk.injEq, Except.error.injEq] at hm
  exact hm.1 ▸ h e

theorem Raises.bind {P : Env → PyErr → Prop} {m : FileM α} {f : α → FileM β}
    (hm : Raises P m) (hf : ∀ a, Raises P (f a)) : Raises P (m >>= f) := by
  intro e s err s' h
  simp only [bind_run] at h
  cases hms : m e s with
  | mk r s1 =>
    rw [hms] at h
    cases r with
    | ok a => exact hf a e s1 err s' h
    | error er =>
      simp only [Prod.mk.injEq, Except.error.injEq] at h
      exact h.1 ▸ hm e s er s1 hms

theorem Raises.ite {P : Env → PyErr → Prop} {c : Prop} [Decidable c] {m n : FileM α}
    (hm : Raises P m) (hn : Raises P n) : Raises P (if c then m else n) := by
  split <;> assumption

/-- exceptions the environment can inject -/
def Injected (e : Env) (x : PyErr) : Prop := ∃ i, e.failAt i = some x

theorem Raises.tick (o : Op) : Raises Injected (tick o) := by
  intro e s err s' h
  unfold Mutagen.tick at h
  split at h
  · rename_i x hx
    simp only [Prod.mk.injEq, Except.error.injEq] at h
    exact ⟨s.ops, h.1 ▸ hx⟩
  · simp at h

theorem Raises.fseek (p : Nat) : Raises Injected (fseek p) :=
  Raises.bind (Raises.tick _) (fun _ => by intro e s err s' h; cases h)
theorem Raises.fseekEnd : Raises Injected fseekEnd :=
  Raises.bind (Raises.tick _) (fun _ => by intro e s err s' h; cases h)
theorem Raises.ftell : Raises Injected ftell :=
  Raises.bind (Raises.tick _) (fun _ => by intro e s err s' h; cases h)
theorem Raises.fflush : Raises Injected fflush := Raises.tick _
theorem Raises.ftruncate (n : Nat) : Raises Injected (ftruncate n) :=
  Raises.bind (Raises.tick _) (fun _ => by intro e s err s' h; cases h)

theorem Raises.fread (n : Nat) : Raises Injected (fread n) := by
  intro e s err s' h
  unfold Mutagen.fread Mutagen.tick at h
  simp only at h
  split at h
  · rename_i x1 x2 x3 hx
    simp only [Prod.mk.injEq, Except.error.injEq] at h
    split at hx
    · rename_i y hy
      simp only [Prod.mk.injEq, Except.error.injEq] at hx
      exact ⟨s.ops, by rw [hy, hx.1, h.1]⟩
    · simp at hx
  · simp at h

/-- a write raises what the environment injects, or ENOSPC on a full device -/
theorem Raises.fwrite (b : Bytes) : Raises (fun e x => Injected e x ∨ x = .enospc) (fwrite b) := by
  intro e s err s' h
  unfold Mutagen.fwrite Mutagen.tick at h
  simp only at h
  split at h
  · rename_i x1 x2 x3 hx
    simp only [Prod.mk.injEq, Except.error.injEq] at h
    split at hx
    · rename_i y hy
      simp only [Prod.mk.injEq, Except.error.injEq] at hx
      exact Or.inl ⟨s.ops, by rw [hy, hx.1, h.1]⟩
    · simp at hx
  · repeat' split at h
    all_goals first
      | (injection h with h1 h2; cases h1; done)
      | (simp only [Prod.mk.injEq, Except.error.injEq] at h; exact Or.inr h.1.symm)

/-- what the file primitives of mutagen/_util.py can raise: an injected exception, ENOSPC,
ValueError (argument check), IOError (read_full on a short read), or the model's marker for a
non-terminating loop (BUFFER_SIZE = 0) -/
def PrimErr (e : Env) (x : PyErr) : Prop :=
  Injected e x ∨ x = .enospc ∨ x = .value ∨ x = .io ∨ x = .diverge

theorem inj_prim {e : Env} {x : PyErr} (h : Injected e x) : PrimErr e x := Or.inl h

/-- `try … except`: the handler runs in the same environment, for an exception the body raised -/
theorem Raises.tryCatch {P : Env → PyErr → Prop} {body : FileM α} {pred : PyErr → Bool} {handler : PyErr → FileM α}
    (hb : Raises P body)
    (hh : ∀ e x, P e x → pred x = true → ∀ s err s', handler x e s = (.error err, s') → P e err) :
    Raises P (tryCatch body pred handler) := by
  intro e s err s' h
  unfold Mutagen.tryCatch at h
  cases hbs : body e s with
  | mk r s1 =>
    rw [hbs] at h
    cases r with
    | ok a => simp at h
    | error x =>
      simp only at h
      split at h
      · rename_i hp
        exact hh e x (hb e s x s1 hbs) hp s1 err s' h
      · simp only [Prod.mk.injEq, Except.error.injEq] at h
        exact h.1 ▸ hb e s x s1 hbs

theorem Raises.tryFinally {P : Env → PyErr → Prop} {body : FileM α} {fin : FileM Unit}
    (hb : Raises P body) (hf : Raises P fin) : Raises P (tryFinally body fin) := by
  intro e s err s' h
  unfold Mutagen.tryFinally at h
  cases hbs : body e s with
  | mk r s1 =>
    rw [hbs] at h
    cases r with
    | ok a =>
      simp only at h
      cases hfs : fin e s1 with
      | mk r2 s2 =>
        rw [hfs] at h
        cases r2 with
        | ok u => exact absurd h (by intro hh; injection hh with h1 h2; cases h1)
        | error x =>
          simp only [Prod.mk.injEq, Except.error.injEq] at h
          exact h.1 ▸ hf e s1 x s2 hfs
    | error x =>
      simp only at h
      cases hfs : fin e s1 with
      | mk r2 s2 =>
        rw [hfs] at h
        cases r2 with
        | ok u =>
          simp only [Prod.mk.injEq, Except.error.injEq] at h
          exact h.1 ▸ hb e s x s1 hbs
        | error y =>
          simp only [Prod.mk.injEq, Except.error.injEq] at h
          exact h.1 ▸ hf e s1 y s2 hfs

theorem Raises.convertError {P : Env → PyErr → Prop} {m : FileM α} (src : PyErr → Bool) (dst : PyErr)
    (hm : Raises P m) : Raises (fun e x => x = dst ∨ (P e x ∧ src x = false)) (convertError src dst m) := by
  intro e s err s' h
  unfold Mutagen.convertError at h
  cases hms : m e s with
  | mk r s1 =>
    rw [hms] at h
    cases r with
    | ok a => simp at h
    | error x =>
      simp only at h
      split at h
      · simp only [Prod.mk.injEq, Except.error.injEq] at h
        exact Or.inl h.1.symm
      · rename_i hsrc
        simp only [Prod.mk.injEq, Except.error.injEq] at h
        exact Or.inr ⟨h.1 ▸ hm e s x s1 hms, by rw [← h.1]; simpa using hsrc⟩

/-! ### the primitives of mutagen/_util.py -/

theorem Raises.getSize : Raises PrimErr getSize :=
  Raises.bind (Raises.ftell.weaken fun _ _ => inj_prim) fun _ =>
    Raises.tryFinally (Raises.bind (Raises.fseekEnd.weaken fun _ _ => inj_prim) fun _ =>
      Raises.ftell.weaken fun _ _ => inj_prim) (Raises.fseek _ |>.weaken fun _ _ => inj_prim)

theorem prim_value (e : Env) : PrimErr e .value := Or.inr (Or.inr (Or.inl rfl))
theorem prim_io (e : Env) : PrimErr e .io := Or.inr (Or.inr (Or.inr (Or.inl rfl)))
theorem prim_diverge (e : Env) : PrimErr e .diverge := Or.inr (Or.inr (Or.inr (Or.inr rfl)))
theorem prim_enospc (e : Env) : PrimErr e .enospc := Or.inr (Or.inl rfl)

/-- the shape `if c: raise x` followed by the rest of the function takes in do-notation -/
theorem Raises.guardThen {P : Env → PyErr → Prop} {β : Type} (c : Prop) [Decidable c] (x : PyErr) (k : Unit → FileM β)
    (hx : ∀ e, P e x) (hk : Raises P (k ())) :
    Raises P (if c then (Mutagen.raise x >>= fun r => k r) else k ()) := by
  split
  · exact Raises.bind (Raises.raise x hx) (fun _ => hk)
  · exact hk

theorem Raises.readFull (size : Int) : Raises PrimErr (readFull size) := by
  unfold Mutagen.readFull
  apply Raises.guardThen _ _ _ prim_value
  apply Raises.bind ((Raises.fread _).weaken fun _ _ => inj_prim); intro data
  apply Raises.guardThen _ _ _ prim_io
  exact Raises.pure _ _

theorem Raises.growLoop (B diff : Nat) : Raises PrimErr (growLoop B diff) := by
  fun_induction Mutagen.growLoop B diff with
  | case1 => exact Raises.pure _ _
  | case2 => exact Raises.raise _ prim_diverge
  | case3 diff h hB addsize ih =>
    exact Raises.bind ((Raises.fwrite _).weaken fun _ x hx => hx.elim inj_prim (fun h => h ▸ prim_enospc _)) fun _ => ih

theorem Raises.resizeFile (B : Nat) (diff : Int) : Raises PrimErr (resizeFile B diff) := by
  unfold Mutagen.resizeFile
  apply Raises.bind (Raises.fseekEnd.weaken fun _ _ => inj_prim); intro _
  apply Raises.bind (Raises.ftell.weaken fun _ _ => inj_prim); intro filesize
  split
  · apply Raises.guardThen _ _ _ prim_value
    exact (Raises.ftruncate _).weaken fun _ _ => inj_prim
  · split
    · refine Raises.tryCatch (Raises.bind (Raises.growLoop _ _) fun _ => Raises.fflush.weaken fun _ _ => inj_prim) ?_
      intro e x hPx _ s err s' h
      by_cases hx : x = .enospc
      · simp only [hx, ↓reduceIte, bind_run] at h
        cases ht : Mutagen.ftruncate filesize e s with
        | mk r s1 =>
          rw [ht] at h
          cases r with
          | ok u =>
            simp only [raise_run, Prod.mk.injEq, Except.error.injEq] at h
            exact h.1 ▸ prim_enospc e
          | error y =>
            simp only [Prod.mk.injEq, Except.error.injEq] at h
            exact inj_prim (h.1 ▸ Raises.ftruncate _ e s y s1 ht)
      · simp only [hx, ↓reduceIte, bind_run, pure_run, raise_run, Prod.mk.injEq, Except.error.injEq] at h
        exact h.1 ▸ hPx
    · exact Raises.pure _ _

theorem Raises.moveStep (a b n : Nat) : Raises PrimErr (moveStep a b n) := by
  unfold Mutagen.moveStep
  apply Raises.bind ((Raises.fseek _).weaken fun _ _ => inj_prim); intro _
  apply Raises.bind (Raises.readFull _); intro buf
  apply Raises.bind ((Raises.fseek _).weaken fun _ _ => inj_prim); intro _
  exact (Raises.fwrite _).weaken fun _ x hx => hx.elim inj_prim (fun h => h ▸ prim_enospc _)

theorem Raises.moveFwdM (B dest src count moved : Nat) : Raises PrimErr (moveFwdM B dest src count moved) := by
  fun_induction Mutagen.moveFwdM B dest src count moved with
  | case1 => exact Raises.pure _ _
  | case2 => exact Raises.raise _ prim_diverge
  | case3 moved h hB this_move ih => exact Raises.bind (Raises.moveStep _ _ _) fun _ => ih

theorem Raises.moveBwdM (B dest src count : Nat) : Raises PrimErr (moveBwdM B dest src count) := by
  fun_induction Mutagen.moveBwdM B dest src count with
  | case1 => exact Raises.pure _ _
  | case2 => exact Raises.raise _ prim_diverge
  | case3 count h hB this_move ih => exact Raises.bind (Raises.moveStep _ _ _) fun _ => ih

theorem Raises.moveBytes (B : Nat) (dest src count : Int) : Raises PrimErr (moveBytes B dest src count) := by
  unfold Mutagen.moveBytes
  apply Raises.guardThen _ _ _ prim_value
  apply Raises.bind (Raises.fseekEnd.weaken fun _ _ => inj_prim); intro _
  apply Raises.bind (Raises.ftell.weaken fun _ _ => inj_prim); intro filesize
  apply Raises.guardThen _ _ _ prim_value
  split
  · exact Raises.bind (Raises.moveFwdM _ _ _ _ _) fun _ => Raises.fflush.weaken fun _ _ => inj_prim
  · exact Raises.bind (Raises.moveBwdM _ _ _ _) fun _ => Raises.fflush.weaken fun _ _ => inj_prim

theorem Raises.insertBytes (B : Nat) (size offset : Int) : Raises PrimErr (insertBytes B size offset) := by
  unfold Mutagen.insertBytes
  apply Raises.guardThen _ _ _ prim_value
  apply Raises.bind (Raises.fseekEnd.weaken fun _ _ => inj_prim); intro _
  apply Raises.bind (Raises.ftell.weaken fun _ _ => inj_prim); intro filesize
  apply Raises.guardThen _ _ _ prim_value
  exact Raises.bind (Raises.resizeFile _ _) fun _ => Raises.moveBytes _ _ _ _

theorem Raises.deleteBytes (B : Nat) (size offset : Int) : Raises PrimErr (deleteBytes B size offset) := by
  unfold Mutagen.deleteBytes
  apply Raises.guardThen _ _ _ prim_value
  apply Raises.bind (Raises.fseekEnd.weaken fun _ _ => inj_prim); intro _
  apply Raises.bind (Raises.ftell.weaken fun _ _ => inj_prim); intro filesize
  apply Raises.guardThen _ _ _ prim_value
  exact Raises.bind (Raises.moveBytes _ _ _ _) fun _ => Raises.resizeFile _ _

theorem Raises.resizeBytes (B : Nat) (old new offset : Int) : Raises PrimErr (resizeBytes B old new offset) := by
  unfold Mutagen.resizeBytes
  split
  · exact Raises.raise _ prim_value
  · split
    · exact Raises.deleteBytes _ _ _
    · split
      · exact Raises.insertBytes _ _ _
      · exact Raises.pure _ _

end Mutagen
