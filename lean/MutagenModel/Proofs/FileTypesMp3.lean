/-
Proofs/FileTypesMp3.lean — `MP3(fileobj)` end to end: the ID3v2 tag in front (header, frames region), its frames through
`read_frames`, and `MPEGInfo(fileobj, offset)` behind it.
-/
import MutagenModel.Model.FileTypes
import MutagenModel.Proofs.Id3Input
import MutagenModel.Props.C05_Mpeg
set_option linter.unusedVariables false
set_option linter.unusedSimpArgs false
namespace Mutagen.FileTypes
open Mutagen Mutagen.C01F

/-- `ID3Header` (as `ID3.load` uses it) on a file that starts with a flag-less header of version 2/3/4 -/
theorem headerLoad_tagHeader (vmaj : Nat) (hv : vmaj = 2 ∨ vmaj = 3 ∨ vmaj = 4) (n : Nat) (hn : n < 2 ^ 28) (rest : Bytes) :
    Id3F.headerLoad (tagHeader vmaj 0 n ++ rest) = .ok (.hdr vmaj 0 (n + 10) none) := by
  obtain ⟨hs4, hss, hsv⟩ := syncsafe4_ok n hn
  obtain ⟨a, b, c, d, hsz⟩ := Id3F.len4 _ hs4
  have ha := hss a (by rw [hsz]; simp); have hb := hss b (by rw [hsz]; simp)
  have hc := hss c (by rw [hsz]; simp); have hd := hss d (by rw [hsz]; simp)
  have hvm : (UInt8.ofNat vmaj).toNat = vmaj := by rcases hv with rfl | rfl | rfl <;> rfl
  rw [hsz] at hsv
  unfold Id3F.headerLoad Id3F.headerPre tagHeader
  rw [hsz]
  simp only [Id3F.magicID3, List.cons_append, List.nil_append, List.take_succ_cons, List.take_zero, List.length_cons,
    List.length_nil, List.getD_cons_succ, List.getD_cons_zero, List.drop_succ_cons, List.drop_zero, hvm]
  have e3 : ¬ (vmaj ≠ 2 ∧ vmaj ≠ 3 ∧ vmaj ≠ 4) := by omega
  have e4 : ([a, b, c, d].all fun x => decide (x.toNat < 128)) = true := by simp [ha, hb, hc, hd]
  simp [e3, e4, hsv]

/-- `ID3(fileobj)` on `header ++ region ++ rest`: the tag body handed to `_read` is the region, `tags.size` is its length + 10 -/
theorem id3At_tagged (vmaj : Nat) (hv : vmaj = 2 ∨ vmaj = 3 ∨ vmaj = 4) (region rest : Bytes) (hn : region.length < 2 ^ 28) :
    id3At (tagHeader vmaj 0 region.length ++ region ++ rest) 0 =
      .ok (.v2 vmaj 0 region (Id3F.findV1 (tagHeader vmaj 0 region.length ++ region ++ rest)), region.length + 10) := by
  unfold id3At
  simp only [List.drop_zero]
  rw [List.append_assoc, headerLoad_tagHeader vmaj hv region.length hn]
  have hbs : Id3F.bodySize (region.length + 10) none = (region.length : Int) := by simp [Id3F.bodySize]
  have hst : Id3F.bodyStart none = 10 := rfl
  simp only [hbs, hst]
  have hsz : ¬ ((region.length : Int) < 0) := by omega
  rw [if_neg hsz]
  have ht : ((region.length : Int)).toNat = region.length := by omega
  rw [ht]
  have hl : (tagHeader vmaj 0 region.length).length = 10 := by
    simp [tagHeader, Id3F.magicID3, (syncsafe4_ok region.length hn).1]
  have hb : readAt (tagHeader vmaj 0 region.length ++ (region ++ rest)) 10 region.length = region := by
    unfold readAt
    rw [← hl, List.drop_left' rfl, List.take_left' rfl]
  rw [hb]
  simp

/-- `MP3(fileobj)` on a file `ID3v2 header ++ frames region ++ MPEG stream`: the tag object holds the region as its body
(what `_read` parses) and the ID3v1 block `find_id3v1` sees at the end of the file; the stream info is what
`MPEGInfo(fileobj, offset = tag size)` decodes behind the tag -/
theorem loadMp3_tagged (vmaj : Nat) (hv : vmaj = 2 ∨ vmaj = 3 ∨ vmaj = 4) (region stream : Bytes) (hn : region.length < 2 ^ 28)
    (info : Info.Mp3.Info)
    (hinfo : Info.Mp3.parseFrom ((tagHeader vmaj 0 region.length ++ region) ++ stream) (tagHeader vmaj 0 region.length ++ region).length = .ok info) :
    loadMp3 (tagHeader vmaj 0 region.length ++ region ++ stream) =
      .ok (some (.v2 vmaj 0 region (Id3F.findV1 (tagHeader vmaj 0 region.length ++ region ++ stream))), info) := by
  unfold loadMp3
  rw [id3At_tagged vmaj hv region stream hn]
  simp only [id3Tags]
  have hl : (tagHeader vmaj 0 region.length ++ region).length = region.length + 10 := by
    simp [tagHeader, Id3F.magicID3, (syncsafe4_ok region.length hn).1]; omega
  rw [hl] at hinfo
  rw [hinfo]

end Mutagen.FileTypes
