/- Proofs/Dict.lean — lemmas for C16 (dictionary behaviour of tag objects) -/
import MutagenModel.Model.Dict
set_option linter.unusedVariables false
set_option linter.unusedSectionVars false
set_option linter.unusedSimpArgs false
namespace Mutagen.Dict
open Mutagen

/-! ### association lists -/

section alist
variable {K V : Type} [DecidableEq K]

@[simp] theorem lookup_nil (k : K) : lookup k ([] : RefDict K V) = none := rfl
@[simp] theorem lookup_cons (k k' : K) (v : V) (t : RefDict K V) :
    lookup k ((k', v) :: t) = if k' = k then some v else lookup k t := rfl
@[simp] theorem keysOf_nil : keysOf ([] : RefDict K V) = [] := rfl
@[simp] theorem keysOf_cons (p : K × V) (t : RefDict K V) : keysOf (p :: t) = p.1 :: keysOf t := rfl

theorem lookup_insert (k k2 : K) (v : V) (r : RefDict K V) :
    lookup k2 (insert k v r) = if k = k2 then some v else lookup k2 r := by
  induction r with
  | nil => simp [insert]
  | cons p t ih =>
    obtain ⟨k', v'⟩ := p
    by_cases h : k' = k
    · subst h; simp only [insert, ↓reduceIte, lookup_cons]; split <;> rfl
    · simp only [insert, h, ↓reduceIte, lookup_cons, ih]
      by_cases h2 : k' = k2
      · have : ¬ k = k2 := fun h3 => h (h2.trans h3.symm)
        simp [h2, this]
      · simp [h2]

theorem mem_keysOf_iff (k : K) (r : RefDict K V) : k ∈ keysOf r ↔ (lookup k r).isSome = true := by
  induction r with
  | nil => simp
  | cons p t ih =>
    obtain ⟨k', v'⟩ := p
    by_cases h : k' = k
    · simp [h]
    · have h' : ¬ k = k' := fun e => h e.symm
      simp [h, h', ih]

theorem lookup_eq_none_iff (k : K) (r : RefDict K V) : lookup k r = none ↔ k ∉ keysOf r := by
  rw [mem_keysOf_iff]; cases lookup k r <;> simp

theorem keysOf_insert (k : K) (v : V) (r : RefDict K V) :
    keysOf (insert k v r) = if k ∈ keysOf r then keysOf r else keysOf r ++ [k] := by
  induction r with
  | nil => simp [insert]
  | cons p t ih =>
    obtain ⟨k', v'⟩ := p
    by_cases h : k' = k
    · subst h; simp [insert]
    · have h' : ¬ k = k' := fun e => h e.symm
      simp only [insert, h, ↓reduceIte, keysOf_cons, ih, List.mem_cons, h', false_or]
      split <;> simp

theorem insert_of_not_mem (k : K) (v : V) (r : RefDict K V) (h : k ∉ keysOf r) :
    insert k v r = r ++ [(k, v)] := by
  induction r with
  | nil => simp [insert]
  | cons p t ih =>
    obtain ⟨k', v'⟩ := p
    simp only [keysOf_cons, List.mem_cons, not_or] at h
    have h' : ¬ k' = k := fun e => h.1 e.symm
    simp [insert, h', ih h.2]

theorem nodup_insert (k : K) (v : V) (r : RefDict K V) (h : NodupKeys r) : NodupKeys (insert k v r) := by
  unfold NodupKeys at *
  rw [keysOf_insert]
  split
  · exact h
  · rename_i hk
    rw [List.nodup_append]
    refine ⟨h, by simp, ?_⟩
    intro a ha b hb
    simp only [List.mem_singleton] at hb
    subst hb
    intro e; subst e; exact hk ha

theorem keysOf_erase_sublist (k : K) (r : RefDict K V) : (keysOf (erase k r)).Sublist (keysOf r) := by
  induction r with
  | nil => simp [erase]
  | cons p t ih =>
    obtain ⟨k', v'⟩ := p
    by_cases h : k' = k
    · simp [erase, h]
    · simp only [erase, h, ↓reduceIte, keysOf_cons]
      exact ih.cons_cons _

theorem nodup_erase (k : K) (r : RefDict K V) (h : NodupKeys r) : NodupKeys (erase k r) :=
  List.Nodup.sublist (keysOf_erase_sublist k r) h

theorem lookup_erase (k k2 : K) (r : RefDict K V) (h : NodupKeys r) :
    lookup k2 (erase k r) = if k = k2 then none else lookup k2 r := by
  induction r with
  | nil => simp [erase]
  | cons p t ih =>
    obtain ⟨k', v'⟩ := p
    have ht : NodupKeys t := by
      unfold NodupKeys at *; simp only [keysOf_cons, List.nodup_cons] at h; exact h.2
    have hk' : k' ∉ keysOf t := by
      unfold NodupKeys at h; simp only [keysOf_cons, List.nodup_cons] at h; exact h.1
    by_cases h1 : k' = k
    · subst h1
      simp only [erase, ↓reduceIte, lookup_cons]
      by_cases h2 : k' = k2
      · subst h2; simp [(lookup_eq_none_iff k' t).2 hk']
      · simp [h2]
    · simp only [erase, h1, ↓reduceIte, lookup_cons, ih ht]
      by_cases h2 : k' = k2
      · have : ¬ k = k2 := fun h3 => h1 (h2.trans h3.symm)
        simp [h2, this]
      · simp [h2]

theorem erase_of_not_mem (k : K) (r : RefDict K V) (h : k ∉ keysOf r) : erase k r = r := by
  induction r with
  | nil => rfl
  | cons p t ih =>
    obtain ⟨k', v'⟩ := p
    simp only [keysOf_cons, List.mem_cons, not_or] at h
    have h' : ¬ k' = k := fun e => h.1 e.symm
    simp [erase, h', ih h.2]

theorem mem_iff_lookup (k : K) (v : V) (r : RefDict K V) (h : NodupKeys r) :
    (k, v) ∈ r ↔ lookup k r = some v := by
  induction r with
  | nil => simp
  | cons p t ih =>
    obtain ⟨k', v'⟩ := p
    have ht : NodupKeys t := by
      unfold NodupKeys at *; simp only [keysOf_cons, List.nodup_cons] at h; exact h.2
    have hk' : k' ∉ keysOf t := by
      unfold NodupKeys at h; simp only [keysOf_cons, List.nodup_cons] at h; exact h.1
    by_cases h1 : k' = k
    · subst h1
      simp only [List.mem_cons, Prod.mk.injEq, true_and, lookup_cons, ↓reduceIte, Option.some.injEq]
      constructor
      · rintro (e | hm)
        · exact e.symm
        · exact absurd (List.mem_map_of_mem (f := Prod.fst) hm) hk'
      · intro e; exact Or.inl e.symm
    · have h1' : ¬ k = k' := fun e => h1 e.symm
      simp [h1, h1', ih ht]

theorem mem_lookup_of_mem (k : K) (v : V) (r : RefDict K V) (h : NodupKeys r) (hm : (k, v) ∈ r) :
    lookup k r = some v := (mem_iff_lookup k v r h).1 hm

theorem nodup_of_nodupKeys (r : RefDict K V) (h : NodupKeys r) : r.Nodup :=
  List.Pairwise.of_map Prod.fst (fun a b hab e => hab (congrArg Prod.fst e)) h

/-! #### SameMap -/

theorem SameMap.refl (r : RefDict K V) : SameMap r r := fun _ => rfl
theorem SameMap.symm {r1 r2 : RefDict K V} (h : SameMap r1 r2) : SameMap r2 r1 := fun k => (h k).symm
theorem SameMap.trans {r1 r2 r3 : RefDict K V} (h : SameMap r1 r2) (h' : SameMap r2 r3) : SameMap r1 r3 :=
  fun k => (h k).trans (h' k)

theorem SameMap.insert {r1 r2 : RefDict K V} (h : SameMap r1 r2) (k : K) (v : V) :
    SameMap (insert k v r1) (insert k v r2) := by
  intro k2; rw [lookup_insert, lookup_insert, h k2]

theorem SameMap.erase {r1 r2 : RefDict K V} (h : SameMap r1 r2) (n1 : NodupKeys r1) (n2 : NodupKeys r2) (k : K) :
    SameMap (erase k r1) (erase k r2) := by
  intro k2; rw [lookup_erase _ _ _ n1, lookup_erase _ _ _ n2, h k2]

theorem SameMap.perm {r1 r2 : RefDict K V} (h : SameMap r1 r2) (n1 : NodupKeys r1) (n2 : NodupKeys r2) :
    r1.Perm r2 := by
  rw [List.perm_ext_iff_of_nodup (nodup_of_nodupKeys r1 n1) (nodup_of_nodupKeys r2 n2)]
  rintro ⟨k, v⟩
  rw [mem_iff_lookup k v r1 n1, mem_iff_lookup k v r2 n2, h k]

theorem SameMap.eq_nil {r : RefDict K V} (h : SameMap r []) : r = [] := by
  cases r with
  | nil => rfl
  | cons p t =>
    obtain ⟨k, v⟩ := p
    have := h k
    simp at this

theorem sameMap_mem_keys {r1 r2 : RefDict K V} (h : SameMap r1 r2) (k : K) : k ∈ keysOf r1 ↔ k ∈ keysOf r2 := by
  rw [mem_keysOf_iff, mem_keysOf_iff, h k]

end alist

/-! ### DictMixin over any refining store -/

section generic
variable {S K V : Type} [DecidableEq K] {m : MapImpl S K V} {P : Policy K V} {inv : S → Prop}
  {abs : S → RefDict K V}

theorem mapE_of_map {α β : Type} (f : α → Except PyErr β) (l : List α) (vs : List β)
    (h : l.map f = vs.map Except.ok) : mapE f l = .ok vs := by
  induction l generalizing vs with
  | nil => cases vs <;> simp_all [mapE]
  | cons a t ih =>
    cases vs with
    | nil => simp at h
    | cons b bs =>
      simp only [List.map_cons, List.cons.injEq] at h
      simp [mapE, h.1, ih bs h.2]

theorem get_sim (h : Refines m P inv abs) (s : S) (r : RefDict K V) (hs : inv s)
    (hr : SameMap (abs s) r) (k : K) : m.getitem s k = Ref.get P r k := by
  rw [h.get s k hs]
  unfold Ref.get lookupE
  cases P.norm k with
  | error e => rfl
  | ok k' => simp only [hr k']

theorem set_sim (h : Refines m P inv abs) (s : S) (r : RefDict K V) (hs : inv s)
    (hr : SameMap (abs s) r) (nr : NodupKeys r) (k : K) (v : V) :
    (∃ e, m.setitem s k v = .error e ∧ Ref.set P r k v = .error e) ∨
    (∃ s' r', m.setitem s k v = .ok s' ∧ Ref.set P r k v = .ok r' ∧ inv s' ∧ SameMap (abs s') r' ∧
      NodupKeys r') := by
  have hsim := h.set s k v hs
  have na := h.nodup s hs
  unfold Ref.set at hsim ⊢
  cases hn : P.norm k with
  | error e =>
    simp only [hn] at hsim
    cases hset : m.setitem s k v with
    | error e' => simp only [hset, SimStep] at hsim; exact Or.inl ⟨e', rfl, by simp_all⟩
    | ok s' => simp [hset, SimStep] at hsim
  | ok k' =>
    simp only [hn] at hsim
    cases hc : P.coerce v with
    | error e =>
      simp only [hc] at hsim
      cases hset : m.setitem s k v with
      | error e' => simp only [hset, SimStep] at hsim; exact Or.inl ⟨e', rfl, by simp_all⟩
      | ok s' => simp [hset, SimStep] at hsim
    | ok ov =>
      cases ov with
      | some v' =>
        simp only [hc] at hsim
        cases hset : m.setitem s k v with
        | error e' => simp [hset, SimStep] at hsim
        | ok s' =>
          simp only [hset, SimStep] at hsim
          exact Or.inr ⟨s', insert k' v' r, rfl, by simp, hsim.1, hsim.2.trans (hr.insert k' v'), nodup_insert _ _ _ nr⟩
      | none =>
        simp only [hc] at hsim
        cases hset : m.setitem s k v with
        | error e' => simp [hset, SimStep] at hsim
        | ok s' =>
          simp only [hset, SimStep] at hsim
          exact Or.inr ⟨s', erase k' r, rfl, by simp, hsim.1, hsim.2.trans (hr.erase na nr k'), nodup_erase _ _ nr⟩

theorem del_sim (h : Refines m P inv abs) (s : S) (r : RefDict K V) (hs : inv s)
    (hr : SameMap (abs s) r) (nr : NodupKeys r) (k : K) :
    (∃ e, m.delitem s k = .error e ∧ Ref.del P r k = .error e) ∨
    (∃ s' r', m.delitem s k = .ok s' ∧ Ref.del P r k = .ok r' ∧ inv s' ∧ SameMap (abs s') r' ∧
      NodupKeys r') := by
  have hsim := h.del s k hs
  have na := h.nodup s hs
  unfold Ref.del at hsim ⊢
  cases hn : P.norm k with
  | error e =>
    simp only [hn] at hsim
    cases hdel : m.delitem s k with
    | error e' => simp only [hdel, SimStep] at hsim; exact Or.inl ⟨e', rfl, by simp_all⟩
    | ok s' => simp [hdel, SimStep] at hsim
  | ok k' =>
    simp only [hn, hr k'] at hsim
    cases hl : lookup k' r with
    | none =>
      simp only [hl] at hsim
      cases hdel : m.delitem s k with
      | error e' => simp only [hdel, SimStep] at hsim; exact Or.inl ⟨e', rfl, by simp_all⟩
      | ok s' => simp [hdel, SimStep] at hsim
    | some v0 =>
      simp only [hl] at hsim
      cases hdel : m.delitem s k with
      | error e' => simp [hdel, SimStep] at hsim
      | ok s' =>
        simp only [hdel, SimStep] at hsim
        exact Or.inr ⟨s', erase k' r, rfl, by simp [hl], hsim.1, hsim.2.trans (hr.erase na nr k'), nodup_erase _ _ nr⟩

theorem contains_sim (h : Refines m P inv abs) (s : S) (r : RefDict K V) (hs : inv s)
    (hr : SameMap (abs s) r) (k : K) : m.contains s k = Ref.contains P r k := by
  unfold MapImpl.contains Ref.contains
  rw [get_sim h s r hs hr k]
  unfold Ref.get lookupE
  cases P.norm k with
  | error e => rfl
  | ok k' => cases hl : lookup k' r <;> simp [hl]

theorem getD_sim (h : Refines m P inv abs) (s : S) (r : RefDict K V) (hs : inv s)
    (hr : SameMap (abs s) r) (k : K) (d : V) : m.getD s k d = Ref.getD P r k d := by
  unfold MapImpl.getD Ref.getD
  rw [get_sim h s r hs hr k]
  unfold Ref.get lookupE
  cases P.norm k with
  | error e => rfl
  | ok k' => cases hl : lookup k' r <;> simp [hl]

/-- result of a state-changing derived operation against the reference's -/
def ResSim {α : Type} (inv : S → Prop) (abs : S → RefDict K V) (x : Except PyErr α × S)
    (y : Except PyErr α × RefDict K V) : Prop :=
  x.1 = y.1 ∧ inv x.2 ∧ SameMap (abs x.2) y.2 ∧ NodupKeys y.2

theorem pop_sim (h : Refines m P inv abs) (s : S) (r : RefDict K V) (hs : inv s)
    (hr : SameMap (abs s) r) (nr : NodupKeys r) (k : K) (d : Option V) :
    ResSim inv abs (m.pop s k d) (Ref.pop P r k d) := by
  unfold MapImpl.pop Ref.pop
  rw [get_sim h s r hs hr k]
  have hd := del_sim h s r hs hr nr k
  unfold Ref.del at hd
  unfold Ref.get lookupE
  cases hn : P.norm k with
  | error e =>
    simp only
    by_cases he : e = .key
    · cases d <;> simp [he, ResSim, hs, hr, nr]
    · simp [he, ResSim, hs, hr, nr]
  | ok k' =>
    simp only [hn] at hd
    cases hl : lookup k' r with
    | none => cases d <;> simp [hl, ResSim, hs, hr, nr]
    | some v =>
      simp only [hl] at hd
      rcases hd with ⟨e, _, h2⟩ | ⟨s', r', h1, h2, h3, h4, h5⟩
      · simp at h2
      · simp only [Except.ok.injEq] at h2
        subst h2
        simp [hl, h1, ResSim, h3, h4, h5]

theorem update_sim (h : Refines m P inv abs) (l : List (K × V)) : ∀ (s : S) (r : RefDict K V), inv s →
    SameMap (abs s) r → NodupKeys r → ResSim inv abs (m.update l s) (Ref.update P l r) := by
  induction l with
  | nil => intro s r hs hr nr; simp [MapImpl.update, Ref.update, ResSim, hs, hr, nr]
  | cons p t ih =>
    obtain ⟨k, v⟩ := p
    intro s r hs hr nr
    rcases set_sim h s r hs hr nr k v with ⟨e, h1, h2⟩ | ⟨s', r', h1, h2, h3, h4, h5⟩
    · simp [MapImpl.update, Ref.update, h1, h2, ResSim, hs, hr, nr]
    · simp only [MapImpl.update, Ref.update, h1, h2]
      exact ih s' r' h3 h4 h5

theorem setdefault_sim (h : Refines m P inv abs) (s : S) (r : RefDict K V) (hs : inv s)
    (hr : SameMap (abs s) r) (nr : NodupKeys r) (k : K) (d : V) :
    ResSim inv abs (m.setdefault s k d) (Ref.setdefault P r k d) := by
  unfold MapImpl.setdefault Ref.setdefault
  rw [get_sim h s r hs hr k]
  have hset := set_sim h s r hs hr nr k d
  unfold Ref.set at hset
  unfold Ref.get lookupE
  cases hn : P.norm k with
  | error e =>
    simp only [hn] at hset
    by_cases he : e = .key
    · rcases hset with ⟨e', h1, h2⟩ | ⟨s', r', h1, h2, _⟩
      · simp only [Except.error.injEq] at h2; subst h2
        simp [he, h1, ResSim, hs, hr, nr]
      · simp at h2
    · simp [he, ResSim, hs, hr, nr]
  | ok k' =>
    simp only [hn] at hset
    cases hl : lookup k' r with
    | some v => simp [hl, ResSim, hs, hr, nr]
    | none =>
      simp only [hl, ↓reduceIte]
      cases hc : P.coerce d with
      | error e =>
        simp only [hc] at hset
        rcases hset with ⟨e', h1, h2⟩ | ⟨s', r', h1, h2, _⟩
        · simp only [Except.error.injEq] at h2; subst h2
          simp [h1, ResSim, hs, hr, nr]
        · simp at h2
      | ok ov =>
        cases ov with
        | some v' =>
          simp only [hc] at hset
          rcases hset with ⟨e', h1, h2⟩ | ⟨s', r', h1, h2, h3, h4, h5⟩
          · simp at h2
          · simp only [Except.ok.injEq] at h2; subst h2
            simp [h1, ResSim, h3, h4, h5]
        | none =>
          simp only [hc] at hset
          rcases hset with ⟨e', h1, h2⟩ | ⟨s', r', h1, h2, h3, h4, h5⟩
          · simp at h2
          · simp only [Except.ok.injEq] at h2; subst h2
            rw [erase_of_not_mem k' r ((lookup_eq_none_iff k' r).1 hl)] at h4
            simp [h1, ResSim, h3, h4, nr]

end generic

section generic2
variable {S K V : Type} [DecidableEq K] {m : MapImpl S K V} {P : Policy K V} {inv : S → Prop}
  {abs : S → RefDict K V}

theorem lookupE_of_mem (r : RefDict K V) (nr : NodupKeys r) (p : K × V) (hp : p ∈ r) :
    lookupE p.1 r = .ok p.2 := by
  unfold lookupE; rw [mem_lookup_of_mem p.1 p.2 r nr hp]

theorem map_getitem_keys (h : Refines m P inv abs) (s : S) (hs : inv s) :
    (m.keys s).map (m.getitem s) = (abs s).map (fun p => Except.ok p.2) := by
  have hk := h.keys s hs
  have h1 : (m.keys s).map (m.getitem s) = ((m.keys s).map P.norm).map
      (fun x => match x with | .ok k' => lookupE k' (abs s) | .error e => .error e) := by
    rw [List.map_map]; apply List.map_congr_left; intro k _; rw [h.get s k hs]; rfl
  rw [h1, hk]; unfold keysOf; rw [List.map_map, List.map_map]
  apply List.map_congr_left; intro p hp
  simp only [Function.comp]
  exact lookupE_of_mem (abs s) (h.nodup s hs) p hp

theorem values_exact (h : Refines m P inv abs) (s : S) (hs : inv s) :
    m.values s = .ok (Ref.values (abs s)) := by
  unfold MapImpl.values
  apply mapE_of_map
  rw [map_getitem_keys h s hs]; simp [Ref.values, List.map_map]

theorem len_exact (h : Refines m P inv abs) (s : S) (hs : inv s) : m.len s = (abs s).length := by
  have := congrArg List.length (h.keys s hs)
  simpa [keysOf, MapImpl.len] using this

theorem zip_map_fst {α β γ : Type} (f : α → γ) (ks : List α) (vs : List β) :
    (ks.zip vs).map (fun p => (f p.1, p.2)) = (ks.map f).zip vs := by
  induction ks generalizing vs with
  | nil => simp
  | cons a t ih => cases vs <;> simp [ih]

theorem zip_keys_values {γ : Type} (f : K → γ) (r : RefDict K V) :
    ((keysOf r).map f).zip (r.map Prod.snd) = r.map (fun p => (f p.1, p.2)) := by
  induction r with
  | nil => rfl
  | cons p t ih => simp [ih]

theorem items_exact (h : Refines m P inv abs) (s : S) (hs : inv s) :
    ∃ l, m.items s = .ok l ∧
      l.map (fun p => (P.norm p.1, p.2)) = (abs s).map (fun p => (Except.ok p.1, p.2)) := by
  unfold MapImpl.items
  rw [values_exact h s hs]
  refine ⟨_, rfl, ?_⟩
  rw [zip_map_fst, h.keys s hs, Ref.values, zip_keys_values]

/-- the loop of `clear` on a list of keys whose normal forms are distinct keys of the reference -/
theorem delAll_sim (h : Refines m P inv abs) (ks : List K) : ∀ (nks : List K) (s : S) (r : RefDict K V),
    inv s → SameMap (abs s) r → NodupKeys r → ks.map P.norm = nks.map Except.ok → nks.Nodup →
    (∀ k' ∈ nks, k' ∈ keysOf r) →
    (m.delAll ks s).1 = .ok () ∧ inv (m.delAll ks s).2 ∧
      ∀ k2, lookup k2 (abs (m.delAll ks s).2) = if k2 ∈ nks then none else lookup k2 r := by
  induction ks with
  | nil =>
    intro nks s r hs hr nr hk nd hm
    cases nks with
    | nil => simp [MapImpl.delAll, hs]; exact hr
    | cons a t => simp at hk
  | cons k t ih =>
    intro nks s r hs hr nr hk nd hm
    cases nks with
    | nil => simp at hk
    | cons k' nks' =>
      simp only [List.map_cons, List.cons.injEq] at hk
      have hk'r : k' ∈ keysOf r := hm k' (by simp)
      obtain ⟨v0, hv0⟩ := Option.isSome_iff_exists.1 ((mem_keysOf_iff k' r).1 hk'r)
      rcases del_sim h s r hs hr nr k with ⟨e, h1, h2⟩ | ⟨s', r', h1, h2, h3, h4, h5⟩
      · simp [Ref.del, hk.1, hv0] at h2
      · simp only [Ref.del, hk.1, hv0, Except.ok.injEq] at h2
        subst h2
        simp only [List.nodup_cons] at nd
        have hm' : ∀ k'' ∈ nks', k'' ∈ keysOf (erase k' r) := by
          intro k'' hk''
          have hne : ¬ k' = k'' := fun e => nd.1 (e ▸ hk'')
          rw [mem_keysOf_iff, lookup_erase _ _ _ nr]
          simp only [hne, ↓reduceIte]
          exact (mem_keysOf_iff k'' r).1 (hm k'' (by simp [hk'']))
        have := ih nks' s' (erase k' r) h3 h4 h5 hk.2 nd.2 hm'
        simp only [MapImpl.delAll, h1]
        refine ⟨this.1, this.2.1, ?_⟩
        intro k2
        rw [this.2.2 k2, lookup_erase _ _ _ nr]
        by_cases hk2 : k2 ∈ nks'
        · simp [hk2]
        · by_cases he : k' = k2
          · simp [he]
          · have : ¬ k2 = k' := fun e => he e.symm
            simp [hk2, he, this]

theorem clear_sim (h : Refines m P inv abs) (s : S) (r : RefDict K V) (hs : inv s)
    (hr : SameMap (abs s) r) (nr : NodupKeys r) :
    (m.clear s).1 = .ok () ∧ inv (m.clear s).2 ∧ abs (m.clear s).2 = [] := by
  have := delAll_sim h (m.keys s) (keysOf (abs s)) s r hs hr nr (h.keys s hs) (h.nodup s hs)
    (fun k' hk' => (sameMap_mem_keys hr k').1 hk')
  refine ⟨this.1, this.2.1, ?_⟩
  apply SameMap.eq_nil
  intro k2
  rw [MapImpl.clear, this.2.2 k2]
  by_cases hk2 : k2 ∈ keysOf (abs s)
  · simp [hk2]
  · have : k2 ∉ keysOf r := fun hh => hk2 ((sameMap_mem_keys hr k2).2 hh)
    simp [hk2, (lookup_eq_none_iff k2 r).2 this]

/-- `popitem` against the reference state `abs s` itself: the first key -/
theorem popitem_exact (h : Refines m P inv abs) (s : S) (hs : inv s) :
    (abs s = [] ∧ m.popitem s = (.error .key, s)) ∨
    (∃ k k' v t s', abs s = (k', v) :: t ∧ P.norm k = .ok k' ∧ m.popitem s = (.ok (k, v), s') ∧ inv s' ∧
      SameMap (abs s') t) := by
  have hk := h.keys s hs
  have na := h.nodup s hs
  cases hks : m.keys s with
  | nil =>
    left
    rw [hks] at hk
    cases ha : abs s with
    | nil => simp [MapImpl.popitem, hks]
    | cons p t => simp [ha] at hk
  | cons k ks =>
    right
    rw [hks] at hk
    cases ha : abs s with
    | nil => simp [ha] at hk
    | cons p t =>
      obtain ⟨k', v⟩ := p
      simp only [ha, keysOf_cons, List.map_cons, List.cons.injEq] at hk
      have hg : m.getitem s k = .ok v := by
        rw [h.get s k hs, Ref.get, hk.1, ha]; simp [lookupE]
      have hd := del_sim h s (abs s) hs (SameMap.refl _) na k
      rw [ha] at hd
      rcases hd with ⟨e, h1, h2⟩ | ⟨s', r', h1, h2, h3, h4, h5⟩
      · simp [Ref.del, hk.1] at h2
      · simp only [Ref.del, hk.1, lookup_cons, ↓reduceIte, erase, Except.ok.injEq] at h2
        subst h2
        refine ⟨k, k', v, t, s', rfl, hk.1, ?_, h3, ?_⟩
        · simp [MapImpl.popitem, hks, MapImpl.pop, hg, h1]
        · exact h4

theorem fromItems_aux (l : List (K × V)) : ∀ acc : RefDict K V, NodupKeys (acc ++ l) →
    l.foldl (fun acc p => insert p.1 p.2 acc) acc = acc ++ l := by
  induction l with
  | nil => intro acc _; simp
  | cons p t ih =>
    intro acc hn
    have hp : p.1 ∉ keysOf acc := by
      unfold NodupKeys keysOf at hn
      simp only [List.map_append, List.map_cons] at hn
      rw [List.nodup_append] at hn
      intro hmem
      exact hn.2.2 _ hmem _ (by simp) rfl
    simp only [List.foldl_cons]
    rw [insert_of_not_mem _ _ _ hp, ih]
    · simp
    · simpa using hn

theorem fromItems_of_nodup (r : RefDict K V) (h : NodupKeys r) : fromItems r = r := by
  have := fromItems_aux r [] (by simpa using h)
  simpa [fromItems] using this

theorem eq_exact [DecidableEq V] (h : Refines m P inv abs) (s : S) (hs : inv s)
    (hid : ∀ k ∈ m.keys s, P.norm k = .ok k) (o : RefDict K V) :
    m.eq s o = .ok (Ref.eq (abs s) o) := by
  have hk := h.keys s hs
  have hk' : (m.keys s).map P.norm = (m.keys s).map Except.ok := List.map_congr_left hid
  rw [hk'] at hk
  have hk2 : m.keys s = keysOf (abs s) :=
    (List.map_inj_right (fun a b e => by injection e)).1 hk
  unfold MapImpl.eq MapImpl.items
  rw [values_exact h s hs]
  simp only [Ref.eq, Ref.values, hk2]
  have : (keysOf (abs s)).zip ((abs s).map Prod.snd) = abs s := by
    have := zip_keys_values (fun k => k) (abs s)
    simpa using this
  rw [this, fromItems_of_nodup _ (h.nodup s hs)]

end generic2

/-! ### one step, whole traces -/

section steps
variable {S K V : Type} [DecidableEq K] {m : MapImpl S K V} {P : Policy K V} {inv : S → Prop}
  {abs : S → RefDict K V}

/-- operations whose output is a list in iteration order, or a key picked by iteration order -/
def Op.isListy : Op K V → Bool
  | .keys => true | .values => true | .items => true | .popitem => true
  | _ => false

theorem outMatch_val (x : Except PyErr V) : OutMatch P (outOf (K := K) .val x) (outOf .val x) := by
  cases x <;> simp [outOf, OutMatch]

theorem outMatch_bool (x : Except PyErr Bool) : OutMatch P (outOf (K := K) (V := V) .bool x) (outOf .bool x) := by
  cases x <;> simp [outOf, OutMatch]

theorem outMatch_unit {α : Type} (x : Except PyErr α) :
    OutMatch P (outOf (K := K) (V := V) (fun _ => .unit) x) (outOf (fun _ => .unit) x) := by
  cases x <;> simp [outOf, OutMatch]

theorem OutMatch.toEquiv {o o' : Out K V} (h : OutMatch P o o') : OutEquiv P o o' := by
  cases o <;> cases o' <;> simp_all [OutMatch, OutEquiv]
  · exact ⟨_, rfl, List.Perm.refl _⟩
  · exact ⟨_, rfl, List.Perm.refl _⟩

theorem step_nonlist (h : Refines m P inv abs) (s : S) (r : RefDict K V) (hs : inv s)
    (hr : SameMap (abs s) r) (nr : NodupKeys r) (op : Op K V) (hop : Op.isListy op = false) :
    OutMatch P (m.step s op).1 (Ref.step P r op).1 ∧ inv (m.step s op).2 ∧
      SameMap (abs (m.step s op).2) (Ref.step P r op).2 ∧ NodupKeys (Ref.step P r op).2 := by
  cases op with
  | get k =>
    simp only [MapImpl.step, Ref.step]; rw [get_sim h s r hs hr k]
    exact ⟨outMatch_val _, hs, hr, nr⟩
  | set k v =>
    rcases set_sim h s r hs hr nr k v with ⟨e, h1, h2⟩ | ⟨s', r', h1, h2, h3, h4, h5⟩
    · simp only [MapImpl.step, Ref.step, h1, h2]; exact ⟨rfl, hs, hr, nr⟩
    · simp only [MapImpl.step, Ref.step, h1, h2]; exact ⟨trivial, h3, h4, h5⟩
  | del k =>
    rcases del_sim h s r hs hr nr k with ⟨e, h1, h2⟩ | ⟨s', r', h1, h2, h3, h4, h5⟩
    · simp only [MapImpl.step, Ref.step, h1, h2]; exact ⟨rfl, hs, hr, nr⟩
    · simp only [MapImpl.step, Ref.step, h1, h2]; exact ⟨trivial, h3, h4, h5⟩
  | contains k =>
    simp only [MapImpl.step, Ref.step]; rw [contains_sim h s r hs hr k]
    exact ⟨outMatch_bool _, hs, hr, nr⟩
  | keys => simp [Op.isListy] at hop
  | values => simp [Op.isListy] at hop
  | items => simp [Op.isListy] at hop
  | popitem => simp [Op.isListy] at hop
  | len =>
    simp only [MapImpl.step, Ref.step, Ref.len, len_exact h s hs]
    exact ⟨(hr.perm (h.nodup s hs) nr).length_eq, hs, hr, nr⟩
  | clear =>
    obtain ⟨h1, h2, h3⟩ := clear_sim h s r hs hr nr
    simp only [MapImpl.step, Ref.step, Ref.clear, h1, h3]
    exact ⟨trivial, h2, SameMap.refl _, List.nodup_nil⟩
  | pop k =>
    obtain ⟨h1, h2, h3, h4⟩ := pop_sim h s r hs hr nr k none
    simp only [MapImpl.step, Ref.step, h1]
    exact ⟨outMatch_val _, h2, h3, h4⟩
  | popD k d =>
    obtain ⟨h1, h2, h3, h4⟩ := pop_sim h s r hs hr nr k (some d)
    simp only [MapImpl.step, Ref.step, h1]
    exact ⟨outMatch_val _, h2, h3, h4⟩
  | update l =>
    obtain ⟨h1, h2, h3, h4⟩ := update_sim h l s r hs hr nr
    simp only [MapImpl.step, Ref.step, h1]
    exact ⟨outMatch_unit _, h2, h3, h4⟩
  | setdefault k d =>
    obtain ⟨h1, h2, h3, h4⟩ := setdefault_sim h s r hs hr nr k d
    simp only [MapImpl.step, Ref.step, h1]
    exact ⟨outMatch_val _, h2, h3, h4⟩
  | getD k d =>
    simp only [MapImpl.step, Ref.step]; rw [getD_sim h s r hs hr k d]
    exact ⟨outMatch_val _, hs, hr, nr⟩

/-- every operation, store against the reference run on `abs s` itself -/
theorem step_exact (h : Refines m P inv abs) (s : S) (hs : inv s) (op : Op K V) :
    OutMatch P (m.step s op).1 (Ref.step P (abs s) op).1 ∧ inv (m.step s op).2 ∧
      SameMap (abs (m.step s op).2) (Ref.step P (abs s) op).2 := by
  cases hop : Op.isListy op with
  | false =>
    obtain ⟨h1, h2, h3, _⟩ := step_nonlist h s (abs s) hs (SameMap.refl _) (h.nodup s hs) op hop
    exact ⟨h1, h2, h3⟩
  | true =>
    cases op <;> simp [Op.isListy] at hop
    · -- keys
      exact ⟨h.keys s hs, hs, SameMap.refl _⟩
    · -- values
      simp only [MapImpl.step, Ref.step, values_exact h s hs, outOf]
      exact ⟨rfl, hs, SameMap.refl _⟩
    · -- items
      obtain ⟨l, hl, hl2⟩ := items_exact h s hs
      simp only [MapImpl.step, Ref.step, hl, outOf]
      exact ⟨hl2, hs, SameMap.refl _⟩
    · -- popitem
      rcases popitem_exact h s hs with ⟨ha, hp⟩ | ⟨k, k', v, t, s', ha, hn, hp, hs', hr'⟩
      · simp only [MapImpl.step, Ref.step, hp, ha, Ref.popitem, outOf]
        exact ⟨rfl, hs, SameMap.refl _⟩
      · simp only [MapImpl.step, Ref.step, hp, ha, Ref.popitem, outOf]
        exact ⟨⟨hn, rfl⟩, hs', hr'⟩

/-- every operation but `popitem`, store against the reference run on any list that is the
same dictionary as `abs s` -/
theorem step_sim (h : Refines m P inv abs) (s : S) (r : RefDict K V) (hs : inv s)
    (hr : SameMap (abs s) r) (nr : NodupKeys r) (op : Op K V) (hop : Op.isPopitem op = false) :
    OutEquiv P (m.step s op).1 (Ref.step P r op).1 ∧ inv (m.step s op).2 ∧
      SameMap (abs (m.step s op).2) (Ref.step P r op).2 ∧ NodupKeys (Ref.step P r op).2 := by
  have na := h.nodup s hs
  have hperm := hr.perm na nr
  cases hl : Op.isListy op with
  | false =>
    obtain ⟨h1, h2, h3, h4⟩ := step_nonlist h s r hs hr nr op hl
    exact ⟨h1.toEquiv, h2, h3, h4⟩
  | true =>
    cases op <;> simp [Op.isListy] at hl <;> simp [Op.isPopitem] at hop
    · exact ⟨⟨keysOf (abs s), h.keys s hs, hperm.map _⟩, hs, hr, nr⟩
    · simp only [MapImpl.step, Ref.step, values_exact h s hs, outOf]
      exact ⟨hperm.map _, hs, hr, nr⟩
    · obtain ⟨l, hl, hl2⟩ := items_exact h s hs
      simp only [MapImpl.step, Ref.step, hl, outOf]
      exact ⟨⟨abs s, hl2, hperm⟩, hs, hr, nr⟩

theorem refStep_of_not_popitem (r : RefDict K V) (op : Op K V) (o : Out K V) (r' : RefDict K V)
    (hop : Op.isPopitem op = false) :
    RefStep P r op o r' ↔ (OutEquiv P o (Ref.step P r op).1 ∧ r' = (Ref.step P r op).2) := by
  cases op <;> simp [Op.isPopitem] at hop <;> simp [RefStep]

theorem trace_sim (h : Refines m P inv abs) (ops : List (Op K V)) : ∀ (s : S) (r : RefDict K V), inv s →
    SameMap (abs s) r → NodupKeys r → Accepts P r ops (m.run ops s) := by
  induction ops with
  | nil => intro s r _ _ _; simp [MapImpl.run, Accepts]
  | cons op ops ih =>
    intro s r hs hr nr
    have na := h.nodup s hs
    simp only [MapImpl.run, Accepts]
    cases hop : Op.isPopitem op with
    | false =>
      obtain ⟨h1, h2, h3, h4⟩ := step_sim h s r hs hr nr op hop
      exact ⟨_, (refStep_of_not_popitem r op _ _ hop).2 ⟨h1, rfl⟩, ih _ _ h2 h3 h4⟩
    | true =>
      cases op <;> simp [Op.isPopitem] at hop
      rcases popitem_exact h s hs with ⟨ha, hp⟩ | ⟨k, k', v, t, s', ha, hn, hp, hs', hr'⟩
      · have hrn : r = [] := by
          apply SameMap.eq_nil; rw [ha] at hr; exact hr.symm
        simp only [MapImpl.step, hp, outOf]
        exact ⟨r, Or.inl ⟨hrn, rfl, rfl⟩, ih s r hs hr nr⟩
      · simp only [MapImpl.step, hp, outOf]
        have hlk : lookup k' r = some v := by rw [← hr k', ha]; simp
        have he : SameMap t (erase k' r) := by
          have := hr.erase na nr k'
          rw [ha] at this
          simpa [erase] using this
        exact ⟨erase k' r, Or.inr ⟨k, k', v, rfl, hn, hlk, rfl⟩,
          ih s' (erase k' r) hs' (hr'.trans he) (nodup_erase _ _ nr)⟩

/-- popitem-free sequences: output by output against the deterministic reference run -/
theorem trace_det (h : Refines m P inv abs) (ops : List (Op K V)) : ∀ (s : S) (r : RefDict K V), inv s →
    SameMap (abs s) r → NodupKeys r → (∀ op ∈ ops, Op.isPopitem op = false) →
    OutsEquiv P (m.run ops s) (Ref.run P ops r) := by
  induction ops with
  | nil => intro s r _ _ _ _; simp [MapImpl.run, Ref.run, OutsEquiv]
  | cons op ops ih =>
    intro s r hs hr nr hall
    simp only [MapImpl.run, Ref.run, OutsEquiv]
    obtain ⟨h1, h2, h3, h4⟩ := step_sim h s r hs hr nr op (hall op (by simp))
    exact And.intro h1 (ih _ _ h2 h3 h4 (fun o ho => hall o (by simp [ho])))

/-- the invariant and the abstraction along a whole run -/
theorem exec_inv (h : Refines m P inv abs) (ops : List (Op K V)) : ∀ s, inv s → inv (m.exec ops s) := by
  induction ops with
  | nil => intro s hs; exact hs
  | cons op ops ih => intro s hs; exact ih _ (step_exact h s hs op).2.1

end steps

/-! ### DictProxy -/

section proxy
variable {K V : Type} [DecidableEq K]

theorem proxy_refines_aux : Refines (proxyImpl K V) (proxyPolicy K V) NodupKeys (fun s => s) where
  nodup := fun s hs => hs
  keys := fun s hs => rfl
  get := fun s k hs => rfl
  set := fun s k v hs => by
    simp only [proxyImpl, Ref.set, proxyPolicy, SimStep]
    exact ⟨nodup_insert _ _ _ hs, SameMap.refl _⟩
  del := fun s k hs => by
    simp only [proxyImpl, Ref.del, proxyPolicy]
    cases hl : lookup k s with
    | none => simp [SimStep]
    | some v => simp only [SimStep]; exact ⟨nodup_erase _ _ hs, SameMap.refl _⟩

end proxy

/-! ### _CIDictProxy / APEv2 -/

section alist2
variable {K V : Type} [DecidableEq K]

theorem mem_insert_cases (k : K) (v : V) (r : RefDict K V) (p : K × V) (h : p ∈ insert k v r) :
    p = (k, v) ∨ p ∈ r := by
  induction r with
  | nil => simp [insert] at h; exact Or.inl h
  | cons q t ih =>
    obtain ⟨k', v'⟩ := q
    by_cases hk : k' = k
    · subst hk
      simp only [insert, ↓reduceIte, List.mem_cons] at h
      rcases h with h | h
      · exact Or.inl h
      · exact Or.inr (List.mem_cons_of_mem _ h)
    · simp only [insert, hk, ↓reduceIte, List.mem_cons] at h
      rcases h with h | h
      · exact Or.inr (by simp [h])
      · rcases ih h with h | h
        · exact Or.inl h
        · exact Or.inr (List.mem_cons_of_mem _ h)

theorem mem_of_mem_erase (k : K) (r : RefDict K V) (p : K × V) (h : p ∈ erase k r) : p ∈ r := by
  induction r with
  | nil => simp [erase] at h
  | cons q t ih =>
    obtain ⟨k', v'⟩ := q
    by_cases hk : k' = k
    · simp only [erase, hk, ↓reduceIte] at h; exact List.mem_cons_of_mem _ h
    · simp only [erase, hk, ↓reduceIte, List.mem_cons] at h
      rcases h with h | h
      · simp [h]
      · exact List.mem_cons_of_mem _ (ih h)

theorem keysOf_erase (k : K) (r : RefDict K V) : keysOf (erase k r) = (keysOf r).erase k := by
  induction r with
  | nil => simp [erase]
  | cons q t ih =>
    obtain ⟨k', v'⟩ := q
    by_cases hk : k' = k
    · simp [erase, hk]
    · simp [erase, hk, List.erase_cons, ih]

end alist2

/-- the invariant of `_CIDictProxy` as used by `APEv2`: both dicts have the same keys in the
same order; each remembered spelling is a valid key that lower-cases to the key it is filed
under -/
def CIInv (s : CI) : Prop :=
  keysOf s.casemap = keysOf s.dict ∧ NodupKeys s.dict ∧
    ∀ p ∈ s.casemap, apeValid p.2 = true ∧ lower p.2 = p.1

theorem ciInv_empty : CIInv CI.empty := by
  refine ⟨rfl, List.nodup_nil, ?_⟩
  intro p hp; simp [CI.empty] at hp

theorem ape_refines_aux : Refines apeImpl apePolicy CIInv (fun s => s.dict) where
  nodup := fun s hs => hs.2.1
  keys := fun s hs => by
    obtain ⟨hk, hn, hv⟩ := hs
    have hnc : NodupKeys s.casemap := by unfold NodupKeys; rw [hk]; exact hn
    simp only [apeImpl, ciKeys, List.map_map]
    apply List.map_congr_left
    intro lk hlk
    have hlk' : lk ∈ keysOf s.casemap := by rw [hk]; exact hlk
    obtain ⟨disp, hd⟩ := Option.isSome_iff_exists.1 ((mem_keysOf_iff lk s.casemap).1 hlk')
    have hmem := (mem_iff_lookup lk disp s.casemap hnc).2 hd
    obtain ⟨h1, h2⟩ := hv _ hmem
    simp only [Function.comp, hd, Option.getD_some, apePolicy]
    simp only at h1 h2
    simp [h1, h2]
  get := fun s k hs => by
    simp only [apeImpl, apeGet, Ref.get, apePolicy, ciGet]
    cases apeValid k <;> simp
  set := fun s k v hs => by
    obtain ⟨hk, hn, hv⟩ := hs
    simp only [apeImpl, apeSet, Ref.set, apePolicy]
    cases hval : apeValid k with
    | false => simp [SimStep]
    | true =>
      simp only [↓reduceIte]
      cases hc : apeCoerce v with
      | error e => simp [SimStep]
      | ok v' =>
        simp only [SimStep, ciSet]
        refine ⟨⟨?_, nodup_insert _ _ _ hn, ?_⟩, SameMap.refl _⟩
        · simp [keysOf_insert, hk]
        · intro p hp
          rcases mem_insert_cases _ _ _ _ hp with h | h
          · subst h; exact ⟨hval, rfl⟩
          · exact hv p h
  del := fun s k hs => by
    obtain ⟨hk, hn, hv⟩ := hs
    simp only [apeImpl, apeDel, Ref.del, apePolicy]
    cases hval : apeValid k with
    | false => simp [SimStep]
    | true =>
      simp only [↓reduceIte, ciDel]
      cases hd : lookup (lower k) s.dict with
      | none =>
        cases hc : lookup (lower k) s.casemap <;> simp [SimStep]
      | some v0 =>
        have hm : lower k ∈ keysOf s.casemap := by
          rw [hk, mem_keysOf_iff, hd]; rfl
        obtain ⟨d0, hd0⟩ := Option.isSome_iff_exists.1 ((mem_keysOf_iff _ _).1 hm)
        simp only [hd0, SimStep]
        refine ⟨⟨?_, nodup_erase _ _ hn, ?_⟩, SameMap.refl _⟩
        · simp only [keysOf_erase, hk]
        · intro p hp; exact hv p (mem_of_mem_erase _ _ _ hp)

/-! ### VCommentDict -/

theorem lowerC_lowerC (c : Nat) : lowerC (lowerC c) = lowerC c := by
  unfold lowerC; split <;> (try split) <;> omega

theorem lower_lower (k : Text) : lower (lower k) = lower k := by
  simp [lower, List.map_map, Function.comp, lowerC_lowerC]

theorem vcValid_lower (k : Text) (h : vcValid k = true) : vcValid (lower k) = true := by
  simp only [vcValid, lower, Bool.and_eq_true, List.all_eq_true, decide_eq_true_eq, Bool.not_eq_true',
    List.isEmpty_eq_false_iff, List.all_map, Function.comp] at h ⊢
  refine ⟨?_, by simpa using h.2⟩
  intro c hc
  have := h.1 c hc
  unfold lowerC; split <;> omega

section dedup
variable {α : Type} [DecidableEq α]

theorem mem_dedup (a : α) (l : List α) : a ∈ dedup l ↔ a ∈ l := by
  induction l with
  | nil => simp [dedup]
  | cons b t ih =>
    simp only [dedup, List.mem_cons, List.mem_filter, decide_eq_true_eq, ih]
    by_cases h : a = b <;> simp [h]

theorem nodup_dedup (l : List α) : (dedup l).Nodup := by
  induction l with
  | nil => simp [dedup]
  | cons b t ih =>
    simp only [dedup, List.nodup_cons, List.mem_filter, decide_eq_true_eq, ne_eq, not_true_eq_false,
      and_false, not_false_eq_true, true_and]
    exact List.Pairwise.filter _ ih

theorem lookup_map_mk {β : Type} (f : α → β) (k : α) (l : List α) :
    lookup k (l.map (fun a => (a, f a))) = if k ∈ l then some (f k) else none := by
  induction l with
  | nil => simp
  | cons a t ih =>
    by_cases h : a = k
    · subst h; simp
    · have h' : ¬ k = a := fun e => h e.symm
      simp [h, h', ih]

end dedup

/-- every stored key is a valid Vorbis comment key (true of everything entered through the
dictionary interface) -/
def VCInv (s : VC) : Prop := ∀ p ∈ s, vcValid p.1 = true

/-- group the pairs by lower-cased key -/
def vcAbs (s : VC) : RefDict Text Val := (vcKeys s).map (fun lk => (lk, Val.list (vcValuesOf lk s)))

theorem keysOf_vcAbs (s : VC) : keysOf (vcAbs s) = vcKeys s := by
  simp only [vcAbs, keysOf, List.map_map]
  show List.map (fun lk => lk) (vcKeys s) = vcKeys s
  simp

@[simp] theorem vcValuesOf_nil (lk : Text) : vcValuesOf lk [] = [] := rfl

theorem vcValuesOf_cons (lk : Text) (p : Text × Atom) (t : VC) :
    vcValuesOf lk (p :: t) = if lower p.1 = lk then p.2 :: vcValuesOf lk t else vcValuesOf lk t := by
  unfold vcValuesOf
  by_cases h : lower p.1 = lk <;> simp [List.filterMap_cons, h]

@[simp] theorem vcWithout_nil (lk : Text) : vcWithout lk [] = [] := rfl

theorem vcWithout_cons (lk : Text) (p : Text × Atom) (t : VC) :
    vcWithout lk (p :: t) = if lower p.1 = lk then vcWithout lk t else p :: vcWithout lk t := by
  unfold vcWithout
  by_cases h : lower p.1 = lk <;> simp [List.filter_cons, h]

theorem vcValuesOf_eq_nil (lk : Text) (s : VC) : vcValuesOf lk s = [] ↔ ∀ p ∈ s, lower p.1 ≠ lk := by
  induction s with
  | nil => simp
  | cons p t ih =>
    rw [vcValuesOf_cons]
    by_cases h : lower p.1 = lk
    · simp [h]
    · simp [h, ih]

theorem mem_vcKeys (lk : Text) (s : VC) : lk ∈ vcKeys s ↔ vcValuesOf lk s ≠ [] := by
  rw [vcKeys, mem_dedup, Ne, vcValuesOf_eq_nil]
  simp only [List.mem_map]
  constructor
  · rintro ⟨p, hp, e⟩ hall; exact hall p hp e
  · intro hne
    apply Classical.byContradiction
    intro hcon
    apply hne
    intro p hp e
    exact hcon ⟨p, hp, e⟩

theorem vc_lookup (lk : Text) (s : VC) :
    lookup lk (vcAbs s) = if vcValuesOf lk s = [] then none else some (Val.list (vcValuesOf lk s)) := by
  rw [vcAbs, lookup_map_mk]
  by_cases h : vcValuesOf lk s = []
  · have : lk ∉ vcKeys s := fun hm => (mem_vcKeys lk s).1 hm h
    simp [h, this]
  · simp [h, (mem_vcKeys lk s).2 h]

theorem vcValuesOf_append (lk : Text) (a b : VC) : vcValuesOf lk (a ++ b) = vcValuesOf lk a ++ vcValuesOf lk b := by
  simp [vcValuesOf, List.filterMap_append]

theorem vcValuesOf_without (k2 lk : Text) (s : VC) :
    vcValuesOf k2 (vcWithout lk s) = if k2 = lk then [] else vcValuesOf k2 s := by
  induction s with
  | nil => simp
  | cons p t ih =>
    rw [vcWithout_cons, vcValuesOf_cons]
    by_cases h : lower p.1 = lk
    · by_cases h2 : k2 = lk
      · subst h2; simpa [h] using ih
      · have : ¬ lk = k2 := fun e => h2 e.symm
        simp [h, h2, this, ih]
    · by_cases h2 : k2 = lk
      · subst h2; simpa [h, vcValuesOf_cons] using ih
      · simp only [h, ↓reduceIte, vcValuesOf_cons, ih, h2]

theorem vcValuesOf_new (k2 k : Text) (l : List Atom) :
    vcValuesOf k2 (l.map (fun a => (k, a))) = if lower k = k2 then l else [] := by
  induction l with
  | nil => simp
  | cons a t ih =>
    rw [List.map_cons, vcValuesOf_cons, ih]
    by_cases h : lower k = k2 <;> simp [h]

theorem nodup_vcAbs (s : VC) : NodupKeys (vcAbs s) := by
  unfold NodupKeys; rw [keysOf_vcAbs]; exact nodup_dedup _

theorem vc_refines_aux : Refines vcImpl vcPolicy VCInv vcAbs where
  nodup := fun s _ => nodup_vcAbs s
  keys := fun s hs => by
    rw [keysOf_vcAbs]
    apply List.map_congr_left
    intro lk hlk
    simp only [vcImpl, vcKeys, mem_dedup, List.mem_map] at hlk
    obtain ⟨p, hp, e⟩ := hlk
    subst e
    simp [vcPolicy, vcValid_lower _ (hs p hp), lower_lower]
  get := fun s k hs => by
    simp only [vcImpl, vcGet, Ref.get, vcPolicy]
    cases hval : vcValid k with
    | false => simp
    | true =>
      simp only [↓reduceIte, lookupE, vc_lookup]
      cases hv : vcValuesOf (lower k) s <;> simp
  set := fun s k v hs => by
    simp only [vcImpl, vcSet, Ref.set, vcPolicy]
    cases hval : vcValid k with
    | false => simp [SimStep]
    | true =>
      simp only [↓reduceIte]
      have hinv : VCInv (vcWithout (lower k) s ++ (vcAsList v).map (fun a => (k, a))) := by
        intro p hp
        rcases List.mem_append.1 hp with h | h
        · exact hs p (List.mem_filter.1 h).1
        · obtain ⟨a, _, e⟩ := List.mem_map.1 h; subst e; exact hval
      cases hl : vcAsList v with
      | nil =>
        simp only [SimStep, List.map_nil, List.append_nil]
        refine ⟨by simpa [hl] using hinv, ?_⟩
        intro k2
        rw [lookup_erase _ _ _ (nodup_vcAbs s), vc_lookup, vc_lookup, vcValuesOf_without]
        by_cases h2 : k2 = lower k
        · subst h2; simp
        · have : ¬ lower k = k2 := fun e => h2 e.symm
          simp [h2, this]
      | cons a t =>
        simp only [SimStep]
        refine ⟨by simpa [hl] using hinv, ?_⟩
        intro k2
        rw [lookup_insert, vc_lookup, vc_lookup, vcValuesOf_append, vcValuesOf_without, vcValuesOf_new]
        by_cases h2 : k2 = lower k
        · subst h2; simp
        · have : ¬ lower k = k2 := fun e => h2 e.symm
          simp [h2, this]
  del := fun s k hs => by
    simp only [vcImpl, vcDel, Ref.del, vcPolicy]
    cases hval : vcValid k with
    | false => simp [SimStep]
    | true =>
      simp only [↓reduceIte, vc_lookup]
      cases hv : vcValuesOf (lower k) s with
      | nil => simp [SimStep]
      | cons a t =>
        simp only [SimStep, reduceCtorEq, ↓reduceIte]
        refine ⟨fun p hp => hs p (List.mem_filter.1 hp).1, ?_⟩
        intro k2
        rw [lookup_erase _ _ _ (nodup_vcAbs s), vc_lookup, vc_lookup, vcValuesOf_without]
        by_cases h2 : k2 = lower k
        · subst h2; simp
        · have : ¬ lower k = k2 := fun e => h2 e.symm
          simp [h2, this]

/-! #### the methods VCommentDict does not take from DictMixin -/

theorem vc_any (lk : Text) (s : VC) :
    s.any (fun p => decide (lower p.1 = lk)) = !(vcValuesOf lk s).isEmpty := by
  induction s with
  | nil => simp
  | cons p t ih =>
    rw [List.any_cons, vcValuesOf_cons, ih]
    by_cases h : lower p.1 = lk <;> simp [h]

theorem vc_contains_eq_aux (s : VC) (k : Text) : vcContains s k = vcImpl.contains s k := by
  unfold vcContains MapImpl.contains
  simp only [vcImpl, vcGet]
  cases hval : vcValid k with
  | false => simp
  | true =>
    simp only [↓reduceIte, vc_any]
    cases hv : vcValuesOf (lower k) s <;> simp

theorem vcAbs_eq_nil (s : VC) (h : vcAbs s = []) : s = [] := by
  cases s with
  | nil => rfl
  | cons p t => simp [vcAbs, vcKeys, dedup] at h

theorem vc_clear_eq_aux (s : VC) (hs : VCInv s) : vcImpl.clear s = (.ok (), vcClear s) := by
  obtain ⟨h1, h2, h3⟩ := clear_sim vc_refines_aux s (vcAbs s) hs (SameMap.refl _) (nodup_vcAbs s)
  exact Prod.ext h1 (vcAbs_eq_nil _ h3)

theorem sum_map_zero {α : Type} (l : List α) : (l.map (fun _ => 0)).sum = 0 := by
  induction l with
  | nil => rfl
  | cons a t ih => simp [ih]

theorem sum_map_add {α : Type} (f g : α → Nat) (l : List α) :
    (l.map (fun a => f a + g a)).sum = (l.map f).sum + (l.map g).sum := by
  induction l with
  | nil => rfl
  | cons a t ih => simp [ih]; omega

theorem sum_indicator {α : Type} [DecidableEq α] (a : α) (l : List α) (nd : l.Nodup) (hm : a ∈ l) :
    (l.map (fun b => if a = b then 1 else 0)).sum = 1 := by
  induction l with
  | nil => simp at hm
  | cons b t ih =>
    simp only [List.nodup_cons] at nd
    by_cases h : a = b
    · subst h
      have hz : (t.map (fun b => if a = b then 1 else 0)).sum = 0 := by
        have : t.map (fun b => if a = b then 1 else 0) = t.map (fun _ => 0) := by
          apply List.map_congr_left
          intro c hc
          have : ¬ a = c := fun e => nd.1 (e ▸ hc)
          simp [this]
        rw [this, sum_map_zero]
      simp [hz]
    · have hm' : a ∈ t := by
        rcases List.mem_cons.1 hm with e | e
        · exact absurd e h
        · exact e
      simp [h, ih nd.2 hm']

theorem vc_count (s : VC) : ∀ (ks : List Text), ks.Nodup → (∀ p ∈ s, lower p.1 ∈ ks) →
    (ks.map (fun lk => (vcValuesOf lk s).length)).sum = s.length := by
  induction s with
  | nil => intro ks _ _; simp [sum_map_zero]
  | cons p t ih =>
    intro ks nd hall
    have h1 : ks.map (fun lk => (vcValuesOf lk (p :: t)).length) =
        ks.map (fun lk => (if lower p.1 = lk then 1 else 0) + (vcValuesOf lk t).length) := by
      apply List.map_congr_left
      intro lk _
      rw [vcValuesOf_cons]
      by_cases h : lower p.1 = lk <;> simp [h]; omega
    rw [h1, sum_map_add, sum_indicator (lower p.1) ks nd (hall p (by simp)),
      ih ks nd (fun q hq => hall q (List.mem_cons_of_mem _ hq))]
    simp; omega

theorem vc_len_aux (s : VC) : vcLen s = ((vcAbs s).map (fun p => (vcAsList p.2).length)).sum := by
  have := vc_count s (vcKeys s) (nodup_dedup _) (fun p hp => by
    rw [vcKeys, mem_dedup]; exact List.mem_map_of_mem hp)
  rw [vcLen, ← this, vcAbs, List.map_map]
  rfl

theorem vcStep_eq (s : VC) (hs : VCInv s) (op : Op Text Val) (hop : Op.isVcDict op = true) :
    vcStep s op = vcImpl.step s op := by
  cases op <;> simp [Op.isVcDict] at hop <;> try rfl
  · simp only [vcStep, MapImpl.step, vc_contains_eq_aux]
  · simp only [vcStep, MapImpl.step, vc_clear_eq_aux s hs, outOf]

theorem vcRun_eq (ops : List (Op Text Val)) : ∀ (s : VC), VCInv s → (∀ op ∈ ops, Op.isVcDict op = true) →
    vcRun ops s = vcImpl.run ops s := by
  induction ops with
  | nil => intro s _ _; rfl
  | cons op ops ih =>
    intro s hs hall
    have h1 := vcStep_eq s hs op (hall op (by simp))
    simp only [vcRun, MapImpl.run, h1]
    rw [ih _ (step_exact vc_refines_aux s hs op).2.1 (fun o ho => hall o (by simp [ho]))]

theorem isVcDict_not_popitem {K V : Type} (op : Op K V) (h : Op.isVcDict op = true) : Op.isPopitem op = false := by
  cases op <;> simp [Op.isVcDict] at h <;> rfl

theorem ape_keeps_spelling_aux (s s' : CI) (k : Text) (v : Val) (hs : CIInv s)
    (h : apeImpl.setitem s k v = .ok s') : k ∈ apeImpl.keys s' := by
  simp only [apeImpl, apeSet] at h
  cases hval : apeValid k with
  | false => simp [hval] at h
  | true =>
    simp only [hval, ↓reduceIte] at h
    cases hc : apeCoerce v with
    | error e => simp [hc] at h
    | ok v' =>
      simp only [hc, Except.ok.injEq] at h
      subst h
      simp only [apeImpl, ciKeys, ciSet, List.mem_map]
      refine ⟨lower k, ?_, ?_⟩
      · rw [mem_keysOf_iff, lookup_insert]; simp
      · rw [lookup_insert]; simp

end Mutagen.Dict
