/-
Proofs/FileTypes.lean — lemmas for Props/C04_FileTypes.lean: the combinators of Model/FileTypes.lean keep "ok or
MutagenError"; the ID3 tag at an offset; the APEv2 item loop; the pure Ogg load (`OggInj.loadPure`) and the pure MP4
load (`Mp4C.loadPure`) raise MutagenError only.
-/
import MutagenModel.Model.FileTypes
import MutagenModel.Proofs.Container.Id3FileLoad
import MutagenModel.Proofs.Container.OggInjectLoad
import MutagenModel.Proofs.Container.OggInjectTotal
import MutagenModel.Proofs.Container.OggInjectLoadLink
import MutagenModel.Proofs.Container.Mp4Total
import MutagenModel.Proofs.Container.Mp4Chapters
import MutagenModel.Proofs.Info.Mp4File
set_option linter.unusedVariables false
namespace Mutagen.FileTypes
open Mutagen

/-- "ok or MutagenError" -/
def Clean {α : Type} (r : Except PyErr α) : Prop := ∀ e, r = .error e → e = .mutagen

theorem Clean.ok {α : Type} (a : α) : Clean (.ok a : Except PyErr α) := by
  intro e h; cases h

theorem Clean.mutagen {α : Type} : Clean (.error .mutagen : Except PyErr α) := by
  intro e h; cases h; rfl

theorem Clean.both {α β : Type} {a : Except PyErr α} {b : Except PyErr β} (ha : Clean a) (hb : Clean b) : Clean (both a b) := by
  intro e h
  cases a with
  | error x => simp only [FileTypes.both] at h; cases h; exact ha _ rfl
  | ok v =>
    cases b with
    | error x => simp only [FileTypes.both] at h; cases h; exact hb _ rfl
    | ok w => simp only [FileTypes.both] at h; cases h

theorem Clean.map {α β : Type} {a : Except PyErr α} (g : α → β) (ha : Clean a) : Clean (a.map g) := by
  intro e h
  cases a with
  | error x => simp only [Except.map] at h; cases h; exact ha _ rfl
  | ok v => simp only [Except.map] at h; cases h

/-! ### ID3 -/

theorem id3At_clean (f : Bytes) (off : Nat) : Clean (id3At f off) := by
  intro e h
  unfold id3At at h
  split at h
  · rename_i e' he; cases h; exact Id3F.headerLoad_err _ _ he
  · split at h <;> cases h
  · split at h <;> cases h
  · simp only [] at h
    split at h
    · cases h; rfl
    · split at h
      · cases h; rfl
      · cases h

theorem id3Tags_clean {r : Except PyErr (Id3F.Loaded × Nat)} (hr : Clean r) : Clean (id3Tags r) := by
  intro e h
  unfold id3Tags at h
  split at h
  · cases h; exact hr _ rfl
  · cases h
  · cases h; rfl
  · cases h

/-- the plain `ID3(fileobj)` is the tag at offset 0 -/
theorem id3At_zero (f : Bytes) : (id3At f 0).map Prod.fst = Id3F.load true f := by
  unfold id3At Id3F.load
  simp only [List.drop_zero]
  cases Id3F.headerLoad f with
  | error e => rfl
  | ok h =>
    cases h with
    | noHeader => simp only [Bool.not_true, Bool.false_eq_true, if_false]; cases Id3F.findV1 f <;> rfl
    | unsupported => simp only [Bool.not_true, Bool.false_eq_true, if_false]; cases Id3F.findV1 f <;> rfl
    | hdr vmaj flags size ext =>
      simp only []
      split
      · rfl
      · split
        · rfl
        · simp [Except.map]

/-! ### APEv2 -/

theorem apeItems_clean : ∀ (n : Nat) (d : Bytes), Clean (apeItems n d)
  | 0, d => by intro e h; unfold apeItems at h; cases h
  | n + 1, d => by
    intro e h
    unfold apeItems at h
    simp only [] at h
    repeat' split at h
    all_goals first | (cases h; rfl) | cases h | exact apeItems_clean _ _ e h

theorem apeTags_clean (f : Bytes) (hloc : Clean (ApeF.locate f)) : Clean (apeTags f) := by
  intro e h
  unfold apeTags at h
  split at h
  · rename_i e' he; cases h; exact hloc _ he
  · cases h
  · simp only [] at h
    split at h
    · cases h
    · split at h
      · rename_i e' he; cases h; exact apeItems_clean _ _ _ he
      · cases h

/-! ### Ogg: the pure load -/

open Mutagen.Ogg Mutagen.OggInj in
theorem slowLastP_ok (f : Bytes) (serial : Nat) : ∀ (fuel pos : Nat) (best : Option Page), f.length - pos < fuel →
    ∃ r, slowLastP f serial fuel pos best = .ok r
  | 0, pos, best, h => by omega
  | fuel + 1, pos, best, h => by
    unfold slowLastP
    cases hr : readPage f pos with
    | error x => exact ⟨_, rfl⟩
    | ok v =>
      obtain ⟨p, next⟩ := v
      obtain ⟨h1, h2, _⟩ := readPage_ok f pos p next hr
      have := size_ge p
      simp only []
      have hf : f.length - next < fuel := by omega
      split
      · split
        · exact ⟨_, rfl⟩
        · exact slowLastP_ok f serial fuel next _ hf
      · exact slowLastP_ok f serial fuel next _ hf

open Mutagen.Ogg Mutagen.OggInj in
/-- `find_last` by file position raises MutagenError only: it IS `Info.OggC.findLast` (`findLastP_link`) -/
theorem findLastP_clean (f : Bytes) (serial : Nat) : Clean (findLastP f serial) := by
  intro e h
  rw [findLastP_link] at h
  exact Info.OggC.findLast_classes f serial e h

open Mutagen.Ogg Mutagen.OggInj in
/-- what the info constructor raises inside the `try` of `load` -/
theorem infoP_err (c : Codec) (f : Bytes) (e : PyErr) (h : infoP c f = .error e) : e = .eof ∨ e = .mutagen := by
  unfold infoP at h
  simp only [] at h
  split at h
  · rename_i e' he
    cases h
    cases c
    · simp only [] at he
      split at he
      · rename_i x hx; cases he; exact readPage_err _ _ _ hx
      · rename_i p0 next hx
        split at he
        · cases he; exact Or.inr rfl
        · split at he
          · cases he
          · cases hsc : scanFrom f (startsWith magicVorbisId) (f.length + 1) next with
            | error x => rw [hsc] at he; simp only [Except.map] at he; cases he
                         exact (scanFrom_spec f _ _ next (by omega)).1 _ hsc
            | ok v => rw [hsc] at he; simp only [Except.map] at he; cases he
    all_goals
      simp only [] at he
      rename_i cc
      first
      | (cases hsc : scanFrom f (startsWith (Codec.idMagic _)) (f.length + 1) 0 with
         | error x => rw [hsc] at he; simp only [Except.map] at he; cases he
                      exact (scanFrom_spec f _ _ 0 (by omega)).1 _ hsc
         | ok v => rw [hsc] at he; simp only [Except.map] at he; cases he)
  · split at h
    · rename_i x hx; cases h; exact Or.inr (idCheck_err _ _ _ hx)
    · cases h

open Mutagen.Ogg Mutagen.OggInj in
theorem loadRaw_err (c : Codec) (f : Bytes) (e : PyErr)
    (h : loadRaw c f = .error e) : e = .eof ∨ e = .mutagen ∨ e = .value := by
  unfold loadRaw at h
  split at h
  · rename_i e' he; cases h
    rcases infoP_err c f _ he with h1 | h1
    · exact Or.inl h1
    · exact Or.inr (Or.inl h1)
  · split at h
    · rename_i e' he; cases h; exact readComment_err _ _ _ _ _ he
    · split at h
      · rename_i e' he; cases h; exact Or.inr (Or.inl (loadComment_err _ _ _ he))
      · split at h
        · split at h
          · rename_i e' he; cases h; exact Or.inr (Or.inl (findLastP_clean _ _ _ he))
          · cases h; exact Or.inr (Or.inl rfl)
          · cases h
        · cases h

open Mutagen.Ogg Mutagen.OggInj in
/-- `OggFileType.load` on the bytes, every codec, every byte string: ok or the format's error -/
theorem oggLoadPure_clean (c : Codec) (f : Bytes) : Clean (loadPure c f) := by
  intro e h
  unfold loadPure at h
  split at h
  · cases h
  · rename_i e' he
    rcases loadRaw_err c f e' he with h1 | h1 | h1 <;> subst h1 <;> simp [loadCaught, PyErr.isIO] at h <;> exact h.symm

/-! ### Ogg: the two models of `OggFileType.load` agree

`OggInj.loadPure c` (identification page, comments, last page) and `Info.<Codec>.parse` (info constructor and
`_post_tags`) — when the first is ok, so is the second: same page search, `idCheck` refuses what the constructor refuses
(Proofs/Container/OggInjectLoadLink.lean), same `find_last`. -/

theorem both_fst {α β : Type} (a : Except PyErr α) (b : Except PyErr β) (h : ∀ v, a = .ok v → ∃ w, b = .ok w) :
    (both a b).map Prod.fst = a := by
  cases a with
  | error e => rfl
  | ok v =>
    obtain ⟨w, hw⟩ := h v rfl
    subst hw; rfl

open Mutagen.Ogg Mutagen.OggInj in
/-- what an ok pure load says about its parts -/
theorem loadPure_ok_parts (c : Codec) (f : Bytes) (l : Loaded) (h : loadPure c f = .ok l) :
    ∃ page pos needLast, infoFound c f = .ok (page, pos) ∧ idCheck c page = .ok needLast ∧
      (needLast = true → ∃ lp, findLastP f page.serial = .ok (some lp)) := by
  unfold loadPure at h
  split at h
  · rename_i v hv
    unfold loadRaw at hv
    split at hv
    · cases hv
    · rename_i page needLast pos hi
      rw [infoP_eq] at hi
      split at hi
      · cases hi
      · rename_i page' pos' hf
        split at hi
        · cases hi
        · rename_i nl hid
          simp only [Except.ok.injEq, Prod.mk.injEq] at hi
          obtain ⟨rfl, rfl, rfl⟩ := hi
          refine ⟨_, _, _, hf, hid, ?_⟩
          intro hn
          split at hv
          · cases hv
          · split at hv
            · cases hv
            · rw [if_pos hn] at hv
              split at hv
              · cases hv
              · cases hv
              · rename_i lp hlp; exact ⟨lp, hlp⟩
  · split at h <;> cases h

theorem map_ok_inv {α β : Type} {r : Except PyErr α} {g : α → β} {b : β} (h : r.map g = .ok b) : ∃ a, r = .ok a ∧ g a = b := by
  cases r with
  | error e => cases h
  | ok a => cases h; exact ⟨a, rfl, rfl⟩

open Mutagen.Ogg Mutagen.OggInj in
theorem vorbisOfPage_serial (page : Page) (i : Info.Vorbis.Info) (h : vorbisOfPage page = .ok i) : i.serial = page.serial := by
  unfold vorbisOfPage at h
  simp only [] at h
  repeat' split at h
  all_goals first | (cases h; rfl) | cases h

open Mutagen.Ogg Mutagen.OggInj in
theorem opusOfPage_serial (page : Page) (i : Info.Opus.Info) (h : opusOfPage page = .ok i) : i.serial = page.serial := by
  unfold opusOfPage at h
  simp only [] at h
  repeat' split at h
  all_goals first | (cases h; rfl) | cases h

open Mutagen.Ogg Mutagen.OggInj in
theorem speexOfPage_serial (page : Page) (i : Info.Speex.Info) (h : speexOfPage page = .ok i) : i.serial = page.serial := by
  unfold speexOfPage at h
  simp only [] at h
  repeat' split at h
  all_goals first | (cases h; rfl) | cases h

open Mutagen.Ogg Mutagen.OggInj in
theorem theoraOfPage_serial (page : Page) (i : Info.Theora.Info) (h : theoraOfPage page = .ok i) : i.serial = page.serial := by
  unfold theoraOfPage at h
  simp only [] at h
  repeat' split at h
  all_goals first | (cases h; rfl) | cases h

open Mutagen.Ogg Mutagen.OggInj in
theorem flacOfPage_serial (page : Page) (i : Info.OggFlac.Info) (h : flacOfPage page = .ok i) : i.serial = page.serial := by
  unfold flacOfPage at h
  simp only [] at h
  repeat' split at h
  all_goals first | (cases h; rfl) | cases h

open Mutagen.Ogg Mutagen.OggInj in
theorem vorbis_agree (f : Bytes) (l : Loaded) (h : loadPure .vorbis f = .ok l) : ∃ i, Info.Vorbis.parse f = .ok i := by
  obtain ⟨page, pos, nl, hf, hid, hl⟩ := loadPure_ok_parts _ f l h
  rw [(idCheck_link page).1] at hid
  obtain ⟨i, hi, hn⟩ := map_ok_inv hid
  obtain ⟨lp, hlp⟩ := hl hn.symm
  rw [findLastP_link, ← vorbisOfPage_serial page i hi] at hlp
  have hinit : Info.Vorbis.init f = .ok i := by rw [vorbis_init_link, hf]; exact hi
  unfold Info.Vorbis.parse Info.Vorbis.raw
  rw [hinit]
  simp only [Info.Vorbis.post, hlp]
  exact ⟨_, rfl⟩

open Mutagen.Ogg Mutagen.OggInj in
theorem opus_agree (f : Bytes) (l : Loaded) (h : loadPure .opus f = .ok l) : ∃ i, Info.Opus.parse f = .ok i := by
  obtain ⟨page, pos, nl, hf, hid, hl⟩ := loadPure_ok_parts _ f l h
  rw [(idCheck_link page).2.1] at hid
  obtain ⟨i, hi, hn⟩ := map_ok_inv hid
  obtain ⟨lp, hlp⟩ := hl hn.symm
  rw [findLastP_link, ← opusOfPage_serial page i hi] at hlp
  have hinit : Info.Opus.init f = .ok i := by rw [opus_init_link, hf]; exact hi
  unfold Info.Opus.parse Info.Opus.raw
  rw [hinit]
  simp only [Info.Opus.post, hlp]
  exact ⟨_, rfl⟩

open Mutagen.Ogg Mutagen.OggInj in
theorem speex_agree (f : Bytes) (l : Loaded) (h : loadPure .speex f = .ok l) : ∃ i, Info.Speex.parse f = .ok i := by
  obtain ⟨page, pos, nl, hf, hid, hl⟩ := loadPure_ok_parts _ f l h
  rw [(idCheck_link page).2.2.1] at hid
  obtain ⟨i, hi, hn⟩ := map_ok_inv hid
  obtain ⟨lp, hlp⟩ := hl hn.symm
  rw [findLastP_link, ← speexOfPage_serial page i hi] at hlp
  have hinit : Info.Speex.init f = .ok i := by rw [speex_init_link, hf]; exact hi
  unfold Info.Speex.parse Info.Speex.raw
  rw [hinit]
  simp only [Info.Speex.post, hlp]
  exact ⟨_, rfl⟩

open Mutagen.Ogg Mutagen.OggInj in
theorem theora_agree (f : Bytes) (l : Loaded) (h : loadPure .theora f = .ok l) : ∃ i, Info.Theora.parse f = .ok i := by
  obtain ⟨page, pos, nl, hf, hid, hl⟩ := loadPure_ok_parts _ f l h
  rw [(idCheck_link page).2.2.2.1] at hid
  obtain ⟨i, hi, hn⟩ := map_ok_inv hid
  obtain ⟨lp, hlp⟩ := hl hn.symm
  rw [findLastP_link, ← theoraOfPage_serial page i hi] at hlp
  have hinit : Info.Theora.init f = .ok i := by rw [theora_init_link, hf]; exact hi
  unfold Info.Theora.parse Info.Theora.raw
  rw [hinit]
  simp only [Info.Theora.post, hlp]
  exact ⟨_, rfl⟩

open Mutagen.Ogg Mutagen.OggInj in
theorem oggflac_agree (f : Bytes) (l : Loaded) (h : loadPure .flac f = .ok l) : ∃ i, Info.OggFlac.parse f = .ok i := by
  obtain ⟨page, pos, nl, hf, hid, hl⟩ := loadPure_ok_parts _ f l h
  rw [(idCheck_link page).2.2.2.2] at hid
  obtain ⟨i, hi, hn⟩ := map_ok_inv hid
  have hinit : Info.OggFlac.init f = .ok i := by rw [flac_init_link, hf]; exact hi
  unfold Info.OggFlac.parse Info.OggFlac.raw
  rw [hinit]
  simp only [Info.OggFlac.post]
  by_cases ht : i.totalSamples ≠ 0
  · rw [if_pos ht]; exact ⟨_, rfl⟩
  · rw [if_neg ht]
    have ht' : i.totalSamples = 0 := by omega
    obtain ⟨lp, hlp⟩ := hl (by rw [← hn]; simp [ht'])
    rw [findLastP_link, ← flacOfPage_serial page i hi] at hlp
    rw [hlp]
    exact ⟨_, rfl⟩

/-! ### MP4: the pure load -/

open Mutagen.Mp4C in
theorem mp4InfoPure_err (f : Bytes) (atoms : List PAtom) (e : PyErr) (h : infoPure f atoms = .error e) : e = .mutagen := by
  unfold infoPure at h
  split at h
  · cases h; rfl
  · split at h
    · rename_i e' he; cases h; exact Info.Mp4.findAudioTrak_clean _ _ _ he
    · cases h
    · repeat' split at h
      all_goals first | (cases h; rfl) | cases h | skip
      all_goals
        simp only [] at h
        split at h
        · cases h; rfl
        · cases h

open Mutagen.Mp4C in
theorem mp4ChildrenPure_err (f : Bytes) : ∀ (l : List PAtom) (e : PyErr), childrenPure f l = .error e → e = .mutagen
  | [], e, h => by unfold childrenPure at h; cases h
  | a :: r, e, h => by
    unfold childrenPure at h
    split at h
    · cases h; rfl
    · split at h
      · rename_i e' he; cases h; exact mp4ChildrenPure_err f r _ he
      · cases h

open Mutagen.Mp4C in
/-- `MP4(fileobj)` on the bytes (atoms, info, the item payloads), every byte string: ok or MutagenError -/
theorem mp4LoadPure_clean (f : Bytes) : Clean (Mp4C.loadPure f) := by
  intro e h
  unfold Mp4C.loadPure at h
  split at h
  · rename_i e' he; cases h; exact Mp4C.parse_clean _ _ he
  · split at h
    · rename_i x hx
      injection h with h; subst h
      rw [mp4InfoPure_err _ _ _ hx]; rfl
    · split at h
      · rename_i e' he; cases h
        unfold tagsPure at he
        split at he
        · cases he
        · split at he
          · cases he; rfl
          · split at he
            · rename_i x hx
              injection he with he; subst he
              rw [mp4ChildrenPure_err _ _ _ hx]; rfl
            · cases he
      · cases h

/-- the complete `MP4(fileobj)`, chapters included -/
theorem mp4LoadFullPure_clean (f : Bytes) : Clean (Mp4C.loadFullPure f) :=
  Mp4C.loadFullPure_clean f (mp4LoadPure_clean f)

end Mutagen.FileTypes
