/-
Proofs/FileTypesApe.lean — `APEv2.__parse_tag` as modelled in Model/FileTypes.lean (`apeItems`, `apeTagData`, `apeTags`) linked
to the APEv2 codec of Model/Ape.lean and the container model Model/Container/ApeFile.lean.
-/
import MutagenModel.Model.FileTypes
import MutagenModel.Proofs.C01Files
set_option linter.unusedVariables false
set_option linter.unusedSimpArgs false
namespace Mutagen.FileTypes
open Mutagen

/-- every refusal of `__parse_tag` is `error` (also Proofs/FileTypes.lean `apeItems_clean`; repeated here so that this module
does not import the whole of Proofs/FileTypes.lean, whose MP4 part clashes by name with Proofs/Container/Mp4Props.lean when both
are loaded for the C01 audit) -/
theorem apeItems_mutagen : ∀ (n : Nat) (d : Bytes) (e : PyErr), apeItems n d = .error e → e = .mutagen
  | 0, d => by intro e h; unfold apeItems at h; cases h
  | n + 1, d => by
    intro e h
    unfold apeItems at h
    simp only [] at h
    repeat' split at h
    all_goals first | (cases h; rfl) | cases h | exact apeItems_mutagen _ _ e h

/-- `apeItems` with what it puts into the tag: the items in the order read (`self[key] = value`: a later item with the same
key, case-insensitively, replaces an earlier one in the dictionary) -/
def apeItemsList : Nat → Bytes → Except PyErr (List Ape.Item)
  | 0, _ => .ok []
  | count + 1, d =>
    let td := d.take 8
    if td.isEmpty then .ok []
    else if td.length ≠ 8 then .error .mutagen
    else
      let size := ofLE (td.take 4)
      let flags := ofLE (td.drop 4)
      let kind := flags / 2 % 4
      if kind = 3 then .error .mutagen
      else match apeKey (d.drop 8) with
        | none => .error .mutagen
        | some (k, rest) =>
          if !(k.all fun c => c.toNat < 128) then .error .mutagen
          else if !apeKeyValid k then .error .mutagen
          else
            let v := rest.take size
            if v.length ≠ size then .error .mutagen
            else if kind ≠ 1 ∧ (Utf8.decode v).isNone then .error .mutagen
            else match apeItemsList count (rest.drop size) with
              | .error e => .error e
              | .ok is => .ok ({ key := k, kind := kind, value := v } :: is)

/-- `apeItems` is `apeItemsList` forgetting the items -/
theorem apeItems_eq_list : ∀ (n : Nat) (d : Bytes),
    apeItems n d = match apeItemsList n d with | .ok _ => .ok () | .error e => .error e
  | 0, d => rfl
  | n + 1, d => by
    unfold apeItems apeItemsList
    simp only []
    by_cases h1 : (d.take 8).isEmpty = true
    · rw [if_pos h1, if_pos h1]
    rw [if_neg h1, if_neg h1]
    by_cases h2 : (d.take 8).length ≠ 8
    · rw [if_pos h2, if_pos h2]
    rw [if_neg h2, if_neg h2]
    by_cases h3 : ofLE ((d.take 8).drop 4) / 2 % 4 = 3
    · rw [if_pos h3, if_pos h3]
    rw [if_neg h3, if_neg h3]
    cases hk : apeKey (d.drop 8) with
    | none => rfl
    | some p =>
      obtain ⟨k, rest⟩ := p
      simp only []
      by_cases h4 : (!(k.all fun c => decide (c.toNat < 128))) = true
      · rw [if_pos h4, if_pos h4]
      rw [if_neg h4, if_neg h4]
      by_cases h5 : (!apeKeyValid k) = true
      · rw [if_pos h5, if_pos h5]
      rw [if_neg h5, if_neg h5]
      by_cases h6 : (rest.take (ofLE ((d.take 8).take 4))).length ≠ ofLE ((d.take 8).take 4)
      · rw [if_pos h6, if_pos h6]
      rw [if_neg h6, if_neg h6]
      by_cases h7 : ofLE ((d.take 8).drop 4) / 2 % 4 ≠ 1 ∧ (Utf8.decode (rest.take (ofLE ((d.take 8).take 4)))).isNone = true
      · rw [if_pos h7, if_pos h7]
      rw [if_neg h7, if_neg h7, apeItems_eq_list n]
      cases apeItemsList n (rest.drop (ofLE ((d.take 8).take 4))) <;> rfl

theorem apeKey_append (k rest : Bytes) (h : (0 : UInt8) ∉ k) : apeKey (k ++ 0 :: rest) = some (k, rest) := by
  induction k with
  | nil => simp [apeKey]
  | cons c r ih =>
    have hc : c ≠ 0 := fun h0 => h (by simp [h0])
    simp only [List.cons_append, apeKey, hc, ↓reduceIte, ih (fun h0 => h (List.mem_cons_of_mem _ h0))]

/-- an item `__parse_tag` accepts: kind 0/1/2, an ASCII key that `is_valid_apev2_key` accepts and that has no NUL, a value
below 4 GiB that is valid UTF-8 unless the item is binary -/
structure ItemLoadable (i : Ape.Item) : Prop where
  kind : i.kind < 3
  noNul : (0 : UInt8) ∉ i.key
  ascii : (i.key.all fun c => c.toNat < 128) = true
  valid : apeKeyValid i.key = true
  len : i.value.length < 256 ^ 4
  utf8 : i.kind ≠ 1 → (Utf8.decode i.value).isSome = true

/-- LINK: on the items `APEv2.save` renders — whatever follows them — `__parse_tag` with the item count reads back
exactly the items, in order -/
theorem apeItemsList_encode (items : List Ape.Item) (h : ∀ i ∈ items, ItemLoadable i) (tail : Bytes) :
    apeItemsList items.length ((items.map Ape.encodeItem).flatten ++ tail) = .ok items := by
  induction items with
  | nil => rfl
  | cons i r ih =>
    have hi := h i List.mem_cons_self
    have ih' := ih (fun x hx => h x (List.mem_cons_of_mem _ hx))
    obtain ⟨a1, a2, a3, a4, h1⟩ := Ape.toLE4 i.value.length
    obtain ⟨b1, b2, b3, b4, h2⟩ := Ape.toLE4 (i.kind * 2)
    have hsize : ofLE [a1, a2, a3, a4] = i.value.length := by rw [← h1]; exact ofLE_toLE 4 _ hi.len
    have hflags : ofLE [b1, b2, b3, b4] = i.kind * 2 := by
      rw [← h2]; exact ofLE_toLE 4 _ (by have := hi.kind; omega)
    have hd : ((i :: r).map Ape.encodeItem).flatten ++ tail =
        a1 :: a2 :: a3 :: a4 :: b1 :: b2 :: b3 :: b4 :: (i.key ++ 0 :: (i.value ++ ((r.map Ape.encodeItem).flatten ++ tail))) := by
      simp [Ape.encodeItem, h1, h2, List.append_assoc]
    have hk : i.kind * 2 / 2 % 4 = i.kind := by have := hi.kind; omega
    have hk3 : ¬ (i.kind = 3) := by have := hi.kind; omega
    unfold apeItemsList
    simp only [List.length_cons]
    rw [hd]
    simp only [List.take_succ_cons, List.take_zero, List.isEmpty_cons, Bool.false_eq_true, ↓reduceIte, List.length_cons,
      List.length_nil, ne_eq, not_true_eq_false, List.drop_succ_cons, List.drop_zero, hsize, hflags, hk, hk3,
      apeKey_append i.key _ hi.noNul, hi.ascii, hi.valid, Bool.not_true, List.take_left' rfl, List.drop_left' rfl]
    have hu : ¬ (i.kind ≠ 1 ∧ (Utf8.decode i.value).isNone = true) := by
      intro ⟨hne, hn⟩
      have := hi.utf8 hne
      cases hdec : Utf8.decode i.value <;> simp_all
    simp only [hu, ↓reduceIte, ih']

open Mutagen.ApeF

theorem footer_count (size count : Nat) (hc : count < 256 ^ 4) :
    ofLE (((readAt (Ape.headerOrFooter size count Ape.hasHeader) 8 16).drop 8).take 4) = count := by
  obtain ⟨a1, a2, a3, a4, h1⟩ := Ape.toLE4 2000
  obtain ⟨b1, b2, b3, b4, h2⟩ := Ape.toLE4 size
  obtain ⟨c1, c2, c3, c4, h3⟩ := Ape.toLE4 count
  obtain ⟨d1, d2, d3, d4, h4⟩ := Ape.toLE4 Ape.hasHeader
  have e3 := ofLE_toLE 4 count hc
  rw [h3] at e3
  simp only [Ape.headerOrFooter, Ape.preamble, h1, h2, h3, h4, readAt, zeros]
  exact e3

/-- `data.tag` and `data.items` on `payload ++ tag` (the tag as `APEv2.save` writes it, located by its footer): the item
bytes between header and footer, and the item count -/
theorem apeTagData_saved (audio : Bytes) (items : List Ape.Item) (hok : Ape.TagOK items) :
    apeTagData (audio ++ Ape.encodeTag items)
      { start := audio.length, endd := (audio ++ Ape.encodeTag items).length, isAtStart := false } =
      ((items.map Ape.encodeItem).flatten, items.length) := by
  obtain ⟨_, hcnt, hs⟩ := hok
  simp only [Ape.encodeTag]
  generalize hB : (items.map Ape.encodeItem).flatten = body at hs ⊢
  generalize hH : Ape.headerOrFooter (body.length + 32) items.length (Ape.hasHeader + Ape.isHeader) = H
  have lH : H.length = 32 := by rw [← hH]; exact Ape.hf_length _ _ _
  obtain ⟨f1, f2, f3, f4⟩ := footer_fields (body.length + 32) items.length hs
  have f5 := footer_count (body.length + 32) items.length hcnt
  generalize hF : Ape.headerOrFooter (body.length + 32) items.length Ape.hasHeader = F at f1 f2 f3 f4 f5 ⊢
  have lF : F.length = 32 := by rw [← hF]; exact Ape.hf_length _ _ _
  have hsplit : audio ++ (H ++ body ++ F) = (audio ++ H ++ body) ++ F := by simp [List.append_assoc]
  have hlen : (audio ++ (H ++ body ++ F)).length = (audio ++ H ++ body).length + 32 := by
    rw [hsplit, List.length_append, lF]
  have hP : (audio ++ H ++ body).length = audio.length + 32 + body.length := by simp [lH]; omega
  unfold apeTagData
  simp only [Bool.false_eq_true, ↓reduceIte]
  have hd : readAt (audio ++ (H ++ body ++ F)) ((audio ++ (H ++ body ++ F)).length - 32 + 8) 16 = readAt F 8 16 := by
    rw [hlen, show (audio ++ H ++ body).length + 32 - 32 + 8 = (audio ++ H ++ body).length + 8 by omega, hsplit,
      readAt_append_right]
  rw [hd, f3, f5]
  have hdata : (audio ++ (H ++ body ++ F)).length - (body.length + 32) = (audio ++ H).length + 0 := by
    rw [hlen, hP]; simp [lH]
  rw [hdata, show body.length + 32 - 32 = body.length by omega]
  have : audio ++ (H ++ body ++ F) = (audio ++ H) ++ (body ++ F) := by simp [List.append_assoc]
  rw [this, readAt_append_right]
  simp [readAt]

/-- `apeTags` after `APEv2.save`: the tag is found, its item bytes parse — or, for a tag without items, "no tags" -/
theorem apeTags_saved (audio : Bytes) (items : List Ape.Item) (hok : Ape.TagOK items) (hne : items ≠ [])
    (hload : ∀ i ∈ items, ItemLoadable i) (ha : AudioOK audio (Ape.encodeTag items)) :
    apeTags (audio ++ Ape.encodeTag items) =
      .ok (some { start := audio.length, endd := (audio ++ Ape.encodeTag items).length, isAtStart := false }) ∧
    apeItemsList (apeTagData (audio ++ Ape.encodeTag items)
        { start := audio.length, endd := (audio ++ Ape.encodeTag items).length, isAtStart := false }).2
      (apeTagData (audio ++ Ape.encodeTag items)
        { start := audio.length, endd := (audio ++ Ape.encodeTag items).length, isAtStart := false }).1 = .ok items := by
  have hl := locate_tag audio items hok.2.2 ha
  have hd := apeTagData_saved audio items hok
  have hi := apeItemsList_encode items hload []
  simp only [List.append_nil] at hi
  refine ⟨?_, by rw [hd]; exact hi⟩
  unfold apeTags
  rw [hl]
  simp only [hd]
  have hbody : ((items.map Ape.encodeItem).flatten).isEmpty = false := by
    cases items with
    | nil => exact absurd rfl hne
    | cons i r =>
      obtain ⟨a1, a2, a3, a4, h1⟩ := Ape.toLE4 i.value.length
      simp [Ape.encodeItem, h1]
  rw [hbody, apeItems_eq_list, hi]
  simp

/-- LENIENT ON THE COUNT: a count larger than the number of items is accepted when the data ends with the last item
("someone writes wrong item counts") -/
theorem apeItemsList_overcount (items : List Ape.Item) (h : ∀ i ∈ items, ItemLoadable i) (k : Nat) :
    apeItemsList (items.length + k) ((items.map Ape.encodeItem).flatten) = .ok items := by
  induction items with
  | nil =>
    cases k with
    | zero => rfl
    | succ k => simp [apeItemsList]
  | cons i r ih =>
    have hi := h i List.mem_cons_self
    have ih' := ih (fun x hx => h x (List.mem_cons_of_mem _ hx))
    obtain ⟨a1, a2, a3, a4, h1⟩ := Ape.toLE4 i.value.length
    obtain ⟨b1, b2, b3, b4, h2⟩ := Ape.toLE4 (i.kind * 2)
    have hsize : ofLE [a1, a2, a3, a4] = i.value.length := by rw [← h1]; exact ofLE_toLE 4 _ hi.len
    have hflags : ofLE [b1, b2, b3, b4] = i.kind * 2 := by
      rw [← h2]; exact ofLE_toLE 4 _ (by have := hi.kind; omega)
    have hd : ((i :: r).map Ape.encodeItem).flatten =
        a1 :: a2 :: a3 :: a4 :: b1 :: b2 :: b3 :: b4 :: (i.key ++ 0 :: (i.value ++ ((r.map Ape.encodeItem).flatten))) := by
      simp [Ape.encodeItem, h1, h2, List.append_assoc]
    have hk : i.kind * 2 / 2 % 4 = i.kind := by have := hi.kind; omega
    have hk3 : ¬ (i.kind = 3) := by have := hi.kind; omega
    have hcount : (i :: r).length + k = (r.length + k) + 1 := by simp; omega
    rw [hcount]
    unfold apeItemsList
    rw [hd]
    simp only [List.take_succ_cons, List.take_zero, List.isEmpty_cons, Bool.false_eq_true, ↓reduceIte, List.length_cons,
      List.length_nil, ne_eq, not_true_eq_false, List.drop_succ_cons, List.drop_zero, hsize, hflags, hk, hk3,
      apeKey_append i.key _ hi.noNul, hi.ascii, hi.valid, Bool.not_true, List.take_left' rfl, List.drop_left' rfl]
    have hu : ¬ (i.kind ≠ 1 ∧ (Utf8.decode i.value).isNone = true) := by
      intro ⟨hne, hn⟩
      have := hi.utf8 hne
      cases hdec : Utf8.decode i.value <;> simp_all
    simp only [hu, ↓reduceIte, ih']

/-- an empty tag (header and footer, no items) reads as "no tags" -/
theorem apeTags_empty (audio : Bytes) (ha : AudioOK audio (Ape.encodeTag [])) :
    apeTags (audio ++ Ape.encodeTag []) = .ok none := by
  have hok : Ape.TagOK [] := ⟨by simp, by decide, by decide⟩
  have hl := locate_tag audio [] hok.2.2 ha
  have hd := apeTagData_saved audio [] hok
  unfold apeTags
  rw [hl]
  simp only [hd]
  rfl

end Mutagen.FileTypes
