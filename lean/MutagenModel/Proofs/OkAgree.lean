/-
Proofs/OkAgree.lean — "a normal return means no injected fault fired": if a program returns
normally in an environment, it returns the same value and file state in that environment
with its injected exceptions removed.  One rule per construct; no handler in the modelled
code swallows an exception (resize_file's ENOSPC handler re-raises).
-/
import MutagenModel.Proofs.Raises
set_option linter.unusedVariables false
namespace Mutagen

def Env.noFaults (e : Env) : Env := { e with failAt := fun _ => none }

def OkAgree (m : FileM α) : Prop :=
  ∀ e s a s', m e s = (.ok a, s') → m e.noFaults s = (.ok a, s')

theorem OkAgree.pure (a : α) : OkAgree (pure a : FileM α) := by
  intro e s b s' h; simpa using h

theorem OkAgree.raise (x : PyErr) : OkAgree (raise x : FileM α) := by
  intro e s b s' h; simp at h

theorem OkAgree.bind {m : FileM α} {f : α → FileM β} (hm : OkAgree m) (hf : ∀ a, OkAgree (f a)) :
    OkAgree (m >>= f) := by
  intro e s b s' h
  simp only [bind_run] at h ⊢
  cases hms : m e s with
  | mk r s1 =>
    rw [hms] at h
    cases r with
    | ok a =>
      rw [hm e s a s1 hms]
      exact hf a e s1 b s' h
    | error x => simp at h

theorem OkAgree.guardThen {β : Type} (c : Prop) [Decidable c] (x : PyErr) (k : Unit → FileM β) (hk : OkAgree (k ())) :
    OkAgree (if c then (Mutagen.raise x >>= fun r => k r) else k ()) := by
  split
  · exact OkAgree.bind (OkAgree.raise x) (fun _ => hk)
  · exact hk

theorem OkAgree.tick (o : Op) : OkAgree (tick o) := by
  intro e s a s' h
  unfold Mutagen.tick at h ⊢
  split at h
  · simp at h
  · simpa [Env.noFaults] using h

theorem OkAgree.fseek (p : Nat) : OkAgree (fseek p) :=
  OkAgree.bind (OkAgree.tick _) (fun _ => by intro e s a s' h; exact h)
theorem OkAgree.fseekEnd : OkAgree fseekEnd :=
  OkAgree.bind (OkAgree.tick _) (fun _ => by intro e s a s' h; exact h)
theorem OkAgree.ftell : OkAgree ftell :=
  OkAgree.bind (OkAgree.tick _) (fun _ => by intro e s a s' h; exact h)
theorem OkAgree.fflush : OkAgree fflush := OkAgree.tick _
theorem OkAgree.ftruncate (n : Nat) : OkAgree (ftruncate n) :=
  OkAgree.bind (OkAgree.tick _) (fun _ => by intro e s a s' h; exact h)

theorem OkAgree.fread (n : Nat) : OkAgree (fread n) := by
  intro e s a s' h
  unfold Mutagen.fread at h ⊢
  cases ht : Mutagen.tick (.read n) e s with
  | mk r s1 =>
    rw [ht] at h
    cases r with
    | ok u =>
      rw [OkAgree.tick _ e s u s1 ht]
      exact h
    | error x => simp at h

theorem OkAgree.fwrite (b : Bytes) : OkAgree (fwrite b) := by
  intro e s a s' h
  unfold Mutagen.fwrite at h ⊢
  cases ht : Mutagen.tick (.write b.length) e s with
  | mk r s1 =>
    rw [ht] at h
    cases r with
    | ok u =>
      rw [OkAgree.tick _ e s u s1 ht]
      exact h
    | error x => simp at h

/-- `try … except`: agrees when the handler never returns normally (it re-raises) -/
theorem OkAgree.tryCatch {body : FileM α} {pred : PyErr → Bool} {handler : PyErr → FileM α}
    (hb : OkAgree body) (hh : ∀ x e s a s', handler x e s ≠ (.ok a, s')) :
    OkAgree (tryCatch body pred handler) := by
  intro e s a s' h
  unfold Mutagen.tryCatch at h ⊢
  cases hbs : body e s with
  | mk r s1 =>
    rw [hbs] at h
    cases r with
    | ok b =>
      rw [hb e s b s1 hbs]
      exact h
    | error x =>
      simp only at h
      split at h
      · exact absurd h (hh x e s1 a s')
      · simp at h

theorem OkAgree.tryFinally {body : FileM α} {fin : FileM Unit} (hb : OkAgree body) (hf : OkAgree fin) :
    OkAgree (tryFinally body fin) := by
  intro e s a s' h
  unfold Mutagen.tryFinally at h ⊢
  cases hbs : body e s with
  | mk r s1 =>
    rw [hbs] at h
    cases r with
    | ok b =>
      rw [hb e s b s1 hbs]
      simp only at h ⊢
      cases hfs : fin e s1 with
      | mk r2 s2 =>
        rw [hfs] at h
        cases r2 with
        | ok u =>
          rw [hf e s1 u s2 hfs]
          exact h
        | error y => simp at h
    | error x =>
      simp only at h
      cases hfs : fin e s1 with
      | mk r2 s2 =>
        rw [hfs] at h
        cases r2 <;> simp at h

/-! ### the primitives of mutagen/_util.py -/

theorem OkAgree.growLoop (B diff : Nat) : OkAgree (growLoop B diff) := by
  fun_induction Mutagen.growLoop B diff with
  | case1 => exact OkAgree.pure _
  | case2 => exact OkAgree.raise _
  | case3 diff h hB addsize ih => exact OkAgree.bind (OkAgree.fwrite _) fun _ => ih

theorem OkAgree.resizeFile (B : Nat) (diff : Int) : OkAgree (resizeFile B diff) := by
  unfold Mutagen.resizeFile
  apply OkAgree.bind OkAgree.fseekEnd; intro _
  apply OkAgree.bind OkAgree.ftell; intro filesize
  split
  · apply OkAgree.guardThen
    exact OkAgree.ftruncate _
  · split
    · refine OkAgree.tryCatch (OkAgree.bind (OkAgree.growLoop _ _) fun _ => OkAgree.fflush) ?_
      intro x e s a s' h
      split at h
      · simp only [bind_run] at h
        cases ht : Mutagen.ftruncate filesize e s with
        | mk r s1 =>
          rw [ht] at h
          cases r <;> simp at h
      · simp at h
    · exact OkAgree.pure _

theorem OkAgree.readFull (size : Int) : OkAgree (readFull size) := by
  unfold Mutagen.readFull
  apply OkAgree.guardThen
  apply OkAgree.bind (OkAgree.fread _); intro data
  apply OkAgree.guardThen
  exact OkAgree.pure _

theorem OkAgree.moveStep (a b n : Nat) : OkAgree (moveStep a b n) := by
  unfold Mutagen.moveStep
  apply OkAgree.bind (OkAgree.fseek _); intro _
  apply OkAgree.bind (OkAgree.readFull _); intro buf
  apply OkAgree.bind (OkAgree.fseek _); intro _
  exact OkAgree.fwrite _

theorem OkAgree.moveFwdM (B dest src count moved : Nat) : OkAgree (moveFwdM B dest src count moved) := by
  fun_induction Mutagen.moveFwdM B dest src count moved with
  | case1 => exact OkAgree.pure _
  | case2 => exact OkAgree.raise _
  | case3 moved h hB this_move ih => exact OkAgree.bind (OkAgree.moveStep _ _ _) fun _ => ih

theorem OkAgree.moveBwdM (B dest src count : Nat) : OkAgree (moveBwdM B dest src count) := by
  fun_induction Mutagen.moveBwdM B dest src count with
  | case1 => exact OkAgree.pure _
  | case2 => exact OkAgree.raise _
  | case3 count h hB this_move ih => exact OkAgree.bind (OkAgree.moveStep _ _ _) fun _ => ih

theorem OkAgree.moveBytes (B : Nat) (dest src count : Int) : OkAgree (moveBytes B dest src count) := by
  unfold Mutagen.moveBytes
  apply OkAgree.guardThen
  apply OkAgree.bind OkAgree.fseekEnd; intro _
  apply OkAgree.bind OkAgree.ftell; intro filesize
  apply OkAgree.guardThen
  split
  · exact OkAgree.bind (OkAgree.moveFwdM _ _ _ _ _) fun _ => OkAgree.fflush
  · exact OkAgree.bind (OkAgree.moveBwdM _ _ _ _) fun _ => OkAgree.fflush

theorem OkAgree.insertBytes (B : Nat) (size offset : Int) : OkAgree (insertBytes B size offset) := by
  unfold Mutagen.insertBytes
  apply OkAgree.guardThen
  apply OkAgree.bind OkAgree.fseekEnd; intro _
  apply OkAgree.bind OkAgree.ftell; intro filesize
  apply OkAgree.guardThen
  exact OkAgree.bind (OkAgree.resizeFile _ _) fun _ => OkAgree.moveBytes _ _ _ _

theorem OkAgree.deleteBytes (B : Nat) (size offset : Int) : OkAgree (deleteBytes B size offset) := by
  unfold Mutagen.deleteBytes
  apply OkAgree.guardThen
  apply OkAgree.bind OkAgree.fseekEnd; intro _
  apply OkAgree.bind OkAgree.ftell; intro filesize
  apply OkAgree.guardThen
  exact OkAgree.bind (OkAgree.moveBytes _ _ _ _) fun _ => OkAgree.resizeFile _ _

theorem OkAgree.resizeBytes (B : Nat) (old new offset : Int) : OkAgree (resizeBytes B old new offset) := by
  unfold Mutagen.resizeBytes
  split
  · exact OkAgree.raise _
  · split
    · exact OkAgree.deleteBytes _ _ _
    · split
      · exact OkAgree.insertBytes _ _ _
      · exact OkAgree.pure _

end Mutagen
