/-
Proofs/FileTypesTta.lean — `TrueAudio(fileobj)` end to end: the ID3v2 tag in front, `TrueAudioInfo(fileobj, offset)` behind it.
-/
import MutagenModel.Proofs.FileTypesMp3
import MutagenModel.Props.C05_TrueAudio
set_option linter.unusedVariables false
set_option linter.unusedSimpArgs false
namespace Mutagen.FileTypes
open Mutagen Mutagen.C01F

/-- `TrueAudio(fileobj)` on `ID3v2 header ++ frames region ++ TTA stream` -/
theorem loadTrueAudio_tagged (vmaj : Nat) (hv : vmaj = 2 ∨ vmaj = 3 ∨ vmaj = 4) (region stream : Bytes) (hn : region.length < 2 ^ 28)
    (info : Info.TrueAudio.Info)
    (hinfo : Info.TrueAudio.parse ((tagHeader vmaj 0 region.length ++ region) ++ stream) (tagHeader vmaj 0 region.length ++ region).length = .ok info) :
    loadTrueAudio (tagHeader vmaj 0 region.length ++ region ++ stream) =
      .ok (some (.v2 vmaj 0 region (Id3F.findV1 (tagHeader vmaj 0 region.length ++ region ++ stream))), info) := by
  unfold loadTrueAudio
  rw [id3At_tagged vmaj hv region stream hn]
  simp only [id3Tags]
  have hl : (tagHeader vmaj 0 region.length ++ region).length = region.length + 10 := by
    simp [tagHeader, Id3F.magicID3, (syncsafe4_ok region.length hn).1]; omega
  rw [hl] at hinfo
  rw [hinfo]

end Mutagen.FileTypes
