/- Proofs/OggLimits.lean — every page produced by from_packets (with the code's policy)
needs at most 255 lacing values -/
import MutagenModel.Proofs.OggChain
set_option linter.unusedVariables false
namespace Mutagen.Ogg
open Mutagen

theorem laceCount_append (a b : List Bytes) : laceCount (a ++ b) = laceCount a + laceCount b := by
  simp [laceCount, List.sum_append]

@[simp] theorem laceCount_singleton (x : Bytes) : laceCount [x] = x.length / 255 + 1 := by
  simp [laceCount]

@[simp] theorem laceCount_nil : laceCount [] = 0 := rfl

theorem lacings_concat (q : List Bytes) (l : Bytes) (e : Nat) :
    lacings (q ++ [l]) e = laceCount q + ((l.length + e) / 255 + 1) := by
  simp [lacings]

theorem lacings_extLast (ps : List Bytes) (d : Bytes) (h : ps ≠ []) :
    laceCount (extLast ps d) = lacings ps d.length := by
  rcases List.eq_nil_or_concat ps with h' | ⟨q, l, h'⟩
  · exact absurd h' h
  · rw [h', List.concat_eq_append, extLast_concat, lacings_concat, laceCount_append]
    simp

theorem lacings_zero (ps : List Bytes) : lacings ps 0 = laceCount ps := by
  rcases List.eq_nil_or_concat ps with h' | ⟨q, l, h'⟩
  · subst h'; rfl
  · rw [h', List.concat_eq_append, lacings_concat, laceCount_append]; simp

theorem laceCount_dropLast_le (ps : List Bytes) : laceCount ps.dropLast ≤ laceCount ps := by
  rcases List.eq_nil_or_concat ps with h' | ⟨q, l, h'⟩
  · subst h'; simp
  · rw [h', List.concat_eq_append, List.dropLast_concat, laceCount_append]; omega

theorem length_lace1 (n : Nat) : (lace1 n).length = n / 255 + 1 := by simp [lace1]

theorem length_flatten_lace1 (lens : List Nat) :
    ((lens.map lace1).flatten).length = (lens.map (· / 255 + 1)).sum := by
  induction lens with
  | nil => rfl
  | cons n r ih => simp [length_lace1, ih]

/-- the rendered page never has more lacing values than `laceCount` -/
theorem lacing_length_le (p : Page) : p.lacing.length ≤ laceCount p.packets := by
  have h := length_flatten_lace1 (p.packets.map List.length)
  simp only [List.map_map] at h
  have e : (List.map ((fun x => x / 255 + 1) ∘ List.length) p.packets).sum = laceCount p.packets := rfl
  rw [e] at h
  simp only [Page.lacing, Ogg.lacing, List.map_map]
  split
  · simp only [List.length_dropLast, h]; omega
  · rw [h]; exact Nat.le_refl _

structure Inv3 (s : St) : Prop where
  done : ∀ p ∈ s.done, laceCount p.packets ≤ 255
  cur : laceCount s.cur.packets ≤ 255

theorem take_div_le (packet : Bytes) (chunk : Nat) (hch : chunk ≤ 64770) :
    (packet.take chunk).length / 255 + 1 ≤ 255 := by
  have : (packet.take chunk).length ≤ chunk := by simp [List.length_take]; omega
  omega

theorem inner_inv3 (D : Nat) (chunk wiggle : Nat) (hc : 0 < chunk) (hch : chunk ≤ 64770)
    (s : St) (packet : Bytes) (h : Inv3 s) (hne : s.cur.packets ≠ []) :
    Inv3 (inner (policy D) chunk wiggle hc s packet) ∧
      (inner (policy D) chunk wiggle hc s packet).cur.packets ≠ [] := by
  have extLast_ne : ∀ (ps : List Bytes) (d : Bytes), extLast ps d ≠ [] := by
    intro ps d
    rcases List.eq_nil_or_concat ps with h' | ⟨q, l, h'⟩
    · subst h'; simp
    · rw [h', List.concat_eq_append, extLast_concat]; simp
  have step1 : ∀ (s : St) (data : Bytes), Inv3 s → s.cur.packets ≠ [] → data.length / 255 + 1 ≤ 255 →
      let s1 : St :=
        if (policy D).fits s.cur data then
          { s with cur := { s.cur with packets := extLast s.cur.packets data } }
        else
          match s.cur.packets.getLast? with
          | some l =>
            if l ≠ [] then
              let old := { s.cur with complete := false,
                                      position := if s.cur.packets.length = 1 then -1 else s.cur.position }
              { done := s.done ++ [old],
                cur := { packets := [data], continued := true, sequence := s.cur.sequence + 1 } }
            else
              let old := { s.cur with packets := s.cur.packets.dropLast }
              { done := s.done ++ [old],
                cur := { packets := [data], continued := !old.complete, sequence := s.cur.sequence + 1 } }
          | none => s
      Inv3 s1 ∧ s1.cur.packets ≠ [] := by
    intro s data h hne hd
    simp only
    split
    · rename_i hf
      simp only [policy, Bool.and_eq_true, decide_eq_true_eq] at hf
      exact ⟨⟨h.done, by simp only; rw [lacings_extLast _ _ hne]; exact hf.2⟩, extLast_ne _ _⟩
    · split
      · split
        · refine ⟨⟨?_, by simpa using hd⟩, by simp⟩
          intro p hp
          rcases List.mem_append.mp hp with hp | hp
          · exact h.done p hp
          · simp only [List.mem_singleton] at hp; subst hp; exact h.cur
        · refine ⟨⟨?_, by simpa using hd⟩, by simp⟩
          intro p hp
          rcases List.mem_append.mp hp with hp | hp
          · exact h.done p hp
          · simp only [List.mem_singleton] at hp; subst hp
            exact Nat.le_trans (laceCount_dropLast_le _) h.cur
      · exact ⟨h, hne⟩
  fun_induction inner (policy D) chunk wiggle hc s packet with
  | case1 s => exact ⟨h, hne⟩
  | case2 s packet hpk data rest s1 hw =>
    have h1' : Inv3 s1 ∧ s1.cur.packets ≠ [] := step1 s data h hne (take_div_le packet chunk hch)
    clear_value s1
    obtain ⟨h1, hne1⟩ := h1'
    have hw2 := hw.2
    simp only [policy, decide_eq_true_eq] at hw2
    exact ⟨⟨h1.done, by simp only; rw [lacings_extLast _ _ hne1]; exact hw2⟩, extLast_ne _ _⟩
  | case3 s packet hpk data rest s1 hw ih =>
    have h1' : Inv3 s1 ∧ s1.cur.packets ≠ [] := step1 s data h hne (take_div_le packet chunk hch)
    exact ih h1'.1 h1'.2

theorem outer_inv3 (D : Nat) (chunk wiggle : Nat) (hc : 0 < chunk) (hch : chunk ≤ 64770)
    (s : St) (ps : List Bytes) (h : Inv3 s) : Inv3 (outer (policy D) chunk wiggle hc s ps) := by
  induction ps generalizing s with
  | nil => simpa [outer] using h
  | cons p ps ih =>
    simp only [outer]
    apply ih
    have hf : ∀ sf : St, sf = (if (policy D).pre s.cur = true ∧ s.cur.packets ≠ [] then
        ({ done := s.done ++ [s.cur], cur := { sequence := s.cur.sequence + 1 } } : St) else s) →
        Inv3 sf ∧ laceCount sf.cur.packets < 255 := by
      intro sf hsf
      by_cases hpre : (policy D).pre s.cur = true ∧ s.cur.packets ≠ []
      · rw [if_pos hpre] at hsf
        rw [hsf]
        refine ⟨⟨?_, by simp⟩, by simp⟩
        intro q hq
        rcases List.mem_append.mp hq with hq | hq
        · exact h.done q hq
        · simp only [List.mem_singleton] at hq; subst hq; exact h.cur
      · rw [if_neg hpre] at hsf
        rw [hsf]
        refine ⟨h, ?_⟩
        by_cases hpk : s.cur.packets = []
        · simp [hpk]
        · have hp' : ¬ ((policy D).pre s.cur = true) := fun hh => hpre ⟨hh, hpk⟩
          simp only [policy, decide_eq_true_eq, lacings_zero] at hp'
          omega
    generalize hsf : (if (policy D).pre s.cur = true ∧ s.cur.packets ≠ [] then
        ({ done := s.done ++ [s.cur], cur := { sequence := s.cur.sequence + 1 } } : St) else s) = sf
    obtain ⟨hf1, hf2⟩ := hf sf hsf.symm
    refine (inner_inv3 D chunk wiggle hc hch
      { done := sf.done, cur := { sf.cur with packets := sf.cur.packets ++ [[]] } } p ⟨hf1.done, ?_⟩ (by simp)).1
    simp only [laceCount_append, laceCount_singleton, List.length_nil, Nat.zero_div, Nat.zero_add]
    omega

end Mutagen.Ogg
