/-
Proofs/Id3Input.lean — reading tags mutagen does not write itself: ID3v2.2 (`>3s3s` frame headers, frames upgraded to
their v2.3/2.4 classes), whole-tag unsynchronisation (header flag 0x80 under v2.2 / v2.3) and per-frame
unsynchronisation (v2.4 frame flag 0x0002).  The "spec renderings" `render22` / `render23` / `render24u` are written
from the ID3v2 documents; the reader is the model of `read_frames` (Model/Id3Spec.lean).
-/
import MutagenModel.Proofs.Id3Order
set_option linter.unusedVariables false
set_option linter.unusedSimpArgs false
namespace Mutagen.C01F
open Mutagen Mutagen.Id3

/-! ### spec side -/

/-- a 28-bit number as four syncsafe bytes (ID3v2.4 §6.2) -/
def syncsafe4 (n : Nat) : Bytes :=
  [UInt8.ofNat (n / 2 ^ 21 % 128), UInt8.ofNat (n / 2 ^ 14 % 128), UInt8.ofNat (n / 2 ^ 7 % 128), UInt8.ofNat (n % 128)]

theorem syncsafe4_ok (n : Nat) (h : n < 2 ^ 28) :
    (syncsafe4 n).length = 4 ∧ (∀ x ∈ syncsafe4 n, x.toNat < 128) ∧ bpFromBytes 7 true (syncsafe4 n) = n := by
  have t : ∀ k, k < 128 → (UInt8.ofNat k).toNat = k := by
    intro k hk
    simp only [UInt8.toNat_ofNat']
    omega
  have h1 := t (n / 2 ^ 21 % 128) (by omega)
  have h2 := t (n / 2 ^ 14 % 128) (by omega)
  have h3 := t (n / 2 ^ 7 % 128) (by omega)
  have h4 := t (n % 128) (by omega)
  refine ⟨rfl, ?_, ?_⟩
  · intro x hx
    simp only [syncsafe4, List.mem_cons, List.not_mem_nil, or_false] at hx
    rcases hx with rfl | rfl | rfl | rfl <;> omega
  · simp only [syncsafe4, bpFromBytes, ↓reduceIte, List.reverse_cons, List.reverse_nil, List.nil_append, List.cons_append,
      List.map_cons, List.map_nil, fromLE, h1, h2, h3, h4]
    omega

/-- a frame as it stands in a tag: the id bytes, the frame data `_readData` is to get, and what it reads as -/
structure InFrame where
  nm : Bytes
  body : Bytes
  out : Val

/-- the id (of `k` bytes) is in the table, the class upgrades to `n`, the data reads — with the frame codec of the
class, under the header `E.h` — as `outvals` with nothing left over, and is not empty -/
def InOK (E : Id3.Env) (tbl : Table) (k : Nat) (fr : InFrame) : Prop :=
  ∃ (cls : FrameClass) (n : String) (outvals : List Val),
    tbl.find fr.nm = some cls ∧ upgradeName cls = some n ∧ fr.nm.length = k ∧
    (∀ x ∈ fr.nm, 0 < x.toNat ∧ x.toNat < 128) ∧
    readFrame E.sub E.h cls fr.body = .ok (outvals, []) ∧ fr.body ≠ [] ∧ fr.out = .frame n outvals

/-- ID3v2.2 §3.2: three id bytes, three size bytes, the data -/
def render22 (fr : InFrame) : Bytes := fr.nm ++ toBE 3 fr.body.length ++ fr.body
/-- ID3v2.3 §3.3: four id bytes, four size bytes, two flag bytes (0), the data -/
def render23 (fr : InFrame) : Bytes := fr.nm ++ toBE 4 fr.body.length ++ [0, 0] ++ fr.body
/-- ID3v2.4 §4 with the unsynchronisation flag (format flags 0x02): the size is that of the unsynchronised data -/
def render24u (fr : InFrame) : Bytes :=
  fr.nm ++ syncsafe4 (unsynchEncode fr.body).length ++ [0, 2] ++ unsynchEncode fr.body

/-! ### the reading loops, one frame at a time -/

theorem readFrames34_stepF (sub : Hdr → Bytes → Except PyErr (List Val × Bytes)) (tbl : Table) (h : Hdr) (ss : Bool)
    (data nm body rest : Bytes) (fl : Nat) (cls : FrameClass) (n : String) (vals : List Val)
    (h10 : ¬ data.length < 10) (hnm : data.take 4 = nm) (hz : (nm.all fun x => x == 0) = false)
    (hsize : (if ss then bpFromBytes 7 true ((data.drop 4).take 4) else ofBE ((data.drop 4).take 4)) = body.length)
    (hflags : ofBE ((data.drop 8).take 2) = fl)
    (hbody : (data.drop 10).take body.length = body) (hrest : data.drop (10 + body.length) = rest)
    (hne : body.length ≠ 0) (hascii : (nm.all fun x => decide (x.toNat < 128)) = true) (hlast : nm.getLast? ≠ some 0)
    (hfind : tbl.find nm = some cls) (hfd : fromData sub h cls fl body = .frame vals) (hup : upgradeName cls = some n) :
    readFrames34 sub tbl h ss data =
      match readFrames34 sub tbl h ss rest with
      | .error e => .error e
      | .ok (fs, d) => .ok (.frame n vals :: fs, d) := by
  rw [readFrames34]
  simp only [h10, ↓reduceDIte, hnm, hz, Bool.false_eq_true, ↓reduceIte, hsize, hflags, hbody, hrest, hne, hascii,
    Bool.not_true, hlast, Option.bind_some, hfind, hfd, hup]
  generalize readFrames34 sub tbl h ss rest = r
  cases r with
  | error e => rfl
  | ok p => cases p; rfl

theorem readFrames22_step (sub : Hdr → Bytes → Except PyErr (List Val × Bytes)) (tbl : Table) (h : Hdr)
    (data nm body rest : Bytes) (cls : FrameClass) (n : String) (vals : List Val)
    (h6 : ¬ data.length < 6) (hnm : data.take 3 = nm) (hz : (nm.all fun x => x == 0) = false)
    (hsize : ofBE ((data.drop 3).take 3) = body.length)
    (hbody : (data.drop 6).take body.length = body) (hrest : data.drop (6 + body.length) = rest)
    (hne : body.length ≠ 0) (hascii : (nm.all fun x => decide (x.toNat < 128)) = true)
    (hfind : tbl.find nm = some cls) (hfd : fromData sub h cls 0 body = .frame vals) (hup : upgradeName cls = some n) :
    readFrames22 sub tbl h data =
      match readFrames22 sub tbl h rest with
      | .error e => .error e
      | .ok (fs, d) => .ok (.frame n vals :: fs, d) := by
  rw [readFrames22]
  simp only [h6, ↓reduceDIte, hnm, hz, Bool.false_eq_true, ↓reduceIte, hsize, hbody, hrest, hne, hascii,
    Bool.not_true, hfind, hfd, hup]
  generalize readFrames22 sub tbl h rest = r
  cases r with
  | error e => rfl
  | ok p => cases p; rfl

theorem readFrames22_pad (sub : Hdr → Bytes → Except PyErr (List Val × Bytes)) (tbl : Table) (h : Hdr) (p : Nat) :
    readFrames22 sub tbl h (zeros p) = .ok ([], zeros p) := by
  rw [readFrames22]
  by_cases hp : (zeros p).length < 6
  · simp only [hp, ↓reduceDIte]
  · have : ((zeros p).take 3).all (fun x => x == 0) = true := by
      simp only [List.all_eq_true]
      intro x hx
      have := List.mem_of_mem_take hx
      simp only [zeros, List.mem_replicate] at this
      simp [this.2]
    simp only [hp, ↓reduceDIte, this, ↓reduceIte]

/-- `_fromData` with flags 0 under a v2.2 / v2.3 header: the data goes to `_readData` as it is -/
theorem fromData_old (sub : Hdr → Bytes → Except PyErr (List Val × Bytes)) (h : Hdr) (hv : h.version < 4)
    (cls : FrameClass) (b : Bytes) (vals : List Val) (r : Bytes) (hr : readFrame sub h cls b = .ok (vals, r)) :
    fromData sub h cls 0 b = .frame vals := by
  unfold fromData
  have e2 : hasFlag 0 FLAG23_ENCRYPT = false := by decide
  have e4 : hasFlag 0 FLAG23_COMPRESS = false := by decide
  have c : ¬ (h.version ≥ 4) := by omega
  have hb : fromDataBytes h 0 b = b := by simp [fromDataBytes, c]
  simp only [c, ↓reduceIte, e2, e4, ite_self, Bool.false_eq_true, and_false, false_and, hb, hr]

/-- `_fromData` with the v2.4 unsynchronisation flag on unsynchronised data (whatever the tag header says) -/
theorem fromData_unsynch24 (sub : Hdr → Bytes → Except PyErr (List Val × Bytes)) (h : Hdr) (hv : h.version ≥ 4)
    (cls : FrameClass) (b : Bytes) (vals : List Val) (r : Bytes) (hr : readFrame sub h cls b = .ok (vals, r)) :
    fromData sub h cls FLAG24_UNSYNCH (unsynchEncode b) = .frame vals := by
  unfold fromData
  have e1 : hasFlag FLAG24_UNSYNCH FLAG24_ENCRYPT = false := by decide
  have e3 : hasFlag FLAG24_UNSYNCH FLAG24_COMPRESS = false := by decide
  have c : ¬ (h.version = 3) := by omega
  simp only [hv, ↓reduceIte, e1, e3, c, false_and, Bool.false_eq_true, fromDataBytes_unsynch h hv b, hr]

theorem unsynchEncode_ne_nil (b : Bytes) (h : b ≠ []) : unsynchEncode b ≠ [] := by
  intro he
  have := C14.unsynch_roundtrip b
  rw [he] at this
  have h2 : unsynchDecode [] = .ok [] := by decide
  rw [h2] at this
  injection this with this
  exact h this.symm

theorem len3 (l : Bytes) (h : l.length = 3) : ∃ a b c, l = [a, b, c] := by
  match l, h with
  | [a, b, c], _ => exact ⟨a, b, c, rfl⟩

theorem all_zero_false (nm : Bytes) (a : UInt8) (r : Bytes) (hnm : nm = a :: r) (h : ∀ x ∈ nm, 0 < x.toNat ∧ x.toNat < 128) :
    (nm.all fun x => x == 0) = false := by
  subst hnm
  have := (h a (by simp)).1
  simp only [List.all_cons, Bool.and_eq_false_imp, beq_iff_eq]
  intro h1; rw [h1] at this; exact absurd this (by decide)

theorem all_ascii (nm : Bytes) (h : ∀ x ∈ nm, 0 < x.toNat ∧ x.toNat < 128) :
    (nm.all fun x => decide (x.toNat < 128)) = true := by
  simp only [List.all_eq_true, decide_eq_true_eq]
  exact fun x hx => (h x hx).2

/-- the v2.2 loop on the spec rendering of frames, followed by padding -/
theorem readFrames22_render (E : Id3.Env) (tbl : Table) (hv : E.h.version < 4) (p : Nat) (frs : List InFrame)
    (h : ∀ fr ∈ frs, InOK E tbl 3 fr ∧ fr.body.length < 256 ^ 3) :
    readFrames22 E.sub tbl E.h ((frs.map render22).flatten ++ zeros p) = .ok (frs.map (·.out), zeros p) := by
  induction frs with
  | nil => simpa using readFrames22_pad E.sub tbl E.h p
  | cons fr rs ih =>
    obtain ⟨⟨cls, n, outvals, hfind, hup, hl, hasc, hr, hne, hout⟩, hlim⟩ := h fr List.mem_cons_self
    have ih' := ih (fun x hx => h x (List.mem_cons_of_mem _ hx))
    obtain ⟨n1, n2, n3, hn⟩ := len3 fr.nm hl
    obtain ⟨t1, t2, t3, ht⟩ := len3 (toBE 3 fr.body.length) (by simp)
    have hbl : fr.body.length ≠ 0 := fun h0 => hne (List.length_eq_zero_iff.mp h0)
    have hdata : (List.map render22 (fr :: rs)).flatten ++ zeros p =
        n1 :: n2 :: n3 :: t1 :: t2 :: t3 :: (fr.body ++ ((rs.map render22).flatten ++ zeros p)) := by
      simp only [List.map_cons, List.flatten_cons, render22, hn, ht]; simp
    rw [hdata, readFrames22_step E.sub tbl E.h _ [n1, n2, n3] fr.body ((rs.map render22).flatten ++ zeros p) cls n outvals
      (by simp) rfl (all_zero_false _ n1 _ rfl (by rw [← hn]; exact hasc))
      (by show ofBE [t1, t2, t3] = _; rw [← ht]; exact ofBE_toBE 3 _ hlim)
      (by simp) (by rw [← List.drop_drop]; simp) hbl (all_ascii _ (by rw [← hn]; exact hasc))
      (by rw [← hn]; exact hfind) (fromData_old E.sub E.h hv cls fr.body outvals [] hr) hup, ih']
    simp [hout]

/-- the v2.3 loop on the spec rendering (plain 32-bit sizes, flags 0) -/
theorem readFrames34_render23 (E : Id3.Env) (tbl : Table) (hv : E.h.version < 4) (p : Nat) (frs : List InFrame)
    (h : ∀ fr ∈ frs, InOK E tbl 4 fr ∧ fr.body.length < 256 ^ 4) :
    readFrames34 E.sub tbl E.h false ((frs.map render23).flatten ++ zeros p) = .ok (frs.map (·.out), zeros p) := by
  induction frs with
  | nil => simpa using readFrames34_pad E.sub tbl E.h false p
  | cons fr rs ih =>
    obtain ⟨⟨cls, n, outvals, hfind, hup, hl, hasc, hr, hne, hout⟩, hlim⟩ := h fr List.mem_cons_self
    have ih' := ih (fun x hx => h x (List.mem_cons_of_mem _ hx))
    obtain ⟨n1, n2, n3, n4, hn⟩ := Id3F.len4 fr.nm hl
    obtain ⟨t1, t2, t3, t4, ht⟩ := Id3F.len4 (toBE 4 fr.body.length) (by simp)
    have hbl : fr.body.length ≠ 0 := fun h0 => hne (List.length_eq_zero_iff.mp h0)
    have hdata : (List.map render23 (fr :: rs)).flatten ++ zeros p =
        n1 :: n2 :: n3 :: n4 :: t1 :: t2 :: t3 :: t4 :: 0 :: 0 :: (fr.body ++ ((rs.map render23).flatten ++ zeros p)) := by
      simp only [List.map_cons, List.flatten_cons, render23, hn, ht]; simp
    have hasc' : ∀ x ∈ [n1, n2, n3, n4], 0 < x.toNat ∧ x.toNat < 128 := by rw [← hn]; exact hasc
    rw [hdata, readFrames34_stepF E.sub tbl E.h false _ [n1, n2, n3, n4] fr.body ((rs.map render23).flatten ++ zeros p) 0 cls n outvals
      (by simp) rfl (all_zero_false _ n1 _ rfl hasc')
      (by show ofBE [t1, t2, t3, t4] = _; rw [← ht]; exact ofBE_toBE 4 _ hlim)
      rfl (by simp) (by rw [← List.drop_drop]; simp) hbl (all_ascii _ hasc')
      (by
        simp only [List.getLast?_cons_cons, List.getLast?_singleton, ne_eq, Option.some.injEq]
        intro h4; have := (hasc' n4 (by simp)).1; rw [h4] at this; exact absurd this (by decide))
      (by rw [← hn]; exact hfind) (fromData_old E.sub E.h hv cls fr.body outvals [] hr) hup, ih']
    simp [hout]

/-- the v2.4 loop (syncsafe sizes) on frames carrying the unsynchronisation flag -/
theorem readFrames34_render24u (E : Id3.Env) (tbl : Table) (hv : E.h.version ≥ 4) (p : Nat) (frs : List InFrame)
    (h : ∀ fr ∈ frs, InOK E tbl 4 fr ∧ (unsynchEncode fr.body).length < 2 ^ 28) :
    readFrames34 E.sub tbl E.h true ((frs.map render24u).flatten ++ zeros p) = .ok (frs.map (·.out), zeros p) := by
  induction frs with
  | nil => simpa using readFrames34_pad E.sub tbl E.h true p
  | cons fr rs ih =>
    obtain ⟨⟨cls, n, outvals, hfind, hup, hl, hasc, hr, hne, hout⟩, hlim⟩ := h fr List.mem_cons_self
    have ih' := ih (fun x hx => h x (List.mem_cons_of_mem _ hx))
    obtain ⟨n1, n2, n3, n4, hn⟩ := Id3F.len4 fr.nm hl
    obtain ⟨hs4, _, hsv⟩ := syncsafe4_ok _ hlim
    obtain ⟨t1, t2, t3, t4, ht⟩ := Id3F.len4 _ hs4
    have hbl : (unsynchEncode fr.body).length ≠ 0 := fun h0 => unsynchEncode_ne_nil _ hne (List.length_eq_zero_iff.mp h0)
    have hdata : (List.map render24u (fr :: rs)).flatten ++ zeros p =
        n1 :: n2 :: n3 :: n4 :: t1 :: t2 :: t3 :: t4 :: 0 :: 2 :: (unsynchEncode fr.body ++ ((rs.map render24u).flatten ++ zeros p)) := by
      simp only [List.map_cons, List.flatten_cons, render24u, hn, ht]; simp
    have hasc' : ∀ x ∈ [n1, n2, n3, n4], 0 < x.toNat ∧ x.toNat < 128 := by rw [← hn]; exact hasc
    rw [hdata, readFrames34_stepF E.sub tbl E.h true _ [n1, n2, n3, n4] (unsynchEncode fr.body)
      ((rs.map render24u).flatten ++ zeros p) FLAG24_UNSYNCH cls n outvals
      (by simp) rfl (all_zero_false _ n1 _ rfl hasc')
      (by show bpFromBytes 7 true [t1, t2, t3, t4] = _; rw [← ht]; exact hsv)
      (by show ofBE [0, 2] = FLAG24_UNSYNCH; decide) (by simp) (by rw [← List.drop_drop]; simp) hbl (all_ascii _ hasc')
      (by
        simp only [List.getLast?_cons_cons, List.getLast?_singleton, ne_eq, Option.some.injEq]
        intro h4; have := (hasc' n4 (by simp)).1; rw [h4] at this; exact absurd this (by decide))
      (by rw [← hn]; exact hfind) (fromData_unsynch24 E.sub E.h hv cls fr.body outvals [] hr) hup, ih']
    simp [hout]

/-! ### `read_frames` with its version dispatch -/

/-- ID3v2.2, with or without whole-tag unsynchronisation: `region` is the rendering, unsynchronised if the header says so -/
theorem readFramesWith_v22 (E : Id3.Env) (tbl : Table) (hv : E.h.version = 2) (p : Nat) (frs : List InFrame)
    (h : ∀ fr ∈ frs, InOK E tbl 3 fr ∧ fr.body.length < 256 ^ 3) :
    readFramesWith E.sub tbl E.h
      (if E.h.unsynch then unsynchEncode ((frs.map render22).flatten ++ zeros p) else (frs.map render22).flatten ++ zeros p) =
      .ok (frs.map (·.out), zeros p) := by
  unfold readFramesWith
  have c1 : ¬ (E.h.version ≥ 4) := by omega
  have c2 : ¬ (E.h.version = 3) := by omega
  have c3 : E.h.version < 4 := by omega
  cases hu : E.h.unsynch with
  | false =>
    simp only [hu, Bool.false_eq_true, and_false, ↓reduceIte, c1, c2]
    exact readFrames22_render E tbl c3 p frs h
  | true =>
    simp only [hu, c3, and_self, ↓reduceIte, C14.unsynch_roundtrip, c1, c2]
    exact readFrames22_render E tbl c3 p frs h

/-- ID3v2.3 (plain 32-bit sizes), with or without whole-tag unsynchronisation -/
theorem readFramesWith_v23 (E : Id3.Env) (tbl : Table) (hv : E.h.version = 3) (p : Nat) (frs : List InFrame)
    (h : ∀ fr ∈ frs, InOK E tbl 4 fr ∧ fr.body.length < 256 ^ 4) :
    readFramesWith E.sub tbl E.h
      (if E.h.unsynch then unsynchEncode ((frs.map render23).flatten ++ zeros p) else (frs.map render23).flatten ++ zeros p) =
      .ok (frs.map (·.out), zeros p) := by
  unfold readFramesWith
  have c1 : ¬ (E.h.version ≥ 4) := by omega
  have c3 : E.h.version < 4 := by omega
  cases hu : E.h.unsynch with
  | false =>
    simp only [hu, Bool.false_eq_true, and_false, ↓reduceIte, c1, hv]
    exact readFrames34_render23 E tbl c3 p frs h
  | true =>
    simp only [hu, c3, and_self, ↓reduceIte, C14.unsynch_roundtrip, c1, hv]
    exact readFrames34_render23 E tbl c3 p frs h

def toRec24u (fr : InFrame) : Rec :=
  { nm := fr.nm, sz := syncsafe4 (unsynchEncode fr.body).length, fl := [0, 2], body := unsynchEncode fr.body }

/-- ID3v2.4 with per-frame unsynchronisation (the tag header flag may be set or not): `determine_bpi` is discharged by
`intWalkSafe` on the lengths of the unsynchronised frame data -/
theorem readFramesWith_v24u (E : Id3.Env) (tbl : Table) (hv : E.h.version = 4) (p : Nat) (frs : List InFrame)
    (h : ∀ fr ∈ frs, InOK E tbl 4 fr ∧ (unsynchEncode fr.body).length < 2 ^ 28)
    (hsafe : intWalkSafe (((frs.map render24u).flatten).length + p) 0 (frs.map fun fr => (unsynchEncode fr.body).length) = true) :
    readFramesWith E.sub tbl E.h ((frs.map render24u).flatten ++ zeros p) = .ok (frs.map (·.out), zeros p) := by
  unfold readFramesWith
  have c1 : E.h.version ≥ 4 := by omega
  have c0 : ¬ (E.h.version < 4 ∧ E.h.unsynch = true) := by omega
  have hflat : (frs.map render24u).flatten = flat (frs.map toRec24u) := by
    simp only [flat, List.map_map]; rfl
  have hbpi : determineBpi tbl ((frs.map render24u).flatten ++ zeros p) = true := by
    rw [hflat]
    apply determineBpi_safe tbl (frs.map toRec24u) p
    · intro r hr
      obtain ⟨fr, hfr, rfl⟩ := List.mem_map.mp hr
      obtain ⟨⟨cls, n, outvals, hfind, hup, hl, hasc, hrd, hne, hout⟩, hlim⟩ := h fr hfr
      obtain ⟨hs4, hss, hsv⟩ := syncsafe4_ok _ hlim
      exact ⟨hl, hasc, by show (tbl.find fr.nm).isSome = true; rw [hfind]; rfl, hs4, rfl, hss, hsv, unsynchEncode_ne_nil _ hne⟩
    · rw [← hflat]
      simpa [List.map_map, toRec24u, Function.comp_def] using hsafe
  simp only [c0, ↓reduceIte, c1, hbpi]
  exact readFrames34_render24u E tbl c1 p frs h

/-- ID3v2 header (§3.1): "ID3", version, revision 0, flags, syncsafe size -/
def tagHeader (vmaj : Nat) (fl : UInt8) (n : Nat) : Bytes := Id3F.magicID3 ++ [UInt8.ofNat vmaj, 0, fl] ++ syncsafe4 n

/-- `ID3Header` on a file that starts with such a header, flags 0 or 0x80 (unsynchronisation): the tag has `n + 10`
bytes, and the region behind the header is what `read_frames` gets -/
theorem headerSize_flags (vmaj : Nat) (hv : vmaj = 2 ∨ vmaj = 3 ∨ vmaj = 4) (fl : UInt8) (hfl : fl = 0 ∨ fl = 0x80)
    (region rest : Bytes) (hn : region.length < 2 ^ 28) :
    Id3F.headerSize (tagHeader vmaj fl region.length ++ region ++ rest) = .ok (some (region.length + 10)) ∧
    ((tagHeader vmaj fl region.length ++ region ++ rest).drop 10).take region.length = region ∧
    ((tagHeader vmaj fl region.length ++ region ++ rest).getD 5 0).toNat / 128 % 2 = (if fl = 0x80 then 1 else 0) := by
  obtain ⟨hs4, hss, hsv⟩ := syncsafe4_ok _ hn
  obtain ⟨a, b, c, d, hsz⟩ := Id3F.len4 _ hs4
  have ha := hss a (by rw [hsz]; simp); have hb := hss b (by rw [hsz]; simp)
  have hc := hss c (by rw [hsz]; simp); have hd := hss d (by rw [hsz]; simp)
  have hvm : (UInt8.ofNat vmaj).toNat = vmaj := by rcases hv with rfl | rfl | rfl <;> rfl
  rw [hsz] at hsv
  refine ⟨?_, ?_, ?_⟩
  · unfold Id3F.headerSize tagHeader
    rw [hsz]
    simp only [Id3F.magicID3, List.cons_append, List.nil_append, List.take_succ_cons, List.take_zero, List.length_cons,
      List.length_nil, List.getD_cons_succ, List.getD_cons_zero, List.drop_succ_cons, List.drop_zero, hvm]
    have e3 : ¬ (vmaj ≠ 2 ∧ vmaj ≠ 3 ∧ vmaj ≠ 4) := by omega
    have e4 : ([a, b, c, d].all fun x => decide (x.toNat < 128)) = true := by simp [ha, hb, hc, hd]
    rcases hfl with rfl | rfl <;> simp [e3, e4, hsv]
  · unfold tagHeader
    rw [hsz]
    simp [Id3F.magicID3]
  · unfold tagHeader
    rcases hfl with rfl | rfl <;> simp [Id3F.magicID3]

end Mutagen.C01F
