/- Proofs/Info/IffWalk.lean — the chunk walk of Model/Container/Iff.lean on a well-formed chunk
sequence that is FOLLOWED by arbitrary bytes (the info theorems allow trailing data), `chunk.read()`
on such a chunk, and the error classes of the nested walk. -/
import MutagenModel.Proofs.Container.IffTotal
import MutagenModel.Model.Info.IffRead
set_option linter.unusedVariables false
namespace Mutagen.Info
open Mutagen Mutagen.Iff

theorem walkFrom_chunks_rest (d : Dialect) (cs : List Chunk) (P R : Bytes) (fuel : Nat)
    (hok : ∀ c ∈ cs, c.OK d) (hfuel : cs.length ≤ fuel) :
    walkFrom d (P ++ renderChunks d cs ++ R) (P.length + (renderChunks d cs).length) fuel P.length
      = .ok (recsOf d P.length cs) := by
  induction cs generalizing P fuel with
  | nil =>
    cases fuel <;> simp [walkFrom, renderChunks, recsOf]
  | cons c r ih =>
    obtain ⟨hhead, hpad⟩ := hok c (by simp)
    cases fuel with
    | zero => simp at hfuel
    | succ k =>
      have hpos := render_ne_nil_length d c hhead.1
      have hlt : P.length < P.length + (renderChunks d (c :: r)).length := by
        simp [renderChunks]; omega
      have hf : P ++ renderChunks d (c :: r) ++ R = P ++ c.render d ++ (renderChunks d r ++ R) := by
        simp [renderChunks, List.append_assoc]
      unfold walkFrom
      rw [if_pos hlt, hf, parseAt_chunk d P _ c hhead]
      have hnext : (recOf P.length c).offset + (recOf P.length c).size d = (P ++ c.render d).length := by
        simp only [recOf, Rec.size, length_render d c hhead.1, hpad, List.length_append]
      simp only [hnext]
      have hend : P.length + (renderChunks d (c :: r)).length = (P ++ c.render d).length + (renderChunks d r).length := by
        simp [renderChunks]; omega
      have hf2 : P ++ c.render d ++ (renderChunks d r ++ R) = (P ++ c.render d) ++ renderChunks d r ++ R := by
        simp [List.append_assoc]
      rw [hend, hf2, ih (P ++ c.render d) k (fun x hx => hok x (by simp [hx])) (by simpa using hfuel)]
      simp [recsOf]

/-- the root chunk of a rendered file with bytes behind it -/
theorem parseRoot_rest (d : Dialect) (hd : d.WF) (name : Bytes) (hname : NameOK d name) (cs : List Chunk) (R : Bytes)
    (hsize : name.length + (renderChunks d cs).length < 256 ^ d.sizeW) :
    parseRoot d (renderFile d name cs ++ R) = .ok (name.length + (renderChunks d cs).length) := by
  obtain ⟨h1, h2, h3, _⟩ := hd
  let c : Chunk := ⟨d.rootId, name ++ renderChunks d cs, []⟩
  have hsid : sid c = d.rootId := by simp [sid, c, h2]
  have hhead : c.Head d := by
    refine ⟨h1, by simpa [c] using hsize, by simp [hsid, c, h2], ?_⟩
    unfold containerOK
    rw [hsid, h3]
    simp only [Bool.and_eq_true, decide_eq_true_eq]
    refine ⟨by simp [c, hname.1], ?_⟩
    have : (c.data.take 4) = name := by simp [c, List.take_left' hname.1]
    rw [this]; exact hname.2.1
  have hf : renderFile d name cs ++ R = [] ++ c.render d ++ R := by
    simp [renderFile, Chunk.render, c, List.append_assoc]
  have hp := parseAt_chunk d [] R c hhead
  rw [← hf] at hp
  unfold parseRoot
  simp only [List.length_nil] at hp
  rw [hp]
  simp only [recOf, hsid, ne_eq, not_true_eq_false, ↓reduceIte]
  cases hft : d.formType with
  | none => simp [c]
  | some t =>
    have hnm : readAt (renderFile d name cs ++ R) (hs d) nameSize = name := by
      have : renderFile d name cs ++ R = (d.rootId ++ enc d (name.length + (renderChunks d cs).length)) ++ name ++ (renderChunks d cs ++ R) := by
        simp [renderFile, List.append_assoc]
      rw [this]
      exact readAt_mid _ _ _ _ _ (by simp [hs, h1]) hname.1
    have : name = t := by
      rcases hname.2.2 with h0 | h0
      · rw [h0] at hft; cases hft
      · rw [h0] at hft; cases hft; rfl
    subst this
    simp [hnm, c]

/-- `subchunks()` of the root of a rendered file with bytes behind it (the root's size is even, as it is
whenever every chunk carries its pad byte) -/
theorem walk_rest (d : Dialect) (hd : d.WF) (name : Bytes) (hname : name.length = 4) (cs : List Chunk) (R : Bytes)
    (hok : ∀ c ∈ cs, c.OK d) (heven : (renderChunks d cs).length % 2 = 0) :
    walk d (renderFile d name cs ++ R) (name.length + (renderChunks d cs).length) = .ok (recsOf d (hs d + 4) cs) := by
  unfold walk
  have hlen : (renderFile d name cs ++ R).length = hs d + (name.length + (renderChunks d cs).length) + R.length := by
    rw [List.length_append, length_renderFile d hd]
  have hact : actual (renderFile d name cs ++ R) (hs d) (name.length + (renderChunks d cs).length) =
      name.length + (renderChunks d cs).length := by
    unfold actual; rw [hlen]; omega
  rw [hact]
  have hf : renderFile d name cs ++ R = (d.rootId ++ enc d (name.length + (renderChunks d cs).length) ++ name) ++ renderChunks d cs ++ R := by
    simp [renderFile, List.append_assoc]
  have hP : (d.rootId ++ enc d (name.length + (renderChunks d cs).length) ++ name).length = hs d + 4 := by
    simp [hs, hd.1, hname]; omega
  have hfuel : cs.length ≤ (renderFile d name cs ++ R).length := by
    have := length_le_renderChunks d cs (fun c hc => (hok c hc).1.1)
    rw [hlen]; omega
  have hw := walkFrom_chunks_rest d cs (d.rootId ++ enc d (name.length + (renderChunks d cs).length) ++ name) R
    (renderFile d name cs ++ R).length hok hfuel
  rw [← hf, hP] at hw
  have hend : hs d + (name.length + (renderChunks d cs).length) = hs d + 4 + (renderChunks d cs).length := by omega
  rw [hend]
  exact hw

/-- `chunk.read()` of a well-formed chunk in the middle of a file gives its data -/
theorem chunkRead_mid (d : Dialect) (P R : Bytes) (c : Chunk) (h : c.OK d) :
    chunkRead d (P ++ c.render d ++ R) (recOf P.length c) = c.data := by
  obtain ⟨⟨h4, _, _, _⟩, hpad⟩ := h
  unfold chunkRead actual
  simp only [recOf]
  have hl : (P ++ c.render d ++ R).length = P.length + hs d + c.data.length + c.pad.length + R.length := by
    simp only [List.length_append, length_render d c h4]; omega
  have hm : min c.data.length (min (c.data.length + c.data.length % 2) ((P ++ c.render d ++ R).length - (P.length + hs d))) = c.data.length := by
    rw [hl]; omega
  rw [hm]
  have hf : P ++ c.render d ++ R = (P ++ (c.id ++ enc d c.data.length)) ++ c.data ++ (c.pad ++ R) := by
    simp [Chunk.render, List.append_assoc]
  rw [hf]
  exact readAt_mid _ _ _ _ _ (by simp [hs, h4]) rfl

/-- the nested walk raises nothing but MutagenError (and does not run out of fuel) -/
theorem subWalk_clean (d : Dialect) (f : Bytes) (c : Rec) (ns : Nat) (e : PyErr)
    (h : subWalk d f c ns = .error e) : e = .mutagen := by
  unfold subWalk at h
  refine walkFrom_clean d f _ _ _ ?_ e h
  unfold actual; omega

end Mutagen.Info
