/- Proofs/Info/WavPack.lean — the block header read back from the specification's layout; the block-summing loop -/
import MutagenModel.Proofs.Info.Common
import MutagenModel.Spec.Info.WavPack
set_option linter.unusedVariables false
namespace Mutagen.Info.WavPack
open Mutagen Mutagen.Info Mutagen.Spec.WavPack

theorem flags_lt (h : Fields) (ok : h.OK) : flags h < 2 ^ 32 := by
  obtain ⟨_, _, h1, h2, h3, h4, h5, h6, _⟩ := ok
  unfold flags
  split <;> omega

theorem storedTotal_lt (h : Fields) (ok : h.OK) : storedTotal h < 2 ^ 40 := by
  obtain ⟨_, ht, _⟩ := ok
  unfold storedTotal
  split
  · decide
  · exact ht _ ‹_›

theorem length_buildBlock (h : Fields) (idx : Nat) (b : Block) :
    (buildBlock h idx b).length = 32 + b.payload.length := by
  simp [buildBlock]; omega

theorem fromFileobj_block (h : Fields) (ok : h.OK) (idx : Nat) (b : Block) (bok : b.OK) (rest : Bytes) :
    fromFileobj (buildBlock h idx b ++ rest) 0 =
      .ok { blockSize := 24 + b.payload.length, version := h.version,
            totalSamples := if storedTotal h % 2 ^ 32 = 2 ^ 32 - 1 then none else some (storedTotal h % 2 ^ 32),
            blockIndex := idx % 2 ^ 32, blockSamples := b.samples, flags := flags h } := by
  have hfl := flags_lt h ok
  obtain ⟨hv, _⟩ := ok
  obtain ⟨hs, hp, hc⟩ := bok
  have hlen : (readAt (buildBlock h idx b ++ rest) 0 32).length = 32 := by
    apply length_readAt_of_le; simp [length_buildBlock]; omega
  unfold fromFileobj
  simp only [hlen, startsWith, uLE, readAt_readAt _ _ _ _ _ (show 0 + magic.length ≤ 32 by decide),
    readAt_readAt _ _ _ _ _ (show 4 + 4 ≤ 32 by decide), readAt_readAt _ _ _ _ _ (show 8 + 2 ≤ 32 by decide),
    readAt_readAt _ _ _ _ _ (show 12 + 4 ≤ 32 by decide), readAt_readAt _ _ _ _ _ (show 16 + 4 ≤ 32 by decide),
    readAt_readAt _ _ _ _ _ (show 20 + 4 ≤ 32 by decide), readAt_readAt _ _ _ _ _ (show 24 + 4 ≤ 32 by decide)]
  simp only [buildBlock, List.append_assoc, magic]
  rd_simp
  rw [ofLE_toLE 4 _ (show 24 + b.payload.length < 256 ^ 4 by omega), ofLE_toLE 2 _ (show h.version < 256 ^ 2 by omega),
    ofLE_toLE 4 _ (show storedTotal h % 2 ^ 32 < 256 ^ 4 by omega), ofLE_toLE 4 _ (show idx % 2 ^ 32 < 256 ^ 4 by omega),
    ofLE_toLE 4 _ (show b.samples < 256 ^ 4 by omega), ofLE_toLE 4 _ (show flags h < 256 ^ 4 by omega)]
  simp


theorem fromFileobj_shift (pre g : Bytes) : fromFileobj (pre ++ g) pre.length = fromFileobj g 0 := by
  unfold fromFileobj; rw [readAt_append_length]

theorem fromFileobj_noHeader (rest : Bytes) (h : NoHeader rest) : fromFileobj rest 0 = .error .mutagen := by
  unfold fromFileobj
  rcases h with h | h
  · have : (readAt rest 0 32).length ≠ 32 := by rw [length_readAt]; omega
    simp [this]
  · have : startsWith (readAt rest 0 32) magic = false := by
      simp only [startsWith, readAt_readAt _ _ _ _ _ (show 0 + magic.length ≤ 32 by decide)]
      simpa [magic] using h
    simp [this]

theorem fromFileobj_ok_len (f : Bytes) (pos : Nat) (hd : Header) (h : fromFileobj f pos = .ok hd) :
    pos + 32 ≤ f.length := by
  by_cases hc : (readAt f pos 32).length = 32
  · rw [length_readAt] at hc; omega
  · simp [fromFileobj, hc] at h

theorem sumBlocks_no_diverge (f : Bytes) (fuel : Nat) : ∀ pos s, f.length ≤ fuel + pos →
    ∃ n, sumBlocks f fuel pos s = .ok n := by
  induction fuel with
  | zero =>
    intro pos s hle
    unfold sumBlocks
    split
    · exact ⟨_, rfl⟩
    · rename_i hd hh
      have := fromFileobj_ok_len f pos hd hh
      omega
  | succ k ih =>
    intro pos s hle
    unfold sumBlocks
    split
    · exact ⟨_, rfl⟩
    · rename_i hd hh
      have := fromFileobj_ok_len f pos hd hh
      exact ih _ _ (by omega)

theorem length_le_buildBlocks (h : Fields) (bs : List Block) : ∀ idx, bs.length ≤ (buildBlocks h idx bs).length := by
  induction bs with
  | nil => intro _; simp [buildBlocks]
  | cons b bs ih =>
    intro idx
    simp only [buildBlocks, List.length_cons, List.length_append, length_buildBlock]
    have := ih (idx + b.samples)
    omega

theorem sumBlocks_blocks (h : Fields) (ok : h.OK) (rest : Bytes) (hrest : NoHeader rest) (bs : List Block) :
    (∀ b ∈ bs, b.OK) → ∀ (pre : Bytes) (idx fuel s : Nat), bs.length ≤ fuel →
    sumBlocks (pre ++ (buildBlocks h idx bs ++ rest)) fuel pre.length s = .ok (s + (bs.map (·.samples)).sum) := by
  induction bs with
  | nil =>
    intro _ pre idx fuel s _
    unfold sumBlocks
    simp only [buildBlocks, List.nil_append, fromFileobj_shift, fromFileobj_noHeader rest hrest]
    simp
  | cons b bs ih =>
    intro hbs pre idx fuel s hfuel
    have hb : b.OK := hbs b List.mem_cons_self
    unfold sumBlocks
    simp only [buildBlocks, List.append_assoc, fromFileobj_shift, fromFileobj_block h ok idx b hb]
    cases fuel with
    | zero => simp at hfuel
    | succ k =>
      simp only
      have hpos : pre.length + 8 + (24 + b.payload.length) = (pre ++ buildBlock h idx b).length := by
        simp [length_buildBlock]; omega
      rw [hpos, ← List.append_assoc pre]
      rw [ih (fun c hc => hbs c (List.mem_cons_of_mem _ hc)) (pre ++ buildBlock h idx b) (idx + b.samples) k
        (s + b.samples) (by simpa using hfuel)]
      simp [Nat.add_assoc]

end Mutagen.Info.WavPack
