/- Proofs/Info/Tak.lean — the LSB bit reader evaluated on the stream-info bytes; the metadata-block loop; totality -/
import MutagenModel.Proofs.Info.Common
import MutagenModel.Spec.Info.Tak
set_option linter.unusedVariables false
set_option linter.unusedSimpArgs false
namespace Mutagen.Info.Tak
open Mutagen Mutagen.Info Mutagen.Spec.Tak

theorem toNat_ofNat8 (n : Nat) : (UInt8.ofNat n).toNat = n % 256 := by simp [UInt8.toNat_ofNat']

/-- the ten stream-info bytes read field by field through the bit reader give the fields of the
little-endian integer -/
theorem si_eval (W : Nat) (more : Bytes) (buf size : Nat) (hs : 11 ≤ size ∧ size ≤ 23) :
    parseStreamInfo { rem := toLE 10 W ++ more, buffer := buf, bits := 0 } size =
      .ok ({ numberOfSamples := W / 2 ^ 14 % 2 ^ 35, sampleRate := W / 2 ^ 52 % 2 ^ 18 + 6000,
             bitsPerSample := W / 2 ^ 70 % 2 ^ 5 + 8, channels := W / 2 ^ 75 % 2 ^ 4 + 1 },
           { rem := more, buffer := 0, bits := 0 }) := by
  have h1 : ¬ (size < 11 ∨ size > 23) := by omega
  simp only [toLE, List.cons_append, List.nil_append]
  simp [parseStreamInfo, h1, BR.skip, BR.readBits, BR.lsb, feed, bind, Except.bind, Except.map, pure, Except.pure]
  refine ⟨⟨?_, ?_, ?_, ?_⟩, ?_⟩ <;> omega

/-- reading a block header: 7 type bits, the unused bit, 3 size bytes -/
theorem header_eval (t sz : Nat) (ht : t < 128) (hsz : sz < 2 ^ 24) (more : Bytes) (buf : Nat) :
    (({ rem := toLE 1 t ++ (toLE 3 sz ++ more), buffer := buf, bits := 0 } : BR).readBits 7 = .ok (t, { rem := toLE 3 sz ++ more, buffer := 0, bits := 1 })) ∧
    (({ rem := toLE 3 sz ++ more, buffer := 0, bits := 1 } : BR).skip 1 = .ok { rem := toLE 3 sz ++ more, buffer := 0, bits := 0 }) ∧
    (({ rem := toLE 3 sz ++ more, buffer := 0, bits := 0 } : BR).readBytes 3 = .ok (toLE 3 sz, { rem := more, buffer := 0, bits := 0 })) := by
  refine ⟨?_, ?_, ?_⟩
  · simp only [toLE, List.cons_append, List.nil_append]
    simp [BR.readBits, BR.lsb, feed]
    omega
  · simp [BR.skip, BR.readBits, BR.lsb, Except.map]
  · simp [BR.readBytes, toLE]


theorem length_meta_bytes (m : Meta) : m.bytes.length = 4 + (m.payload.length + 3) := by
  simp [Meta.bytes]; omega

theorem drop_after (p0 blk rest' : Bytes) (n : Nat) (hn : n = (p0 ++ blk).length) :
    (p0 ++ (blk ++ rest')).drop n = rest' := by
  subst hn
  rw [← List.append_assoc, List.drop_left]

/-- one round of the loop over a block that is neither STREAM_INFO nor END -/
theorem loop_step_meta (p0 rest' : Bytes) (m : Meta) (hm : m.OK) (fuel buf : Nat) (si : Option StreamInfo)
    (enc : Option (Nat × Nat × Nat)) :
    loop (p0 ++ (m.bytes ++ rest')) (fuel + 1) p0.length { rem := m.bytes ++ rest', buffer := buf, bits := 0 } si enc =
    loop (p0 ++ (m.bytes ++ rest')) fuel (p0 ++ m.bytes).length { rem := rest', buffer := 0, bits := 0 } si
      (lastEncoder [m] enc) := by
  obtain ⟨ht, h0, h1, hsz, h4⟩ := hm
  have hb : m.bytes ++ rest' = toLE 1 m.type ++ (toLE 3 (m.payload.length + 3) ++ (m.payload ++ (toLE 3 (crc24 m.payload) ++ rest'))) := by
    simp [Meta.bytes]
  obtain ⟨e1, e2, e3⟩ := header_eval m.type (m.payload.length + 3) ht hsz (m.payload ++ (toLE 3 (crc24 m.payload) ++ rest')) buf
  have hpos : p0.length + 4 + (m.payload.length + 3) = (p0 ++ m.bytes).length := by
    simp [length_meta_bytes]; omega
  rw [loop]
  rw [hb, e1]; simp only []
  rw [e2]; simp only []
  rw [e3]; simp only []
  rw [ofLE_toLE 3 _ (by omega), if_neg h0, if_neg h1, hpos]
  by_cases ht4 : m.type = 4
  · have hl := h4 ht4
    obtain ⟨a, b, c, pr, hp⟩ : ∃ a b c pr, m.payload = a :: b :: c :: pr := by
      match hpl : m.payload with
      | [] => rw [hpl] at hl; simp at hl
      | [_] => rw [hpl] at hl; simp at hl
      | [_, _] => rw [hpl] at hl; simp at hl
      | a :: b :: c :: pr => exact ⟨a, b, c, pr, rfl⟩
    have henc : ∀ tl : Bytes, parseEncoderInfo { rem := a :: b :: c :: tl, buffer := 0, bits := 0 } =
        .ok ((c.toNat, b.toNat, a.toNat), { rem := tl, buffer := 0, bits := 0 }) := by
      intro tl
      simp [parseEncoderInfo, BR.readBits, BR.lsb, feed, bind, Except.bind, pure, Except.pure]
      have := a.toNat_lt; have := b.toNat_lt; have := c.toNat_lt
      omega
    simp only [if_pos ht4, lastEncoder]
    rw [← hb, drop_after p0 m.bytes rest' _ rfl]
    rw [hp]
    simp only [List.cons_append, henc, Except.map]
    simp
  · simp only [if_neg ht4, lastEncoder]
    rw [← hb, drop_after p0 m.bytes rest' _ rfl]
    simp


theorem lastEncoder_append (a b : List Meta) (acc : Option (Nat × Nat × Nat)) :
    lastEncoder (a ++ b) acc = lastEncoder b (lastEncoder a acc) := by
  induction a generalizing acc with
  | nil => rfl
  | cons m ms ih => simp [lastEncoder, ih]

/-- the loop over a run of blocks that are neither STREAM_INFO nor END -/
theorem loop_metas (ms : List Meta) : (∀ m ∈ ms, m.OK) → ∀ (p0 rest' : Bytes) (fuel buf : Nat) (si : Option StreamInfo)
    (enc : Option (Nat × Nat × Nat)),
    loop (p0 ++ (metasBytes ms ++ rest')) (fuel + ms.length) p0.length { rem := metasBytes ms ++ rest', buffer := buf, bits := 0 } si enc =
    loop (p0 ++ (metasBytes ms ++ rest')) fuel (p0 ++ metasBytes ms).length
      { rem := rest', buffer := if ms = [] then buf else 0, bits := 0 } si (lastEncoder ms enc) := by
  induction ms with
  | nil => intro _ p0 rest' fuel buf si enc; simp [metasBytes, lastEncoder]
  | cons m ms ih =>
    intro hok p0 rest' fuel buf si enc
    have hm := hok m List.mem_cons_self
    have hms : ∀ x ∈ ms, x.OK := fun x hx => hok x (List.mem_cons_of_mem _ hx)
    simp only [metasBytes, List.append_assoc, List.length_cons]
    rw [show fuel + (ms.length + 1) = (fuel + ms.length) + 1 by omega]
    rw [loop_step_meta p0 (metasBytes ms ++ rest') m hm]
    have hre : p0 ++ (m.bytes ++ (metasBytes ms ++ rest')) = (p0 ++ m.bytes) ++ (metasBytes ms ++ rest') := by simp
    rw [hre, ih hms (p0 ++ m.bytes) rest' fuel 0 si (lastEncoder [m] enc)]
    simp only [List.append_assoc, lastEncoder, reduceCtorEq, if_false]
    cases ms <;> simp

/-- one round over the STREAM_INFO block -/
theorem loop_step_si (h : Fields) (ok : h.OK) (p0 rest' : Bytes) (fuel buf : Nat) (si : Option StreamInfo)
    (enc : Option (Nat × Nat × Nat)) :
    loop (p0 ++ (siBlock h ++ rest')) (fuel + 1) p0.length { rem := siBlock h ++ rest', buffer := buf, bits := 0 } si enc =
    loop (p0 ++ (siBlock h ++ rest')) fuel (p0 ++ siBlock h).length { rem := rest', buffer := 0, bits := 0 }
      (some { numberOfSamples := h.samples, sampleRate := h.rate, bitsPerSample := h.bits, channels := h.channels }) enc := by
  obtain ⟨hc, hp, hfd, hs, hdt, hr1, hr2, hb1, hb2, hc1, hc2, hx, hel, _, _⟩ := ok
  have hb : siBlock h ++ rest' = toLE 1 1 ++ (toLE 3 (13 + h.ext.length) ++ (toLE 10 (word h) ++ (h.ext ++ (toLE 3 (crc24 (siPayload h)) ++ rest')))) := by
    simp [siBlock, siPayload]
  obtain ⟨e1, e2, e3⟩ := header_eval 1 (13 + h.ext.length) (by decide) (by omega) (toLE 10 (word h) ++ (h.ext ++ (toLE 3 (crc24 (siPayload h)) ++ rest'))) buf
  have hlen : (siBlock h).length = 4 + (13 + h.ext.length) := by simp [siBlock, siPayload]; omega
  have hpos : p0.length + 4 + (13 + h.ext.length) = (p0 ++ siBlock h).length := by
    simp [hlen]; omega
  have hsi := si_eval (word h) (h.ext ++ (toLE 3 (crc24 (siPayload h)) ++ rest')) 0 (13 + h.ext.length) (by omega)
  have w1 : word h / 2 ^ 14 % 2 ^ 35 = h.samples := by unfold word; omega
  have w2 : word h / 2 ^ 52 % 2 ^ 18 + 6000 = h.rate := by unfold word; omega
  have w3 : word h / 2 ^ 70 % 2 ^ 5 + 8 = h.bits := by unfold word; omega
  have w4 : word h / 2 ^ 75 % 2 ^ 4 + 1 = h.channels := by unfold word; omega
  rw [w1, w2, w3, w4] at hsi
  rw [loop]
  rw [hb, e1]; simp only []
  rw [e2]; simp only []
  rw [e3]; simp only []
  rw [ofLE_toLE 3 _ (by omega), hpos]
  simp only [show ¬ ((1 : Nat) = 0) by decide, if_false, if_true, hsi, Except.map]
  rw [← hb, drop_after p0 (siBlock h) rest' _ rfl]
  simp

/-- the END block -/
theorem loop_end (f rest' : Bytes) (fuel pos buf : Nat) (si : Option StreamInfo) (enc : Option (Nat × Nat × Nat)) :
    loop f fuel pos { rem := [0, 0, 0, 0] ++ rest', buffer := buf, bits := 0 } si enc = .ok (si, enc) := by
  obtain ⟨e1, e2, e3⟩ := header_eval 0 0 (by decide) (by decide) rest' buf
  have hb : ([0, 0, 0, 0] : Bytes) ++ rest' = toLE 1 0 ++ (toLE 3 0 ++ rest') := by simp [toLE]
  rw [loop, hb, e1]; simp only []
  rw [e2]; simp only []
  rw [e3]; simp only []
  simp


theorem length_le_metasBytes (ms : List Meta) : ms.length ≤ (metasBytes ms).length := by
  induction ms with
  | nil => simp
  | cons m ms ih => simp only [metasBytes, List.length_cons, List.length_append, length_meta_bytes]; omega

theorem parse_build (h : Fields) (ok : h.OK) (rest : Bytes) : parse (build h ++ rest) = .ok (expected h) := by
  have ok' := ok
  obtain ⟨hc, hp, hfd, hs, hdt, hr1, hr2, hb1, hb2, hc1, hc2, hx, hel, hpre, hpost⟩ := ok'
  let tail2 : Bytes := [0, 0, 0, 0] ++ rest
  let tail1 : Bytes := siBlock h ++ (metasBytes h.post ++ tail2)
  have hf : build h ++ rest = magic ++ (metasBytes h.pre ++ tail1) := by
    simp [build, magic, tail1, tail2]
  have hsid : readAt (build h ++ rest) 0 4 = magic := by
    rw [hf]; exact readAt_zero_append _ _ _ rfl
  have hdrop : (build h ++ rest).drop 4 = metasBytes h.pre ++ tail1 := by
    rw [hf]; exact List.drop_left' rfl
  have hF : ∃ fuel, (build h ++ rest).length = ((fuel + h.post.length) + 1) + h.pre.length := by
    have h1 := length_le_metasBytes h.pre
    have h2 := length_le_metasBytes h.post
    refine ⟨(build h ++ rest).length - h.post.length - 1 - h.pre.length, ?_⟩
    rw [hf]
    simp only [List.length_append, tail1, tail2, magic, List.length_cons, List.length_nil]
    omega
  obtain ⟨fuel, hF⟩ := hF
  unfold parse
  simp only [hsid, hdrop, hF]
  have hmagic : magic.length = 4 := rfl
  rw [hf]
  -- blocks in front of STREAM_INFO
  have s1 := loop_metas h.pre hpre magic tail1 ((fuel + h.post.length) + 1) 0 none none
  rw [hmagic] at s1
  rw [s1]
  -- STREAM_INFO
  have hre1 : magic ++ (metasBytes h.pre ++ tail1) = (magic ++ metasBytes h.pre) ++ (siBlock h ++ (metasBytes h.post ++ tail2)) := by
    simp [tail1]
  rw [hre1]
  rw [loop_step_si h ok (magic ++ metasBytes h.pre) (metasBytes h.post ++ tail2) (fuel + h.post.length)]
  -- blocks behind it
  have hre2 : (magic ++ metasBytes h.pre) ++ (siBlock h ++ (metasBytes h.post ++ tail2)) =
      ((magic ++ metasBytes h.pre) ++ siBlock h) ++ (metasBytes h.post ++ tail2) := by simp
  rw [hre2]
  rw [loop_metas h.post hpost ((magic ++ metasBytes h.pre) ++ siBlock h) tail2 fuel 0]
  -- END
  rw [loop_end]
  have hr0 : h.rate > 0 := by omega
  simp [expected, hr0, hmagic]


/-! ### totality -/

theorem si_total (rem : Bytes) (buf size : Nat) :
    (∀ e, parseStreamInfo { rem := rem, buffer := buf, bits := 0 } size = .error e → e = .mutagen) ∧
    (∀ si r', parseStreamInfo { rem := rem, buffer := buf, bits := 0 } size = .ok (si, r') → r'.bits = 0) := by
  by_cases hs : size < 11 ∨ size > 23
  · simp [parseStreamInfo, hs, bind, Except.bind, throw, throwThe, MonadExceptOf.throw]
  · rcases rem with _ | ⟨b0, _ | ⟨b1, _ | ⟨b2, _ | ⟨b3, _ | ⟨b4, _ | ⟨b5, _ | ⟨b6, _ | ⟨b7, _ | ⟨b8, _ | ⟨b9, more⟩⟩⟩⟩⟩⟩⟩⟩⟩⟩
    all_goals
      simp [parseStreamInfo, hs, BR.skip, BR.readBits, BR.lsb, feed, bind, Except.bind, Except.map, pure, Except.pure]

theorem enc_total (rem : Bytes) (buf : Nat) :
    (∀ e, parseEncoderInfo { rem := rem, buffer := buf, bits := 0 } = .error e → e = .mutagen) ∧
    (∀ x r', parseEncoderInfo { rem := rem, buffer := buf, bits := 0 } = .ok (x, r') → r'.bits = 0) := by
  rcases rem with _ | ⟨b0, _ | ⟨b1, _ | ⟨b2, more⟩⟩⟩
  all_goals
    simp [parseEncoderInfo, BR.readBits, BR.lsb, feed, bind, Except.bind, Except.map, pure, Except.pure]


theorem loop_total (f : Bytes) : ∀ (fuel pos : Nat) (r : BR) (si : Option StreamInfo) (enc : Option (Nat × Nat × Nat)),
    r.bits = 0 → r.rem = f.drop pos → f.length ≤ fuel + pos →
    ∀ e, loop f fuel pos r si enc = .error e → e = .mutagen := by
  intro fuel
  induction fuel with
  | zero =>
    intro pos r si enc hb hrem hlen e he
    obtain ⟨rem, buf, bits⟩ := r
    simp only at hb hrem
    subst hb
    rw [loop] at he
    rcases rem with _ | ⟨t, _ | ⟨s0, _ | ⟨s1, _ | ⟨s2, more⟩⟩⟩⟩
    · simp [BR.readBits, BR.lsb, feed] at he; exact he.symm
    · simp [BR.readBits, BR.lsb, feed, BR.skip, Except.map, BR.readBytes] at he; exact he.symm
    · simp [BR.readBits, BR.lsb, feed, BR.skip, Except.map, BR.readBytes] at he; exact he.symm
    · simp [BR.readBits, BR.lsb, feed, BR.skip, Except.map, BR.readBytes] at he; exact he.symm
    · have := congrArg List.length hrem
      simp at this; omega
  | succ k ih =>
    intro pos r si enc hb hrem hlen e he
    obtain ⟨rem, buf, bits⟩ := r
    simp only at hb hrem
    subst hb
    rw [loop] at he
    rcases rem with _ | ⟨t, _ | ⟨s0, _ | ⟨s1, _ | ⟨s2, more⟩⟩⟩⟩
    · simp [BR.readBits, BR.lsb, feed] at he; exact he.symm
    · simp [BR.readBits, BR.lsb, feed, BR.skip, Except.map, BR.readBytes] at he; exact he.symm
    · simp [BR.readBits, BR.lsb, feed, BR.skip, Except.map, BR.readBytes] at he; exact he.symm
    · simp [BR.readBits, BR.lsb, feed, BR.skip, Except.map, BR.readBytes] at he; exact he.symm
    · simp [BR.readBits, BR.lsb, feed, BR.skip, Except.map, BR.readBytes] at he
      have hflen : pos + 4 ≤ f.length := by
        have := congrArg List.length hrem
        simp at this; omega
      split at he
      · cases he
      · -- the continuation, common to the three kinds of block
        have cont : ∀ (r : BR) (si' : Option StreamInfo) (enc' : Option (Nat × Nat × Nat)), r.bits = 0 →
            (if r.bits = 0 then
              loop f k (pos + 4 + ofLE [s0, s1, s2])
                { rem := List.drop (pos + 4 + ofLE [s0, s1, s2]) f, buffer := r.buffer, bits := r.bits } si' enc'
             else Except.error PyErr.assertion) = Except.error e → e = .mutagen := by
          intro r si' enc' hb h
          rw [if_pos hb] at h
          exact ih _ _ si' enc' (by simpa using hb) rfl (by omega) e h
        split at he
        · cases he; rename_i heq
          split at heq
          · split at heq
            · cases heq; rename_i h1
              exact (si_total _ _ _).1 _ h1
            · cases heq
          · split at heq
            · split at heq
              · cases heq; rename_i h1
                exact (enc_total _ _).1 _ h1
              · cases heq
            · cases heq
        · rename_i r si' enc' heq
          have hb : r.bits = 0 := by
            split at heq
            · split at heq
              · cases heq
              · rename_i v hv
                cases heq
                exact (si_total _ _ _).2 v.1 v.2 hv
            · split at heq
              · split at heq
                · cases heq
                · rename_i v hv
                  cases heq
                  exact (enc_total _ _).2 v.1 v.2 hv
              · cases heq; rfl
          exact cont r si' enc' hb he


theorem parse_total (f : Bytes) : ∀ e, parse f = .error e → e = .mutagen := by
  intro e he
  unfold parse at he
  simp only at he
  split at he
  · cases he; rfl
  · split at he
    · rename_i e' hl
      cases he
      exact loop_total f f.length 4 _ none none rfl rfl (by omega) _ hl
    · cases he; rfl
    · cases he

end Mutagen.Info.Tak
