/- Proofs/Info/SmfDecode.lean — SMF: `_var_int` on a variable-length quantity, `_read_track` on a well-formed event
list (event by event), `_read_midi_length` on a well-formed file, and the loop over the tempo map against the specification's
stretches of constant tempo. -/
import MutagenModel.Proofs.Info.Smf
import MutagenModel.Spec.Info.Smf
import MutagenModel.Proofs.IntCodec
set_option linter.unusedVariables false
set_option linter.unusedSimpArgs false
set_option linter.unnecessarySimpa false
namespace Mutagen.Info.Smf
open Mutagen Mutagen.Info Mutagen.Spec.Smf

/-! ### the variable-length quantity -/

theorem vlqHigh_zero : vlqHigh 0 = [] := by unfold vlqHigh; simp

theorem vlqHigh_pos (n : Nat) (h : n ≠ 0) : vlqHigh n = vlqHigh (n / 128) ++ [UInt8.ofNat (128 + n % 128)] := by
  rw [vlqHigh]; simp [h]

/-- the bytes with the continuation bit: the value so far is shifted and the loop goes on -/
theorem varIntGo_high : ∀ (m : Nat) (t : Bytes) (val off : Nat),
    val * 128 ^ (vlqHigh m).length + m ≤ 0x0FFFFFFF →
    varIntGo (vlqHigh m ++ t) val off = varIntGo t (val * 128 ^ (vlqHigh m).length + m) (off + (vlqHigh m).length) := by
  intro m
  induction m using Nat.strongRecOn with
  | _ m ih =>
    intro t val off hb
    by_cases h0 : m = 0
    · subst h0; simp [vlqHigh_zero]
    · rw [vlqHigh_pos m h0] at hb ⊢
      simp only [List.length_append, List.length_cons, List.length_nil, Nat.zero_add, Nat.pow_succ] at hb ⊢
      generalize hq : val * 128 ^ (vlqHigh (m / 128)).length = q at hb ⊢
      have hq2 : val * (128 ^ (vlqHigh (m / 128)).length * 128) = q * 128 := by rw [← Nat.mul_assoc, hq]
      rw [hq2] at hb ⊢
      rw [List.append_assoc, ih (m / 128) (by omega) _ val off (by rw [hq]; omega), hq]
      simp only [List.cons_append, List.nil_append, varIntGo]
      have hx : (UInt8.ofNat (128 + m % 128)).toNat = 128 + m % 128 := by
        simp [UInt8.toNat_ofNat']; omega
      rw [hx]
      have e1 : (q + m / 128) * 128 + (128 + m % 128) % 128 = q * 128 + m := by omega
      rw [e1]
      rw [if_neg (by omega), if_neg (by omega)]
      congr 1

/-- `_var_int` reads a variable-length quantity of the specification back, whatever follows it -/
theorem varInt_vlq (n : Nat) (hn : n < 2 ^ 28) (pre rest : Bytes) :
    varInt (pre ++ vlq n ++ rest) pre.length = .ok (n, pre.length + (vlq n).length) := by
  unfold varInt
  rw [List.append_assoc, List.drop_left]
  unfold vlq
  rw [List.append_assoc, varIntGo_high (n / 128) _ 0 pre.length (by omega)]
  simp only [Nat.zero_mul, Nat.zero_add, List.cons_append, List.nil_append, varIntGo]
  have hx : (UInt8.ofNat (n % 128)).toNat = n % 128 := by simp [UInt8.toNat_ofNat']; omega
  rw [hx]
  have e1 : n / 128 * 128 + n % 128 % 128 = n := by omega
  rw [e1, if_neg (by omega), if_pos (by omega)]
  simp only [List.length_append, List.length_cons, List.length_nil]
  congr 2

theorem length_vlq_pos (n : Nat) : 1 ≤ (vlq n).length := by simp [vlq]


/-! ### one event, one round -/

/-- what one event does to the state of `_read_track` -/
def applyEvent (s : TrackState) (e : Event) : TrackState :=
  match e.body with
  | .midi status _ _ running =>
    { s with off := s.off + e.render.length, deltasum := s.deltasum + e.delta, status := if running then s.status else status }
  | .tempo us =>
    { s with off := s.off + e.render.length, deltasum := s.deltasum + e.delta, tempos := s.tempos ++ [(s.deltasum + e.delta, us)] }
  | _ => { s with off := s.off + e.render.length, deltasum := s.deltasum + e.delta }

theorem getD_mid (A B : Bytes) (x : UInt8) : (A ++ x :: B).getD A.length 0 = x := by
  simp [List.getD]

theorem ofNat_toNat (n : Nat) (h : n < 256) : (UInt8.ofNat n).toNat = n := by
  simp [UInt8.toNat_ofNat']; omega

theorem trackStep_event (pre post : Bytes) (e : Event) (prev : Option Nat) (s : TrackState)
    (hoff : s.off = pre.length) (ok : e.OK prev) (hst : ∀ st, prev = some st → s.status = st) :
    trackStep (pre ++ e.render ++ post) s = .ok (applyEvent s e) := by
  obtain ⟨hd, hbody⟩ := ok
  unfold trackStep
  have hv : varInt (pre ++ e.render ++ post) s.off = .ok (e.delta, pre.length + (vlq e.delta).length) := by
    rw [hoff]
    have : pre ++ e.render ++ post = pre ++ vlq e.delta ++ (e.body.render ++ post) := by simp [Event.render, List.append_assoc]
    rw [this]; exact varInt_vlq e.delta hd pre _
  rw [hv]
  simp only
  generalize hA : pre ++ vlq e.delta = A
  have hAl : A.length = pre.length + (vlq e.delta).length := by rw [← hA]; simp
  have hchunk : pre ++ e.render ++ post = A ++ (e.body.render ++ post) := by rw [← hA]; simp [Event.render, List.append_assoc]
  rw [hchunk, ← hAl]
  have hstate : ∀ (x y : TrackState), x.off = y.off → x.deltasum = y.deltasum → x.status = y.status → x.tempos = y.tempos →
      x = y := by
    intro x y h1 h2 h3 h4; cases x; cases y; simp_all
  cases hb : e.body with
  | midi status d1 d2 running =>
    rw [hb] at hbody
    obtain ⟨h80, hF0, hd1, hd2, hrun⟩ := hbody
    have htl : ((optByte d2).length = 1 ∧ status / 16 ≠ 0xC ∧ status / 16 ≠ 0xD) ∨ ((optByte d2).length = 0 ∧ (status / 16 = 0xC ∨ status / 16 = 0xD)) := by
      cases d2 with
      | some x => left; exact ⟨rfl, hd2.2.1, hd2.2.2⟩
      | none => right; exact ⟨rfl, hd2⟩
    cases running with
    | false =>
      have hr : (Body.midi status d1 d2 false).render ++ post = UInt8.ofNat status :: (UInt8.ofNat d1 :: (optByte d2 ++ post)) := by
        simp [Body.render]
      rw [hr, getD_mid, ofNat_toNat status (by omega)]
      rw [if_neg (by simp), if_neg (by omega), if_neg (by omega), if_neg (by omega), if_pos (by omega)]
      congr 1
      apply hstate
      · simp only [applyEvent, hb, Event.render, Body.render, hoff, hAl]
        rcases htl with ⟨h1, h2, h3⟩ | ⟨h1, h2⟩
        · rw [if_neg (by omega)]; simp [h1]; omega
        · rw [if_pos (by omega)]; simp [h1]; omega
      all_goals simp [applyEvent, hb]
    | true =>
      have hs := hst status (hrun rfl)
      have hr : (Body.midi status d1 d2 true).render ++ post = UInt8.ofNat d1 :: (optByte d2 ++ post) := by
        simp [Body.render]
      rw [hr, getD_mid, ofNat_toNat d1 (by omega)]
      rw [if_neg (by simp), if_neg (by omega), if_neg (by omega), if_pos (by omega)]
      congr 1
      apply hstate
      · simp only [applyEvent, hb, Event.render, Body.render, hoff, hAl, hs]
        rcases htl with ⟨h1, h2, h3⟩ | ⟨h1, h2⟩
        · rw [if_neg (by omega)]; simp [h1]; omega
        · rw [if_pos (by omega)]; simp [h1]; omega
      all_goals simp [applyEvent, hb]
  | sysex lead payload =>
    rw [hb] at hbody
    obtain ⟨hlead, hlen⟩ := hbody
    have hr : (Body.sysex lead payload).render ++ post = UInt8.ofNat lead :: (vlq payload.length ++ (payload ++ post)) := by
      simp [Body.render, List.append_assoc]
    have hl256 : lead < 256 := by omega
    rw [hr, getD_mid, ofNat_toNat lead hl256]
    rw [if_neg (by simp), if_neg (by omega), if_pos hlead]
    have hv2 : varInt (A ++ UInt8.ofNat lead :: (vlq payload.length ++ (payload ++ post))) (A.length + 1) =
        .ok (payload.length, A.length + 1 + (vlq payload.length).length) := by
      have := varInt_vlq payload.length hlen (A ++ [UInt8.ofNat lead]) (payload ++ post)
      simpa [List.append_assoc] using this
    rw [hv2]
    simp only
    congr 1
    apply hstate
    · simp only [applyEvent, hb, Event.render, Body.render, hoff, hAl]; simp; omega
    all_goals simp [applyEvent, hb]
  | metaEv type payload =>
    rw [hb] at hbody
    obtain ⟨ht, ht51, hlen⟩ := hbody
    have hr : (Body.metaEv type payload).render ++ post = 0xFF :: (UInt8.ofNat type :: (vlq payload.length ++ (payload ++ post))) := by
      simp [Body.render, List.append_assoc]
    rw [hr, getD_mid]
    rw [if_neg (by simp), if_pos (by decide), if_neg (by simp)]
    have hg : (A ++ 0xFF :: (UInt8.ofNat type :: (vlq payload.length ++ (payload ++ post)))).getD (A.length + 1) 0 = UInt8.ofNat type := by
      have := getD_mid (A ++ [0xFF]) (vlq payload.length ++ (payload ++ post)) (UInt8.ofNat type)
      simpa [List.append_assoc] using this
    rw [hg, ofNat_toNat type (by omega)]
    have hv2 : varInt (A ++ 0xFF :: (UInt8.ofNat type :: (vlq payload.length ++ (payload ++ post)))) (A.length + 1 + 1) =
        .ok (payload.length, A.length + 1 + 1 + (vlq payload.length).length) := by
      have := varInt_vlq payload.length hlen (A ++ [0xFF, UInt8.ofNat type]) (payload ++ post)
      simpa [List.append_assoc] using this
    rw [hv2]
    simp only
    rw [if_neg ht51]
    congr 1
    apply hstate
    · simp only [applyEvent, hb, Event.render, Body.render, hoff, hAl]; simp; omega
    all_goals simp [applyEvent, hb]
  | tempo us =>
    rw [hb] at hbody
    have hr : (Body.tempo us).render ++ post = 0xFF :: (0x51 :: (vlq 3 ++ (toBE 3 us ++ post))) := by
      have : vlq 3 = [0x03] := by simp [vlq, vlqHigh]
      simp [Body.render, this, List.append_assoc]
    rw [hr, getD_mid]
    rw [if_neg (by simp), if_pos (by decide), if_neg (by simp)]
    have hg : (A ++ 0xFF :: (0x51 :: (vlq 3 ++ (toBE 3 us ++ post)))).getD (A.length + 1) 0 = 0x51 := by
      have := getD_mid (A ++ [0xFF]) (vlq 3 ++ (toBE 3 us ++ post)) 0x51
      simpa [List.append_assoc] using this
    rw [hg]
    have hv2 : varInt (A ++ 0xFF :: (0x51 :: (vlq 3 ++ (toBE 3 us ++ post)))) (A.length + 1 + 1) =
        .ok (3, A.length + 1 + 1 + (vlq 3).length) := by
      have := varInt_vlq 3 (by decide) (A ++ [0xFF, 0x51]) (toBE 3 us ++ post)
      simpa [List.append_assoc] using this
    rw [hv2]
    simp only
    rw [if_pos (by decide)]
    have hv3 : (vlq 3).length = 1 := by simp [vlq, vlqHigh]
    have hdata : readAt (A ++ 0xFF :: (0x51 :: (vlq 3 ++ (toBE 3 us ++ post)))) (A.length + 1 + 1 + (vlq 3).length) 3 = toBE 3 us := by
      unfold readAt
      have : A ++ 0xFF :: (0x51 :: (vlq 3 ++ (toBE 3 us ++ post))) = (A ++ [0xFF, 0x51] ++ vlq 3) ++ (toBE 3 us ++ post) := by
        simp [List.append_assoc]
      rw [this, List.drop_left' (by simp; omega), List.take_left' (by simp [toBE])]
    rw [hdata]
    have hl3 : (toBE 3 us).length = 3 := by simp [toBE]
    rw [if_neg (by rw [hl3]; simp), ofBE_toBE 3 us (by simpa using hbody)]
    congr 1
    apply hstate
    · simp only [applyEvent, hb, Event.render, Body.render, hoff, hAl]; simp [hv3, hl3]; omega
    all_goals simp [applyEvent, hb]

theorem length_render_ge (e : Event) : 2 ≤ e.render.length := by
  have h1 : 1 ≤ (vlq e.delta).length := by simp [vlq]
  have h2 : 1 ≤ e.body.render.length := by
    cases e.body with
    | midi st d1 d2 run => simp [Body.render]; omega
    | sysex l p => simp [Body.render]
    | metaEv t p => simp [Body.render]
    | tempo us => simp [Body.render]
  simp [Event.render]; omega

theorem length_renderEvents_ge (evs : List Event) : 2 * evs.length ≤ (renderEvents evs).length := by
  induction evs with
  | nil => simp [renderEvents]
  | cons e r ih => have := length_render_ge e; simp [renderEvents]; omega

theorem applyEvent_off (s : TrackState) (e : Event) : (applyEvent s e).off = s.off + e.render.length := by
  unfold applyEvent; cases e.body <;> rfl

/-- the loop over a well-formed event list: one round per event -/
theorem trackLoop_events : ∀ (evs : List Event) (pre : Bytes) (prev : Option Nat) (s : TrackState) (fuel : Nat),
    s.off = pre.length → eventsOK prev evs → (∀ st, prev = some st → s.status = st) → evs.length ≤ fuel →
    trackLoop (pre ++ renderEvents evs) fuel s = .ok (evs.foldl applyEvent s) := by
  intro evs
  induction evs with
  | nil =>
    intro pre prev s fuel hoff _ _ _
    simp only [renderEvents, List.append_nil, List.foldl_nil]
    cases fuel with
    | zero => simp [trackLoop, hoff]
    | succ n => simp [trackLoop, hoff]
  | cons e r ih =>
    intro pre prev s fuel hoff hok hst hf
    obtain ⟨hok1, hokr⟩ := hok
    cases fuel with
    | zero => simp at hf
    | succ n =>
      have hlt : s.off < (pre ++ renderEvents (e :: r)).length := by
        have := length_render_ge e
        simp [renderEvents, hoff]; omega
      have hstep := trackStep_event pre (renderEvents r) e prev s hoff hok1 hst
      have hc : pre ++ renderEvents (e :: r) = pre ++ e.render ++ renderEvents r := by simp [renderEvents, List.append_assoc]
      simp only [trackLoop, hlt, ↓reduceIte]
      rw [hc, hstep]
      simp only [List.foldl_cons]
      have := ih (pre ++ e.render) (nextPrev prev e) (applyEvent s e) n (by rw [applyEvent_off, hoff]; simp) hokr ?_ (by simp at hf; omega)
      · rw [List.append_assoc] at this ⊢; exact this
      · intro st hn
        unfold nextPrev at hn
        unfold applyEvent
        cases hb : e.body with
        | midi status d1 d2 running =>
          rw [hb] at hn
          simp only at hn
          cases hn
          cases running with
          | false => simp
          | true =>
            have : e.OK prev := hok1
            unfold Event.OK at this
            rw [hb] at this
            simp only
            exact hst st (this.2.2.2.2.2 rfl)
        | sysex l p => rw [hb] at hn; cases hn
        | metaEv t p => rw [hb] at hn; cases hn
        | tempo us => rw [hb] at hn; cases hn

theorem foldl_applyEvent (evs : List Event) : ∀ (s : TrackState),
    (evs.foldl applyEvent s).deltasum = s.deltasum + endTick evs ∧
    (evs.foldl applyEvent s).tempos = s.tempos ++ tempoMapGo evs s.deltasum := by
  induction evs with
  | nil => intro s; simp [endTick, tempoMapGo]
  | cons e r ih =>
    intro s
    simp only [List.foldl_cons]
    obtain ⟨i1, i2⟩ := ih (applyEvent s e)
    rw [i1, i2]
    cases hb : e.body <;> simp [applyEvent, tempoMapGo, endTick, hb] <;> omega

/-- `_read_track` on the events of a well-formed track: where it ends and its tempo changes -/
theorem readTrack_events (evs : List Event) (hok : eventsOK none evs) :
    readTrack (renderEvents evs) = .ok (endTick evs, tempoMap evs) := by
  unfold readTrack
  have := trackLoop_events evs [] none {} ((renderEvents evs).length + 1) rfl hok (fun st h => by cases h)
    (by have := length_renderEvents_ge evs; omega)
  simp only [List.nil_append] at this
  rw [this]
  obtain ⟨h1, h2⟩ := foldl_applyEvent evs {}
  simp only [h1, h2]
  simp [tempoMap]

/-! ### chunks and the file -/

theorem readChunk_chunk (pre post ident data : Bytes) (hi : ident.length = 4) (hd : data.length < 2 ^ 32) :
    readChunk (pre ++ chunk ident data ++ post) pre.length = .ok (ident, data, pre.length + 8 + data.length) := by
  unfold readChunk
  have hfile : pre ++ chunk ident data ++ post = pre ++ ((ident ++ toBE 4 data.length) ++ (data ++ post)) := by
    simp [chunk, List.append_assoc]
  have hl8 : (ident ++ toBE 4 data.length).length = 8 := by simp [hi, toBE]
  have h1 : readAt (pre ++ chunk ident data ++ post) pre.length 8 = ident ++ toBE 4 data.length := by
    unfold readAt; rw [hfile, List.drop_left, List.take_left' hl8]
  rw [h1]
  simp only [hl8, ne_eq, not_true_eq_false, ↓reduceIte]
  have h2 : (ident ++ toBE 4 data.length).drop 4 = toBE 4 data.length := List.drop_left' hi
  have h3 : (ident ++ toBE 4 data.length).take 4 = ident := List.take_left' hi
  rw [h2, h3, ofBE_toBE 4 _ (by simpa using hd)]
  have h4 : readAt (pre ++ chunk ident data ++ post) (pre.length + 8) data.length = data := by
    unfold readAt
    have : pre ++ chunk ident data ++ post = (pre ++ (ident ++ toBE 4 data.length)) ++ (data ++ post) := by
      simp [chunk, List.append_assoc]
    rw [this, List.drop_left' (by simp [hl8]), List.take_left' rfl]
  rw [h4]
  simp

/-- the loop of the code is the specification's list of stretches of constant tempo -/
theorem segsGo_eq (e : Nat) : ∀ (tm : List (Nat × Nat)) (last tempo : Nat), segsGo e tm last tempo = segmentsGo e tm last tempo := by
  intro tm
  induction tm with
  | nil => intro last tempo; rfl
  | cons a r ih => intro last tempo; obtain ⟨s, us⟩ := a; simp [segsGo, segmentsGo, ih]

theorem segs_eq (e : Nat) (tm : List (Nat × Nat)) : segs e tm = segments e tm := segsGo_eq e tm 0 500000

/-- the tempo map that governs the tracks of a format-1 file from here on: `tempo_map` if it is set already, else the
tempo changes of the next track -/
def govern (tm : Option (List (Nat × Nat))) (ts : List (List Event)) : List (Nat × Nat) :=
  match tm with
  | some g => g
  | none => tempoMap (ts.headD [])

theorem tracksLoop_render (format : Nat) : ∀ (ts : List (List Event)) (pre post : Bytes) (tm : Option (List (Nat × Nat))),
    (∀ t ∈ ts, eventsOK none t ∧ (renderEvents t).length < 2 ^ 32) → (format ≠ 1 → tm = none) →
    tracksLoop (pre ++ renderTracks ts ++ post) format ts.length pre.length tm =
      .ok (ts.map fun t => segments (endTick t) (if format = 1 then govern tm ts else tempoMap t)) := by
  intro ts
  induction ts with
  | nil => intro pre post tm _ _; rfl
  | cons t r ih =>
    intro pre post tm hok htm
    obtain ⟨hk1, hk2⟩ := hok t (by simp)
    have hfile : pre ++ renderTracks (t :: r) ++ post =
        pre ++ chunk [0x4D, 0x54, 0x72, 0x6B] (renderEvents t) ++ (renderTracks r ++ post) := by
      simp [renderTracks, List.append_assoc]
    simp only [List.length_cons, tracksLoop]
    rw [hfile, readChunk_chunk pre _ _ _ rfl hk2]
    simp only [ne_eq, not_true_eq_false, ↓reduceIte, readTrack_events t hk1]
    have hfile2 : pre ++ chunk [0x4D, 0x54, 0x72, 0x6B] (renderEvents t) ++ (renderTracks r ++ post) =
        (pre ++ chunk [0x4D, 0x54, 0x72, 0x6B] (renderEvents t)) ++ renderTracks r ++ post := by simp [List.append_assoc]
    have hlen : pre.length + 8 + (renderEvents t).length = (pre ++ chunk [0x4D, 0x54, 0x72, 0x6B] (renderEvents t)).length := by
      simp [chunk, toBE]; omega
    by_cases hf : format = 1
    · subst hf
      cases tm with
      | none =>
        simp only [↓reduceIte]
        rw [hfile2, hlen, ih _ post (some (tempoMap t)) (fun x hx => hok x (by simp [hx])) (fun h => absurd rfl h)]
        simp [segs_eq, govern]
      | some g =>
        simp only [↓reduceIte]
        rw [hfile2, hlen, ih _ post (some g) (fun x hx => hok x (by simp [hx])) (fun h => absurd rfl h)]
        simp [segs_eq, govern]
    · simp only [hf, ↓reduceIte]
      rw [hfile2, hlen, ih _ post _ (fun x hx => hok x (by simp [hx])) (fun _ => htm hf)]
      simp [segs_eq, hf]

/-- `_read_midi_length` on EVERY well-formed file (format 0 / 1, ticks per quarter): what the file encodes -/
theorem parse_build (f : File) (ok : f.OK) : parse f.build = .ok f.expected := by
  obtain ⟨hfmt, hn16, hd1, hd15, htr⟩ := ok
  have hf1 : f.format ≤ 1 := by rcases hfmt with ⟨h, _⟩ | ⟨h, _⟩ <;> omega
  have hne : f.tracks ≠ [] := by
    intro h; rw [h] at hfmt; simp at hfmt
  generalize hhd : toBE 2 f.format ++ toBE 2 f.tracks.length ++ toBE 2 f.division = hd
  have hl6 : hd.length = 6 := by rw [← hhd]; simp [toBE]
  have hbuild : f.build = [] ++ chunk [0x4D, 0x54, 0x68, 0x64] hd ++ renderTracks f.tracks := by
    simp [File.build, hhd]
  unfold parse
  have hrc := readChunk_chunk [] (renderTracks f.tracks) [0x4D, 0x54, 0x68, 0x64] hd rfl (by rw [hl6]; decide)
  simp only [List.length_nil] at hrc
  rw [hbuild, hrc]
  simp only [ne_eq, not_true_eq_false, ↓reduceIte, hl6]
  have e1 : ofBE (hd.take 2) = f.format := by
    rw [← hhd, List.append_assoc, List.take_left' (by simp [toBE])]; exact ofBE_toBE 2 _ (by omega)
  have e2 : ofBE ((hd.drop 2).take 2) = f.tracks.length := by
    rw [← hhd, List.append_assoc, List.drop_left' (by simp [toBE]), List.take_left' (by simp [toBE])]
    exact ofBE_toBE 2 _ (by simpa using hn16)
  have e3 : ofBE (hd.drop 4) = f.division := by
    rw [← hhd, List.drop_left' (by simp [toBE])]; exact ofBE_toBE 2 _ (by omega)
  rw [e1, e2, e3]
  rw [if_neg (by omega), if_neg (by simp; omega), if_neg (by omega)]
  have hpos : 0 + 8 + 6 = ([] ++ chunk [0x4D, 0x54, 0x68, 0x64] hd).length := by
    simp [chunk, toBE, hl6]
  have := tracksLoop_render f.format f.tracks ([] ++ chunk [0x4D, 0x54, 0x68, 0x64] hd) [] none htr (fun _ => rfl)
  rw [List.append_nil] at this
  rw [hpos, this]
  simp only
  have hemp : (f.tracks.map fun t => segments (endTick t) (if f.format = 1 then govern none f.tracks else tempoMap t)).isEmpty = false := by
    cases hts : f.tracks with
    | nil => exact absurd hts hne
    | cons t r => simp
  rw [hemp]
  simp only [Bool.false_eq_true, ↓reduceIte, File.expected, File.tempoMapFor, govern]

end Mutagen.Info.Smf
