/- Proofs/Info/MpegTotal.lean — `MPEGInfo` on every byte string: a value or HeaderNotFoundError -/
import MutagenModel.Model.Info.MpegInfo
import MutagenModel.Props.C05
set_option linter.unusedVariables false
set_option linter.unusedSimpArgs false
namespace Mutagen.Info.Mp3
open Mutagen Mutagen.Info Mutagen.Mpeg

theorem readBits_lt (n : Nat) (bs : List Bool) (v : Nat) (r : List Bool) (h : readBits n bs = some (v, r)) : v < 2 ^ n := by
  unfold readBits at h
  split at h
  · cases h
  · rename_i hl
    cases h
    have := bitsToNat_lt (bs.take n)
    rw [List.length_take, Nat.min_eq_left (by omega)] at this
    exact this

def allLt : List Nat → List Nat → Prop
  | [], [] => True
  | v :: vs, w :: ws => v < 2 ^ w ∧ allLt vs ws
  | _, _ => False

theorem readFields_lt : ∀ (ws : List Nat) (bs : List Bool) (vs : List Nat) (r : List Bool),
    readFields ws bs = some (vs, r) → allLt vs ws
  | [], bs, vs, r, h => by simp only [readFields, Option.some.injEq, Prod.mk.injEq] at h; rw [← h.1]; exact trivial
  | w :: ws, bs, vs, r, h => by
    unfold readFields at h
    split at h
    · cases h
    · rename_i v rest hv
      split at h
      · cases h
      · rename_i vs' rest' hvs
        cases h
        exact ⟨readBits_lt _ _ _ _ hv, readFields_lt ws _ _ _ hvs⟩

/-- the only exception of `MPEGFrame`'s header decoding is HeaderNotFoundError -/
theorem decodeHeader_clean (b : Bytes) (e : PyErr) (h : decodeHeader b = .error e) : e = .mutagen := by
  unfold decodeHeader at h
  split at h
  · rename_i sync version layer protection bitrate sampleRate padding priv mode rest tl hrf
    split at h
    · cases h; rfl
    · have hb := readFields_lt _ _ _ _ hrf
      simp only [allLt] at hb
      obtain ⟨_, b1, b2, b3, b4, b5, b6, _, b8, _⟩ := hb
      rw [C05.ofFields_iso _ _ _ _ _ _ _ b1 b2 b3 b4 b5 b6 b8] at h
      unfold C05.isoMeaning at h
      split at h
      · cases h; rfl
      · cases h
  · cases h; rfl

theorem mpegFrame_ok (f : Bytes) (pos : Nat) : ∃ r, mpegFrame f pos = .ok r := by
  unfold mpegFrame
  split
  · exact ⟨_, rfl⟩
  · rename_i e hne he
    exact absurd (decodeHeader_clean _ _ he) (by intro h; subst h; exact hne rfl)
  · exact ⟨_, rfl⟩

theorem takeFrames_ok (f : Bytes) (n pos : Nat) : ∃ r, takeFrames f n pos = .ok r := by
  induction n generalizing pos with
  | zero => exact ⟨_, rfl⟩
  | succ k ih =>
    unfold takeFrames
    obtain ⟨r, hr⟩ := mpegFrame_ok f pos
    rw [hr]
    cases r with
    | none => exact ⟨_, rfl⟩
    | some x =>
      obtain ⟨fr, next⟩ := x
      simp only []
      split
      · exact ⟨_, rfl⟩
      · obtain ⟨r', hr'⟩ := ih next
        rw [hr']; exact ⟨_, rfl⟩

theorem syncLoop_ok (f : Bytes) (l : List Nat) (budget : Nat) (saved : Option Frame) : ∃ r, syncLoop f l budget saved = .ok r := by
  induction l generalizing budget saved with
  | nil => exact ⟨_, rfl⟩
  | cons o rest ih =>
    unfold syncLoop
    split
    · exact ⟨_, rfl⟩
    · obtain ⟨fr, hfr⟩ := takeFrames_ok f 4 o
      rw [hfr]
      simp only []
      split
      · split
        · exact ⟨_, rfl⟩
        · split
          · exact ⟨_, rfl⟩
          · exact ih _ _
      · exact ih _ _

/-- `MPEGInfo(fileobj, offset)` on every byte string and from every offset: a value or
HeaderNotFoundError("can't sync to MPEG frame") -/
theorem parseFrom_clean (f : Bytes) (off : Nat) (e : PyErr) (h : parseFrom f off = .error e) : e = .mutagen := by
  unfold parseFrom at h
  simp only [] at h
  obtain ⟨r, hr⟩ := syncLoop_ok f (syncScan f (skipId3 f (f.length + 1) off) (1024 * 1024)) 1500 none
  rw [hr] at h
  obtain ⟨fr, sk⟩ := r
  cases fr with
  | none => cases h; rfl
  | some x => cases h

/-- `MPEGInfo(fileobj)` on every byte string -/
theorem parse_clean (f : Bytes) (e : PyErr) (h : parse f = .error e) : e = .mutagen := parseFrom_clean f 0 e h

end Mutagen.Info.Mp3
