/- Proofs/Info/Adif.lean — the ADIF header and its program config elements built from the specification, read back -/
import MutagenModel.Proofs.Info.BitCursor
set_option linter.unusedVariables false
set_option linter.unusedSimpArgs false
namespace Mutagen.Info.Aac
open Mutagen Mutagen.Info Mutagen.Spec.Aac

theorem At_pos {f : Bytes} {s p p' : Nat} {rest : List Bool} (h : At f ⟨s, p⟩ rest) (hp : p = p') : At f ⟨s, p'⟩ rest := hp ▸ h

/-- `x = r.bits(1); if x == 1: r.skip(w)` over an optional field -/
theorem optField_at (f : Bytes) (r : R) (w : Nat) (o : Option Nat) (rest : List Bool) (ho : optFieldOK w o) (hw : 0 < w)
    (h : At f r (optField w o ++ rest)) :
    ∃ fl, r.bits f 1 = some (fl, ⟨r.start, r.pos + 1⟩) ∧
      R.skipIf f ⟨r.start, r.pos + 1⟩ (decide (fl = 1)) w = some ⟨r.start, r.pos + (optField w o).length⟩ ∧
      (fl = 0 ∨ fl = 1) ∧ At f ⟨r.start, r.pos + (optField w o).length⟩ rest := by
  cases o with
  | none =>
    simp only [optField] at h ⊢
    obtain ⟨e1, a1⟩ := bits_at f r 1 0 rest h (by decide) (by decide)
    exact ⟨0, e1, by simp [R.skipIf], Or.inl rfl, by simpa using a1⟩
  | some v =>
    simp only [optField, List.append_assoc] at h ⊢
    obtain ⟨e1, a1⟩ := bits_at f r 1 1 _ h (by decide) (by decide)
    obtain ⟨e2, a2⟩ := skip_at' f _ w (natToBits w v) rest a1 (by simp)
    refine ⟨1, e1, ?_, Or.inr rfl, ?_⟩
    · simp only [R.skipIf, decide_true, if_true, e2, List.length_append, length_natToBits, Nat.add_assoc]
    · simp only [List.length_append, length_natToBits]
      dsimp only at a2
      exact At_pos a2 (by omega)

theorem length_elemBits (es : List Elem) : (elemBits es).length = 5 * es.length := by
  induction es with
  | nil => rfl
  | cons e es ih => simp only [elemBits, List.length_append, length_natToBits, ih, List.length_cons]; omega

theorem length_tagBits (ts : List Nat) : (tagBits ts).length = 4 * ts.length := by
  induction ts with
  | nil => rfl
  | cons e es ih => simp only [tagBits, List.length_append, length_natToBits, ih, List.length_cons]; omega

theorem length_ccBits (cs : List (Nat × Nat)) : (ccBits cs).length = 5 * cs.length := by
  induction cs with
  | nil => rfl
  | cons e es ih => simp only [ccBits, List.length_append, length_natToBits, ih, List.length_cons]; omega

theorem elms_at (f : Bytes) (es : List Elem) : (∀ e ∈ es, e.isCpe < 2 ∧ e.tag < 2 ^ 4) → ∀ (r : R) (ch : Nat) (rest : List Bool),
    At f r (elemBits es ++ rest) →
    elmsLoop f es.length r ch = some (ch + (es.map fun e => 1 + e.isCpe).sum, ⟨r.start, r.pos + 5 * es.length⟩) ∧
      At f ⟨r.start, r.pos + 5 * es.length⟩ rest := by
  induction es with
  | nil => intro _ r ch rest h; simp only [elemBits, List.nil_append] at h; simpa [elmsLoop] using h
  | cons e es ih =>
    intro hok r ch rest h
    obtain ⟨hc, ht⟩ := hok e List.mem_cons_self
    simp only [elemBits, List.append_assoc] at h
    obtain ⟨e1, a1⟩ := bits_at f r 1 e.isCpe _ h (by decide) (by omega)
    obtain ⟨e2, a2⟩ := skip_at' f _ 4 (natToBits 4 e.tag) _ a1 (by simp)
    obtain ⟨e3, a3⟩ := ih (fun x hx => hok x (List.mem_cons_of_mem _ hx)) _ (ch + 1 + (if e.isCpe ≠ 0 then 1 else 0)) rest a2
    simp only [List.length_cons, elmsLoop, e1, e2, e3, List.map_cons, List.sum_cons]
    have hcpe : (if e.isCpe ≠ 0 then 1 else 0) = e.isCpe := by split <;> omega
    rw [hcpe]
    dsimp only at a3 ⊢
    have hsum : ch + 1 + e.isCpe + (es.map fun e => 1 + e.isCpe).sum = ch + (1 + e.isCpe + (es.map fun e => 1 + e.isCpe).sum) := by omega
    rw [hsum, show r.pos + 1 + 4 + 5 * es.length = r.pos + 5 * (es.length + 1) by omega]
    exact ⟨rfl, At_pos a3 (by omega)⟩

theorem align_at (f : Bytes) (r : R) (rest : List Bool) (h : At f r (alignPad r.pos ++ rest)) :
    r.align = ⟨r.start, r.pos + (alignPad r.pos).length⟩ ∧ At f ⟨r.start, r.pos + (alignPad r.pos).length⟩ rest := by
  refine ⟨?_, (skip_at f r _ rest h).2⟩
  simp only [R.align, alignPad, List.length_replicate]
  congr 1; omega


theorem pce_at (f : Bytes) (r : R) (p : Pce) (ok : p.OK) (rest : List Bool) (h : At f r (p.bits r.pos ++ rest)) :
    parsePce f r = some (p.sfIndex, p.channels, ⟨r.start, r.pos + (p.bits r.pos).length⟩) ∧
      At f ⟨r.start, r.pos + (p.bits r.pos).length⟩ rest := by
  obtain ⟨htag, hot, hsf, hfr, hsi, hba, hlf, has, hcc, hel, hlfe, hass, hccs, hmo, hst, hma, hcom⟩ := ok
  unfold Pce.bits at h
  generalize hpad : alignPad (r.pos + p.fixedBits.length) = pad at h
  simp only [Pce.fixedBits, List.append_assoc] at h
  obtain ⟨e1, a1⟩ := bits_at f r 4 p.tag _ h (by decide) htag
  obtain ⟨e2, a2⟩ := bits_at f _ 2 p.objectType _ a1 (by decide) hot
  obtain ⟨e3, a3⟩ := bits_at f _ 4 p.sfIndex _ a2 (by decide) (by omega)
  obtain ⟨e4, a4⟩ := bits_at f _ 4 p.front.length _ a3 (by decide) hfr
  obtain ⟨e5, a5⟩ := bits_at f _ 4 p.side.length _ a4 (by decide) hsi
  obtain ⟨e6, a6⟩ := bits_at f _ 4 p.back.length _ a5 (by decide) hba
  obtain ⟨e7, a7⟩ := bits_at f _ 2 p.lfe.length _ a6 (by decide) hlf
  obtain ⟨e8, a8⟩ := bits_at f _ 3 p.assoc.length _ a7 (by decide) has
  obtain ⟨e9, a9⟩ := bits_at f _ 4 p.cc.length _ a8 (by decide) hcc
  obtain ⟨m1, e10, e11, _, a11⟩ := optField_at f _ 4 p.monoMixdown _ hmo (by decide) a9
  obtain ⟨m2, e12, e13, _, a13⟩ := optField_at f _ 4 p.stereoMixdown _ hst (by decide) a11
  obtain ⟨m3, e14, e15, _, a15⟩ := optField_at f _ 3 p.matrixMixdown _ hma (by decide) a13
  obtain ⟨e16, a16⟩ := elms_at f p.elems hel _ 0 _ a15
  obtain ⟨e17, a17⟩ := skip_at' f _ (4 * p.lfe.length) (tagBits p.lfe) _ a16 (length_tagBits _)
  obtain ⟨e18, a18⟩ := skip_at' f _ (4 * p.assoc.length) (tagBits p.assoc) _ a17 (length_tagBits _)
  obtain ⟨e19, a19⟩ := skip_at' f _ (5 * p.cc.length) (ccBits p.cc) _ a18 (length_ccBits _)
  dsimp only at e10 e11 e12 e13 e14 e15 e16 e17 e18 e19 a19
  have hfix : p.fixedBits.length = 4 + 2 + 4 + 4 + 4 + 4 + 2 + 3 + 4 + (optField 4 p.monoMixdown).length + (optField 4 p.stereoMixdown).length +
      (optField 3 p.matrixMixdown).length + 5 * p.elems.length + 4 * p.lfe.length + 4 * p.assoc.length + 5 * p.cc.length := by
    simp only [Pce.fixedBits, List.length_append, length_natToBits, length_elemBits, length_tagBits, length_ccBits, Nat.add_assoc]
  rw [← hpad] at a19
  have hposA : r.pos + 4 + 2 + 4 + 4 + 4 + 4 + 2 + 3 + 4 + (optField 4 p.monoMixdown).length + (optField 4 p.stereoMixdown).length +
      (optField 3 p.matrixMixdown).length + 5 * p.elems.length + 4 * p.lfe.length + 4 * p.assoc.length + 5 * p.cc.length =
      r.pos + p.fixedBits.length := by omega
  have a19' : At f ⟨r.start, r.pos + p.fixedBits.length⟩ (alignPad (r.pos + p.fixedBits.length) ++
      (natToBits 8 p.comment.length ++ (bytesToBits p.comment ++ rest))) := At_pos a19 hposA
  obtain ⟨e20, a20⟩ := align_at f ⟨r.start, r.pos + p.fixedBits.length⟩ _ a19'
  obtain ⟨e21, a21⟩ := bits_at f _ 8 p.comment.length _ a20 (by decide) hcom
  obtain ⟨e22, a22⟩ := skip_at' f _ (8 * p.comment.length) (bytesToBits p.comment) rest a21 (length_bytesToBits _)
  dsimp only at e20 e21 e22 a22
  have hel3 : p.front.length + p.side.length + p.back.length = p.elems.length := by simp [Pce.elems]; omega
  simp only [parsePce, bind, Option.bind, pure, e1, e2, e3, e4, e5, e6, e7, e8, e9, e10, e11, e12, e13, e14, e15, hel3, e16, e17, e18, e19,
    hposA, e20, e21, e22, Nat.zero_add, Pce.channels]
  have hlen : (p.bits r.pos).length = p.fixedBits.length + (alignPad (r.pos + p.fixedBits.length)).length + 8 + 8 * p.comment.length := by
    simp only [Pce.bits, List.length_append, length_natToBits, length_bytesToBits]; omega
  rw [hlen]
  exact ⟨by congr 4; omega, At_pos a22 (by omega)⟩


theorem more_at (f : Bytes) (bt : Nat) (xs : List (Nat × Pce)) : (bt = 1 ∨ xs = []) → (∀ x ∈ xs, x.1 < 2 ^ 20 ∧ x.2.OK) →
    ∀ (r : R) (rest : List Bool), At f r (morePceBits bt r.pos xs ++ rest) →
    pceLoop f xs.length r = some ⟨r.start, r.pos + (morePceBits bt r.pos xs).length⟩ ∧
      At f ⟨r.start, r.pos + (morePceBits bt r.pos xs).length⟩ rest := by
  induction xs with
  | nil => intro _ _ r rest h; simpa [morePceBits, pceLoop] using h
  | cons x xs ih =>
    intro hbt hok r rest h
    have hb1 : bt = 1 := by rcases hbt with hb | hb; exact hb; cases hb
    subst hb1
    have hx := (hok x List.mem_cons_self).2
    simp only [morePceBits, fullnessBits, Nat.one_ne_zero, if_false, List.nil_append, List.length_nil, Nat.add_zero, List.append_assoc] at h ⊢
    obtain ⟨e1, a1⟩ := pce_at f r x.2 hx _ h
    obtain ⟨e2, a2⟩ := ih (Or.inl rfl) (fun y hy => hok y (List.mem_cons_of_mem _ hy)) _ rest a1
    dsimp only at e2 a2
    simp only [List.length_cons, pceLoop, e1, e2, List.length_append]
    exact ⟨by congr 2; omega, At_pos a2 (by omega)⟩

theorem headBits_at (f : Bytes) (r : R) (h : Adif) (ok : h.OK) (rest : List Bool) (ha : At f r (h.headBits ++ rest)) :
    ∃ cp, r.bits f 1 = some (cp, ⟨r.start, r.pos + 1⟩) ∧
      R.skipIf f ⟨r.start, r.pos + 1⟩ (decide (cp ≠ 0)) 72 = some ⟨r.start, r.pos + (optField 72 h.copyrightId).length⟩ ∧
      R.skip f ⟨r.start, r.pos + (optField 72 h.copyrightId).length⟩ 2 = some ⟨r.start, r.pos + (optField 72 h.copyrightId).length + 2⟩ ∧
      R.bits f ⟨r.start, r.pos + (optField 72 h.copyrightId).length + 2⟩ 1 = some (h.bitstreamType, ⟨r.start, r.pos + (optField 72 h.copyrightId).length + 2 + 1⟩) ∧
      R.bits f ⟨r.start, r.pos + (optField 72 h.copyrightId).length + 2 + 1⟩ 23 = some (h.bitrate, ⟨r.start, r.pos + (optField 72 h.copyrightId).length + 2 + 1 + 23⟩) ∧
      R.bits f ⟨r.start, r.pos + (optField 72 h.copyrightId).length + 2 + 1 + 23⟩ 4 = some (h.more.length, ⟨r.start, r.pos + (optField 72 h.copyrightId).length + 2 + 1 + 23 + 4⟩) ∧
      R.skipIf f ⟨r.start, r.pos + (optField 72 h.copyrightId).length + 2 + 1 + 23 + 4⟩ (decide (h.bitstreamType = 0)) 20 =
        some ⟨r.start, r.pos + h.headBits.length⟩ ∧
      At f ⟨r.start, r.pos + h.headBits.length⟩ rest := by
  obtain ⟨hcp, hoc, hho, hbt, hbr, hff, _, hml, _⟩ := ok
  simp only [Adif.headBits, List.append_assoc] at ha
  have hc : ∃ cp, r.bits f 1 = some (cp, ⟨r.start, r.pos + 1⟩) ∧
      R.skipIf f ⟨r.start, r.pos + 1⟩ (decide (cp ≠ 0)) 72 = some ⟨r.start, r.pos + (optField 72 h.copyrightId).length⟩ ∧
      At f ⟨r.start, r.pos + (optField 72 h.copyrightId).length⟩ (natToBits 1 h.originalCopy ++ (natToBits 1 h.home ++ (natToBits 1 h.bitstreamType ++
        (natToBits 23 h.bitrate ++ (natToBits 4 h.more.length ++ (fullnessBits h.bitstreamType h.firstFullness ++ rest)))))) := by
    cases hcv : h.copyrightId with
    | none =>
      simp only [hcv, optField] at ha ⊢
      obtain ⟨e1, a1⟩ := bits_at f r 1 0 _ ha (by decide) (by decide)
      exact ⟨0, e1, by simp [R.skipIf], by simpa using a1⟩
    | some v =>
      rw [hcv] at hcp
      simp only [hcv, optField, List.append_assoc] at ha ⊢
      obtain ⟨e1, a1⟩ := bits_at f r 1 1 _ ha (by decide) (by decide)
      obtain ⟨e2, a2⟩ := skip_at' f _ 72 (natToBits 72 v) _ a1 (by simp)
      dsimp only at e2 a2
      refine ⟨1, e1, ?_, ?_⟩
      · simp only [R.skipIf, ne_eq, Nat.one_ne_zero, not_false_eq_true, decide_true, if_true, e2, List.length_append, length_natToBits, Nat.add_assoc]
      · simp only [List.length_append, length_natToBits]
        exact At_pos a2 (by omega)
  obtain ⟨cp, e1, e2, a2⟩ := hc
  have a2' : At f ⟨r.start, r.pos + (optField 72 h.copyrightId).length⟩ ((natToBits 1 h.originalCopy ++ natToBits 1 h.home) ++ (natToBits 1 h.bitstreamType ++
        (natToBits 23 h.bitrate ++ (natToBits 4 h.more.length ++ (fullnessBits h.bitstreamType h.firstFullness ++ rest))))) := by
    simpa using a2
  obtain ⟨e3, a3⟩ := skip_at' f _ 2 _ _ a2' (by simp)
  obtain ⟨e4, a4⟩ := bits_at f _ 1 h.bitstreamType _ a3 (by decide) (by omega)
  obtain ⟨e5, a5⟩ := bits_at f _ 23 h.bitrate _ a4 (by decide) hbr
  obtain ⟨e6, a6⟩ := bits_at f _ 4 h.more.length _ a5 (by decide) hml
  dsimp only at e3 e4 e5 e6 a6
  have hlen : h.headBits.length = (optField 72 h.copyrightId).length + 2 + 1 + 23 + 4 + (fullnessBits h.bitstreamType h.firstFullness).length := by
    simp only [Adif.headBits, List.length_append, length_natToBits]; omega
  refine ⟨cp, e1, e2, e3, e4, e5, e6, ?_, ?_⟩
  · by_cases hb0 : h.bitstreamType = 0
    · simp only [hb0, fullnessBits, if_true] at a6 hlen ⊢
      obtain ⟨e7, a7⟩ := skip_at' f _ 20 (natToBits 20 h.firstFullness) _ a6 (by simp)
      simp only [R.skipIf, decide_true, if_true, e7, hlen, length_natToBits]
      congr 2
    · simp only [hb0, fullnessBits, if_false, List.length_nil, Nat.add_zero] at hlen ⊢
      simp only [R.skipIf, decide_false, Bool.false_eq_true, if_false, hlen]
      congr 2
  · by_cases hb0 : h.bitstreamType = 0
    · simp only [hb0, fullnessBits, if_true] at a6 hlen ⊢
      obtain ⟨e7, a7⟩ := skip_at' f _ 20 (natToBits 20 h.firstFullness) _ a6 (by simp)
      dsimp only at a7
      simp only [length_natToBits] at hlen
      exact At_pos a7 (by omega)
    · simp only [hb0, fullnessBits, if_false, List.length_nil, Nat.add_zero, List.nil_append] at a6 hlen ⊢
      exact At_pos a6 (by omega)


theorem alignPad_dvd (bits : List Bool) : 8 ∣ (bits ++ alignPad bits.length).length := by
  simp only [List.length_append, alignPad, List.length_replicate]; omega

theorem at_prefix (pre : Bytes) (bits : List Bool) (payload : Bytes) :
    At (pre ++ (bitsToBytes (bits ++ alignPad bits.length) ++ payload)) ⟨pre.length, 0⟩ (bits ++ (alignPad bits.length ++ bytesToBits payload)) := by
  constructor
  · show (bytesToBits _).drop (8 * pre.length + 0) = _
    rw [bytesToBits_append, bytesToBits_append, bytesToBits_bitsToBytes _ (alignPad_dvd bits), Nat.add_zero,
      List.drop_append_of_le_length (by rw [length_bytesToBits]; omega), List.drop_of_length_le (by rw [length_bytesToBits]; omega),
      List.nil_append, List.append_assoc]
  · show 8 * pre.length + 0 ≤ 8 * _
    simp only [List.length_append]; omega

theorem parse_adif (h : Adif) (ok : h.OK) (hyp : h.bitstreamType = 1 ∨ h.more = []) : parse h.build = .ok h.expected := by
  have ok' := ok
  obtain ⟨hcp, hoc, hho, hbt, hbr, hff, hfirst, hml, hmore⟩ := ok'
  have hat := at_prefix [0x41, 0x44, 0x49, 0x46] h.bits h.payload
  generalize hf : ([0x41, 0x44, 0x49, 0x46] ++ (bitsToBytes (h.bits ++ alignPad h.bits.length) ++ h.payload) : Bytes) = f at hat
  have hbuild : h.build = f := by rw [← hf]; rfl
  have hlenf : f.length = 4 + (h.bits.length + 7) / 8 + h.payload.length := by
    rw [← hf]
    simp only [List.length_append, List.length_cons, List.length_nil, length_bitsToBytes, alignPad, List.length_replicate]
    omega
  -- the three parts of the header
  let b1 := h.headBits ++ h.first.bits h.headBits.length
  have hbits : h.bits = h.headBits ++ (h.first.bits h.headBits.length ++ morePceBits h.bitstreamType b1.length h.more) := by
    simp [Adif.bits, b1]
  generalize hpd : alignPad h.bits.length = pd at hat
  have hat1 : At f ⟨4, 0⟩ (h.headBits ++ (h.first.bits h.headBits.length ++ (morePceBits h.bitstreamType b1.length h.more ++
      (pd ++ bytesToBits h.payload)))) := by
    have := hat
    rw [hbits] at this
    simpa [List.append_assoc] using this
  obtain ⟨cp, e1, e2, e3, e4, e5, e6, e7, a7⟩ := headBits_at f ⟨4, 0⟩ h ok _ hat1
  simp only [Nat.zero_add] at e1 e2 e3 e4 e5 e6 e7 a7
  have a7' : At f ⟨4, h.headBits.length⟩ (h.first.bits (⟨4, h.headBits.length⟩ : R).pos ++ (morePceBits h.bitstreamType b1.length h.more ++
      (pd ++ bytesToBits h.payload))) := a7
  obtain ⟨e8, a8⟩ := pce_at f ⟨4, h.headBits.length⟩ h.first hfirst _ a7'
  dsimp only at e8 a8
  have hb1 : h.headBits.length + (h.first.bits h.headBits.length).length = b1.length := by simp [b1]
  rw [hb1] at e8 a8
  have a8' : At f ⟨4, b1.length⟩ (morePceBits h.bitstreamType (⟨4, b1.length⟩ : R).pos h.more ++ (pd ++ bytesToBits h.payload)) := a8
  obtain ⟨e9, a9⟩ := more_at f h.bitstreamType h.more hyp hmore ⟨4, b1.length⟩ _ a8'
  dsimp only at e9 a9
  have htot : b1.length + (morePceBits h.bitstreamType b1.length h.more).length = h.bits.length := by
    rw [hbits]; simp [b1]; omega
  rw [htot] at e9
  -- the file starts with "ADIF"
  have hnid : startsWith (readAt f 0 10) magicID3 = false := by
    rw [← hf]; simp [startsWith, readAt, magicID3]
  have hadif : readAt f 0 4 = magicADIF := by
    rw [← hf]; exact readAt_zero_append _ _ _ rfl
  obtain ⟨hrow, _⟩ := freqs_rows h.first.sfIndex hfirst.2.2.1
  rw [hbuild]
  unfold parse
  simp only [hnid, Bool.false_eq_true, if_false, hadif, if_true, parseAdif, adifHeader, bind, Option.bind, pure, e1, e2, e3, e4, e5, e6, e7,
    e8, e9, R.align, hrow, Option.getD_some, Adif.expected]
  have hstart : ((f.length : Int) - ((0 + 4 + (h.bits.length + 7) / 8 * 8 / 8 : Nat) : Int)) = (h.payload.length : Int) := by
    omega
  simp only [hstart]

end Mutagen.Info.Aac
