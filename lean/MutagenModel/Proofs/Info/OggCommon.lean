/- Proofs/Info/OggCommon.lean — page reading, header search and `find_last`: on well-formed input, and
the exception classes on every input -/
import MutagenModel.Model.Info.OggCommon
import MutagenModel.Proofs.OggParse
import MutagenModel.Spec.Info.OggStream
set_option linter.unusedVariables false
set_option linter.unusedSimpArgs false
namespace Mutagen.Info.OggC
open Mutagen Mutagen.Ogg Mutagen.Info Mutagen.Spec.OggS

/-! ### every page read consumes at least 27 bytes -/

theorem splitLens_length (lens : List Nat) (d : Bytes) (ps : List Bytes) (rest : Bytes)
    (h : splitLens lens d = some (ps, rest)) : rest.length ≤ d.length := by
  induction lens generalizing d ps with
  | nil => simp [splitLens] at h; rw [← h.2]; exact Nat.le_refl _
  | cons n r ih =>
    unfold splitLens at h
    split at h
    · cases h
    · split at h
      · cases h
      · rename_i ps' rest' he
        cases h
        have := ih _ _ he
        simp only [List.length_drop] at this; omega

theorem parse_shorter (d : Bytes) (p : Page) (rest : Bytes) (h : parse d = .ok (p, rest)) :
    rest.length + 27 ≤ d.length := by
  unfold parse at h
  split at h
  · cases h
  · split at h
    · cases h
    · rename_i h27
      simp only [] at h
      split at h
      · cases h
      · split at h
        · cases h
        · split at h
          · cases h
          · split at h
            · cases h
            · rename_i ps rest' he
              cases h
              have := splitLens_length _ _ _ _ he
              simp only [List.length_drop] at this; omega

theorem nextPage_shorter (d : Bytes) (p : Page) (rest : Bytes) (h : nextPage d = .ok (p, rest)) :
    rest.length + 27 ≤ d.length := by
  unfold nextPage at h
  split at h
  · rename_i r hr; cases h; exact parse_shorter d p rest hr
  · cases h
  · cases h

theorem nextPage_classes (d : Bytes) (e : PyErr) (h : nextPage d = .error e) : e = .mutagen ∨ e = .eof := by
  unfold nextPage at h
  split at h
  · cases h
  · cases h; exact .inr rfl
  · cases h; exact .inl rfl

theorem findLoop_classes (magic : Bytes) (fuel : Nat) (p : Page) (d : Bytes) (hf : d.length < fuel * 27) (e : PyErr)
    (h : findLoop magic fuel p d = .error e) : e = .mutagen ∨ e = .eof := by
  induction fuel generalizing p d with
  | zero => omega
  | succ k ih =>
    unfold findLoop at h
    split at h
    · cases h
    · split at h
      · rename_i e' he; cases h; exact nextPage_classes d _ he
      · rename_i q rest hq
        have := nextPage_shorter d q rest hq
        exact ih q rest (by omega) h

theorem findHeader_classes (magic : Bytes) (f : Bytes) (e : PyErr) (h : findHeader magic f = .error e) :
    e = .mutagen ∨ e = .eof := by
  unfold findHeader at h
  split at h
  · rename_i e' he; cases h; exact nextPage_classes f _ he
  · rename_i p rest hp
    have := nextPage_shorter f p rest hp
    exact findLoop_classes magic f.length p rest (by omega) e h

theorem slowLast_ok (serial : Nat) (fuel : Nat) (d : Bytes) (best : Option Page) (hf : d.length < (fuel + 1) * 27) :
    ∃ r, slowLast serial fuel d best = .ok r := by
  induction fuel generalizing d best with
  | zero =>
    unfold slowLast
    split
    · exact ⟨_, rfl⟩
    · rename_i r hr
      obtain ⟨p, rest⟩ := r
      have := parse_shorter d p rest hr
      omega
  | succ k ih =>
    unfold slowLast
    split
    · exact ⟨_, rfl⟩
    · rename_i p rest hr
      have := parse_shorter d p rest hr
      simp only []
      split
      · split
        · exact ⟨_, rfl⟩
        · exact ih rest _ (by omega)
      · exact ih rest _ (by omega)

theorem afterFast_ok (f : Bytes) (serial : Nat) (fast : Option Page) : ∃ r, afterFast f serial fast = .ok r := by
  have hs : ∀ best, ∃ r, slowLast serial f.length f best = .ok r := fun best => slowLast_ok serial f.length f best (by omega)
  cases fast with
  | none => exact hs none
  | some p =>
    simp only [afterFast]
    by_cases h1 : p.serial = serial ∧ p.position ≠ -1
    · rw [if_pos h1]
      by_cases h2 : p.last = true
      · rw [if_pos h2]; exact ⟨_, rfl⟩
      · rw [if_neg h2]; exact hs _
    · rw [if_neg h1]; exact hs _

theorem findLastW_classes (w : Nat) (f : Bytes) (serial : Nat) (e : PyErr) (h : findLastW w f serial = .error e) : e = .mutagen := by
  unfold findLastW at h
  cases hr : rindex oggS (lastBytes w f) with
  | none => rw [hr] at h; cases h; rfl
  | some i =>
    rw [hr] at h
    simp only [] at h
    obtain ⟨r, hr'⟩ := afterFast_ok f serial (fastPage (lastBytes w f) i)
    rw [hr'] at h; cases h

/-- `find_last` raises nothing but `error` -/
theorem findLast_classes (f : Bytes) (serial : Nat) (e : PyErr) (h : findLast f serial = .error e) : e = .mutagen :=
  findLastW_classes 65536 f serial e h

/-! ### well-formed input -/

theorem good_render (p : Page) (h : Good p) : p.render = .ok (renderB p) := by
  have h1 := h.1
  unfold renders at h1
  unfold renderB
  cases hr : p.render with
  | ok b => rfl
  | error e => rw [hr] at h1; cases h1

theorem nextPage_good (p : Page) (h : Good p) (rest : Bytes) : nextPage (renderB p ++ rest) = .ok (p, rest) := by
  have hb := good_render p h
  obtain ⟨_, hv, hhi, hc⟩ := h
  unfold nextPage
  rw [parse_render p _ rest hb hv hhi (.inl hc)]

theorem findHeader_first (magic : Bytes) (p : Page) (h : Good p) (hm : hasMagic magic p = true) (rest : Bytes) :
    findHeader magic (renderB p ++ rest) = .ok p := by
  unfold findHeader
  rw [nextPage_good p h rest]
  simp only []
  cases hl : (renderB p ++ rest).length <;> simp [findLoop, hm]

/-! ### `rindex` -/

theorem rindexFrom_shift (pat d : Bytes) (i : Nat) (best : Option Nat) :
    rindexFrom pat d i best = match rindexFrom pat d 0 none with | some j => some (i + j) | none => best := by
  induction d generalizing i best with
  | nil => simp [rindexFrom]
  | cons x r ih =>
    simp only [rindexFrom]
    rw [ih (i + 1), ih (0 + 1)]
    cases hr : rindexFrom pat r 0 none with
    | some j => simp; omega
    | none => simp only []; split <;> simp

theorem rindexFrom_append (pat A B : Bytes) (i : Nat) (best : Option Nat) :
    ∃ best', rindexFrom pat (A ++ B) i best = rindexFrom pat B (i + A.length) best' := by
  induction A generalizing i best with
  | nil => exact ⟨best, by simp⟩
  | cons x r ih =>
    simp only [List.cons_append, rindexFrom]
    obtain ⟨b', hb'⟩ := ih (i + 1) (if pat.isPrefixOf (x :: (r ++ B)) = true then some i else best)
    exact ⟨b', by rw [hb']; congr 1; simp; omega⟩

/-- when the pattern occurs in `B` only at its very beginning, its last occurrence in `A ++ B` is there -/
theorem rindex_append (pat A B : Bytes) (h : rindex pat B = some 0) : rindex pat (A ++ B) = some A.length := by
  unfold rindex at h ⊢
  obtain ⟨b', hb'⟩ := rindexFrom_append pat A B 0 none
  rw [hb', rindexFrom_shift, h]
  simp

theorem lastBytes_append (w : Nat) (A B : Bytes) (h : B.length ≤ w) : ∃ A', lastBytes w (A ++ B) = A' ++ B := by
  refine ⟨(A.reverse.take (w - B.length)).reverse, ?_⟩
  unfold lastBytes
  rw [List.reverse_append, List.take_append, List.take_of_length_le (by simpa using h)]
  simp

theorem findLastW_final (w : Nat) (A : Bytes) (p : Page) (h : Good p) (hlast : p.last = true) (hpos : p.position ≠ -1)
    (hlen : (renderB p).length ≤ w) (hsync : rindex oggS (renderB p) = some 0) :
    findLastW w (A ++ renderB p) p.serial = .ok (some p) := by
  unfold findLastW
  obtain ⟨A', hd⟩ := lastBytes_append w A (renderB p) hlen
  rw [hd, rindex_append oggS _ _ hsync]
  simp only []
  have hp : parse (renderB p) = .ok (p, []) := by
    have hb := good_render p h
    obtain ⟨_, hv, hhi, hc⟩ := h
    have := parse_render p _ [] hb hv hhi (.inl hc)
    rwa [List.append_nil] at this
  have hf : fastPage (A' ++ renderB p) A'.length = some p := by
    unfold fastPage
    rw [List.drop_left, hp]
  rw [hf]
  simp only [afterFast, hpos, ne_eq, not_false_eq_true, and_self, ↓reduceIte, hlast]

/-- `find_last` on a file that ends with a page of the stream that carries the end-of-stream flag and
a granule position, and in which "OggS" does not occur again -/
theorem findLast_final (A : Bytes) (p : Page) (h : Good p) (hlast : p.last = true) (hpos : p.position ≠ -1)
    (hlen : (renderB p).length ≤ 65536) (hsync : rindex oggS (renderB p) = some 0) :
    findLast (A ++ renderB p) p.serial = .ok (some p) :=
  findLastW_final 65536 A p h hlast hpos hlen hsync


/-! ### a specification-built stream -/

theorem oggS_eq : oggS = sync := rfl

theorem findHeader_build (magic : Bytes) (c : Container) (ident : Bytes) (ok : c.OK ident)
    (hm : magic.isPrefixOf ident = true) : findHeader magic (build c ident) = .ok (identPage c ident) := by
  unfold build
  rw [List.append_assoc]
  exact findHeader_first magic _ ok.1 (by simp [hasMagic, identPage, hm]) _

theorem findLast_build (c : Container) (ident : Bytes) (ok : c.OK ident) :
    findLast (build c ident) c.serial = .ok (some (lastPage c)) := by
  have := findLast_final (renderB (identPage c ident) ++ c.middle) (lastPage c) ok.2.1 rfl
    (by simp only [lastPage]; omega) ok.2.2.1 (by rw [oggS_eq]; exact ok.2.2.2)
  exact this

end Mutagen.Info.OggC
