/- Proofs/Info/Mp4Esds.lean — `_parse_esds` on the ES_Descriptor / AudioSpecificConfig of the specification side -/
import MutagenModel.Proofs.Info.Mp4
import MutagenModel.Spec.Info.Mp4
import MutagenModel.Proofs.Bits
set_option linter.unusedVariables false
set_option linter.unusedSimpArgs false
namespace Mutagen.Info.Mp4
open Mutagen Mutagen.Mp4C Mutagen.Info Mutagen.Spec.Mp4Info

theorem length_natToBits (w v : Nat) : (natToBits w v).length = w := by
  induction w with
  | zero => rfl
  | succ k ih => simp [natToBits, ih]

/-- `r.bits(w)` on a field that stands at the cursor -/
theorem getBits_field (pre : List Bool) (w v : Nat) (rest : List Bool) (p : Nat) (hp : pre.length = p) (hv : v < 2 ^ w) (hw : 0 < w) :
    getBits (pre ++ (natToBits w v ++ rest)) p w = some (v, p + w) := by
  unfold getBits
  rw [if_neg (by omega), if_pos (by simp [length_natToBits, hp])]
  rw [List.drop_left' hp, List.take_left' (length_natToBits w v), bitsToNat_natToBits w v hv]


theorem ascParse_short (e : Esds) (ok : e.OK) (hidx : ¬ e.freqIndex = 15) (rest : List Bool) :
    ascParse (ascBits e ++ rest) 2 = some { aot := e.audioObjectType, freq := Generated.aacFreqs.getD e.freqIndex 0,
                                            chanConf := e.channelConfiguration } := by
  obtain ⟨_, _, _, _, _, _, haot, hfi, _, hc1, hc7, hfl, _⟩ := ok
  have haot' : e.audioObjectType = 1 ∨ e.audioObjectType = 2 ∨ e.audioObjectType = 3 ∨ e.audioObjectType = 4 ∨ e.audioObjectType = 7 := by
    simpa using haot
  have hb : ascBits e ++ rest = natToBits 5 e.audioObjectType ++ (natToBits 4 e.freqIndex ++ (natToBits 4 e.channelConfiguration ++
      (natToBits 1 e.frameLengthFlag ++ (natToBits 1 0 ++ (natToBits 1 0 ++ rest))))) := by
    simp [ascBits, hidx, List.append_assoc]
  rw [hb]
  generalize hbb : natToBits 5 e.audioObjectType ++ (natToBits 4 e.freqIndex ++ (natToBits 4 e.channelConfiguration ++
      (natToBits 1 e.frameLengthFlag ++ (natToBits 1 0 ++ (natToBits 1 0 ++ rest))))) = b
  have hlen : 16 ≤ b.length := by rw [← hbb]; simp [length_natToBits]; omega
  have g0 : getBits b 0 5 = some (e.audioObjectType, 5) := by
    rw [← hbb]; exact getBits_field [] 5 _ _ 0 rfl (by rcases haot' with h | h | h | h | h <;> simp [h]) (by decide)
  have g5 : getBits b 5 4 = some (e.freqIndex, 9) := by
    rw [← hbb]
    exact getBits_field (natToBits 5 e.audioObjectType) 4 _ _ 5 (length_natToBits _ _) (by rcases hfi with h | h <;> omega) (by decide)
  have g9 : getBits b 9 4 = some (e.channelConfiguration, 13) := by
    rw [← hbb, ← List.append_assoc]
    exact getBits_field (natToBits 5 e.audioObjectType ++ natToBits 4 e.freqIndex) 4 _ _ 9 (by simp [length_natToBits]) (by omega) (by decide)
  have g14 : getBits b 14 1 = some (0, 15) := by
    rw [← hbb, ← List.append_assoc, ← List.append_assoc, ← List.append_assoc]
    exact getBits_field (natToBits 5 e.audioObjectType ++ natToBits 4 e.freqIndex ++ natToBits 4 e.channelConfiguration ++
      natToBits 1 e.frameLengthFlag) 1 0 _ 14 (by simp [length_natToBits]) (by decide) (by decide)
  have g15 : getBits b 15 1 = some (0, 16) := by
    rw [← hbb, ← List.append_assoc, ← List.append_assoc, ← List.append_assoc, ← List.append_assoc]
    exact getBits_field (natToBits 5 e.audioObjectType ++ natToBits 4 e.freqIndex ++ natToBits 4 e.channelConfiguration ++
      natToBits 1 e.frameLengthFlag ++ natToBits 1 0) 1 0 _ 15 (by simp [length_natToBits]) (by decide) (by decide)
  have s13 : skipBits b 13 1 = some 14 := by
    unfold skipBits; rw [if_neg (by omega)]
  have n31 : ¬ e.audioObjectType = 31 := by omega
  have n5 : ¬ (e.audioObjectType = 5 ∨ e.audioObjectType = 29) := by omega
  have hga : e.audioObjectType ∈ [1, 2, 3, 4, 6, 7, 17, 19, 20, 21, 22, 23] := by
    rcases haot' with h | h | h | h | h <;> simp [h]
  have hep : ¬ e.audioObjectType ∈ [17, 19, 20, 21, 22, 23, 24, 25, 26, 27, 39] := by
    rcases haot' with h | h | h | h | h <;> simp [h]
  have hcc0 : ¬ e.channelConfiguration = 0 := by omega
  have h620 : ¬ (e.audioObjectType = 6 ∨ e.audioObjectType = 20) := by omega
  have hga' : gaSpecific b 13 e.audioObjectType e.channelConfiguration = some (16, none, false) := by
    simp [gaSpecific, s13, g14, g15, hcc0, h620, bind, Option.bind]
  have htail : ascTail b 2 { aot := e.audioObjectType, freq := Generated.aacFreqs.getD e.freqIndex 0, chanConf := e.channelConfiguration } 0 16 =
      some { aot := e.audioObjectType, freq := Generated.aacFreqs.getD e.freqIndex 0, chanConf := e.channelConfiguration } := by
    simp [ascTail, hep, bind, Option.bind]
  have htail' := htail
  simp only [List.getD_eq_getElem?_getD] at htail'
  simp [ascParse, getAot, getFreq, g0, g5, g9, n31, hidx, n5, hga, hga', htail', bind, Option.bind]


theorem ascParse_long (e : Esds) (ok : e.OK) (hidx : e.freqIndex = 15) (rest : List Bool) :
    ascParse (ascBits e ++ rest) 5 = some { aot := e.audioObjectType, freq := e.explicitFreq, chanConf := e.channelConfiguration } := by
  obtain ⟨_, _, _, _, _, _, haot, hfi, hef, hc1, hc7, hfl, _⟩ := ok
  have haot' : e.audioObjectType = 1 ∨ e.audioObjectType = 2 ∨ e.audioObjectType = 3 ∨ e.audioObjectType = 4 ∨ e.audioObjectType = 7 := by
    simpa using haot
  have hb : ascBits e ++ rest = natToBits 5 e.audioObjectType ++ (natToBits 4 15 ++ (natToBits 24 e.explicitFreq ++ (natToBits 4 e.channelConfiguration ++
      (natToBits 1 e.frameLengthFlag ++ (natToBits 1 0 ++ (natToBits 1 0 ++ rest)))))) := by
    simp [ascBits, hidx, List.append_assoc]
  rw [hb]
  generalize hbb : natToBits 5 e.audioObjectType ++ (natToBits 4 15 ++ (natToBits 24 e.explicitFreq ++ (natToBits 4 e.channelConfiguration ++
      (natToBits 1 e.frameLengthFlag ++ (natToBits 1 0 ++ (natToBits 1 0 ++ rest)))))) = b
  have hlen : 40 ≤ b.length := by rw [← hbb]; simp [length_natToBits]; omega
  have g0 : getBits b 0 5 = some (e.audioObjectType, 5) := by
    rw [← hbb]; exact getBits_field [] 5 _ _ 0 rfl (by rcases haot' with h | h | h | h | h <;> simp [h]) (by decide)
  have g5 : getBits b 5 4 = some (15, 9) := by
    rw [← hbb]
    exact getBits_field (natToBits 5 e.audioObjectType) 4 _ _ 5 (length_natToBits _ _) (by decide) (by decide)
  have g9 : getBits b 9 24 = some (e.explicitFreq, 33) := by
    rw [← hbb, ← List.append_assoc]
    exact getBits_field (natToBits 5 e.audioObjectType ++ natToBits 4 15) 24 _ _ 9 (by simp [length_natToBits]) hef (by decide)
  have g33 : getBits b 33 4 = some (e.channelConfiguration, 37) := by
    rw [← hbb, ← List.append_assoc, ← List.append_assoc]
    exact getBits_field (natToBits 5 e.audioObjectType ++ natToBits 4 15 ++ natToBits 24 e.explicitFreq) 4 _ _ 33 (by simp [length_natToBits]) (by omega) (by decide)
  have g38 : getBits b 38 1 = some (0, 39) := by
    rw [← hbb, ← List.append_assoc, ← List.append_assoc, ← List.append_assoc, ← List.append_assoc]
    exact getBits_field (natToBits 5 e.audioObjectType ++ natToBits 4 15 ++ natToBits 24 e.explicitFreq ++ natToBits 4 e.channelConfiguration ++
      natToBits 1 e.frameLengthFlag) 1 0 _ 38 (by simp [length_natToBits]) (by decide) (by decide)
  have g39 : getBits b 39 1 = some (0, 40) := by
    rw [← hbb, ← List.append_assoc, ← List.append_assoc, ← List.append_assoc, ← List.append_assoc, ← List.append_assoc]
    exact getBits_field (natToBits 5 e.audioObjectType ++ natToBits 4 15 ++ natToBits 24 e.explicitFreq ++ natToBits 4 e.channelConfiguration ++
      natToBits 1 e.frameLengthFlag ++ natToBits 1 0) 1 0 _ 39 (by simp [length_natToBits]) (by decide) (by decide)
  have s37 : skipBits b 37 1 = some 38 := by
    unfold skipBits; rw [if_neg (by omega)]
  have n31 : ¬ e.audioObjectType = 31 := by omega
  have n5 : ¬ (e.audioObjectType = 5 ∨ e.audioObjectType = 29) := by omega
  have hga : e.audioObjectType ∈ [1, 2, 3, 4, 6, 7, 17, 19, 20, 21, 22, 23] := by
    rcases haot' with h | h | h | h | h <;> simp [h]
  have hep : ¬ e.audioObjectType ∈ [17, 19, 20, 21, 22, 23, 24, 25, 26, 27, 39] := by
    rcases haot' with h | h | h | h | h <;> simp [h]
  have hcc0 : ¬ e.channelConfiguration = 0 := by omega
  have h620 : ¬ (e.audioObjectType = 6 ∨ e.audioObjectType = 20) := by omega
  have hga' : gaSpecific b 37 e.audioObjectType e.channelConfiguration = some (40, none, false) := by
    simp [gaSpecific, s37, g38, g39, hcc0, h620, bind, Option.bind]
  have htail : ascTail b 5 { aot := e.audioObjectType, freq := e.explicitFreq, chanConf := e.channelConfiguration } 0 40 =
      some { aot := e.audioObjectType, freq := e.explicitFreq, chanConf := e.channelConfiguration } := by
    simp [ascTail, hep, bind, Option.bind]
  simp [ascParse, getAot, getFreq, g0, g5, g9, g33, n31, n5, hga, hga', htail, bind, Option.bind]


theorem bytesToBits_append (a b : Bytes) : bytesToBits (a ++ b) = bytesToBits a ++ bytesToBits b := by
  simp [bytesToBits, List.flatMap_append]

theorem length_ascBits (e : Esds) : (ascBits e).length = if e.freqIndex = 15 then 40 else 16 := by
  unfold ascBits; split <;> simp [length_natToBits]

theorem length_ascBytes (e : Esds) : (ascBytes e).length = if e.freqIndex = 15 then 5 else 2 := by
  unfold ascBytes; rw [length_bitsToBytes, length_ascBits]; split <;> rfl

/-- the AudioSpecificConfig of the specification side, read by `DecoderSpecificInfo._parse` -/
theorem ascParse_build (e : Esds) (ok : e.OK) (sl : Bytes) :
    ascParse (bytesToBits (ascBytes e ++ sl)) (ascBytes e).length =
      some { aot := e.audioObjectType, freq := if e.freqIndex = 15 then e.explicitFreq else Generated.aacFreqs.getD e.freqIndex 0,
             chanConf := e.channelConfiguration } := by
  have h8 : 8 ∣ (ascBits e).length := by rw [length_ascBits]; split <;> decide
  rw [bytesToBits_append, ascBytes, bytesToBits_bitsToBytes _ h8]
  have hl := length_ascBytes e
  unfold ascBytes at hl
  rw [hl]
  by_cases hidx : e.freqIndex = 15
  · simp only [hidx, ↓reduceIte]; exact ascParse_long e ok hidx _
  · simp only [hidx, ↓reduceIte]; exact ascParse_short e ok hidx _

theorem getElem?_skip (A B : Bytes) (n m : Nat) (hA : A.length = m) (hm : m ≤ n) : (A ++ B)[n]? = B[n - m]? := by
  rw [List.getElem?_append_right (by omega), hA]

theorem descLen_one (d : Bytes) (pos n : Nat) (hd : d[pos]? = some (UInt8.ofNat n)) (hn : n < 128) :
    descLen d 4 pos 0 = some (n, pos + 1) := by
  have ht : (UInt8.ofNat n).toNat = n := by simp [UInt8.toNat_ofNat']; omega
  simp only [descLen, hd, ht]
  have h1 : n / 128 = 0 := by omega
  have h2 : 0 * 128 + n % 128 = n := by omega
  simp [h1, h2]

theorem descLen_four (d : Bytes) (pos n : Nat) (h0 : d[pos]? = some 0x80) (h1 : d[pos + 1]? = some 0x80) (h2 : d[pos + 1 + 1]? = some 0x80)
    (h3 : d[pos + 1 + 1 + 1]? = some (UInt8.ofNat n)) (hn : n < 128) : descLen d 4 pos 0 = some (n, pos + 1 + 1 + 1 + 1) := by
  have ht : (UInt8.ofNat n).toNat = n := by simp [UInt8.toNat_ofNat']; omega
  have hx : (0x80 : UInt8).toNat = 128 := by decide
  simp only [descLen, h0, h1, h2, h3, ht, hx]
  have e1 : n / 128 = 0 := by omega
  simp [e1]; omega


/-- what `_parse_esds` makes of an `Esds` -/
def esdsResult (base : Entry) (e : Esds) : Entry :=
  let a : Asc := { aot := e.audioObjectType, freq := if e.freqIndex = 15 then e.explicitFreq else Generated.aacFreqs.getD e.freqIndex 0,
                   chanConf := e.channelConfiguration }
  { base with bitrate := e.avgBitrate, codecParam := some (0x40, some e.audioObjectType),
              channels := if a.channels ≠ 0 then a.channels else base.channels,
              sampleRate := if a.sampleRate ≠ 0 then a.sampleRate else base.sampleRate }

/-- `read_field` with one- and four-element literal pieces whose elements are not closed terms -/
macro "read_field'" : tactic => `(tactic|
  ((repeat (rw [readAt_skip _ _ _ _ _ (by first | exact length_toBE _ _ | exact List.length_singleton | exact (rfl : _ = 4) | rfl) (by decide)]));
   first
   | (apply readAt_head' <;> first | decide | exact length_toBE _ _ | exact List.length_singleton | rfl)
   | (apply readAt_last <;> first | decide | exact length_toBE _ _ | exact List.length_singleton | rfl)))

/-- `d[n]?` of a right-nested concatenation of pieces of known length -/
macro "idx" : tactic => `(tactic|
  ((repeat (rw [getElem?_skip _ _ _ _ (by first | exact length_toBE _ _ | exact List.length_singleton | exact (rfl : _ = 4) | rfl) (by decide)])); rfl))

theorem esds_walk_short (base : Entry) (e : Esds) (ok : e.OK) (hlf : e.longForm = false) :
    parseEsds base (esdsPayload e) = .ok (esdsResult base e) := by
  have hasc := ascParse_build e ok e.slConfig
  have hal := length_ascBytes e
  have ok' := ok
  obtain ⟨h1, h2, h3, h4, h5, h6, _, _, _, _, _, _, hlen⟩ := ok'
  have hal' : (ascBytes e).length < 128 := by rw [hal]; split <;> decide
  have hdl : (dcdBody e).length = 13 + (1 + (1 + (ascBytes e).length)) := by simp [dcdBody, descSize, hlf]; omega
  have hdl' : (dcdBody e).length < 128 := by
    have : (esBody e).length = 2 + 1 + (1 + 1 + (dcdBody e).length) + e.slConfig.length := by simp [esBody, descSize, hlf]; omega
    omega
  have hd : esdsPayload e = [0, 0, 0, 0] ++ ([3] ++ (descSize false (esBody e).length ++ (toBE 2 e.esId ++ (toBE 1 e.streamPriority ++ ([4] ++
      (descSize false (dcdBody e).length ++ ([0x40] ++ (toBE 1 (5 * 4 + e.upStream * 2 + 1) ++ (toBE 3 e.bufferSizeDB ++ (toBE 4 e.maxBitrate ++
      (toBE 4 e.avgBitrate ++ ([5] ++ (descSize false (ascBytes e).length ++ (ascBytes e ++ e.slConfig)))))))))))))) := by
    simp only [esdsPayload, esBody, dcdBody, hlf, List.append_assoc]
  unfold parseEsds fullAtom
  rw [hd]
  generalize hdd : ([3] ++ (descSize false (esBody e).length ++ (toBE 2 e.esId ++ (toBE 1 e.streamPriority ++ ([4] ++
      (descSize false (dcdBody e).length ++ ([0x40] ++ (toBE 1 (5 * 4 + e.upStream * 2 + 1) ++ (toBE 3 e.bufferSizeDB ++ (toBE 4 e.maxBitrate ++
      (toBE 4 e.avgBitrate ++ ([5] ++ (descSize false (ascBytes e).length ++ (ascBytes e ++ e.slConfig))))))))))))) : Bytes) = d
  have hl4 : ¬ ([0, 0, 0, 0] ++ d : Bytes).length < 4 := by simp
  have hv : ofBE (([0, 0, 0, 0] ++ d : Bytes).take 1) = 0 := by show ofBE [0] = 0; decide
  have hdr : ([0, 0, 0, 0] ++ d : Bytes).drop 4 = d := rfl
  simp only [hl4, ↓reduceIte, hv, hdr, ne_eq, not_true_eq_false]
  have hlenD : d.length = 22 + (ascBytes e).length + e.slConfig.length := by
    rw [← hdd]; simp [descSize]; omega
  have i0 : d[0]? = some 3 := by rw [← hdd]; rfl
  have l1 : descLen d 4 1 0 = some ((esBody e).length, 2) := by
    rw [← hdd]; simp only [descSize, ↓reduceIte, Bool.false_eq_true]; exact descLen_one _ 1 _ (by idx) hlen
  have i2 : d[4]? = some (UInt8.ofNat (e.streamPriority % 256)) := by
    rw [← hdd]; simp only [descSize, ↓reduceIte, Bool.false_eq_true]; idx
  have i3 : d[5]? = some 4 := by
    rw [← hdd]; simp only [descSize, ↓reduceIte, Bool.false_eq_true]; idx
  have l2 : descLen d 4 6 0 = some ((dcdBody e).length, 7) := by
    rw [← hdd]; simp only [descSize, ↓reduceIte, Bool.false_eq_true]; exact descLen_one _ 6 _ (by idx) hdl'
  have r1 : readAt d 7 1 = [0x40] := by
    rw [← hdd]; simp only [descSize, ↓reduceIte, Bool.false_eq_true]; read_field'
  have r2 : readAt d 8 1 = toBE 1 (5 * 4 + e.upStream * 2 + 1) := by
    rw [← hdd]; simp only [descSize, ↓reduceIte, Bool.false_eq_true]; read_field'
  have r3 : readAt d 16 4 = toBE 4 e.avgBitrate := by
    rw [← hdd]; simp only [descSize, ↓reduceIte, Bool.false_eq_true]; read_field'
  have i4 : d[20]? = some 5 := by
    rw [← hdd]; simp only [descSize, ↓reduceIte, Bool.false_eq_true]; idx
  have l3 : descLen d 4 21 0 = some ((ascBytes e).length, 22) := by
    rw [← hdd]; simp only [descSize, ↓reduceIte, Bool.false_eq_true]; exact descLen_one _ 21 _ (by idx) hal'
  have hdrop : d.drop 22 = ascBytes e ++ e.slConfig := by
    rw [← hdd]; simp only [descSize, ↓reduceIte, Bool.false_eq_true]
    repeat (rw [List.drop_append, List.drop_eq_nil_of_le (by simp), List.nil_append]; simp only [List.length_cons, List.length_nil, length_toBE])
    rfl
  have hp : (UInt8.ofNat (e.streamPriority % 256)).toNat = e.streamPriority := by simp [UInt8.toNat_ofNat']; omega
  have f1 : ¬ e.streamPriority / 128 % 2 = 1 := by omega
  have f2 : ¬ e.streamPriority / 64 % 2 = 1 := by omega
  have f3 : ¬ e.streamPriority / 32 % 2 = 1 := by omega
  have hoti : ofBE [(0x40 : UInt8)] = 0x40 := by decide
  have hst : (5 * 4 + e.upStream * 2 + 1) / 4 = 5 := by omega
  have h13 : ¬ (dcdBody e).length = 13 := by omega
  have n1 : ¬ d.length < 2 + 3 := by omega
  have n2 : ¬ d.length < 7 + 13 := by omega
  simp [i0, l1, i2, i3, l2, r1, r2, r3, i4, l3, hdrop, hp, f1, f2, f3, hoti, hst, h13, n1, n2, hasc, bind, Option.bind,
    ofBE_toBE 1 _ (show 5 * 4 + e.upStream * 2 + 1 < 256 ^ 1 by omega), ofBE_toBE 4 _ (show e.avgBitrate < 256 ^ 4 by omega), esdsResult]

theorem esds_walk_long (base : Entry) (e : Esds) (ok : e.OK) (hlf : e.longForm = true) :
    parseEsds base (esdsPayload e) = .ok (esdsResult base e) := by
  have hasc := ascParse_build e ok e.slConfig
  have hal := length_ascBytes e
  have ok' := ok
  obtain ⟨h1, h2, h3, h4, h5, h6, _, _, _, _, _, _, hlen⟩ := ok'
  have hal' : (ascBytes e).length < 128 := by rw [hal]; split <;> decide
  have hdl : (dcdBody e).length = 13 + (1 + (4 + (ascBytes e).length)) := by simp [dcdBody, descSize, hlf]; omega
  have hdl' : (dcdBody e).length < 128 := by
    have : (esBody e).length = 2 + 1 + (1 + 4 + (dcdBody e).length) + e.slConfig.length := by simp [esBody, descSize, hlf]; omega
    omega
  have hd : esdsPayload e = [0, 0, 0, 0] ++ ([3] ++ (descSize true (esBody e).length ++ (toBE 2 e.esId ++ (toBE 1 e.streamPriority ++ ([4] ++
      (descSize true (dcdBody e).length ++ ([0x40] ++ (toBE 1 (5 * 4 + e.upStream * 2 + 1) ++ (toBE 3 e.bufferSizeDB ++ (toBE 4 e.maxBitrate ++
      (toBE 4 e.avgBitrate ++ ([5] ++ (descSize true (ascBytes e).length ++ (ascBytes e ++ e.slConfig)))))))))))))) := by
    simp only [esdsPayload, esBody, dcdBody, hlf, List.append_assoc]
  unfold parseEsds fullAtom
  rw [hd]
  generalize hdd : ([3] ++ (descSize true (esBody e).length ++ (toBE 2 e.esId ++ (toBE 1 e.streamPriority ++ ([4] ++
      (descSize true (dcdBody e).length ++ ([0x40] ++ (toBE 1 (5 * 4 + e.upStream * 2 + 1) ++ (toBE 3 e.bufferSizeDB ++ (toBE 4 e.maxBitrate ++
      (toBE 4 e.avgBitrate ++ ([5] ++ (descSize true (ascBytes e).length ++ (ascBytes e ++ e.slConfig))))))))))))) : Bytes) = d
  have hl4 : ¬ ([0, 0, 0, 0] ++ d : Bytes).length < 4 := by simp
  have hv : ofBE (([0, 0, 0, 0] ++ d : Bytes).take 1) = 0 := by show ofBE [0] = 0; decide
  have hdr : ([0, 0, 0, 0] ++ d : Bytes).drop 4 = d := rfl
  simp only [hl4, ↓reduceIte, hv, hdr, ne_eq, not_true_eq_false]
  have hlenD : d.length = 31 + (ascBytes e).length + e.slConfig.length := by
    rw [← hdd]; simp [descSize]; omega
  have i0 : d[0]? = some 3 := by rw [← hdd]; rfl
  have l1 : descLen d 4 1 0 = some ((esBody e).length, 5) := by
    rw [← hdd]; simp only [descSize, ↓reduceIte, Bool.false_eq_true]; exact descLen_four _ 1 _ (by idx) (by idx) (by idx) (by idx) hlen
  have i2 : d[7]? = some (UInt8.ofNat (e.streamPriority % 256)) := by
    rw [← hdd]; simp only [descSize, ↓reduceIte, Bool.false_eq_true]; idx
  have i3 : d[8]? = some 4 := by
    rw [← hdd]; simp only [descSize, ↓reduceIte, Bool.false_eq_true]; idx
  have l2 : descLen d 4 9 0 = some ((dcdBody e).length, 13) := by
    rw [← hdd]; simp only [descSize, ↓reduceIte, Bool.false_eq_true]; exact descLen_four _ 9 _ (by idx) (by idx) (by idx) (by idx) hdl'
  have r1 : readAt d 13 1 = [0x40] := by
    rw [← hdd]; simp only [descSize, ↓reduceIte, Bool.false_eq_true]; read_field'
  have r2 : readAt d 14 1 = toBE 1 (5 * 4 + e.upStream * 2 + 1) := by
    rw [← hdd]; simp only [descSize, ↓reduceIte, Bool.false_eq_true]; read_field'
  have r3 : readAt d 22 4 = toBE 4 e.avgBitrate := by
    rw [← hdd]; simp only [descSize, ↓reduceIte, Bool.false_eq_true]; read_field'
  have i4 : d[26]? = some 5 := by
    rw [← hdd]; simp only [descSize, ↓reduceIte, Bool.false_eq_true]; idx
  have l3 : descLen d 4 27 0 = some ((ascBytes e).length, 31) := by
    rw [← hdd]; simp only [descSize, ↓reduceIte, Bool.false_eq_true]; exact descLen_four _ 27 _ (by idx) (by idx) (by idx) (by idx) hal'
  have hdrop : d.drop 31 = ascBytes e ++ e.slConfig := by
    rw [← hdd]; simp only [descSize, ↓reduceIte, Bool.false_eq_true]
    repeat (rw [List.drop_append, List.drop_eq_nil_of_le (by simp), List.nil_append]; simp only [List.length_cons, List.length_nil, length_toBE])
    rfl
  have hp : (UInt8.ofNat (e.streamPriority % 256)).toNat = e.streamPriority := by simp [UInt8.toNat_ofNat']; omega
  have f1 : ¬ e.streamPriority / 128 % 2 = 1 := by omega
  have f2 : ¬ e.streamPriority / 64 % 2 = 1 := by omega
  have f3 : ¬ e.streamPriority / 32 % 2 = 1 := by omega
  have hoti : ofBE [(0x40 : UInt8)] = 0x40 := by decide
  have hst : (5 * 4 + e.upStream * 2 + 1) / 4 = 5 := by omega
  have h13 : ¬ (dcdBody e).length = 13 := by omega
  have n1 : ¬ d.length < 5 + 3 := by omega
  have n2 : ¬ d.length < 13 + 13 := by omega
  simp [i0, l1, i2, i3, l2, r1, r2, r3, i4, l3, hdrop, hp, f1, f2, f3, hoti, hst, h13, n1, n2, hasc, bind, Option.bind,
    ofBE_toBE 1 _ (show 5 * 4 + e.upStream * 2 + 1 < 256 ^ 1 by omega), ofBE_toBE 4 _ (show e.avgBitrate < 256 ^ 4 by omega), esdsResult]

/-- `_parse_esds` on a specification-built esds payload, either size form -/
theorem parseEsds_build (base : Entry) (e : Esds) (ok : e.OK) : parseEsds base (esdsPayload e) = .ok (esdsResult base e) := by
  cases hl : e.longForm with
  | false => exact esds_walk_short base e ok hl
  | true => exact esds_walk_long base e ok hl

theorem result_eq (ch ss sr aot cc avg fr : Nat)
    (haot : aot = 1 ∨ aot = 2 ∨ aot = 3 ∨ aot = 4 ∨ aot = 7) (hc1 : 1 ≤ cc) (hc7 : cc ≤ 7) :
    ({ channels := if Asc.channels { aot := aot, freq := fr, chanConf := cc } ≠ 0 then Asc.channels { aot := aot, freq := fr, chanConf := cc } else ch,
       sampleSize := ss,
       sampleRate := if Asc.sampleRate { aot := aot, freq := fr, chanConf := cc } ≠ 0 then Asc.sampleRate { aot := aot, freq := fr, chanConf := cc } else sr,
       bitrate := avg, codecParam := some (0x40, some aot) } : Entry) =
    { channels := if cc = 1 then ch else if cc = 7 then 8 else cc, sampleSize := ss,
      sampleRate := if aot ≠ 7 ∧ fr ≤ 24000 then sr else if fr = 0 then sr else fr,
      bitrate := avg, codecParam := some (0x40, some aot) } := by
  have hch : (Asc.channels { aot := aot, freq := fr, chanConf := cc }) = if cc = 1 then 0 else if cc = 7 then 8 else cc := by
    simp only [Asc.channels, Option.getD]
    by_cases h1 : cc = 1
    · simp [h1]
    · by_cases h7 : cc = 7
      · simp [h7]
      · have : ¬ cc > 7 := by omega
        simp [h1, h7, this]
  have hsr : (Asc.sampleRate { aot := aot, freq := fr, chanConf := cc }) = if aot = 7 then fr else if fr > 24000 then fr else 0 := by
    simp only [Asc.sampleRate]
    rcases haot with h | h | h | h | h <;> simp [h]
  rw [hch, hsr]
  congr 1
  · by_cases h1 : cc = 1
    · simp [h1]
    · by_cases h7 : cc = 7
      · simp [h7]
      · have : ¬ cc = 0 := by omega
        simp [h1, h7, this]
  · by_cases h7 : aot = 7
    · simp only [h7, ↓reduceIte, ne_eq, not_true_eq_false, false_and]
      by_cases h0 : fr = 0 <;> simp [h0]
    · by_cases hf : fr > 24000
      · have : ¬ fr ≤ 24000 := by omega
        have h0 : ¬ fr = 0 := by omega
        simp [h7, hf, this, h0]
      · have : fr ≤ 24000 := by omega
        simp [h7, hf, this]

/-- … which is what the specification side expects -/
theorem esdsResult_expected (en : AudioEntry) (e : Esds) (ok : e.OK) :
    esdsResult { channels := en.channelCount, sampleSize := en.sampleSize, sampleRate := en.sampleRate } e =
      entryExpected en (.esds e) := by
  obtain ⟨_, _, _, _, _, _, haot, hfi, _, hc1, hc7, _, _⟩ := ok
  have haot' : e.audioObjectType = 1 ∨ e.audioObjectType = 2 ∨ e.audioObjectType = 3 ∨ e.audioObjectType = 4 ∨ e.audioObjectType = 7 := by
    simpa using haot
  have ht : Generated.aacFreqs = Spec.Tables.aacFreqs := by decide
  simp only [esdsResult, entryExpected, Esds.frequency, ht]
  exact result_eq _ _ _ _ _ _ _ haot' hc1 hc7

end Mutagen.Info.Mp4
