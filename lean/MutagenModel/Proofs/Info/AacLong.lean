/- Proofs/Info/AacLong.lean — ADTS streams of more than 100 frames: the frame loop stops after 100 -/
import MutagenModel.Proofs.Info.Aac
set_option linter.unusedVariables false
set_option linter.unusedSimpArgs false
namespace Mutagen.Info.Aac
open Mutagen Mutagen.Info Mutagen.Spec.Aac

/-- the frame loop stops after `n` frames when more follow -/
theorem framesLoop_prefix (h : Adts) (ok : h.OK) : ∀ (first : List Frame) (fr : Frame) (g : Frame) (gs : List Frame),
    (∀ x ∈ fr :: (first ++ g :: gs), x.OK h.protectionAbsent) → ∀ (pre : Bytes) (s : Stream),
    s.r = ⟨0, 8 * pre.length + 12⟩ → (s.key = none ∨ s.key = some (keyOf h)) →
    framesLoop (pre ++ (fr :: (first ++ g :: gs)).flatMap (frameBytes h)) (fr :: first).length s =
      { r := ⟨0, 8 * (pre ++ (fr :: first).flatMap (frameBytes h)).length + 12⟩, key := some (keyOf h), offset := s.offset,
        parsedFrames := s.parsedFrames + (fr :: first).length, samples := s.samples + samplesOf (fr :: first),
        payloadBits := s.payloadBits + payloadOf h.protectionAbsent (fr :: first),
        lastBits := 8 * (pre ++ (fr :: first).flatMap (frameBytes h)).length } := by
  intro first
  induction first with
  | nil =>
    intro fr g gs hok pre s hr hkey
    have hfr := hok fr List.mem_cons_self
    have hg := hok g (by simp)
    have hp := parseFrame_frame h ok fr hfr pre ((g :: gs).flatMap (frameBytes h)) s hr hkey
    have hf2 : pre ++ (frameBytes h fr ++ (g :: gs).flatMap (frameBytes h)) =
        (pre ++ frameBytes h fr) ++ (toBE 7 (headerWord h g) ++ (g.body ++ gs.flatMap (frameBytes h))) := by
      simp [frameBytes]
    have hs := sync_at_frame (pre ++ frameBytes h fr) (g.body ++ gs.flatMap (frameBytes h)) (headerWord h g) 10 (by decide)
      (headerWord_sync h ok g hg)
    have hfa : pre ++ (fr :: ([] ++ g :: gs)).flatMap (frameBytes h) =
        pre ++ (frameBytes h fr ++ (g :: gs).flatMap (frameBytes h)) := by
      simp only [List.nil_append, List.flatMap_cons]
    rw [hfa, show ([fr] : List Frame).length = 0 + 1 from rfl, framesLoop, hp]
    simp only
    rw [hf2, hs]
    simp only [framesLoop, samplesOf, payloadOf, List.map_cons, List.map_nil, List.sum_cons, List.sum_nil, List.flatMap_cons,
      List.flatMap_nil, List.append_nil, List.length_cons, List.length_nil]
    simp
  | cons f2 first ih =>
    intro fr g gs hok pre s hr hkey
    have hfr := hok fr List.mem_cons_self
    have hf2ok := hok f2 (by simp)
    have hok' : ∀ x ∈ f2 :: (first ++ g :: gs), x.OK h.protectionAbsent := fun x hx => hok x (List.mem_cons_of_mem _ hx)
    have hp := parseFrame_frame h ok fr hfr pre ((f2 :: (first ++ g :: gs)).flatMap (frameBytes h)) s hr hkey
    have hfa : pre ++ (fr :: (f2 :: first ++ g :: gs)).flatMap (frameBytes h) =
        pre ++ (frameBytes h fr ++ (f2 :: (first ++ g :: gs)).flatMap (frameBytes h)) := by
      simp only [List.flatMap_cons, List.cons_append]
    have hfb : pre ++ (frameBytes h fr ++ (f2 :: (first ++ g :: gs)).flatMap (frameBytes h)) =
        (pre ++ frameBytes h fr) ++ (toBE 7 (headerWord h f2) ++ (f2.body ++ (first ++ g :: gs).flatMap (frameBytes h))) := by
      simp [frameBytes]
    have hs := sync_at_frame (pre ++ frameBytes h fr) (f2.body ++ (first ++ g :: gs).flatMap (frameBytes h)) (headerWord h f2) 10 (by decide)
      (headerWord_sync h ok f2 hf2ok)
    have hfc : (pre ++ frameBytes h fr) ++ (toBE 7 (headerWord h f2) ++ (f2.body ++ (first ++ g :: gs).flatMap (frameBytes h))) =
        (pre ++ frameBytes h fr) ++ (f2 :: (first ++ g :: gs)).flatMap (frameBytes h) := by
      simp [frameBytes]
    rw [hfa, show (fr :: f2 :: first).length = (f2 :: first).length + 1 by simp, framesLoop, hp]
    simp only
    rw [hfb, hs]
    simp only
    rw [hfc, ih f2 g gs hok' (pre ++ frameBytes h fr) _ rfl (Or.inr rfl)]
    simp only [samplesOf, payloadOf, List.map_cons, List.sum_cons, List.length_cons, List.flatMap_cons, List.append_assoc]
    congr 1 <;> omega


theorem payloadOf_eq_list (pa : Nat) (hpa : pa < 2) (frs : List Frame) (hnb : ∀ fr ∈ frs, fr.nordbif < 4) :
    payloadOf pa frs = rawBitsL pa frs := by
  unfold payloadOf rawBitsL
  congr 1
  apply List.map_congr_left
  intro fr hfr
  have hn := hnb fr hfr
  unfold crcBits crcBytes
  by_cases h0 : pa = 0
  · have h1 : ¬ (pa = 1) := by omega
    by_cases hn0 : fr.nordbif = 0
    · simp [h0, hn0]
    · simp only [h0, h1, hn0, if_true, if_false, ne_eq, not_false_eq_true]
      push_cast
      omega
  · have h1 : pa = 1 := by omega
    simp [h1]

theorem parse_adts_long (h : Adts) (ok : h.OK) (hlong : 100 < h.frames.length) :
    parse (build h) = .ok (expectedFirst100 h) := by
  have ok' := ok
  obtain ⟨hid, hpa, hpr, hsf, hpv, hcc, hor, hho, h3, hfrs⟩ := ok'
  -- frames = (fr :: first) ++ g :: gs with 100 frames in front
  have htl : (h.frames.take 100).length = 100 := by simp; omega
  obtain ⟨fr, first, hfirst⟩ : ∃ fr first, h.frames.take 100 = fr :: first := by
    cases ht : h.frames.take 100 with
    | nil => rw [ht] at htl; simp at htl
    | cons a b => exact ⟨a, b, rfl⟩
  obtain ⟨g, gs, hgs⟩ : ∃ g gs, h.frames.drop 100 = g :: gs := by
    cases hd : h.frames.drop 100 with
    | nil => have := congrArg List.length hd; simp at this; omega
    | cons a b => exact ⟨a, b, rfl⟩
  have hfr_all : h.frames = fr :: (first ++ g :: gs) := by
    rw [← List.take_append_drop 100 h.frames, hfirst, hgs]; rfl
  have hok1 : ∀ x ∈ fr :: (first ++ g :: gs), x.OK h.protectionAbsent := by rw [← hfr_all]; exact hfrs
  have hfr := hok1 fr List.mem_cons_self
  have hb : build h = [] ++ (fr :: (first ++ g :: gs)).flatMap (frameBytes h) := by simp [build, hfr_all]
  have hb2 : build h = [] ++ (toBE 7 (headerWord h fr) ++ (fr.body ++ (first ++ g :: gs).flatMap (frameBytes h))) := by
    simp [build, hfr_all, frameBytes]
  have hsync : sync (build h) ⟨0, 0⟩ 512 = some ⟨0, 12⟩ := by
    have := sync_at_frame [] (fr.body ++ (first ++ g :: gs).flatMap (frameBytes h)) (headerWord h fr) 512 (by decide) (headerWord_sync h ok fr hfr)
    rw [← hb2] at this
    exact this
  have hlen100 : (fr :: first).length = 100 := by rw [← hfirst]; exact htl
  have hloop := framesLoop_prefix h ok first fr g gs hok1 []
    { r := ⟨0, 12⟩, key := none, offset := 0, parsedFrames := 0, samples := 0, payloadBits := 0, lastBits := 0 } rfl (Or.inl rfl)
  rw [← hb, hlen100] at hloop
  have hfirst8 : ∃ t, build h = 0xff :: t := by
    have hw := headerWord_sync h ok fr hfr
    have : toBE 7 (headerWord h fr) = 0xff :: (toBE 7 (headerWord h fr)).tail := by
      simp only [toBE, toLE, List.reverse_cons, List.reverse_nil, List.nil_append, List.cons_append, List.tail_cons]
      congr 1
      have : headerWord h fr / 256 / 256 / 256 / 256 / 256 / 256 % 256 = 255 := by omega
      rw [this]; rfl
    exact ⟨_, by rw [hb2, this]; rfl⟩
  obtain ⟨t, ht⟩ := hfirst8
  have hnid : startsWith (readAt (build h) 0 10) magicID3 = false := by
    rw [ht]; simp [startsWith, readAt, magicID3]
  have hnadif : ¬ (readAt (build h) 0 4 = magicADIF) := by
    rw [ht]; simp [readAt, magicADIF]
  obtain ⟨hrow, hnz⟩ := freqs_rows h.sfIndex hsf
  have hsamp : samplesOf (fr :: first) ≠ 0 := by simp [samplesOf]
  have hnb : ∀ x ∈ fr :: first, x.nordbif < 4 := by
    intro x hx
    have : x ∈ fr :: (first ++ g :: gs) := by
      rcases List.mem_cons.mp hx with rfl | hx
      · exact List.mem_cons_self
      · exact List.mem_cons_of_mem _ (List.mem_append_left _ hx)
    exact (hok1 x this).2.2.1
  unfold parse
  simp only [hnid, Bool.false_eq_true, if_false, hnadif, parseAdts, tries, findStream, hsync, Nat.sub_self, Nat.zero_div,
    Nat.zero_add, hloop]
  simp only [show (100 : Nat) ≥ 3 by decide, if_true, Option.getD_some, keyOf, List.getD_cons_succ, List.getD_cons_zero, hrow,
    channels_rows h.chanConfig hcc]
  have hd : 8 * ([] ++ (fr :: first).flatMap (frameBytes h) : Bytes).length / 8 = ((fr :: first).flatMap (frameBytes h)).length := by
    simp only [List.nil_append]; omega
  simp only [show ¬ ((100 : Nat) = 0) by decide, if_false, hsamp, hnz, ne_eq, not_false_eq_true, if_true, expectedFirst100, hfirst,
    payloadOf_eq_list h.protectionAbsent hpa _ hnb, rate, hd, Int.zero_add, Nat.add_zero, Int.natCast_one]
  rfl

end Mutagen.Info.Aac
