/- Proofs/Info/OptimFROG.lean — the OFR main header read back; the encoder-version string table -/
import MutagenModel.Proofs.Info.Common
import MutagenModel.Spec.Info.OptimFROG
set_option linter.unusedVariables false
namespace Mutagen.Info.OptimFROG
open Mutagen Mutagen.Info Mutagen.Spec.OptimFROG

def encCheck : Bool := (List.range 4096).all fun k => encoderString (k + 4500) == versionDigits (4500 + k)

theorem encCheck_ok : encCheck = true := by decide +kernel

theorem encoderString_eq (id : Nat) (h : id < 2 ^ 16) : encoderString (id / 16 + 4500) = versionString id := by
  have hc := encCheck_ok
  simp only [encCheck, List.all_eq_true, List.mem_range, beq_iff_eq] at hc
  exact hc (id / 16) (by omega)

theorem bits_rows : ∀ st < 8, (Generated.ofrSampleTypeBits.find? (·.1 == st)).map (·.2) = some (sampleTypeBits.getD st 0) := by
  decide

theorem length_build (h : Fields) : (build h).length = 20 + (extBytes h.ext).length := by
  unfold build
  simp only [List.length_append, length_toLE]
  have : Spec.OptimFROG.magic.length = 4 := rfl
  rw [this]

theorem parse_build (h : Fields) (ok : h.OK) (rest : Bytes) (hlen : 76 ≤ (build h ++ rest).length) :
    parse (build h ++ rest) = .ok (expected h) := by
  obtain ⟨hts, hst, hc1, hc2, hr1, hr2, hext⟩ := ok
  have h76 : (readAt (build h ++ rest) 0 76).length = 76 := length_readAt_of_le _ _ _ (by omega)
  have hmagic : startsWith (readAt (build h ++ rest) 0 76) magic = true := by
    simp only [startsWith, readAt_readAt _ _ _ _ _ (show 0 + magic.length ≤ 76 by decide)]
    unfold build
    simp only [List.append_assoc, magic, Spec.OptimFROG.magic]
    rd_simp
    rfl
  have hfix : uLE (readAt (build h ++ rest) 0 76) 4 4 = blockSize h.ext ∧
      uLE (readAt (build h ++ rest) 0 76) 8 4 = h.totalSamples % 2 ^ 32 ∧
      uLE (readAt (build h ++ rest) 0 76) 12 2 = h.totalSamples / 2 ^ 32 ∧
      uLE (readAt (build h ++ rest) 0 76) 14 1 = h.sampleType ∧
      uLE (readAt (build h ++ rest) 0 76) 15 1 = h.channels - 1 ∧
      uLE (readAt (build h ++ rest) 0 76) 16 4 = h.rate := by
    have hbs : blockSize h.ext < 2 ^ 32 := by
      cases he : h.ext with
      | none => decide
      | some e => have := (hext e he).2.2; simpa [blockSize] using this
    refine ⟨?_, ?_, ?_, ?_, ?_, ?_⟩
    all_goals
      simp only [uLE, readAt_readAt _ _ _ _ _ (show 4 + 4 ≤ 76 by decide), readAt_readAt _ _ _ _ _ (show 8 + 4 ≤ 76 by decide),
        readAt_readAt _ _ _ _ _ (show 12 + 2 ≤ 76 by decide), readAt_readAt _ _ _ _ _ (show 14 + 1 ≤ 76 by decide),
        readAt_readAt _ _ _ _ _ (show 15 + 1 ≤ 76 by decide), readAt_readAt _ _ _ _ _ (show 16 + 4 ≤ 76 by decide)]
      unfold build
      simp only [List.append_assoc, Spec.OptimFROG.magic]
      rd_simp
      first
        | exact ofLE_toLE 4 _ (by omega)
        | exact ofLE_toLE 2 _ (by omega)
        | exact ofLE_toLE 1 _ (by omega)
  obtain ⟨hsz, hlo, hhi, hty, hch, hrate⟩ := hfix
  have hrne : h.rate ≠ 0 := by omega
  unfold parse
  simp only [h76, hmagic, hsz, hlo, hhi, hty, hch, hrate, bits_rows h.sampleType hst]
  have htot : h.totalSamples % 2 ^ 32 + h.totalSamples / 2 ^ 32 * 2 ^ 32 = h.totalSamples := by omega
  have hchan : h.channels - 1 + 1 = h.channels := by omega
  rw [htot, hchan]
  cases he : h.ext with
  | none =>
    simp [blockSize, expected, he, hrne]
  | some e =>
    obtain ⟨hid, hcomp, hsize⟩ := hext e he
    have henc : uLE (readAt (build h ++ rest) 0 76) 20 2 = e.encoderId := by
      simp only [uLE, readAt_readAt _ _ _ _ _ (show 20 + 2 ≤ 76 by decide)]
      unfold build
      simp only [List.append_assoc, Spec.OptimFROG.magic, he, extBytes]
      rd_simp
      exact ofLE_toLE 2 _ (by omega)
    have h1 : ¬ (15 + e.extra.length ≠ 12 ∧ 15 + e.extra.length < 15) := by omega
    have h2 : 15 + e.extra.length ≥ 15 := by omega
    simp only [blockSize, h1, h2, henc, encoderString_eq _ hid, expected, he]
    simp [hrne]


theorem parse_total (f : Bytes) : ∀ e, parse f = .error e → e = .mutagen := by
  intro e he
  unfold parse at he
  simp only at he
  split at he
  · cases he; rfl
  · split at he
    · cases he; rfl
    · cases he

end Mutagen.Info.OptimFROG
