/- Proofs/Info/Mp4File.lean — `MP4Info` on specification-built files: the walk through the box tree -/
import MutagenModel.Proofs.Info.Mp4Tree
import MutagenModel.Proofs.Info.Mp4
import MutagenModel.Proofs.Info.Mp4Esds
import MutagenModel.Spec.Info.Mp4
set_option linter.unusedVariables false
set_option linter.unusedSimpArgs false
namespace Mutagen.Info.Mp4
open Mutagen Mutagen.Mp4C Mutagen.Info Mutagen.Spec.Mp4Info

/-! ### where things are in the file -/

/-- the bytes `b` stand at offset `o` of `f` -/
def At (f : Bytes) (o : Nat) (b : Bytes) : Prop := ∃ P R, f = P ++ b ++ R ∧ P.length = o

theorem At.elem {f : Bytes} {o : Nat} (xs : List Atom) (a : Atom) (ys : List Atom) (h : At f o (renderList (xs ++ a :: ys)))
    (hx : wfList xs) : At f (o + sizeList xs) a.render := by
  obtain ⟨P, R, hf, hP⟩ := h
  refine ⟨P ++ renderList xs, renderList ys ++ R, ?_, by simp [hP, length_renderList xs hx]⟩
  rw [hf, renderList_append]; simp [renderList, List.append_assoc]

theorem At.kids {f : Bytes} {o : Nat} (n : Bytes) (w : Bool) (s : Bytes) (cs : List Atom) (h : At f o (Atom.node n w s cs).render)
    (hn : n.length = 4) : At f (o + hdrLen w + s.length) (renderList cs) := by
  obtain ⟨P, R, hf, hP⟩ := h
  refine ⟨P ++ header n w (hdrLen w + s.length + sizeList cs) ++ s, R, ?_, by simp [hP, length_header _ _ _ hn]; omega⟩
  rw [hf]; simp [Atom.render, List.append_assoc]

theorem atomRead_leaf {f : Bytes} {o : Nat} (n : Bytes) (w : Bool) (p : Bytes) (h : At f o (Atom.leaf n w p).render) (hn : n.length = 4) :
    atomRead f (pOf o (.leaf n w p)) = some p := by
  obtain ⟨P, R, hf, hP⟩ := h
  have hf2 : f = (P ++ header n w (hdrLen w + p.length)) ++ p ++ R := by rw [hf]; simp [Atom.render, List.append_assoc]
  have hl : (P ++ header n w (hdrLen w + p.length)).length = o + hdrLen w := by simp [hP, length_header _ _ _ hn]
  unfold atomRead
  simp only [pOf, PAtom.length, PAtom.dataoffset, PAtom.offset]
  have hn' : hdrLen w + p.length - (o + hdrLen w - o) = p.length := by omega
  have hr : readAt f (o + hdrLen w) p.length = p := by rw [hf2, ← hl]; exact readAt_mid _ _ _
  simp only [hn', hr, ↓reduceIte]

/-! ### looking boxes up -/

theorem pOf_name (o : Nat) (a : Atom) : (pOf o a).name = a.name := by
  cases a <;> simp [pOf, PAtom.name, Atom.name]

theorem pOf_children_leaf (o : Nat) (n : Bytes) (w : Bool) (p : Bytes) : (pOf o (.leaf n w p)).children = [] := rfl
theorem pOf_children_node (o : Nat) (n : Bytes) (w : Bool) (s : Bytes) (cs : List Atom) :
    (pOf o (.node n w s cs)).children = pListOf (o + hdrLen w + s.length) cs := rfl

theorem child?_pListOf (o : Nat) (xs : List Atom) (a : Atom) (ys : List Atom) (name : Bytes)
    (hx : ∀ x ∈ xs, x.name ≠ name) (ha : a.name = name) :
    child? (pListOf o (xs ++ a :: ys)) name = some (pOf (o + sizeList xs) a) := by
  induction xs generalizing o with
  | nil => simp [child?, pListOf, pOf_name, ha, sizeList]
  | cons x r ih =>
    have h1 : ¬ (pOf o x).name = name := by rw [pOf_name]; exact hx x (by simp)
    have := ih (o + x.size) (fun y hy => hx y (by simp [hy]))
    simp only [child?] at this ⊢
    simp only [List.cons_append, pListOf, List.find?_cons, h1, decide_false]
    rw [this]; simp [sizeList, Nat.add_assoc]


/-! ### the boxes of a specification-built file -/

def mdhdL (h : Fields) : Atom := .leaf nMdhd false (mdhdPayload h.mdhd)
def hdlrL (h : Fields) : Atom := .leaf nHdlr false (h.hdlrHead ++ nSoun ++ h.hdlrRest)
def stblN (h : Fields) : Atom := .node nStbl false [] (stsdAtom h :: h.stblAfter)
def minfN (h : Fields) : Atom := .node nMinf false [] (h.minfBefore ++ [stblN h])
def trakN (h : Fields) : Atom := .node nTrak false [] (h.trakBefore ++ [mdiaAtom h] ++ h.trakAfter)
def moovN (h : Fields) : Atom := .node nMoov false [] (h.moovBefore ++ [trakN h] ++ h.moovAfter)

theorem mdia_eq (h : Fields) : mdiaAtom h = .node nMdia false [] [mdhdL h, hdlrL h, minfN h] := rfl
theorem tree_eq (h : Fields) : tree h = h.before ++ moovN h :: h.after := by simp [tree, moovN, trakN]

/-- the loop over the children of `moov` in front of the audio track -/
theorem findAudioTrak_skip (f : Bytes) (o : Nat) (xs : List Atom) (rest : List PAtom) (hx : ∀ x ∈ xs, x.name ≠ nTrak) (ys : List Atom) :
    findAudioTrak f (pListOf o (xs ++ ys)) = findAudioTrak f (pListOf (o + sizeList xs) ys) := by
  induction xs generalizing o with
  | nil => simp [sizeList]
  | cons x r ih =>
    have h1 : ¬ (pOf o x).name = nTrak := by rw [pOf_name]; exact hx x (by simp)
    simp only [List.cons_append, pListOf, findAudioTrak, h1, ↓reduceIte]
    rw [ih (o + x.size) (fun y hy => hx y (by simp [hy]))]
    simp [sizeList, Nat.add_assoc]


theorem wf_node_kids {n : Bytes} {w : Bool} {s : Bytes} {cs : List Atom} (h : (Atom.node n w s cs).wf) : wfList cs := by
  simp only [Atom.wf] at h; exact h.2.2.2.2

theorem wfList_mid {xs ys : List Atom} {a : Atom} (h : wfList (xs ++ a :: ys)) : wfList xs ∧ a.wf ∧ wfList ys := by
  rw [wfList_append] at h; simp only [wfList] at h; exact ⟨h.1, h.2.1, h.2.2⟩

/-- well-formedness of the parts, from the well-formedness of the whole tree -/
theorem wf_parts (h : Fields) (hw : wfList (tree h)) :
    wfList h.before ∧ (moovN h).wf ∧ wfList h.moovBefore ∧ (trakN h).wf ∧ wfList h.trakBefore ∧ (mdiaAtom h).wf ∧
    (minfN h).wf ∧ wfList h.minfBefore ∧ (stblN h).wf ∧ (stsdAtom h).wf := by
  rw [tree_eq] at hw
  obtain ⟨w1, wm, _⟩ := wfList_mid hw
  have k1 : wfList (h.moovBefore ++ trakN h :: h.moovAfter) := by
    have := wf_node_kids wm; simpa [List.append_assoc] using this
  obtain ⟨w2, wt, _⟩ := wfList_mid k1
  have k2 : wfList (h.trakBefore ++ mdiaAtom h :: h.trakAfter) := by
    have := wf_node_kids wt; simpa [List.append_assoc] using this
  obtain ⟨w3, wd, _⟩ := wfList_mid k2
  have k3 := wf_node_kids (show (Atom.node nMdia false [] [mdhdL h, hdlrL h, minfN h]).wf from wd)
  simp only [wfList] at k3
  obtain ⟨_, _, wmi, _⟩ := k3
  have k4 : wfList (h.minfBefore ++ stblN h :: []) := wf_node_kids wmi
  obtain ⟨w4, ws, _⟩ := wfList_mid k4
  have k5 := wf_node_kids ws
  simp only [wfList] at k5
  exact ⟨w1, wm, w2, wt, w3, wd, wmi, w4, ws, k5.1⟩


theorem name_mdhdL (h : Fields) : (mdhdL h).name = nMdhd := rfl
theorem name_hdlrL (h : Fields) : (hdlrL h).name = nHdlr := rfl

theorem size_leaf (n p : Bytes) : (Atom.leaf n false p).size = 8 + p.length := by simp [Atom.size, hdrLen]

/-- the three lookups `MP4Info.load` does inside the audio track, and what `read` gives for them -/
theorem trak_lookups (h : Fields) (hw : wfList (tree h)) (hmd : ∀ x ∈ h.trakBefore, x.name ≠ nMdia)
    (hsb : ∀ x ∈ h.minfBefore, x.name ≠ nStbl) (f : Bytes) (o : Nat) (hat : At f o (trakN h).render) :
    (∃ a, (path? (pOf o (trakN h)).children [nMdia, nHdlr]).bind List.getLast? = some a ∧
        atomRead f a = some (h.hdlrHead ++ nSoun ++ h.hdlrRest)) ∧
    (∃ a, (path? (pOf o (trakN h)).children [nMdia, nMdhd]).bind List.getLast? = some a ∧
        atomRead f a = some (mdhdPayload h.mdhd)) ∧
    (∃ a, (path? (pOf o (trakN h)).children [nMdia, nMinf, nStbl, nStsd]).bind List.getLast? = some a ∧
        atomRead f a = some (toBE 1 0 ++ toBE 3 h.stsdFlags ++ toBE 4 h.entryCount ++ (entryAtom h).render ++ h.moreEntries)) := by
  obtain ⟨_, _, _, wt, w3, wd, wmi, w4, ws, wsd⟩ := wf_parts h hw
  -- where the boxes are
  have a1 : At f (o + 8 + 0) (renderList (h.trakBefore ++ mdiaAtom h :: h.trakAfter)) := by
    have := At.kids nTrak false [] (h.trakBefore ++ [mdiaAtom h] ++ h.trakAfter) hat (by decide)
    simpa [hdrLen, List.append_assoc] using this
  have a2 := At.elem _ _ _ a1 w3
  rw [mdia_eq] at a2
  have a3 := At.kids nMdia false [] [mdhdL h, hdlrL h, minfN h] a2 (by decide)
  have b1 := At.elem [] (mdhdL h) [hdlrL h, minfN h] a3 (by simp [wfList])
  have wmd : (mdhdL h).wf := by rw [mdia_eq] at wd; have := wf_node_kids wd; simp only [wfList] at this; exact this.1
  have whd : (hdlrL h).wf := by rw [mdia_eq] at wd; have := wf_node_kids wd; simp only [wfList] at this; exact this.2.1
  have b2 := At.elem [mdhdL h] (hdlrL h) [minfN h] a3 (by simp [wfList, wmd])
  have b3 := At.elem [mdhdL h, hdlrL h] (minfN h) [] a3 (by simp [wfList, wmd, whd])
  have c1 := At.kids nMinf false [] (h.minfBefore ++ [stblN h]) b3 (by decide)
  have c2 := At.elem h.minfBefore (stblN h) [] c1 w4
  have c3 := At.kids nStbl false [] (stsdAtom h :: h.stblAfter) c2 (by decide)
  have c4 := At.elem [] (stsdAtom h) h.stblAfter c3 (by simp [wfList])
  -- the lookups
  have k0 : (pOf o (trakN h)).children = pListOf (o + 8 + 0) (h.trakBefore ++ mdiaAtom h :: h.trakAfter) := by
    simp [trakN, pOf, PAtom.children, hdrLen, List.append_assoc]
  have k1 := child?_pListOf (o + 8 + 0) h.trakBefore (mdiaAtom h) h.trakAfter nMdia hmd rfl
  generalize hom : o + 8 + 0 + sizeList h.trakBefore = om at *
  have k2 : (pOf om (mdiaAtom h)).children = pListOf (om + hdrLen false + ([] : Bytes).length) [mdhdL h, hdlrL h, minfN h] := by
    rw [mdia_eq]; rfl
  have n1 : ¬ (pOf (om + hdrLen false + ([] : Bytes).length) (mdhdL h)).name = nHdlr := by rw [pOf_name, name_mdhdL]; decide
  have n2 : ¬ (pOf (om + hdrLen false + ([] : Bytes).length) (mdhdL h)).name = nMinf := by rw [pOf_name, name_mdhdL]; decide
  have e1 : (pOf (om + hdrLen false + ([] : Bytes).length) (mdhdL h)).name = nMdhd := by rw [pOf_name]; rfl
  refine ⟨?_, ?_, ?_⟩
  · refine ⟨pOf (om + hdrLen false + ([] : Bytes).length + sizeList [mdhdL h]) (hdlrL h), ?_, atomRead_leaf _ _ _ b2 (by decide)⟩
    have := child?_pListOf (om + hdrLen false + ([] : Bytes).length) [mdhdL h] (hdlrL h) [minfN h] nHdlr
      (by intro x hx; simp only [List.mem_singleton] at hx; subst hx; rw [name_mdhdL]; decide) rfl
    simp only [path?, k0, k1, k2, List.singleton_append] at this ⊢
    simp only [this, Option.map, pOf_children_leaf, hdlrL, child?, List.find?_nil, Option.bind, List.getLast?]
    rfl
  · refine ⟨pOf (om + hdrLen false + ([] : Bytes).length + sizeList []) (mdhdL h), ?_, atomRead_leaf _ _ _ b1 (by decide)⟩
    have := child?_pListOf (om + hdrLen false + ([] : Bytes).length) [] (mdhdL h) [hdlrL h, minfN h] nMdhd
      (by intro x hx; cases hx) rfl
    simp only [path?, k0, k1, k2, List.nil_append] at this ⊢
    simp only [this, Option.map, mdhdL, pOf_children_leaf, Option.bind, List.getLast?]
    rfl
  · have m1 := child?_pListOf (om + hdrLen false + ([] : Bytes).length) [mdhdL h, hdlrL h] (minfN h) [] nMinf
      (by intro x hx; simp only [List.mem_cons, List.mem_nil_iff, or_false] at hx; rcases hx with hx | hx <;> subst hx <;> (first | (rw [name_mdhdL]; decide) | (rw [name_hdlrL]; decide))) rfl
    generalize hoi : om + hdrLen false + ([] : Bytes).length + sizeList [mdhdL h, hdlrL h] = oi at *
    have m2 : (pOf oi (minfN h)).children = pListOf (oi + hdrLen false + ([] : Bytes).length) (h.minfBefore ++ stblN h :: []) := rfl
    have m3 := child?_pListOf (oi + hdrLen false + ([] : Bytes).length) h.minfBefore (stblN h) [] nStbl hsb rfl
    generalize hos : oi + hdrLen false + ([] : Bytes).length + sizeList h.minfBefore = os at *
    have m4 : (pOf os (stblN h)).children = pListOf (os + hdrLen false + ([] : Bytes).length) ([] ++ stsdAtom h :: h.stblAfter) := rfl
    have m5 := child?_pListOf (os + hdrLen false + ([] : Bytes).length) [] (stsdAtom h) h.stblAfter nStsd (by intro x hx; cases hx) rfl
    refine ⟨pOf (os + hdrLen false + ([] : Bytes).length + sizeList []) (stsdAtom h), ?_, atomRead_leaf _ _ _ c4 (by decide)⟩
    simp only [List.singleton_append, List.cons_append, List.nil_append] at m1
    simp only [path?, k0, k1, k2, m1, m2, m3, m4, m5, Option.map, stsdAtom, pOf_children_leaf, Option.bind, List.getLast?]
    rfl


/-! ### the codec-specific boxes -/

theorem parseAlac_cookie (e : Entry) (c : AlacCookie) (ok : c.OK) :
    parseAlac e (alacPayload c) = .ok { e with sampleSize := c.bitDepth, channels := c.numChannels, bitrate := c.avgBitRate,
                                               sampleRate := c.sampleRate } := by
  obtain ⟨h1, h2, h3, h4, h5, h6, h7, h8, h9, h10⟩ := ok
  have hp : alacPayload c = [0, 0, 0, 0] ++ (toBE 4 c.frameLength ++ (toBE 1 0 ++ (toBE 1 c.bitDepth ++ (toBE 1 c.pb ++ (toBE 1 c.mb ++ (toBE 1 c.kb ++
      (toBE 1 c.numChannels ++ (toBE 2 c.maxRun ++ (toBE 4 c.maxFrameBytes ++ (toBE 4 c.avgBitRate ++ toBE 4 c.sampleRate)))))))))) := by
    simp only [alacPayload, List.append_assoc]
  generalize hd : (toBE 4 c.frameLength ++ (toBE 1 0 ++ (toBE 1 c.bitDepth ++ (toBE 1 c.pb ++ (toBE 1 c.mb ++ (toBE 1 c.kb ++
      (toBE 1 c.numChannels ++ (toBE 2 c.maxRun ++ (toBE 4 c.maxFrameBytes ++ (toBE 4 c.avgBitRate ++ toBE 4 c.sampleRate)))))))))) = d at hp
  have hdl : d.length = 24 := by rw [← hd]; simp
  unfold parseAlac fullAtom
  rw [hp]
  have hv : ofBE (([0, 0, 0, 0] ++ d : Bytes).take 1) = 0 := by
    show ofBE [0] = 0; decide
  have hdr : ([0, 0, 0, 0] ++ d : Bytes).drop 4 = d := rfl
  have hl4 : ¬ ([0, 0, 0, 0] ++ d : Bytes).length < 4 := by simp
  simp only [hl4, ↓reduceIte, hv, hdr, ne_eq, not_true_eq_false, hdl, (show ¬ (24 < 5) by omega), (show ¬ (24 < 24) by omega)]
  have r4 : readAt d 4 1 = toBE 1 0 := by rw [← hd]; read_field
  have r5 : readAt d 5 1 = toBE 1 c.bitDepth := by rw [← hd]; read_field
  have r9 : readAt d 9 1 = toBE 1 c.numChannels := by rw [← hd]; read_field
  have r16 : readAt d 16 4 = toBE 4 c.avgBitRate := by rw [← hd]; read_field
  have r20 : readAt d 20 4 = toBE 4 c.sampleRate := by rw [← hd]; read_field
  simp only [r4, r5, r9, r16, r20, ofBE_toBE 1 0 (by decide), ne_eq, not_true_eq_false, ↓reduceIte,
    ofBE_toBE 1 _ (show c.bitDepth < 256 ^ 1 by omega), ofBE_toBE 1 _ (show c.numChannels < 256 ^ 1 by omega),
    ofBE_toBE 4 _ (show c.avgBitRate < 256 ^ 4 by omega), ofBE_toBE 4 _ (show c.sampleRate < 256 ^ 4 by omega)]

theorem parseDac3_box (e : Entry) (d : Dac3) (ok : d.OK) :
    parseDac3 e (dac3Payload d) = .ok { e with channels := Spec.Tables.ac3Channels.getD d.acmod 0 + d.lfeon,
                                                bitrate := Spec.Tables.ac3Bitrates.getD d.bitRateCode 0 * 1000 } := by
  obtain ⟨h1, h2, h3, h4, h5, h6, h7⟩ := ok
  unfold parseDac3 dac3Payload
  have hl : ¬ (toBE 3 (d.fscod * 2 ^ 22 + d.bsid * 2 ^ 17 + d.bsmod * 2 ^ 14 + d.acmod * 2 ^ 11 + d.lfeon * 2 ^ 10 + d.bitRateCode * 2 ^ 5 + d.reserved)).length < 3 := by
    simp
  rw [if_neg hl, List.take_of_length_le (by simp), ofBE_toBE 3 _ (by omega)]
  have a1 : (d.fscod * 2 ^ 22 + d.bsid * 2 ^ 17 + d.bsmod * 2 ^ 14 + d.acmod * 2 ^ 11 + d.lfeon * 2 ^ 10 + d.bitRateCode * 2 ^ 5 + d.reserved) / 2 ^ 11 % 8 = d.acmod := by omega
  have a2 : (d.fscod * 2 ^ 22 + d.bsid * 2 ^ 17 + d.bsmod * 2 ^ 14 + d.acmod * 2 ^ 11 + d.lfeon * 2 ^ 10 + d.bitRateCode * 2 ^ 5 + d.reserved) / 2 ^ 10 % 2 = d.lfeon := by omega
  have a3 : (d.fscod * 2 ^ 22 + d.bsid * 2 ^ 17 + d.bsmod * 2 ^ 14 + d.acmod * 2 ^ 11 + d.lfeon * 2 ^ 10 + d.bitRateCode * 2 ^ 5 + d.reserved) / 2 ^ 5 % 32 = d.bitRateCode := by omega
  simp only [a1, a2, a3]
  have t1 : Generated.ac3Channels = Spec.Tables.ac3Channels := by decide
  have t2 : Generated.ac3Bitrates = Spec.Tables.ac3Bitrates := by decide
  rw [t1, t2]
  have hb : Spec.Tables.ac3Bitrates[d.bitRateCode]? = some (Spec.Tables.ac3Bitrates.getD d.bitRateCode 0) := by
    have : d.bitRateCode < Spec.Tables.ac3Bitrates.length := by simpa [Spec.Tables.ac3Bitrates] using h6
    simp [List.getD, List.getElem?_eq_getElem this]
  simp only [hb]


/-! ### the sample entry -/

theorem extra_wf (c : Codec) (ok : c.OK) : c.extra.wf ∧ c.extra.height ≤ 60 ∧
    (!isContainer (pOf 28 c.extra).name && decide ((pOf 28 c.extra).offset + (pOf 28 c.extra).length ≥ 2 ^ 63)) = false := by
  cases c with
  | plain n x =>
    simp only [Codec.OK] at ok
    obtain ⟨_, _, hw, hh, _, _, _, hsz⟩ := ok
    refine ⟨hw, hh, ?_⟩
    cases x with
    | leaf nm w pl =>
      have := hsz nm w pl rfl
      simp only [Codec.extra, pOf, PAtom.name, PAtom.offset, PAtom.length, Atom.size] at this ⊢
      simp only [Bool.and_eq_false_imp, Bool.not_eq_true', decide_eq_false_iff_not]
      intro _; omega
    | node nm w sk cs =>
      simp only [Atom.wf] at hw
      simp [Codec.extra, pOf, PAtom.name, hw.2.1]
  | alac c =>
    simp only [Codec.OK] at ok
    refine ⟨?_, by simp [Codec.extra, Atom.height], ?_⟩
    · simp only [Codec.extra, Atom.wf]
      refine ⟨by decide, by decide, ?_⟩
      simp [hdrLen, alacPayload]
    · simp [Codec.extra, pOf, PAtom.name, PAtom.offset, PAtom.length, hdrLen, alacPayload]
  | dac3 d =>
    refine ⟨?_, by simp [Codec.extra, Atom.height], ?_⟩
    · simp only [Codec.extra, Atom.wf]
      refine ⟨by decide, by decide, ?_⟩
      simp [hdrLen, dac3Payload]
    · simp [Codec.extra, pOf, PAtom.name, PAtom.offset, PAtom.length, hdrLen, dac3Payload]
  | esds e =>
    simp only [Codec.OK] at ok
    have hl := ok.2.2.2.2.2.2.2.2.2.2.2.2
    have hp : (esdsPayload e).length < 200 := by
      simp only [esdsPayload, List.length_append, List.length_cons, List.length_nil]
      have : (descSize e.longForm (esBody e).length).length ≤ 4 := by unfold descSize; split <;> simp
      omega
    refine ⟨?_, by simp [Codec.extra, Atom.height], ?_⟩
    · simp only [Codec.extra, Atom.wf]
      refine ⟨by decide, by decide, ?_⟩
      simp only [hdrLen, Bool.false_eq_true, ↓reduceIte]; omega
    · simp only [Codec.extra, pOf, PAtom.name, PAtom.offset, PAtom.length, hdrLen, Bool.false_eq_true, ↓reduceIte,
        Bool.and_eq_false_imp, Bool.not_eq_true', decide_eq_false_iff_not]
      intro _; omega

theorem leaf_name (n : Bytes) (w : Bool) (p : Bytes) : (Atom.leaf n w p).name = n := rfl

theorem codec_name (c : Codec) (ok : c.OK) : c.name.length = 4 ∧ isContainer c.name = false := by
  cases c with
  | plain n x => simp only [Codec.OK] at ok; exact ⟨ok.1, ok.2.1⟩
  | alac c => exact ⟨by simp only [Codec.name]; decide, by simp only [Codec.name]; decide⟩
  | dac3 d => exact ⟨by simp only [Codec.name]; decide, by simp only [Codec.name]; decide⟩
  | esds e => exact ⟨by simp only [Codec.name]; decide, by simp only [Codec.name]; decide⟩

theorem sampleEntry_build (h : Fields) (eok : h.entry.OK) (cok : h.codec.OK) :
    sampleEntry ((entryAtom h).render ++ h.moreEntries) (pOf 0 (entryAtom h)) = .ok (entryExpected h.entry h.codec) := by
  obtain ⟨hn4, hnc⟩ := codec_name h.codec cok
  obtain ⟨xwf, xh, xov⟩ := extra_wf h.codec cok
  have hread : atomRead ((entryAtom h).render ++ h.moreEntries) (pOf 0 (entryAtom h)) =
      some (entryFixed h.entry ++ h.codec.extra.render ++ h.entryMore) :=
    atomRead_leaf _ _ _ ⟨[], h.moreEntries, by simp [entryAtom], rfl⟩ hn4
  have hbase := entryBase_fixed h.entry eok (h.codec.extra.render ++ h.entryMore)
  have hat : atomAt (entryFixed h.entry ++ h.codec.extra.render ++ h.entryMore) 28 = .ok (pOf 28 h.codec.extra) := by
    unfold atomAt
    have := parseAtom_render h.codec.extra xwf (entryFixed h.entry) h.entryMore
      ((entryFixed h.entry ++ h.codec.extra.render ++ h.entryMore).length + 4) 0
      (by simp [Atom.length_render _ xwf]; omega) (by omega)
    rw [length_entryFixed] at this
    rw [this]
    simp only [xov, Bool.false_eq_true, ↓reduceIte]
  unfold sampleEntry
  rw [hread]
  simp only [List.append_assoc] at hbase hat ⊢
  rw [hbase]
  simp only []
  rw [hat]
  simp only [pOf_name]
  cases hc : h.codec with
  | plain n x =>
    rw [hc] at cok
    simp only [Codec.OK] at cok
    obtain ⟨_, _, _, _, c1, c2, c3, _⟩ := cok
    simp only [entryAtom, hc, Codec.name, Codec.extra, leaf_name, c1, c2, c3, ↓reduceIte, entryExpected]
  | alac c =>
    rw [hc] at cok
    have hx : atomRead (entryFixed h.entry ++ ((Codec.alac c).extra.render ++ h.entryMore)) (pOf 28 (Codec.alac c).extra) = some (alacPayload c) := by
      refine atomRead_leaf _ _ _ ⟨entryFixed h.entry, h.entryMore, by simp [Codec.extra, List.append_assoc], length_entryFixed _⟩ (by decide)
    have n1 : ¬ (nAlac = nMp4a ∧ nAlac = nEsds) := by decide
    simp only [entryAtom, hc, Codec.name, Codec.extra, leaf_name, n1, and_self, ↓reduceIte] at hx ⊢
    rw [hx]
    simp only [parseAlac_cookie _ c cok, entryExpected]
  | dac3 d =>
    rw [hc] at cok
    have hx : atomRead (entryFixed h.entry ++ ((Codec.dac3 d).extra.render ++ h.entryMore)) (pOf 28 (Codec.dac3 d).extra) = some (dac3Payload d) := by
      refine atomRead_leaf _ _ _ ⟨entryFixed h.entry, h.entryMore, by simp [Codec.extra, List.append_assoc], length_entryFixed _⟩ (by decide)
    have n1 : ¬ (nAc3 = nMp4a ∧ nDac3 = nEsds) := by decide
    have n2 : ¬ (nAc3 = nAlac ∧ nDac3 = nAlac) := by decide
    simp only [entryAtom, hc, Codec.name, Codec.extra, leaf_name, n1, n2, and_self, ↓reduceIte] at hx ⊢
    rw [hx]
    simp only [parseDac3_box _ d cok, entryExpected]
  | esds e =>
    rw [hc] at cok
    have hx : atomRead (entryFixed h.entry ++ ((Codec.esds e).extra.render ++ h.entryMore)) (pOf 28 (Codec.esds e).extra) = some (esdsPayload e) := by
      refine atomRead_leaf _ _ _ ⟨entryFixed h.entry, h.entryMore, by simp [Codec.extra, List.append_assoc], length_entryFixed _⟩ (by decide)
    simp only [entryAtom, hc, Codec.name, Codec.extra, leaf_name, and_self, ↓reduceIte] at hx ⊢
    rw [hx]
    simp only [parseEsds_build _ e cok, esdsResult_expected h.entry e cok]


/-! ### `stsd` and the whole file -/

theorem parseStsd_build (h : Fields) (i : Info) (hfl : h.stsdFlags < 2 ^ 24) (hc1 : 1 ≤ h.entryCount) (hc2 : h.entryCount < 2 ^ 32)
    (eok : h.entry.OK) (cok : h.codec.OK) (hsz : (entryAtom h).size < 2 ^ 32) :
    parseStsd i (toBE 1 0 ++ toBE 3 h.stsdFlags ++ toBE 4 h.entryCount ++ (entryAtom h).render ++ h.moreEntries) =
      .ok { i with channels := (entryExpected h.entry h.codec).channels, bitsPerSample := (entryExpected h.entry h.codec).sampleSize,
                   sampleRate := (entryExpected h.entry h.codec).sampleRate, bitrate := (entryExpected h.entry h.codec).bitrate,
                   codecName := h.codec.name, codecParam := (entryExpected h.entry h.codec).codecParam } := by
  obtain ⟨hn4, hnc⟩ := codec_name h.codec cok
  have hp : toBE 1 0 ++ toBE 3 h.stsdFlags ++ toBE 4 h.entryCount ++ (entryAtom h).render ++ h.moreEntries =
      (toBE 1 0 ++ toBE 3 h.stsdFlags) ++ (toBE 4 h.entryCount ++ ((entryAtom h).render ++ h.moreEntries)) := by
    simp only [List.append_assoc]
  have hwf : (entryAtom h).wf := by
    simp only [entryAtom, Atom.wf]
    refine ⟨hn4, hnc, ?_⟩
    simpa [entryAtom, Atom.size] using hsz
  unfold parseStsd fullAtom
  rw [hp]
  have hl4 : ¬ ((toBE 1 0 ++ toBE 3 h.stsdFlags) ++ (toBE 4 h.entryCount ++ ((entryAtom h).render ++ h.moreEntries))).length < 4 := by
    simp; omega
  have hv : ofBE (((toBE 1 0 ++ toBE 3 h.stsdFlags) ++ (toBE 4 h.entryCount ++ ((entryAtom h).render ++ h.moreEntries))).take 1) = 0 := by
    rw [List.append_assoc, List.take_left' (by simp)]; exact ofBE_toBE 1 0 (by decide)
  have hd : ((toBE 1 0 ++ toBE 3 h.stsdFlags) ++ (toBE 4 h.entryCount ++ ((entryAtom h).render ++ h.moreEntries))).drop 4 =
      toBE 4 h.entryCount ++ ((entryAtom h).render ++ h.moreEntries) := List.drop_left' (by simp)
  have hl4' : ¬ (toBE 4 h.entryCount ++ ((entryAtom h).render ++ h.moreEntries)).length < 4 := by simp
  have ht : (toBE 4 h.entryCount ++ ((entryAtom h).render ++ h.moreEntries)).take 4 = toBE 4 h.entryCount := List.take_left' (by simp)
  have hdd : (toBE 4 h.entryCount ++ ((entryAtom h).render ++ h.moreEntries)).drop 4 = (entryAtom h).render ++ h.moreEntries :=
    List.drop_left' (by simp)
  have hne : ¬ h.entryCount = 0 := by omega
  simp only [hl4, ↓reduceIte, hv, hd, ne_eq, not_true_eq_false, hl4', ht, hdd, ofBE_toBE 4 _ (show h.entryCount < 256 ^ 4 by omega), hne]
  have hat : atomAt ((entryAtom h).render ++ h.moreEntries) 0 = .ok (pOf 0 (entryAtom h)) := by
    unfold atomAt
    have := parseAtom_render (entryAtom h) hwf [] h.moreEntries (((entryAtom h).render ++ h.moreEntries).length + 4) 0
      (by simp [Atom.length_render _ hwf]; omega) (by simp [entryAtom, Atom.height])
    simp only [List.nil_append, List.length_nil] at this
    rw [this]
    have : (!isContainer (pOf 0 (entryAtom h)).name && decide ((pOf 0 (entryAtom h)).offset + (pOf 0 (entryAtom h)).length ≥ 2 ^ 63)) = false := by
      simp only [entryAtom, pOf, PAtom.name, PAtom.offset, PAtom.length, Atom.size] at hsz ⊢
      simp only [Bool.and_eq_false_imp, Bool.not_eq_true', decide_eq_false_iff_not]
      intro _; omega
    simp only [this, Bool.false_eq_true, ↓reduceIte]
  rw [hat]
  simp only []
  rw [sampleEntry_build h eok cok]
  simp only [pOf_name, entryAtom, leaf_name]

theorem mdhd_exact (m : Mdhd) (ok : m.OK) : mdhdLength (mdhdPayload m) = .ok (mdhdExpected m) := by
  have := mdhd_build m ok []
  rwa [List.append_nil] at this

/-- `MP4Info` on a specification-built file -/
theorem parse_build (h : Fields) (ok : h.OK) : Mp4.parse (build h) = .ok (expected h) := by
  obtain ⟨hw, hh, htl, hb, hmb, htb, hib, hmd, hhd, hfl, hc1, hc2, eok, cok⟩ := ok
  obtain ⟨w1, wm, w2, wt, w3, wd, wmi, w4, ws, wsd⟩ := wf_parts h hw
  have hparse := parse_render (tree h) hw hh h.tail htl
  -- where the boxes are
  have a0 : At (build h) 0 (renderList (h.before ++ moovN h :: h.after)) := ⟨[], h.tail, by simp [build, tree_eq], rfl⟩
  have a1 := At.elem _ _ _ a0 w1
  have a2 : At (build h) (0 + sizeList h.before + 8 + 0) (renderList (h.moovBefore ++ trakN h :: h.moovAfter)) := by
    have := At.kids nMoov false [] (h.moovBefore ++ [trakN h] ++ h.moovAfter) a1 (by decide)
    simpa [hdrLen, List.append_assoc] using this
  have a3 := At.elem _ _ _ a2 w2
  obtain ⟨⟨hd, hd1, hd2⟩, ⟨md, md1, md2⟩, ⟨sd, sd1, sd2⟩⟩ := trak_lookups h hw htb hib (build h) _ a3
  -- the lookups
  have hmoov := child?_pListOf 0 h.before (moovN h) h.after nMoov hb rfl
  have hkids : (pOf (0 + sizeList h.before) (moovN h)).children = pListOf (0 + sizeList h.before + 8 + 0) (h.moovBefore ++ trakN h :: h.moovAfter) := by
    simp [moovN, pOf, PAtom.children, hdrLen, List.append_assoc]
  have hfind : findAudioTrak (build h) (pListOf (0 + sizeList h.before + 8 + 0) (h.moovBefore ++ trakN h :: h.moovAfter)) =
      .ok (some (pOf (0 + sizeList h.before + 8 + 0 + sizeList h.moovBefore) (trakN h))) := by
    rw [findAudioTrak_skip _ _ _ [] hmb]
    have hnm : (pOf (0 + sizeList h.before + 8 + 0 + sizeList h.moovBefore) (trakN h)).name = nTrak := by rw [pOf_name]; rfl
    simp only [pListOf, findAudioTrak, hnm, ↓reduceIte, hd1, hd2]
    have hs : readAt (h.hdlrHead ++ nSoun ++ h.hdlrRest) 8 4 = nSoun := by
      have := Mp4C.readAt_mid h.hdlrHead nSoun h.hdlrRest
      rw [hhd] at this; exact this
    simp only [hs, ↓reduceIte]
  -- the stsd entry fits 32 bits because the stsd box does
  have hsz : (entryAtom h).size < 2 ^ 32 := by
    have := wsd
    simp only [stsdAtom, Atom.wf, hdrLen, Bool.false_eq_true, ↓reduceIte, List.length_append] at this
    have hl := this.2.2
    obtain ⟨hn4, hnc⟩ := codec_name h.codec cok
    have hr : (entryAtom h).render.length = (entryAtom h).size := by
      simp [entryAtom, Atom.render, Atom.size, length_header _ _ _ hn4]
    omega
  unfold Mp4.parse build
  rw [← tree_eq] at hmoov
  have hb' : renderList (tree h) ++ h.tail = build h := rfl
  rw [hparse]
  simp only [hmoov, hkids, hb', hfind, md1, md2, mdhd_exact h.mdhd hmd, sd1, sd2]
  rw [parseStsd_build h _ hfl hc1 hc2 eok cok hsz]
  rfl


/-! ### every byte string -/

theorem fullAtom_clean (d : Bytes) (e : PyErr) (h : fullAtom d = .error e) : e = .mutagen := by
  unfold fullAtom at h; split at h
  · cases h; rfl
  · cases h

theorem atomAt_clean (d : Bytes) (pos : Nat) (e : PyErr) (h : atomAt d pos = .error e) : e = .mutagen := by
  unfold atomAt at h
  split at h
  · rename_i e' he; cases h
    exact ((parse_core d (d.length + 4)).1 pos 0 (by omega)).1 _ he
  · split at h
    · cases h; rfl
    · cases h

theorem parseEsds_clean (b : Entry) (x : Bytes) (e : PyErr) (h : parseEsds b x = .error e) : e = .mutagen := by
  unfold parseEsds at h
  split at h
  · rename_i e' he; cases h; exact fullAtom_clean _ _ he
  · split at h
    · cases h; rfl
    · simp only [] at h
      split at h
      · cases h; rfl
      · cases h

theorem parseAlac_clean (b : Entry) (x : Bytes) (e : PyErr) (h : parseAlac b x = .error e) : e = .mutagen := by
  unfold parseAlac at h
  split at h
  · rename_i e' he; cases h; exact fullAtom_clean _ _ he
  · repeat' (split at h)
    all_goals (first | (cases h; rfl) | cases h)

theorem parseDac3_clean (b : Entry) (x : Bytes) (e : PyErr) (h : parseDac3 b x = .error e) : e = .mutagen := by
  unfold parseDac3 at h
  split at h
  · cases h; rfl
  · cases h

theorem sampleEntry_clean (d : Bytes) (ea : PAtom) (e : PyErr) (h : sampleEntry d ea = .error e) : e = .mutagen := by
  unfold sampleEntry at h
  split at h
  · cases h; rfl
  · split at h
    · rename_i e' he; cases h
      unfold entryBase at he; split at he
      · cases he; rfl
      · cases he
    · split at h
      · rename_i e' he; cases h; exact atomAt_clean _ _ _ he
      · simp only [] at h
        split at h
        · split at h
          · rename_i e' he; cases h
            split at he
            · cases he; rfl
            · cases he
          · exact parseEsds_clean _ _ _ h
        · split at h
          · split at h
            · rename_i e' he; cases h
              split at he
              · cases he; rfl
              · cases he
            · exact parseAlac_clean _ _ _ h
          · split at h
            · split at h
              · rename_i e' he; cases h
                split at he
                · cases he; rfl
                · cases he
              · exact parseDac3_clean _ _ _ h
            · cases h

theorem parseStsd_clean (i : Info) (x : Bytes) (e : PyErr) (h : parseStsd i x = .error e) : e = .mutagen := by
  unfold parseStsd at h
  split at h
  · rename_i e' he; cases h; exact fullAtom_clean _ _ he
  · split at h
    · cases h; rfl
    · split at h
      · cases h; rfl
      · split at h
        · cases h
        · simp only [] at h
          split at h
          · rename_i e' he; cases h; exact atomAt_clean _ _ _ he
          · split at h
            · rename_i e' he; cases h; exact sampleEntry_clean _ _ _ he
            · cases h

theorem findAudioTrak_clean (f : Bytes) (l : List PAtom) (e : PyErr) (h : findAudioTrak f l = .error e) : e = .mutagen := by
  induction l with
  | nil => cases h
  | cons t r ih =>
    unfold findAudioTrak at h
    split at h
    · split at h
      · cases h; rfl
      · split at h
        · cases h; rfl
        · split at h
          · cases h
          · exact ih h
    · exact ih h

/-- every exception of `Atoms(fileobj)` + `MP4Info.load` under the handlers of `MP4.load` is the module's error -/
theorem parse_clean (f : Bytes) (e : PyErr) (h : Mp4.parse f = .error e) : e = .mutagen := by
  unfold Mp4.parse at h
  split at h
  · rename_i e' he; cases h; exact Mp4C.parse_clean f _ he
  · split at h
    · cases h; rfl
    · split at h
      · rename_i e' he; cases h; exact findAudioTrak_clean _ _ _ he
      · cases h
      · split at h
        · cases h; rfl
        · split at h
          · cases h; rfl
          · split at h
            · cases h; rfl
            · simp only [] at h
              split at h
              · cases h
              · split at h
                · cases h; rfl
                · exact parseStsd_clean _ _ _ h

end Mutagen.Info.Mp4
