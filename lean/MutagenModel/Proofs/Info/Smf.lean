/- Proofs/Info/Smf.lean — SMF: the loops end and raise nothing but SMFError; the variable-length quantity; the stream
information of the specification side. -/
import MutagenModel.Model.Info.Smf
set_option linter.unusedVariables false
set_option linter.unusedSimpArgs false
namespace Mutagen.Info.Smf
open Mutagen Mutagen.Info

/-! ### totality -/

theorem varIntGo_spec : ∀ (l : Bytes) (val off : Nat),
    (∀ e, varIntGo l val off = .error e → e = .mutagen) ∧ (∀ v o, varIntGo l val off = .ok (v, o) → off < o) := by
  intro l
  induction l with
  | nil => intro val off; exact ⟨fun e h => (by simp [varIntGo] at h; exact h.symm), fun v o h => (by simp [varIntGo] at h)⟩
  | cons x r ih =>
    intro val off
    simp only [varIntGo]
    by_cases h1 : val * 128 + x.toNat % 128 > 0x0FFFFFFF
    · simp only [h1, ↓reduceIte]
      exact ⟨fun e h => (by cases h; rfl), fun v o h => by cases h⟩
    · simp only [h1, ↓reduceIte]
      by_cases h2 : x.toNat / 128 % 2 = 0
      · simp only [h2, ↓reduceIte]
        exact ⟨fun e h => (by cases h), fun v o h => by cases h; omega⟩
      · simp only [h2, ↓reduceIte]
        obtain ⟨i1, i2⟩ := ih (val * 128 + x.toNat % 128) (off + 1)
        exact ⟨i1, fun v o h => by have := i2 v o h; omega⟩

theorem varInt_err (d : Bytes) (off : Nat) (e : PyErr) (h : varInt d off = .error e) : e = .mutagen :=
  (varIntGo_spec _ _ _).1 e h

theorem varInt_adv (d : Bytes) (off v o : Nat) (h : varInt d off = .ok (v, o)) : off < o :=
  (varIntGo_spec _ _ _).2 v o h

/-- a round of the track loop raises SMFError or moves on -/
theorem trackStep_spec (chunk : Bytes) (s : TrackState) :
    (∀ e, trackStep chunk s = .error e → e = .mutagen) ∧ (∀ s', trackStep chunk s = .ok s' → s.off < s'.off) := by
  unfold trackStep
  cases hv : varInt chunk s.off with
  | error e0 =>
    have := varInt_err _ _ _ hv
    subst this
    exact ⟨fun e h => (by cases h; rfl), fun s' h => by cases h⟩
  | ok p =>
    obtain ⟨delta, off⟩ := p
    have hadv := varInt_adv _ _ _ _ hv
    simp only
    by_cases c1 : off ≥ chunk.length
    · simp only [c1, ↓reduceIte]; exact ⟨fun e h => (by cases h; rfl), fun s' h => by cases h⟩
    · simp only [c1, ↓reduceIte]
      by_cases c2 : (chunk.getD off 0).toNat = 0xFF
      · simp only [c2, ↓reduceIte]
        by_cases c3 : off + 1 ≥ chunk.length
        · simp only [c3, ↓reduceIte]; exact ⟨fun e h => (by cases h; rfl), fun s' h => by cases h⟩
        · simp only [c3, ↓reduceIte]
          cases hv2 : varInt chunk (off + 1 + 1) with
          | error e0 =>
            have := varInt_err _ _ _ hv2
            subst this
            exact ⟨fun e h => (by cases h; rfl), fun s' h => by cases h⟩
          | ok p2 =>
            obtain ⟨num, off2⟩ := p2
            have hadv2 := varInt_adv _ _ _ _ hv2
            by_cases c4 : (chunk.getD (off + 1) 0).toNat = 0x51
            · simp only [c4, ↓reduceIte]
              by_cases c5 : (readAt chunk off2 num).length ≠ 3
              · rw [if_pos c5]; exact ⟨fun e h => (by cases h; rfl), fun s' h => by cases h⟩
              · rw [if_neg c5]
                exact ⟨fun e h => (by cases h), fun s' h => by cases h; simp only; omega⟩
            · simp only [c4, ↓reduceIte]
              exact ⟨fun e h => (by cases h), fun s' h => by cases h; simp only; omega⟩
      · simp only [c2, ↓reduceIte]
        by_cases c6 : (chunk.getD off 0).toNat = 0xF0 ∨ (chunk.getD off 0).toNat = 0xF7
        · simp only [c6, ↓reduceIte]
          cases hv2 : varInt chunk (off + 1) with
          | error e0 =>
            have := varInt_err _ _ _ hv2
            subst this
            exact ⟨fun e h => (by cases h; rfl), fun s' h => by cases h⟩
          | ok p2 =>
            obtain ⟨val, off2⟩ := p2
            have hadv2 := varInt_adv _ _ _ _ hv2
            exact ⟨fun e h => (by cases h), fun s' h => by cases h; simp only; omega⟩
        · simp only [c6, ↓reduceIte]
          by_cases c7 : (chunk.getD off 0).toNat < 0x80
          · simp only [c7, ↓reduceIte]
            refine ⟨fun e h => (by cases h), fun s' h => ?_⟩
            cases h
            simp only
            split <;> omega
          · simp only [c7, ↓reduceIte]
            by_cases c8 : (chunk.getD off 0).toNat < 0xF0
            · simp only [c8, ↓reduceIte]
              refine ⟨fun e h => (by cases h), fun s' h => ?_⟩
              cases h
              simp only
              split <;> omega
            · simp only [c8, ↓reduceIte]; exact ⟨fun e h => (by cases h; rfl), fun s' h => by cases h⟩

/-- the fuel is never used up -/
theorem trackLoop_total (chunk : Bytes) : ∀ (fuel : Nat) (s : TrackState), chunk.length < s.off + fuel →
    ∀ e, trackLoop chunk fuel s = .error e → e = .mutagen := by
  intro fuel
  induction fuel with
  | zero =>
    intro s hs e h
    simp only [trackLoop] at h
    rw [if_neg (by omega)] at h
    cases h
  | succ n ih =>
    intro s hs e h
    simp only [trackLoop] at h
    by_cases c : s.off < chunk.length
    · simp only [c, ↓reduceIte] at h
      obtain ⟨t1, t2⟩ := trackStep_spec chunk s
      cases hst : trackStep chunk s with
      | error e0 => rw [hst] at h; cases h; exact t1 _ hst
      | ok s' =>
        rw [hst] at h
        exact ih s' (by have := t2 s' hst; omega) e h
    · simp only [c, ↓reduceIte] at h; cases h

theorem readTrack_clean (chunk : Bytes) (e : PyErr) (h : readTrack chunk = .error e) : e = .mutagen := by
  unfold readTrack at h
  cases ht : trackLoop chunk (chunk.length + 1) {} with
  | error e0 => rw [ht] at h; cases h; exact trackLoop_total chunk _ _ (by simp) _ ht
  | ok s => rw [ht] at h; cases h

theorem readChunk_clean (f : Bytes) (pos : Nat) (e : PyErr) (h : readChunk f pos = .error e) : e = .mutagen := by
  unfold readChunk at h
  simp only at h
  split at h
  · cases h; rfl
  · split at h
    · cases h; rfl
    · cases h

theorem tracksLoop_clean (f : Bytes) (format : Nat) : ∀ (n pos : Nat) (first : Option (List (Nat × Nat))) (e : PyErr),
    tracksLoop f format n pos first = .error e → e = .mutagen := by
  intro n
  induction n with
  | zero => intro pos first e h; cases h
  | succ k ih =>
    intro pos first e h
    simp only [tracksLoop] at h
    cases hc : readChunk f pos with
    | error e0 => rw [hc] at h; cases h; exact readChunk_clean _ _ _ hc
    | ok p =>
      obtain ⟨ident, chunk, pos'⟩ := p
      rw [hc] at h
      simp only at h
      split at h
      · exact ih _ _ _ h
      · cases hr : readTrack chunk with
        | error e0 => rw [hr] at h; cases h; exact readTrack_clean _ _ hr
        | ok q =>
          obtain ⟨events, tempos⟩ := q
          rw [hr] at h
          simp only at h
          split at h
          · rename_i e1 he1; cases h; exact ih _ _ _ he1
          · cases h

/-- `SMFInfo(fileobj)` / `SMF.load` on every byte string: a length or SMFError -/
theorem parse_clean (f : Bytes) (e : PyErr) (h : parse f = .error e) : e = .mutagen := by
  unfold parse at h
  cases hc : readChunk f 0 with
  | error e0 => rw [hc] at h; cases h; exact readChunk_clean _ _ _ hc
  | ok p =>
    obtain ⟨ident, chunk, pos⟩ := p
    rw [hc] at h
    simp only at h
    generalize ofBE (chunk.take 2) = fmt at h
    generalize ofBE ((chunk.drop 2).take 2) = ntr at h
    generalize ofBE (chunk.drop 4) = div at h
    by_cases c1 : ident ≠ [0x4D, 0x54, 0x68, 0x64]
    · rw [if_pos c1] at h; cases h; rfl
    rw [if_neg c1] at h
    by_cases c2 : chunk.length ≠ 6
    · rw [if_pos c2] at h; cases h; rfl
    rw [if_neg c2] at h
    by_cases c3 : fmt > 1
    · rw [if_pos c3] at h; cases h; rfl
    rw [if_neg c3] at h
    by_cases c4 : div / 2 ^ 15 ≠ 0
    · rw [if_pos c4] at h; cases h; rfl
    rw [if_neg c4] at h
    by_cases c5 : div = 0
    · rw [if_pos c5] at h; cases h; rfl
    rw [if_neg c5] at h
    cases ht : tracksLoop f fmt ntr pos none with
    | error e0 => rw [ht] at h; cases h; exact tracksLoop_clean _ _ _ _ _ _ ht
    | ok tracks =>
      rw [ht] at h
      simp only at h
      split at h
      · cases h; rfl
      · cases h

end Mutagen.Info.Smf
