/- Proofs/Info/Wave.lean — `WaveStreamInfo` on specification-built RIFF/WAVE files, and on every byte string -/
import MutagenModel.Proofs.Info.Bytes
import MutagenModel.Spec.Info.Wave
set_option linter.unusedVariables false
set_option linter.unusedSimpArgs false
namespace Mutagen.Info.Wave
open Mutagen Mutagen.Iff Mutagen.Info Mutagen.Spec Mutagen.Spec.Wave

theorem length_fmtData (h : Fields) : (fmtData h).length = 16 + h.ext.length := by
  simp [fmtData]; omega

theorem chunks_eq (h : Fields) :
    chunks h = mkChunk (ascii "fmt ") (fmtData h) :: (factChunks h ++ [mkChunk (ascii "data") h.data]) := by
  simp [chunks]

theorem wave_sizeW : wave.sizeW = 4 := rfl
theorem wave_hs : hs wave = 8 := rfl

theorem fmt_ok (h : Fields) (ok : h.OK) : (mkChunk (ascii "fmt ") (fmtData h)).OK wave := by
  refine mkChunk_ok wave _ _ (by decide) (by decide) (by decide) ?_
  rw [length_fmtData, wave_sizeW]; unfold Fields.OK at ok; omega

theorem data_ok (h : Fields) (ok : h.OK) : (mkChunk (ascii "data") h.data).OK wave := by
  refine mkChunk_ok wave _ _ (by decide) (by decide) (by decide) ?_
  rw [wave_sizeW]; unfold Fields.OK at ok; omega

theorem fact_ok (h : Fields) : ∀ c ∈ factChunks h, c.OK wave := by
  intro c hc
  unfold factChunks at hc
  split at hc
  · simp only [List.mem_singleton] at hc; subst hc
    exact mkChunk_ok wave _ _ (by decide) (by decide) (by decide) (by simp [wave_sizeW])
  · cases hc

theorem chunks_ok (h : Fields) (ok : h.OK) : ∀ c ∈ chunks h, c.OK wave := by
  intro c hc
  rw [chunks_eq] at hc
  simp only [List.mem_cons, List.mem_append, List.mem_nil_iff, or_false] at hc
  rcases hc with hc | hc | hc
  · subst hc; exact fmt_ok h ok
  · exact fact_ok h c hc
  · subst hc; exact data_ok h ok

theorem length_factChunks (h : Fields) : (renderChunks wave (factChunks h)).length = if h.fact.isSome then 12 else 0 := by
  unfold factChunks
  cases h.fact with
  | none => simp [renderChunks]
  | some n => simp [renderChunks, length_render_mk wave _ _ (show (ascii "fact").length = 4 by decide), wave_hs]

theorem length_chunks (h : Fields) : (renderChunks wave (chunks h)).length =
    (8 + (16 + h.ext.length) + (16 + h.ext.length) % 2) + ((if h.fact.isSome then 12 else 0) +
      (8 + h.data.length + h.data.length % 2)) := by
  rw [chunks_eq]
  simp only [renderChunks, renderChunks_append, List.length_append, List.length_nil, Nat.add_zero,
    length_render_mk wave _ _ (show (ascii "fmt ").length = 4 by decide),
    length_render_mk wave _ _ (show (ascii "data").length = 4 by decide), length_factChunks, wave_hs, length_fmtData]

theorem sid_fmt (x : Bytes) : sid (mkChunk (ascii "fmt ") x) = idFmt := by
  show (chunkId (ascii "fmt ")).getD [] = idFmt; decide
theorem sid_data (x : Bytes) : sid (mkChunk (ascii "data") x) = idData := by
  show (chunkId (ascii "data")).getD [] = idData; decide
theorem sid_fact (x : Bytes) : sid (mkChunk (ascii "fact") x) = ascii "fact" := by
  show (chunkId (ascii "fact")).getD [] = ascii "fact"; decide

theorem ofFmt_fmtData (h : Fields) (ok : h.OK) (c : Option Rec) :
    ofFmt (fmtData h) c =
    { audioFormat := h.formatTag, channels := h.channels, sampleRate := h.sampleRate,
      bitsPerSample := h.bitsPerSample, bitrate := h.channels * h.bitsPerSample * h.sampleRate,
      length := .div (match c with | some c => .div (.nat c.dataSize) (.nat h.blockAlign) | none => .int 0) (.nat h.sampleRate) } := by
  obtain ⟨h1, h2, h3, h4, h5, h6, h7, h8, h9, _⟩ := ok
  have r0 : readAt (fmtData h) 0 2 = toLE 2 h.formatTag := by
    simp [fmtData, readAt, List.drop_append, List.take_append, length_toLE, drop_toLE_ge, take_toLE_ge]
  have r2 : readAt (fmtData h) 2 2 = toLE 2 h.channels := by
    simp [fmtData, readAt, List.drop_append, List.take_append, length_toLE, drop_toLE_ge, take_toLE_ge]
  have r4 : readAt (fmtData h) 4 4 = toLE 4 h.sampleRate := by
    simp [fmtData, readAt, List.drop_append, List.take_append, length_toLE, drop_toLE_ge, take_toLE_ge]
  have r12 : readAt (fmtData h) 12 2 = toLE 2 h.blockAlign := by
    simp [fmtData, readAt, List.drop_append, List.take_append, length_toLE, drop_toLE_ge, take_toLE_ge]
  have r14 : readAt (fmtData h) 14 2 = toLE 2 h.bitsPerSample := by
    simp [fmtData, readAt, List.drop_append, List.take_append, length_toLE, drop_toLE_ge, take_toLE_ge]
  unfold ofFmt
  simp only [r0, r2, r4, r12, r14, ofLE_toLE 2 _ (show h.formatTag < 256 ^ 2 by omega),
    ofLE_toLE 2 _ (show h.channels < 256 ^ 2 by omega), ofLE_toLE 4 _ (show h.sampleRate < 256 ^ 4 by omega),
    ofLE_toLE 2 _ (show h.blockAlign < 256 ^ 2 by omega), ofLE_toLE 2 _ (show h.bitsPerSample < 256 ^ 2 by omega)]
  have hb : h.blockAlign > 0 := by omega
  have hr : h.sampleRate > 0 := by omega
  simp only [hb, hr, ↓reduceIte]
  cases c <;> rfl

/-- what the code computes on a specification-built file -/
theorem parse_build (h : Fields) (ok : h.OK) (rest : Bytes) :
    parse (build h ++ rest) = .ok
      { audioFormat := h.formatTag, channels := h.channels, sampleRate := h.sampleRate,
        bitsPerSample := h.bitsPerSample, bitrate := h.channels * h.bitsPerSample * h.sampleRate,
        length := .div (.div (.nat h.data.length) (.nat h.blockAlign)) (.nat h.sampleRate) } := by
  have hcok := chunks_ok h ok
  have hlen := length_chunks h
  have hname : NameOK wave (ascii "WAVE") := by decide
  have hsz : (ascii "WAVE").length + (renderChunks wave (chunks h)).length < 256 ^ wave.sizeW := by
    rw [hlen, wave_sizeW, show (ascii "WAVE").length = 4 by decide]
    unfold Fields.OK at ok; split <;> omega
  unfold parse build
  rw [parseRoot_rest wave wf_wave _ hname _ _ hsz]
  simp only []
  rw [walk_rest wave wf_wave _ (by decide) _ _ hcok (by rw [hlen]; split <;> omega)]
  simp only []
  -- the fmt chunk is the first one
  have hfind := find_first wave [idFmt] (hs wave + 4) [] (mkChunk (ascii "fmt ") (fmtData h))
    (factChunks h ++ [mkChunk (ascii "data") h.data]) (by intro c hc; cases hc) (by rw [sid_fmt]; decide)
  rw [List.nil_append, ← chunks_eq] at hfind
  rw [hfind]
  simp only [renderChunks, List.length_nil, Nat.add_zero]
  -- its data
  have hfile : renderFile wave (ascii "WAVE") (chunks h) ++ rest =
      (wave.rootId ++ enc wave ((ascii "WAVE").length + (renderChunks wave (chunks h)).length) ++ ascii "WAVE") ++
        (mkChunk (ascii "fmt ") (fmtData h)).render wave ++
        (renderChunks wave (factChunks h ++ [mkChunk (ascii "data") h.data]) ++ rest) := by
    rw [chunks_eq]; simp [renderFile, renderChunks, List.append_assoc]
  have hP : (wave.rootId ++ enc wave ((ascii "WAVE").length + (renderChunks wave (chunks h)).length) ++ ascii "WAVE").length
      = hs wave + 4 := by
    simp [hs, show wave.rootId.length = 4 by decide, show (ascii "WAVE").length = 4 by decide, wave_sizeW]
  have hread := chunkRead_mid wave (wave.rootId ++ enc wave ((ascii "WAVE").length + (renderChunks wave (chunks h)).length) ++ ascii "WAVE") (renderChunks wave (factChunks h ++ [mkChunk (ascii "data") h.data]) ++ rest)
    _ (fmt_ok h ok)
  rw [← hfile, hP] at hread
  simp only [hread]
  have hnl : ¬ (mkChunk (ascii "fmt ") (fmtData h)).data.length < 16 := by
    simp [mkChunk, length_fmtData]
  simp only [if_neg hnl]
  -- the data chunk
  have hfd := find_first wave [idData] (hs wave + 4) (mkChunk (ascii "fmt ") (fmtData h) :: factChunks h)
    (mkChunk (ascii "data") h.data) []
    (by
      intro c hc
      simp only [List.mem_cons] at hc
      rcases hc with hc | hc
      · subst hc; rw [sid_fmt]; decide
      · unfold factChunks at hc
        split at hc
        · simp only [List.mem_singleton] at hc; subst hc; rw [sid_fact]; decide
        · cases hc)
    (by rw [sid_data]; decide)
  have hcs : chunks h = (mkChunk (ascii "fmt ") (fmtData h) :: factChunks h) ++ mkChunk (ascii "data") h.data :: [] := by
    rw [chunks_eq]; simp
  rw [← hcs] at hfd
  simp only [hfd]
  simp only [mkChunk, ofFmt_fmtData h ok, recOf]

/-- every exception of `WaveStreamInfo(fileobj)` is a MutagenError -/
theorem parse_clean (f : Bytes) (e : PyErr) (h : parse f = .error e) : e = .mutagen := by
  unfold parse at h
  split at h
  · rename_i e' he; cases h; exact parseRoot_clean wave f _ he
  · split at h
    · rename_i e' he; cases h; exact walk_clean wave f _ _ he
    · split at h
      · cases h; rfl
      · simp only [] at h
        split at h
        · cases h; rfl
        · cases h

end Mutagen.Info.Wave
