/- Proofs/Info/Dsdiff.lean — `DSDIFFInfo` on specification-built DSDIFF files, and on every byte string -/
import MutagenModel.Proofs.Info.Bytes
import MutagenModel.Spec.Info.Dsdiff
set_option linter.unusedVariables false
set_option linter.unusedSimpArgs false
namespace Mutagen.Info.Dsdiff
open Mutagen Mutagen.Iff Mutagen.Info Mutagen.Spec Mutagen.Spec.Dsdiff

theorem dd_hs : hs dsdiff = 12 := rfl
theorem dd_sizeW : dsdiff.sizeW = 8 := rfl

/-- a container chunk of the specification side is one the walk accepts -/
theorem mkChunk_ok_container (d : Dialect) (id data : Bytes) (ns : Nat) (hid : id.length = 4) (hc : (chunkId id).isSome = true)
    (hnc : d.containers.lookup ((chunkId id).getD []) = some ns) (hlen : data.length < 256 ^ d.sizeW)
    (hns : ns ≤ data.length) (hasc : (data.take ns).all (fun b => b.toNat < 128) = true) :
    (mkChunk id data).OK d := by
  refine ⟨⟨hid, hlen, ?_, ?_⟩, by simp [mkChunk]⟩
  · simp only [sid, mkChunk]
    cases h : chunkId id with
    | none => rw [h] at hc; cases hc
    | some s => rfl
  · unfold containerOK; simp only [sid, mkChunk, hnc, Bool.and_eq_true]; exact ⟨decide_eq_true hns, hasc⟩

/-- `read()` of a chunk inside a chunk sequence that sits somewhere in the file -/
theorem chunkRead_in (d : Dialect) (P R : Bytes) (bs : List Chunk) (c : Chunk) (as : List Chunk) (h : c.OK d) :
    chunkRead d (P ++ renderChunks d (bs ++ c :: as) ++ R) (recOf (P.length + (renderChunks d bs).length) c) = c.data := by
  have hf : P ++ renderChunks d (bs ++ c :: as) ++ R = (P ++ renderChunks d bs) ++ c.render d ++ (renderChunks d as ++ R) := by
    simp [renderChunks_append, renderChunks, List.append_assoc]
  have := chunkRead_mid d (P ++ renderChunks d bs) (renderChunks d as ++ R) c h
  rw [← hf, List.length_append] at this
  exact this

/-- the nested walk over a well-formed chunk sequence that fills a container's (even-sized) data -/
theorem subWalk_chunks (d : Dialect) (P R : Bytes) (cs : List Chunk) (o ns dsz : Nat)
    (hok : ∀ c ∈ cs, c.OK d) (hP : P.length = o + hs d + ns) (hds : dsz = ns + (renderChunks d cs).length)
    (hev : dsz % 2 = 0) (id : Bytes) :
    subWalk d (P ++ renderChunks d cs ++ R) ⟨id, o, dsz⟩ ns = .ok (recsOf d (o + hs d + ns) cs) := by
  unfold subWalk
  simp only []
  have hl : (P ++ renderChunks d cs ++ R).length = o + hs d + dsz + R.length := by
    simp only [List.length_append, hP, hds]; omega
  have hact : actual (P ++ renderChunks d cs ++ R) (o + hs d) dsz = dsz := by
    unfold actual; rw [hl]; omega
  rw [hact]
  have hfuel : cs.length ≤ (P ++ renderChunks d cs ++ R).length := by
    have := length_le_renderChunks d cs (fun c hc => (hok c hc).1.1)
    simp only [List.length_append]; omega
  have := walkFrom_chunks_rest d cs P R (P ++ renderChunks d cs ++ R).length hok hfuel
  rw [hP] at this
  have he : o + hs d + dsz = o + hs d + ns + (renderChunks d cs).length := by omega
  rw [he]; exact this

/-- chunks that are not FS, CHNL or CMPR leave the loop's state alone -/
theorem propLoop_other (f : Bytes) (st : PropState) (o : Nat) (cs : List Chunk)
    (h : ∀ c ∈ cs, sid c ≠ idFS ∧ sid c ≠ idChnl ∧ sid c ≠ idCmpr) :
    propLoop f st (recsOf dsdiff o cs) = .ok st := by
  induction cs generalizing o with
  | nil => rfl
  | cons c r ih =>
    obtain ⟨h1, h2, h3⟩ := h c (by simp)
    simp only [recsOf, propLoop, propStep, recOf, h1, h2, h3, false_and, ↓reduceIte]
    exact ih _ (fun x hx => h x (by simp [hx]))

theorem sid_of (id x : Bytes) : sid (mkChunk id x) = (chunkId id).getD [] := rfl

/-! ### the pieces of a specification-built file -/

theorem ok_small (d : Dialect) (id data : Bytes) (hid : id.length = 4) (hc : (chunkId id).isSome = true)
    (hnc : d.containers.lookup ((chunkId id).getD []) = none) (hlen : data.length < 256 ^ d.sizeW) :
    (mkChunk id data).OK d := mkChunk_ok d id data hid hc hnc hlen

theorem propChunks_ok (h : Fields) (ok : h.OK) : ∀ c ∈ propChunks h, c.OK dsdiff := by
  obtain ⟨_, _, _, _, _, hid, hcn, _, hoth, _, hsz⟩ := ok
  intro c hc
  simp only [propChunks, List.mem_cons] at hc
  rcases hc with hc | hc | hc | hc
  · subst hc; exact mkChunk_ok dsdiff _ _ (by decide) (by decide) (by decide) (by simp [dd_sizeW])
  · subst hc; exact mkChunk_ok dsdiff _ _ (by decide) (by decide) (by decide) (by simp [dd_sizeW]; omega)
  · subst hc; exact mkChunk_ok dsdiff _ _ (by decide) (by decide) (by decide) (by
      have : h.audio.OK h.compressionType := by assumption
      have h4 : h.compressionType.length = 4 := by
        cases ha : h.audio <;> rw [ha] at this <;> simp only [Audio.OK] at this
        · rw [this]; decide
        · rw [this.1]; decide
      simp [dd_sizeW, h4]; omega)
  · exact hoth c (by simp [hc])

theorem length_propChunks (h : Fields) : (renderChunks dsdiff (propChunks h)).length =
    (12 + 4) + ((12 + (2 + h.channelIds.length) + (2 + h.channelIds.length) % 2) +
      ((12 + (h.compressionType.length + 1 + h.compressionName.length) + (h.compressionType.length + 1 + h.compressionName.length) % 2) +
        (renderChunks dsdiff h.propExtra).length)) := by
  simp only [propChunks, renderChunks, List.length_append,
    length_render_mk dsdiff _ _ (show (ascii "FS  ").length = 4 by decide),
    length_render_mk dsdiff _ _ (show (ascii "CHNL").length = 4 by decide),
    length_render_mk dsdiff _ _ (show (ascii "CMPR").length = 4 by decide), dd_hs, length_toBE,
    List.length_cons, List.length_nil]


def fverChunk (h : Fields) : Chunk := mkChunk (ascii "FVER") (toBE 4 h.version)

theorem chunks_eq (h : Fields) : chunks h = [fverChunk h] ++ propChunk h :: (audioChunk h :: h.after) := rfl
theorem chunks_eq2 (h : Fields) : chunks h = [fverChunk h, propChunk h] ++ audioChunk h :: h.after := rfl

theorem fver_ok (h : Fields) : (fverChunk h).OK dsdiff :=
  mkChunk_ok dsdiff _ _ (by decide) (by decide) (by decide) (by simp [dd_sizeW])

theorem length_propData (h : Fields) :
    (ascii "SND " ++ renderChunks dsdiff (propChunks h)).length = 4 + (renderChunks dsdiff (propChunks h)).length := by
  simp [show (ascii "SND ").length = 4 by decide]

theorem ctype_len (h : Fields) (ok : h.OK) : h.compressionType.length = 4 := by
  obtain ⟨_, _, _, _, _, _, _, this, _⟩ := ok
  cases ha : h.audio <;> rw [ha] at this <;> simp only [Audio.OK] at this
  · rw [this]; decide
  · rw [this.1]; decide

theorem prop_ok (h : Fields) (ok : h.OK) : (propChunk h).OK dsdiff := by
  have h4 := ctype_len h ok
  obtain ⟨_, _, _, _, _, hid, hcn, _, hoth, _, hsz⟩ := ok
  refine mkChunk_ok_container dsdiff _ _ 4 (by decide) (by decide) (by decide) ?_ ?_ ?_
  · rw [length_propData, length_propChunks, dd_sizeW, h4]; omega
  · rw [length_propData]; omega
  · rw [List.take_left' (by decide)]; decide

theorem frte_ok (n r : Nat) : (frteChunk n r).OK dsdiff :=
  mkChunk_ok dsdiff _ _ (by decide) (by decide) (by decide) (by simp [dd_sizeW])

theorem length_frte (n r : Nat) : ((frteChunk n r).render dsdiff).length = 18 := by
  simp [frteChunk, length_render_mk dsdiff _ _ (show (ascii "FRTE").length = 4 by decide), dd_hs]

theorem audio_ok (h : Fields) (ok : h.OK) : (audioChunk h).OK dsdiff := by
  obtain ⟨_, _, _, _, _, hid, hcn, ha, hoth, _, hsz⟩ := ok
  unfold audioChunk
  cases hau : h.audio with
  | dsd s =>
    simp only []
    refine mkChunk_ok dsdiff _ _ (by decide) (by decide) (by decide) ?_
    rw [hau] at hsz; simp only [Audio.bytes] at hsz; rw [dd_sizeW]; omega
  | dst n r fr =>
    simp only []
    refine mkChunk_ok_container dsdiff _ _ 0 (by decide) (by decide) (by decide) ?_ (by omega) (by simp)
    rw [hau] at hsz; simp only [Audio.bytes] at hsz
    simp only [renderChunks, List.length_append, length_frte, dd_sizeW]; omega

theorem length_audio (h : Fields) : ((audioChunk h).render dsdiff).length =
    match h.audio with
    | .dsd s => 12 + s.length + s.length % 2
    | .dst n r fr => 12 + (18 + (renderChunks dsdiff fr).length) + (18 + (renderChunks dsdiff fr).length) % 2 := by
  unfold audioChunk
  cases h.audio with
  | dsd s => simp only [length_render_mk dsdiff _ _ (show (ascii "DSD ").length = 4 by decide), dd_hs]
  | dst n r fr =>
    simp only [length_render_mk dsdiff _ _ (show (ascii "DST ").length = 4 by decide), dd_hs, renderChunks,
      List.length_append, length_frte]

theorem all_ok (h : Fields) (ok : h.OK) : ∀ x ∈ chunks h, x.OK dsdiff := by
  intro x hx
  simp only [chunks, List.mem_cons] at hx
  rcases hx with hx | hx | hx | hx
  · subst hx; exact fver_ok h
  · subst hx; exact prop_ok h ok
  · subst hx; exact audio_ok h ok
  · exact ok.2.2.2.2.2.2.2.2.1 x (by simp [hx])

theorem length_prop (h : Fields) : ((propChunk h).render dsdiff).length =
    12 + (4 + (renderChunks dsdiff (propChunks h)).length) + (4 + (renderChunks dsdiff (propChunks h)).length) % 2 := by
  simp only [propChunk, length_render_mk dsdiff _ _ (show (ascii "PROP").length = 4 by decide), dd_hs, length_propData]

theorem length_fver (h : Fields) : ((mkChunk (ascii "FVER") (toBE 4 h.version)).render dsdiff).length = 16 := by
  simp [length_render_mk dsdiff _ _ (show (ascii "FVER").length = 4 by decide), dd_hs]

theorem propChunks_even (h : Fields) (ok : h.OK) : (renderChunks dsdiff (propChunks h)).length % 2 = 0 :=
  renderChunks_even dsdiff (by decide) _ (propChunks_ok h ok)

theorem size_ok (h : Fields) (ok : h.OK) :
    (ascii "DSD ").length + (renderChunks dsdiff (chunks h)).length < 256 ^ dsdiff.sizeW := by
  have h4 := ctype_len h ok
  have hla := length_audio h
  obtain ⟨_, _, _, _, _, hid, hcn, _, hoth, _, hsz⟩ := ok
  simp only [chunks, renderChunks, List.length_append, length_fver, length_prop, length_propChunks, h4, dd_sizeW,
    show (ascii "DSD ").length = 4 by decide]
  cases hau : h.audio with
  | dsd s => rw [hau] at hla hsz; simp only [Audio.bytes] at hla hsz; omega
  | dst n r fr => rw [hau] at hla hsz; simp only [Audio.bytes] at hla hsz; omega


theorem sidFS (x : Bytes) : sid (mkChunk (ascii "FS  ") x) = idFS := by
  show (chunkId (ascii "FS  ")).getD [] = idFS; decide
theorem sidChnl (x : Bytes) : sid (mkChunk (ascii "CHNL") x) = idChnl := by
  show (chunkId (ascii "CHNL")).getD [] = idChnl; decide
theorem sidCmpr (x : Bytes) : sid (mkChunk (ascii "CMPR") x) = idCmpr := by
  show (chunkId (ascii "CMPR")).getD [] = idCmpr; decide

/-- the loop over the property chunks of a specification-built PROP chunk -/
theorem propLoop_build (h : Fields) (ok : h.OK) (P R : Bytes)
    (hasc : h.compressionType.all (fun b => b.toNat < 128) = true) :
    propLoop (P ++ renderChunks dsdiff (propChunks h) ++ R) {} (recsOf dsdiff P.length (propChunks h)) =
      .ok { sampleRate := h.sampleRate, channels := h.numChannels, compression := some (rstrip h.compressionType) } := by
  have h4 := ctype_len h ok
  have hpc := propChunks_ok h ok
  have ok' := ok
  obtain ⟨_, _, hr, _, hc, hid, hcn, _, hoth, hex, hsz⟩ := ok'
  generalize hA : mkChunk (ascii "FS  ") (toBE 4 h.sampleRate) = A
  generalize hB : mkChunk (ascii "CHNL") (toBE 2 h.numChannels ++ h.channelIds) = B
  generalize hC : mkChunk (ascii "CMPR") (h.compressionType ++ [UInt8.ofNat h.compressionName.length] ++ h.compressionName) = C
  have hpcs : propChunks h = A :: B :: C :: h.propExtra := by simp only [propChunks, hA, hB, hC]
  rw [hpcs] at hpc ⊢
  generalize hF : P ++ renderChunks dsdiff (A :: B :: C :: h.propExtra) ++ R = F
  have e1 : chunkRead dsdiff F (recOf P.length A) = A.data := by
    have := chunkRead_in dsdiff P R [] A (B :: C :: h.propExtra) (hpc _ (by simp))
    simp only [renderChunks, List.length_nil, Nat.add_zero, List.nil_append] at this
    rw [← hF]; exact this
  have e2 : chunkRead dsdiff F (recOf (P.length + (A.render dsdiff).length) B) = B.data := by
    have := chunkRead_in dsdiff P R [A] B (C :: h.propExtra) (hpc _ (by simp))
    simp only [renderChunks, List.length_nil, Nat.add_zero, List.append_nil, List.cons_append, List.nil_append] at this
    rw [← hF]; exact this
  have e3 : chunkRead dsdiff F (recOf (P.length + (A.render dsdiff).length + (B.render dsdiff).length) C) = C.data := by
    have := chunkRead_in dsdiff P R [A, B] C h.propExtra (hpc _ (by simp))
    simp only [renderChunks, List.length_nil, Nat.add_zero, List.append_nil, List.cons_append, List.nil_append,
      List.length_append, ← Nat.add_assoc] at this
    rw [← hF]; exact this
  have sA : sid A = idFS := by rw [← hA]; exact sidFS _
  have sB : sid B = idChnl := by rw [← hB]; exact sidChnl _
  have sC : sid C = idCmpr := by rw [← hC]; exact sidCmpr _
  have c1 : A.data.length = 4 := by rw [← hA]; simp [mkChunk]
  have c2 : B.data.length = 2 + h.channelIds.length := by rw [← hB]; simp [mkChunk]
  have c3 : C.data.length = 4 + 1 + h.compressionName.length := by rw [← hC]; simp [mkChunk, h4]; omega
  have t1 : A.data.take 4 = toBE 4 h.sampleRate := by rw [← hA]; simp [mkChunk, take_toBE_ge]
  have t2 : B.data.take 2 = toBE 2 h.numChannels := by
    rw [← hB]; simp only [mkChunk]; exact List.take_left' (by simp)
  have t3 : C.data.take 4 = h.compressionType := by
    rw [← hC]; simp only [mkChunk, List.append_assoc]; exact List.take_left' h4
  have n1 : ¬ idChnl = idFS := by decide
  have n2 : ¬ idCmpr = idFS := by decide
  have n3 : ¬ idCmpr = idChnl := by decide
  have g2 : 2 + h.channelIds.length ≥ 2 := by omega
  have g2' : ¬ 2 + h.channelIds.length < 2 := by omega
  have g3 : 4 + 1 + h.compressionName.length ≥ 4 := by omega
  have g3' : ¬ 4 + 1 + h.compressionName.length < 4 := by omega
  have g1' : ¬ (4 : Nat) < 4 := by omega
  simp only [recsOf, propLoop, propStep, e1, e2, e3]
  simp only [recOf, sA, sB, sC, c1, c2, c3, n1, n2, n3, g1', g2, g2', g3, g3', t1, t2, t3, hasc, true_and, false_and, and_self,
    ↓reduceIte, ofBE_toBE 4 _ (show h.sampleRate < 256 ^ 4 by omega), ofBE_toBE 2 _ (show h.numChannels < 256 ^ 2 by omega)]
  exact propLoop_other _ _ _ _ hex


theorem sidFver (x : Bytes) : sid (mkChunk (ascii "FVER") x) = ascii "FVER" := by
  show (chunkId (ascii "FVER")).getD [] = ascii "FVER"; decide
theorem sidProp (x : Bytes) : sid (mkChunk (ascii "PROP") x) = idProp := by
  show (chunkId (ascii "PROP")).getD [] = idProp; decide
theorem sidDsd (x : Bytes) : sid (mkChunk (ascii "DSD ") x) = idDSD := by
  show (chunkId (ascii "DSD ")).getD [] = idDSD; decide
theorem sidDst (x : Bytes) : sid (mkChunk (ascii "DST ") x) = idDST := by
  show (chunkId (ascii "DST ")).getD [] = idDST; decide
theorem sidFrte (x : Bytes) : sid (mkChunk (ascii "FRTE") x) = idFrte := by
  show (chunkId (ascii "FRTE")).getD [] = idFrte; decide

/-- the root header of a built file -/
def rootHead (h : Fields) : Bytes :=
  dsdiff.rootId ++ enc dsdiff ((ascii "DSD ").length + (renderChunks dsdiff (chunks h)).length) ++ ascii "DSD "

theorem length_rootHead (h : Fields) : (rootHead h).length = 16 := by
  simp [rootHead, show dsdiff.rootId.length = 4 by decide, show (ascii "DSD ").length = 4 by decide, dd_sizeW]

/-- the part of `__init__` behind the PROP loop, uncompressed sound data -/
theorem finish_dsd (h : Fields) (ok : h.OK) (rest : Bytes) (s : Bytes) (hau : h.audio = .dsd s) :
    finish (build h ++ rest) (recsOf dsdiff 16 (chunks h))
      { sampleRate := h.sampleRate, channels := h.numChannels, compression := some (rstrip h.compressionType) }
      = .ok (expected h) := by
  have ok' := ok
  obtain ⟨_, hr1, hr, hc1, hc, hid, hcn, ha, hoth, hex, hsz⟩ := ok'
  rw [hau] at ha; simp only [Audio.OK] at ha
  have hct : rstrip h.compressionType = idDSD := by rw [ha]; decide
  have hAU : audioChunk h = mkChunk (ascii "DSD ") s := by simp only [audioChunk, hau]
  have hfd := find_first dsdiff [idDSD] 16 [mkChunk (ascii "FVER") (toBE 4 h.version), propChunk h] (audioChunk h) h.after
    (by
      intro x hx
      simp only [List.mem_cons, List.mem_nil_iff, or_false] at hx
      rcases hx with hx | hx
      · subst hx; rw [sidFver]; decide
      · subst hx; rw [propChunk, sidProp]; decide)
    (by rw [hAU, sidDsd]; decide)
  have hcs : chunks h = [mkChunk (ascii "FVER") (toBE 4 h.version), propChunk h] ++ audioChunk h :: h.after := rfl
  rw [← hcs] at hfd
  unfold finish
  simp only [hct, hfd, ↓reduceIte]
  have hn0 : ¬ h.numChannels = 0 := by omega
  have hr0 : h.sampleRate ≠ 0 := by omega
  simp only [recOf, hAU, mkChunk, hn0, hr0, ↓reduceIte, ne_eq, not_false_eq_true, expected, hau, Nat.mul_one]

/-- the part of `__init__` behind the PROP loop, DST sound data -/
theorem finish_dst (h : Fields) (ok : h.OK) (rest : Bytes) (n r : Nat) (fr : List Chunk) (hau : h.audio = .dst n r fr) :
    finish (build h ++ rest) (recsOf dsdiff 16 (chunks h))
      { sampleRate := h.sampleRate, channels := h.numChannels, compression := some (rstrip h.compressionType) }
      = .ok (expected h) := by
  have ok' := ok
  have hpr := length_prop h
  have hpe := propChunks_even h ok
  obtain ⟨_, hr1, hr, hc1, hc, hid, hcn, ha, hoth, hex, hsz⟩ := ok'
  rw [hau] at ha; simp only [Audio.OK] at ha
  obtain ⟨hty, hn, hr1', hr2, hfr⟩ := ha
  have hct : rstrip h.compressionType = idDST := by rw [hty]; decide
  have hne : ¬ (some idDST = some idDSD) := by decide
  have hAU : audioChunk h = mkChunk (ascii "DST ") (renderChunks dsdiff (frteChunk n r :: fr)) := by
    simp only [audioChunk, hau]
  have hfd := find_first dsdiff [idDST] 16 [mkChunk (ascii "FVER") (toBE 4 h.version), propChunk h] (audioChunk h) h.after
    (by
      intro x hx
      simp only [List.mem_cons, List.mem_nil_iff, or_false] at hx
      rcases hx with hx | hx
      · subst hx; rw [sidFver]; decide
      · subst hx; rw [propChunk, sidProp]; decide)
    (by rw [hAU, sidDst]; decide)
  have hcs : chunks h = [mkChunk (ascii "FVER") (toBE 4 h.version), propChunk h] ++ audioChunk h :: h.after := rfl
  rw [← hcs] at hfd
  unfold finish
  simp only [hct, hne, hfd, ↓reduceIte]
  -- the DST chunk's own sub-chunks
  have hinner : ∀ c ∈ frteChunk n r :: fr, c.OK dsdiff := by
    intro c hc
    simp only [List.mem_cons] at hc
    rcases hc with hc | hc
    · subst hc; exact frte_ok n r
    · exact hfr c hc
  generalize hO : 16 + (renderChunks dsdiff [mkChunk (ascii "FVER") (toBE 4 h.version), propChunk h]).length = O
  have hfile : build h ++ rest =
      (rootHead h ++ renderChunks dsdiff [mkChunk (ascii "FVER") (toBE 4 h.version), propChunk h] ++ ascii "DST " ++
        enc dsdiff (renderChunks dsdiff (frteChunk n r :: fr)).length) ++
      renderChunks dsdiff (frteChunk n r :: fr) ++
      (zeros ((renderChunks dsdiff (frteChunk n r :: fr)).length % 2) ++ renderChunks dsdiff h.after ++ rest) := by
    simp only [build, renderFile, rootHead, chunks, hAU, renderChunks, Chunk.render, mkChunk, List.append_assoc, List.append_nil]
  have hP : (rootHead h ++ renderChunks dsdiff [mkChunk (ascii "FVER") (toBE 4 h.version), propChunk h] ++ ascii "DST " ++
        enc dsdiff (renderChunks dsdiff (frteChunk n r :: fr)).length).length = O + hs dsdiff + 0 := by
    rw [← hO]
    simp only [List.length_append, length_rootHead, length_enc, dd_sizeW, dd_hs, show (ascii "DST ").length = 4 by decide]
  have hsub := subWalk_chunks dsdiff _ (zeros ((renderChunks dsdiff (frteChunk n r :: fr)).length % 2) ++ renderChunks dsdiff h.after ++ rest)
    (frteChunk n r :: fr) O 0 (renderChunks dsdiff (frteChunk n r :: fr)).length hinner hP (by omega)
    (renderChunks_even dsdiff (by decide) _ hinner) idDST
  rw [← hfile] at hsub
  have hrec : recOf O (audioChunk h) = ⟨idDST, O, (renderChunks dsdiff (frteChunk n r :: fr)).length⟩ := by
    rw [hAU]; simp only [recOf, sidDst]; rfl
  rw [hrec, hsub]
  simp only []
  have hff : find [idFrte] (recsOf dsdiff (O + hs dsdiff + 0) (frteChunk n r :: fr)) = some (recOf (O + hs dsdiff + 0) (frteChunk n r)) := by
    simp only [find, recsOf, List.find?_cons, recOf, frteChunk, sidFrte]
    rfl
  rw [hff]
  have hread : chunkRead dsdiff (build h ++ rest) (recOf (O + hs dsdiff + 0) (frteChunk n r)) = (frteChunk n r).data := by
    rw [hfile, ← hP]
    exact chunkRead_in dsdiff
      (rootHead h ++ renderChunks dsdiff [mkChunk (ascii "FVER") (toBE 4 h.version), propChunk h] ++ ascii "DST " ++
          enc dsdiff (renderChunks dsdiff (frteChunk n r :: fr)).length)
      (zeros ((renderChunks dsdiff (frteChunk n r :: fr)).length % 2) ++ renderChunks dsdiff h.after ++ rest)
      [] (frteChunk n r) fr (frte_ok n r)
  have hds : (recOf (O + hs dsdiff + 0) (frteChunk n r)).dataSize = 6 := by simp [recOf, frteChunk, mkChunk]
  have hsz18 : (recOf (O + hs dsdiff + 0) (frteChunk n r)).size dsdiff = 18 := by
    simp [Rec.size, dd_hs, recOf, frteChunk, mkChunk]
  simp only [Nat.add_zero] at hread hds hsz18 ⊢
  simp only [hds, hsz18, hread, ge_iff_le, Nat.le_refl, ↓reduceIte]
  have hdl : ¬ (frteChunk n r).data.length < 6 := by simp [frteChunk, mkChunk]
  have r0 : readAt (frteChunk n r).data 0 4 = toBE 4 n := by
    simp [frteChunk, mkChunk, readAt, List.take_append, take_toBE_ge]
  have r4 : readAt (frteChunk n r).data 4 2 = toBE 2 r := by
    simp [frteChunk, mkChunk, readAt, List.drop_append, drop_toBE_ge, take_toBE_ge]
  have hr0 : r ≠ 0 := by omega
  have hsubz : (((renderChunks dsdiff (frteChunk n r :: fr)).length : Nat) : Int) - ((18 : Nat) : Int)
      = (((renderChunks dsdiff fr).length : Nat) : Int) := by
    simp only [renderChunks, List.length_append, length_frte]; omega
  simp only [hdl, r0, r4, ↓reduceIte, ofBE_toBE 4 _ (show n < 256 ^ 4 by omega), ofBE_toBE 2 _ (show r < 256 ^ 2 by omega),
    hr0, ne_eq, not_false_eq_true, hsubz, expected, hau]


/-- `DSDIFFInfo` on a specification-built file followed by any bytes -/
theorem parse_build (h : Fields) (ok : h.OK) (rest : Bytes) : parse (build h ++ rest) = .ok (expected h) := by
  have hall := all_ok h ok
  have hpe := propChunks_even h ok
  obtain ⟨l1, l2, l3, _⟩ := located dsdiff wf_dsdiff (by decide) (ascii "DSD ") (by decide)
    [mkChunk (ascii "FVER") (toBE 4 h.version)] (propChunk h) (audioChunk h :: h.after) rest [idProp]
    hall (size_ok h ok)
    (by
      intro x hx
      simp only [List.mem_cons, List.mem_nil_iff, or_false] at hx
      subst hx; rw [sidFver]; decide)
    (by rw [propChunk, sidProp]; decide)
  have hcs : [mkChunk (ascii "FVER") (toBE 4 h.version)] ++ propChunk h :: (audioChunk h :: h.after) = chunks h := rfl
  rw [hcs] at l1 l2 l3
  have hO : hs dsdiff + 4 + (renderChunks dsdiff [mkChunk (ascii "FVER") (toBE 4 h.version)]).length = 32 := by
    simp only [renderChunks, List.append_nil, length_fver, dd_hs]
  rw [hO] at l3
  unfold parse
  have hb : build h ++ rest = renderFile dsdiff (ascii "DSD ") (chunks h) ++ rest := rfl
  rw [hb, l1]; simp only []
  rw [l2]; simp only []
  rw [l3]; simp only []
  rw [← hb]
  -- the PROP chunk's name and its sub-chunks
  have hfile : build h ++ rest =
      (rootHead h ++ (mkChunk (ascii "FVER") (toBE 4 h.version)).render dsdiff ++ ascii "PROP" ++
        enc dsdiff (ascii "SND " ++ renderChunks dsdiff (propChunks h)).length ++ ascii "SND ") ++
      renderChunks dsdiff (propChunks h) ++
      (zeros ((ascii "SND " ++ renderChunks dsdiff (propChunks h)).length % 2) ++ renderChunks dsdiff (audioChunk h :: h.after) ++ rest) := by
    simp only [build, renderFile, rootHead, chunks, propChunk, renderChunks, Chunk.render, mkChunk, List.append_assoc]
  have hP : (rootHead h ++ (mkChunk (ascii "FVER") (toBE 4 h.version)).render dsdiff ++ ascii "PROP" ++
        enc dsdiff (ascii "SND " ++ renderChunks dsdiff (propChunks h)).length ++ ascii "SND ").length = 32 + hs dsdiff + 4 := by
    simp only [List.length_append, length_rootHead, length_fver, length_enc, dd_sizeW, dd_hs,
      show (ascii "PROP").length = 4 by decide, show (ascii "SND ").length = 4 by decide]
  have hname : readAt (build h ++ rest) ((recOf 32 (propChunk h)).offset + hs dsdiff) 4 = nameSnd := by
    have hf1 : build h ++ rest =
        (rootHead h ++ (mkChunk (ascii "FVER") (toBE 4 h.version)).render dsdiff ++ ascii "PROP" ++
          enc dsdiff (ascii "SND " ++ renderChunks dsdiff (propChunks h)).length) ++ ascii "SND " ++
        (renderChunks dsdiff (propChunks h) ++
        (zeros ((ascii "SND " ++ renderChunks dsdiff (propChunks h)).length % 2) ++ renderChunks dsdiff (audioChunk h :: h.after) ++ rest)) := by
      rw [hfile]; simp only [List.append_assoc]
    rw [hf1]
    exact readAt_mid _ _ _ _ _ (by
      simp only [recOf, List.length_append, length_rootHead, length_fver, length_enc, dd_sizeW, dd_hs,
        show (ascii "PROP").length = 4 by decide]) (by decide)
  rw [if_pos hname]
  have hrec : recOf 32 (propChunk h) = ⟨idProp, 32, 4 + (renderChunks dsdiff (propChunks h)).length⟩ := by
    simp only [recOf, propChunk, sidProp]
    simp only [mkChunk, length_propData]
  have hsub := subWalk_chunks dsdiff _ (zeros ((ascii "SND " ++ renderChunks dsdiff (propChunks h)).length % 2) ++
      renderChunks dsdiff (audioChunk h :: h.after) ++ rest)
    (propChunks h) 32 4 (4 + (renderChunks dsdiff (propChunks h)).length) (propChunks_ok h ok) hP rfl (by omega) idProp
  rw [← hfile] at hsub
  rw [hrec, hsub]; simp only []
  -- the loop
  have hasc : h.compressionType.all (fun b => b.toNat < 128) = true := by
    have ha := ok.2.2.2.2.2.2.2.1
    cases hau : h.audio <;> rw [hau] at ha <;> simp only [Audio.OK] at ha
    · rw [ha]; decide
    · rw [ha.1]; decide
  have hloop := propLoop_build h ok
    (rootHead h ++ (mkChunk (ascii "FVER") (toBE 4 h.version)).render dsdiff ++ ascii "PROP" ++
        enc dsdiff (ascii "SND " ++ renderChunks dsdiff (propChunks h)).length ++ ascii "SND ")
    (zeros ((ascii "SND " ++ renderChunks dsdiff (propChunks h)).length % 2) ++
      renderChunks dsdiff (audioChunk h :: h.after) ++ rest) hasc
  rw [← hfile, hP] at hloop
  rw [hloop]; simp only []
  have h16 : hs dsdiff + 4 = 16 := rfl
  rw [h16]
  cases hau : h.audio with
  | dsd s => exact finish_dsd h ok rest s hau
  | dst n r fr => exact finish_dst h ok rest n r fr hau

theorem propStep_clean (f : Bytes) (st : PropState) (c : Rec) (e : PyErr) (h : propStep f st c = .error e) : e = .mutagen := by
  unfold propStep at h
  simp only [] at h
  split at h
  · split at h
    · cases h; rfl
    · cases h
  · split at h
    · split at h
      · cases h; rfl
      · cases h
    · split at h
      · split at h
        · cases h; rfl
        · split at h
          · cases h
          · cases h; rfl
      · cases h

theorem propLoop_clean (f : Bytes) (st : PropState) (rs : List Rec) (e : PyErr) (h : propLoop f st rs = .error e) : e = .mutagen := by
  induction rs generalizing st with
  | nil => cases h
  | cons c r ih =>
    unfold propLoop at h
    split at h
    · rename_i e' he; cases h; exact propStep_clean f st c _ he
    · exact ih _ h

theorem finish_clean (f : Bytes) (recs : List Rec) (st : PropState) (e : PyErr) (h : finish f recs st = .error e) : e = .mutagen := by
  unfold finish at h
  simp only [] at h
  split at h
  · split at h
    · cases h; rfl
    · cases h
  · split at h
    · split at h
      · cases h; rfl
      · split at h
        · rename_i e' he; cases h; exact subWalk_clean dsdiff f _ 0 _ he
        · split at h
          · cases h; rfl
          · split at h
            · split at h
              · cases h; rfl
              · cases h
            · cases h
    · cases h

/-- every exception of `DSDIFFInfo(fileobj)` is a MutagenError -/
theorem parse_clean (f : Bytes) (e : PyErr) (h : parse f = .error e) : e = .mutagen := by
  unfold parse at h
  split at h
  · rename_i e' he; cases h; exact parseRoot_clean dsdiff f _ he
  · split at h
    · rename_i e' he; cases h; exact walk_clean dsdiff f _ _ he
    · split at h
      · cases h; rfl
      · split at h
        · split at h
          · rename_i e' he; cases h; exact subWalk_clean dsdiff f _ 4 _ he
          · split at h
            · rename_i e' he; cases h; exact propLoop_clean f _ _ _ he
            · exact finish_clean f _ _ _ h
        · exact finish_clean f _ _ _ h

end Mutagen.Info.Dsdiff
