/- Proofs/Info/MpegLame.lean — the LAME extension of the Xing / Info header -/
import MutagenModel.Proofs.Info.MpegVbri
set_option linter.unusedVariables false
set_option linter.unusedSimpArgs false
namespace Mutagen.Info.Mp3
open Mutagen Mutagen.Info Mutagen.Mpeg Mutagen.Spec.Mp3 Mutagen.Spec.Mpeg

theorem toNat_digit (k : Nat) (h : k ≤ 9) : (UInt8.ofNat (48 + k)).toNat = 48 + k := by
  simp [UInt8.toNat_ofNat']; omega

/-- `parse_version` on a LAME version string of the specification side, followed by eleven bytes the first of which
is not "(" -/
theorem parseVersion_build (v : LameVersion) (ok : v.OK) (e11 : Bytes) (hl : e11.length = 11) (h0 : e11[0]? ≠ some 0x28) :
    parseVersion (v.render ++ e11) = some ((v.major, v.minor), v.text, true) := by
  obtain ⟨h3, h9, hm, h390, hfl⟩ := ok
  have hM := toNat_digit v.major h9
  have hd1 := toNat_digit (v.minor / 10) (by omega)
  have hd2 := toNat_digit (v.minor % 10) (by omega)
  generalize hMb : UInt8.ofNat (48 + v.major) = M at hM
  generalize hAb : UInt8.ofNat (48 + v.minor / 10) = A at hd1
  generalize hBb : UInt8.ofNat (48 + v.minor % 10) = B at hd2
  have cM : (asciiB "EMAL").contains M = false := by
    rw [Bool.eq_false_iff]; intro hc
    have : M = 0x45 ∨ M = 0x4D ∨ M = 0x41 ∨ M = 0x4C := by simpa [asciiB] using hc
    rcases this with h | h | h | h <;> rw [h] at hM <;> revert hM <;> simp <;> omega
  have nA : ¬ (A = 0x2E) := by intro h; rw [h] at hd1; revert hd1; simp; omega
  have dA : (48 ≤ A.toNat ∧ A.toNat ≤ 57) := by omega
  have dB : (48 ≤ B.toNat ∧ B.toNat ≤ 57) := by omega
  have dM : (48 ≤ M.toNat ∧ M.toNat ≤ 57) := by omega
  have nF : ¬ (48 ≤ v.flag.toNat ∧ v.flag.toNat ≤ 57) := by
    rcases hfl with h | h | h | h | h <;> rw [h] <;> decide
  have nF0 : ¬ (v.flag = 0) := by rcases hfl with h | h | h | h | h <;> rw [h] <;> decide
  have hren : v.render ++ e11 = 0x4C :: 0x41 :: 0x4D :: 0x45 :: M :: 0x2E :: A :: B :: v.flag :: e11 := by
    simp [LameVersion.render, hMb, hAb, hBb]
  unfold parseVersion
  rw [hren]
  have hlen : (0x4C :: 0x41 :: 0x4D :: 0x45 :: M :: 0x2E :: A :: B :: v.flag :: e11 : Bytes).length = 20 := by simp [hl]
  have hpre : (asciiB "LAME").isPrefixOf (0x4C :: 0x41 :: 0x4D :: 0x45 :: M :: 0x2E :: A :: B :: v.flag :: e11 : Bytes) = true := by
    simp [asciiB, List.isPrefixOf]
  have hdw : (0x4C :: 0x41 :: 0x4D :: 0x45 :: M :: 0x2E :: A :: B :: v.flag :: e11 : Bytes).dropWhile (fun b => (asciiB "EMAL").contains b)
      = M :: 0x2E :: A :: B :: v.flag :: e11 := by
    have c1 : (asciiB "EMAL").contains (0x4C : UInt8) = true := by decide
    have c2 : (asciiB "EMAL").contains (0x41 : UInt8) = true := by decide
    have c3 : (asciiB "EMAL").contains (0x4D : UInt8) = true := by decide
    have c4 : (asciiB "EMAL").contains (0x45 : UInt8) = true := by decide
    simp only [List.dropWhile_cons, c1, c2, c3, c4, cM, ↓reduceIte, Bool.false_eq_true]
  simp only [hlen, ne_eq, not_true_eq_false, ↓reduceIte, hpre, true_or, hdw, List.take, List.drop]
  have hdw2 : (0x2E :: A :: B :: v.flag :: e11 : Bytes).dropWhile (fun b => decide (b = 0x2E)) = A :: B :: v.flag :: e11 := by
    simp [List.dropWhile_cons, nA]
  have htw : (A :: B :: v.flag :: e11 : Bytes).takeWhile (fun b => decide (48 ≤ b.toNat ∧ b.toNat ≤ 57)) = [A, B] := by
    simp [List.takeWhile_cons, dA, dB, nF]
  simp only [hdw2, htw, List.length_cons, List.length_nil, List.drop]
  have hmi : ([A, B] : Bytes).foldl (fun acc b => acc * 10 + (b.toNat - 48)) 0 = v.minor := by
    simp only [List.foldl_cons, List.foldl_nil]; omega
  have hma : M.toNat - 48 = v.major := by omega
  simp only [dM, not_true_eq_false, and_self, false_or, reduceCtorEq, ↓reduceIte, hmi, hma]
  -- not the early exit
  have hearly : (decide (v.major < 3 ∨ (v.major = 3 ∧ v.minor < 90)) ||
      (decide (v.major = 3 ∧ v.minor = 90) && decide (11 ≤ (v.flag :: e11).length ∧ (v.flag :: e11)[(v.flag :: e11).length - 11]? = some 0x28))) = false := by
    have e1 : ¬ (v.major < 3 ∨ (v.major = 3 ∧ v.minor < 90)) := by
      intro h; rcases h with h | ⟨h1, h2⟩
      · omega
      · have := h390 h1; omega
    have e2 : ¬ (11 ≤ (v.flag :: e11).length ∧ (v.flag :: e11)[(v.flag :: e11).length - 11]? = some 0x28) := by
      intro ⟨_, h⟩
      simp only [List.length_cons, hl] at h
      exact h0 (by simpa using h)
    simp [e1]
    intro _ _ _; rw [hl]; simpa using h0
  simp only [hearly, Bool.false_eq_true, ↓reduceIte, List.length_cons, hl, show ¬ (11 + 1 < 11) by omega, show 11 + 1 - 11 = 1 by omega,
    List.take]
  have hrs : (([v.flag] : Bytes).reverse.dropWhile (fun b => decide (b = 0))).reverse = [v.flag] := by
    simp [List.dropWhile_cons, nF0]
  simp only [hrs]
  unfold LameVersion.text
  rcases hfl with h | h | h | h | h <;> simp [h, asciiB] <;> exact ⟨⟨h3, h390⟩, fun _ _ => h0⟩


theorem ofBE_append2 (a b : Bytes) : ofBE (a ++ b) = ofBE a * 256 ^ b.length + ofBE b := by
  simp only [ofBE, List.reverse_append]
  have : ∀ (x y : Bytes), ofLE (x ++ y) = ofLE x + 256 ^ x.length * ofLE y := by
    intro x y
    induction x with
    | nil => simp [ofLE]
    | cons c r ih => simp only [List.cons_append, ofLE, ih, List.length_cons, Nat.pow_succ]; rw [Nat.mul_add]; ac_rfl
  rw [this]; simp only [List.length_reverse]; rw [Nat.mul_comm, Nat.add_comm]

/-- what `LAMEHeader` makes of the extension: the gains as the code computes them -/
def lameOf (scale : Int) (l : LameExt) : Lame :=
  { vbrMethod := l.vbrMethod, lowpass := l.lowpass * 100, quality := (100 - scale) % 10, vbrQuality := (100 - scale) / 10,
    trackPeak := if l.peak = 0 then none else some (.div (.nat l.peak) (.nat (2 ^ 23))),
    trackGain := if l.trackGainType = 1 then some (gainExpr l.trackGainSign l.trackGainAbs) else none,
    albumGain := if l.albumGainType = 2 then some (gainExpr l.albumGainSign l.albumGainAbs) else none,
    encodingFlags := l.encodingFlags, athType := l.athType, bitrate := l.bitrate, delay := l.delay, padding := l.padding,
    presetUsed := l.preset }

theorem parseLame_build (scale : Int) (l : LameExt) (ok : l.OK) : parseLame scale l.render = some (lameOf scale l) := by
  obtain ⟨h1, h2, h3, h4, h5, h6, h7, h8, h9, h10, h11, h12, h13, h14, h15, h16, h17, h18, h19, h20, h21, h22, h23⟩ := ok
  have hT : l.tail < 256 ^ 26 := by unfold LameExt.tail; omega
  have hof : ofBE l.render = l.vbrMethod * 2 ^ 208 + l.tail := by
    unfold LameExt.render
    rw [ofBE_append2, ofBE_toBE 1 _ (by omega), ofBE_toBE 26 _ hT]; simp
  have hlen : l.render.length = 27 := by simp [LameExt.render]
  unfold parseLame bitsOf
  simp only [hlen, ne_eq, not_true_eq_false, ↓reduceIte, hof]
  have b0 : (l.vbrMethod * 2 ^ 208 + l.tail) / 2 ^ (216 - 0 - 4) % 2 ^ 4 = 0 := by unfold LameExt.tail; omega
  have b4 : (l.vbrMethod * 2 ^ 208 + l.tail) / 2 ^ (216 - 4 - 4) % 2 ^ 4 = l.vbrMethod := by unfold LameExt.tail; omega
  have b8 : (l.vbrMethod * 2 ^ 208 + l.tail) / 2 ^ (216 - 8 - 8) % 2 ^ 8 = l.lowpass := by unfold LameExt.tail; omega
  have b16 : (l.vbrMethod * 2 ^ 208 + l.tail) / 2 ^ (216 - 16 - 32) % 2 ^ 32 = l.peak := by unfold LameExt.tail; omega
  have b48 : (l.vbrMethod * 2 ^ 208 + l.tail) / 2 ^ (216 - 48 - 3) % 2 ^ 3 = l.trackGainType := by unfold LameExt.tail; omega
  have b54 : (l.vbrMethod * 2 ^ 208 + l.tail) / 2 ^ (216 - 54 - 1) % 2 ^ 1 = l.trackGainSign := by unfold LameExt.tail; omega
  have b55 : (l.vbrMethod * 2 ^ 208 + l.tail) / 2 ^ (216 - 55 - 9) % 2 ^ 9 = l.trackGainAbs := by unfold LameExt.tail; omega
  have b64 : (l.vbrMethod * 2 ^ 208 + l.tail) / 2 ^ (216 - 64 - 3) % 2 ^ 3 = l.albumGainType := by unfold LameExt.tail; omega
  have b70 : (l.vbrMethod * 2 ^ 208 + l.tail) / 2 ^ (216 - 70 - 1) % 2 ^ 1 = l.albumGainSign := by unfold LameExt.tail; omega
  have b71 : (l.vbrMethod * 2 ^ 208 + l.tail) / 2 ^ (216 - 71 - 9) % 2 ^ 9 = l.albumGainAbs := by unfold LameExt.tail; omega
  have b80 : (l.vbrMethod * 2 ^ 208 + l.tail) / 2 ^ (216 - 80 - 4) % 2 ^ 4 = l.encodingFlags := by unfold LameExt.tail; omega
  have b84 : (l.vbrMethod * 2 ^ 208 + l.tail) / 2 ^ (216 - 84 - 4) % 2 ^ 4 = l.athType := by unfold LameExt.tail; omega
  have b88 : (l.vbrMethod * 2 ^ 208 + l.tail) / 2 ^ (216 - 88 - 8) % 2 ^ 8 = l.bitrate := by unfold LameExt.tail; omega
  have b96 : (l.vbrMethod * 2 ^ 208 + l.tail) / 2 ^ (216 - 96 - 12) % 2 ^ 12 = l.delay := by unfold LameExt.tail; omega
  have b108 : (l.vbrMethod * 2 ^ 208 + l.tail) / 2 ^ (216 - 108 - 12) % 2 ^ 12 = l.padding := by unfold LameExt.tail; omega
  have b141 : (l.vbrMethod * 2 ^ 208 + l.tail) / 2 ^ (216 - 141 - 11) % 2 ^ 11 = l.preset := by unfold LameExt.tail; omega
  simp only [b0, b4, b8, b16, b48, b54, b55, b64, b70, b71, b80, b84, b88, b96, b108, b141, not_true_eq_false, ↓reduceIte, lameOf, gainExpr]


/-- `XingHeader(fileobj)` on a tag of the specification side, whatever follows it -/
theorem parseXing_core (f : Bytes) (q : Nat) (x : XingTag) (ok : x.OK) (after : Bytes) (hf : f.drop q = x.render ++ after) :
    parseXing f q =
      (match parseVersion (after.take 20) with
       | none => some { isInfo := x.isInfo, frames := optVal x.frames, bytes := optVal x.bytes, vbrScale := optVal x.quality,
                        lameVersion := (0, 0), lameDesc := [], lame := none }
       | some (ver, desc, hasHeader) =>
         if hasHeader then
           some { isInfo := x.isInfo, frames := optVal x.frames, bytes := optVal x.bytes, vbrScale := optVal x.quality,
                  lameVersion := ver, lameDesc := desc, lame := parseLame (optVal x.quality) ((after.drop 9).take 27) }
         else some { isInfo := x.isInfo, frames := optVal x.frames, bytes := optVal x.bytes, vbrScale := optVal x.quality,
                     lameVersion := ver, lameDesc := desc, lame := none }) := by
  obtain ⟨okf, okb, okt, okq⟩ := ok
  obtain ⟨fb1, fb2, fb3, fb4, fl⟩ := flags_bits x
  generalize hm : (if x.isInfo then ([0x49, 0x6E, 0x66, 0x6F] : Bytes) else [0x58, 0x69, 0x6E, 0x67]) = magic
  have hml : magic.length = 4 := by rw [← hm]; split <;> rfl
  have hfr : f.drop q = (magic ++ toBE 4 x.flags) ++ (optBE x.frames ++ (optBE x.bytes ++ (x.toc.getD [] ++ (optBE x.quality ++ after)))) := by
    rw [hf, ← hm]; simp [XingTag.render, List.append_assoc]
  have hdata : readAt f q 8 = magic ++ toBE 4 x.flags := by
    unfold readAt; rw [hfr]; exact List.take_left' (by simp [hml])
  have d1 : f.drop (q + 8) = optBE x.frames ++ (optBE x.bytes ++ (x.toc.getD [] ++ (optBE x.quality ++ after))) := by
    rw [← List.drop_drop, hfr]; exact List.drop_left' (by simp [hml])
  have d2 : f.drop (q + 8 + (optBE x.frames).length) = optBE x.bytes ++ (x.toc.getD [] ++ (optBE x.quality ++ after)) := by
    rw [← List.drop_drop, d1]; exact List.drop_left
  have d3 : f.drop (q + 8 + (optBE x.frames).length + (optBE x.bytes).length) = x.toc.getD [] ++ (optBE x.quality ++ after) := by
    rw [← List.drop_drop, d2]; exact List.drop_left
  have d4 : f.drop (q + 8 + (optBE x.frames).length + (optBE x.bytes).length + (x.toc.getD []).length) = optBE x.quality ++ after := by
    rw [← List.drop_drop, d3]; exact List.drop_left
  have d5 : f.drop (q + 8 + (optBE x.frames).length + (optBE x.bytes).length + (x.toc.getD []).length + (optBE x.quality).length) = after := by
    rw [← List.drop_drop, d4]; exact List.drop_left
  have r1 := opt_read f (q + 8) x.frames _ d1 okf
  have r2 := opt_read f (q + 8 + (optBE x.frames).length) x.bytes _ d2 okb
  have r4 := opt_read f (q + 8 + (optBE x.frames).length + (optBE x.bytes).length + (x.toc.getD []).length) x.quality _ d4 okq
  have r3 : (if x.toc.isSome = true then
        (let d := readAt f (q + 8 + (optBE x.frames).length + (optBE x.bytes).length) 100; if d.length = 100 then some d else none).map
          (fun _ => q + 8 + (optBE x.frames).length + (optBE x.bytes).length + 100)
      else some (q + 8 + (optBE x.frames).length + (optBE x.bytes).length)) =
      some (q + 8 + (optBE x.frames).length + (optBE x.bytes).length + (x.toc.getD []).length) := by
    cases ht : x.toc with
    | none => simp
    | some t =>
      have htl := okt t ht
      have hr : readAt f (q + 8 + (optBE x.frames).length + (optBE x.bytes).length) 100 = t := by
        unfold readAt; rw [d3, ht]; exact List.take_left' htl
      simp [hr, htl]
  have hr20 : readAt f (q + 8 + (optBE x.frames).length + (optBE x.bytes).length + (x.toc.getD []).length + (optBE x.quality).length) 20 = after.take 20 := by
    unfold readAt; rw [d5]
  have hr27 : readAt f (q + 8 + (optBE x.frames).length + (optBE x.bytes).length + (x.toc.getD []).length + (optBE x.quality).length + 9) 27
      = (after.drop 9).take 27 := by
    unfold readAt; rw [← List.drop_drop, d5]
  have hmagic : (magic ++ toBE 4 x.flags).take 4 = magic := List.take_left' hml
  have hflags : ofBE ((magic ++ toBE 4 x.flags).drop 4) = x.flags := by
    rw [List.drop_left' hml]; exact ofBE_toBE 4 _ (by omega)
  have hmok : (magic = asciiB "Xing" ∨ magic = asciiB "Info") := by
    rw [← hm]; cases x.isInfo
    · left; decide
    · right; decide
  have hinfo : decide (magic = asciiB "Info") = x.isInfo := by
    rw [← hm]; cases x.isInfo <;> decide
  unfold parseXing
  simp only [hdata, hmagic, hflags, List.length_append, hml, length_toBE, ne_eq, not_true_eq_false, hmok, or_self, ↓reduceIte,
    fb1, fb2, fb3, fb4, r1, r2, r3, r4, hr20, hr27, hinfo]
  cases parseVersion (after.take 20) with
  | none => rfl
  | some r =>
    obtain ⟨ver, desc, has⟩ := r
    cases has <;> rfl



theorem length_lameRender (l : LameExt) : l.render.length = 27 := by simp [LameExt.render]

theorem lame_head (l : LameExt) (ok : l.OK) : (l.render.take 11)[0]? ≠ some 0x28 := by
  have h1 : l.vbrMethod < 16 := ok.1
  have : l.render = UInt8.ofNat l.vbrMethod :: toBE 26 l.tail := by
    unfold LameExt.render
    show toBE 1 l.vbrMethod ++ _ = _
    have : toBE 1 l.vbrMethod = [UInt8.ofNat l.vbrMethod] := by
      simp [toBE, toLE, Nat.mod_eq_of_lt (by omega : l.vbrMethod < 256)]
    rw [this]; rfl
  rw [this]
  simp only [List.take_succ_cons, List.getElem?_cons_zero, ne_eq, Option.some.injEq]
  intro h
  have := congrArg UInt8.toNat h
  simp at this
  omega

/-- `XingHeader(fileobj)` on a tag that a LAME version string and the LAME extension follow -/
theorem parseXing_lame (f : Bytes) (q : Nat) (x : XingTag) (ok : x.OK) (v : LameVersion) (vok : v.OK) (l : LameExt) (lok : l.OK)
    (after : Bytes) (hf : f.drop q = x.render ++ (v.render ++ (l.render ++ after))) :
    parseXing f q = some { isInfo := x.isInfo, frames := optVal x.frames, bytes := optVal x.bytes, vbrScale := optVal x.quality,
                           lameVersion := (v.major, v.minor), lameDesc := v.text, lame := some (lameOf (optVal x.quality) l) } := by
  rw [parseXing_core f q x ok _ hf]
  have hv9 : v.render.length = 9 := rfl
  have h20 : (v.render ++ (l.render ++ after)).take 20 = v.render ++ l.render.take 11 := by
    rw [List.take_append, hv9]
    rw [List.take_of_length_le (by omega : v.render.length ≤ 20)]
    show _ ++ (l.render ++ after).take 11 = _
    rw [List.take_append_of_le_length (by rw [length_lameRender]; omega)]
  have h27 : ((v.render ++ (l.render ++ after)).drop 9).take 27 = l.render := by
    rw [List.drop_left' hv9, List.take_left' (length_lameRender l)]
  rw [h20, h27, parseVersion_build v vok _ (by rw [List.length_take, length_lameRender]; omega) (lame_head l lok)]
  simp only [↓reduceIte, parseLame_build _ l lok]

/-- `_parse_vbr_header` when the Xing header has a LAME part -/
theorem vbrHeader_lame (f : Bytes) (fr : Frame) (isInfo : Bool) (frames bytes scale : Int) (ver : Nat × Nat) (desc : Bytes) (l : Lame)
    (hd : desc ≠ [])
    (hx : parseXing f (fr.offset + Generated.xingOffset (if fr.h.version10 = 10 then 1 else 2) fr.h.mode) =
      some { isInfo := isInfo, frames := frames, bytes := bytes, vbrScale := scale, lameVersion := ver, lameDesc := desc, lame := some l }) :
    vbrHeader f fr =
      { fr with
        sketchy := false,
        bitrateMode := some (if l.vbrMethod = 1 ∨ l.vbrMethod = 8 then 1 else if l.vbrMethod = 2 ∨ l.vbrMethod = 9 then 3
          else if 3 ≤ l.vbrMethod ∧ l.vbrMethod ≤ 6 then 2 else if isInfo then 1 else 2),
        encoderSettings := some (guessSettings l ver.1 ver.2),
        bitrate := if frames ≠ -1 ∧ bytes ≠ -1 ∧ (frameSize fr.h : Int) * frames > 0 then
            .round (.div (.int ((max 0 (bytes - fr.h.frameLength)) * 8 * fr.h.sampleRate)) (.flt (.int ((frameSize fr.h : Int) * frames))))
          else fr.bitrate,
        length := if frames ≠ -1 then
            some (.div (.flt (.int (if (frameSize fr.h : Int) * frames - l.delay - l.padding < 0 then 0
                                     else (frameSize fr.h : Int) * frames - l.delay - l.padding))) (.nat fr.h.sampleRate))
          else fr.length,
        encoderInfo := some (asciiB "LAME " ++ desc),
        trackGain := some l.trackGain, trackPeak := some l.trackPeak, albumGain := some l.albumGain } := by
  unfold vbrHeader
  simp only [hx, guessXingMode]
  by_cases c1 : l.vbrMethod = 1 ∨ l.vbrMethod = 8 <;> by_cases c2 : l.vbrMethod = 2 ∨ l.vbrMethod = 9 <;>
    by_cases c3 : 3 ≤ l.vbrMethod ∧ l.vbrMethod ≤ 6 <;> by_cases hf : frames = -1 <;>
    by_cases hb : bytes ≠ -1 ∧ (frameSize fr.h : Int) * frames > 0 <;> simp [c1, c2, c3, hf, hb, hd]

theorem text_ne (v : LameVersion) : v.text ≠ [] := by
  intro h
  have := congrArg List.length h
  simp [LameVersion.text, asciiB] at this

/-- the code's reading of the extension is the specification's -/
theorem lameOf_spec (scale : Int) (l : LameExt) : lameOf scale l = l.decoded scale := rfl

theorem dec_delay (l : LameExt) (sc : Int) : (l.decoded sc).delay = l.delay := rfl
theorem dec_padding (l : LameExt) (sc : Int) : (l.decoded sc).padding = l.padding := rfl
theorem dec_method (l : LameExt) (sc : Int) : (l.decoded sc).vbrMethod = l.vbrMethod := rfl

/-- what `MPEGInfo` makes of a stream with a LAME extension: the specification's information for the code's reading
`lameOf` of the extension -/
theorem parse_lame_code_at (pre : Bytes) (s : LameStream) (ok : s.OK) :
    parseFrom (pre ++ s.build) pre.length =
      .ok { s.expectedWith (lameOf (optVal s.tag.quality) s.ext) with frameOffset := pre.length + s.lead.render.length } := by
  obtain ⟨hlead, hok, hl3, hside, htag, hver, hext⟩ := ok
  obtain ⟨rest, hscan⟩ := lead_scan_at pre s.lead hlead s.hdr (s.side ++ (s.tag.render ++ (s.version.render ++ (s.ext.render ++ s.after))))
  have hb : s.build = s.lead.render ++ (s.hdr.bytes ++ (s.side ++ (s.tag.render ++ (s.version.render ++ (s.ext.render ++ s.after))))) := rfl
  rw [← hb] at hscan
  have hE := size_shift pre s.build s.lead.render.length _ rfl
  generalize ho : pre.length + s.lead.render.length = o at *
  have d0 : (pre ++ s.build).drop o = s.hdr.bytes ++ (s.side ++ (s.tag.render ++ (s.version.render ++ (s.ext.render ++ s.after)))) := by
    rw [← ho]; exact drop_at2 _ _ _
  generalize hF : pre ++ s.build = F at *
  have dq : F.drop (o + (4 + s.hdr.sideInfo)) = s.tag.render ++ (s.version.render ++ (s.ext.render ++ s.after)) := by
    rw [← List.drop_drop, d0, ← List.append_assoc]
    exact List.drop_left' (by simp [length_hdr, hside])
  have hx := parseXing_lame F (o + (4 + s.hdr.sideInfo)) s.tag htag s.version hver s.ext hext s.after dq
  have hfs := frameSize_infoOf s.hdr hok
  have hlay : (infoOf s.hdr).layer = 3 := hl3
  have hxo := xing_offset s.hdr hok
  generalize hL : lameOf (optVal s.tag.quality) s.ext = L at hx
  have key : ∀ (fv bv : Int), optVal s.tag.frames = fv → optVal s.tag.bytes = bv →
      parseFrom F pre.length = .ok
        { length := if fv ≠ -1 then
              .div (.flt (.int (if (s.hdr.samples : Int) * fv - L.delay - L.padding < 0 then 0
                                else (s.hdr.samples : Int) * fv - L.delay - L.padding))) (.nat s.hdr.rate)
            else .div (.int (8 * ((F.length : Int) - (o : Nat)))) (.flt (.int s.hdr.bitrate)),
          bitrate := if fv ≠ -1 ∧ bv ≠ -1 ∧ (s.hdr.samples : Int) * fv > 0 then
              .round (.div (.int ((max 0 (bv - s.hdr.frameLength)) * 8 * s.hdr.rate)) (.flt (.int ((s.hdr.samples : Int) * fv))))
            else .int s.hdr.bitrate,
          channels := if s.hdr.mode = 3 then 1 else 2, sampleRate := s.hdr.rate, version10 := s.hdr.ver10, layer := s.hdr.lay,
          mode := s.hdr.mode, crcProtected := decide (s.hdr.protection = 0), padding := decide (s.hdr.padding = 1), sketchy := false,
          bitrateMode := if L.vbrMethod = 1 ∨ L.vbrMethod = 8 then 1 else if L.vbrMethod = 2 ∨ L.vbrMethod = 9 then 3
            else if 3 ≤ L.vbrMethod ∧ L.vbrMethod ≤ 6 then 2 else if s.tag.isInfo then 1 else 2,
          encoderInfo := asciiB "LAME " ++ s.version.text,
          encoderSettings := guessSettings L s.version.major s.version.minor,
          trackGain := L.trackGain, trackPeak := L.trackPeak, albumGain := L.albumGain, frameOffset := o } := by
    intro fv bv hfv hbv
    rw [hfv, hbv] at hx
    have hvb := vbrHeader_lame F { offset := o, h := infoOf s.hdr, bitrate := .int (infoOf s.hdr).bitrate } s.tag.isInfo
      fv bv (optVal s.tag.quality) (s.version.major, s.version.minor) s.version.text L (text_ne _) (by simp only [hxo]; exact hx)
    have hm : mpegFrame F o = .ok (some (vbrHeader F { offset := o, h := infoOf s.hdr, bitrate := .int (infoOf s.hdr).bitrate },
        o + (infoOf s.hdr).frameLength)) := by
      unfold mpegFrame
      rw [d0, decode_hdr s.hdr hok]
      simp only [hlay, ↓reduceIte]
    have hsk : (vbrHeader F { offset := o, h := infoOf s.hdr, bitrate := .int (infoOf s.hdr).bitrate }).sketchy = false := by
      rw [hvb]
    have htf := takeFrames_first F o _ _ hm hsk
    have hsl := syncLoop_first F o rest _ htf hsk
    unfold parseFrom
    simp only [hscan, hsl, hvb, hfs]
    by_cases hf1 : fv = -1
    · simp [hf1, infoOf, Option.getD]
    · by_cases hb1 : bv ≠ -1 ∧ (s.hdr.samples : Int) * fv > 0
      · simp [hf1, hb1, infoOf, Option.getD]
      · simp [hf1, hb1, infoOf, Option.getD]
  cases hfr : s.tag.frames with
  | none =>
    have := key (-1) (optVal s.tag.bytes) (by simp [hfr, optVal]) rfl
    rw [this]
    subst hL
    simp [LameStream.expectedWith, headerInfo, hfr, hE]
  | some n =>
    cases hby : s.tag.bytes with
    | none =>
      have := key (Int.ofNat n) (-1) (by simp [hfr, optVal]) (by simp [hby, optVal])
      rw [this]
      have hne : ¬ ((n : Int) = -1) := by omega
      subst hL
      simp [LameStream.expectedWith, headerInfo, hfr, hby, hE, hne]
    | some b =>
      have := key (Int.ofNat n) (Int.ofNat b) (by simp [hfr, optVal]) (by simp [hby, optVal])
      rw [this]
      have hne : ¬ ((n : Int) = -1) := by omega
      have hbe : ¬ ((b : Int) = -1) := by omega
      have hpos : (0 < (s.hdr.samples : Int) * (n : Int)) ↔ 0 < s.hdr.samples * n := by
        rw [← Int.natCast_mul]; exact Int.natCast_pos
      subst hL
      simp [LameStream.expectedWith, headerInfo, hfr, hby, hE, hne, hbe, hpos]

theorem parse_lame_code (s : LameStream) (ok : s.OK) :
    parse s.build = .ok (s.expectedWith (lameOf (optVal s.tag.quality) s.ext)) := by
  have h := parse_lame_code_at [] s ok
  simp only [List.nil_append, List.length_nil, Nat.zero_add] at h
  rw [show parse s.build = parseFrom s.build 0 from rfl, h]
  unfold LameStream.expectedWith
  cases s.tag.frames <;> rfl

theorem expected_eq (s : LameStream) : s.expected = s.expectedWith (s.ext.decoded (optVal s.tag.quality)) := by
  unfold LameStream.expected
  cases s.tag.quality <;> rfl

theorem parse_lame (s : LameStream) (ok : s.OK) : parse s.build = .ok s.expected := by
  rw [parse_lame_code s ok, expected_eq, lameOf_spec]

theorem parse_lame_at (pre : Bytes) (s : LameStream) (ok : s.OK) :
    parseFrom (pre ++ s.build) pre.length = .ok { s.expected with frameOffset := pre.length + s.lead.render.length } := by
  rw [parse_lame_code_at pre s ok, expected_eq, lameOf_spec]

theorem expected_album_gain (s : LameStream) (h1 : s.ext.albumGainSign = 1) (h2 : s.ext.albumGainType = 2) :
    s.expected.albumGain = some (.mul (.div (.nat s.ext.albumGainAbs) (.flt (.int 10))) (.int (-1))) := by
  rw [expected_eq]
  unfold LameStream.expectedWith
  cases s.tag.frames <;> simp [LameExt.decoded, h1, h2, headerInfo, gainExpr]

end Mutagen.Info.Mp3
