/- Proofs/Info/Musepack.lean — the SV7 header read back; the SV8 variable-length integers, the packet loop over
SH / other packets / RG; totality of the parser -/
import MutagenModel.Proofs.Info.Common
import MutagenModel.Spec.Info.Musepack
set_option linter.unusedVariables false
set_option linter.unusedSimpArgs false
namespace Mutagen.Info.Musepack
open Mutagen Mutagen.Info Mutagen.Spec.Musepack

theorem rates_rows : ∀ i < 4, Generated.musepackRates[i]? = some (rate i) ∧ rate i ≠ 0 := by decide
theorem rates_in_range : ∀ i < 4, ∃ r, Generated.musepackRates[i]? = some r ∧ r ≠ 0 := by decide

theorem enc16_lt (g : Int) (h1 : -2 ^ 15 ≤ g) (h2 : g < 2 ^ 15) : enc16 g < 2 ^ 16 := by
  unfold enc16; split <;> omega

theorem signed_enc16_le (g : Int) (h1 : -2 ^ 15 ≤ g) (h2 : g < 2 ^ 15) : ofSignedLE (toLE 2 (enc16 g)) = g := by
  have hl := enc16_lt g h1 h2
  unfold ofSignedLE
  simp only [ofLE_toLE 2 _ (show enc16 g < 256 ^ 2 by omega), length_toLE]
  unfold enc16
  split <;> split <;> omega

theorem signed_enc16_be (g : Int) (h1 : -2 ^ 15 ≤ g) (h2 : g < 2 ^ 15) : ofSignedLE (toBE 2 (enc16 g)).reverse = g := by
  simp only [toBE, List.reverse_reverse]
  exact signed_enc16_le g h1 h2

theorem length_sv7_build (h : Sv7) : h.build.length = 28 := by
  unfold Sv7.build; simp

theorem parse_sv7 (h : Sv7) (ok : h.OK) (hg : h.trueGapless = 0) (rest : Bytes) (hlen : 4 ≤ rest.length) :
    parse (h.build ++ rest) = .ok (h.expected (h.build ++ rest).length) := by
  obtain ⟨hmi, hf1, hf2, hi, hms, hmb, hpr, hlk, hri, hml, htp, htg1, htg2, hap, hag1, hag2, hgl, hlf, hfs, hu5, hen, hu6, _⟩ := ok
  have hb := length_sv7_build h
  have hw2 : h.word2 < 2 ^ 32 := by unfold Sv7.word2; omega
  have hw5 : h.word5 < 2 ^ 32 := by unfold Sv7.word5; omega
  have h4 : readAt (h.build ++ rest) 0 4 = [0x4d, 0x50, 0x2b] ++ toLE 1 (7 + 16 * h.minor) := by
    unfold Sv7.build
    simp only [List.append_assoc]
    simp [readAt, toLE]
  have h32 : (readAt (h.build ++ rest) 0 32).length = 32 := length_readAt_of_le _ _ _ (by simp [hb]; omega)
  have hm7 : startsWith (readAt (h.build ++ rest) 0 32) magic7 = true := by
    simp only [startsWith, readAt_readAt _ _ _ _ _ (show 0 + magic7.length ≤ 32 by decide)]
    unfold Sv7.build
    simp only [List.append_assoc, magic7]
    rd_simp
    rfl
  have hfld : uLE (readAt (h.build ++ rest) 0 32) 3 1 = 7 + 16 * h.minor ∧
      uLE (readAt (h.build ++ rest) 0 32) 4 4 = h.frames ∧
      uLE (readAt (h.build ++ rest) 0 32) 8 4 = h.word2 ∧
      uLE (readAt (h.build ++ rest) 0 32) 12 2 = h.titlePeak ∧
      sLE (readAt (h.build ++ rest) 0 32) 14 2 = h.titleGain ∧
      uLE (readAt (h.build ++ rest) 0 32) 16 2 = h.albumPeak ∧
      sLE (readAt (h.build ++ rest) 0 32) 18 2 = h.albumGain := by
    refine ⟨?_, ?_, ?_, ?_, ?_, ?_, ?_⟩
    all_goals
      simp only [uLE, sLE, readAt_readAt _ _ _ _ _ (show 3 + 1 ≤ 32 by decide), readAt_readAt _ _ _ _ _ (show 4 + 4 ≤ 32 by decide),
        readAt_readAt _ _ _ _ _ (show 8 + 4 ≤ 32 by decide), readAt_readAt _ _ _ _ _ (show 12 + 2 ≤ 32 by decide),
        readAt_readAt _ _ _ _ _ (show 14 + 2 ≤ 32 by decide), readAt_readAt _ _ _ _ _ (show 16 + 2 ≤ 32 by decide),
        readAt_readAt _ _ _ _ _ (show 18 + 2 ≤ 32 by decide)]
      unfold Sv7.build
      simp only [List.append_assoc]
      rd_simp
      first
        | exact ofLE_toLE 1 _ (by omega)
        | exact ofLE_toLE 2 _ (by omega)
        | exact ofLE_toLE 4 _ (by omega)
        | exact signed_enc16_le _ (by assumption) (by assumption)
  obtain ⟨e1, e2, e3, e4, e5, e6, e7⟩ := hfld
  obtain ⟨hrow, hnz⟩ := rates_rows h.rateIndex hri
  have hidx : h.word2 / 2 ^ 16 % 4 = h.rateIndex := by unfold Sv7.word2; omega
  have hv : (7 + 16 * h.minor) % 16 = 7 := by omega
  unfold parse
  simp only [h4]
  have hnid : ¬ (readAt ([0x4d, 0x50, 0x2b] ++ toLE 1 (7 + 16 * h.minor)) 0 3 = magicID3) := by
    simp [readAt, magicID3]
  have hn8 : startsWith ([0x4d, 0x50, 0x2b] ++ toLE 1 (7 + 16 * h.minor)) magic8 = false := by
    simp [startsWith, readAt, magic8, toLE]
  simp only [hnid, hn8, if_false]
  simp [parseSv467, h32, hm7, e1, e2, e3, e4, e5, e6, e7, hv, hidx, hrow, hnz, Sv7.expected, Sv7.samples, hg]


theorem getElem?_at_length (pre : Bytes) (c : UInt8) (more : Bytes) : (pre ++ (c :: more))[pre.length]? = some c := by
  simp

theorem mod_pow_succ (m k : Nat) : m % 128 ^ (k + 1) = (m / 128 ^ k % 128) * 128 ^ k + m % 128 ^ k := by
  rw [Nat.pow_succ, Nat.mod_mul, Nat.mul_comm, Nat.add_comm]

theorem sv8Int_hi (k : Nat) : ∀ (m : Nat) (pre more : Bytes) (last num i limit : Nat), k + 1 ≤ limit → last < 128 →
    sv8Int (pre ++ (varintHi k m ++ (UInt8.ofNat last :: more))) limit pre.length num i =
      some ((num * 128 ^ k + m % 128 ^ k) * 128 + last, i + k + 1) := by
  induction k with
  | zero =>
    intro m pre more last num i limit hl hlast
    obtain ⟨l, rfl⟩ : ∃ l, limit = l + 1 := ⟨limit - 1, by omega⟩
    simp only [varintHi, List.nil_append, sv8Int, getElem?_at_length]
    have : (UInt8.ofNat last).toNat = last := by simp [UInt8.toNat_ofNat']; omega
    simp only [this, Nat.pow_zero, Nat.mod_one, Nat.mul_one, Nat.add_zero]
    have h1 : last % 128 = last := by omega
    have h2 : last / 128 = 0 := by omega
    simp [h1, h2]
  | succ k ih =>
    intro m pre more last num i limit hl hlast
    obtain ⟨l, rfl⟩ : ∃ l, limit = l + 1 := ⟨limit - 1, by omega⟩
    simp only [varintHi, List.cons_append, sv8Int, getElem?_at_length]
    have hd : m / 128 ^ k % 128 < 128 := Nat.mod_lt _ (by decide)
    have : (UInt8.ofNat (128 + m / 128 ^ k % 128)).toNat = 128 + m / 128 ^ k % 128 := by
      simp [UInt8.toNat_ofNat']; omega
    simp only [this]
    have h1 : (128 + m / 128 ^ k % 128) % 128 = m / 128 ^ k % 128 := by omega
    have h2 : ¬ ((128 + m / 128 ^ k % 128) / 128 = 0) := by omega
    simp only [h1, h2, if_false]
    have hpre : pre.length + 1 = (pre ++ [UInt8.ofNat (128 + m / 128 ^ k % 128)]).length := by simp
    have hf : pre ++ UInt8.ofNat (128 + m / 128 ^ k % 128) :: (varintHi k m ++ UInt8.ofNat last :: more) =
        (pre ++ [UInt8.ofNat (128 + m / 128 ^ k % 128)]) ++ (varintHi k m ++ UInt8.ofNat last :: more) := by simp
    rw [hpre, hf, ih m _ more last _ (i + 1) l (by omega) hlast]
    rw [mod_pow_succ m k, Nat.pow_succ]
    generalize 128 ^ k = P
    generalize m / P % 128 = d
    generalize m % P = r
    have : (num * 128 + d) * P + r = num * (P * 128) + (d * P + r) := by
      rw [Nat.add_mul, Nat.mul_assoc, Nat.mul_comm 128 P, Nat.add_assoc]
    rw [this]
    congr 2
    omega

theorem lt_pow_varintLen (n : Nat) (h : n < 2 ^ 63) : n < 128 ^ varintLen n ∧ 1 ≤ varintLen n ∧ varintLen n ≤ 9 := by
  unfold varintLen
  repeat' split
  all_goals omega

theorem sv8Int_varint (n : Nat) (h : n < 2 ^ 63) (pre more : Bytes) :
    sv8Int (pre ++ (varint n ++ more)) 9 pre.length 0 0 = some (n, varintLen n) := by
  obtain ⟨h1, h2, h3⟩ := lt_pow_varintLen n h
  unfold varint
  rw [List.append_assoc]
  have hlast : n % 128 < 128 := Nat.mod_lt _ (by decide)
  rw [show ([UInt8.ofNat (n % 128)] ++ more) = UInt8.ofNat (n % 128) :: more from rfl]
  rw [sv8Int_hi (varintLen n - 1) (n / 128) pre more (n % 128) 0 0 9 (by omega) hlast]
  have hk : n / 128 < 128 ^ (varintLen n - 1) := by
    have : 128 ^ varintLen n = 128 ^ (varintLen n - 1) * 128 := by
      rw [← Nat.pow_succ]; congr 1; omega
    rw [this] at h1
    exact Nat.div_lt_of_lt_mul (by rw [Nat.mul_comm]; exact h1)
  rw [Nat.mod_eq_of_lt hk]
  simp only [Nat.zero_mul, Nat.zero_add]
  simp only [Option.some.injEq, Prod.mk.injEq]
  constructor <;> omega

theorem length_varint (n : Nat) : (varint n).length = varintLen n := by
  have hl : ∀ k m, (varintHi k m).length = k := by
    intro k; induction k with
    | zero => intro m; rfl
    | succ k ih => intro m; simp [varintHi, ih]
  have : 1 ≤ varintLen n := by
    unfold varintLen
    (repeat' split) <;> omega
  simp [varint, hl]; omega


theorem letters_keyOK (k : Bytes) (h : letters k = true) : keyOK k = true ∧ k.length = 2 := by
  match k, h with
  | [a, b], h =>
    simp only [letters, Bool.and_eq_true, decide_eq_true_eq] at h
    refine ⟨?_, rfl⟩
    simp only [keyOK, Bool.and_eq_true, Bool.or_eq_true, decide_eq_true_eq, beq_iff_eq]
    omega

/-- one round over a packet that is not SH, RG, AP, SE (SH already seen, RG still missing) -/
theorem generic_step (pre tail : Bytes) (p : Packet) (hp : p.OK) (k' : Bytes) (hk' : readAt tail 0 2 = k')
    (hkok : keyOK k' = true) (fuel : Nat) (a : Musepack.Sv8)
    (hlen : (pre ++ (varint p.size ++ (p.payload ++ tail))).length < 2 ^ 62) :
    sv8Loop (pre ++ (varint p.size ++ (p.payload ++ tail))) (fuel + 1) pre.length p.key false true a =
    sv8Loop (pre ++ (varint p.size ++ (p.payload ++ tail))) fuel ((pre ++ (varint p.size ++ p.payload)).length + 2) k' false true a := by
  obtain ⟨hl, hsh, hrg, hap, hse, hsz, hlt⟩ := hp
  have e1 := sv8Int_varint p.size (by omega) pre (p.payload ++ tail)
  have hpos : pre.length + varintLen p.size + (p.size - 2 - varintLen p.size) = (pre ++ (varint p.size ++ p.payload)).length := by
    simp [length_varint]; omega
  have hkey : readAt (pre ++ (varint p.size ++ (p.payload ++ tail))) ((pre ++ (varint p.size ++ p.payload)).length) 2 = k' := by
    have : pre ++ (varint p.size ++ (p.payload ++ tail)) = (pre ++ (varint p.size ++ p.payload)) ++ tail := by simp
    rw [this, readAt_append_length, hk']
  have hov : ¬ ((pre ++ (varint p.size ++ p.payload)).length > 2 ^ 63 - 1) := by
    simp only [List.length_append] at hlen ⊢; omega
  rw [sv8Loop]
  simp only [hap, hse, e1, Bool.false_eq_true, false_or, not_true_eq_false, or_false, if_false, hsh, hrg, or_true]
  have h2 : ¬ (p.size < 2 + varintLen p.size) := by omega
  simp only [h2, if_false, hpos, hov, hkey, hkok, not_true_eq_false]


def firstKey : List Packet → Bytes → Bytes
  | [], nk => nk
  | p :: _, _ => p.key

theorem readAt_firstKey (ps : List Packet) (hok : ∀ p ∈ ps, p.OK) (nk tail : Bytes) (hnk : nk.length = 2) :
    readAt (packetsBytes ps ++ (nk ++ tail)) 0 2 = firstKey ps nk := by
  cases ps with
  | nil => simp only [packetsBytes, List.nil_append, firstKey]; exact readAt_zero_append _ _ _ hnk.symm
  | cons p ps =>
    have := (letters_keyOK p.key (hok p List.mem_cons_self).1).2
    simp only [packetsBytes, Packet.bytes, List.append_assoc, firstKey]
    exact readAt_zero_append _ _ _ this.symm

theorem keyOK_firstKey (ps : List Packet) (hok : ∀ p ∈ ps, p.OK) (nk : Bytes) (hnk : keyOK nk = true) :
    keyOK (firstKey ps nk) = true := by
  cases ps with
  | nil => exact hnk
  | cons p ps => exact (letters_keyOK p.key (hok p List.mem_cons_self).1).1

theorem loop_packets (ps : List Packet) : (∀ p ∈ ps, p.OK) → ∀ (pre nk tail : Bytes) (fuel : Nat) (a : Musepack.Sv8),
    keyOK nk = true → nk.length = 2 → (pre ++ (packetsBytes ps ++ (nk ++ tail))).length < 2 ^ 62 →
    sv8Loop (pre ++ (packetsBytes ps ++ (nk ++ tail))) (fuel + ps.length) (pre.length + 2) (firstKey ps nk) false true a =
    sv8Loop (pre ++ (packetsBytes ps ++ (nk ++ tail))) fuel ((pre ++ packetsBytes ps).length + 2) nk false true a := by
  induction ps with
  | nil => intro _ pre nk tail fuel a _ _ _; simp [packetsBytes, firstKey]
  | cons p ps ih =>
    intro hok pre nk tail fuel a hnk hnl hlen
    have hp := hok p List.mem_cons_self
    have hps : ∀ x ∈ ps, x.OK := fun x hx => hok x (List.mem_cons_of_mem _ hx)
    have hkl := (letters_keyOK p.key hp.1).2
    have hf : pre ++ (packetsBytes (p :: ps) ++ (nk ++ tail)) =
        (pre ++ p.key) ++ (varint p.size ++ (p.payload ++ (packetsBytes ps ++ (nk ++ tail)))) := by
      simp [packetsBytes, Packet.bytes]
    have hpl : pre.length + 2 = (pre ++ p.key).length := by simp [hkl]
    rw [hf, hpl, show fuel + (p :: ps).length = (fuel + ps.length) + 1 by simp; omega]
    simp only [firstKey]
    rw [generic_step (pre ++ p.key) (packetsBytes ps ++ (nk ++ tail)) p hp (firstKey ps nk)
      (readAt_firstKey ps hps nk tail hnl) (keyOK_firstKey ps hps nk hnk) (fuel + ps.length) a (by rw [← hf]; exact hlen)]
    have hf2 : (pre ++ p.key) ++ (varint p.size ++ (p.payload ++ (packetsBytes ps ++ (nk ++ tail)))) =
        (pre ++ p.bytes) ++ (packetsBytes ps ++ (nk ++ tail)) := by simp [Packet.bytes]
    have hpl2 : ((pre ++ p.key) ++ (varint p.size ++ p.payload)).length = (pre ++ p.bytes).length := by simp [Packet.bytes]
    rw [hf2, hpl2, ih hps (pre ++ p.bytes) nk tail fuel a hnk hnl (by rw [← hf2, ← hf]; exact hlen)]
    simp [packetsBytes]


/-- the round over the SH packet (first packet, nothing seen yet) -/
theorem sh_step (h : Spec.Musepack.Sv8) (ok : h.OK) (pre tail : Bytes) (k' : Bytes) (hk' : readAt tail 0 2 = k')
    (hkok : keyOK k' = true) (fuel : Nat) :
    sv8Loop (pre ++ (varint h.shSize ++ (h.shPayload ++ tail))) (fuel + 1) pre.length keySH true true {} =
    sv8Loop (pre ++ (varint h.shSize ++ (h.shPayload ++ tail))) fuel ((pre ++ (varint h.shSize ++ h.shPayload)).length + 2) k'
      false true { version := h.streamVersion, samples := (h.samples : Int) - h.beginSilence, sampleRate := rate h.rateIndex,
                   channels := h.channels } := by
  obtain ⟨hcrc, hver, hs, hbs, hri, hmb1, hmb2, hc1, hc2, hms, hbp, hsz, hszl, _, _⟩ := ok
  generalize hf : pre ++ (varint h.shSize ++ (h.shPayload ++ tail)) = f
  let L := varintLen h.shSize
  let l1 := varintLen h.samples
  let l2 := varintLen h.beginSilence
  let b0 := 32 * h.rateIndex + (h.maxBands - 1)
  let b1 := 16 * (h.channels - 1) + 8 * h.midSide + h.blockPwr
  have hpl : h.shPayload.length = 4 + 1 + l1 + l2 + (2 + h.shPad.length) := by
    simp [Sv8.shPayload, length_varint, l1, l2]; omega
  have e_size : sv8Int f 9 pre.length 0 0 = some (h.shSize, L) := by
    rw [← hf]; exact sv8Int_varint h.shSize (by omega) pre _
  have toLE_one : ∀ x, toLE 1 x = [UInt8.ofNat (x % 256)] := fun x => rfl
  have e_ver : f[pre.length + L + 4]? = some (UInt8.ofNat (h.streamVersion % 256)) := by
    have : f = (pre ++ (varint h.shSize ++ toBE 4 h.crc)) ++ (UInt8.ofNat (h.streamVersion % 256) :: (varint h.samples ++ (varint h.beginSilence ++
        (toLE 1 b0 ++ (toLE 1 b1 ++ (h.shPad ++ tail)))))) := by
      rw [← hf]; simp only [Sv8.shPayload, List.append_assoc, toLE_one h.streamVersion, List.cons_append, List.nil_append, b0, b1]
    have hl : pre.length + L + 4 = (pre ++ (varint h.shSize ++ toBE 4 h.crc)).length := by simp [length_varint, L]; omega
    rw [hl, this]; simp
  have e_s : sv8Int f 9 (pre.length + L + 4 + 1) 0 0 = some (h.samples, l1) := by
    have : f = (pre ++ (varint h.shSize ++ (toBE 4 h.crc ++ toLE 1 h.streamVersion))) ++ (varint h.samples ++ (varint h.beginSilence ++
        (toLE 1 b0 ++ (toLE 1 b1 ++ (h.shPad ++ tail))))) := by
      rw [← hf]; simp only [Sv8.shPayload, List.append_assoc, b0, b1]
    have hl : pre.length + L + 4 + 1 = (pre ++ (varint h.shSize ++ (toBE 4 h.crc ++ toLE 1 h.streamVersion))).length := by
      simp [length_varint, L]; omega
    rw [hl, this]; exact sv8Int_varint h.samples hs _ _
  have e_k : sv8Int f 9 (pre.length + L + 4 + 1 + l1) 0 0 = some (h.beginSilence, l2) := by
    have : f = (pre ++ (varint h.shSize ++ (toBE 4 h.crc ++ (toLE 1 h.streamVersion ++ varint h.samples)))) ++ (varint h.beginSilence ++
        (toLE 1 b0 ++ (toLE 1 b1 ++ (h.shPad ++ tail)))) := by
      rw [← hf]; simp only [Sv8.shPayload, List.append_assoc, b0, b1]
    have hl : pre.length + L + 4 + 1 + l1 = (pre ++ (varint h.shSize ++ (toBE 4 h.crc ++ (toLE 1 h.streamVersion ++ varint h.samples)))).length := by
      simp [length_varint, L, l1]; omega
    rw [hl, this]; exact sv8Int_varint h.beginSilence hbs _ _
  have e_data : readAt f (pre.length + L + 4 + 1 + l1 + l2) (2 + h.shPad.length) = UInt8.ofNat (b0 % 256) :: UInt8.ofNat (b1 % 256) :: h.shPad := by
    have : f = (pre ++ (varint h.shSize ++ (toBE 4 h.crc ++ (toLE 1 h.streamVersion ++ (varint h.samples ++ varint h.beginSilence))))) ++
        ((UInt8.ofNat (b0 % 256) :: UInt8.ofNat (b1 % 256) :: h.shPad) ++ tail) := by
      rw [← hf]; simp only [Sv8.shPayload, List.append_assoc, toLE_one (32 * h.rateIndex + (h.maxBands - 1)),
        toLE_one (16 * (h.channels - 1) + 8 * h.midSide + h.blockPwr), List.cons_append, List.nil_append, b0, b1]
    have hl : pre.length + L + 4 + 1 + l1 + l2 = (pre ++ (varint h.shSize ++ (toBE 4 h.crc ++ (toLE 1 h.streamVersion ++ (varint h.samples ++ varint h.beginSilence))))).length := by
      simp [length_varint, L, l1, l2]; omega
    rw [hl, this, readAt_append_length]
    exact readAt_zero_append _ _ _ (by simp; omega)
  have hend : pre.length + L + 4 + 1 + l1 + l2 + (2 + h.shPad.length) = (pre ++ (varint h.shSize ++ h.shPayload)).length := by
    simp only [List.length_append, length_varint, hpl]; omega
  have e_key : readAt f ((pre ++ (varint h.shSize ++ h.shPayload)).length) 2 = k' := by
    have : f = (pre ++ (varint h.shSize ++ h.shPayload)) ++ tail := by rw [← hf]; simp
    rw [this, readAt_append_length, hk']
  obtain ⟨hrow, hnz⟩ := rates_rows h.rateIndex hri
  have hb0 : (UInt8.ofNat (b0 % 256)).toNat / 32 = h.rateIndex := by
    simp only [UInt8.toNat_ofNat', b0]; omega
  have hb1 : (UInt8.ofNat (b1 % 256)).toNat / 16 + 1 = h.channels := by
    simp only [UInt8.toNat_ofNat', b1]; omega
  have hvn : (UInt8.ofNat (h.streamVersion % 256)).toNat = h.streamVersion := by
    simp only [UInt8.toNat_ofNat']; omega
  have hds : h.shSize - 2 - L = 4 + 1 + l1 + l2 + (2 + h.shPad.length) := by
    rw [← hpl]; simp only [L]; omega
  rw [sv8Loop]
  have c1 : ¬ (keySH = keyAP ∨ keySH = keySE ∨ ¬ (True ∨ True)) := by decide
  have c2 : ¬ (h.shSize < 2 + L) := by simp only [L]; omega
  simp only [c1, if_false, e_size, c2, hds, if_true, not_true_eq_false, parseSH, e_ver, e_s, e_k]
  have c3 : ¬ (4 + 1 + l1 + l2 + (2 + h.shPad.length) < 4 + 1 + l1 + l2) := by omega
  have c4 : 4 + 1 + l1 + l2 + (2 + h.shPad.length) - (4 + 1 + l1 + l2) = 2 + h.shPad.length := by omega
  simp only [c3, if_false, c4, e_data, List.length_cons]
  have c5 : ¬ (h.shPad.length + 1 + 1 ≠ 2 + h.shPad.length ∨ h.shPad.length + 1 + 1 < 2) := by omega
  simp only [c5, if_false, List.getD_cons_zero, List.getD_cons_succ, hb0, hrow, hb1, hvn, Except.map, hend, e_key, hkok,
    not_true_eq_false]


theorem signed_peak_be (p : Nat) (h : p < 2 ^ 15) : ofSignedLE (toBE 2 p).reverse = (p : Int) := by
  have : enc16 (p : Int) = p := by
    unfold enc16
    have : ¬ ((p : Int) < 0) := by omega
    simp [this]
  have h2 := signed_enc16_be (p : Int) (by omega) (by omega)
  rw [this] at h2; exact h2

/-- the round over the RG packet (SH seen) -/
theorem rg_step (h : Spec.Musepack.Sv8) (ok : h.OK) (pre tail : Bytes) (k' : Bytes) (hk' : readAt tail 0 2 = k')
    (hkok : keyOK k' = true) (fuel : Nat) (a : Musepack.Sv8) :
    sv8Loop (pre ++ (varint h.rgSize ++ (h.rgPayload ++ tail))) (fuel + 1) pre.length keyRG false true a =
    sv8Loop (pre ++ (varint h.rgSize ++ (h.rgPayload ++ tail))) fuel ((pre ++ (varint h.rgSize ++ h.rgPayload)).length + 2) k'
      false false { a with titleGain := h.titleGain, titlePeak := h.titlePeak, albumGain := h.albumGain, albumPeak := h.albumPeak } := by
  obtain ⟨_, _, _, _, _, _, _, _, _, _, _, _, _, _, hrv, htg1, htg2, htp, hag1, hag2, hap, hsz, hszl⟩ := ok
  generalize hf : pre ++ (varint h.rgSize ++ (h.rgPayload ++ tail)) = f
  let L := varintLen h.rgSize
  have hpl : h.rgPayload.length = 9 + h.rgPad.length := by simp [Sv8.rgPayload]; omega
  have e_size : sv8Int f 9 pre.length 0 0 = some (h.rgSize, L) := by
    rw [← hf]; exact sv8Int_varint h.rgSize (by omega) pre _
  have e_data : readAt f (pre.length + L) (h.rgSize - 2 - L) = h.rgPayload := by
    have : f = (pre ++ varint h.rgSize) ++ (h.rgPayload ++ tail) := by rw [← hf]; simp
    have hl : pre.length + L = (pre ++ varint h.rgSize).length := by simp [length_varint, L]
    rw [hl, this, readAt_append_length]
    exact readAt_zero_append _ _ _ (by simp only [L]; omega)
  have hend : pre.length + L + (h.rgSize - 2 - L) = (pre ++ (varint h.rgSize ++ h.rgPayload)).length := by
    simp only [List.length_append, length_varint, L]; omega
  have e_key : readAt f ((pre ++ (varint h.rgSize ++ h.rgPayload)).length) 2 = k' := by
    have : f = (pre ++ (varint h.rgSize ++ h.rgPayload)) ++ tail := by rw [← hf]; simp
    rw [this, readAt_append_length, hk']
  have g1 : ofSignedLE (readAt h.rgPayload 1 2).reverse = h.titleGain := by
    simp only [Sv8.rgPayload, List.append_assoc]; rd_simp; exact signed_enc16_be _ htg1 htg2
  have g2 : ofSignedLE (readAt h.rgPayload 3 2).reverse = (h.titlePeak : Int) := by
    simp only [Sv8.rgPayload, List.append_assoc]; rd_simp; exact signed_peak_be _ htp
  have g3 : ofSignedLE (readAt h.rgPayload 5 2).reverse = h.albumGain := by
    simp only [Sv8.rgPayload, List.append_assoc]; rd_simp; exact signed_enc16_be _ hag1 hag2
  have g4 : ofSignedLE (readAt h.rgPayload 7 2).reverse = (h.albumPeak : Int) := by
    simp only [Sv8.rgPayload, List.append_assoc]; rd_simp; exact signed_peak_be _ hap
  rw [sv8Loop]
  have c1 : ¬ (keyRG = keyAP ∨ keyRG = keySE ∨ ¬ (False ∨ True)) := by decide
  have c2 : ¬ (h.rgSize < 2 + L) := by simp only [L]; omega
  have c3 : ¬ (keyRG = keySH) := by decide
  have c4 : ¬ (h.rgSize - 2 - L < 9) := by simp only [L]; omega
  have c5 : h.rgPayload.length = h.rgSize - 2 - L := by simp only [L]; omega
  simp only [Bool.false_eq_true, c1, if_false, e_size, c2, c3, if_true, not_true_eq_false, parseRG, e_data, c4, c5,
    ne_eq, not_false_eq_true, g1, g2, g3, g4, Except.map, hend, e_key, hkok]


theorem loop_done (f : Bytes) (fuel pos : Nat) (k : Bytes) (a : Musepack.Sv8) :
    sv8Loop f fuel pos k false false a = .ok (false, false, a) := by
  rw [sv8Loop]; simp

theorem length_le_packetsBytes (ps : List Packet) : ps.length ≤ (packetsBytes ps).length := by
  induction ps with
  | nil => simp
  | cons p ps ih =>
    have : 1 ≤ (varint p.size).length := by
      rw [length_varint]; unfold varintLen; (repeat' split) <;> omega
    simp only [packetsBytes, Packet.bytes, List.length_cons, List.length_append]; omega

theorem parse_sv8 (h : Spec.Musepack.Sv8) (ok : h.OK) (rest : Bytes) (hrest : letters (readAt rest 0 2) = true)
    (hsz : (h.build ++ rest).length < 2 ^ 62) :
    parse (h.build ++ rest) = .ok (h.expected (h.build ++ rest).length) := by
  have hmid : ∀ p ∈ h.mid, p.OK := ok.2.2.2.2.2.2.2.2.2.2.2.2.2.1
  have hri : h.rateIndex < 4 := ok.2.2.2.2.1
  obtain ⟨hkok, hkl⟩ := letters_keyOK _ hrest
  generalize hF : h.build ++ rest = f at hsz ⊢
  -- the shapes of the file
  let t3 : Bytes := varint h.rgSize ++ (h.rgPayload ++ rest)
  let t2 : Bytes := packetsBytes h.mid ++ (keyRG ++ t3)
  have f1 : f = (magic8 ++ keySH) ++ (varint h.shSize ++ (h.shPayload ++ t2)) := by
    rw [← hF]; simp [Sv8.build, magic8, t2, t3]
  have f2 : f = ((magic8 ++ keySH) ++ (varint h.shSize ++ h.shPayload)) ++ (packetsBytes h.mid ++ (keyRG ++ t3)) := by
    rw [f1]; simp [t2]
  have f3 : f = ((((magic8 ++ keySH) ++ (varint h.shSize ++ h.shPayload)) ++ packetsBytes h.mid) ++ keyRG) ++
      (varint h.rgSize ++ (h.rgPayload ++ rest)) := by
    rw [f2]; simp [t3]
  have hhead : readAt f 0 4 = magic8 := by
    rw [f1, List.append_assoc]; exact readAt_zero_append _ _ _ rfl
  have hkey0 : readAt f (0 + 4) 2 = keySH := by
    rw [f1, List.append_assoc, show 0 + 4 = magic8.length from rfl, readAt_append_length]
    exact readAt_zero_append _ _ _ rfl
  have hfuel : ∃ k, f.length = ((k + 1) + h.mid.length) + 1 := by
    have := length_le_packetsBytes h.mid
    refine ⟨f.length - 2 - h.mid.length, ?_⟩
    have hl : f.length ≥ 6 + (packetsBytes h.mid).length + 2 := by
      rw [f2]; simp only [List.length_append, keyRG, keySH, magic8, List.length_cons, List.length_nil]; omega
    omega
  obtain ⟨k, hk⟩ := hfuel
  -- the loop
  have hloop : sv8Loop f f.length (0 + 4 + 2) keySH true true {} =
      .ok (false, false, { version := h.streamVersion, samples := (h.samples : Int) - h.beginSilence, sampleRate := rate h.rateIndex,
                           channels := h.channels, titleGain := h.titleGain, titlePeak := h.titlePeak, albumGain := h.albumGain,
                           albumPeak := h.albumPeak }) := by
    rw [hk]
    have s1 := sh_step h ok (magic8 ++ keySH) t2 (firstKey h.mid keyRG) (readAt_firstKey h.mid hmid keyRG t3 rfl)
      (keyOK_firstKey h.mid hmid keyRG (by decide)) ((k + 1) + h.mid.length)
    rw [← f1] at s1
    rw [show 0 + 4 + 2 = (magic8 ++ keySH).length from rfl, s1]
    have s2 := loop_packets h.mid hmid ((magic8 ++ keySH) ++ (varint h.shSize ++ h.shPayload)) keyRG t3 (k + 1)
      { version := h.streamVersion, samples := (h.samples : Int) - h.beginSilence, sampleRate := rate h.rateIndex, channels := h.channels }
      (by decide) rfl (by rw [← f2]; exact hsz)
    rw [← f2] at s2
    rw [s2]
    have s3 := rg_step h ok (((((magic8 ++ keySH) ++ (varint h.shSize ++ h.shPayload)) ++ packetsBytes h.mid) ++ keyRG)) rest
      (readAt rest 0 2) rfl hkok k
      { version := h.streamVersion, samples := (h.samples : Int) - h.beginSilence, sampleRate := rate h.rateIndex, channels := h.channels }
    rw [← f3] at s3
    have hp : (((magic8 ++ keySH) ++ (varint h.shSize ++ h.shPayload)) ++ packetsBytes h.mid).length + 2 =
        (((((magic8 ++ keySH) ++ (varint h.shSize ++ h.shPayload)) ++ packetsBytes h.mid) ++ keyRG)).length := by
      have : keyRG.length = 2 := rfl
      simp only [List.length_append, this]
    rw [hp, s3, loop_done]
  obtain ⟨hrow, hnz⟩ := rates_rows h.rateIndex hri
  unfold parse
  have hnid : ¬ (readAt magic8 0 3 = magicID3) := by decide
  have hm8 : startsWith magic8 magic8 = true := by decide
  simp only [hhead, show magic8.length = 4 from rfl, ne_eq, not_true_eq_false, if_false, hnid, hm8, if_true, parseSv8, hkey0,
    show keyOK keySH = true from by decide, hloop, Bool.false_eq_true, or_self, hnz, Sv8.expected, rgAttr]


theorem rates_nonzero : ∀ r ∈ Generated.musepackRates, r ≠ 0 := by decide

theorem parseSH_spec (f : Bytes) (p d : Nat) (a : Musepack.Sv8) :
    (∀ e, parseSH f p d a = .error e → e = .mutagen) ∧
    (∀ a' p', parseSH f p d a = .ok (a', p') → p ≤ p' ∧ a'.sampleRate ≠ 0) := by
  unfold parseSH
  simp only
  split
  · exact ⟨(fun e he => by cases he; rfl), fun a' p' he => by cases he⟩
  · split
    · exact ⟨(fun e he => by cases he; rfl), fun a' p' he => by cases he⟩
    · split
      · exact ⟨(fun e he => by cases he; rfl), fun a' p' he => by cases he⟩
      · split
        · exact ⟨(fun e he => by cases he; rfl), fun a' p' he => by cases he⟩
        · split
          · exact ⟨(fun e he => by cases he; rfl), fun a' p' he => by cases he⟩
          · split
            · exact ⟨(fun e he => by cases he; rfl), fun a' p' he => by cases he⟩
            · rename_i rate hr
              refine ⟨(fun e he => by cases he), fun a' p' he => ?_⟩
              cases he
              exact ⟨by omega, rates_nonzero rate (List.mem_of_getElem? hr)⟩

theorem parseRG_spec (f : Bytes) (p d : Nat) (a : Musepack.Sv8) :
    (∀ e, parseRG f p d a = .error e → e = .mutagen) ∧
    (∀ a' p', parseRG f p d a = .ok (a', p') → p ≤ p' ∧ a'.sampleRate = a.sampleRate) := by
  unfold parseRG
  simp only
  split
  · exact ⟨(fun e he => by cases he; rfl), fun a' p' he => by cases he⟩
  · split
    · exact ⟨(fun e he => by cases he; rfl), fun a' p' he => by cases he⟩
    · refine ⟨(fun e he => by cases he), fun a' p' he => ?_⟩
      cases he
      exact ⟨by omega, rfl⟩

theorem keyOK_length (k : Bytes) (h : keyOK k = true) : k.length = 2 := by
  match k, h with
  | [a, b], _ => rfl


theorem sv8Loop_spec (f : Bytes) : ∀ (fuel pos : Nat) (ft : Bytes) (nSH nRG : Bool) (a : Musepack.Sv8),
    f.length ≤ fuel + pos → (nSH = true ∨ a.sampleRate ≠ 0) →
    (∀ e, sv8Loop f fuel pos ft nSH nRG a = .error e → e = .mutagen) ∧
    (∀ s r a', sv8Loop f fuel pos ft nSH nRG a = .ok (s, r, a') → (s = true ∨ a'.sampleRate ≠ 0)) := by
  intro fuel
  induction fuel with
  | zero =>
    intro pos ft nSH nRG a hlen hinv
    rw [sv8Loop]
    split
    · exact ⟨(fun e he => by cases he), fun s r a' he => by cases he; exact hinv⟩
    · split
      · exact ⟨(fun e he => by cases he; rfl), fun s r a' he => by cases he⟩
      · rename_i n slen hvi
        split
        · exact ⟨(fun e he => by cases he; rfl), fun s r a' he => by cases he⟩
        · rename_i hn
          simp only
          -- what the step yields
          have hstep : ∀ (st : Except PyErr (Bool × Bool × Musepack.Sv8 × Nat)),
              st = (if ft = keySH then
                      if ¬ nSH = true then .error .mutagen
                      else (parseSH f (pos + slen) (n - 2 - slen) a).map fun r => (false, nRG, r.1, r.2)
                    else if ft = keyRG then
                      if ¬ nRG = true then .error .mutagen
                      else (parseRG f (pos + slen) (n - 2 - slen) a).map fun r => (nSH, false, r.1, r.2)
                    else if pos + slen + (n - 2 - slen) > 2 ^ 63 - 1 then .error .mutagen
                    else .ok (nSH, nRG, a, pos + slen + (n - 2 - slen))) →
              (∀ e, st = .error e → e = .mutagen) ∧
              (∀ s r a' p', st = .ok (s, r, a', p') → pos ≤ p' ∧ (s = true ∨ a'.sampleRate ≠ 0)) := by
            intro st hst
            subst hst
            split
            · split
              · exact ⟨(fun e he => by cases he; rfl), fun s r a' p' he => by cases he⟩
              · obtain ⟨h1, h2⟩ := parseSH_spec f (pos + slen) (n - 2 - slen) a
                cases hp : parseSH f (pos + slen) (n - 2 - slen) a with
                | error e' => exact ⟨(fun e he => by simp [Except.map] at he; subst he; exact h1 _ hp), fun s r a' p' he => by simp [Except.map] at he⟩
                | ok v =>
                  refine ⟨(fun e he => by simp [Except.map] at he), fun s r a' p' he => ?_⟩
                  simp only [Except.map, Except.ok.injEq, Prod.mk.injEq] at he
                  obtain ⟨_, _, rfl, rfl⟩ := he
                  have := h2 v.1 v.2 hp
                  exact ⟨by omega, Or.inr this.2⟩
            · split
              · split
                · exact ⟨(fun e he => by cases he; rfl), fun s r a' p' he => by cases he⟩
                · obtain ⟨h1, h2⟩ := parseRG_spec f (pos + slen) (n - 2 - slen) a
                  cases hp : parseRG f (pos + slen) (n - 2 - slen) a with
                  | error e' => exact ⟨(fun e he => by simp [Except.map] at he; subst he; exact h1 _ hp), fun s r a' p' he => by simp [Except.map] at he⟩
                  | ok v =>
                    refine ⟨(fun e he => by simp [Except.map] at he), fun s r a' p' he => ?_⟩
                    simp only [Except.map, Except.ok.injEq, Prod.mk.injEq] at he
                    obtain ⟨rfl, _, rfl, rfl⟩ := he
                    have := h2 v.1 v.2 hp
                    refine ⟨by omega, ?_⟩
                    rw [this.2]; exact hinv
              · split
                · rename_i hov
                  refine ⟨fun e he => ?_, fun s r a' p' he => by cases he⟩
                  cases he
                  rfl
                · refine ⟨(fun e he => by cases he), fun s r a' p' he => ?_⟩
                  cases he
                  exact ⟨by omega, hinv⟩
          obtain ⟨hs1, hs2⟩ := hstep _ rfl
          split
          · rename_i e' he'
            exact ⟨(fun e he => by cases he; exact hs1 _ he'), fun s r a' he => by cases he⟩
          · rename_i s0 r0 a0 p0 hok
            obtain ⟨hp0, hinv0⟩ := hs2 _ _ _ _ hok
            split
            · exact ⟨(fun e he => by cases he; rfl), fun s r a' he => by cases he⟩
            · rename_i hk
              have := keyOK_length _ (by simpa using hk)
              rw [length_readAt] at this
              omega
  | succ k ih =>
    intro pos ft nSH nRG a hlen hinv
    rw [sv8Loop]
    split
    · exact ⟨(fun e he => by cases he), fun s r a' he => by cases he; exact hinv⟩
    · split
      · exact ⟨(fun e he => by cases he; rfl), fun s r a' he => by cases he⟩
      · rename_i n slen hvi
        split
        · exact ⟨(fun e he => by cases he; rfl), fun s r a' he => by cases he⟩
        · rename_i hn
          simp only
          -- what the step yields
          have hstep : ∀ (st : Except PyErr (Bool × Bool × Musepack.Sv8 × Nat)),
              st = (if ft = keySH then
                      if ¬ nSH = true then .error .mutagen
                      else (parseSH f (pos + slen) (n - 2 - slen) a).map fun r => (false, nRG, r.1, r.2)
                    else if ft = keyRG then
                      if ¬ nRG = true then .error .mutagen
                      else (parseRG f (pos + slen) (n - 2 - slen) a).map fun r => (nSH, false, r.1, r.2)
                    else if pos + slen + (n - 2 - slen) > 2 ^ 63 - 1 then .error .mutagen
                    else .ok (nSH, nRG, a, pos + slen + (n - 2 - slen))) →
              (∀ e, st = .error e → e = .mutagen) ∧
              (∀ s r a' p', st = .ok (s, r, a', p') → pos ≤ p' ∧ (s = true ∨ a'.sampleRate ≠ 0)) := by
            intro st hst
            subst hst
            split
            · split
              · exact ⟨(fun e he => by cases he; rfl), fun s r a' p' he => by cases he⟩
              · obtain ⟨h1, h2⟩ := parseSH_spec f (pos + slen) (n - 2 - slen) a
                cases hp : parseSH f (pos + slen) (n - 2 - slen) a with
                | error e' => exact ⟨(fun e he => by simp [Except.map] at he; subst he; exact h1 _ hp), fun s r a' p' he => by simp [Except.map] at he⟩
                | ok v =>
                  refine ⟨(fun e he => by simp [Except.map] at he), fun s r a' p' he => ?_⟩
                  simp only [Except.map, Except.ok.injEq, Prod.mk.injEq] at he
                  obtain ⟨_, _, rfl, rfl⟩ := he
                  have := h2 v.1 v.2 hp
                  exact ⟨by omega, Or.inr this.2⟩
            · split
              · split
                · exact ⟨(fun e he => by cases he; rfl), fun s r a' p' he => by cases he⟩
                · obtain ⟨h1, h2⟩ := parseRG_spec f (pos + slen) (n - 2 - slen) a
                  cases hp : parseRG f (pos + slen) (n - 2 - slen) a with
                  | error e' => exact ⟨(fun e he => by simp [Except.map] at he; subst he; exact h1 _ hp), fun s r a' p' he => by simp [Except.map] at he⟩
                  | ok v =>
                    refine ⟨(fun e he => by simp [Except.map] at he), fun s r a' p' he => ?_⟩
                    simp only [Except.map, Except.ok.injEq, Prod.mk.injEq] at he
                    obtain ⟨rfl, _, rfl, rfl⟩ := he
                    have := h2 v.1 v.2 hp
                    refine ⟨by omega, ?_⟩
                    rw [this.2]; exact hinv
              · split
                · rename_i hov
                  refine ⟨fun e he => ?_, fun s r a' p' he => by cases he⟩
                  cases he
                  rfl
                · refine ⟨(fun e he => by cases he), fun s r a' p' he => ?_⟩
                  cases he
                  exact ⟨by omega, hinv⟩
          obtain ⟨hs1, hs2⟩ := hstep _ rfl
          split
          · rename_i e' he'
            exact ⟨(fun e he => by cases he; exact hs1 _ he'), fun s r a' he => by cases he⟩
          · rename_i s0 r0 a0 p0 hok
            obtain ⟨hp0, hinv0⟩ := hs2 _ _ _ _ hok
            split
            · exact ⟨(fun e he => by cases he; rfl), fun s r a' he => by cases he⟩
            · exact ih (p0 + 2) _ s0 r0 a0 (by omega) hinv0


theorem rates_total : ∀ i < 4, ∃ r, Generated.musepackRates[i]? = some r ∧ r ≠ 0 := by decide

theorem parseSv467_total (f : Bytes) (p0 : Nat) : ∀ e, parseSv467 f p0 = .error e → e = .mutagen := by
  intro e he
  unfold parseSv467 at he
  simp only at he
  split at he
  · cases he; rfl
  · split at he
    · split at he
      · cases he; rfl
      · obtain ⟨r, hr, hr0⟩ := rates_total (uLE (readAt f p0 32) 8 4 / 2 ^ 16 % 4) (Nat.mod_lt _ (by decide))
        rw [hr] at he
        simp only [hr0, if_false] at he
        cases he
    · split at he
      · cases he; rfl
      · cases he

theorem parseSv8_total (f : Bytes) (pos : Nat) :
    ∀ e, parseSv8 f pos = .error e → e = .mutagen := by
  intro e he
  unfold parseSv8 at he
  simp only at he
  split at he
  · cases he; rfl
  · obtain ⟨h1, h2⟩ := sv8Loop_spec f f.length (pos + 2) (readAt f pos 2) true true {} (by omega) (Or.inl rfl)
    split at he
    · rename_i e' hl
      cases he
      exact h1 _ hl
    · rename_i s r a hl
      split at he
      · cases he; rfl
      · rename_i hneed
        have hs := h2 s r a hl
        have : a.sampleRate ≠ 0 := by
          rcases hs with hs | hs
          · exact absurd (Or.inl hs) hneed
          · exact hs
        simp only [this, if_false] at he
        cases he

theorem parse_total_aux (f : Bytes) : ∀ e, parse f = .error e → e = .mutagen := by
  intro e he
  unfold parse at he
  simp only at he
  split at he
  · cases he; rfl
  · split at he
    · rename_i e' hst
      cases he
      split at hst
      · split at hst
        · cases hst; rfl
        · split at hst
          · cases hst; rfl
          · cases hst
      · cases hst
    · split at he
      · exact parseSv8_total f _ e he
      · exact parseSv467_total f _ e he

end Mutagen.Info.Musepack
