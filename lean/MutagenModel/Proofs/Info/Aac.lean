/- Proofs/Info/Aac.lean — totality of the ADTS / ADIF parser (the ten-tries loop only returns a stream with ≥ 3 frames) -/
import MutagenModel.Proofs.Info.Common
import MutagenModel.Spec.Info.Aac
set_option linter.unusedVariables false
set_option linter.unusedSimpArgs false
namespace Mutagen.Info.Aac
open Mutagen Mutagen.Info

theorem tries_spec (f : Bytes) (n : Nat) : ∀ offset,
    (∀ e, tries f n offset = .error e → e = .mutagen) ∧
    (∀ s o, tries f n offset = .ok (s, o) → s.parsedFrames ≥ 3) := by
  induction n with
  | zero => intro offset; simp [tries]
  | succ n ih =>
    intro offset
    unfold tries
    split
    · simp
    · simp only
      split
      · rename_i h3
        refine ⟨(fun e he => by cases he), fun s o he => ?_⟩
        cases he; exact h3
      · exact ih _

theorem parseAdif_total (f : Bytes) (p0 : Nat) : ∀ e, parseAdif f p0 = .error e → e = .mutagen := by
  intro e he
  unfold parseAdif at he
  split at he
  · cases he; rfl
  · cases he

theorem parseAdts_total (f : Bytes) (off : Nat) : ∀ e, parseAdts f off = .error e → e = .mutagen := by
  intro e he
  unfold parseAdts at he
  split at he
  · rename_i e' ht
    cases he
    exact (tries_spec f 10 _).1 _ ht
  · rename_i s o ht
    have h3 := (tries_spec f 10 _).2 s o ht
    simp only at he
    split at he
    · omega
    · cases he

theorem parse_total (f : Bytes) : ∀ e, parse f = .error e → e = .mutagen := by
  intro e he
  unfold parse at he
  simp only at he
  generalize (if startsWith (readAt f 0 10) magicID3 = true then bitPadded (List.drop 6 (readAt f 0 10)) + 10 else 0) = so at he
  split at he
  · exact parseAdif_total f _ e he
  · exact parseAdts_total f _ e he

end Mutagen.Info.Aac
