/- Proofs/Info/Aac.lean — totality of the ADTS / ADIF parser; bit fields of a big-endian word read through the
bit-position reader; the ADTS frame loop over a symbolic frame list -/
import MutagenModel.Proofs.Info.Common
import MutagenModel.Proofs.Bits
import MutagenModel.Spec.Info.Aac
set_option linter.unusedVariables false
set_option linter.unusedSimpArgs false
namespace Mutagen.Info.Aac
open Mutagen Mutagen.Info Mutagen.Spec.Aac

theorem tries_spec (f : Bytes) (n : Nat) : ∀ offset,
    (∀ e, tries f n offset = .error e → e = .mutagen) ∧
    (∀ s o, tries f n offset = .ok (s, o) → s.parsedFrames ≥ 3) := by
  induction n with
  | zero => intro offset; simp [tries]
  | succ n ih =>
    intro offset
    unfold tries
    split
    · simp
    · simp only
      split
      · rename_i h3
        refine ⟨(fun e he => by cases he), fun s o he => ?_⟩
        cases he; exact h3
      · exact ih _

theorem parseAdif_total (f : Bytes) (p0 : Nat) : ∀ e, parseAdif f p0 = .error e → e = .mutagen := by
  intro e he
  unfold parseAdif at he
  split at he
  · cases he; rfl
  · cases he

theorem parseAdts_total (f : Bytes) (off : Nat) : ∀ e, parseAdts f off = .error e → e = .mutagen := by
  intro e he
  unfold parseAdts at he
  split at he
  · rename_i e' ht
    cases he
    exact (tries_spec f 10 _).1 _ ht
  · rename_i s o ht
    have h3 := (tries_spec f 10 _).2 s o ht
    simp only at he
    split at he
    · omega
    · cases he

theorem parse_total (f : Bytes) : ∀ e, parse f = .error e → e = .mutagen := by
  intro e he
  unfold parse at he
  simp only at he
  generalize (if startsWith (readAt f 0 10) magicID3 = true then bitPadded (List.drop 6 (readAt f 0 10)) + 10 else 0) = so at he
  split at he
  · exact parseAdif_total f _ e he
  · exact parseAdts_total f _ e he


theorem bytesToBits_append (a b : Bytes) : bytesToBits (a ++ b) = bytesToBits a ++ bytesToBits b := by
  simp [bytesToBits]

theorem length_bytesToBits (b : Bytes) : (bytesToBits b).length = 8 * b.length := by
  induction b with
  | nil => rfl
  | cons x r ih => rw [bytesToBits_cons, List.length_append, length_natToBits, ih, List.length_cons]; omega

theorem bytesToBits_drop (b : Bytes) : ∀ i, bytesToBits (b.drop i) = (bytesToBits b).drop (8 * i) := by
  induction b with
  | nil => intro i; simp [bytesToBits]
  | cons x r ih =>
    intro i
    cases i with
    | zero => simp
    | succ i =>
      have h1 : (natToBits 8 x.toNat).drop (8 * (i + 1)) = [] :=
        List.drop_of_length_le (by rw [length_natToBits]; omega)
      rw [List.drop_succ_cons, ih i, bytesToBits_cons, List.drop_append, h1, length_natToBits, List.nil_append]
      congr 1

theorem bytesToBits_take (b : Bytes) : ∀ m, bytesToBits (b.take m) = (bytesToBits b).take (8 * m) := by
  induction b with
  | nil => intro m; simp [bytesToBits]
  | cons x r ih =>
    intro m
    cases m with
    | zero => simp [bytesToBits]
    | succ m =>
      have h1 : (natToBits 8 x.toNat).take (8 * (m + 1)) = natToBits 8 x.toNat :=
        List.take_of_length_le (by rw [length_natToBits]; omega)
      rw [List.take_succ_cons, bytesToBits_cons, bytesToBits_cons, ih m, List.take_append, h1, length_natToBits]
      congr 2

/-- the windowed `bitsAt` of the model reads the same bits as unpacking the whole file -/
theorem bitsAt_eq (f : Bytes) (q n : Nat) : bitsAt f q n = bitsToNat (((bytesToBits f).drop q).take n) := by
  unfold bitsAt readAt
  rw [bytesToBits_take, bytesToBits_drop, List.drop_take, List.take_take, List.drop_drop]
  congr 2
  · omega
  · congr 1; omega

theorem natToBits_add (a b v : Nat) : natToBits (a + b) v = natToBits a (v / 2 ^ b) ++ natToBits b v := by
  induction a with
  | zero => simp [natToBits]
  | succ a ih =>
    rw [show a + 1 + b = (a + b) + 1 by omega]
    simp only [natToBits, List.cons_append, ih]
    congr 2
    rw [Nat.div_div_eq_div_mul, ← Nat.pow_add, Nat.add_comm]

theorem bytesToBits_toBE (k H : Nat) : bytesToBits (toBE k H) = natToBits (8 * k) H := by
  induction k generalizing H with
  | zero => rfl
  | succ k ih =>
    have h1 : toBE (k + 1) H = toBE k (H / 256) ++ [UInt8.ofNat (H % 256)] := by
      simp [toBE, toLE]
    rw [h1, bytesToBits_append, ih, show 8 * (k + 1) = 8 * k + 8 by omega, natToBits_add]
    congr 1
    simp only [bytesToBits, List.flatMap_cons, List.flatMap_nil, List.append_nil]
    have : (UInt8.ofNat (H % 256)).toNat = H % 256 := by simp [UInt8.toNat_ofNat']
    rw [this]
    exact natToBits_mod 8 0 H

/-- a bit field of a big-endian word embedded in the file -/
theorem bitsAt_word (pre more : Bytes) (k H off w : Nat) (h : off + w ≤ 8 * k) :
    bitsAt (pre ++ (toBE k H ++ more)) (8 * pre.length + off) w = H / 2 ^ (8 * k - off - w) % 2 ^ w := by
  rw [bitsAt_eq, bytesToBits_append, bytesToBits_append, bytesToBits_toBE,
    List.drop_append, List.drop_of_length_le (by rw [length_bytesToBits]; omega), List.nil_append, length_bytesToBits,
    show 8 * pre.length + off - 8 * pre.length = off by omega]
  have e1 : natToBits (8 * k) H = natToBits off (H / 2 ^ (8 * k - off)) ++ natToBits (8 * k - off) H := by
    rw [← natToBits_add]; congr 1; omega
  have e2 : natToBits (8 * k - off) H = natToBits w (H / 2 ^ (8 * k - off - w)) ++ natToBits (8 * k - off - w) H := by
    rw [← natToBits_add]; congr 1; omega
  rw [e1, List.append_assoc, List.drop_append, List.drop_of_length_le (by simp), List.nil_append, length_natToBits,
    Nat.sub_self, List.drop_zero, e2, List.append_assoc, List.take_append, List.take_of_length_le (by simp),
    length_natToBits, Nat.sub_self, List.take_zero, List.append_nil, bitsToNat_natToBits_mod]


theorem bits_hdr (pre more : Bytes) (W c n : Nat) (hn : 0 < n) (hc : c + n ≤ 56) :
    R.bits (pre ++ (toBE 7 W ++ more)) ⟨0, 8 * pre.length + c⟩ n =
      some (W / 2 ^ (56 - c - n) % 2 ^ n, ⟨0, 8 * pre.length + (c + n)⟩) := by
  unfold R.bits
  have h0 : ¬ (n = 0) := by omega
  have hl : 8 * 0 + (8 * pre.length + c) + n ≤ 8 * (pre ++ (toBE 7 W ++ more)).length := by
    simp only [List.length_append, length_toBE]; omega
  rw [if_neg h0, if_pos hl, Nat.mul_zero, Nat.zero_add, bitsAt_word pre more 7 W c n (by omega)]
  simp only [Nat.add_assoc]

theorem skip_hdr (pre more : Bytes) (W c n : Nat) (hc : c + n < 56) :
    R.skip (pre ++ (toBE 7 W ++ more)) ⟨0, 8 * pre.length + c⟩ n = some ⟨0, 8 * pre.length + (c + n)⟩ := by
  unfold R.skip
  have hl : 8 * 0 + (8 * pre.length + c) + n < 8 * (pre ++ (toBE 7 W ++ more)).length := by
    simp only [List.length_append, length_toBE]; omega
  rw [if_pos (Or.inr hl)]
  simp only [Nat.add_assoc]

def keyOf (h : Adts) : List Nat :=
  [h.id, 0, h.protectionAbsent, h.profile, h.sfIndex, h.privateBit, h.chanConfig, h.original, h.home]

def crcBits (pa nb : Nat) : Nat := if pa = 0 then (if nb ≠ 0 then (nb + 1) * 16 * 2 else (nb + 1) * 16) else 0

theorem parseFrame_frame (h : Adts) (ok : h.OK) (fr : Frame) (hfr : fr.OK h.protectionAbsent) (pre more : Bytes) (s : Stream)
    (hr : s.r = ⟨0, 8 * pre.length + 12⟩) (hkey : s.key = none ∨ s.key = some (keyOf h)) :
    parseFrame (pre ++ (frameBytes h fr ++ more)) s =
      some { s with r := ⟨0, 8 * (pre ++ frameBytes h fr).length⟩, key := some (keyOf h), parsedFrames := s.parsedFrames + 1,
                    samples := s.samples + (fr.nordbif + 1) * 1024,
                    payloadBits := s.payloadBits + (8 * (fr.body.length : Int) - crcBits h.protectionAbsent fr.nordbif),
                    lastBits := 8 * (pre ++ frameBytes h fr).length } := by
  obtain ⟨hid, hpa, hpr, hsf, hpv, hcc, hor, hho, _, _⟩ := ok
  obtain ⟨hcb, hbf, hnb, hfl, hcrc⟩ := hfr
  have hf : pre ++ (frameBytes h fr ++ more) = pre ++ (toBE 7 (headerWord h fr) ++ (fr.body ++ more)) := by
    simp [frameBytes]
  generalize hW : headerWord h fr = W at hf
  have e0 : R.bits (pre ++ (toBE 7 W ++ (fr.body ++ more))) ⟨0, 8 * pre.length + 12⟩ 1 = some (W / 2 ^ 43 % 2 ^ 1, ⟨0, 8 * pre.length + 13⟩) :=
    bits_hdr pre _ W 12 1 (by decide) (by decide)
  have e1 : R.bits (pre ++ (toBE 7 W ++ (fr.body ++ more))) ⟨0, 8 * pre.length + 13⟩ 2 = some (W / 2 ^ 41 % 2 ^ 2, ⟨0, 8 * pre.length + 15⟩) :=
    bits_hdr pre _ W 13 2 (by decide) (by decide)
  have e2 : R.bits (pre ++ (toBE 7 W ++ (fr.body ++ more))) ⟨0, 8 * pre.length + 15⟩ 1 = some (W / 2 ^ 40 % 2 ^ 1, ⟨0, 8 * pre.length + 16⟩) :=
    bits_hdr pre _ W 15 1 (by decide) (by decide)
  have e3 : R.bits (pre ++ (toBE 7 W ++ (fr.body ++ more))) ⟨0, 8 * pre.length + 16⟩ 2 = some (W / 2 ^ 38 % 2 ^ 2, ⟨0, 8 * pre.length + 18⟩) :=
    bits_hdr pre _ W 16 2 (by decide) (by decide)
  have e4 : R.bits (pre ++ (toBE 7 W ++ (fr.body ++ more))) ⟨0, 8 * pre.length + 18⟩ 4 = some (W / 2 ^ 34 % 2 ^ 4, ⟨0, 8 * pre.length + 22⟩) :=
    bits_hdr pre _ W 18 4 (by decide) (by decide)
  have e5 : R.bits (pre ++ (toBE 7 W ++ (fr.body ++ more))) ⟨0, 8 * pre.length + 22⟩ 1 = some (W / 2 ^ 33 % 2 ^ 1, ⟨0, 8 * pre.length + 23⟩) :=
    bits_hdr pre _ W 22 1 (by decide) (by decide)
  have e6 : R.bits (pre ++ (toBE 7 W ++ (fr.body ++ more))) ⟨0, 8 * pre.length + 23⟩ 3 = some (W / 2 ^ 30 % 2 ^ 3, ⟨0, 8 * pre.length + 26⟩) :=
    bits_hdr pre _ W 23 3 (by decide) (by decide)
  have e7 : R.bits (pre ++ (toBE 7 W ++ (fr.body ++ more))) ⟨0, 8 * pre.length + 26⟩ 1 = some (W / 2 ^ 29 % 2 ^ 1, ⟨0, 8 * pre.length + 27⟩) :=
    bits_hdr pre _ W 26 1 (by decide) (by decide)
  have e8 : R.bits (pre ++ (toBE 7 W ++ (fr.body ++ more))) ⟨0, 8 * pre.length + 27⟩ 1 = some (W / 2 ^ 28 % 2 ^ 1, ⟨0, 8 * pre.length + 28⟩) :=
    bits_hdr pre _ W 27 1 (by decide) (by decide)
  have e9 : R.skip (pre ++ (toBE 7 W ++ (fr.body ++ more))) ⟨0, 8 * pre.length + 28⟩ 2 = some ⟨0, 8 * pre.length + 30⟩ :=
    skip_hdr pre _ W 28 2 (by decide)
  have e10 : R.bits (pre ++ (toBE 7 W ++ (fr.body ++ more))) ⟨0, 8 * pre.length + 30⟩ 13 = some (W / 2 ^ 13 % 2 ^ 13, ⟨0, 8 * pre.length + 43⟩) :=
    bits_hdr pre _ W 30 13 (by decide) (by decide)
  have e11 : R.skip (pre ++ (toBE 7 W ++ (fr.body ++ more))) ⟨0, 8 * pre.length + 43⟩ 11 = some ⟨0, 8 * pre.length + 54⟩ :=
    skip_hdr pre _ W 43 11 (by decide)
  have e12 : R.bits (pre ++ (toBE 7 W ++ (fr.body ++ more))) ⟨0, 8 * pre.length + 54⟩ 2 = some (W / 2 ^ 0 % 2 ^ 2, ⟨0, 8 * pre.length + 56⟩) :=
    bits_hdr pre _ W 54 2 (by decide) (by decide)
  rw [hf]
  unfold parseFrame
  simp only [hr, bind, Option.bind, pure, e0, e1, e2, e3, e4, e5, e6, e7, e8, e9, e10, e11, e12]
  have w0 : W / 2 ^ 43 % 2 ^ 1 = h.id := by rw [← hW]; unfold headerWord; omega
  have w1 : W / 2 ^ 41 % 2 ^ 2 = 0 := by rw [← hW]; unfold headerWord; omega
  have w2 : W / 2 ^ 40 % 2 ^ 1 = h.protectionAbsent := by rw [← hW]; unfold headerWord; omega
  have w3 : W / 2 ^ 38 % 2 ^ 2 = h.profile := by rw [← hW]; unfold headerWord; omega
  have w4 : W / 2 ^ 34 % 2 ^ 4 = h.sfIndex := by rw [← hW]; unfold headerWord; omega
  have w5 : W / 2 ^ 33 % 2 ^ 1 = h.privateBit := by rw [← hW]; unfold headerWord; omega
  have w6 : W / 2 ^ 30 % 2 ^ 3 = h.chanConfig := by rw [← hW]; unfold headerWord; omega
  have w7 : W / 2 ^ 29 % 2 ^ 1 = h.original := by rw [← hW]; unfold headerWord; omega
  have w8 : W / 2 ^ 28 % 2 ^ 1 = h.home := by rw [← hW]; unfold headerWord; omega
  have w9 : W / 2 ^ 13 % 2 ^ 13 = 7 + fr.body.length := by rw [← hW]; unfold headerWord; omega
  have w10 : W / 2 ^ 0 % 2 ^ 2 = fr.nordbif := by rw [← hW]; unfold headerWord; omega
  have hk : ¬ (s.key ≠ none ∧ s.key ≠ some (keyOf h)) := by
    rcases hkey with hk | hk <;> simp [hk]
  have hleft : ((7 + fr.body.length : Nat) : Int) * 8 - (((8 * pre.length + 56 : Nat) : Int) - (((8 * pre.length + 12 : Nat) : Int) - 12)) =
      ((8 * fr.body.length : Nat) : Int) := by omega
  have hskip : R.skip (pre ++ (toBE 7 W ++ (fr.body ++ more))) ⟨0, 8 * pre.length + 56⟩ (8 * fr.body.length) =
      some ⟨0, 8 * pre.length + 56 + 8 * fr.body.length⟩ := by
    unfold R.skip
    rw [if_pos (Or.inl (by show (8 * pre.length + 56 + 8 * fr.body.length) % 8 = 0; omega))]
  have hlen : 8 * (pre ++ frameBytes h fr).length = 8 * pre.length + 56 + 8 * fr.body.length := by
    simp only [frameBytes, List.length_append, length_toBE]; omega
  have hnn : ¬ (((8 * fr.body.length : Nat) : Int) < 0) := by omega
  simp only [w0, w1, w2, w3, w4, w5, w6, w7, w8, w9, w10]
  rw [show [h.id, 0, h.protectionAbsent, h.profile, h.sfIndex, h.privateBit, h.chanConfig, h.original, h.home] = keyOf h from rfl,
    if_neg hk, hleft, if_neg hnn, Int.toNat_natCast, hskip, hlen]
  simp only [crcBits, Int.natCast_mul, Int.cast_ofNat_Int]


theorem align_aligned (n : Nat) : (⟨0, 8 * n⟩ : R).align = ⟨0, 8 * n⟩ := by
  simp only [R.align]; congr 1; omega

theorem syncLoop_at_frame (pre more : Bytes) (W k : Nat) (hW : W / 2 ^ 44 = 0xFFF) :
    syncLoop (pre ++ (toBE 7 W ++ more)) (k + 2) ⟨0, 8 * pre.length⟩ = some ⟨0, 8 * pre.length + 12⟩ := by
  have e0 := bits_hdr pre more W 0 8 (by decide) (by decide)
  have e1 := bits_hdr pre more W 8 4 (by decide) (by decide)
  have v0 : W / 2 ^ (56 - 0 - 8) % 2 ^ 8 = 0xff := by omega
  have v1 : W / 2 ^ (56 - 8 - 4) % 2 ^ 4 = 0xf := by omega
  rw [v0] at e0; rw [v1] at e1
  simp only [Nat.add_zero, Nat.zero_add, Nat.reduceAdd] at e0 e1
  simp only [syncLoop, e0, e1, if_true]

theorem sync_at_frame (pre more : Bytes) (W m : Nat) (hm : 2 ≤ m) (hW : W / 2 ^ 44 = 0xFFF) :
    sync (pre ++ (toBE 7 W ++ more)) ⟨0, 8 * pre.length⟩ m = some ⟨0, 8 * pre.length + 12⟩ := by
  unfold sync
  rw [align_aligned, show max m 2 = (m - 2) + 2 by omega]
  exact syncLoop_at_frame pre more W _ hW

theorem sync_at_eof (f : Bytes) (m : Nat) : sync f ⟨0, 8 * f.length⟩ m = none := by
  unfold sync
  rw [align_aligned, show max m 2 = (max m 2 - 2) + 2 by omega]
  have : R.bits f ⟨0, 8 * f.length⟩ 8 = none := by
    unfold R.bits
    simp
  simp only [syncLoop, this]

theorem headerWord_sync (h : Adts) (ok : h.OK) (fr : Frame) (hfr : fr.OK h.protectionAbsent) :
    headerWord h fr / 2 ^ 44 = 0xFFF := by
  obtain ⟨hid, hpa, hpr, hsf, hpv, hcc, hor, hho, _, _⟩ := ok
  obtain ⟨hcb, hbf, hnb, hfl, hcrc⟩ := hfr
  unfold headerWord; omega


def samplesOf (frs : List Frame) : Nat := (frs.map fun fr => (fr.nordbif + 1) * 1024).sum
def payloadOf (pa : Nat) (frs : List Frame) : Int :=
  (frs.map fun fr => (8 * (fr.body.length : Int) - crcBits pa fr.nordbif)).sum

theorem framesLoop_frames (h : Adts) (ok : h.OK) : ∀ (frs : List Frame) (fr : Frame),
    (∀ x ∈ fr :: frs, x.OK h.protectionAbsent) → ∀ (pre : Bytes) (s : Stream) (n : Nat), (fr :: frs).length ≤ n →
    s.r = ⟨0, 8 * pre.length + 12⟩ → (s.key = none ∨ s.key = some (keyOf h)) →
    framesLoop (pre ++ (fr :: frs).flatMap (frameBytes h)) n s =
      { r := ⟨0, 8 * (pre ++ (fr :: frs).flatMap (frameBytes h)).length⟩, key := some (keyOf h), offset := s.offset,
        parsedFrames := s.parsedFrames + (fr :: frs).length, samples := s.samples + samplesOf (fr :: frs),
        payloadBits := s.payloadBits + payloadOf h.protectionAbsent (fr :: frs),
        lastBits := 8 * (pre ++ (fr :: frs).flatMap (frameBytes h)).length } := by
  intro frs
  induction frs with
  | nil =>
    intro fr hok pre s n hn hr hkey
    obtain ⟨n', rfl⟩ : ∃ n', n = n' + 1 := ⟨n - 1, by simp at hn; omega⟩
    have hfr := hok fr List.mem_cons_self
    have hp := parseFrame_frame h ok fr hfr pre [] s hr hkey
    simp only [List.flatMap_cons, List.flatMap_nil]
    rw [framesLoop, hp]
    simp only
    have : 8 * (pre ++ frameBytes h fr).length = 8 * (pre ++ (frameBytes h fr ++ [])).length := by simp
    rw [this, sync_at_eof]
    simp [samplesOf, payloadOf]
  | cons fr2 frs ih =>
    intro fr hok pre s n hn hr hkey
    obtain ⟨n', rfl⟩ : ∃ n', n = n' + 1 := ⟨n - 1, by simp at hn; omega⟩
    have hfr := hok fr List.mem_cons_self
    have hfr2 := hok fr2 (List.mem_cons_of_mem _ List.mem_cons_self)
    have hok' : ∀ x ∈ fr2 :: frs, x.OK h.protectionAbsent := fun x hx => hok x (List.mem_cons_of_mem _ hx)
    have hp := parseFrame_frame h ok fr hfr pre ((fr2 :: frs).flatMap (frameBytes h)) s hr hkey
    have hf : pre ++ (fr :: fr2 :: frs).flatMap (frameBytes h) = pre ++ (frameBytes h fr ++ (fr2 :: frs).flatMap (frameBytes h)) := by
      simp only [List.flatMap_cons]
    have hf2 : pre ++ (frameBytes h fr ++ (fr2 :: frs).flatMap (frameBytes h)) =
        (pre ++ frameBytes h fr) ++ (toBE 7 (headerWord h fr2) ++ (fr2.body ++ frs.flatMap (frameBytes h))) := by
      simp [frameBytes]
    have hs := sync_at_frame (pre ++ frameBytes h fr) (fr2.body ++ frs.flatMap (frameBytes h)) (headerWord h fr2) 10 (by decide)
      (headerWord_sync h ok fr2 hfr2)
    rw [hf, framesLoop, hp]
    simp only
    rw [hf2, hs]
    simp only
    have hf3 : (pre ++ frameBytes h fr) ++ (toBE 7 (headerWord h fr2) ++ (fr2.body ++ frs.flatMap (frameBytes h))) =
        (pre ++ frameBytes h fr) ++ (fr2 :: frs).flatMap (frameBytes h) := by
      simp [frameBytes]
    rw [hf3, ih fr2 hok' (pre ++ frameBytes h fr) _ n' (by simp at hn ⊢; omega) rfl (Or.inr rfl)]
    simp only [samplesOf, payloadOf, List.map_cons, List.sum_cons, List.length_cons, List.flatMap_cons, List.append_assoc]
    congr 1 <;> omega


theorem payloadOf_eq (h : Adts) (ok : h.OK) : payloadOf h.protectionAbsent h.frames = rawBits h := by
  unfold payloadOf rawBits
  congr 1
  apply List.map_congr_left
  intro fr hfr
  have hpa := ok.2.1
  have hnb := (ok.2.2.2.2.2.2.2.2.2 fr hfr).2.2.1
  unfold crcBits crcBytes
  by_cases h0 : h.protectionAbsent = 0
  · have h1 : ¬ (h.protectionAbsent = 1) := by omega
    by_cases hn : fr.nordbif = 0
    · simp [h0, hn]
    · simp only [h0, h1, hn, if_true, if_false, ne_eq, not_false_eq_true]
      push_cast
      omega
  · have h1 : h.protectionAbsent = 1 := by omega
    simp [h1]

theorem freqs_rows : ∀ i < 13, Generated.aacFreqs[i]? = some (Spec.Tables.aacFreqs.getD i 0) ∧ Spec.Tables.aacFreqs.getD i 0 ≠ 0 := by
  decide

theorem channels_rows : ∀ c < 8, (if c = 7 then 8 else if c > 7 then 0 else c) = channelsOf c := by decide

theorem parse_adts (h : Adts) (ok : h.OK) (h100 : h.frames.length ≤ 100) :
    parse (build h) = .ok { expected h with length := lengthEstimate h } := by
  have ok' := ok
  obtain ⟨hid, hpa, hpr, hsf, hpv, hcc, hor, hho, h3, hfrs⟩ := ok'
  obtain ⟨fr, frs, hfl⟩ : ∃ fr frs, h.frames = fr :: frs := by
    cases hl : h.frames with
    | nil => rw [hl] at h3; simp at h3
    | cons a b => exact ⟨a, b, rfl⟩
  have hfr := hfrs fr (by rw [hfl]; exact List.mem_cons_self)
  have hb : build h = [] ++ (fr :: frs).flatMap (frameBytes h) := by simp [build, hfl]
  have hb2 : build h = [] ++ (toBE 7 (headerWord h fr) ++ (fr.body ++ frs.flatMap (frameBytes h))) := by
    simp [build, hfl, frameBytes]
  have hsync : sync (build h) ⟨0, 0⟩ 512 = some ⟨0, 12⟩ := by
    have := sync_at_frame [] (fr.body ++ frs.flatMap (frameBytes h)) (headerWord h fr) 512 (by decide) (headerWord_sync h ok fr hfr)
    rw [← hb2] at this
    exact this
  have hloop := framesLoop_frames h ok frs fr (by rw [← hfl]; exact hfrs) []
    { r := ⟨0, 12⟩, key := none, offset := 0, parsedFrames := 0, samples := 0, payloadBits := 0, lastBits := 0 } 100
    (by rw [← hfl]; exact h100) rfl (Or.inl rfl)
  rw [← hb, ← hfl] at hloop
  -- the first bytes are neither an ID3 tag nor "ADIF"
  have hbl : 7 ≤ (build h).length := by rw [hb2]; simp
  have hfirst : ∃ t, build h = 0xff :: t := by
    have hw := headerWord_sync h ok fr hfr
    have : toBE 7 (headerWord h fr) = 0xff :: (toBE 7 (headerWord h fr)).tail := by
      have hlt : headerWord h fr / 2 ^ 48 % 256 = 255 := by omega
      simp only [toBE, toLE, List.reverse_cons, List.reverse_nil, List.nil_append, List.cons_append, List.tail_cons]
      congr 1
      have : headerWord h fr / 256 / 256 / 256 / 256 / 256 / 256 % 256 = 255 := by omega
      rw [this]; rfl
    exact ⟨_, by rw [hb2, this]; rfl⟩
  obtain ⟨t, ht⟩ := hfirst
  have hnid : startsWith (readAt (build h) 0 10) magicID3 = false := by
    rw [ht]; simp [startsWith, readAt, magicID3]
  have hnadif : ¬ (readAt (build h) 0 4 = magicADIF) := by
    rw [ht]; simp [readAt, magicADIF]
  obtain ⟨hrow, hnz⟩ := freqs_rows h.sfIndex hsf
  have hsamp : samplesOf h.frames ≠ 0 := by
    rw [hfl]; simp [samplesOf]
  unfold parse
  simp only [hnid, Bool.false_eq_true, if_false, hnadif, parseAdts, tries, findStream, hsync, Nat.sub_self, Nat.zero_div,
    Nat.zero_add, hloop]
  have h3' : h.frames.length ≥ 3 := h3
  simp only [h3', if_true, Option.getD_some, keyOf, List.getD_cons_succ, List.getD_cons_zero, hrow, channels_rows h.chanConfig hcc]
  have hpf : ¬ (h.frames.length = 0) := by omega
  simp only [hpf, if_false, hsamp, hnz, ne_eq, not_false_eq_true, if_true, expected, lengthEstimate, payloadOf_eq h ok, rate,
    List.nil_append, Spec.Aac.samples, samplesOf]
  have hs2 : ¬ ((List.map (fun fr => (fr.nordbif + 1) * 1024) h.frames).sum = 0) := hsamp
  have hd : 8 * (build h).length / 8 = (build h).length := by omega
  simp only [hs2, if_false, Int.zero_add, hd, Nat.add_zero, Int.natCast_one]

end Mutagen.Info.Aac
