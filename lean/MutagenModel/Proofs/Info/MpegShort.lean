/- Proofs/Info/MpegShort.lean — fewer than four consecutive frames: the sketchy fallback of `MPEGInfo` -/
import MutagenModel.Proofs.Info.Mpeg
import MutagenModel.Proofs.Info.MpegTotal
import MutagenModel.Proofs.Info.MpegSync
set_option linter.unusedVariables false
set_option linter.unusedSimpArgs false
namespace Mutagen.Info.Mp3
open Mutagen Mutagen.Info Mutagen.Mpeg Mutagen.Spec.Mp3 Mutagen.Spec.Mpeg

theorem bit_val (x : Nat) : (if (x % 2 == 1) = true then 1 else 0) = x % 2 := by
  have : x % 2 = 0 ∨ x % 2 = 1 := by omega
  rcases this with h | h <;> simp [h]

theorem readFields_head (w : Nat) (ws : List Nat) (bs : List Bool) (v : Nat) (vs : List Nat) (r : List Bool)
    (h : readFields (w :: ws) bs = some (v :: vs, r)) : w ≤ bs.length ∧ v = bitsToNat (bs.take w) := by
  unfold readFields readBits at h
  by_cases hl : bs.length < w
  · simp [hl] at h
  · simp only [hl, ↓reduceIte] at h
    split at h
    · cases h
    · simp only [Option.some.injEq, Prod.mk.injEq, List.cons.injEq] at h
      exact ⟨by omega, h.1.1.symm⟩

theorem bits8 (A : Nat) (h : A < 256) :
    2 * (2 * (2 * (2 * (2 * (2 * (2 * (A / 128 % 2) + A / 64 % 2) + A / 32 % 2) + A / 16 % 2) + A / 8 % 2) + A / 4 % 2) + A / 2 % 2) + A % 2 = A := by
  omega
theorem sync_val (A B s : Nat) (ha : A < 256) (hb : B < 256) (hs : s = 2047)
    (h : s = 2 * (2 * (2 * (2 * (2 * (2 * (2 * (2 * (2 * (2 * (A / 128 % 2) + A / 64 % 2) + A / 32 % 2) + A / 16 % 2) + A / 8 % 2) +
      A / 4 % 2) + A / 2 % 2) + A % 2) + B / 128 % 2) + B / 64 % 2) + B / 32 % 2) : A = 255 ∧ B / 32 = 7 := by
  have h8 := bits8 A ha
  generalize 2 * (2 * (2 * (2 * (2 * (2 * (2 * (A / 128 % 2) + A / 64 % 2) + A / 32 % 2) + A / 16 % 2) + A / 8 % 2) + A / 4 % 2) + A / 2 % 2) + A % 2 = X at *
  subst h8
  omega

/-- a header is only decoded behind a sync -/
theorem decode_sync (T : Bytes) (h : FrameInfo) (hd : decodeHeader T = .ok h) :
    ∃ y r, T = 0xFF :: y :: r ∧ isSecond y = true := by
  unfold decodeHeader at hd
  split at hd
  · rename_i sync version layer protection bitrate sampleRate padding _priv mode _rest rest' hrf
    by_cases hs : sync ≠ 0x7ff
    · simp [hs] at hd
    · have hs' : sync = 0x7ff := by omega
      obtain ⟨hlen, hv⟩ := readFields_head _ _ _ _ _ _ hrf
      match T, hlen, hv with
      | [], hlen, _ => simp [bytesToBits] at hlen
      | [a], hlen, _ => simp [bytesToBits, natToBits] at hlen
      | a :: b :: t, _, hv =>
        have hbits : (bytesToBits ((a :: b :: t).take 4)).take 11 =
            natToBits 8 a.toNat ++ (natToBits 8 b.toNat).take 3 := by
          simp [bytesToBits, natToBits]
        rw [hbits] at hv
        have ha := a.toNat_lt
        have hb := b.toNat_lt
        simp only [natToBits, List.take_succ_cons, List.take_zero, List.cons_append, List.nil_append, bitsToNat, bitsToNatAux, bit_val,
          Nat.reducePow, Nat.div_one, Nat.mul_zero, Nat.zero_add] at hv
        obtain ⟨hA, hB⟩ := sync_val a.toNat b.toNat sync ha hb hs' hv
        refine ⟨b, t, ?_, ?_⟩
        · have : a = 0xFF := by
            apply UInt8.toNat_inj.mp
            rw [hA]; rfl
          rw [this]
        · simp only [isSecond, decide_eq_true_eq]; omega
  · cases hd

/-! ### no false sync: no sync -/

theorem noSync_cons2 (a b : UInt8) (r : Bytes) :
    noSync (a :: b :: r) = true ↔ ¬ (a = 0xFF ∧ isSecond b = true) ∧ noSync (b :: r) = true := by
  simp only [noSync, isSecond, Bool.and_eq_true, Bool.not_eq_true', Bool.and_eq_false_imp, beq_iff_eq, decide_eq_false_iff_not,
    decide_eq_true_eq, not_and]

theorem scan_quiet (l : Bytes) : ∀ (i n : Nat), noSync l = true → syncScanFrom l i n = [] := by
  induction l with
  | nil => intros; simp [syncScanFrom]
  | cons a t ih =>
    intro i n h
    cases t with
    | nil => simp [syncScanFrom]
    | cons b r =>
      rw [noSync_cons2] at h
      have : ¬ (a = 0xFF ∧ isSecond b = true ∧ n ≥ 2) := fun ⟨h1, h2, _⟩ => h.1 ⟨h1, h2⟩
      simp only [syncScanFrom, this, ↓reduceIte, List.nil_append]
      exact ih _ _ h.2

theorem noSync_append (A B : Bytes) (h : noSync (A ++ B) = true) :
    noSync A = true ∧ noSync B = true ∧ ∀ p, bnd A.getLast? B.head? p = [] := by
  induction A with
  | nil => exact ⟨rfl, h, fun p => rfl⟩
  | cons a t ih =>
    cases t with
    | nil =>
      cases B with
      | nil => exact ⟨rfl, rfl, fun p => rfl⟩
      | cons b r =>
        have h' : noSync (a :: b :: r) = true := h
        rw [noSync_cons2] at h'
        refine ⟨rfl, h'.2, fun p => ?_⟩
        simp only [List.getLast?_singleton, List.head?_cons, bnd, h'.1, ↓reduceIte]
    | cons a' t' =>
      have h' : noSync (a :: a' :: (t' ++ B)) = true := h
      rw [noSync_cons2] at h'
      obtain ⟨i1, i2, i3⟩ := ih h'.2
      refine ⟨?_, i2, fun p => ?_⟩
      · rw [noSync_cons2]; exact ⟨h'.1, i1⟩
      · have : (a :: a' :: t').getLast? = (a' :: t').getLast? := by simp [List.getLast?_cons_cons]
        rw [this]; exact i3 p

theorem scan_mono (l : Bytes) : ∀ (i n n' : Nat), n ≤ n' → ∀ p ∈ syncScanFrom l i n, p ∈ syncScanFrom l i n' := by
  induction l with
  | nil => intro i n n' h p hp; simp [syncScanFrom] at hp
  | cons a t ih =>
    intro i n n' h p hp
    cases t with
    | nil => simp [syncScanFrom] at hp
    | cons b r =>
      simp only [syncScanFrom, List.mem_append] at hp ⊢
      rcases hp with hp | hp
      · left
        by_cases c : a = 0xFF ∧ isSecond b = true ∧ n ≥ 2
        · have c' : a = 0xFF ∧ isSecond b = true ∧ n' ≥ 2 := ⟨c.1, c.2.1, by omega⟩
          simpa [c, c'] using hp
        · simp [c] at hp
      · right; exact ih _ _ _ (by omega) p hp

/-- the scan over a whole list that is quiet up to the 0xFF of a header -/
theorem scan_lead_full (junk X : Bytes) (i : Nat) (hq : noSync (junk ++ [0xFF]) = true) (hx : X.head? = some 0xFF) :
    syncScanFrom (junk ++ X) i (junk ++ X).length = syncScanFrom X (i + junk.length) X.length := by
  cases hj : junk with
  | nil => simp
  | cons a t =>
    rw [← hj]
    have hk1 : 1 ≤ junk.length := by rw [hj]; simp
    have hxl : 1 ≤ X.length := by cases X with | nil => simp at hx | cons _ _ => simp
    obtain ⟨q1, _, q3⟩ := noSync_append junk [0xFF] hq
    rw [scan_split (junk ++ X) junk.length i (junk ++ X).length hk1 (by simp) (by simp)]
    have e1 : (junk ++ X).take junk.length = junk := List.take_left' rfl
    have e2 : (junk ++ X).drop junk.length = X := List.drop_left' rfl
    have e3 : (junk ++ X)[junk.length - 1]? = junk.getLast? := by
      rw [List.getLast?_eq_getElem?, List.getElem?_append_left (by omega)]
    have e4 : (junk ++ X)[junk.length]? = X.head? := by
      rw [List.getElem?_append_right (Nat.le_refl _)]; simp [List.head?_eq_getElem?]
    rw [e1, e2, e3, e4, scan_quiet junk _ _ q1, hx]
    have := q3 (i + junk.length - 1)
    simp only [List.head?_cons] at this
    simp [this]


/-! ### the syncs of quiet frames are their starts -/

def starts : List Spec.Mp3.Frame → Nat → List Nat
  | [], _ => []
  | fr :: r, i => i :: starts r (i + fr.render.length)

theorem render_shape (fr : Spec.Mp3.Frame) : ∃ y r, fr.render = 0xFF :: y :: r ∧ isSecond y = true := by
  obtain ⟨y, r, hb, hy, _⟩ := hdr_shape fr.hdr
  exact ⟨y, r ++ fr.body, by simp [Spec.Mp3.Frame.render, hb], hy⟩

theorem scan_frames (fs : List Spec.Mp3.Frame) (T : Bytes) : ∀ (i : Nat), quietFrames fs T →
    syncScanFrom (renderFrames fs ++ T) i (renderFrames fs ++ T).length = starts fs i := by
  induction fs with
  | nil => intro i q; simp only [renderFrames, List.nil_append, starts]; exact scan_quiet _ _ _ q
  | cons fr rest ih =>
    intro i q
    obtain ⟨_, hq, qrest⟩ := q
    obtain ⟨y, r, hr, hy⟩ := render_shape fr
    generalize hA : renderFrames rest ++ T = after at *
    have hfile : renderFrames (fr :: rest) ++ T = 0xFF :: ((y :: r) ++ after) := by
      simp [renderFrames, hr, ← hA, List.append_assoc]
    rw [hr] at hq
    simp only [List.drop_succ_cons, List.drop_zero] at hq
    obtain ⟨q1, _, q3⟩ := noSync_append (y :: r) (after.take 1) hq
    rw [hfile]
    have hstep : syncScanFrom (0xFF :: ((y :: r) ++ after)) i (0xFF :: ((y :: r) ++ after)).length =
        i :: syncScanFrom ((y :: r) ++ after) (i + 1) ((y :: r) ++ after).length := by
      simp only [List.cons_append, syncScanFrom, hy, List.length_cons]
      rw [if_pos ⟨trivial, trivial, by omega⟩]; rfl
    rw [hstep]
    rw [scan_split ((y :: r) ++ after) (y :: r).length (i + 1) ((y :: r) ++ after).length (by simp) (by simp) (by simp)]
    have e1 : ((y :: r) ++ after).take (y :: r).length = y :: r := List.take_left' rfl
    have e2 : ((y :: r) ++ after).drop (y :: r).length = after := List.drop_left' rfl
    have e3 : ((y :: r) ++ after)[(y :: r).length - 1]? = (y :: r).getLast? := by
      rw [List.getLast?_eq_getElem?, List.getElem?_append_left (by simp)]
    have e4 : ((y :: r) ++ after)[(y :: r).length]? = (after.take 1).head? := by
      rw [List.getElem?_append_right (Nat.le_refl _)]
      cases after <;> simp
    rw [e1, e2, e3, e4, scan_quiet (y :: r) _ _ q1, q3]
    have hlen : ((y :: r) ++ after).length - (y :: r).length = after.length := by simp
    have hpos : i + 1 + (y :: r).length = i + fr.render.length := by rw [hr]; simp; omega
    rw [hlen, hpos]
    simp only [List.nil_append, ite_self, starts]
    rw [ih _ qrest]

/-! ### `MPEGFrame` over quiet frames -/

def modelFrames : List Spec.Mp3.Frame → Nat → List Frame
  | [], _ => []
  | fr :: r, pos => { offset := pos, h := infoOf fr.hdr, bitrate := .int fr.hdr.bitrate } :: modelFrames r (pos + fr.render.length)

theorem modelFrames_sketchy (fs : List Spec.Mp3.Frame) : ∀ pos, ∀ x ∈ modelFrames fs pos, x.sketchy = true := by
  induction fs with
  | nil => intro pos x hx; simp [modelFrames] at hx
  | cons fr r ih =>
    intro pos x hx
    simp only [modelFrames, List.mem_cons] at hx
    rcases hx with hx | hx
    · rw [hx]
    · exact ih _ x hx

theorem length_modelFrames (fs : List Spec.Mp3.Frame) : ∀ pos, (modelFrames fs pos).length = fs.length := by
  induction fs with
  | nil => intro pos; rfl
  | cons fr r ih => intro pos; simp [modelFrames, ih]

theorem mpegFrame_quiet (F : Bytes) (pos : Nat) (T : Bytes) (hd : F.drop pos = T) (q : noSync T = true) : mpegFrame F pos = .ok none := by
  unfold mpegFrame
  rw [hd]
  cases hdec : decodeHeader T with
  | ok h =>
    obtain ⟨y, r, hT, hy⟩ := decode_sync T h hdec
    rw [hT, noSync_cons2] at q
    exact absurd ⟨rfl, hy⟩ q.1
  | error e =>
    have := decodeHeader_clean T e hdec
    subst this; rfl

theorem takeFrames_quiet (F : Bytes) (fs : List Spec.Mp3.Frame) (T : Bytes) : ∀ (pos n : Nat),
    F.drop pos = renderFrames fs ++ T → quietFrames fs T → fs.length < n → takeFrames F n pos = .ok (modelFrames fs pos) := by
  induction fs with
  | nil =>
    intro pos n hd q hn
    cases n with
    | zero => omega
    | succ m =>
      simp only [renderFrames, List.nil_append] at hd
      simp only [takeFrames, mpegFrame_quiet F pos T hd q, modelFrames]
  | cons fr rest ih =>
    intro pos n hd q hn
    obtain ⟨hp, _, qrest⟩ := q
    cases n with
    | zero => omega
    | succ m =>
      have hd' : F.drop pos = fr.render ++ (renderFrames rest ++ T) := by rw [hd]; simp [renderFrames, List.append_assoc]
      have hm := mpegFrame_plain F pos fr _ hd' hp
      have hnext : F.drop (pos + fr.render.length) = renderFrames rest ++ T := by
        rw [← List.drop_drop, hd']; exact drop_at _ _
      have := ih (pos + fr.render.length) m hnext qrest (by simp at hn; omega)
      simp only [takeFrames, hm, this, modelFrames, Bool.not_true, Bool.false_eq_true, ↓reduceIte]

/-- at every start: the frames from there on -/
theorem starts_suffix (F : Bytes) (fs : List Spec.Mp3.Frame) (T : Bytes) : ∀ (o : Nat), F.drop o = renderFrames fs ++ T → quietFrames fs T →
    ∀ p ∈ starts fs o, ∃ fs', fs'.length ≤ fs.length ∧ F.drop p = renderFrames fs' ++ T ∧ quietFrames fs' T := by
  induction fs with
  | nil => intro o hd q p hp; simp [starts] at hp
  | cons fr rest ih =>
    intro o hd q p hp
    simp only [starts, List.mem_cons] at hp
    rcases hp with hp | hp
    · exact ⟨fr :: rest, Nat.le_refl _, by rw [hp]; exact hd, q⟩
    · have hd' : F.drop o = fr.render ++ (renderFrames rest ++ T) := by rw [hd]; simp [renderFrames, List.append_assoc]
      have hnext : F.drop (o + fr.render.length) = renderFrames rest ++ T := by
        rw [← List.drop_drop, hd']; exact drop_at _ _
      obtain ⟨fs', h1, h2, h3⟩ := ih _ hnext q.2.2 p hp
      exact ⟨fs', by simp; omega, h2, h3⟩

/-! ### the loop over the syncs when no sync gives four frames -/

theorem syncLoop_sketchy (F : Bytes) (syncs : List Nat) : ∀ (budget : Nat) (saved : Option Frame),
    (∀ p ∈ syncs, ∃ frs, takeFrames F 4 p = .ok frs ∧ frs.length < 4 ∧ (∀ x ∈ frs, x.sketchy = true) ∧ (saved = none → frs.length < 2)) →
    syncLoop F syncs budget saved = .ok (saved, true) := by
  induction syncs with
  | nil => intro budget saved h; rfl
  | cons o rest ih =>
    intro budget saved h
    unfold syncLoop
    by_cases hb : budget ≤ 1
    · simp [hb]
    · obtain ⟨frs, h1, h2, h3, h4⟩ := h o (by simp)
      simp only [hb, ↓reduceIte, h1]
      have hsaved : (if frs.length ≥ 2 ∧ saved.isNone = true then frs.head? else saved) = saved := by
        cases saved with
        | none => have := h4 rfl; rw [if_neg (by omega)]
        | some x => simp
      rw [hsaved]
      have hrec := ih (budget - 1) saved (fun p hp => h p (by simp [hp]))
      cases hl : frs.getLast? with
      | none => simp only [hrec]
      | some last =>
        have hmem : last ∈ frs := List.mem_of_getLast? hl
        have hsk := h3 last hmem
        have h4' : ¬ (frs.length ≥ 4) := by omega
        simp only [hsk, Bool.not_true, Bool.false_eq_true, ↓reduceIte, h4', hrec]

/-! ### MPEGInfo on one to three frames -/

/-- where `skip_id3` arrives -/
theorem lead_skip_at (pre : Bytes) (p : Lead) (ok : p.OK) (h : Hdr) (X : Bytes) :
    skipId3 (pre ++ (p.render ++ (h.bytes ++ X))) ((pre ++ (p.render ++ (h.bytes ++ X))).length + 1) pre.length =
      pre.length + (renderTags p.tags).length := by
  obtain ⟨htags, hid, hns, hjl⟩ := ok
  obtain ⟨y, r, hb, hy, hr⟩ := hdr_shape h
  have hfile : pre ++ (p.render ++ (h.bytes ++ X)) = pre ++ (renderTags p.tags ++ (p.junk ++ (0xFF :: y :: (r ++ X)))) := by
    simp [Lead.render, hb, List.append_assoc]
  have hY : (p.junk ++ (0xFF :: y :: (r ++ X))).take 3 ≠ [0x49, 0x44, 0x33] := by
    intro hc
    match hj : p.junk with
    | [] => rw [hj] at hc; simp at hc
    | [a] => rw [hj] at hc; simp at hc
    | [a, b] => rw [hj] at hc; simp at hc
    | a :: b :: c :: t => rw [hj] at hc hid; simp at hc hid; exact hid hc.1 hc.2.1 hc.2.2
  have hskip := skipId3_tags p.tags pre (p.junk ++ (0xFF :: y :: (r ++ X))) ((pre ++ (p.render ++ (h.bytes ++ X))).length + 1) htags
    (by have := length_le_renderTags p.tags; simp [Lead.render]; omega) hY
  rw [← hfile] at hskip
  exact hskip

theorem parse_short_at (pre : Bytes) (s : Short) (ok : s.OK) :
    parseFrom (pre ++ s.build) pre.length =
      match s.expected with
      | some i => .ok { i with frameOffset := pre.length + s.lead.render.length }
      | none => .error .mutagen := by
  obtain ⟨hlead, hk1, hk3, q⟩ := ok
  obtain ⟨lead, fs, T⟩ := s
  simp only at hlead hk1 hk3 q
  match fs, hk1 with
  | f1 :: more, _ =>
  have hb : Short.build ⟨lead, f1 :: more, T⟩ = lead.render ++ (f1.hdr.bytes ++ (f1.body ++ (renderFrames more ++ T))) := by
    simp [Short.build, renderFrames, Spec.Mp3.Frame.render, List.append_assoc]
  have hX : renderFrames (f1 :: more) ++ T = f1.hdr.bytes ++ (f1.body ++ (renderFrames more ++ T)) := by
    simp [renderFrames, Spec.Mp3.Frame.render, List.append_assoc]
  obtain ⟨rest, hscan⟩ := lead_scan_at pre lead hlead f1.hdr (f1.body ++ (renderFrames more ++ T))
  have hskip := lead_skip_at pre lead hlead f1.hdr (f1.body ++ (renderFrames more ++ T))
  rw [← hb] at hscan hskip
  have hE := size_shift pre (Short.build ⟨lead, f1 :: more, T⟩) lead.render.length _ rfl
  -- every sync is the start of one of the frames
  have hmem : ∀ p ∈ (pre.length + lead.render.length) :: rest, p ∈ starts (f1 :: more) (pre.length + lead.render.length) := by
    rw [← hscan, hskip]
    intro p hp
    unfold syncScan at hp
    have hdrop : (pre ++ Short.build ⟨lead, f1 :: more, T⟩).drop (pre.length + (renderTags lead.tags).length) =
        lead.junk ++ (renderFrames (f1 :: more) ++ T) := by
      have : pre ++ Short.build ⟨lead, f1 :: more, T⟩ = pre ++ (renderTags lead.tags ++ (lead.junk ++ (renderFrames (f1 :: more) ++ T))) := by
        simp [Short.build, Lead.render, List.append_assoc]
      rw [this, ← List.drop_drop, List.drop_left, List.drop_left]
    rw [hdrop] at hp
    have hfull := scan_mono _ _ _ (lead.junk ++ (renderFrames (f1 :: more) ++ T)).length (by
      have : (lead.junk ++ (renderFrames (f1 :: more) ++ T)).length =
          (pre ++ Short.build ⟨lead, f1 :: more, T⟩).length - (pre.length + (renderTags lead.tags).length) := by
        rw [← hdrop]; simp
        omega
      rw [this]; exact Nat.min_le_right _ _) p hp
    have hhead : (renderFrames (f1 :: more) ++ T).head? = some 0xFF := by
      obtain ⟨y, r, hr, _⟩ := render_shape f1
      simp [renderFrames, hr]
    rw [scan_lead_full _ _ _ hlead.2.2.1 hhead, scan_frames _ _ _ q] at hfull
    have : pre.length + (renderTags lead.tags).length + lead.junk.length = pre.length + lead.render.length := by
      simp [Lead.render]; omega
    rw [this] at hfull
    exact hfull
  generalize ho : pre.length + lead.render.length = o at *
  have d0 : (pre ++ Short.build ⟨lead, f1 :: more, T⟩).drop o = renderFrames (f1 :: more) ++ T := by
    rw [← ho]; exact drop_at2 _ _ _
  generalize hF : pre ++ Short.build ⟨lead, f1 :: more, T⟩ = F at *
  -- what each sync gives
  have hall : ∀ p ∈ o :: rest, ∃ fs', fs'.length ≤ (f1 :: more).length ∧ takeFrames F 4 p = .ok (modelFrames fs' p) := by
    intro p hp
    obtain ⟨fs', h1, h2, h3⟩ := starts_suffix F _ T o d0 q p (hmem p hp)
    exact ⟨fs', h1, takeFrames_quiet F fs' T p 4 h2 h3 (by simp at h1 hk3; omega)⟩
  have hloop : ∀ (saved : Option Frame) (budget : Nat), (saved = none → more = []) →
      syncLoop F rest budget saved = .ok (saved, true) := by
    intro saved budget hs
    apply syncLoop_sketchy
    intro p hp
    obtain ⟨fs', h1, h2⟩ := hall p (by simp [hp])
    refine ⟨_, h2, by rw [length_modelFrames]; simp at h1 hk3; omega, modelFrames_sketchy fs' p, ?_⟩
    intro hn
    rw [length_modelFrames, hs hn] at *
    simp at h1; omega
  have htf := takeFrames_quiet F (f1 :: more) T o 4 d0 q (by simp at hk3 ⊢; omega)
  have hshape : more = [] ∨ (∃ f2, more = [f2]) ∨ (∃ f2 f3, more = [f2, f3]) := by
    match more, hk3 with
    | [], _ => exact .inl rfl
    | [f2], _ => exact .inr (.inl ⟨f2, rfl⟩)
    | [f2, f3], _ => exact .inr (.inr ⟨f2, f3, rfl⟩)
    | _ :: _ :: _ :: _, h => simp at h
  unfold parseFrom
  simp only [hscan]
  rcases hshape with hm | ⟨f2, hm⟩ | ⟨f2, f3, hm⟩
  · subst hm
    have hl := hloop none 1499 (fun _ => rfl)
    have : syncLoop F (o :: rest) 1500 none = .ok (none, true) := by
      unfold syncLoop
      simp [htf, modelFrames, hl]
    simp only [this, Short.expected]
  · subst hm
    have hl := hloop (some { offset := o, h := infoOf f1.hdr, bitrate := .int f1.hdr.bitrate }) 1499 (fun h => by cases h)
    have : syncLoop F (o :: rest) 1500 none = .ok (some { offset := o, h := infoOf f1.hdr, bitrate := .int f1.hdr.bitrate }, true) := by
      unfold syncLoop
      simp [htf, modelFrames, hl]
    simp only [this, Short.expected]
    refine Eq.trans (b := .ok { headerInfo f1.hdr o (.div (.int (8 * ((F.length : Int) - (o : Nat)))) (.flt (.int f1.hdr.bitrate))) with sketchy := true }) ?_ ?_
    · simp only [headerInfo, infoOf, Option.getD]
    · rw [hE]; rfl
  · subst hm
    have hl := hloop (some { offset := o, h := infoOf f1.hdr, bitrate := .int f1.hdr.bitrate }) 1499 (fun h => by cases h)
    have : syncLoop F (o :: rest) 1500 none = .ok (some { offset := o, h := infoOf f1.hdr, bitrate := .int f1.hdr.bitrate }, true) := by
      unfold syncLoop
      simp [htf, modelFrames, hl]
    simp only [this, Short.expected]
    refine Eq.trans (b := .ok { headerInfo f1.hdr o (.div (.int (8 * ((F.length : Int) - (o : Nat)))) (.flt (.int f1.hdr.bitrate))) with sketchy := true }) ?_ ?_
    · simp only [headerInfo, infoOf, Option.getD]
    · rw [hE]; rfl

theorem parse_short (s : Short) (ok : s.OK) :
    parse s.build = match s.expected with
      | some i => .ok i
      | none => .error .mutagen := by
  have h := parse_short_at [] s ok
  simp only [List.nil_append, List.length_nil, Nat.zero_add] at h
  rw [show parse s.build = parseFrom s.build 0 from rfl, h]
  obtain ⟨lead, fs, T⟩ := s
  match fs with
  | [] => rfl
  | [_] => rfl
  | _ :: _ :: _ => rfl

end Mutagen.Info.Mp3
