/- Proofs/Info/Reports.lean — what the parsers report on the inputs the `_partial` decode theorems exclude -/
import MutagenModel.Proofs.Info.Musepack
import MutagenModel.Proofs.Info.MonkeysAudio
set_option linter.unusedVariables false
set_option linter.unusedSimpArgs false
namespace Mutagen.Info.Musepack
open Mutagen Mutagen.Info Mutagen.Spec.Musepack

theorem parse_sv7_reports (h : Sv7) (ok : h.OK) (rest : Bytes) (hlen : 4 ≤ rest.length) :
    parse (h.build ++ rest) =
      .ok { h.expected (h.build ++ rest).length with length := ⟨(h.frames : Int) * 1152 - 576, rate h.rateIndex⟩ } := by
  obtain ⟨hmi, hf1, hf2, hi, hms, hmb, hpr, hlk, hri, hml, htp, htg1, htg2, hap, hag1, hag2, hgl, hlf, hfs, hu5, hen, hu6, _⟩ := ok
  have hb := length_sv7_build h
  have hw2 : h.word2 < 2 ^ 32 := by unfold Sv7.word2; omega
  have hw5 : h.word5 < 2 ^ 32 := by unfold Sv7.word5; omega
  have h4 : readAt (h.build ++ rest) 0 4 = [0x4d, 0x50, 0x2b] ++ toLE 1 (7 + 16 * h.minor) := by
    unfold Sv7.build
    simp only [List.append_assoc]
    simp [readAt, toLE]
  have h32 : (readAt (h.build ++ rest) 0 32).length = 32 := length_readAt_of_le _ _ _ (by simp [hb]; omega)
  have hm7 : startsWith (readAt (h.build ++ rest) 0 32) magic7 = true := by
    simp only [startsWith, readAt_readAt _ _ _ _ _ (show 0 + magic7.length ≤ 32 by decide)]
    unfold Sv7.build
    simp only [List.append_assoc, magic7]
    rd_simp
    rfl
  have hfld : uLE (readAt (h.build ++ rest) 0 32) 3 1 = 7 + 16 * h.minor ∧
      uLE (readAt (h.build ++ rest) 0 32) 4 4 = h.frames ∧
      uLE (readAt (h.build ++ rest) 0 32) 8 4 = h.word2 ∧
      uLE (readAt (h.build ++ rest) 0 32) 12 2 = h.titlePeak ∧
      sLE (readAt (h.build ++ rest) 0 32) 14 2 = h.titleGain ∧
      uLE (readAt (h.build ++ rest) 0 32) 16 2 = h.albumPeak ∧
      sLE (readAt (h.build ++ rest) 0 32) 18 2 = h.albumGain := by
    refine ⟨?_, ?_, ?_, ?_, ?_, ?_, ?_⟩
    all_goals
      simp only [uLE, sLE, readAt_readAt _ _ _ _ _ (show 3 + 1 ≤ 32 by decide), readAt_readAt _ _ _ _ _ (show 4 + 4 ≤ 32 by decide),
        readAt_readAt _ _ _ _ _ (show 8 + 4 ≤ 32 by decide), readAt_readAt _ _ _ _ _ (show 12 + 2 ≤ 32 by decide),
        readAt_readAt _ _ _ _ _ (show 14 + 2 ≤ 32 by decide), readAt_readAt _ _ _ _ _ (show 16 + 2 ≤ 32 by decide),
        readAt_readAt _ _ _ _ _ (show 18 + 2 ≤ 32 by decide)]
      unfold Sv7.build
      simp only [List.append_assoc]
      rd_simp
      first
        | exact ofLE_toLE 1 _ (by omega)
        | exact ofLE_toLE 2 _ (by omega)
        | exact ofLE_toLE 4 _ (by omega)
        | exact signed_enc16_le _ (by assumption) (by assumption)
  obtain ⟨e1, e2, e3, e4, e5, e6, e7⟩ := hfld
  obtain ⟨hrow, hnz⟩ := rates_rows h.rateIndex hri
  have hidx : h.word2 / 2 ^ 16 % 4 = h.rateIndex := by unfold Sv7.word2; omega
  have hv : (7 + 16 * h.minor) % 16 = 7 := by omega
  unfold parse
  simp only [h4]
  have hnid : ¬ (readAt ([0x4d, 0x50, 0x2b] ++ toLE 1 (7 + 16 * h.minor)) 0 3 = magicID3) := by
    simp [readAt, magicID3]
  have hn8 : startsWith ([0x4d, 0x50, 0x2b] ++ toLE 1 (7 + 16 * h.minor)) magic8 = false := by
    simp [startsWith, readAt, magic8, toLE]
  simp only [hnid, hn8, if_false]
  simp [parseSv467, h32, hm7, e1, e2, e3, e4, e5, e6, e7, hv, hidx, hrow, hnz, Sv7.expected]



end Mutagen.Info.Musepack

namespace Mutagen.Info.MonkeysAudio
open Mutagen Mutagen.Info Mutagen.Spec.MonkeysAudio

theorem parse_new_reports (h : New) (ok : h.OK) (rest : Bytes) :
    parse (h.build ++ rest) = .ok (finish h.version (rawNew (readAt (h.build ++ rest) 0 76))) := by
  obtain ⟨hv, hv2, hpad, hd, hhb, hsb, hhd, hfd, hfh, htb, hmd5, hcl, hff, hbpf, hffb, htf, hbits, hch, hr1, hr⟩ := ok
  have hlen : (readAt (h.build ++ rest) 0 76).length = 76 := by
    apply length_readAt_of_le; simp [length_new_build h hmd5]; omega
  have hmagic : startsWith (readAt (h.build ++ rest) 0 76) magic = true := by
    simp only [startsWith, readAt_readAt _ _ _ _ _ (show 0 + magic.length ≤ 76 by decide)]
    unfold New.build
    simp only [List.append_assoc, magic, Spec.MonkeysAudio.magic]
    rd_simp
    rfl
  have hver : uLE (readAt (h.build ++ rest) 0 76) 4 2 = h.version := by
    simp only [uLE, readAt_readAt _ _ _ _ _ (show 4 + 2 ≤ 76 by decide)]
    unfold New.build
    simp only [List.append_assoc, Spec.MonkeysAudio.magic]
    rd_simp
    exact ofLE_toLE 2 _ (by omega)
  unfold parse
  simp only [hlen, hmagic, hver, ge_iff_le, hv, if_true]
  simp

end Mutagen.Info.MonkeysAudio
