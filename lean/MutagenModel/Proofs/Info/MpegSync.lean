/- Proofs/Info/MpegSync.lean — the chunk loop of `iter_sync` yields what the scan yields -/
import MutagenModel.Model.Info.MpegInfo
set_option linter.unusedVariables false
set_option linter.unusedSimpArgs false
namespace Mutagen.Info.Mp3
open Mutagen Mutagen.Info

/-- a sync across two reads: the last byte of one and the first of the next -/
def bnd (a b : Option UInt8) (p : Nat) : List Nat :=
  match a, b with
  | some l, some h => if l = 0xFF ∧ isSecond h then [p] else []
  | _, _ => []

theorem bnd_none_right (a : Option UInt8) (p : Nat) : bnd a none p = [] := by cases a <;> rfl

theorem scan_small (l : Bytes) (i n : Nat) (h : n ≤ 1) : syncScanFrom l i n = [] := by
  induction l generalizing i n with
  | nil => simp [syncScanFrom]
  | cons x t ih =>
    cases t with
    | nil => simp [syncScanFrom]
    | cons y r =>
      have : ¬ (n ≥ 2) := by omega
      simp [syncScanFrom, this, ih (i + 1) (n - 1) (by omega)]

theorem scan_short (l : Bytes) (i n : Nat) (h : l.length ≤ 1) : syncScanFrom l i n = [] := by
  match l, h with
  | [], _ => simp [syncScanFrom]
  | [x], _ => simp [syncScanFrom]

/-- the scan of a list, split at `k` -/
theorem scan_split (l : Bytes) : ∀ (k i n : Nat), 1 ≤ k → k ≤ l.length → k ≤ n →
    syncScanFrom l i n = syncScanFrom (l.take k) i k ++ (if k < n then bnd l[k - 1]? l[k]? (i + k - 1) else []) ++
      syncScanFrom (l.drop k) (i + k) (n - k) := by
  induction l with
  | nil => intro k i n h1 h2; simp at h2; omega
  | cons x t ih =>
    intro k i n h1 h2 h3
    match k, h1 with
    | 1, _ =>
      cases t with
      | nil => simp [syncScanFrom, bnd]
      | cons y r =>
        by_cases hn : 1 < n
        · have : n ≥ 2 := by omega
          simp [syncScanFrom, bnd, hn, this]
        · have : ¬ (n ≥ 2) := by omega
          simp [syncScanFrom, bnd, hn, this]
    | k' + 2, _ =>
      cases t with
      | nil => simp at h2
      | cons y r =>
        have h2' : k' + 1 ≤ (y :: r).length := by simp at h2 ⊢; omega
        have := ih (k' + 1) (i + 1) (n - 1) (by omega) h2' (by omega)
        have hn : n ≥ 2 := by omega
        have e1 : i + 1 + (k' + 1) = i + (k' + 2) := by omega
        have e2 : n - 1 - (k' + 1) = n - (k' + 2) := by omega
        have e3 : (k' + 1 < n - 1) ↔ (k' + 2 < n) := by omega
        have e4 : i + 1 + (k' + 1) - 1 = i + (k' + 2) - 1 := by omega
        simp only [e1, e2, e3, e4] at this
        simp only [syncScanFrom, List.take_succ_cons, List.drop_succ_cons, this, hn, List.append_assoc]
        simp

theorem chunks_eq (f : Bytes) (M : Nat) : ∀ (fuel pos read size : Nat) (last : Option UInt8),
    1 ≤ size → min (M - read) (f.length - pos) + 1 ≤ fuel →
    syncChunks f M fuel pos read size last =
      (if read < M then bnd last f[pos]? (pos - 1) else []) ++ syncScanFrom (f.drop pos) pos (min (M - read) (f.length - pos)) := by
  intro fuel
  induction fuel with
  | zero => intro pos read size last h1 h2; omega
  | succ fuel ih =>
    intro pos read size last h1 h2
    unfold syncChunks
    by_cases hr : read < M
    · simp only [hr, ↓reduceIte]
      generalize hk : min (M - read) size = k
      have hk1 : 1 ≤ k := by omega
      generalize hl : f.drop pos = l
      have hll : l.length = f.length - pos := by rw [← hl]; simp
      have hnew : readAt f pos k = l.take k := by unfold readAt; rw [hl]
      rw [hnew]
      cases l with
      | nil =>
        have : f[pos]? = none := by
          have : f.length ≤ pos := by simp at hll; omega
          simp [this]
        simp [this, bnd_none_right, syncScanFrom]
      | cons x t =>
        have hpos : pos < f.length := by simp at hll; omega
        have hne : ((x :: t).take k).isEmpty = false := by
          cases k with
          | zero => omega
          | succ k => simp
        simp only [hne, Bool.false_eq_true, ↓reduceIte]
        -- the length of the chunk read
        generalize hk' : ((x :: t).take k).length = k'
        have hk'v : k' = min k (f.length - pos) := by rw [← hk', List.length_take, hll]
        have hk'1 : 1 ≤ k' := by omega
        have htake : (x :: t).take k = (x :: t).take k' := by
          by_cases hc : k ≤ (x :: t).length
          · have : k' = k := by rw [hk'v, ← hll]; omega
            rw [this]
          · have : k' = (x :: t).length := by rw [hk'v, ← hll]; omega
            rw [this, List.take_of_length_le (by omega), List.take_of_length_le (Nat.le_refl _)]
        have hsplit := scan_split (x :: t) k' pos (min (M - read) (f.length - pos)) hk'1 (by rw [hll]; omega) (by omega)
        have hih := ih (pos + k') (read + k') (size * 2) ((x :: t).take k).getLast? (by omega) (by omega)
        rw [hih, hsplit]
        have hd : f.drop (pos + k') = (x :: t).drop k' := by rw [← hl, List.drop_drop]
        have hhead : ((x :: t).take k).head? = f[pos]? := by
          have : f[pos]? = (f.drop pos)[0]? := by simp
          rw [this, hl]
          cases k with
          | zero => omega
          | succ k => simp
        have hlast : ((x :: t).take k).getLast? = (x :: t)[k' - 1]? := by
          rw [htake, List.getLast?_eq_getElem?, List.length_take]
          have : min k' (x :: t).length = k' := by rw [hll]; omega
          rw [this, List.getElem?_take]
          simp [show k' - 1 < k' by omega]
        have hnext : f[pos + k']? = (x :: t)[k']? := by
          rw [← hl]; simp
        have hmin : min (M - (read + k')) (f.length - (pos + k')) = min (M - read) (f.length - pos) - k' := by omega
        rw [hd, hhead, hlast, hnext, hmin, ← htake]
        have hmid : (if read + k' < M then bnd (x :: t)[k' - 1]? (x :: t)[k']? (pos + k' - 1) else []) =
            (if k' < min (M - read) (f.length - pos) then bnd (x :: t)[k' - 1]? (x :: t)[k']? (pos + k' - 1) else []) := by
          by_cases c1 : read + k' < M
          · by_cases c2 : k' < f.length - pos
            · have : k' < min (M - read) (f.length - pos) := by omega
              simp [c1, this]
            · have h0 : (x :: t)[k']? = none := by
                apply List.getElem?_eq_none; rw [hll]; omega
              have : ¬ (k' < min (M - read) (f.length - pos)) := by omega
              simp [c1, this, h0, bnd_none_right]
          · have : ¬ (k' < min (M - read) (f.length - pos)) := by omega
            simp [c1, this]
        rw [hmid]
        generalize f[pos]? = fp
        cases last <;> cases fp <;> simp [bnd]
    · have : min (M - read) (f.length - pos) = 0 := by omega
      simp [hr, this, scan_small]

/-- `iter_sync(fileobj, max_read)` with the file object at `pos`: the loop that reads chunks of 2, 4, 8, … bytes and
looks at the chunk boundaries yields exactly the positions of the scan that `parse` uses -/
theorem syncChunks_eq_syncScan (f : Bytes) (pos maxRead : Nat) :
    syncChunks f maxRead (f.length + 2) pos 0 2 none = syncScan f pos maxRead := by
  rw [chunks_eq f maxRead (f.length + 2) pos 0 2 none (by omega) (by omega)]
  unfold syncScan
  have : bnd none f[pos]? (pos - 1) = [] := rfl
  simp [this]

/-- the fuel of `skipId3` is not used up: every tag skipped moves the position by at least 11, so any two fuels above
`f.length − pos` give the same position -/
theorem skipId3_fuel (f : Bytes) : ∀ (fuel pos fuel' : Nat), f.length < pos + fuel → f.length < pos + fuel' →
    skipId3 f fuel pos = skipId3 f fuel' pos := by
  intro fuel
  induction fuel with
  | zero =>
    intro pos fuel' h1 h2
    cases fuel' with
    | zero => rfl
    | succ k =>
      have : readAt f pos 10 = [] := by unfold readAt; rw [List.drop_of_length_le (by omega)]; rfl
      simp [skipId3, this]
  | succ n ih =>
    intro pos fuel' h1 h2
    cases fuel' with
    | zero =>
      have : readAt f pos 10 = [] := by unfold readAt; rw [List.drop_of_length_le (by omega)]; rfl
      simp [skipId3, this]
    | succ k =>
      unfold skipId3
      simp only []
      split
      · rename_i hc
        exact ih _ _ (by omega) (by omega)
      · rfl

end Mutagen.Info.Mp3
