/- Proofs/Info/Mp4Tree.lean — `Atoms(fileobj)` (Model/Container/Mp4.lean `parse`) on a rendered atom tree:
every atom comes back with its name, offset, length, data offset and children -/
import MutagenModel.Proofs.Container.Mp4Total
import MutagenModel.Proofs.IntCodec
import MutagenModel.Spec.Info.Mp4Height
set_option linter.unusedVariables false
set_option linter.unusedSimpArgs false
namespace Mutagen.Mp4C
open Mutagen

mutual
/-- the parsed form of an atom rendered at offset `o` -/
def pOf : Nat → Atom → PAtom
  | o, .leaf n w p => PAtom.mk n o (hdrLen w + p.length) (o + hdrLen w) []
  | o, .node n w s cs => PAtom.mk n o (hdrLen w + s.length + sizeList cs) (o + hdrLen w) (pListOf (o + hdrLen w + s.length) cs)
def pListOf : Nat → List Atom → List PAtom
  | _, [] => []
  | o, a :: r => pOf o a :: pListOf (o + a.size) r
end

/-- reading the header of an atom rendered behind `P`: the sized / named part of `parseAtom` -/
theorem header_read (P R body name : Bytes) (wide : Bool) (size : Nat) (hn : name.length = 4)
    (hs : size < (if wide then 2 ^ 64 else 2 ^ 32)) (h8 : hdrLen wide ≤ size) :
    let f := P ++ (header name wide size ++ body) ++ R
    ¬ (readAt f P.length 8).length < 8 ∧ (readAt f P.length 8).drop 4 = name ∧
    (if wide then ofBE ((readAt f P.length 8).take 4) = 1 ∧ ¬ (readAt f (P.length + 8) 8).length < 8 ∧
        ofBE (readAt f (P.length + 8) 8) = size
     else ofBE ((readAt f P.length 8).take 4) = size) := by
  intro f
  cases wide with
  | false =>
    simp only [Bool.false_eq_true, ↓reduceIte] at hs ⊢
    have hf : f = P ++ (toBE 4 size ++ name) ++ (body ++ R) := by
      simp [f, header, List.append_assoc]
    have hr : readAt f P.length 8 = toBE 4 size ++ name := by
      rw [hf]; exact readAt_mid P (toBE 4 size ++ name) (body ++ R) |> (by simpa [hn] using ·)
    rw [hr]
    refine ⟨by simp [hn], List.drop_left' (by simp), ?_⟩
    rw [List.take_left' (by simp)]
    exact ofBE_toBE 4 size (by omega)
  | true =>
    simp only [↓reduceIte] at hs ⊢
    have hf : f = P ++ (toBE 4 1 ++ name) ++ (toBE 8 size ++ body ++ R) := by
      simp [f, header, List.append_assoc]
    have hr : readAt f P.length 8 = toBE 4 1 ++ name := by
      rw [hf]; exact readAt_mid P (toBE 4 1 ++ name) _ |> (by simpa [hn] using ·)
    have hf2 : f = (P ++ (toBE 4 1 ++ name)) ++ toBE 8 size ++ (body ++ R) := by
      simp [f, header, List.append_assoc]
    have hr2 : readAt f (P.length + 8) 8 = toBE 8 size := by
      rw [hf2]
      have := readAt_mid (P ++ (toBE 4 1 ++ name)) (toBE 8 size) (body ++ R)
      simpa [hn] using this
    rw [hr, hr2]
    refine ⟨by simp [hn], List.drop_left' (by simp), ?_, by simp, ofBE_toBE 8 size (by omega)⟩
    rw [List.take_left' (by simp)]
    exact ofBE_toBE 4 1 (by decide)


/-- the header part of `parseAtom`, once the header has been read -/
theorem parseAtom_head (fuel : Nat) (P R body name : Bytes) (wide : Bool) (size level : Nat) (hn : name.length = 4)
    (hs : size < (if wide then 2 ^ 64 else 2 ^ 32)) (h8 : hdrLen wide ≤ size) :
    parseAtom (fuel + 1) (P ++ (header name wide size ++ body) ++ R) P.length level =
      (if isContainer name then
          if level > 64 then .error .mutagen
          else
            match parseKids fuel (P ++ (header name wide size ++ body) ++ R) (P.length + hdrLen wide + skipSize name)
                (P.length + size) (level + 1) with
            | .error e => .error e
            | .ok (kids, p) => .ok (PAtom.mk name P.length size (P.length + hdrLen wide) kids, p)
        else .ok (PAtom.mk name P.length size (P.length + hdrLen wide) [], P.length + size)) := by
  obtain ⟨h1, h2, h3⟩ := header_read P R body name wide size hn hs h8
  unfold parseAtom
  simp only [h1, ↓reduceIte, h2]
  cases wide with
  | false =>
    simp only [Bool.false_eq_true, ↓reduceIte] at h3 hs ⊢
    simp only [hdrLen, Bool.false_eq_true, ↓reduceIte] at h8 ⊢
    rw [h3]
    have n1 : ¬ size = 1 := by omega
    have n0 : ¬ size = 0 := by omega
    have n8 : ¬ size < 8 := by omega
    simp only [n1, n0, n8, ↓reduceIte]
    rfl
  | true =>
    simp only [↓reduceIte] at h3 hs ⊢
    simp only [hdrLen, ↓reduceIte] at h8 ⊢
    obtain ⟨e1, e2, e3⟩ := h3
    have n16 : ¬ size < 16 := by omega
    simp only [e1, ↓reduceIte, e2, e3, n16]
    rfl

mutual
theorem parseAtom_render : (a : Atom) → a.wf → ∀ (P R : Bytes) (fuel level : Nat), a.size ≤ fuel → level + a.height ≤ 65 →
    parseAtom fuel (P ++ a.render ++ R) P.length level = .ok (pOf P.length a, P.length + a.size)
  | .leaf n w p, h, P, R, fuel, level, hf, hl => by
    simp only [Atom.wf] at h
    obtain ⟨hn, hc, hs⟩ := h
    cases fuel with
    | zero => have := Atom.size_ge (.leaf n w p); omega
    | succ k =>
      simp only [Atom.render]
      rw [parseAtom_head k P R p n w _ level hn hs (by omega)]
      simp only [hc, Bool.false_eq_true, ↓reduceIte, pOf, Atom.size]
  | .node n w s cs, h, P, R, fuel, level, hf, hl => by
    simp only [Atom.wf] at h
    obtain ⟨hn, hc, hsk, hs, hcs⟩ := h
    cases fuel with
    | zero => have := Atom.size_ge (.node n w s cs); omega
    | succ k =>
      simp only [Atom.render, List.append_assoc]
      have hrw : P ++ (header n w (hdrLen w + s.length + sizeList cs) ++ (s ++ renderList cs)) ++ R =
          P ++ (header n w (hdrLen w + s.length + sizeList cs) ++ (s ++ renderList cs)) ++ R := rfl
      have hhead := parseAtom_head k P R (s ++ renderList cs) n w (hdrLen w + s.length + sizeList cs) level hn hs (by omega)
      simp only [List.append_assoc] at hhead
      rw [hhead]
      simp only [Atom.height] at hl
      have hlv : ¬ level > 64 := by omega
      simp only [hc, ↓reduceIte, hlv]
      -- the children
      have hlenh : (header n w (hdrLen w + s.length + sizeList cs)).length = hdrLen w := length_header _ _ _ hn
      have hfile : P ++ (header n w (hdrLen w + s.length + sizeList cs) ++ (s ++ (renderList cs ++ R))) =
          (P ++ header n w (hdrLen w + s.length + sizeList cs) ++ s) ++ renderList cs ++ R := by
        simp [List.append_assoc]
      have hP : (P ++ header n w (hdrLen w + s.length + sizeList cs) ++ s).length = P.length + hdrLen w + skipSize n := by
        simp only [List.length_append, length_header _ _ _ hn, hsk]
      have hkids := parseKids_render cs hcs (P ++ header n w (hdrLen w + s.length + sizeList cs) ++ s) R k (level + 1)
        (by simp only [Atom.size] at hf; have : 8 ≤ hdrLen w := by cases w <;> simp [hdrLen]
            omega) (by omega)
      rw [← hfile, hP] at hkids
      have hstop : P.length + hdrLen w + skipSize n + sizeList cs = P.length + (hdrLen w + s.length + sizeList cs) := by
        rw [hsk]; omega
      rw [hstop] at hkids
      rw [hkids]
      simp only [pOf, Atom.size, hsk]
theorem parseKids_render : (cs : List Atom) → wfList cs → ∀ (P R : Bytes) (fuel level : Nat), sizeList cs + 1 ≤ fuel →
    level + heightList cs ≤ 65 →
    parseKids fuel (P ++ renderList cs ++ R) P.length (P.length + sizeList cs) level =
      .ok (pListOf P.length cs, P.length + sizeList cs)
  | [], _, P, R, fuel, level, hf, hl => by
    cases fuel with
    | zero => omega
    | succ k => simp [parseKids, sizeList, pListOf]
  | a :: r, h, P, R, fuel, level, hf, hl => by
    simp only [wfList] at h
    simp only [sizeList] at hf
    simp only [heightList] at hl
    have hge := Atom.size_ge a
    cases fuel with
    | zero => omega
    | succ k =>
      unfold parseKids
      have hlt : P.length < P.length + sizeList (a :: r) := by simp only [sizeList]; omega
      rw [if_pos hlt]
      have hfile : P ++ renderList (a :: r) ++ R = P ++ a.render ++ (renderList r ++ R) := by
        simp [renderList, List.append_assoc]
      rw [hfile, parseAtom_render a h.1 P (renderList r ++ R) k level (by omega) (by omega)]
      simp only []
      have hfile2 : P ++ a.render ++ (renderList r ++ R) = (P ++ a.render) ++ renderList r ++ R := by
        simp [List.append_assoc]
      have hPl : (P ++ a.render).length = P.length + a.size := by
        simp [Atom.length_render a h.1]
      have hrest := parseKids_render r h.2 (P ++ a.render) R k level (by omega) (by omega)
      rw [hPl] at hrest
      have hstop : P.length + a.size + sizeList r = P.length + sizeList (a :: r) := by simp only [sizeList]; omega
      rw [hstop] at hrest
      rw [hfile2, hrest]
      simp only [pListOf, sizeList, Nat.add_assoc]
end

theorem parseTop_render : (atoms : List Atom) → wfList atoms → ∀ (P R : Bytes) (fuel : Nat), sizeList atoms + 1 ≤ fuel →
    heightList atoms ≤ 65 → R.length < 8 →
    parseTop fuel (P ++ renderList atoms ++ R) P.length = .ok (pListOf P.length atoms)
  | [], _, P, R, fuel, hf, hl, hr => by
    cases fuel with
    | zero => omega
    | succ k =>
      unfold parseTop
      rw [if_neg (by simp [renderList]; omega)]
      rfl
  | a :: r, h, P, R, fuel, hf, hl, hr => by
    simp only [wfList] at h
    simp only [sizeList] at hf
    simp only [heightList] at hl
    have hge := Atom.size_ge a
    cases fuel with
    | zero => omega
    | succ k =>
      unfold parseTop
      have hlen : (P ++ renderList (a :: r) ++ R).length = P.length + (a.size + sizeList r) + R.length := by
        simp [renderList, Atom.length_render a h.1, length_renderList r h.2]; omega
      rw [if_pos (by rw [hlen]; omega)]
      have hfile : P ++ renderList (a :: r) ++ R = P ++ a.render ++ (renderList r ++ R) := by
        simp [renderList, List.append_assoc]
      rw [hfile, parseAtom_render a h.1 P (renderList r ++ R) k 0 (by omega) (by omega)]
      simp only []
      have hfile2 : P ++ a.render ++ (renderList r ++ R) = (P ++ a.render) ++ renderList r ++ R := by
        simp [List.append_assoc]
      have hPl : (P ++ a.render).length = P.length + a.size := by simp [Atom.length_render a h.1]
      have hrest := parseTop_render r h.2 (P ++ a.render) R k (by omega) (by omega) hr
      rw [hPl] at hrest
      rw [hfile2, hrest]
      simp only [pListOf]

/-- `Atoms(fileobj)` on a rendered atom list (followed by fewer than 8 bytes) -/
theorem parse_render (atoms : List Atom) (h : wfList atoms) (hl : heightList atoms ≤ 65) (R : Bytes) (hr : R.length < 8) :
    parse (renderList atoms ++ R) = .ok (pListOf 0 atoms) := by
  have := parseTop_render atoms h [] R ((renderList atoms ++ R).length + 4)
    (by simp [length_renderList atoms h]; omega) hl hr
  simpa [parse] using this

end Mutagen.Mp4C
