/- Proofs/Info/Ac3.lean — bounds of the fields read by the bit reader, the AC-3 / E-AC-3 decision tables against
the specification, totality of the parser -/
import MutagenModel.Proofs.Info.Aac
import MutagenModel.Spec.Info.Ac3
set_option linter.unusedVariables false
set_option linter.unusedSimpArgs false
namespace Mutagen.Info.Ac3
open Mutagen Mutagen.Info Mutagen.Info.Aac

theorem bits_lt (f : Bytes) (r r' : R) (n v : Nat) (h : r.bits f n = some (v, r')) : v < 2 ^ n := by
  unfold R.bits at h
  split at h
  · cases h; exact Nat.pow_pos (by decide)
  · split at h
    · cases h
      rw [bitsAt_eq]
      have := bitsToNat_lt (((bytesToBits f).drop (8 * r.start + r.pos)).take n)
      have hl : (((bytesToBits f).drop (8 * r.start + r.pos)).take n).length ≤ n := by simp [List.length_take]; omega
      exact Nat.lt_of_lt_of_le this (Nat.pow_le_pow_right (by decide) hl)
    · cases h

theorem normalFields_bounds (f : Bytes) (r r' : R) (a b c d : Nat) (h : normalFields f r = some (a, b, c, d, r')) :
    a < 4 ∧ b < 64 ∧ c < 8 ∧ d < 2 := by
  unfold normalFields at h
  simp only [bind, Option.bind_eq_some_iff, pure, Option.some.injEq, Prod.mk.injEq, Prod.exists] at h
  obtain ⟨r1, h1, sr, r2, h2, fsc, r3, h3, r4, h4, r5, h5, cm, r6, h6, r7, h7, r8, h8, r9, h9, lfe, r10, h10, rfl, rfl, rfl, rfl, rfl⟩ := h
  exact ⟨bits_lt _ _ _ _ _ h2, bits_lt _ _ _ _ _ h3, bits_lt _ _ _ _ _ h6, bits_lt _ _ _ _ _ h10⟩


theorem condBits_lt (f : Bytes) (r r' : R) (c : Bool) (n d v : Nat) (hd : d < 2 ^ n) (h : condBits f r c n d = some (v, r')) :
    v < 2 ^ n := by
  unfold condBits at h
  split at h
  · exact bits_lt _ _ _ _ _ h
  · cases h; exact hd

theorem enhancedFields_bounds (f : Bytes) (r r' : R) (ft fs s1 s2 nb cm lfe : Nat)
    (h : enhancedFields f r = some (ft, fs, s1, s2, nb, cm, lfe, r')) :
    ft < 4 ∧ fs < 2048 ∧ s1 < 4 ∧ s2 < 4 ∧ nb < 4 ∧ cm < 8 ∧ lfe < 2 := by
  unfold enhancedFields at h
  simp only [bind, Option.bind_eq_some_iff, pure, Option.some.injEq, Prod.mk.injEq, Prod.exists] at h
  obtain ⟨a, r1, h1, r2, h2, b, r3, h3, c, r4, h4, d, r5, h5, e, r6, h6, g, r7, h7, l, r8, h8, r9, h9, rfl, rfl, rfl, rfl, rfl, rfl, rfl, rfl⟩ := h
  exact ⟨bits_lt _ _ _ _ _ h1, bits_lt _ _ _ _ _ h3, bits_lt _ _ _ _ _ h4, condBits_lt _ _ _ _ _ _ _ (by decide) h5,
    condBits_lt _ _ _ _ _ _ _ (by decide) h6, bits_lt _ _ _ _ _ h7, bits_lt _ _ _ _ _ h8⟩

/-- the AC-3 decision table: every combination of the fixed fields -/
def normalCheck : Bool :=
  (List.range 17).all fun bsid => (List.range 4).all fun sr => (List.range 64).all fun fsc => (List.range 8).all fun cm =>
  (List.range 2).all fun lfe =>
    normalValues bsid sr fsc cm lfe ==
      (if sr = 3 ∨ fsc > 37 then .error .mutagen else .ok (Spec.Ac3.ac3Values bsid sr fsc cm lfe))

theorem normalCheck_ok : normalCheck = true := by decide +kernel

theorem normalValues_spec (bsid sr fsc cm lfe : Nat) (hb : bsid < 17) (hs : sr < 4) (hf : fsc < 64) (hc : cm < 8) (hl : lfe < 2) :
    normalValues bsid sr fsc cm lfe =
      (if sr = 3 ∨ fsc > 37 then .error .mutagen else .ok (Spec.Ac3.ac3Values bsid sr fsc cm lfe)) := by
  have h := normalCheck_ok
  simp only [normalCheck, List.all_eq_true, List.mem_range, beq_iff_eq] at h
  exact h bsid hb sr hs fsc hf cm hc lfe hl

theorem tables_ok :
    (∀ i < 3, ∃ x, Generated.ac3SampleRates[i]? = some x ∧ x = Spec.Tables.ac3SampleRates.getD i 0) ∧
    (∀ i < 4, ∃ x, Generated.eac3Blocks[i]? = some x ∧ x = Spec.Tables.eac3Blocks.getD i 0 ∧ x * 256 ≠ 0) ∧
    (∀ i < 8, ∃ x, Generated.ac3Channels[i]? = some x ∧ x = Spec.Tables.ac3Channels.getD i 0) := by decide

theorem enhancedValues_spec (ft fs s1 s2 nb cm lfe : Nat) (hft : ft < 4) (hfs : fs < 2048) (h1 : s1 < 4) (h2 : s2 < 4)
    (hnb : nb < 4) (hcm : cm < 8) (hl : lfe < 2) :
    enhancedValues ft fs s1 s2 nb cm lfe =
      (if ft = 3 ∨ (fs + 1) * 2 < 7 ∨ (s1 = 3 ∧ s2 = 3) then .error .mutagen
       else .ok (Spec.Ac3.eac3Values fs s1 s2 nb cm lfe)) := by
  obtain ⟨t1, t2, t3⟩ := tables_ok
  unfold enhancedValues
  by_cases c1 : ft = 3
  · simp [c1]
  by_cases c2 : (fs + 1) * 2 < 7
  · simp [c1, c2]
  by_cases c3 : s1 = 3 ∧ s2 = 3
  · simp [c1, c2, c3]
  have hi : (if s1 = 3 then s2 else s1) < 3 := by split <;> omega
  obtain ⟨x, hx, hxs⟩ := t1 _ hi
  obtain ⟨b, hb, hbs, hbz⟩ := t2 nb hnb
  obtain ⟨c, hc, hcs⟩ := t3 cm hcm
  simp only [c1, c2, c3, if_false, hx, hb, hbz, hc, false_or]
  simp only [Spec.Ac3.eac3Values, Spec.Ac3.eac3Rate, ← hbs, ← hcs]
  by_cases c4 : s1 = 3
  · simp only [c4, if_true] at hxs ⊢
    rw [← hxs]
  · simp only [c4, if_false] at hxs ⊢
    rw [← hxs]

theorem parse_total (f : Bytes) : ∀ e, parse f = .error e → e = .mutagen := by
  intro e he
  unfold parse at he
  simp only at he
  split at he
  · cases he; rfl
  · split at he
    · cases he; rfl
    · split at he
      · cases he; rfl
      · rename_i hbs
        split at he
        · cases he; rfl
        · rename_i e' hr
          cases he
          split at hr
          · rename_i hle
            unfold readNormal at hr
            split at hr
            · cases hr
            · rename_i a b c d r' hf
              obtain ⟨h1, h2, h3, h4⟩ := normalFields_bounds _ _ _ _ _ _ _ hf
              rw [normalValues_spec _ a b c d (by omega) h1 h2 h3 h4] at hr
              split at hr
              · rename_i e2 hv
                cases hr
                split at hv
                · cases hv; rfl
                · cases hv
              · split at hr <;> cases hr
          · unfold readEnhanced at hr
            split at hr
            · cases hr
            · rename_i ft fs s1 s2 nb cm lfe r' hf
              obtain ⟨h1, h2, h3, h4, h5, h6, h7⟩ := enhancedFields_bounds _ _ _ _ _ _ _ _ _ _ hf
              rw [enhancedValues_spec _ _ _ _ _ _ _ h1 h2 h3 h4 h5 h6 h7] at hr
              split at hr
              · rename_i e2 hv
                cases hr
                split at hv
                · cases hv; rfl
                · cases hv
              · split at hr <;> cases hr
        · cases he

end Mutagen.Info.Ac3
