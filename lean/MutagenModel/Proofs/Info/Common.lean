/- Proofs/Info/Common.lean — slicing lemmas for headers that are concatenations of fixed-width pieces -/
import MutagenModel.Model.Info.Rd
import MutagenModel.Proofs.IntCodec
namespace Mutagen.Info
open Mutagen

theorem readAt_readAt (f : Bytes) (p m i n : Nat) (h : i + n ≤ m) :
    readAt (readAt f p m) i n = readAt f (p + i) n := by
  unfold readAt
  rw [List.drop_take, List.take_take, List.drop_drop, Nat.min_eq_left (by omega)]

theorem readAt_append_ge (a b : Bytes) (pos n : Nat) (h : a.length ≤ pos) :
    readAt (a ++ b) pos n = readAt b (pos - a.length) n := by
  unfold readAt
  rw [List.drop_append, List.drop_of_length_le h, List.nil_append]

theorem readAt_append_length (a b : Bytes) (n : Nat) :
    readAt (a ++ b) a.length n = readAt b 0 n := by
  rw [readAt_append_ge a b a.length n (Nat.le_refl _), Nat.sub_self]

theorem readAt_append_length_add (a b : Bytes) (k n : Nat) :
    readAt (a ++ b) (a.length + k) n = readAt b k n := by
  rw [readAt_append_ge a b _ n (Nat.le_add_right _ _), Nat.add_sub_cancel_left]

theorem readAt_zero_append (a b : Bytes) (n : Nat) (h : n = a.length) :
    readAt (a ++ b) 0 n = a := by
  subst h; simp [readAt]

theorem readAt_zero_exact (a : Bytes) (n : Nat) (h : a.length ≤ n) : readAt a 0 n = a := by
  simp [readAt, List.take_of_length_le h]

theorem length_readAt (f : Bytes) (pos n : Nat) : (readAt f pos n).length = min n (f.length - pos) := by
  simp [readAt]

theorem length_readAt_le (f : Bytes) (pos n : Nat) : (readAt f pos n).length ≤ n := by
  rw [length_readAt]; exact Nat.min_le_left _ _

theorem length_readAt_of_le (f : Bytes) (pos n : Nat) (h : pos + n ≤ f.length) :
    (readAt f pos n).length = n := by
  rw [length_readAt]; omega

/-- a short read: fewer bytes than asked for -/
theorem length_readAt_lt (f : Bytes) (pos n : Nat) (h : f.length < pos + n) :
    (readAt f pos n).length < n ∨ n = 0 := by
  rw [length_readAt]; omega

theorem uLE_toLE_head (w n : Nat) (h : n < 256 ^ w) (rest : Bytes) :
    ofLE (readAt (toLE w n ++ rest) 0 w) = n := by
  rw [readAt_zero_append _ _ _ (by simp), ofLE_toLE w n h]

/-- peel the pieces in front of position `pos` off a right-nested concatenation, then read the piece -/
macro "rd_simp" : tactic =>
  `(tactic| simp (disch := simp) only [readAt_append_ge, readAt_zero_append, List.length_cons, List.length_nil,
      length_toLE, length_toBE, Nat.reduceAdd, Nat.reduceSub, Nat.zero_add, Nat.add_zero])

end Mutagen.Info
