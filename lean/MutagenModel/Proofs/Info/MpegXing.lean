/- Proofs/Info/MpegXing.lean — the Xing / Info header of the first frame -/
import MutagenModel.Proofs.Info.Mpeg
set_option linter.unusedVariables false
set_option linter.unusedSimpArgs false
namespace Mutagen.Info.Mp3
open Mutagen Mutagen.Info Mutagen.Mpeg Mutagen.Spec.Mp3 Mutagen.Spec.Mpeg

def optVal (v : Option Nat) : Int := match v with | some n => Int.ofNat n | none => -1

theorem length_optBE (v : Option Nat) : (optBE v).length = if v.isSome then 4 else 0 := by
  cases v <;> simp [optBE]

/-- reading an optional 32-bit field that stands at `p` -/
theorem opt_read (f : Bytes) (p : Nat) (v : Option Nat) (X : Bytes) (hf : f.drop p = optBE v ++ X) (hv : ∀ n, v = some n → n < 2 ^ 32) :
    (if v.isSome = true then
        (let d := readAt f p 4; if d.length = 4 then some d else none).map (fun d => (Int.ofNat (ofBE d), p + 4))
      else some ((-1 : Int), p)) = some (optVal v, p + (optBE v).length) := by
  cases v with
  | none => simp [optVal, optBE]
  | some n =>
    have hr : readAt f p 4 = toBE 4 n := by
      unfold readAt; rw [hf]; simp [optBE, List.take_left']
    simp [hr, optVal, optBE, ofBE_toBE 4 n (by have := hv n rfl; omega)]

theorem flags_bits (x : XingTag) :
    (x.flags % 2 = 1 ↔ x.frames.isSome = true) ∧ (x.flags / 2 % 2 = 1 ↔ x.bytes.isSome = true) ∧
    (x.flags / 4 % 2 = 1 ↔ x.toc.isSome = true) ∧ (x.flags / 8 % 2 = 1 ↔ x.quality.isSome = true) ∧ x.flags < 16 := by
  unfold XingTag.flags
  cases x.frames.isSome <;> cases x.bytes.isSome <;> cases x.toc.isSome <;> cases x.quality.isSome <;> decide


theorem parseVersion_none (d : Bytes) (h1 : ¬ ([0x4C, 0x41, 0x4D, 0x45] <+: d)) (h2 : ¬ ([0x4C, 0x33, 0x2E, 0x39, 0x39] <+: d)) (n : Nat) :
    parseVersion (d.take n) = none := by
  unfold parseVersion
  split
  · rfl
  · have e1 : (asciiB "LAME").isPrefixOf (d.take n) = false := by
      rw [Bool.eq_false_iff]; intro hc
      rw [List.isPrefixOf_iff_prefix] at hc
      exact h1 (List.IsPrefix.trans hc (List.take_prefix n d))
    have e2 : (asciiB "L3.99").isPrefixOf (d.take n) = false := by
      rw [Bool.eq_false_iff]; intro hc
      rw [List.isPrefixOf_iff_prefix] at hc
      exact h2 (List.IsPrefix.trans hc (List.take_prefix n d))
    simp [e1, e2]

/-- `XingHeader(fileobj)` on a tag of the specification side that no LAME version string follows -/
theorem parseXing_build (f : Bytes) (q : Nat) (x : XingTag) (ok : x.OK) (after : Bytes) (hf : f.drop q = x.render ++ after)
    (h1 : ¬ ([0x4C, 0x41, 0x4D, 0x45] <+: after)) (h2 : ¬ ([0x4C, 0x33, 0x2E, 0x39, 0x39] <+: after)) :
    parseXing f q = some { isInfo := x.isInfo, frames := optVal x.frames, bytes := optVal x.bytes, vbrScale := optVal x.quality,
                           lameVersion := (0, 0), lameDesc := [], lame := none } := by
  obtain ⟨okf, okb, okt, okq⟩ := ok
  obtain ⟨fb1, fb2, fb3, fb4, fl⟩ := flags_bits x
  generalize hm : (if x.isInfo then ([0x49, 0x6E, 0x66, 0x6F] : Bytes) else [0x58, 0x69, 0x6E, 0x67]) = magic
  have hml : magic.length = 4 := by rw [← hm]; split <;> rfl
  have hfr : f.drop q = (magic ++ toBE 4 x.flags) ++ (optBE x.frames ++ (optBE x.bytes ++ (x.toc.getD [] ++ (optBE x.quality ++ after)))) := by
    rw [hf, ← hm]; simp [XingTag.render, List.append_assoc]
  have hdata : readAt f q 8 = magic ++ toBE 4 x.flags := by
    unfold readAt; rw [hfr]; exact List.take_left' (by simp [hml])
  have d1 : f.drop (q + 8) = optBE x.frames ++ (optBE x.bytes ++ (x.toc.getD [] ++ (optBE x.quality ++ after))) := by
    rw [← List.drop_drop, hfr]; exact List.drop_left' (by simp [hml])
  have d2 : f.drop (q + 8 + (optBE x.frames).length) = optBE x.bytes ++ (x.toc.getD [] ++ (optBE x.quality ++ after)) := by
    rw [← List.drop_drop, d1]; exact List.drop_left
  have d3 : f.drop (q + 8 + (optBE x.frames).length + (optBE x.bytes).length) = x.toc.getD [] ++ (optBE x.quality ++ after) := by
    rw [← List.drop_drop, d2]; exact List.drop_left
  have d4 : f.drop (q + 8 + (optBE x.frames).length + (optBE x.bytes).length + (x.toc.getD []).length) = optBE x.quality ++ after := by
    rw [← List.drop_drop, d3]; exact List.drop_left
  have d5 : f.drop (q + 8 + (optBE x.frames).length + (optBE x.bytes).length + (x.toc.getD []).length + (optBE x.quality).length) = after := by
    rw [← List.drop_drop, d4]; exact List.drop_left
  have r1 := opt_read f (q + 8) x.frames _ d1 okf
  have r2 := opt_read f (q + 8 + (optBE x.frames).length) x.bytes _ d2 okb
  have r4 := opt_read f (q + 8 + (optBE x.frames).length + (optBE x.bytes).length + (x.toc.getD []).length) x.quality _ d4 okq
  have r3 : (if x.toc.isSome = true then
        (let d := readAt f (q + 8 + (optBE x.frames).length + (optBE x.bytes).length) 100; if d.length = 100 then some d else none).map
          (fun _ => q + 8 + (optBE x.frames).length + (optBE x.bytes).length + 100)
      else some (q + 8 + (optBE x.frames).length + (optBE x.bytes).length)) =
      some (q + 8 + (optBE x.frames).length + (optBE x.bytes).length + (x.toc.getD []).length) := by
    cases ht : x.toc with
    | none => simp
    | some t =>
      have htl := okt t ht
      have hr : readAt f (q + 8 + (optBE x.frames).length + (optBE x.bytes).length) 100 = t := by
        unfold readAt; rw [d3, ht]; exact List.take_left' htl
      simp [hr, htl]
  have hver : parseVersion (readAt f (q + 8 + (optBE x.frames).length + (optBE x.bytes).length + (x.toc.getD []).length + (optBE x.quality).length) 20) = none := by
    unfold readAt; rw [d5]; exact parseVersion_none after h1 h2 20
  have hmagic : (magic ++ toBE 4 x.flags).take 4 = magic := List.take_left' hml
  have hflags : ofBE ((magic ++ toBE 4 x.flags).drop 4) = x.flags := by
    rw [List.drop_left' hml]; exact ofBE_toBE 4 _ (by omega)
  have hmok : (magic = asciiB "Xing" ∨ magic = asciiB "Info") := by
    rw [← hm]; cases x.isInfo
    · left; decide
    · right; decide
  have hinfo : decide (magic = asciiB "Info") = x.isInfo := by
    rw [← hm]; cases x.isInfo <;> decide
  unfold parseXing
  simp only [hdata, hmagic, hflags, List.length_append, hml, length_toBE, ne_eq, not_true_eq_false, hmok, or_self, ↓reduceIte,
    fb1, fb2, fb3, fb4, r1, r2, r3, r4, hver, hinfo]


theorem frameSize_infoOf (h : Hdr) (ok : h.OK) : frameSize (infoOf h) = h.samples := by
  obtain ⟨h1, h2, _⟩ := ok
  have hv : h.version = 0 ∨ h.version = 2 ∨ h.version = 3 := by omega
  unfold frameSize Hdr.samples samplesPerFrame infoOf Hdr.ver10
  rcases hv with hv | hv | hv <;> simp [hv] <;> (by_cases h1 : h.lay = 1 <;> by_cases h3 : h.lay = 3 <;> simp [h1, h3])

theorem optVal_ne (v : Option Nat) : (optVal v ≠ -1) ↔ v.isSome = true := by
  cases v with
  | none => simp [optVal]
  | some n => simp [optVal]

/-- the decision of the loop over the syncs at a first frame that is not sketchy -/
theorem syncLoop_first (f : Bytes) (o : Nat) (rest : List Nat) (fr : Frame) (h : takeFrames f 4 o = .ok [fr]) (hs : fr.sketchy = false) :
    syncLoop f (o :: rest) 1500 none = .ok (some fr, false) := by
  simp [syncLoop, h, hs]

theorem takeFrames_first (f : Bytes) (o : Nat) (fr : Frame) (next : Nat) (h : mpegFrame f o = .ok (some (fr, next))) (hs : fr.sketchy = false) :
    takeFrames f 4 o = .ok [fr] := by
  simp [takeFrames, h, hs]

/-- `_parse_vbr_header` when the Xing header has no LAME part -/
theorem vbrHeader_xing (f : Bytes) (fr : Frame) (isInfo : Bool) (frames bytes scale : Int)
    (hx : parseXing f (fr.offset + Generated.xingOffset (if fr.h.version10 = 10 then 1 else 2) fr.h.mode) =
      some { isInfo := isInfo, frames := frames, bytes := bytes, vbrScale := scale, lameVersion := (0, 0), lameDesc := [], lame := none }) :
    vbrHeader f fr =
      { fr with
        sketchy := false,
        bitrateMode := some (if isInfo then 1 else if scale ≠ -1 then 2 else 0),
        encoderSettings := some [],
        bitrate := if frames ≠ -1 ∧ bytes ≠ -1 ∧ (frameSize fr.h : Int) * frames > 0 then
            .round (.div (.int ((max 0 (bytes - fr.h.frameLength)) * 8 * fr.h.sampleRate)) (.flt (.int ((frameSize fr.h : Int) * frames))))
          else fr.bitrate,
        length := if frames ≠ -1 then
            some (.div (.flt (.int (if (frameSize fr.h : Int) * frames < 0 then 0 else (frameSize fr.h : Int) * frames))) (.nat fr.h.sampleRate))
          else fr.length } := by
  unfold vbrHeader
  simp only [hx, guessXingMode]
  by_cases hf : frames = -1
  · simp [hf]
  · by_cases hb : bytes ≠ -1 ∧ (frameSize fr.h : Int) * frames > 0
    · simp [hf, hb]
    · simp [hf, hb]

theorem parse_xing_at (pre : Bytes) (s : XingStream) (ok : s.OK) :
    parseFrom (pre ++ s.build) pre.length = .ok { s.expected with frameOffset := pre.length + s.lead.render.length } := by
  obtain ⟨hlead, hok, hl3, hside, htag, hn1, hn2⟩ := ok
  obtain ⟨rest, hscan⟩ := lead_scan_at pre s.lead hlead s.hdr (s.side ++ (s.tag.render ++ s.after))
  have hb : s.build = s.lead.render ++ (s.hdr.bytes ++ (s.side ++ (s.tag.render ++ s.after))) := rfl
  rw [← hb] at hscan
  have hE := size_shift pre s.build s.lead.render.length _ rfl
  generalize ho : pre.length + s.lead.render.length = o at *
  have d0 : (pre ++ s.build).drop o = s.hdr.bytes ++ (s.side ++ (s.tag.render ++ s.after)) := by rw [← ho]; exact drop_at2 _ _ _
  generalize hF : pre ++ s.build = F at *
  have dq : F.drop (o + (4 + s.hdr.sideInfo)) = s.tag.render ++ s.after := by
    rw [← List.drop_drop, d0, ← List.append_assoc]
    exact List.drop_left' (by simp [length_hdr, hside])
  have hx := parseXing_build F (o + (4 + s.hdr.sideInfo)) s.tag htag s.after dq hn1 hn2
  have hfs := frameSize_infoOf s.hdr hok
  have hlay : (infoOf s.hdr).layer = 3 := hl3
  have hxo := xing_offset s.hdr hok
  -- by what the tag carries
  have key : ∀ (fv bv : Int), optVal s.tag.frames = fv → optVal s.tag.bytes = bv →
      (fv = -1 ∨ 0 ≤ fv) →
      parseFrom F pre.length = .ok
        { length := if fv ≠ -1 then .div (.flt (.int ((s.hdr.samples : Int) * fv))) (.nat s.hdr.rate)
                    else .div (.int (8 * ((F.length : Int) - (o : Nat)))) (.flt (.int s.hdr.bitrate)),
          bitrate := if fv ≠ -1 ∧ bv ≠ -1 ∧ (s.hdr.samples : Int) * fv > 0 then
              .round (.div (.int ((max 0 (bv - s.hdr.frameLength)) * 8 * s.hdr.rate)) (.flt (.int ((s.hdr.samples : Int) * fv))))
            else .int s.hdr.bitrate,
          channels := if s.hdr.mode = 3 then 1 else 2, sampleRate := s.hdr.rate, version10 := s.hdr.ver10, layer := s.hdr.lay,
          mode := s.hdr.mode, crcProtected := decide (s.hdr.protection = 0), padding := decide (s.hdr.padding = 1), sketchy := false,
          bitrateMode := if s.tag.isInfo then 1 else if s.tag.quality.isSome then 2 else 0,
          encoderInfo := [], encoderSettings := [], trackGain := none, trackPeak := none, albumGain := none, frameOffset := o } := by
    intro fv bv hfv hbv hnn
    rw [hfv, hbv] at hx
    have hvb := vbrHeader_xing F { offset := o, h := infoOf s.hdr, bitrate := .int (infoOf s.hdr).bitrate } s.tag.isInfo
      fv bv (optVal s.tag.quality) (by simp only [hxo]; exact hx)
    have hm : mpegFrame F o = .ok (some (vbrHeader F { offset := o, h := infoOf s.hdr, bitrate := .int (infoOf s.hdr).bitrate },
        o + (infoOf s.hdr).frameLength)) := by
      unfold mpegFrame
      rw [d0, decode_hdr s.hdr hok]
      simp only [hlay, ↓reduceIte]
    have hsk : (vbrHeader F { offset := o, h := infoOf s.hdr, bitrate := .int (infoOf s.hdr).bitrate }).sketchy = false := by
      rw [hvb]
    have htf := takeFrames_first F o _ _ hm hsk
    have hsl := syncLoop_first F o rest _ htf hsk
    have hq : (optVal s.tag.quality ≠ -1) ↔ s.tag.quality.isSome = true := optVal_ne _
    unfold parseFrom
    simp only [hscan, hsl, hvb, hfs]
    have hneg : ¬ ((s.hdr.samples : Int) * fv < 0) ∨ fv = -1 := by
      rcases hnn with h | h
      · exact .inr h
      · left
        have : (0 : Int) ≤ (s.hdr.samples : Int) * fv := Int.mul_nonneg (Int.natCast_nonneg _) h
        omega
    by_cases hf1 : fv = -1
    · simp [hf1, infoOf, Option.getD]
      cases s.tag.isInfo <;> cases hqq : s.tag.quality <;> simp [optVal]
    · have hneg' : ¬ ((s.hdr.samples : Int) * fv < 0) := by rcases hneg with h | h; exact h; exact absurd h hf1
      by_cases hb1 : bv ≠ -1 ∧ (s.hdr.samples : Int) * fv > 0
      · simp [hf1, hb1, hneg', infoOf, Option.getD]
        cases s.tag.isInfo <;> cases hqq : s.tag.quality <;> simp [optVal]
      · simp [hf1, hb1, hneg', infoOf, Option.getD]
        cases s.tag.isInfo <;> cases hqq : s.tag.quality <;> simp [optVal]
  cases hfr : s.tag.frames with
  | none =>
    have := key (-1) (optVal s.tag.bytes) (by simp [hfr, optVal]) rfl (.inl rfl)
    rw [this]
    simp [XingStream.expected, headerInfo, hfr, hE]
  | some n =>
    cases hby : s.tag.bytes with
    | none =>
      have := key (Int.ofNat n) (-1) (by simp [hfr, optVal]) (by simp [hby, optVal]) (.inr (Int.natCast_nonneg _))
      rw [this]
      have hne : ¬ ((n : Int) = -1) := by omega
      simp [XingStream.expected, headerInfo, hfr, hby, hE, hne]
    | some b =>
      have := key (Int.ofNat n) (Int.ofNat b) (by simp [hfr, optVal]) (by simp [hby, optVal]) (.inr (Int.natCast_nonneg _))
      rw [this]
      have hne : ¬ ((n : Int) = -1) := by omega
      have hbe : ¬ ((b : Int) = -1) := by omega
      have hpos : (0 < (s.hdr.samples : Int) * (n : Int)) ↔ 0 < s.hdr.samples * n := by
        rw [← Int.natCast_mul]; exact Int.natCast_pos
      simp [XingStream.expected, headerInfo, hfr, hby, hE, hne, hbe, hpos]

theorem parse_xing (s : XingStream) (ok : s.OK) : parse s.build = .ok s.expected := by
  have h := parse_xing_at [] s ok
  simp only [List.nil_append, List.length_nil, Nat.zero_add] at h
  rw [show parse s.build = parseFrom s.build 0 from rfl, h]
  unfold XingStream.expected
  cases s.tag.frames <;> rfl

end Mutagen.Info.Mp3
