/- Proofs/Info/Aiff.lean — `AIFFInfo` on specification-built AIFF files, and on every byte string -/
import MutagenModel.Proofs.Info.Bytes
import MutagenModel.Spec.Info.Aiff
set_option linter.unusedVariables false
set_option linter.unusedSimpArgs false
namespace Mutagen.Info.Aiff
open Mutagen Mutagen.Iff Mutagen.Info Mutagen.Spec Mutagen.Spec.Aiff

theorem ofLE_append (a b : Bytes) : ofLE (a ++ b) = ofLE a + 256 ^ a.length * ofLE b := by
  induction a with
  | nil => simp [ofLE]
  | cons x r ih => simp only [List.cons_append, ofLE, ih, List.length_cons, Nat.pow_succ]; rw [Nat.mul_add]; ac_rfl

theorem ofBE_append (a b : Bytes) : ofBE (a ++ b) = ofBE a * 256 ^ b.length + ofBE b := by
  simp only [ofBE, List.reverse_append, ofLE_append, List.length_reverse]; rw [Nat.mul_comm, Nat.add_comm]

theorem length_ext80 (num shift : Nat) : (ext80 num shift).length = 10 := by
  unfold ext80; split <;> simp

theorem sh53_big (m : Nat) (h : 2 ^ 63 ≤ m) : sh53 m = 11 := by
  unfold sh53
  repeat (rw [if_neg (by omega)])

theorem round53_exact (m : Nat) (h : 2 ^ 63 ≤ m) (hz : m % 2 ^ 11 = 0) : round53 m = m := by
  unfold round53
  simp only [sh53_big m h, hz]
  rw [if_neg (by omega)]
  omega

/-- the mantissa of a normalised encoding lies in [2^63, 2^64) -/
theorem mant_range (num : Nat) (h1 : 1 ≤ num) (h2 : num < 2 ^ 64) :
    Nat.log2 num ≤ 63 ∧ 2 ^ 63 ≤ num * 2 ^ (63 - Nat.log2 num) ∧ num * 2 ^ (63 - Nat.log2 num) < 2 ^ 64 := by
  have hne : num ≠ 0 := by omega
  have he : Nat.log2 num < 64 := (Nat.log2_lt hne).2 h2
  have hlo := Nat.log2_self_le hne
  have hhi := @Nat.lt_log2_self num
  have hp : 2 ^ Nat.log2 num * 2 ^ (63 - Nat.log2 num) = 2 ^ 63 := by
    rw [← Nat.pow_add]; congr 1; omega
  have hp2 : 2 ^ (Nat.log2 num + 1) * 2 ^ (63 - Nat.log2 num) = 2 ^ 64 := by
    rw [← Nat.pow_add]; congr 1; omega
  have hpos : 0 < 2 ^ (63 - Nat.log2 num) := Nat.pow_pos (by decide)
  refine ⟨by omega, ?_, ?_⟩
  · rw [← hp]; exact Nat.mul_le_mul_right _ hlo
  · rw [← hp2]; exact Nat.mul_lt_mul_of_pos_right hhi hpos

theorem readFloatInt_ext80 (num : Nat) (h1 : 1 ≤ num) (h2 : num < 2 ^ 64)
    (hz : (num * 2 ^ (63 - Nat.log2 num)) % 2 ^ 11 = 0) :
    readFloatInt (ext80 num 0) = some (num : Int) := by
  obtain ⟨he, hlo, hhi⟩ := mant_range num h1 h2
  have hne : ¬ num = 0 := by omega
  have hb : ext80 num 0 = toBE 2 (16383 + Nat.log2 num) ++ toBE 8 (num * 2 ^ (63 - Nat.log2 num)) := by
    simp [ext80, hne]
  have r0 : readAt (ext80 num 0) 0 2 = toBE 2 (16383 + Nat.log2 num) := by
    rw [hb]; simp [readAt, List.take_append, take_toBE_ge]
  have r2 : readAt (ext80 num 0) 2 4 = (toBE 8 (num * 2 ^ (63 - Nat.log2 num))).take 4 := by
    rw [hb]; simp [readAt, List.drop_append, drop_toBE_ge]
  have r6 : readAt (ext80 num 0) 6 4 = (toBE 8 (num * 2 ^ (63 - Nat.log2 num))).drop 4 := by
    rw [hb]; simp [readAt, List.drop_append, drop_toBE_ge]
    apply List.take_of_length_le; simp
  have hm : ofBE ((toBE 8 (num * 2 ^ (63 - Nat.log2 num))).take 4) * 0x100000000 +
      ofBE ((toBE 8 (num * 2 ^ (63 - Nat.log2 num))).drop 4) = num * 2 ^ (63 - Nat.log2 num) := by
    have := ofBE_append ((toBE 8 (num * 2 ^ (63 - Nat.log2 num))).take 4) ((toBE 8 (num * 2 ^ (63 - Nat.log2 num))).drop 4)
    rw [List.take_append_drop, ofBE_toBE 8 _ (by omega)] at this
    simp only [List.length_drop, length_toBE] at this
    omega
  unfold readFloatInt
  simp only [r0, r2, r6, hm, ofBE_toBE 2 _ (show 16383 + Nat.log2 num < 256 ^ 2 by omega)]
  have hneg : decide (16383 + Nat.log2 num ≥ 0x8000) = false := by simp; omega
  simp only [hneg, Bool.false_eq_true, ↓reduceIte]
  rw [if_neg (by omega), if_neg (by omega), if_neg (by omega), round53_exact _ hlo hz]
  have hv : (if 16383 + Nat.log2 num ≥ 16446 then num * 2 ^ (63 - Nat.log2 num) * 2 ^ (16383 + Nat.log2 num - 16446)
      else num * 2 ^ (63 - Nat.log2 num) / 2 ^ (16446 - (16383 + Nat.log2 num))) = num := by
    split
    · have h63 : Nat.log2 num = 63 := by omega
      simp [h63]
    · have : 16446 - (16383 + Nat.log2 num) = 63 - Nat.log2 num := by omega
      rw [this]; exact Nat.mul_div_cancel _ (Nat.pow_pos (by decide))
  rw [hv]
  have hbig : ¬ num ≥ 2 ^ 1024 := by
    have : (2:Nat) ^ 64 < 2 ^ 1024 := Nat.pow_lt_pow_right (by decide) (by decide)
    exact Nat.not_le.mpr (Nat.lt_trans h2 this)
  rw [if_neg hbig]

theorem aiff_hs : hs aiff = 8 := rfl
theorem aiff_sizeW : aiff.sizeW = 4 := rfl

theorem length_commData (h : Fields) : (commData h).length = 18 + h.ext.length := by
  simp [commData, length_ext80]; omega

theorem sid_comm (x : Bytes) : sid (mkChunk (ascii "COMM") x) = idComm := by
  show (chunkId (ascii "COMM")).getD [] = idComm; decide

theorem comm_ok (h : Fields) (ok : h.OK) : (mkChunk (ascii "COMM") (commData h)).OK aiff := by
  refine mkChunk_ok aiff _ _ (by decide) (by decide) (by decide) ?_
  rw [length_commData, aiff_sizeW]; unfold Fields.OK at ok; omega

theorem ofComm_commData (h : Fields) (ok : h.OK) (ex : h.Exact) :
    ofComm (commData h) = .ok (expected h) := by
  obtain ⟨_, h1, h2, h3, h4, h5, h6, h7, _⟩ := ok
  obtain ⟨hs0, hz⟩ := ex
  have r0 : readAt (commData h) 0 2 = toBE 2 h.numChannels := by
    simp [commData, readAt, List.drop_append, List.take_append, length_toBE, drop_toBE_ge, take_toBE_ge]
  have r2 : readAt (commData h) 2 4 = toBE 4 h.numSampleFrames := by
    simp [commData, readAt, List.drop_append, List.take_append, length_toBE, drop_toBE_ge, take_toBE_ge]
  have r6 : readAt (commData h) 6 2 = toBE 2 h.sampleSize := by
    simp [commData, readAt, List.drop_append, List.take_append, length_toBE, drop_toBE_ge, take_toBE_ge]
  have r8 : readAt (commData h) 8 10 = ext80 h.rateNum h.rateShift := by
    simp [commData, readAt, List.drop_append, List.take_append, length_toBE, drop_toBE_ge, take_toBE_ge, length_ext80]
  unfold ofComm
  simp only [r0, r2, r6, r8, hs0, readFloatInt_ext80 h.rateNum h6 h7 hz,
    ofBE_toBE 2 _ (show h.numChannels < 256 ^ 2 by omega), ofBE_toBE 4 _ (show h.numSampleFrames < 256 ^ 4 by omega),
    ofBE_toBE 2 _ (show h.sampleSize < 256 ^ 2 by omega)]
  have hn : ¬ ((h.rateNum : Int) < 0) := by omega
  have hnz : (h.rateNum : Int) ≠ 0 := by omega
  have s1 : signed16 h.numChannels = (h.numChannels : Int) := by unfold signed16; rw [if_pos (by omega)]
  have s2 : signed16 h.sampleSize = (h.sampleSize : Int) := by unfold signed16; rw [if_pos (by omega)]
  simp only [hn, hnz, ↓reduceIte, s1, s2, expected, hs0, ne_eq, not_false_eq_true, Nat.pow_zero, Nat.div_one,
    Nat.mul_one, Int.toNat_natCast, LExpr.nat]

/-- what the code computes on a specification-built file -/
theorem parse_build (h : Fields) (ok : h.OK) (ex : h.Exact) (rest : Bytes) :
    parse (build h ++ rest) = .ok (expected h) := by
  have hcomm := comm_ok h ok
  have ok' := ok
  obtain ⟨hname, _, _, _, _, _, _, _, _, hoth, hnc, hsz⟩ := ok'
  have hok : ∀ x ∈ h.before ++ mkChunk (ascii "COMM") (commData h) :: h.after, x.OK aiff := by
    intro x hx
    simp only [List.mem_append, List.mem_cons] at hx
    rcases hx with hx | hx | hx
    · exact hoth x (by simp [hx])
    · subst hx; exact hcomm
    · exact hoth x (by simp [hx])
  have hlen : (renderChunks aiff (h.before ++ mkChunk (ascii "COMM") (commData h) :: h.after)).length =
      (renderChunks aiff h.before).length + ((8 + (18 + h.ext.length) + (18 + h.ext.length) % 2) + (renderChunks aiff h.after).length) := by
    simp only [renderChunks_append, renderChunks, List.length_append,
      length_render_mk aiff _ _ (show (ascii "COMM").length = 4 by decide), aiff_hs, length_commData]
  obtain ⟨l1, l2, l3, l4⟩ := located aiff wf_aiff (by decide) h.form hname h.before (mkChunk (ascii "COMM") (commData h)) h.after rest
    [idComm] hok (by rw [hlen, hname.1, aiff_sizeW]; omega)
    (by
      intro x hx
      have := hnc x hx
      simp only [List.contains_cons, List.contains_nil, Bool.or_false, beq_eq_false_iff_ne, ne_eq]
      exact this)
    (by rw [sid_comm]; decide)
  unfold parse build chunks
  simp only [l1, l2, l3, l4]
  have hnl : ¬ (commData h).length < 18 := by
    rw [length_commData]; omega
  simp only [mkChunk, hnl, ↓reduceIte]
  exact ofComm_commData h ok ex

/-- every exception of `AIFFInfo(fileobj)` is a MutagenError -/
theorem parse_clean (f : Bytes) (e : PyErr) (h : parse f = .error e) : e = .mutagen := by
  unfold parse at h
  split at h
  · rename_i e' he; cases h; exact parseRoot_clean aiff f _ he
  · split at h
    · rename_i e' he; cases h; exact walk_clean aiff f _ _ he
    · split at h
      · cases h; rfl
      · simp only [] at h
        split at h
        · cases h; rfl
        · unfold ofComm at h
          simp only [] at h
          split at h
          · cases h; rfl
          · split at h
            · cases h; rfl
            · cases h

/-- rates below 2^53 are exact -/
theorem exact_of_small (h : Fields) (hs0 : h.rateShift = 0) (h1 : 1 ≤ h.rateNum) (h53 : h.rateNum < 2 ^ 53) : h.Exact := by
  refine ⟨hs0, ?_⟩
  have hne : h.rateNum ≠ 0 := by omega
  have he : Nat.log2 h.rateNum < 53 := (Nat.log2_lt hne).2 h53
  have : 63 - Nat.log2 h.rateNum = (52 - Nat.log2 h.rateNum) + 11 := by omega
  rw [this, Nat.pow_add, ← Nat.mul_assoc]
  exact Nat.mul_mod_left _ _

end Mutagen.Info.Aiff
