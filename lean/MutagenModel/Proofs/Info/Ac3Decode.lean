/- Proofs/Info/Ac3Decode.lean — the AC-3 / E-AC-3 header built from the specification, read back field by field -/
import MutagenModel.Proofs.Info.BitCursor
import MutagenModel.Proofs.Info.Ac3
set_option linter.unusedVariables false
set_option linter.unusedSimpArgs false
namespace Mutagen.Info.Ac3
open Mutagen Mutagen.Info Mutagen.Info.Aac Mutagen.Spec.Ac3

theorem At_pos_eq {f : Bytes} {s p p' : Nat} {rest : List Bool} (h : At f ⟨s, p⟩ rest) (hp : p = p') : At f ⟨s, p'⟩ rest :=
  hp ▸ h

theorem optSkip_at (f : Bytes) (r : R) (w : Nat) (o : Option Nat) (rest : List Bool) (ho : optOK w o) (hw : 0 < w)
    (h : At f r (optBits w o ++ rest)) :
    optSkip f r w = some ⟨r.start, r.pos + (optBits w o).length⟩ ∧ At f ⟨r.start, r.pos + (optBits w o).length⟩ rest := by
  cases o with
  | none =>
    simp only [optBits] at h ⊢
    obtain ⟨e1, a1⟩ := bits_at f r 1 0 rest h (by decide) (by decide)
    simp only [optSkip, e1, length_natToBits]
    exact ⟨by simp, a1⟩
  | some v =>
    simp only [optBits, List.append_assoc] at h ⊢
    obtain ⟨e1, a1⟩ := bits_at f r 1 1 _ h (by decide) (by decide)
    obtain ⟨e2, a2⟩ := skip_at' f _ w (natToBits w v) rest a1 (by simp)
    simp only [optSkip, e1, List.length_append, length_natToBits]
    simp only [Nat.add_assoc] at e2 a2
    exact ⟨by simpa using e2, a2⟩

theorem group_at (f : Bytes) (r : R) (g : Group) (rest : List Bool) (hg : g.OK) (h : At f r (g.bits ++ rest)) :
    skipGroupNormal f r = some ⟨r.start, r.pos + g.bits.length⟩ ∧ At f ⟨r.start, r.pos + g.bits.length⟩ rest := by
  obtain ⟨hd, hc, hl, ha⟩ := hg
  simp only [Group.bits, List.append_assoc] at h
  obtain ⟨e1, a1⟩ := skip_at' f r 5 (natToBits 5 g.dialnorm) _ h (by simp)
  obtain ⟨e2, a2⟩ := optSkip_at f _ 8 g.compr _ hc (by decide) a1
  obtain ⟨e3, a3⟩ := optSkip_at f _ 8 g.langcod _ hl (by decide) a2
  obtain ⟨e4, a4⟩ := optSkip_at f _ 7 g.audprod _ ha (by decide) a3
  simp only [skipGroupNormal, bind, Option.bind, e1, e2, e3, e4]
  simp only [Group.bits, List.length_append, length_natToBits, Nat.add_assoc] at a4 ⊢
  exact ⟨trivial, a4⟩

theorem addbsi_at (f : Bytes) (r : R) (o : Option Bytes) (rest : List Bool) (ho : addbsiOK o)
    (h : At f r (addbsiBits o ++ rest)) :
    skipAddbsi f r = some ⟨r.start, r.pos + (addbsiBits o).length⟩ ∧ At f ⟨r.start, r.pos + (addbsiBits o).length⟩ rest := by
  cases o with
  | none =>
    simp only [addbsiBits] at h ⊢
    obtain ⟨e1, a1⟩ := bits_at f r 1 0 rest h (by decide) (by decide)
    simp only [skipAddbsi, e1, length_natToBits]
    exact ⟨by simp, a1⟩
  | some b =>
    obtain ⟨hb1, hb2⟩ := ho
    simp only [addbsiBits, List.append_assoc] at h ⊢
    obtain ⟨e1, a1⟩ := bits_at f r 1 1 _ h (by decide) (by decide)
    obtain ⟨e2, a2⟩ := bits_at f _ 6 (b.length - 1) _ a1 (by decide) (by omega)
    obtain ⟨e3, a3⟩ := skip_at' f _ ((b.length - 1 + 1) * 8) (bytesToBits b) rest a2 (by rw [length_bytesToBits]; omega)
    simp only [skipAddbsi, e1, e2, e3, List.length_append, length_natToBits, length_bytesToBits]
    have hp : r.pos + 1 + 6 + (b.length - 1 + 1) * 8 = r.pos + (1 + (6 + 8 * b.length)) := by omega
    simp only [hp] at a3 ⊢
    exact ⟨by simp, a3⟩


theorem skipUnusedNormal_at (f : Bytes) (r : R) (h : Ac3) (ok : h.OK) (htc : h.timecod1 = none) (rest : List Bool)
    (ha : At f r (h.tailBits ++ rest)) :
    skipUnusedNormal f r h.acmod = some ⟨r.start, r.pos + h.tailBits.length⟩ ∧
      At f ⟨r.start, r.pos + h.tailBits.length⟩ rest := by
  obtain ⟨_, _, _, _, _, _, _, _, _, _, hg1, hg2, hcb, hob, _, htc2, hab⟩ := ok
  simp only [Ac3.tailBits, htc, optBits, List.append_assoc] at ha ⊢
  obtain ⟨e1, a1⟩ := group_at f r h.g1 _ hg1 ha
  -- second programme
  have step2 : ∃ r2 : R, condGroup f ⟨r.start, r.pos + h.g1.bits.length⟩ (decide (h.acmod = 0)) = some r2 ∧
      r2 = ⟨r.start, r.pos + h.g1.bits.length + (if h.acmod = 0 then h.g2.bits else []).length⟩ ∧
      At f r2 (natToBits 1 h.copyrightb ++ (natToBits 1 h.origbs ++ (natToBits 1 0 ++ (optBits 14 h.timecod2 ++ (addbsiBits h.addbsi ++ rest))))) := by
    by_cases h0 : h.acmod = 0
    · simp only [h0, if_true, condGroup, decide_true] at a1 ⊢
      obtain ⟨e2, a2⟩ := group_at f _ h.g2 _ hg2 a1
      exact ⟨_, e2, rfl, a2⟩
    · simp only [h0, if_false, List.nil_append, List.length_nil, Nat.add_zero, condGroup, decide_false, Bool.false_eq_true] at a1 ⊢
      exact ⟨_, rfl, rfl, a1⟩
  obtain ⟨r2, e2, hr2, a2⟩ := step2
  have a2' : At f r2 ((natToBits 1 h.copyrightb ++ natToBits 1 h.origbs) ++ (natToBits 1 0 ++ (optBits 14 h.timecod2 ++ (addbsiBits h.addbsi ++ rest)))) := by
    simpa using a2
  obtain ⟨e3, a3⟩ := skip_at' f r2 2 _ _ a2' (by simp)
  obtain ⟨e4, a4⟩ := bits_at f _ 1 0 _ a3 (by decide) (by decide)
  cases htc2v : h.timecod2 with
  | none =>
    simp only [htc2v, optBits] at a4 ⊢
    obtain ⟨e5, a5⟩ := bits_at f _ 1 0 _ a4 (by decide) (by decide)
    obtain ⟨e6, a6⟩ := addbsi_at f _ h.addbsi rest hab a5
    subst hr2
    simp only [skipUnusedNormal, bind, Option.bind, e1, e2, e3, e4, e5, e6, condSkip, ne_eq, not_true_eq_false, decide_false,
      Bool.false_eq_true, if_false]
    simp only [List.length_append, length_natToBits, Nat.add_assoc] at a6 ⊢
    exact ⟨by congr 2; omega, At_pos_eq a6 (by omega)⟩
  | some v =>
    rw [htc2v] at htc2
    simp only [htc2v, optBits, List.append_assoc] at a4 ⊢
    obtain ⟨e5, a5⟩ := bits_at f _ 1 1 _ a4 (by decide) (by decide)
    obtain ⟨e6, a6⟩ := skip_at' f _ 14 (natToBits 14 v) _ a5 (by simp)
    obtain ⟨e7, a7⟩ := addbsi_at f _ h.addbsi rest hab a6
    subst hr2
    simp only [skipUnusedNormal, bind, Option.bind, e1, e2, e3, e4, e5, condSkip, ne_eq, not_true_eq_false, decide_false,
      Bool.false_eq_true, if_false, Nat.one_ne_zero, not_false_eq_true, decide_true, if_true, e6, e7]
    simp only [List.length_append, length_natToBits, Nat.add_assoc] at a7 ⊢
    exact ⟨by congr 2; omega, At_pos_eq a7 (by omega)⟩


theorem condSkip_at (f : Bytes) (r : R) (c : Prop) [Decidable c] (n : Nat) (bs rest : List Bool) (hn : bs.length = n)
    (h : At f r ((if c then bs else []) ++ rest)) :
    condSkip f r (decide c) n = some ⟨r.start, r.pos + (if c then bs else []).length⟩ ∧
      At f ⟨r.start, r.pos + (if c then bs else []).length⟩ rest := by
  by_cases hc : c
  · simp only [hc, if_true, condSkip, decide_true] at h ⊢
    subst hn
    exact skip_at f r bs rest h
  · simp only [hc, if_false, condSkip, decide_false, Bool.false_eq_true, List.nil_append, List.length_nil, Nat.add_zero] at h ⊢
    exact ⟨trivial, h⟩

theorem normalFields_at (f : Bytes) (r : R) (h : Ac3) (ok : h.OK) (rest : List Bool) (ha : At f r (h.fieldBits ++ rest)) :
    normalFields f r = some (h.fscod, h.frmsizecod, h.acmod, h.lfeon, ⟨r.start, r.pos + h.fieldBits.length⟩) ∧
      At f ⟨r.start, r.pos + h.fieldBits.length⟩ rest := by
  obtain ⟨hcrc, hfs, hfz, hbsid, hbm, hac, hcm, hsm, hds, hlf, _⟩ := ok
  simp only [Ac3.fieldBits, List.append_assoc] at ha
  obtain ⟨e1, a1⟩ := skip_at' f r 16 (natToBits 16 h.crc1) _ ha (by simp)
  obtain ⟨e2, a2⟩ := bits_at f _ 2 h.fscod _ a1 (by decide) (by omega)
  obtain ⟨e3, a3⟩ := bits_at f _ 6 h.frmsizecod _ a2 (by decide) (by omega)
  obtain ⟨e4, a4⟩ := skip_at' f _ 5 (natToBits 5 h.bsid) _ a3 (by simp)
  obtain ⟨e5, a5⟩ := skip_at' f _ 3 (natToBits 3 h.bsmod) _ a4 (by simp)
  obtain ⟨e6, a6⟩ := bits_at f _ 3 h.acmod _ a5 (by decide) hac
  obtain ⟨e7, a7⟩ := condSkip_at f _ (h.acmod % 2 = 1 ∧ h.acmod ≠ 1) 2 (natToBits 2 h.cmixlev) _ (by simp) a6
  obtain ⟨e8, a8⟩ := condSkip_at f _ (h.acmod / 4 % 2 = 1) 2 (natToBits 2 h.surmixlev) _ (by simp) a7
  obtain ⟨e9, a9⟩ := condSkip_at f _ (h.acmod = 2) 2 (natToBits 2 h.dsurmod) _ (by simp) a8
  obtain ⟨e10, a10⟩ := bits_at f _ 1 h.lfeon _ a9 (by decide) (by omega)
  simp only [normalFields, bind, Option.bind, pure, e1, e2, e3, e4, e5, e6, e7, e8, e9, e10]
  have hl : h.fieldBits.length = 16 + 2 + 6 + 5 + 3 + 3 + (if h.acmod % 2 = 1 ∧ h.acmod ≠ 1 then natToBits 2 h.cmixlev else []).length +
      (if h.acmod / 4 % 2 = 1 then natToBits 2 h.surmixlev else []).length + (if h.acmod = 2 then natToBits 2 h.dsurmod else []).length + 1 := by
    simp only [Ac3.fieldBits, List.length_append, length_natToBits]; omega
  rw [hl]
  dsimp only at a10 ⊢
  exact ⟨by congr 6; omega, At_pos_eq a10 (by omega)⟩


theorem byte_bitsAt (f : Bytes) (k : Nat) (hk : k < f.length) : ofLE (readAt f k 1) = bitsAt f (8 * k) 8 := by
  obtain ⟨b, hb⟩ : ∃ b, readAt f k 1 = [b] := by
    have hl : (readAt f k 1).length = 1 := length_readAt_of_le _ _ _ (by omega)
    match hr : readAt f k 1, hl with
    | [b], _ => exact ⟨b, rfl⟩
  unfold bitsAt
  rw [show 8 * k / 8 = k by omega, show (8 * k % 8 + 8 + 7) / 8 = 1 by omega, show 8 * k % 8 = 0 by omega, hb]
  simp only [bytesToBits, List.flatMap_cons, List.flatMap_nil, List.append_nil, List.drop_zero, ofLE]
  rw [List.take_of_length_le (by simp), bitsToNat_natToBits 8 _ b.toNat_lt]
  omega

theorem pad_dvd (bits : List Bool) : 8 ∣ (bits ++ padBits bits).length := by
  simp only [List.length_append, padBits, List.length_replicate]
  omega

theorem bytesToBits_frame (bits : List Bool) (payload : Bytes) :
    bytesToBits ([0x0b, 0x77] ++ (bitsToBytes (bits ++ padBits bits) ++ payload)) =
      (natToBits 8 0x0b ++ natToBits 8 0x77) ++ (bits ++ (padBits bits ++ bytesToBits payload)) := by
  rw [bytesToBits_append, bytesToBits_append, bytesToBits_bitsToBytes _ (pad_dvd bits)]
  simp [bytesToBits]

theorem at_frame (bits : List Bool) (payload : Bytes) :
    At ([0x0b, 0x77] ++ (bitsToBytes (bits ++ padBits bits) ++ payload)) ⟨2, 0⟩ (bits ++ (padBits bits ++ bytesToBits payload)) := by
  constructor
  · rw [bytesToBits_frame, List.drop_append_of_le_length (by simp), List.drop_of_length_le (by simp), List.nil_append]
  · simp; omega

theorem length_frame (bits : List Bool) (payload : Bytes) :
    ([0x0b, 0x77] ++ (bitsToBytes (bits ++ padBits bits) ++ payload) : Bytes).length = 2 + (bits.length + 7) / 8 + payload.length := by
  simp only [List.length_append, List.length_cons, List.length_nil, length_bitsToBytes, padBits, List.length_replicate]
  omega


theorem fieldBits_len_ge (h : Ac3) : 36 ≤ h.fieldBits.length := by
  simp only [Ac3.fieldBits, List.length_append, length_natToBits]; omega

theorem parse_ac3 (h : Ac3) (ok : h.OK) (htc : h.timecod1 = none) : parse h.build = .ok h.expected := by
  have ok' := ok
  obtain ⟨hcrc, hfs, hfz, hbsid, hbm, hac, hcm, hsm, hds, hlf, _⟩ := ok'
  have hat := at_frame h.bits h.payload
  have hlenf := length_frame h.bits h.payload
  have hfl := fieldBits_len_ge h
  have hbl : 36 ≤ h.bits.length := by simp only [Ac3.bits, List.length_append]; omega
  generalize hf : ([0x0b, 0x77] ++ (bitsToBytes (h.bits ++ padBits h.bits) ++ h.payload) : Bytes) = f at hat hlenf
  have hbuild : h.build = f := by rw [← hf]; rfl
  have hflen : 6 ≤ f.length := by omega
  -- the fields
  have hat1 : At f ⟨2, 0⟩ (h.fieldBits ++ (h.tailBits ++ (padBits h.bits ++ bytesToBits h.payload))) := by
    simpa [Ac3.bits] using hat
  obtain ⟨eF, aF⟩ := normalFields_at f ⟨2, 0⟩ h ok _ hat1
  obtain ⟨eS, aS⟩ := skipUnusedNormal_at f _ h ok htc _ aF
  -- the bitstream id taken from byte 5
  have hbsid5 : uLE (readAt f 0 6) 5 1 / 8 = h.bsid := by
    have hat2 : At f ⟨2, 0⟩ ((natToBits 16 h.crc1 ++ (natToBits 2 h.fscod ++ natToBits 6 h.frmsizecod)) ++
        (natToBits 8 (h.bsid * 2 ^ 3 + h.bsmod) ++ (natToBits 3 h.acmod ++
          (((if h.acmod % 2 = 1 ∧ h.acmod ≠ 1 then natToBits 2 h.cmixlev else []) ++
            ((if h.acmod / 4 % 2 = 1 then natToBits 2 h.surmixlev else []) ++
              ((if h.acmod = 2 then natToBits 2 h.dsurmod else []) ++ natToBits 1 h.lfeon))) ++
            (h.tailBits ++ (padBits h.bits ++ bytesToBits h.payload)))))) := by
      rw [show (8 : Nat) = 5 + 3 from rfl, natToBits_split 5 3 h.bsid h.bsmod hbm]
      simpa [Ac3.fieldBits] using hat1
    obtain ⟨_, a1⟩ := skip_at' f ⟨2, 0⟩ 24 _ _ hat2 (by simp)
    obtain ⟨e2, _⟩ := bits_at f _ 8 (h.bsid * 2 ^ 3 + h.bsmod) _ a1 (by decide) (by omega)
    have hb : bitsAt f 40 8 = h.bsid * 2 ^ 3 + h.bsmod := by
      unfold R.bits at e2
      simp only [Nat.zero_add, Nat.reduceMul, Nat.reduceAdd] at e2
      split at e2
      · omega
      · split at e2
        · simp only [Option.some.injEq, Prod.mk.injEq] at e2; exact e2.1
        · cases e2
    rw [uLE, readAt_readAt _ _ _ _ _ (by decide), Nat.zero_add, byte_bitsAt f 5 (by omega), hb]
    omega
  have hsw : startsWith (readAt f 0 6) [0x0b, 0x77] = true := by
    simp only [startsWith, readAt_readAt _ _ _ _ _ (show 0 + ([0x0b, 0x77] : Bytes).length ≤ 6 by decide)]
    rw [← hf]; rfl
  have h6 : ¬ ((readAt f 0 6).length < 6) := by rw [length_readAt_of_le _ _ _ (by omega)]; omega
  have hv := normalValues_spec h.bsid h.fscod h.frmsizecod h.acmod h.lfeon (by omega) (by omega) (by omega) hac hlf
  have hnr : ¬ (h.fscod = 3 ∨ h.frmsizecod > 37) := by omega
  rw [if_neg hnr] at hv
  rw [hbuild]
  unfold parse
  simp only [h6, if_false, hsw, not_true_eq_false, hbsid5, show ¬ (h.bsid > 16) by omega, show h.bsid ≤ 10 from hbsid, if_true,
    readNormal, eF, hv, eS, Ac3.expected, show ¬ (h.bsid > 10) by omega, decide_false]
  have hstart : ((f.length : Int) - ((2 + (0 + h.fieldBits.length + h.tailBits.length + 7) / 8 : Nat) : Int)) = (h.payload.length : Int) := by
    have : h.bits.length = h.fieldBits.length + h.tailBits.length := by simp [Ac3.bits]
    omega
  simp only [hstart]

theorem enhancedFields_at (f : Bytes) (r : R) (h : Eac3) (ok : h.OK) (rest : List Bool) (ha : At f r (h.fieldBits ++ rest)) :
    enhancedFields f r = some (h.strmtyp, h.frmsiz, h.fscod, (if h.fscod = 3 then h.fscod2 else 0), h.blocksCode, h.acmod, h.lfeon,
      ⟨r.start, r.pos + 29⟩) ∧ At f ⟨r.start, r.pos + 29⟩ rest := by
  obtain ⟨hst, hsid, hfs3, hfs, hfc, hfc2, hnb, hac, hlf, hb1, hb2, _⟩ := ok
  simp only [Eac3.fieldBits, List.append_assoc] at ha
  obtain ⟨e1, a1⟩ := bits_at f r 2 h.strmtyp _ ha (by decide) (by omega)
  obtain ⟨e2, a2⟩ := skip_at' f _ 3 (natToBits 3 h.substreamid) _ a1 (by simp)
  obtain ⟨e3, a3⟩ := bits_at f _ 11 h.frmsiz _ a2 (by decide) hfs
  obtain ⟨e4, a4⟩ := bits_at f _ 2 h.fscod _ a3 (by decide) (by omega)
  by_cases h3 : h.fscod = 3
  · simp only [h3, if_true] at a4 ⊢
    obtain ⟨e5, a5⟩ := bits_at f _ 2 h.fscod2 _ a4 (by decide) (by omega)
    obtain ⟨e6, a6⟩ := bits_at f _ 3 h.acmod _ a5 (by decide) hac
    obtain ⟨e7, a7⟩ := bits_at f _ 1 h.lfeon _ a6 (by decide) (by omega)
    obtain ⟨e8, a8⟩ := skip_at' f _ 5 (natToBits 5 h.bsid) _ a7 (by simp)
    simp only [enhancedFields, bind, Option.bind, pure, e1, e2, e3, e4, h3, condBits, decide_true, if_true, e5, ne_eq,
      not_true_eq_false, decide_false, Bool.false_eq_true, if_false, e6, e7, e8, Eac3.blocksCode]
    exact ⟨trivial, a8⟩
  · simp only [h3, if_false] at a4 ⊢
    obtain ⟨e5, a5⟩ := bits_at f _ 2 h.numblkscod _ a4 (by decide) (by omega)
    obtain ⟨e6, a6⟩ := bits_at f _ 3 h.acmod _ a5 (by decide) hac
    obtain ⟨e7, a7⟩ := bits_at f _ 1 h.lfeon _ a6 (by decide) (by omega)
    obtain ⟨e8, a8⟩ := skip_at' f _ 5 (natToBits 5 h.bsid) _ a7 (by simp)
    simp only [enhancedFields, bind, Option.bind, pure, e1, e2, e3, e4, h3, condBits, decide_false, Bool.false_eq_true, if_false,
      ne_eq, not_false_eq_true, decide_true, if_true, e5, e6, e7, e8, Eac3.blocksCode]
    exact ⟨trivial, a8⟩


theorem parse_eac3 (h : Eac3) (ok : h.OK) :
    parse h.build = .error .mutagen ∨
    ∃ len, parse h.build = .ok { channels := h.values.2.2, sampleRate := h.values.1, bitrate := h.values.2.1, length := len, eac3 := true } := by
  have ok' := ok
  obtain ⟨hst, hsid, hfs3, hfs, hfc, hfc2, hnb, hac, hlf, hb1, hb2, hdn, _⟩ := ok'
  have hat := at_frame h.bits h.payload
  have hlenf := length_frame h.bits h.payload
  have hfl : h.fieldBits.length = 29 := by
    simp only [Eac3.fieldBits, List.length_append, length_natToBits]; split <;> simp
  have htl : 5 ≤ h.tailBits.length := by simp only [Eac3.tailBits, List.length_append, length_natToBits]; omega
  have hbl : 34 ≤ h.bits.length := by simp only [Eac3.bits, List.length_append]; omega
  generalize hf : ([0x0b, 0x77] ++ (bitsToBytes (h.bits ++ padBits h.bits) ++ h.payload) : Bytes) = f at hat hlenf
  have hbuild : h.build = f := by rw [← hf]; rfl
  have hflen : 6 ≤ f.length := by omega
  have hat1 : At f ⟨2, 0⟩ (h.fieldBits ++ (h.tailBits ++ (padBits h.bits ++ bytesToBits h.payload))) := by
    simpa [Eac3.bits] using hat
  obtain ⟨eF, aF⟩ := enhancedFields_at f ⟨2, 0⟩ h ok _ hat1
  -- the bitstream id taken from byte 5: five bits of bsid, three of dialnorm
  have hbsid5 : uLE (readAt f 0 6) 5 1 / 8 = h.bsid := by
    have hsplit : natToBits 5 h.bsid ++ (natToBits 5 h.dialnorm ++ ([] : List Bool)) =
        natToBits 8 (h.bsid * 2 ^ 3 + h.dialnorm / 2 ^ 2) ++ natToBits 2 h.dialnorm := by
      rw [show (8 : Nat) = 5 + 3 from rfl, natToBits_split 5 3 h.bsid (h.dialnorm / 2 ^ 2) (by omega), List.append_nil,
        show (5 : Nat) = 3 + 2 from rfl, natToBits_add 3 2 h.dialnorm, List.append_assoc]
    have hat2 : ∃ tl, At f ⟨2, 0⟩ ((natToBits 2 h.strmtyp ++ (natToBits 3 h.substreamid ++ (natToBits 11 h.frmsiz ++ (natToBits 2 h.fscod ++
        ((if h.fscod = 3 then natToBits 2 h.fscod2 else natToBits 2 h.numblkscod) ++ (natToBits 3 h.acmod ++ natToBits 1 h.lfeon)))))) ++
        (natToBits 8 (h.bsid * 2 ^ 3 + h.dialnorm / 2 ^ 2) ++ tl)) := by
      refine ⟨natToBits 2 h.dialnorm ++ (h.tailBits.drop 5 ++ (padBits h.bits ++ bytesToBits h.payload)), ?_⟩
      have ht : h.tailBits = natToBits 5 h.dialnorm ++ h.tailBits.drop 5 := by
        simp only [Eac3.tailBits]
        rw [List.drop_append_of_le_length (by simp), List.drop_of_length_le (by simp), List.nil_append]
      have hs2 := hsplit
      simp only [List.append_nil] at hs2
      rw [ht] at hat1
      simp only [Eac3.fieldBits, List.append_assoc] at hat1 ⊢
      rw [← List.append_assoc (natToBits 8 _), ← hs2]
      simpa [List.append_assoc] using hat1
    obtain ⟨tl, hat2⟩ := hat2
    obtain ⟨_, a1⟩ := skip_at' f ⟨2, 0⟩ 24 _ _ hat2 (by simp only [List.length_append, length_natToBits]; split <;> simp)
    obtain ⟨e2, _⟩ := bits_at f _ 8 (h.bsid * 2 ^ 3 + h.dialnorm / 2 ^ 2) _ a1 (by decide) (by omega)
    have hb : bitsAt f 40 8 = h.bsid * 2 ^ 3 + h.dialnorm / 2 ^ 2 := by
      unfold R.bits at e2
      simp only [Nat.zero_add, Nat.reduceMul, Nat.reduceAdd] at e2
      split at e2
      · omega
      · split at e2
        · simp only [Option.some.injEq, Prod.mk.injEq] at e2; exact e2.1
        · cases e2
    rw [uLE, readAt_readAt _ _ _ _ _ (by decide), Nat.zero_add, byte_bitsAt f 5 (by omega), hb]
    omega
  have hsw : startsWith (readAt f 0 6) [0x0b, 0x77] = true := by
    simp only [startsWith, readAt_readAt _ _ _ _ _ (show 0 + ([0x0b, 0x77] : Bytes).length ≤ 6 by decide)]
    rw [← hf]; rfl
  have h6 : ¬ ((readAt f 0 6).length < 6) := by rw [length_readAt_of_le _ _ _ (by omega)]; omega
  have hnb' : h.blocksCode < 4 := by unfold Eac3.blocksCode; split <;> omega
  have hv := enhancedValues_spec h.strmtyp h.frmsiz h.fscod (if h.fscod = 3 then h.fscod2 else 0) h.blocksCode h.acmod h.lfeon
    (by omega) hfs hfc (by split <;> omega) hnb' hac hlf
  have hnr : ¬ (h.strmtyp = 3 ∨ (h.frmsiz + 1) * 2 < 7 ∨ (h.fscod = 3 ∧ (if h.fscod = 3 then h.fscod2 else 0) = 3)) := by
    intro hc
    rcases hc with hc | hc | ⟨hc1, hc2⟩
    · omega
    · omega
    · rw [if_pos hc1] at hc2; omega
  rw [if_neg hnr] at hv
  have hvals : eac3Values h.frmsiz h.fscod (if h.fscod = 3 then h.fscod2 else 0) h.blocksCode h.acmod h.lfeon = h.values := by
    unfold Eac3.values eac3Values eac3Rate
    by_cases h3 : h.fscod = 3 <;> simp [h3]
  rw [hvals] at hv
  rw [hbuild]
  unfold parse
  simp only [h6, if_false, hsw, not_true_eq_false, hbsid5, show ¬ (h.bsid > 16) by omega, show ¬ (h.bsid ≤ 10) by omega,
    readEnhanced, eF, hv, show h.bsid > 10 by omega, decide_true]
  cases hs : skipUnusedEnhanced f ⟨2, 0 + 29⟩ h.strmtyp h.acmod h.fscod h.blocksCode with
  | none => left; simp [hs]
  | some r' => right; simp [hs]


end Mutagen.Info.Ac3
