/- Proofs/Info/Eac3Decode.lean — the E-AC-3 bsi() behind the bitstream id read through mutagen's skipper; full decode on the headers where the skipper is the standard's -/
import MutagenModel.Proofs.Info.Ac3Decode
set_option linter.unusedVariables false
set_option linter.unusedSimpArgs false
namespace Mutagen.Info.Ac3
open Mutagen Mutagen.Info Mutagen.Info.Aac Mutagen.Spec.Ac3

theorem condOptSkip_at (f : Bytes) (r : R) (c : Prop) [Decidable c] (w : Nat) (o : Option Nat) (rest : List Bool) (ho : optOK w o)
    (hw : 0 < w) (h : At f r ((if c then optBits w o else []) ++ rest)) :
    condOptSkip f r (decide c) w = some ⟨r.start, r.pos + (if c then optBits w o else []).length⟩ ∧
      At f ⟨r.start, r.pos + (if c then optBits w o else []).length⟩ rest := by
  by_cases hc : c
  · simp only [hc, if_true, condOptSkip, decide_true] at h ⊢
    exact optSkip_at f r w o rest ho hw h
  · simp only [hc, if_false, condOptSkip, decide_false, Bool.false_eq_true, List.nil_append, List.length_nil, Nat.add_zero] at h ⊢
    exact ⟨trivial, h⟩

theorem dialnormCompr_at (f : Bytes) (r : R) (dn : Nat) (o : Option Nat) (rest : List Bool) (ho : optOK 8 o)
    (h : At f r ((natToBits 5 dn ++ optBits 8 o) ++ rest)) :
    skipDialnormCompr f r = some ⟨r.start, r.pos + (natToBits 5 dn ++ optBits 8 o).length⟩ ∧
      At f ⟨r.start, r.pos + (natToBits 5 dn ++ optBits 8 o).length⟩ rest := by
  rw [List.append_assoc] at h
  obtain ⟨e1, a1⟩ := skip_at' f r 5 (natToBits 5 dn) _ h (by simp)
  obtain ⟨e2, a2⟩ := optSkip_at f _ 8 o rest ho (by decide) a1
  dsimp only at e2 a2
  simp only [skipDialnormCompr, e1, e2, List.length_append, length_natToBits]
  exact ⟨by congr 2; omega, At_pos_eq a2 (by omega)⟩

theorem condDialnormCompr_at (f : Bytes) (r : R) (c : Prop) [Decidable c] (dn : Nat) (o : Option Nat) (rest : List Bool) (ho : optOK 8 o)
    (h : At f r ((if c then natToBits 5 dn ++ optBits 8 o else []) ++ rest)) :
    condDialnormCompr f r (decide c) = some ⟨r.start, r.pos + (if c then natToBits 5 dn ++ optBits 8 o else []).length⟩ ∧
      At f ⟨r.start, r.pos + (if c then natToBits 5 dn ++ optBits 8 o else []).length⟩ rest := by
  by_cases hc : c
  · simp only [hc, if_true, condDialnormCompr, decide_true] at h ⊢
    exact dialnormCompr_at f r dn o rest ho h
  · simp only [hc, if_false, condDialnormCompr, decide_false, Bool.false_eq_true, List.nil_append, List.length_nil, Nat.add_zero] at h ⊢
    exact ⟨trivial, h⟩

theorem infoBody_at (f : Bytes) (r : R) (i : InfoMd) (acmod fscod : Nat) (rest : List Bool) (ok : i.OK)
    (h : At f r (i.bits acmod fscod ++ rest)) :
    skipInfoBody f r acmod fscod = some ⟨r.start, r.pos + (i.bits acmod fscod).length⟩ ∧
      At f ⟨r.start, r.pos + (i.bits acmod fscod).length⟩ rest := by
  obtain ⟨hb, hc, ho, hd4, hdx, ha1, ha2, hs⟩ := ok
  simp only [InfoMd.bits, List.append_assoc] at h
  have h' : At f r ((natToBits 3 i.bsmod ++ (natToBits 1 i.copyrightb ++ natToBits 1 i.origbs)) ++
      ((if acmod = 2 then natToBits 4 i.dsur4 else []) ++ ((if acmod ≥ 6 then natToBits 2 i.dsurex else []) ++
      (optBits 8 i.audprod ++ ((if acmod = 0 then optBits 8 i.audprod2 else []) ++
      ((if fscod < 3 then natToBits 1 i.sourcefscod else []) ++ rest)))))) := by
    simpa [List.append_assoc] using h
  obtain ⟨e1, a1⟩ := skip_at' f r 5 _ _ h' (by simp)
  obtain ⟨e2, a2⟩ := condSkip_at f _ (acmod = 2) 4 (natToBits 4 i.dsur4) _ (by simp) a1
  -- `elif`: the second condition of the code is `acmod ≠ 2 ∧ acmod ≥ 6`, the same as `acmod ≥ 6`
  have hcond : (if acmod ≥ 6 then natToBits 2 i.dsurex else []) = (if acmod ≠ 2 ∧ acmod ≥ 6 then natToBits 2 i.dsurex else []) := by
    by_cases h6 : acmod ≥ 6
    · have : acmod ≠ 2 ∧ acmod ≥ 6 := ⟨by omega, h6⟩
      simp [h6, this]
    · have : ¬ (acmod ≠ 2 ∧ acmod ≥ 6) := fun hh => h6 hh.2
      simp [h6, this]
  rw [hcond] at a2
  obtain ⟨e3, a3⟩ := condSkip_at f _ (acmod ≠ 2 ∧ acmod ≥ 6) 2 (natToBits 2 i.dsurex) _ (by simp) a2
  obtain ⟨e4, a4⟩ := optSkip_at f _ 8 i.audprod _ ha1 (by decide) a3
  obtain ⟨e5, a5⟩ := condOptSkip_at f _ (acmod = 0) 8 i.audprod2 _ ha2 (by decide) a4
  obtain ⟨e6, a6⟩ := condSkip_at f _ (fscod < 3) 1 (natToBits 1 i.sourcefscod) _ (by simp) a5
  dsimp only at e2 e3 e4 e5 e6 a6
  simp only [skipInfoBody, bind, Option.bind, e1, e2, e3, e4, e5, e6]
  have hlen : (i.bits acmod fscod).length = 5 + (if acmod = 2 then natToBits 4 i.dsur4 else []).length +
      (if acmod ≠ 2 ∧ acmod ≥ 6 then natToBits 2 i.dsurex else []).length + (optBits 8 i.audprod).length +
      (if acmod = 0 then optBits 8 i.audprod2 else []).length + (if fscod < 3 then natToBits 1 i.sourcefscod else []).length := by
    simp only [InfoMd.bits, List.length_append, length_natToBits, hcond]; omega
  rw [hlen]
  exact ⟨by congr 2; omega, At_pos_eq a6 (by omega)⟩


theorem infoEnhanced_at (f : Bytes) (r : R) (o : Option InfoMd) (acmod fscod : Nat) (rest : List Bool) (ok : ∀ i, o = some i → i.OK)
    (h : At f r (infoBits acmod fscod o ++ rest)) :
    skipInfoEnhanced f r acmod fscod = some ⟨r.start, r.pos + (infoBits acmod fscod o).length⟩ ∧
      At f ⟨r.start, r.pos + (infoBits acmod fscod o).length⟩ rest := by
  cases o with
  | none =>
    simp only [infoBits] at h ⊢
    obtain ⟨e1, a1⟩ := bits_at f r 1 0 rest h (by decide) (by decide)
    simp only [skipInfoEnhanced, e1, length_natToBits]
    exact ⟨by simp, a1⟩
  | some i =>
    simp only [infoBits, List.append_assoc] at h ⊢
    obtain ⟨e1, a1⟩ := bits_at f r 1 1 _ h (by decide) (by decide)
    obtain ⟨e2, a2⟩ := infoBody_at f _ i acmod fscod rest (ok i rfl) a1
    dsimp only at e2 a2
    simp only [skipInfoEnhanced, e1, ne_eq, Nat.one_ne_zero, not_false_eq_true, if_true, e2, List.length_append, length_natToBits]
    exact ⟨by congr 2; omega, At_pos_eq a2 (by omega)⟩

/-- the headers for which mutagen's skipping of convsync / blkid / frmsizecod is the standard's -/
def SkipAgrees (h : Eac3) : Prop := h.strmtyp = 1 ∨ (h.strmtyp = 2 ∧ h.blocksCode ≠ 3)

instance (h : Eac3) : Decidable (SkipAgrees h) := by unfold SkipAgrees; infer_instance

theorem skipUnusedEnhanced_at (f : Bytes) (r : R) (h : Eac3) (ok : h.OK) (hyp : SkipAgrees h) (rest : List Bool)
    (ha : At f r (h.tailBits ++ rest)) :
    skipUnusedEnhanced f r h.strmtyp h.acmod h.fscod h.blocksCode = some ⟨r.start, r.pos + h.tailBits.length⟩ ∧
      At f ⟨r.start, r.pos + h.tailBits.length⟩ rest := by
  obtain ⟨hst, hsid, hfs3, hfs, hfc, hfc2, hnb, hac, hlf, hb1, hb2, hdn, hcompr, hdn2, hcompr2, hchan, hinfo, hconv, hblk, hfsc, hadd⟩ := ok
  -- under the hypothesis there is no convsync, and the blkid group is an optional 6-bit field
  have hconvs : (if h.strmtyp = 0 ∧ h.blocksCode ≠ 3 then natToBits 1 h.convsync else []) = ([] : List Bool) := by
    have : ¬ (h.strmtyp = 0 ∧ h.blocksCode ≠ 3) := by unfold SkipAgrees at hyp; omega
    simp [this]
  have hblkid : (if h.strmtyp = 2 then (if h.blocksCode = 3 then natToBits 6 h.frmsizecod
        else natToBits 1 h.blkid ++ (if h.blkid = 1 then natToBits 6 h.frmsizecod else [])) else []) =
      (if h.strmtyp = 2 ∧ h.blocksCode ≠ 3 then optBits 6 (if h.blkid = 1 then some h.frmsizecod else none) else []) := by
    unfold SkipAgrees at hyp
    by_cases h2 : h.strmtyp = 2
    · have hb3 : h.blocksCode ≠ 3 := by omega
      have hc : h.strmtyp = 2 ∧ h.blocksCode ≠ 3 := ⟨h2, hb3⟩
      have hb3' : ¬ (h.blocksCode = 3) := hb3
      rw [if_pos h2, if_neg hb3', if_pos hc]
      by_cases hb : h.blkid = 1
      · simp [hb, optBits]
      · have : h.blkid = 0 := by omega
        simp [this, optBits]
    · have hc : ¬ (h.strmtyp = 2 ∧ h.blocksCode ≠ 3) := fun hh => h2 hh.1
      simp [h2, hc]
  have hmut1 : ¬ (h.strmtyp = 0 ∧ h.blocksCode = 3) := by unfold SkipAgrees at hyp; omega
  have hblkok : optOK 6 (if h.blkid = 1 then some h.frmsizecod else none) := by split <;> simp [optOK]; exact hfsc
  simp only [Eac3.tailBits, hconvs, hblkid, List.nil_append] at ha
  have ha' : At f r ((natToBits 5 h.dialnorm ++ optBits 8 h.compr) ++
      ((if h.acmod = 0 then natToBits 5 h.dialnorm2 ++ optBits 8 h.compr2 else []) ++
      ((if h.strmtyp = 1 then optBits 16 h.chanmap else []) ++ (natToBits 1 0 ++ (infoBits h.acmod h.fscod h.info ++
      ((if h.strmtyp = 2 ∧ h.blocksCode ≠ 3 then optBits 6 (if h.blkid = 1 then some h.frmsizecod else none) else []) ++
      (addbsiBits h.addbsi ++ rest))))))) := by
    simpa [List.append_assoc] using ha
  obtain ⟨e1, a1⟩ := dialnormCompr_at f r h.dialnorm h.compr _ hcompr ha'
  obtain ⟨e2, a2⟩ := condDialnormCompr_at f _ (h.acmod = 0) h.dialnorm2 h.compr2 _ hcompr2 a1
  obtain ⟨e3, a3⟩ := condOptSkip_at f _ (h.strmtyp = 1) 16 h.chanmap _ hchan (by decide) a2
  obtain ⟨e4, a4⟩ := bits_at f _ 1 0 _ a3 (by decide) (by decide)
  obtain ⟨e5, a5⟩ := infoEnhanced_at f _ h.info h.acmod h.fscod _ hinfo a4
  obtain ⟨e6, a6⟩ := condOptSkip_at f _ (h.strmtyp = 2 ∧ h.blocksCode ≠ 3) 6 _ _ hblkok (by decide) a5
  obtain ⟨e7, a7⟩ := addbsi_at f _ h.addbsi rest hadd a6
  dsimp only at e2 e3 e4 e5 e6 e7 a7
  simp only [skipUnusedEnhanced, skipAfterMix, bind, Option.bind, e1, e2, e3, e4, ne_eq, not_true_eq_false, if_false, e5, condSkip, hmut1,
    decide_false, Bool.false_eq_true, e6, e7]
  have hlen : h.tailBits.length = (natToBits 5 h.dialnorm ++ optBits 8 h.compr).length +
      (if h.acmod = 0 then natToBits 5 h.dialnorm2 ++ optBits 8 h.compr2 else []).length +
      (if h.strmtyp = 1 then optBits 16 h.chanmap else []).length + 1 + (infoBits h.acmod h.fscod h.info).length +
      (if h.strmtyp = 2 ∧ h.blocksCode ≠ 3 then optBits 6 (if h.blkid = 1 then some h.frmsizecod else none) else []).length +
      (addbsiBits h.addbsi).length := by
    simp only [Eac3.tailBits, hconvs, hblkid, List.nil_append, List.length_append, length_natToBits]; omega
  rw [hlen]
  refine ⟨?_, At_pos_eq a7 (by simp only [ne_eq]; omega)⟩
  congr 2
  simp only [ne_eq]
  omega


theorem parse_eac3_full (h : Eac3) (ok : h.OK) (hyp : SkipAgrees h) : parse h.build = .ok h.expected := by
  have ok' := ok
  obtain ⟨hst, hsid, hfs3, hfs, hfc, hfc2, hnb, hac, hlf, hb1, hb2, hdn, _⟩ := ok'
  have hat := at_frame h.bits h.payload
  have hlenf := length_frame h.bits h.payload
  have hfl : h.fieldBits.length = 29 := by
    simp only [Eac3.fieldBits, List.length_append, length_natToBits]; split <;> simp
  have htl : 5 ≤ h.tailBits.length := by simp only [Eac3.tailBits, List.length_append, length_natToBits]; omega
  have hbl : 34 ≤ h.bits.length := by simp only [Eac3.bits, List.length_append]; omega
  generalize hf : ([0x0b, 0x77] ++ (bitsToBytes (h.bits ++ padBits h.bits) ++ h.payload) : Bytes) = f at hat hlenf
  have hbuild : h.build = f := by rw [← hf]; rfl
  have hflen : 6 ≤ f.length := by omega
  have hat1 : At f ⟨2, 0⟩ (h.fieldBits ++ (h.tailBits ++ (padBits h.bits ++ bytesToBits h.payload))) := by
    simpa [Eac3.bits] using hat
  obtain ⟨eF, aF⟩ := enhancedFields_at f ⟨2, 0⟩ h ok _ hat1
  -- the bitstream id taken from byte 5: five bits of bsid, three of dialnorm
  have hbsid5 : uLE (readAt f 0 6) 5 1 / 8 = h.bsid := by
    have hsplit : natToBits 5 h.bsid ++ (natToBits 5 h.dialnorm ++ ([] : List Bool)) =
        natToBits 8 (h.bsid * 2 ^ 3 + h.dialnorm / 2 ^ 2) ++ natToBits 2 h.dialnorm := by
      rw [show (8 : Nat) = 5 + 3 from rfl, natToBits_split 5 3 h.bsid (h.dialnorm / 2 ^ 2) (by omega), List.append_nil,
        show (5 : Nat) = 3 + 2 from rfl, natToBits_add 3 2 h.dialnorm, List.append_assoc]
    have hat2 : ∃ tl, At f ⟨2, 0⟩ ((natToBits 2 h.strmtyp ++ (natToBits 3 h.substreamid ++ (natToBits 11 h.frmsiz ++ (natToBits 2 h.fscod ++
        ((if h.fscod = 3 then natToBits 2 h.fscod2 else natToBits 2 h.numblkscod) ++ (natToBits 3 h.acmod ++ natToBits 1 h.lfeon)))))) ++
        (natToBits 8 (h.bsid * 2 ^ 3 + h.dialnorm / 2 ^ 2) ++ tl)) := by
      refine ⟨natToBits 2 h.dialnorm ++ (h.tailBits.drop 5 ++ (padBits h.bits ++ bytesToBits h.payload)), ?_⟩
      have ht : h.tailBits = natToBits 5 h.dialnorm ++ h.tailBits.drop 5 := by
        simp only [Eac3.tailBits]
        rw [List.drop_append_of_le_length (by simp), List.drop_of_length_le (by simp), List.nil_append]
      have hs2 := hsplit
      simp only [List.append_nil] at hs2
      rw [ht] at hat1
      simp only [Eac3.fieldBits, List.append_assoc] at hat1 ⊢
      rw [← List.append_assoc (natToBits 8 _), ← hs2]
      simpa [List.append_assoc] using hat1
    obtain ⟨tl, hat2⟩ := hat2
    obtain ⟨_, a1⟩ := skip_at' f ⟨2, 0⟩ 24 _ _ hat2 (by simp only [List.length_append, length_natToBits]; split <;> simp)
    obtain ⟨e2, _⟩ := bits_at f _ 8 (h.bsid * 2 ^ 3 + h.dialnorm / 2 ^ 2) _ a1 (by decide) (by omega)
    have hb : bitsAt f 40 8 = h.bsid * 2 ^ 3 + h.dialnorm / 2 ^ 2 := by
      unfold R.bits at e2
      simp only [Nat.zero_add, Nat.reduceMul, Nat.reduceAdd] at e2
      split at e2
      · omega
      · split at e2
        · simp only [Option.some.injEq, Prod.mk.injEq] at e2; exact e2.1
        · cases e2
    rw [uLE, readAt_readAt _ _ _ _ _ (by decide), Nat.zero_add, byte_bitsAt f 5 (by omega), hb]
    omega
  have hsw : startsWith (readAt f 0 6) [0x0b, 0x77] = true := by
    simp only [startsWith, readAt_readAt _ _ _ _ _ (show 0 + ([0x0b, 0x77] : Bytes).length ≤ 6 by decide)]
    rw [← hf]; rfl
  have h6 : ¬ ((readAt f 0 6).length < 6) := by rw [length_readAt_of_le _ _ _ (by omega)]; omega
  have hnb' : h.blocksCode < 4 := by unfold Eac3.blocksCode; split <;> omega
  have hv := enhancedValues_spec h.strmtyp h.frmsiz h.fscod (if h.fscod = 3 then h.fscod2 else 0) h.blocksCode h.acmod h.lfeon
    (by omega) hfs hfc (by split <;> omega) hnb' hac hlf
  have hnr : ¬ (h.strmtyp = 3 ∨ (h.frmsiz + 1) * 2 < 7 ∨ (h.fscod = 3 ∧ (if h.fscod = 3 then h.fscod2 else 0) = 3)) := by
    intro hc
    rcases hc with hc | hc | ⟨hc1, hc2⟩
    · omega
    · omega
    · rw [if_pos hc1] at hc2; omega
  rw [if_neg hnr] at hv
  have hvals : eac3Values h.frmsiz h.fscod (if h.fscod = 3 then h.fscod2 else 0) h.blocksCode h.acmod h.lfeon = h.values := by
    unfold Eac3.values eac3Values eac3Rate
    by_cases h3 : h.fscod = 3 <;> simp [h3]
  rw [hvals] at hv
  rw [hbuild]
  unfold parse
  simp only [h6, if_false, hsw, not_true_eq_false, hbsid5, show ¬ (h.bsid > 16) by omega, show ¬ (h.bsid ≤ 10) by omega,
    readEnhanced, eF, hv, show h.bsid > 10 by omega, decide_true]
  obtain ⟨eS, aS⟩ := skipUnusedEnhanced_at f _ h ok hyp _ aF
  simp only [eS, Eac3.expected]
  have hstart : ((f.length : Int) - ((2 + (0 + 29 + h.tailBits.length + 7) / 8 : Nat) : Int)) = (h.payload.length : Int) := by
    have : h.bits.length = 29 + h.tailBits.length := by simp [Eac3.bits, hfl]
    omega
  simp only [hstart]

end Mutagen.Info.Ac3
