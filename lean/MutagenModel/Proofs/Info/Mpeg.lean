/- Proofs/Info/Mpeg.lean — `MPEGInfo` on specification-built streams -/
import MutagenModel.Proofs.Info.MpegTotal
import MutagenModel.Spec.Info.Mpeg
import MutagenModel.Proofs.IntCodec
set_option linter.unusedVariables false
set_option linter.unusedSimpArgs false
namespace Mutagen.Info.Mp3
open Mutagen Mutagen.Info Mutagen.Mpeg Mutagen.Spec.Mp3 Mutagen.Spec.Mpeg

/-! ### the frame header -/

theorem bitsToBytes_cons8 (a b c d e f g h : Bool) (r : List Bool) :
    bitsToBytes (a :: b :: c :: d :: e :: f :: g :: h :: r) =
      UInt8.ofNat (bitsToNat [a, b, c, d, e, f, g, h]) :: bitsToBytes r := by
  rw [bitsToBytes]
  simp

theorem hdr_shape (h : Hdr) : ∃ y r, h.bytes = 0xFF :: y :: r ∧ isSecond y = true ∧ r.length = 2 := by
  unfold Hdr.bytes buildHeader
  have hp : packFields [(11, 0x7ff), (2, h.version), (2, h.layer), (1, h.protection), (4, h.bitrateIndex), (2, h.rateIndex),
      (1, h.padding), (1, h.priv), (2, h.mode), (6, h.rest)] =
      true :: true :: true :: true :: true :: true :: true :: true :: (true :: true :: true ::
        (natToBits 2 h.version ++ natToBits 2 h.layer ++ natToBits 1 h.protection ++ (natToBits 4 h.bitrateIndex ++ natToBits 2 h.rateIndex ++
          natToBits 1 h.padding ++ natToBits 1 h.priv ++ natToBits 2 h.mode ++ natToBits 6 h.rest))) := by
    simp [packFields, natToBits, List.append_assoc]
  rw [hp, bitsToBytes_cons8]
  simp only [natToBits, List.nil_append, List.cons_append, List.append_nil]
  rw [bitsToBytes_cons8]
  refine ⟨_, _, rfl, ?_, ?_⟩
  · generalize (h.version / 2 ^ 1 % 2 == 1) = a
    generalize (h.version / 2 ^ 0 % 2 == 1) = b
    generalize (h.layer / 2 ^ 1 % 2 == 1) = c
    generalize (h.layer / 2 ^ 0 % 2 == 1) = d
    generalize (h.protection / 2 ^ 0 % 2 == 1) = e
    cases a <;> cases b <;> cases c <;> cases d <;> cases e <;> decide
  · rw [bitsToBytes_cons8, bitsToBytes_cons8]; simp [bitsToBytes]


/-- the `FrameInfo` of a header, in the specification's terms -/
def infoOf (h : Hdr) : FrameInfo :=
  { version10 := h.ver10, layer := h.lay, bitrate := h.bitrate, sampleRate := h.rate, channels := if h.mode = 3 then 1 else 2,
    mode := h.mode, padding := h.padding = 1, crcProtected := h.protection = 0, frameLength := h.frameLength }

theorem decode_hdr (h : Hdr) (ok : h.OK) (tail : Bytes) : decodeHeader (h.bytes ++ tail) = .ok (infoOf h) := by
  obtain ⟨h1, h2, h3, h4, h5, h6, h7, h8, h9, h10, h11, h12⟩ := ok
  have := C05.mpeg_header_decodes h.version h.layer h.protection h.bitrateIndex h.rateIndex h.padding h.priv h.mode h.rest
    h1 h4 h5 (by omega) (by omega) h9 h10 h11 h12 tail
  unfold Hdr.bytes
  rw [this]
  unfold C05.isoMeaning
  rw [if_neg (by omega)]
  rfl

theorem length_hdr (h : Hdr) : h.bytes.length = 4 := by
  obtain ⟨y, r, he, _, hr⟩ := hdr_shape h
  rw [he]; simp [hr]

theorem rate_pos (h : Hdr) (ok : h.OK) : 0 < h.rate := by
  obtain ⟨h1, h2, _, _, _, _, _, h8, _⟩ := ok
  unfold Hdr.rate Hdr.ver10 isoRate
  have : h.version = 0 ∨ h.version = 2 ∨ h.version = 3 := by omega
  have : h.rateIndex = 0 ∨ h.rateIndex = 1 ∨ h.rateIndex = 2 := by omega
  rcases ‹h.version = 0 ∨ h.version = 2 ∨ h.version = 3› with hv | hv | hv <;>
    rcases ‹h.rateIndex = 0 ∨ h.rateIndex = 1 ∨ h.rateIndex = 2› with hr | hr | hr <;> simp [hv, hr]


/-! ### what stands in front of the first frame -/

theorem bitPadded_syncsafe (n : Nat) (h : n < 2 ^ 28) : bitPadded (syncsafe n) = n := by
  simp only [bitPadded, syncsafe, List.foldl_cons, List.foldl_nil, UInt8.toNat_ofNat']
  omega

theorem length_tag (t : Tag) : t.render.length = 10 + t.body.length := by simp [Tag.render, syncsafe]; omega

theorem readAt_append_left' (P X : Bytes) (n : Nat) : readAt (P ++ X) P.length n = X.take n := by
  unfold readAt; rw [List.drop_left]

theorem skipId3_tags (tags : List Tag) (P Y : Bytes) (fuel : Nat) (hok : ∀ t ∈ tags, t.OK) (hf : tags.length + 1 ≤ fuel)
    (hy : Y.take 3 ≠ [0x49, 0x44, 0x33]) :
    skipId3 (P ++ (renderTags tags ++ Y)) fuel P.length = P.length + (renderTags tags).length := by
  induction tags generalizing P fuel with
  | nil =>
    cases fuel with
    | zero => omega
    | succ k =>
      simp only [renderTags, List.nil_append, List.length_nil, Nat.add_zero]
      unfold skipId3
      rw [readAt_append_left']
      have : (Y.take 10).take 3 = Y.take 3 := by rw [List.take_take]; rfl
      simp only [this, hy, false_and, and_false, ↓reduceIte]
  | cons t r ih =>
    cases fuel with
    | zero => omega
    | succ k =>
      obtain ⟨h1, h2, h3, h4, h5⟩ := hok t (by simp)
      have hfile : P ++ (renderTags (t :: r) ++ Y) =
          P ++ (([0x49, 0x44, 0x33] ++ [UInt8.ofNat t.major, UInt8.ofNat t.minor, UInt8.ofNat t.flags] ++ syncsafe t.body.length) ++
            (t.body ++ (renderTags r ++ Y))) := by
        simp [renderTags, Tag.render, List.append_assoc]
      unfold skipId3
      rw [hfile, readAt_append_left', List.take_left' (by simp [syncsafe])]
      simp only []
      have e1 : ([0x49, 0x44, 0x33] ++ [UInt8.ofNat t.major, UInt8.ofNat t.minor, UInt8.ofNat t.flags] ++ syncsafe t.body.length).length = 10 := by
        simp [syncsafe]
      have e2 : ([0x49, 0x44, 0x33] ++ [UInt8.ofNat t.major, UInt8.ofNat t.minor, UInt8.ofNat t.flags] ++ syncsafe t.body.length).take 3 = [0x49, 0x44, 0x33] := rfl
      have e3 : ([0x49, 0x44, 0x33] ++ [UInt8.ofNat t.major, UInt8.ofNat t.minor, UInt8.ofNat t.flags] ++ syncsafe t.body.length).drop 6 = syncsafe t.body.length := rfl
      simp only [e1, e2, e3, bitPadded_syncsafe _ h5, true_and]
      rw [if_pos (by omega)]
      have hfile2 : P ++ (([0x49, 0x44, 0x33] ++ [UInt8.ofNat t.major, UInt8.ofNat t.minor, UInt8.ofNat t.flags] ++ syncsafe t.body.length) ++
            (t.body ++ (renderTags r ++ Y))) = (P ++ t.render) ++ (renderTags r ++ Y) := by
        simp [Tag.render, List.append_assoc]
      have hl : (P ++ t.render).length = P.length + 10 + t.body.length := by simp [length_tag]; omega
      rw [hfile2, ← hl, ih (P ++ t.render) k (fun x hx => hok x (by simp [hx])) (by simpa using hf)]
      simp [renderTags, length_tag]; omega

/-- the scan over junk without a false sync arrives at the frame -/
theorem scan_junk (junk : Bytes) (y : UInt8) (r : Bytes) (i n : Nat) (hn : noSync (junk ++ [0xFF]) = true) (hy : isSecond y = true)
    (hlen : junk.length + 2 ≤ n) : ∃ rest, syncScanFrom (junk ++ 0xFF :: y :: r) i n = (i + junk.length) :: rest := by
  induction junk generalizing i n with
  | nil =>
    refine ⟨syncScanFrom (y :: r) (i + 1) (n - 1), ?_⟩
    simp only [List.nil_append, syncScanFrom, hy, List.length_nil, Nat.add_zero]
    rw [if_pos ⟨trivial, by simpa using hlen⟩]; rfl
  | cons a t ih =>
    cases t with
    | nil =>
      simp only [List.cons_append, List.nil_append, noSync, Bool.and_eq_true, Bool.not_eq_true', Bool.and_eq_false_imp, beq_iff_eq] at hn
      have ha : ¬ a = 0xFF := by
        intro h; have := hn.1 h; revert this; decide
      obtain ⟨rest, hr⟩ := ih (i + 1) (n - 1) (by simp [noSync]) (by simp at hlen ⊢; omega)
      refine ⟨rest, ?_⟩
      simp only [List.cons_append, List.nil_append, syncScanFrom, ha, false_and, ↓reduceIte] at hr ⊢
      simp only [List.length_cons, List.length_nil] at hr ⊢
      rw [hr]
    | cons b t' =>
      simp only [List.cons_append, noSync, Bool.and_eq_true, Bool.not_eq_true', Bool.and_eq_false_imp, beq_iff_eq, decide_eq_false_iff_not] at hn
      have hab : ¬ (a = 0xFF ∧ isSecond b = true ∧ n ≥ 2) := by
        intro ⟨h1, h2, _⟩; have := hn.1 h1; simp [isSecond] at h2; omega
      obtain ⟨rest, hr⟩ := ih (i + 1) (n - 1) (by simpa [noSync] using hn.2) (by simp at hlen ⊢; omega)
      refine ⟨rest, ?_⟩
      simp only [List.cons_append, syncScanFrom, hab, ↓reduceIte, List.nil_append]
      simp only [List.cons_append] at hr
      rw [hr]; simp; omega


theorem length_le_renderTags (tags : List Tag) : tags.length ≤ (renderTags tags).length := by
  induction tags with
  | nil => simp [renderTags]
  | cons t r ih => simp [renderTags, length_tag]; omega

/-- behind the ID3 tags and the junk, the first sync the search yields is the first frame — from any offset `pre.length`
at which the tags begin -/
theorem lead_scan_at (pre : Bytes) (p : Lead) (ok : p.OK) (h : Hdr) (X : Bytes) :
    ∃ rest, syncScan (pre ++ (p.render ++ (h.bytes ++ X)))
      (skipId3 (pre ++ (p.render ++ (h.bytes ++ X))) ((pre ++ (p.render ++ (h.bytes ++ X))).length + 1) pre.length)
      (1024 * 1024) = (pre.length + p.render.length) :: rest := by
  obtain ⟨htags, hid, hns, hjl⟩ := ok
  obtain ⟨y, r, hb, hy, hr⟩ := hdr_shape h
  have hfile : pre ++ (p.render ++ (h.bytes ++ X)) = pre ++ (renderTags p.tags ++ (p.junk ++ (0xFF :: y :: (r ++ X)))) := by
    simp [Lead.render, hb, List.append_assoc]
  have hY : (p.junk ++ (0xFF :: y :: (r ++ X))).take 3 ≠ [0x49, 0x44, 0x33] := by
    intro hc
    match hj : p.junk with
    | [] => rw [hj] at hc; simp at hc
    | [a] => rw [hj] at hc; simp at hc
    | [a, b] => rw [hj] at hc; simp at hc
    | a :: b :: c :: t => rw [hj] at hc hid; simp at hc hid; exact hid hc.1 hc.2.1 hc.2.2
  have hskip := skipId3_tags p.tags pre (p.junk ++ (0xFF :: y :: (r ++ X))) ((pre ++ (p.render ++ (h.bytes ++ X))).length + 1) htags
    (by have := length_le_renderTags p.tags; simp [Lead.render]; omega) hY
  rw [← hfile] at hskip
  rw [hskip]
  unfold syncScan
  have hdrop : (pre ++ (p.render ++ (h.bytes ++ X))).drop (pre.length + (renderTags p.tags).length) = p.junk ++ (0xFF :: y :: (r ++ X)) := by
    rw [hfile, ← List.drop_drop, List.drop_left, List.drop_left]
  rw [hdrop]
  have hlen : (pre ++ (p.render ++ (h.bytes ++ X))).length - (pre.length + (renderTags p.tags).length) = p.junk.length + (2 + r.length + X.length) := by
    rw [hfile]; simp; omega
  obtain ⟨rest, hrest⟩ := scan_junk p.junk y (r ++ X) (pre.length + (renderTags p.tags).length)
    (min (1024 * 1024) ((pre ++ (p.render ++ (h.bytes ++ X))).length - (pre.length + (renderTags p.tags).length))) hns hy (by rw [hlen]; omega)
  exact ⟨rest, by rw [hrest]; simp [Lead.render]; omega⟩

theorem lead_scan (p : Lead) (ok : p.OK) (h : Hdr) (X : Bytes) :
    ∃ rest, syncScan (p.render ++ (h.bytes ++ X)) (skipId3 (p.render ++ (h.bytes ++ X)) ((p.render ++ (h.bytes ++ X)).length + 1) 0)
      (1024 * 1024) = p.render.length :: rest := by
  have := lead_scan_at [] p ok h X
  simpa using this

/-! ### frames -/

theorem xing_none (f : Bytes) (p : Nat) (h : isXingMagic (readAt f p 4) = false) : parseXing f p = none := by
  unfold parseXing
  have ht : (readAt f p 8).take 4 = readAt f p 4 := by
    unfold readAt; rw [List.take_take]; rfl
  simp only [ht]
  have : ¬ (readAt f p 4 = asciiB "Xing" ∨ readAt f p 4 = asciiB "Info") := by
    intro hc
    unfold isXingMagic at h
    rcases hc with hc | hc <;> rw [hc] at h <;> revert h <;> decide
  simp [this]

theorem vbri_none (f : Bytes) (p : Nat) (h : isVbriMagic (readAt f p 4) = false) : parseVbri f p = none := by
  unfold parseVbri
  have ht : (readAt f p 26).take 4 = readAt f p 4 := by
    unfold readAt; rw [List.take_take]; rfl
  simp only [ht]
  have : readAt f p 4 ≠ asciiB "VBRI" := by
    intro hc
    unfold isVbriMagic at h
    rw [hc] at h; revert h; decide
  simp [this]

theorem readAt_drop (f : Bytes) (pos k n : Nat) : readAt (f.drop pos) k n = readAt f (pos + k) n := by
  unfold readAt; rw [List.drop_drop]

theorem xing_offset (h : Hdr) (ok : h.OK) :
    Generated.xingOffset (if (infoOf h).version10 = 10 then 1 else 2) (infoOf h).mode = 4 + h.sideInfo := by
  obtain ⟨h1, h2, _⟩ := ok
  have hv : h.version = 0 ∨ h.version = 2 ∨ h.version = 3 := by omega
  unfold Generated.xingOffset Hdr.sideInfo sideInfoSize infoOf Hdr.ver10
  rcases hv with hv | hv | hv <;> by_cases hm : h.mode = 3 <;> simp [hv, hm]

/-- `MPEGFrame` on an audio frame without a VBR header -/
theorem mpegFrame_plain (f : Bytes) (pos : Nat) (fr : Spec.Mp3.Frame) (after : Bytes) (hf : f.drop pos = fr.render ++ after)
    (hp : plainFrame fr after) :
    mpegFrame f pos = .ok (some ({ offset := pos, h := infoOf fr.hdr, bitrate := .int fr.hdr.bitrate }, pos + fr.render.length)) := by
  obtain ⟨hok, hlen, hno⟩ := hp
  unfold mpegFrame
  have hd : f.drop pos = fr.hdr.bytes ++ (fr.body ++ after) := by rw [hf]; simp [Spec.Mp3.Frame.render]
  rw [hd, decode_hdr fr.hdr hok]
  simp only []
  have hl : fr.render.length = (infoOf fr.hdr).frameLength := by
    simp [Spec.Mp3.Frame.render, length_hdr, infoOf]; omega
  rw [hl]
  by_cases h3 : (infoOf fr.hdr).layer = 3
  · have h3' : fr.hdr.lay = 3 := h3
    obtain ⟨hx, hv⟩ := hno h3'
    rw [← hf, readAt_drop] at hx hv
    simp only [h3, ↓reduceIte, vbrHeader, xing_offset fr.hdr hok, xing_none _ _ hx, Generated.vbriOffset, vbri_none _ _ hv]
    rfl
  · simp only [h3, ↓reduceIte]
    rfl


/-! ### constant bitrate -/

theorem drop_at (A B : Bytes) : (A ++ B).drop A.length = B := List.drop_left

theorem drop_at2 (P A B : Bytes) : (P ++ (A ++ B)).drop (P.length + A.length) = B := by
  rw [← List.drop_drop, List.drop_left, List.drop_left]

/-- the length estimate does not see what precedes the offset -/
theorem size_shift (pre b : Bytes) (l o : Nat) (ho : pre.length + l = o) :
    ((pre ++ b).length : Int) - (o : Nat) = (b.length : Int) - (l : Nat) := by
  subst ho; simp only [List.length_append]; omega

theorem parse_cbr_at (pre : Bytes) (c : Cbr) (ok : c.OK) :
    parseFrom (pre ++ c.build) pre.length = .ok { c.expected with frameOffset := pre.length + c.lead.render.length } := by
  obtain ⟨hlead, p1, p2, p3, p4⟩ := ok
  have hb : c.build = c.lead.render ++ (c.f1.hdr.bytes ++ (c.f1.body ++ (c.f2.render ++ (c.f3.render ++ (c.f4.render ++ c.trailing))))) := by
    simp [Cbr.build, Spec.Mp3.Frame.render, List.append_assoc]
  obtain ⟨rest, hscan⟩ := lead_scan_at pre c.lead hlead c.f1.hdr (c.f1.body ++ (c.f2.render ++ (c.f3.render ++ (c.f4.render ++ c.trailing))))
  rw [← hb] at hscan
  -- the four frames
  have hE := size_shift pre c.build c.lead.render.length _ rfl
  generalize ho : pre.length + c.lead.render.length = o at *
  have d1 : (pre ++ c.build).drop o = c.f1.render ++ (c.f2.render ++ (c.f3.render ++ (c.f4.render ++ c.trailing))) := by
    rw [← ho]; exact drop_at2 _ _ _
  generalize hF : pre ++ c.build = F at *
  have d2 : F.drop (o + c.f1.render.length) = c.f2.render ++ (c.f3.render ++ (c.f4.render ++ c.trailing)) := by
    rw [← List.drop_drop, d1]; exact drop_at _ _
  have d3 : F.drop (o + c.f1.render.length + c.f2.render.length) = c.f3.render ++ (c.f4.render ++ c.trailing) := by
    rw [← List.drop_drop, d2]; exact drop_at _ _
  have d4 : F.drop (o + c.f1.render.length + c.f2.render.length + c.f3.render.length) = c.f4.render ++ c.trailing := by
    rw [← List.drop_drop, d3]; exact drop_at _ _
  have m1 := mpegFrame_plain F _ c.f1 _ d1 p1
  have m2 := mpegFrame_plain F _ c.f2 _ d2 p2
  have m3 := mpegFrame_plain F _ c.f3 _ d3 p3
  have m4 := mpegFrame_plain F _ c.f4 _ d4 p4
  have htf : takeFrames F 4 o = .ok
      [{ offset := o, h := infoOf c.f1.hdr, bitrate := .int c.f1.hdr.bitrate },
       { offset := o + c.f1.render.length, h := infoOf c.f2.hdr, bitrate := .int c.f2.hdr.bitrate },
       { offset := o + c.f1.render.length + c.f2.render.length, h := infoOf c.f3.hdr, bitrate := .int c.f3.hdr.bitrate },
       { offset := o + c.f1.render.length + c.f2.render.length + c.f3.render.length, h := infoOf c.f4.hdr, bitrate := .int c.f4.hdr.bitrate }] := by
    simp only [takeFrames, m1, m2, m3, m4, Bool.not_true, Bool.false_eq_true, ↓reduceIte]
  unfold parseFrom
  simp only [hscan, syncLoop, htf]
  simp only [show ¬ (1500 ≤ 1) by decide, ↓reduceIte, List.length_cons, List.length_nil, List.head?_cons, List.getLast?,
    Option.isNone_none, and_self, ge_iff_le, Nat.le_refl, Nat.reduceLeDiff, Bool.not_true, Bool.false_eq_true]
  refine Eq.trans (b := .ok (headerInfo c.f1.hdr o (.div (.int (8 * ((F.length : Int) - (o : Nat)))) (.flt (.int c.f1.hdr.bitrate))))) ?_ ?_
  · simp only [headerInfo, infoOf, Option.getD]
    rfl
  · rw [hE]; rfl

theorem parse_cbr (c : Cbr) (ok : c.OK) : parse c.build = .ok c.expected := by
  have h := parse_cbr_at [] c ok
  simp only [List.nil_append, List.length_nil, Nat.zero_add] at h
  exact h

end Mutagen.Info.Mp3
