/- Proofs/Info/Asf.lean — the ASF stream information on specification-built header trees, and the
exception classes on every byte string -/
import MutagenModel.Proofs.Info.OggCodecs
import MutagenModel.Spec.Info.Asf
set_option linter.unusedVariables false
set_option linter.unusedSimpArgs false
namespace Mutagen.Info.Asf
open Mutagen Mutagen.Asf Mutagen.Info Mutagen.Spec.AsfInfo

theorem leaves_append (xs ys : List Obj) : leaves (xs ++ ys) = leaves xs ++ leaves ys := by
  induction xs with
  | nil => rfl
  | cons x r ih => cases x <;> simp [leaves, ih]

theorem step_quietObj (i : Info) (o : Object) (h : quietObj o = true) : step i (.raw o.guid o.data) = i := by
  unfold quietObj at h
  simp only [Bool.and_eq_true, Bool.not_eq_true', beq_eq_false_iff_ne, ne_eq, Bool.and_eq_false_imp, beq_iff_eq] at h
  have : ¬ (o.guid = gStreamProps ∧ o.data.take 16 = gAudioMedia) := by
    intro ⟨h1, h2⟩; exact h.2 h1 h2
  simp only [step, if_neg h.1, if_neg this]

theorem fold_subs (i : Info) (subs : List SubItem) (h : subs.all quietSub = true) :
    (subs.map SubItem.toLeaf).foldl step i = i := by
  induction subs generalizing i with
  | nil => rfl
  | cons s r ih =>
    simp only [List.all_cons, Bool.and_eq_true] at h
    simp only [List.map_cons, List.foldl_cons]
    have hs : step i s.toLeaf = i := by
      cases s with
      | foreign o => exact step_quietObj i o h.1
      | mo d => rfl
      | metaLib d => rfl
      | pad d =>
        show step i (.raw gPadding d) = i
        have n1 : ¬ gPadding = gFileProps := by decide
        have n2 : ¬ (gPadding = gStreamProps ∧ d.take 16 = gAudioMedia) := by intro ⟨h1, _⟩; exact absurd h1 (by decide)
        simp only [step, if_neg n1, if_neg n2]
    rw [hs]; exact ih i h.2

theorem fold_quiet (i : Info) (items : List Item) (h : ∀ x ∈ items, quiet x = true) :
    (leaves (items.map Item.toObj)).foldl step i = i := by
  induction items generalizing i with
  | nil => rfl
  | cons x r ih =>
    have hx := h x (by simp)
    have hr := ih i (fun y hy => h y (by simp [hy]))
    cases x with
    | foreign o =>
      simp only [List.map_cons, Item.toObj, leaves, List.foldl_cons]
      rw [step_quietObj i o hx]; exact hr
    | cd d => simp only [List.map_cons, Item.toObj, leaves, List.foldl_cons, step]; exact hr
    | ecd d => simp only [List.map_cons, Item.toObj, leaves, List.foldl_cons, step]; exact hr
    | pad d =>
      simp only [List.map_cons, Item.toObj, leaves, List.foldl_cons]
      have : step i (.raw gPadding d) = i := by
        have n1 : ¬ gPadding = gFileProps := by decide
        have n2 : ¬ (gPadding = gStreamProps ∧ d.take 16 = gAudioMedia) := by intro ⟨h1, _⟩; exact absurd h1 (by decide)
        simp only [step, if_neg n1, if_neg n2]
      rw [this]; exact hr
    | ext subs =>
      simp only [List.map_cons, Item.toObj, leaves, List.foldl_append]
      rw [fold_subs i subs hx]; exact hr

theorem length_fp (h : Fields) (hid : h.fileId.length = 16) : (fileProps h).data.length = 80 := by
  simp [fileProps, hid]

theorem length_wfx (h : Fields) : (waveFormat h).length = 18 + h.codecData.length := by
  simp [waveFormat]; omega

theorem length_sp (h : Fields) (he : h.errorCorrectionType.length = 16) :
    (streamProps h).data.length = 72 + h.codecData.length + h.errorCorrectionData.length := by
  simp [streamProps, he, length_wfx, show gAudioMedia.length = 16 by decide]; omega

theorem layout_ok (h : Fields) (ok : h.OK) : (layout h).OK := by
  obtain ⟨h1, _, _, _, _, _, _, _, _, _, _, h12, _, _, _, _, _, _, _, _, _, _, _, hoth, hcnt, hsz⟩ := ok
  refine ⟨?_, hcnt, hsz⟩
  intro i hi
  simp only [layout, List.mem_append, List.mem_cons, List.mem_nil_iff, or_false] at hi
  have hfp : (Item.foreign (fileProps h)).OK := by
    show ForeignOK (fileProps h)
    refine ⟨by simp only [fileProps]; decide, by simp only [fileProps]; decide, ?_⟩
    simp only [rawOK, fileProps, ↓reduceIte]
    have := length_fp h h1
    simp only [fileProps] at this
    simp [this]
  have hsp : (Item.foreign (streamProps h)).OK := by
    show ForeignOK (streamProps h)
    refine ⟨by simp only [streamProps]; decide, by simp only [streamProps]; decide, ?_⟩
    have hl := length_sp h h12
    have ht : (streamProps h).data.take 16 = gAudioMedia := by
      simp only [streamProps, List.append_assoc]; exact List.take_left' (by decide)
    have hne : ¬ (streamProps h).guid = gFileProps := by simp only [streamProps]; decide
    show rawOK (streamProps h).guid (streamProps h).data = true
    unfold rawOK
    rw [if_neg hne, if_pos (by rfl), if_pos ht]
    simp; omega
  rcases hi with ((((hi | hi) | hi) | hi) | hi)
  · exact (hoth i (by simp [hi])).1
  · subst hi; exact hfp
  · exact (hoth i (by simp [hi])).1
  · subst hi; exact hsp
  · exact (hoth i (by simp [hi])).1

theorem step_fp (i : Info) (h : Fields) (ok : h.OK) :
    step i (.raw gFileProps (fileProps h).data) = { i with length := lengthOf h.playDuration h.preroll } := by
  obtain ⟨h1, _, _, _, h5, _, h7, _⟩ := ok
  have r40 : readAt (fileProps h).data 40 8 = toLE 8 h.playDuration := by
    simp only [fileProps, List.append_assoc]
    rw [readAt_skip _ _ _ _ 16 h1 (by decide)]
    read_field
  have r56 : readAt (fileProps h).data 56 8 = toLE 8 h.preroll := by
    simp only [fileProps, List.append_assoc]
    rw [readAt_skip _ _ _ _ 16 h1 (by decide)]
    read_field
  simp only [step, ↓reduceIte, r40, r56, ofLE_toLE 8 _ (show h.playDuration < 256 ^ 8 by omega),
    ofLE_toLE 8 _ (show h.preroll < 256 ^ 8 by omega)]

theorem step_sp (i : Info) (h : Fields) (ok : h.OK) :
    step i (.raw gStreamProps (streamProps h).data) =
      { i with channels := h.channels, sampleRate := h.samplesPerSec, bitrate := h.avgBytesPerSec * 8 } := by
  obtain ⟨_, _, _, _, _, _, _, _, _, _, _, h12, _, _, _, _, h17, h18, h19, _⟩ := ok
  have ht : (streamProps h).data.take 16 = gAudioMedia := by
    simp only [streamProps, List.append_assoc]; exact List.take_left' (by decide)
  have pre : ∀ k n, 54 ≤ k → readAt (streamProps h).data k n = readAt (waveFormat h ++ h.errorCorrectionData) (k - 54) n := by
    intro k n hk
    have : (streamProps h).data = (gAudioMedia ++ h.errorCorrectionType ++ toLE 8 h.timeOffset ++ toLE 4 (waveFormat h).length ++
        toLE 4 h.errorCorrectionData.length ++ toLE 2 h.streamFlags ++ toLE 4 h.reserved) ++ (waveFormat h ++ h.errorCorrectionData) := by
      simp only [streamProps, List.append_assoc]
    rw [this]
    exact readAt_skip _ _ _ _ 54 (by simp [h12, show gAudioMedia.length = 16 by decide]) hk
  have r56 : readAt (streamProps h).data 56 2 = toLE 2 h.channels := by
    rw [pre 56 2 (by omega)]; simp only [waveFormat, List.append_assoc]; read_field
  have r58 : readAt (streamProps h).data 58 4 = toLE 4 h.samplesPerSec := by
    rw [pre 58 4 (by omega)]; simp only [waveFormat, List.append_assoc]; read_field
  have r62 : readAt (streamProps h).data 62 4 = toLE 4 h.avgBytesPerSec := by
    rw [pre 62 4 (by omega)]; simp only [waveFormat, List.append_assoc]; read_field
  have hne : ¬ gStreamProps = gFileProps := by decide
  simp only [step, if_neg hne, ht, and_self, ↓reduceIte, r56, r58, r62, ofLE_toLE 2 _ (show h.channels < 256 ^ 2 by omega),
    ofLE_toLE 4 _ (show h.samplesPerSec < 256 ^ 4 by omega), ofLE_toLE 4 _ (show h.avgBytesPerSec < 256 ^ 4 by omega)]

/-- `ASF(fileobj).info` on a specification-built file -/
theorem parse_build (h : Fields) (ok : h.OK) : parse (build h) = .ok (expected h) := by
  have hL := parseFull_layout (layout h) (layout_ok h ok)
  have hq := ok.2.2.2.2.2.2.2.2.2.2.2.2.2.2.2.2.2.2.2.2.2.2.2.1
  unfold parse build
  rw [hL]
  simp only [layout, List.map_append, List.map_cons, List.map_nil, leaves_append, List.foldl_append, Item.toObj, leaves,
    List.foldl_cons, List.foldl_nil]
  rw [fold_quiet init h.before (fun x hx => (hq x (by simp [hx])).2)]
  have e1 : step init (Leaf.raw (fileProps h).guid (fileProps h).data) = { init with length := lengthOf h.playDuration h.preroll } :=
    step_fp init h ok
  rw [e1, fold_quiet _ h.between (fun x hx => (hq x (by simp [hx])).2)]
  have e2 := step_sp { init with length := lengthOf h.playDuration h.preroll } h ok
  have e2' : step { init with length := lengthOf h.playDuration h.preroll } (Leaf.raw (streamProps h).guid (streamProps h).data) = _ := e2
  rw [e2', fold_quiet _ h.after (fun x hx => (hq x (by simp [hx])).2)]
  rfl


/-! ### every byte string -/

def Cls (e : PyErr) : Prop := e = .mutagen ∨ e = .diverge

theorem leafOf_cls (g d : Bytes) (e : PyErr) (h : leafOf g d = .error e) : Cls e := by
  unfold leafOf at h
  repeat' (split at h)
  all_goals (first | (cases h; exact .inl rfl) | cases h)

theorem extLoop_cls (data : Bytes) (ds : Nat) (fuel pos : Nat) (e : PyErr) (h : extLoop data ds fuel pos = .error e) : Cls e := by
  induction fuel generalizing pos with
  | zero =>
    unfold extLoop at h
    split at h
    · cases h; exact .inr rfl
    · cases h
  | succ k ih =>
    unfold extLoop at h
    split at h
    · simp only [] at h
      split at h
      · cases h; exact .inl rfl
      · split at h
        · cases h; exact .inl rfl
        · split at h
          · cases h; exact .inl rfl
          · split at h
            · rename_i e' he; cases h; exact leafOf_cls _ _ _ he
            · split at h
              · rename_i e' he; cases h; exact ih _ he
              · cases h
    · cases h

theorem objOf_cls (g d : Bytes) (e : PyErr) (h : objOf g d = .error e) : Cls e := by
  unfold objOf at h
  split at h
  · split at h
    · rename_i e' he
      cases h
      unfold parseExt at he
      simp only [] at he
      split at he
      · cases he; exact .inl rfl
      · exact extLoop_cls _ _ _ _ _ he
    · cases h
  · split at h
    · rename_i e' he; cases h; exact leafOf_cls _ _ _ he
    · cases h

theorem parseObjects_cls (f : Bytes) (n pos rem : Nat) (e : PyErr) (h : parseObjects f n pos rem = .error e) : Cls e := by
  induction n generalizing pos rem with
  | zero => unfold parseObjects at h; cases h
  | succ k ih =>
    unfold parseObjects at h
    split at h
    · cases h; exact .inl rfl
    · simp only [] at h
      split at h
      · cases h; exact .inl rfl
      · split at h
        · cases h; exact .inl rfl
        · split at h
          · cases h; exact .inl rfl
          · split at h
            · cases h; exact .inl rfl
            · split at h
              · rename_i e' he; cases h; exact objOf_cls _ _ _ he
              · split at h
                · rename_i e' he; cases h; exact ih _ _ he
                · cases h

theorem parseFull_cls (f : Bytes) (e : PyErr) (h : parseFull f = .error e) : e = .mutagen := by
  have hnd := parseFull_no_diverge f
  have : Cls e := by
    unfold parseFull at h
    split at h
    · rename_i e' he
      cases h
      unfold parseSize at he
      simp only [] at he
      split at he
      · cases he; exact .inl rfl
      · cases he
    · exact parseObjects_cls _ _ _ _ _ h
  rcases this with h' | h'
  · exact h'
  · subst h'; exact absurd h hnd

/-- every exception of `ASF(fileobj)` up to the stream information is the format's error -/
theorem parse_clean (f : Bytes) (e : PyErr) (h : parse f = .error e) : e = .mutagen := by
  unfold parse at h
  split at h
  · rename_i e' he; cases h; exact parseFull_cls f _ he
  · cases h

end Mutagen.Info.Asf
