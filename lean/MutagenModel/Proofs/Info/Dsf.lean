/- Proofs/Info/Dsf.lean — the DSF loaders on specification-built files, and on every byte string -/
import MutagenModel.Proofs.Info.Bytes
import MutagenModel.Spec.Info.Dsf
set_option linter.unusedVariables false
set_option linter.unusedSimpArgs false
namespace Mutagen.Info.Dsf
open Mutagen Mutagen.Info Mutagen.Spec.Dsf

theorem readAt_readAt (f : Bytes) (o n a b : Nat) (h : a + b ≤ n) : readAt (readAt f o n) a b = readAt f (o + a) b := by
  unfold readAt
  rw [List.drop_take, List.take_take, List.drop_drop]
  congr 1; omega

theorem ite_err {α : Type} (c : Prop) [Decidable c] (x : Except PyErr α) (e : PyErr)
    (h : (if c then Except.error PyErr.mutagen else x) = .error e) : e = .mutagen ∨ x = .error e := by
  by_cases hc : c
  · rw [if_pos hc] at h; cases h; exact .inl rfl
  · rw [if_neg hc] at h; exact .inr h

theorem ite_ok {α : Type} (c : Prop) [Decidable c] (x : Except PyErr α) (v : α)
    (h : (if c then Except.error PyErr.mutagen else x) = .ok v) : x = .ok v := by
  by_cases hc : c
  · rw [if_pos hc] at h; cases h
  · rw [if_neg hc] at h; exact h

def dsdPart (h : Fields) : Bytes := ascii "DSD " ++ toLE 8 28 ++ toLE 8 h.totalSize ++ toLE 8 h.metadataPointer
def fmtPart (h : Fields) : Bytes :=
  ascii "fmt " ++ toLE 8 52 ++ toLE 4 1 ++ toLE 4 0 ++ toLE 4 h.channelType ++ toLE 4 h.channelNum ++
    toLE 4 h.samplingFrequency ++ toLE 4 h.bitsPerSample ++ toLE 8 h.sampleCount ++ toLE 4 h.blockSize ++
    toLE 4 h.reserved
def dataHead (h : Fields) : Bytes := ascii "data" ++ toLE 8 (12 + h.data.length)

theorem build_eq (h : Fields) (rest : Bytes) :
    build h ++ rest = dsdPart h ++ (fmtPart h ++ (dataHead h ++ (h.data ++ rest))) := by
  simp [build, dsdPart, fmtPart, dataHead, List.append_assoc]

theorem len_ascii4a : (ascii "DSD ").length = 4 := by decide
theorem len_ascii4b : (ascii "fmt ").length = 4 := by decide
theorem len_ascii4c : (ascii "data").length = 4 := by decide

theorem length_dsdPart (h : Fields) : (dsdPart h).length = 28 := by simp [dsdPart, len_ascii4a]
theorem length_fmtPart (h : Fields) : (fmtPart h).length = 52 := by simp [fmtPart, len_ascii4b]
theorem length_dataHead (h : Fields) : (dataHead h).length = 12 := by simp [dataHead, len_ascii4c]

theorem read_dsd (h : Fields) (rest : Bytes) : readAt (build h ++ rest) 0 28 = dsdPart h := by
  rw [build_eq]; unfold readAt; simp [List.take_left' (length_dsdPart h)]

theorem read_fmt (h : Fields) (rest : Bytes) : readAt (build h ++ rest) 28 52 = fmtPart h := by
  rw [build_eq]; unfold readAt
  rw [List.drop_left' (length_dsdPart h), List.take_left' (length_fmtPart h)]

theorem read_data (h : Fields) (rest : Bytes) : readAt (build h ++ rest) 80 12 = dataHead h := by
  rw [build_eq]; unfold readAt
  rw [← List.append_assoc, List.drop_left' (by simp [length_dsdPart, length_fmtPart]), List.take_left' (length_dataHead h)]

def fmtOf (h : Fields) : Fmt :=
  ⟨h.channelType, h.channelNum, h.samplingFrequency, h.bitsPerSample, h.sampleCount⟩

theorem load_build (h : Fields) (ok : h.OK) (rest : Bytes) :
    load (build h ++ rest) = .ok (fmtOf h) := by
  obtain ⟨h1, h2, h3, h4, h5, h6, h7, h8, h9, h10, h11, h12⟩ := ok
  unfold load
  simp only [read_dsd, read_fmt, read_data, length_dsdPart, length_fmtPart, length_dataHead, ne_eq, not_true_eq_false, ↓reduceIte]
  have d0 : readAt (dsdPart h) 0 4 = ascii "DSD " := by
    simp [dsdPart, readAt, List.take_append, len_ascii4a]
  have d4 : readAt (dsdPart h) 4 8 = toLE 8 28 := by
    simp [dsdPart, readAt, List.drop_append, List.take_append, len_ascii4a, List.drop_eq_nil_of_le, take_toLE_ge]
  have d20 : readAt (dsdPart h) 20 8 = toLE 8 h.metadataPointer := by
    simp [dsdPart, readAt, List.drop_append, List.take_append, len_ascii4a, List.drop_eq_nil_of_le, drop_toLE_ge, take_toLE_ge]
  have m0 : readAt (fmtPart h) 0 4 = ascii "fmt " := by
    simp [fmtPart, readAt, List.take_append, len_ascii4b]
  have m4 : readAt (fmtPart h) 4 8 = toLE 8 52 := by
    simp [fmtPart, readAt, List.drop_append, List.take_append, len_ascii4b, List.drop_eq_nil_of_le, drop_toLE_ge, take_toLE_ge]
  have m12 : readAt (fmtPart h) 12 4 = toLE 4 1 := by
    simp [fmtPart, readAt, List.drop_append, List.take_append, len_ascii4b, List.drop_eq_nil_of_le, drop_toLE_ge, take_toLE_ge]
  have m16 : readAt (fmtPart h) 16 4 = toLE 4 0 := by
    simp [fmtPart, readAt, List.drop_append, List.take_append, len_ascii4b, List.drop_eq_nil_of_le, drop_toLE_ge, take_toLE_ge]
  have m20 : readAt (fmtPart h) 20 4 = toLE 4 h.channelType := by
    simp [fmtPart, readAt, List.drop_append, List.take_append, len_ascii4b, List.drop_eq_nil_of_le, drop_toLE_ge, take_toLE_ge]
  have m24 : readAt (fmtPart h) 24 4 = toLE 4 h.channelNum := by
    simp [fmtPart, readAt, List.drop_append, List.take_append, len_ascii4b, List.drop_eq_nil_of_le, drop_toLE_ge, take_toLE_ge]
  have m28 : readAt (fmtPart h) 28 4 = toLE 4 h.samplingFrequency := by
    simp [fmtPart, readAt, List.drop_append, List.take_append, len_ascii4b, List.drop_eq_nil_of_le, drop_toLE_ge, take_toLE_ge]
  have m32 : readAt (fmtPart h) 32 4 = toLE 4 h.bitsPerSample := by
    simp [fmtPart, readAt, List.drop_append, List.take_append, len_ascii4b, List.drop_eq_nil_of_le, drop_toLE_ge, take_toLE_ge]
  have m36 : readAt (fmtPart h) 36 8 = toLE 8 h.sampleCount := by
    simp [fmtPart, readAt, List.drop_append, List.take_append, len_ascii4b, List.drop_eq_nil_of_le, drop_toLE_ge, take_toLE_ge]
  have a0 : readAt (dataHead h) 0 4 = ascii "data" := by
    simp [dataHead, readAt, List.take_append, len_ascii4c]
  have a4 : readAt (dataHead h) 4 8 = toLE 8 (12 + h.data.length) := by
    simp [dataHead, readAt, List.drop_append, List.take_append, len_ascii4c, List.drop_eq_nil_of_le, take_toLE_ge]
  have hcn : h.channelNum < 2 ^ 32 := by
    rw [h5]; unfold channelsOf; split <;> omega
  simp only [d0, d4, d20, m0, m4, m12, m16, m20, m24, m28, m32, m36, a0, a4,
    ofLE_toLE 8 28 (by decide), ofLE_toLE 8 52 (by decide), ofLE_toLE 4 1 (by decide), ofLE_toLE 4 0 (by decide),
    ofLE_toLE 8 _ (show h.metadataPointer < 256 ^ 8 by omega), ofLE_toLE 4 _ (show h.channelType < 256 ^ 4 by omega),
    ofLE_toLE 4 _ (show h.channelNum < 256 ^ 4 by omega), ofLE_toLE 4 _ (show h.samplingFrequency < 256 ^ 4 by omega),
    ofLE_toLE 4 _ (show h.bitsPerSample < 256 ^ 4 by omega), ofLE_toLE 8 _ (show h.sampleCount < 256 ^ 8 by omega),
    ofLE_toLE 8 _ (show 12 + h.data.length < 256 ^ 8 by omega), ne_eq, not_true_eq_false, ↓reduceIte]
  rw [if_neg (by omega), if_neg (by omega), if_neg (by omega)]
  rfl

/-- what the code reports on a specification-built file -/
theorem parse_build (h : Fields) (ok : h.OK) (rest : Bytes) :
    parse (build h ++ rest) = .ok
      { channels := h.channelNum, sampleRate := h.samplingFrequency, bitsPerSample := h.bitsPerSample,
        bitrate := h.samplingFrequency * h.bitsPerSample * h.channelNum,
        length := .div (.flt (.nat h.sampleCount)) (.nat h.samplingFrequency) } := by
  unfold parse
  rw [load_build h ok rest]
  simp only [attrs, fmtOf]

theorem load_clean (f : Bytes) (e : PyErr) (h : load f = .error e) : e = .mutagen := by
  unfold load at h
  simp only [] at h
  refine (ite_err _ _ _ h).elim id (fun h => ?_)
  refine (ite_err _ _ _ h).elim id (fun h => ?_)
  refine (ite_err _ _ _ h).elim id (fun h => ?_)
  refine (ite_err _ _ _ h).elim id (fun h => ?_)
  refine (ite_err _ _ _ h).elim id (fun h => ?_)
  refine (ite_err _ _ _ h).elim id (fun h => ?_)
  refine (ite_err _ _ _ h).elim id (fun h => ?_)
  refine (ite_err _ _ _ h).elim id (fun h => ?_)
  refine (ite_err _ _ _ h).elim id (fun h => ?_)
  refine (ite_err _ _ _ h).elim id (fun h => ?_)
  refine (ite_err _ _ _ h).elim id (fun h => ?_)
  refine (ite_err _ _ _ h).elim id (fun h => ?_)
  refine (ite_err _ _ _ h).elim id (fun h => ?_)
  cases h

/-- every exception of loading a DSF file and reading the attributes is the format's error -/
theorem parse_clean (f : Bytes) (e : PyErr) (h : parse f = .error e) : e = .mutagen := by
  unfold parse at h
  split at h
  · rename_i e' he; cases h; exact load_clean f _ he
  · unfold attrs at h; cases h

end Mutagen.Info.Dsf
