/- Proofs/Info/OggCodecs.lean — the five Ogg info classes on specification-built streams, and their
exception classes on every byte string -/
import MutagenModel.Proofs.Info.OggCommon
import MutagenModel.Proofs.Info.Bytes
import MutagenModel.Spec.Info.OggCodecs
import MutagenModel.Props.C05
set_option linter.unusedVariables false
set_option linter.unusedSimpArgs false
namespace Mutagen.Info
open Mutagen Mutagen.Ogg Mutagen.Info Mutagen.Info.OggC Mutagen.Spec Mutagen.Spec.OggS

theorem length_toSignedLE (w : Nat) (i : Int) : (toSignedLE w i).length = w := by simp [toSignedLE]
theorem drop_toSignedLE_ge (w : Nat) (i : Int) (k : Nat) (h : w ≤ k) : (toSignedLE w i).drop k = [] := by
  apply List.drop_eq_nil_of_le; simp [length_toSignedLE, h]
theorem take_toSignedLE_ge (w : Nat) (i : Int) (k : Nat) (h : w ≤ k) : (toSignedLE w i).take k = toSignedLE w i := by
  apply List.take_of_length_le; simp [length_toSignedLE, h]

theorem signed4 (i : Int) (h : int32 i) : ofSignedLE (toSignedLE 4 i) = i := by
  obtain ⟨h1, h2⟩ := h
  exact ofSignedLE_toSignedLE 4 (by decide) i (by simpa using h1) (by simpa using h2)

theorem readAt_skip (A B : Bytes) (k n m : Nat) (hA : A.length = m) (hk : m ≤ k) :
    readAt (A ++ B) k n = readAt B (k - m) n := by
  unfold readAt
  rw [List.drop_append, List.drop_eq_nil_of_le (by omega), hA]; simp

theorem readAt_head' (A B : Bytes) (k n : Nat) (hk : k = 0) (hA : A.length = n) : readAt (A ++ B) k n = A := by
  subst hk; unfold readAt; simp [List.take_left' hA]

theorem readAt_last (A : Bytes) (k n : Nat) (hk : k = 0) (hA : A.length = n) : readAt A k n = A := by
  subst hk; unfold readAt; simp [List.take_of_length_le (Nat.le_of_eq hA)]

/-- read one fixed-width field out of a right-nested concatenation of fixed-width pieces -/
macro "read_field" : tactic => `(tactic|
  ((repeat (rw [readAt_skip _ _ _ _ _ (by first | exact length_toLE _ _ | exact length_toBE _ _ | exact length_toSignedLE _ _ | rfl) (by decide)]));
   first
   | (apply readAt_head' <;> first | decide | exact length_toLE _ _ | exact length_toBE _ _ | exact length_toSignedLE _ _ | rfl)
   | (apply readAt_last <;> first | decide | exact length_toLE _ _ | exact length_toBE _ _ | exact length_toSignedLE _ _ | rfl)))

theorem loadWrap_ok {α : Type} (v : α) : loadWrap (.ok v : Except PyErr α) = .ok v := rfl

/-! ### Vorbis -/
namespace Vorbis
open Mutagen.Spec.Vorbis
set_option maxRecDepth 4000

theorem length_ident (h : Fields) : (ident h).length = 30 := by
  simp [ident, length_toSignedLE]

theorem init_build (h : Fields) (ok : h.OK) :
    init (Spec.Vorbis.build h) = .ok
      { channels := h.channels, sampleRate := h.rate, bitrate := bitrate h, serial := h.stream.serial,
        length := .flt (.int 0) } := by
  obtain ⟨h1, h2, h3, h4, h5, h6, h7, _, _, _, hs⟩ := ok
  have hnp : nextPage (Spec.Vorbis.build h) = .ok (identPage h.stream (ident h), h.stream.middle ++ renderB (lastPage h.stream)) := by
    unfold Spec.Vorbis.build OggS.build; rw [List.append_assoc]; exact nextPage_good _ hs.1 _
  unfold init
  rw [hnp]
  simp only []
  have hne : ¬ (identPage h.stream (ident h)).packets = [] := by simp [identPage]
  rw [if_neg hne]
  have hmag : hasMagic magic (identPage h.stream (ident h)) = true := by
    simp [hasMagic, identPage, ident, magic, List.isPrefixOf]
  have hloop : findLoop magic (Spec.Vorbis.build h).length (identPage h.stream (ident h)) (h.stream.middle ++ renderB (lastPage h.stream))
      = .ok (identPage h.stream (ident h)) := by
    cases (Spec.Vorbis.build h).length <;> simp [findLoop, hmag]
  rw [hloop]
  simp only [identPage, List.headD_cons, Bool.not_true, Bool.false_eq_true, ↓reduceIte, length_ident]
  have r11 : readAt (ident h) 11 1 = toLE 1 h.channels := by
    simp only [ident, List.append_assoc]; read_field
  have r12 : readAt (ident h) 12 4 = toLE 4 h.rate := by
    simp only [ident, List.append_assoc]; read_field
  have r16 : readAt (ident h) 16 4 = toSignedLE 4 h.bitrateMaximum := by
    simp only [ident, List.append_assoc]; read_field
  have r20 : readAt (ident h) 20 4 = toSignedLE 4 h.bitrateNominal := by
    simp only [ident, List.append_assoc]; read_field
  have r24 : readAt (ident h) 24 4 = toSignedLE 4 h.bitrateMinimum := by
    simp only [ident, List.append_assoc]; read_field
  have hr0 : ¬ h.rate = 0 := by omega
  simp only [r11, r12, r16, r20, r24, signed4 _ h5, signed4 _ h6, signed4 _ h7,
    ofLE_toLE 1 _ (show h.channels < 256 ^ 1 by omega), ofLE_toLE 4 _ (show h.rate < 256 ^ 4 by omega), hr0, ↓reduceIte,
    show ¬ (30 < 28) by omega, bitrate]

theorem raw_build (h : Fields) (ok : h.OK) : raw (Spec.Vorbis.build h) = .ok (expected h) := by
  have hfl := findLast_build h.stream (ident h) ok.2.2.2.2.2.2.2.2.2.2
  have hi := init_build h ok
  have hb : Spec.Vorbis.build h = OggS.build h.stream (ident h) := rfl
  unfold raw
  simp only [hi]
  unfold post
  simp only [hb, hfl]
  simp only [expected, lastPage]

theorem parse_build (h : Fields) (ok : h.OK) : parse (Spec.Vorbis.build h) = .ok (expected h) := by
  unfold parse; rw [raw_build h ok]; rfl

theorem init_classes (f : Bytes) (e : PyErr) (h : init f = .error e) : e = .mutagen ∨ e = .eof := by
  unfold init at h
  split at h
  · rename_i e' he; cases h; exact nextPage_classes f _ he
  · rename_i p0 rest hp
    split at h
    · cases h; exact .inl rfl
    · split at h
      · rename_i e' he; cases h
        exact findLoop_classes magic f.length p0 rest (by have := nextPage_shorter f p0 rest hp; omega) _ he
      · split at h
        · cases h; exact .inl rfl
        · simp only [] at h
          split at h
          · cases h; exact .inl rfl
          · split at h
            · cases h; exact .inl rfl
            · cases h

theorem post_classes (f : Bytes) (i : Info) (e : PyErr) (h : post f i = .error e) : e = .mutagen := by
  unfold post at h
  split at h
  · rename_i e' he; cases h; exact findLast_classes f _ _ he
  · cases h; rfl
  · cases h

theorem raw_classes (f : Bytes) (e : PyErr) (h : raw f = .error e) : e = .mutagen ∨ e = .eof := by
  unfold raw at h
  split at h
  · rename_i e' he; cases h; exact init_classes f _ he
  · exact .inl (post_classes f _ _ h)

end Vorbis

theorem loadWrap_clean {α : Type} (r : Except PyErr α) (hr : ∀ e, r = .error e → e = .mutagen ∨ e = .eof) :
    ∀ e, loadWrap r = .error e → e = .mutagen := by
  intro e h
  cases r with
  | ok v => cases h
  | error e' =>
    rcases hr e' rfl with h' | h' <;> subst h' <;> (simp only [loadWrap] at h; cases h; rfl)

/-! ### Opus -/
namespace Opus
open Mutagen.Spec.Opus

theorem init_build (h : Fields) (ok : h.OK) :
    init (Spec.Opus.build h) = .ok
      { channels := h.channels, serial := h.stream.serial, preSkip := h.preSkip, length := .int 0 } := by
  obtain ⟨h1, h2, h3, h4, h5, h6, h7, h8, hs⟩ := ok
  have hfh := findHeader_build magic h.stream (ident h) hs (by simp [ident, magic, List.isPrefixOf])
  have hb : Spec.Opus.build h = OggS.build h.stream (ident h) := rfl
  unfold init
  simp only [hb, hfh]
  have hlen : ¬ (ident h).length < 19 := by simp [ident, length_toSignedLE]; omega
  have r8 : readAt (ident h) 8 1 = toLE 1 h.version := by
    simp only [ident, List.append_assoc]; read_field
  have r9 : readAt (ident h) 9 1 = toLE 1 h.channels := by
    simp only [ident, List.append_assoc]; read_field
  have r10 : readAt (ident h) 10 2 = toLE 2 h.preSkip := by
    simp only [ident, List.append_assoc]; read_field
  have hv : ¬ h.version / 16 ≠ 0 := by omega
  simp only [identPage, List.headD_cons, Bool.not_true, Bool.false_eq_true, ↓reduceIte, hlen, r8, r9, r10,
    ofLE_toLE 1 _ (show h.version < 256 ^ 1 by omega), ofLE_toLE 1 _ (show h.channels < 256 ^ 1 by omega),
    ofLE_toLE 2 _ (show h.preSkip < 256 ^ 2 by omega), hv]

theorem raw_build (h : Fields) (ok : h.OK) : raw (Spec.Opus.build h) = .ok (expected h) := by
  have hfl := findLast_build h.stream (ident h) ok.2.2.2.2.2.2.2.2
  have hi := init_build h ok
  have hb : Spec.Opus.build h = OggS.build h.stream (ident h) := rfl
  unfold raw
  simp only [hi]
  unfold post
  simp only [hb, hfl]
  simp only [expected, lastPage]

theorem parse_build (h : Fields) (ok : h.OK) : parse (Spec.Opus.build h) = .ok (expected h) := by
  unfold parse; rw [raw_build h ok]; rfl

theorem init_classes (f : Bytes) (e : PyErr) (h : init f = .error e) : e = .mutagen ∨ e = .eof := by
  unfold init at h
  split at h
  · rename_i e' he; cases h; exact findHeader_classes magic f _ he
  · split at h
    · cases h; exact .inl rfl
    · simp only [] at h
      split at h
      · cases h; exact .inl rfl
      · split at h
        · cases h; exact .inl rfl
        · cases h

theorem post_classes (f : Bytes) (i : Info) (e : PyErr) (h : post f i = .error e) : e = .mutagen := by
  unfold post at h
  split at h
  · rename_i e' he; cases h; exact findLast_classes f _ _ he
  · cases h; rfl
  · cases h

theorem raw_classes (f : Bytes) (e : PyErr) (h : raw f = .error e) : e = .mutagen ∨ e = .eof := by
  unfold raw at h
  split at h
  · rename_i e' he; cases h; exact init_classes f _ he
  · exact .inl (post_classes f _ _ h)

end Opus

/-! ### Speex -/
namespace Speex
open Mutagen.Spec.Speex

theorem init_build (h : Fields) (ok : h.OK) :
    init (Spec.Speex.build h) = .ok
      { sampleRate := h.rate, channels := h.channels, bitrate := max 0 h.bitrate, serial := h.stream.serial,
        length := .int 0 } := by
  obtain ⟨h1, h2, h3, h4, h5, h6, h7, h8, h9, h10, h11, hs⟩ := ok
  have hfh := findHeader_build magic h.stream (ident h) hs (by simp [ident, magic, List.isPrefixOf])
  have hb : Spec.Speex.build h = OggS.build h.stream (ident h) := rfl
  unfold init
  simp only [hb, hfh]
  have r36 : readAt (ident h) 36 4 = toLE 4 h.rate := by
    simp only [ident, List.append_assoc]
    rw [readAt_skip _ _ _ _ 8 rfl (by decide), readAt_skip _ _ _ _ 20 h1 (by decide)]
    read_field
  have r48 : readAt (ident h) 48 4 = toLE 4 h.channels := by
    simp only [ident, List.append_assoc]
    rw [readAt_skip _ _ _ _ 8 rfl (by decide), readAt_skip _ _ _ _ 20 h1 (by decide)]
    read_field
  have r52 : readAt (ident h) 52 4 = toSignedLE 4 h.bitrate := by
    simp only [ident, List.append_assoc]
    rw [readAt_skip _ _ _ _ 8 rfl (by decide), readAt_skip _ _ _ _ 20 h1 (by decide)]
    read_field
  have hr0 : ¬ h.rate = 0 := by omega
  have hlen : ¬ (ident h).length < 56 := by simp [ident, length_toSignedLE, h1, h11]
  simp only [identPage, List.headD_cons, Bool.not_true, Bool.false_eq_true, ↓reduceIte, hlen, r36, r48, r52,
    ofLE_toLE 4 _ (show h.rate < 256 ^ 4 by omega), ofLE_toLE 4 _ (show h.channels < 256 ^ 4 by omega), signed4 _ h10, hr0]

theorem raw_build (h : Fields) (ok : h.OK) : raw (Spec.Speex.build h) = .ok (expected h) := by
  have hfl := findLast_build h.stream (ident h) ok.2.2.2.2.2.2.2.2.2.2.2
  have hi := init_build h ok
  have hb : Spec.Speex.build h = OggS.build h.stream (ident h) := rfl
  unfold raw
  simp only [hi]
  unfold post
  simp only [hb, hfl]
  simp only [expected, lastPage]

theorem parse_build (h : Fields) (ok : h.OK) : parse (Spec.Speex.build h) = .ok (expected h) := by
  unfold parse; rw [raw_build h ok]; rfl

theorem init_classes (f : Bytes) (e : PyErr) (h : init f = .error e) : e = .mutagen ∨ e = .eof := by
  unfold init at h
  split at h
  · rename_i e' he; cases h; exact findHeader_classes magic f _ he
  · split at h
    · cases h; exact .inl rfl
    · simp only [] at h
      split at h
      · cases h; exact .inl rfl
      · split at h
        · cases h; exact .inl rfl
        · cases h

theorem post_classes (f : Bytes) (i : Info) (e : PyErr) (h : post f i = .error e) : e = .mutagen := by
  unfold post at h
  split at h
  · rename_i e' he; cases h; exact findLast_classes f _ _ he
  · cases h; rfl
  · cases h

theorem raw_classes (f : Bytes) (e : PyErr) (h : raw f = .error e) : e = .mutagen ∨ e = .eof := by
  unfold raw at h
  split at h
  · rename_i e' he; cases h; exact init_classes f _ he
  · exact .inl (post_classes f _ _ h)

end Speex

/-! ### Theora -/
namespace Theora
open Mutagen.Spec.Theora

theorem frames_split (kf off s : Nat) (h : off < 2 ^ s) :
    frames ((kf * 2 ^ s + off : Nat) : Int) s = ((kf + off : Nat) : Int) := by
  unfold frames
  have hpos : 0 < 2 ^ s := Nat.pow_pos (by decide)
  rw [← Int.natCast_ediv, ← Int.natCast_emod, ← Int.natCast_add]
  congr 1
  have h1 : (kf * 2 ^ s + off) / 2 ^ s = kf := by
    rw [Nat.add_comm, Nat.add_mul_div_right _ _ hpos, Nat.div_eq_of_lt h]; omega
  have h2 : (kf * 2 ^ s + off) % 2 ^ s = off := by
    rw [Nat.add_comm, Nat.add_mul_mod_self_right, Nat.mod_eq_of_lt h]
  rw [h1, h2]

theorem init_build (h : Fields) (ok : h.OK) :
    init (Spec.Theora.build h) = .ok
      { fpsNum := h.frn, fpsDen := h.frd, bitrate := h.nombr, granuleShift := h.kfgshift, serial := h.stream.serial,
        length := .int 0 } := by
  obtain ⟨h1, h2, h3, h4, h5, h6, h7, h8, h9, h10, h11, h12, h13, h14, h15, h16, h17, h18, h19, h20, hs⟩ := ok
  have hfh := findHeader_build magic h.stream (ident h) hs (by simp [ident, magic, List.isPrefixOf])
  have hb : Spec.Theora.build h = OggS.build h.stream (ident h) := rfl
  unfold init
  simp only [hb, hfh]
  have hlen : ¬ (ident h).length < 42 := by simp [ident]
  have r7 : readAt (ident h) 7 1 = [3] := by
    simp only [ident, List.append_assoc]
    rw [readAt_skip _ _ _ _ 7 rfl (by decide)]
    rfl
  have r8 : readAt (ident h) 8 1 = [2] := by
    simp only [ident, List.append_assoc]
    rw [readAt_skip _ _ _ _ 7 rfl (by decide)]
    rfl
  have r22 : readAt (ident h) 22 4 = toBE 4 h.frn := by
    simp only [ident, List.append_assoc]; read_field
  have r26 : readAt (ident h) 26 4 = toBE 4 h.frd := by
    simp only [ident, List.append_assoc]; read_field
  have r37 : readAt (ident h) 37 3 = toBE 3 h.nombr := by
    simp only [ident, List.append_assoc]; read_field
  have r40 : readAt (ident h) 40 2 = toBE 2 (h.qual * 1024 + h.kfgshift * 32 + h.pf * 8) := by
    simp only [ident, List.append_assoc]; read_field
  have hz : ¬ (h.frd = 0 ∨ h.frn = 0) := by omega
  have hsh : (h.qual * 1024 + h.kfgshift * 32 + h.pf * 8) / 32 % 32 = h.kfgshift := by omega
  have hv : ofBE [3] = 3 ∧ ofBE [2] = 2 := by decide
  simp only [identPage, List.headD_cons, Bool.not_true, Bool.false_eq_true, ↓reduceIte, hlen, r7, r8, r22, r26, r37, r40,
    hv.1, hv.2, and_self, not_true_eq_false, hz,
    ofBE_toBE 4 _ (show h.frn < 256 ^ 4 by omega), ofBE_toBE 4 _ (show h.frd < 256 ^ 4 by omega),
    ofBE_toBE 3 _ (show h.nombr < 256 ^ 3 by omega),
    ofBE_toBE 2 _ (show h.qual * 1024 + h.kfgshift * 32 + h.pf * 8 < 256 ^ 2 by omega), hsh]

/-- what `OggTheoraInfo` reports: the frame count of a revision ≥ 3.2.1 stream, whatever VREV says -/
theorem raw_build (h : Fields) (ok : h.OK) :
    raw (Spec.Theora.build h) = .ok
      { fpsNum := h.frn, fpsDen := h.frd, bitrate := h.nombr, granuleShift := h.kfgshift, serial := h.stream.serial,
        length := .div (.int ((h.lastKeyframe + h.lastOffset : Nat) : Int)) (.flt (.div (.nat h.frn) (.flt (.nat h.frd)))) } := by
  have hfl := findLast_build h.stream (ident h) ok.2.2.2.2.2.2.2.2.2.2.2.2.2.2.2.2.2.2.2.2
  have hi := init_build h ok
  have hb : Spec.Theora.build h = OggS.build h.stream (ident h) := rfl
  have hg := ok.2.2.2.2.2.2.2.2.2.2.2.2.2.2.2.2.2.2.2.1
  have ho := ok.2.2.2.2.2.2.2.2.2.2.2.2.2.2.2.2.2.2.1
  unfold raw
  simp only [hi]
  unfold post
  simp only [hb, hfl]
  simp only [lastPage, hg, frames_split _ _ _ ho, fps]

theorem raw_build_partial (h : Fields) (ok : h.OK) (hv : h.vrev ≠ 0) : raw (Spec.Theora.build h) = .ok (expected h) := by
  rw [raw_build h ok]
  simp only [expected, frameCount, hv, ↓reduceIte, Nat.add_zero]

theorem init_classes (f : Bytes) (e : PyErr) (h : init f = .error e) : e = .mutagen ∨ e = .eof := by
  unfold init at h
  split at h
  · rename_i e' he; cases h; exact findHeader_classes magic f _ he
  · split at h
    · cases h; exact .inl rfl
    · simp only [] at h
      split at h
      · cases h; exact .inl rfl
      · split at h
        · cases h; exact .inl rfl
        · split at h
          · cases h; exact .inl rfl
          · cases h

theorem post_classes (f : Bytes) (i : Info) (e : PyErr) (h : post f i = .error e) : e = .mutagen := by
  unfold post at h
  split at h
  · rename_i e' he; cases h; exact findLast_classes f _ _ he
  · cases h; rfl
  · cases h

theorem raw_classes (f : Bytes) (e : PyErr) (h : raw f = .error e) : e = .mutagen ∨ e = .eof := by
  unfold raw at h
  split at h
  · rename_i e' he; cases h; exact init_classes f _ he
  · exact .inl (post_classes f _ _ h)

end Theora

/-! ### FLAC in Ogg -/
namespace OggFlac
open Mutagen.Spec.OggFlac

theorem siLoad_bytes (h : Fields) (ok : h.OK) : Flac.siLoad (streamInfoBytes h.si) = .ok h.si := by
  obtain ⟨_, _, h1, h2, h3, h4, h5, h5', h6, h6', h7, h7', h8, h9, _⟩ := ok
  have := C05.streaminfo_decode_build h.si h1 h2 h3 h4 h5' (by omega) ⟨h6, h6'⟩ ⟨h7, h7'⟩ h8 h9 []
  rw [List.append_nil] at this
  exact this

theorem length_streamInfoBytes (s : Flac.StreamInfo) : (streamInfoBytes s).length = 34 := by
  simp [streamInfoBytes, length_bitsToBytes, length_packFields]

theorem init_build (h : Fields) (ok : h.OK) :
    init (Spec.OggFlac.build h) = .ok
      { minBlocksize := h.si.minBlocksize, maxBlocksize := h.si.maxBlocksize, sampleRate := h.si.sampleRate,
        channels := h.si.channels, bitsPerSample := h.si.bitsPerSample, totalSamples := h.si.totalSamples,
        packets := h.numHeaders, serial := h.stream.serial,
        length := .div (.nat h.si.totalSamples) (.flt (.nat h.si.sampleRate)) } := by
  have hsi := siLoad_bytes h ok
  obtain ⟨h1, h2, _, _, _, _, _, _, _, _, _, _, _, _, hs⟩ := ok
  have hfh := findHeader_build magic h.stream (ident h) hs (by simp [ident, magic, List.isPrefixOf])
  have hb : Spec.OggFlac.build h = OggS.build h.stream (ident h) := rfl
  unfold init
  simp only [hb, hfh]
  have r5 : readAt (ident h) 5 8 = [1, 0] ++ toBE 2 h.numHeaders ++ [0x66, 0x4C, 0x61, 0x43] := by
    have : ident h = [0x7F, 0x46, 0x4C, 0x41, 0x43] ++ ([1, 0] ++ toBE 2 h.numHeaders ++ [0x66, 0x4C, 0x61, 0x43]) ++
        (toBE 1 h.blockHead ++ toBE 3 34 ++ streamInfoBytes h.si) := by
      simp only [ident, List.append_assoc]
    rw [this]
    exact Iff.readAt_mid _ _ _ _ _ rfl (by simp)
  have hd : (ident h).drop 17 = streamInfoBytes h.si := by
    have : ident h = ([0x7F, 0x46, 0x4C, 0x41, 0x43] ++ [1, 0] ++ toBE 2 h.numHeaders ++ [0x66, 0x4C, 0x61, 0x43] ++
        toBE 1 h.blockHead ++ toBE 3 34) ++ streamInfoBytes h.si := by
      simp only [ident, List.append_assoc]
    rw [this]
    exact List.drop_left' (by simp)
  have s4 : readAt ([1, 0] ++ toBE 2 h.numHeaders ++ [0x66, 0x4C, 0x61, 0x43]) 4 4 = [0x66, 0x4C, 0x61, 0x43] := by
    simp only [List.append_assoc]; read_field
  have s0 : readAt ([1, 0] ++ toBE 2 h.numHeaders ++ [0x66, 0x4C, 0x61, 0x43]) 0 1 = [1] := by
    simp only [List.append_assoc]; rfl
  have s1 : readAt ([1, 0] ++ toBE 2 h.numHeaders ++ [0x66, 0x4C, 0x61, 0x43]) 1 1 = [0] := by
    simp only [List.append_assoc]; rfl
  have s2 : readAt ([1, 0] ++ toBE 2 h.numHeaders ++ [0x66, 0x4C, 0x61, 0x43]) 2 2 = toBE 2 h.numHeaders := by
    simp only [List.append_assoc]; read_field
  have hl13 : ¬ (ident h).length < 13 := by simp [ident, length_streamInfoBytes]
  have hv : ofBE [1] = 1 ∧ ofBE [0] = 0 := by decide
  simp only [identPage, List.headD_cons, hl13, r5, ne_eq, not_true_eq_false, ↓reduceIte, s4, s0, s1, s2, hv.1, hv.2, and_self,
    hd, hsi, ofBE_toBE 2 _ (show h.numHeaders < 256 ^ 2 by omega)]

theorem raw_build (h : Fields) (ok : h.OK) : raw (Spec.OggFlac.build h) = .ok (expected h) := by
  have hfl := findLast_build h.stream (ident h) ok.2.2.2.2.2.2.2.2.2.2.2.2.2.2
  have hi := init_build h ok
  have hb : Spec.OggFlac.build h = OggS.build h.stream (ident h) := rfl
  unfold raw
  simp only [hi]
  unfold post
  by_cases ht : h.si.totalSamples = 0
  · simp only [ht, ne_eq, not_true_eq_false, ↓reduceIte, hb, hfl]
    simp only [expected, lastPage, ht, ne_eq, not_true_eq_false, ↓reduceIte]
  · simp only [ht, ne_eq, not_false_eq_true, ↓reduceIte, expected]

theorem parse_build (h : Fields) (ok : h.OK) : parse (Spec.OggFlac.build h) = .ok (expected h) := by
  unfold parse; rw [raw_build h ok]; rfl

theorem init_classes (f : Bytes) (e : PyErr) (h : init f = .error e) : e = .mutagen ∨ e = .eof := by
  unfold init at h
  split at h
  · rename_i e' he; cases h; exact findHeader_classes magic f _ he
  · simp only [] at h
    split at h
    · cases h; exact .inl rfl
    · split at h
      · cases h; exact .inl rfl
      · split at h
        · cases h; exact .inl rfl
        · split at h
          · cases h; exact .inl rfl
          · cases h

theorem post_classes (f : Bytes) (i : Info) (e : PyErr) (h : post f i = .error e) : e = .mutagen := by
  unfold post at h
  split at h
  · cases h
  · split at h
    · rename_i e' he; cases h; exact findLast_classes f _ _ he
    · cases h; rfl
    · cases h

theorem raw_classes (f : Bytes) (e : PyErr) (h : raw f = .error e) : e = .mutagen ∨ e = .eof := by
  unfold raw at h
  split at h
  · rename_i e' he; cases h; exact init_classes f _ he
  · exact .inl (post_classes f _ _ h)

end OggFlac

end Mutagen.Info
