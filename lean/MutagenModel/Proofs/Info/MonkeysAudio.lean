/- Proofs/Info/MonkeysAudio.lean — the APE_DESCRIPTOR/APE_HEADER and APE_HEADER_OLD layouts read back by the parser -/
import MutagenModel.Proofs.Info.Common
import MutagenModel.Spec.Info.MonkeysAudio
set_option linter.unusedVariables false
namespace Mutagen.Info.MonkeysAudio
open Mutagen Mutagen.Info Mutagen.Spec.MonkeysAudio

theorem length_new_build (h : New) (hmd5 : h.md5.length = 16) : h.build.length = 76 + h.extra.length := by
  unfold New.build
  simp only [List.length_append, length_toLE]
  rw [hmd5]
  have : Spec.MonkeysAudio.magic.length = 4 := rfl
  rw [this]
  omega

theorem duration_eq (tf bpf ffb rate : Nat) (hr : 1 ≤ rate) :
    (if rate ≠ 0 ∧ tf > 0 then (⟨((tf - 1) * bpf + ffb : Nat), rate⟩ : Ratio) else ⟨0, 1⟩) = duration tf bpf ffb rate := by
  unfold duration
  by_cases h0 : tf = 0
  · simp [h0]
  · have : rate ≠ 0 ∧ tf > 0 := ⟨by omega, by omega⟩
    simp [h0, this]

theorem parse_new (h : New) (ok : h.OK) (h52 : h.extra = []) (rest : Bytes) :
    parse (h.build ++ rest) = .ok h.expected := by
  obtain ⟨hv, hv2, hpad, hd, hhb, hsb, hhd, hfd, hfh, htb, hmd5, hcl, hff, hbpf, hffb, htf, hbits, hch, hr1, hr⟩ := ok
  have hlen : (readAt (h.build ++ rest) 0 76).length = 76 := by
    apply length_readAt_of_le; simp [length_new_build h hmd5]; omega
  have hmagic : startsWith (readAt (h.build ++ rest) 0 76) magic = true := by
    simp only [startsWith, readAt_readAt _ _ _ _ _ (show 0 + magic.length ≤ 76 by decide)]
    unfold New.build
    simp only [List.append_assoc, magic, Spec.MonkeysAudio.magic]
    rd_simp
    rfl
  have hver : uLE (readAt (h.build ++ rest) 0 76) 4 2 = h.version := by
    simp only [uLE, readAt_readAt _ _ _ _ _ (show 4 + 2 ≤ 76 by decide)]
    unfold New.build
    simp only [List.append_assoc, Spec.MonkeysAudio.magic]
    rd_simp
    exact ofLE_toLE 2 _ (by omega)
  have hraw : rawNew (readAt (h.build ++ rest) 0 76) =
      { blocksPerFrame := h.blocksPerFrame, finalFrameBlocks := h.finalFrameBlocks, totalFrames := h.totalFrames,
        bitsPerSample := h.bits, channels := h.channels, sampleRate := h.rate } := by
    simp only [rawNew, uLE, readAt_readAt _ _ _ _ _ (show 56 + 4 ≤ 76 by decide),
      readAt_readAt _ _ _ _ _ (show 60 + 4 ≤ 76 by decide), readAt_readAt _ _ _ _ _ (show 64 + 4 ≤ 76 by decide),
      readAt_readAt _ _ _ _ _ (show 68 + 2 ≤ 76 by decide), readAt_readAt _ _ _ _ _ (show 70 + 2 ≤ 76 by decide),
      readAt_readAt _ _ _ _ _ (show 72 + 4 ≤ 76 by decide)]
    unfold New.build
    simp only [h52, List.append_assoc, Spec.MonkeysAudio.magic, List.nil_append]
    simp (disch := simp [hmd5]) only [readAt_append_ge, readAt_zero_append, List.length_cons, List.length_nil,
      length_toLE, Nat.reduceAdd, Nat.reduceSub, Nat.zero_add, Nat.add_zero, hmd5]
    rw [ofLE_toLE 4 _ (show h.blocksPerFrame < 256 ^ 4 by omega), ofLE_toLE 4 _ (show h.finalFrameBlocks < 256 ^ 4 by omega),
      ofLE_toLE 4 _ (show h.totalFrames < 256 ^ 4 by omega), ofLE_toLE 2 _ (show h.bits < 256 ^ 2 by omega),
      ofLE_toLE 2 _ (show h.channels < 256 ^ 2 by omega), ofLE_toLE 4 _ (show h.rate < 256 ^ 4 by omega)]
  unfold parse
  simp only [hlen, hmagic, hver, hraw, ge_iff_le, hv, if_true, finish, duration_eq _ _ _ _ hr1, New.expected]
  simp

theorem length_old_build_ge (h : Old) : 32 + h.wavHeader.length ≤ h.build.length := by
  unfold Old.build
  simp only [List.length_append, length_toLE]
  have : Spec.MonkeysAudio.magic.length = 4 := rfl
  rw [this]
  omega

theorem old_fixed (h : Old) (ok : h.OK) (rest : Bytes) (hlen : 76 ≤ (h.build ++ rest).length) :
    (readAt (h.build ++ rest) 0 76).length = 76 ∧
    startsWith (readAt (h.build ++ rest) 0 76) magic = true ∧
    uLE (readAt (h.build ++ rest) 0 76) 4 2 = h.version ∧
    uLE (readAt (h.build ++ rest) 0 76) 6 2 = h.compressionLevel ∧
    uLE (readAt (h.build ++ rest) 0 76) 10 2 = h.channels ∧
    uLE (readAt (h.build ++ rest) 0 76) 12 4 = h.rate ∧
    uLE (readAt (h.build ++ rest) 0 76) 24 4 = h.totalFrames ∧
    uLE (readAt (h.build ++ rest) 0 76) 28 4 = h.finalFrameBlocks := by
  obtain ⟨hv, hcl, hff, hch, hr1, hr, htb, htf, hffb, hpk, hse, hwl, hw⟩ := ok
  refine ⟨length_readAt_of_le _ _ _ (by omega), ?_, ?_, ?_, ?_, ?_, ?_, ?_⟩
  · simp only [startsWith, readAt_readAt _ _ _ _ _ (show 0 + magic.length ≤ 76 by decide)]
    unfold Old.build
    simp only [List.append_assoc, magic, Spec.MonkeysAudio.magic]
    rd_simp
    rfl
  all_goals
    simp only [uLE, readAt_readAt _ _ _ _ _ (show 4 + 2 ≤ 76 by decide), readAt_readAt _ _ _ _ _ (show 6 + 2 ≤ 76 by decide),
      readAt_readAt _ _ _ _ _ (show 10 + 2 ≤ 76 by decide), readAt_readAt _ _ _ _ _ (show 12 + 4 ≤ 76 by decide),
      readAt_readAt _ _ _ _ _ (show 24 + 4 ≤ 76 by decide), readAt_readAt _ _ _ _ _ (show 28 + 4 ≤ 76 by decide)]
    unfold Old.build
    simp only [List.append_assoc, Spec.MonkeysAudio.magic]
    rd_simp
    first
      | exact ofLE_toLE 2 _ (by omega)
      | exact ofLE_toLE 4 _ (by omega)

theorem parse_old_except_bits (h : Old) (ok : h.OK) (rest : Bytes) (hlen : 76 ≤ (h.build ++ rest).length) :
    parse (h.build ++ rest) =
      .ok { h.expected with bitsPerSample := (rawOld h.version (readAt (h.build ++ rest) 0 76)).bitsPerSample } := by
  obtain ⟨h76, hmagic, hver, hcl, hch, hrate, htf, hffb⟩ := old_fixed h ok rest hlen
  have hv : ¬ (3980 ≤ h.version) := by have := ok.1; omega
  unfold parse
  simp only [h76, hmagic, hver, ge_iff_le, hv, if_false, finish]
  simp only [rawOld, hcl, hch, hrate, htf, hffb, duration_eq _ _ _ _ ok.2.2.2.2.1, Old.expected, Old.blocksPerFrame]
  simp


theorem old_bits_lt (h : Old) : h.bits < 2 ^ 16 := by
  unfold Old.bits; split
  · decide
  · split <;> decide

theorem old_wav_bits (h : Old) (ok : h.OK) (rest : Bytes)
    (hpk : h.formatFlags / 4 % 2 = 1) (hsk : h.formatFlags / 16 % 2 = 1)
    (c r n br ba : Nat) (more : Bytes) (hc : c < 2 ^ 16) (hr : r < 2 ^ 32) (hn : 36 + n < 2 ^ 32) (hbr : br < 2 ^ 32)
    (hba : ba < 2 ^ 16) (hwav : h.wavHeader = pcmWavHeader c r h.bits n br ba ++ more) :
    (rawOld h.version (readAt (h.build ++ rest) 0 76)).bitsPerSample = h.bits := by
  have hb := old_bits_lt h
  simp only [rawOld, startsWith, uLE, readAt_readAt _ _ _ _ _ (show 0 + waveFmt.length ≤ 28 by decide),
    readAt_readAt _ _ _ _ _ (show 48 + 28 ≤ 76 by decide), readAt_readAt _ _ _ _ _ (show 74 + 2 ≤ 76 by decide)]
  unfold Old.build
  rw [hwav]
  simp only [hpk, hsk, if_true, pcmWavHeader, List.append_assoc, Spec.MonkeysAudio.magic, waveFmt]
  rd_simp
  rw [ofLE_toLE 2 _ (show h.bits < 256 ^ 2 by omega)]
  simp

end Mutagen.Info.MonkeysAudio
