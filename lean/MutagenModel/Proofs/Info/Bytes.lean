/- Proofs/Info/Bytes.lean — reading fields back out of concatenated fixed-width integers -/
import MutagenModel.Proofs.IntCodec
import MutagenModel.Proofs.Info.IffWalk
import MutagenModel.Spec.Info.IffChunk
set_option linter.unusedVariables false
namespace Mutagen.Info
open Mutagen Mutagen.Iff Mutagen.Spec

theorem drop_toLE_ge (w n k : Nat) (h : w ≤ k) : (toLE w n).drop k = [] := by
  apply List.drop_eq_nil_of_le; simp [h]
theorem drop_toBE_ge (w n k : Nat) (h : w ≤ k) : (toBE w n).drop k = [] := by
  apply List.drop_eq_nil_of_le; simp [h]
theorem take_toLE_ge (w n k : Nat) (h : w ≤ k) : (toLE w n).take k = toLE w n := by
  apply List.take_of_length_le; simp [h]
theorem take_toBE_ge (w n k : Nat) (h : w ≤ k) : (toBE w n).take k = toBE w n := by
  apply List.take_of_length_le; simp [h]

/-- a chunk of the specification side is one the walk accepts -/
theorem mkChunk_ok (d : Dialect) (id data : Bytes) (hid : id.length = 4) (hc : (chunkId id).isSome = true)
    (hnc : d.containers.lookup ((chunkId id).getD []) = none) (hlen : data.length < 256 ^ d.sizeW) :
    (mkChunk id data).OK d := by
  refine ⟨⟨hid, hlen, ?_, ?_⟩, by simp [mkChunk]⟩
  · simp only [sid, mkChunk]
    cases h : chunkId id with
    | none => rw [h] at hc; cases hc
    | some s => rfl
  · unfold containerOK; simp only [sid, mkChunk, hnc]

theorem length_render_mk (d : Dialect) (id data : Bytes) (hid : id.length = 4) :
    ((mkChunk id data).render d).length = hs d + data.length + data.length % 2 := by
  simp [Chunk.render, mkChunk, hs, hid]; omega

end Mutagen.Info

namespace Mutagen.Info
open Mutagen Mutagen.Iff Mutagen.Spec

/-- every well-formed chunk has even rendered length when the header size is even -/
theorem renderChunks_even (d : Dialect) (hd : hs d % 2 = 0) (cs : List Chunk) (hok : ∀ c ∈ cs, c.OK d) :
    (renderChunks d cs).length % 2 = 0 := by
  induction cs with
  | nil => simp [renderChunks]
  | cons c r ih =>
    obtain ⟨⟨h4, _⟩, hpad⟩ := hok c (by simp)
    have := ih (fun x hx => hok x (by simp [hx]))
    simp only [renderChunks, List.length_append, length_render d c h4, hpad]
    omega

/-- root, walk, lookup and `read()` in one step: on a rendered file (followed by any bytes) the lookup of
`ids` gives the first chunk carrying one of them, and reading it gives its data -/
theorem located (d : Dialect) (hd : d.WF) (hev : hs d % 2 = 0) (name : Bytes) (hname : NameOK d name)
    (bs : List Chunk) (c : Chunk) (as : List Chunk) (R : Bytes) (ids : List Bytes)
    (hok : ∀ x ∈ bs ++ c :: as, x.OK d)
    (hsize : name.length + (renderChunks d (bs ++ c :: as)).length < 256 ^ d.sizeW)
    (hb : ∀ x ∈ bs, ids.contains (sid x) = false) (hc : ids.contains (sid c) = true) :
    parseRoot d (renderFile d name (bs ++ c :: as) ++ R) = .ok (name.length + (renderChunks d (bs ++ c :: as)).length) ∧
    walk d (renderFile d name (bs ++ c :: as) ++ R) (name.length + (renderChunks d (bs ++ c :: as)).length)
      = .ok (recsOf d (hs d + 4) (bs ++ c :: as)) ∧
    find ids (recsOf d (hs d + 4) (bs ++ c :: as)) = some (recOf (hs d + 4 + (renderChunks d bs).length) c) ∧
    chunkRead d (renderFile d name (bs ++ c :: as) ++ R) (recOf (hs d + 4 + (renderChunks d bs).length) c) = c.data := by
  refine ⟨parseRoot_rest d hd name hname _ R hsize,
    walk_rest d hd name hname.1 _ R hok (renderChunks_even d hev _ hok),
    find_first d ids _ bs c as hb hc, ?_⟩
  have hfile : renderFile d name (bs ++ c :: as) ++ R =
      (d.rootId ++ enc d (name.length + (renderChunks d (bs ++ c :: as)).length) ++ name ++ renderChunks d bs) ++
        c.render d ++ (renderChunks d as ++ R) := by
    simp [renderFile, renderChunks_append, renderChunks, List.append_assoc]
  have hP : (d.rootId ++ enc d (name.length + (renderChunks d (bs ++ c :: as)).length) ++ name ++ renderChunks d bs).length
      = hs d + 4 + (renderChunks d bs).length := by
    simp [hs, hd.1, hname.1]; omega
  have hread := chunkRead_mid d
    (d.rootId ++ enc d (name.length + (renderChunks d (bs ++ c :: as)).length) ++ name ++ renderChunks d bs)
    (renderChunks d as ++ R) c (hok c (by simp))
  rw [← hfile, hP] at hread
  exact hread

end Mutagen.Info
