/- Proofs/Info/MpegVbri.lean — the VBRI header of the first frame -/
import MutagenModel.Proofs.Info.MpegXing
set_option linter.unusedVariables false
set_option linter.unusedSimpArgs false
namespace Mutagen.Info.Mp3
open Mutagen Mutagen.Info Mutagen.Mpeg Mutagen.Spec.Mp3 Mutagen.Spec.Mpeg

theorem readAt_skipA (A B : Bytes) (k n m : Nat) (hA : A.length = m) (hk : m ≤ k) : readAt (A ++ B) k n = readAt B (k - m) n := by
  unfold readAt
  rw [List.drop_append, List.drop_eq_nil_of_le (by omega), hA]; simp

theorem readAt_headA (A B : Bytes) (k n : Nat) (hk : k = 0) (hA : A.length = n) : readAt (A ++ B) k n = A := by
  subst hk; unfold readAt; simp [List.take_left' hA]

theorem parseVbri_build (f : Bytes) (q : Nat) (t : VbriTag) (ok : t.OK) (after : Bytes) (hf : f.drop q = t.render ++ after) :
    parseVbri f q = some { bytes := t.bytes, frames := t.frames } := by
  obtain ⟨h1, h2, h3, h4, h5, h6, h7, h8, h9⟩ := ok
  have hfr : f.drop q = ([0x56, 0x42, 0x52, 0x49] ++ toBE 2 1 ++ toBE 2 t.delay ++ toBE 2 t.quality ++ toBE 4 t.bytes ++ toBE 4 t.frames ++ toBE 2 t.tocEntries ++
      toBE 2 t.tocScale ++ toBE 2 t.tocEntrySize ++ toBE 2 t.tocFramesPerEntry) ++ (t.toc ++ after) := by
    rw [hf]; simp [VbriTag.render, List.append_assoc]
  generalize hd : ([0x56, 0x42, 0x52, 0x49] ++ toBE 2 1 ++ toBE 2 t.delay ++ toBE 2 t.quality ++ toBE 4 t.bytes ++ toBE 4 t.frames ++ toBE 2 t.tocEntries ++
      toBE 2 t.tocScale ++ toBE 2 t.tocEntrySize ++ toBE 2 t.tocFramesPerEntry : Bytes) = d at hfr
  have hdl : d.length = 26 := by rw [← hd]; simp
  have hdata : readAt f q 26 = d := by unfold readAt; rw [hfr]; exact List.take_left' hdl
  have htoc : readAt f (q + 26) (t.tocEntrySize * t.tocEntries) = t.toc := by
    unfold readAt
    rw [← List.drop_drop, hfr, List.drop_left' hdl]; exact List.take_left' h9
  have r0 : d.take 4 = asciiB "VBRI" := by rw [← hd]; rfl
  have r4 : readAt d 4 2 = toBE 2 1 := by
    rw [← hd]; simp only [List.append_assoc]
    rw [readAt_skipA _ _ _ _ 4 rfl (by decide)]; exact readAt_headA _ _ _ _ (by decide) (by simp)
  have r10 : readAt d 10 4 = toBE 4 t.bytes := by
    rw [← hd]; simp only [List.append_assoc]
    rw [readAt_skipA _ _ _ _ 4 rfl (by decide), readAt_skipA _ _ _ _ 2 (length_toBE _ _) (by decide), readAt_skipA _ _ _ _ 2 (length_toBE _ _) (by decide),
      readAt_skipA _ _ _ _ 2 (length_toBE _ _) (by decide)]
    exact readAt_headA _ _ _ _ (by decide) (by simp)
  have r14 : readAt d 14 4 = toBE 4 t.frames := by
    rw [← hd]; simp only [List.append_assoc]
    rw [readAt_skipA _ _ _ _ 4 rfl (by decide), readAt_skipA _ _ _ _ 2 (length_toBE _ _) (by decide), readAt_skipA _ _ _ _ 2 (length_toBE _ _) (by decide),
      readAt_skipA _ _ _ _ 2 (length_toBE _ _) (by decide), readAt_skipA _ _ _ _ 4 (length_toBE _ _) (by decide)]
    exact readAt_headA _ _ _ _ (by decide) (by simp)
  have r18 : readAt d 18 2 = toBE 2 t.tocEntries := by
    rw [← hd]; simp only [List.append_assoc]
    rw [readAt_skipA _ _ _ _ 4 rfl (by decide), readAt_skipA _ _ _ _ 2 (length_toBE _ _) (by decide), readAt_skipA _ _ _ _ 2 (length_toBE _ _) (by decide),
      readAt_skipA _ _ _ _ 2 (length_toBE _ _) (by decide), readAt_skipA _ _ _ _ 4 (length_toBE _ _) (by decide), readAt_skipA _ _ _ _ 4 (length_toBE _ _) (by decide)]
    exact readAt_headA _ _ _ _ (by decide) (by simp)
  have r22 : readAt d 22 2 = toBE 2 t.tocEntrySize := by
    rw [← hd]; simp only [List.append_assoc]
    rw [readAt_skipA _ _ _ _ 4 rfl (by decide), readAt_skipA _ _ _ _ 2 (length_toBE _ _) (by decide), readAt_skipA _ _ _ _ 2 (length_toBE _ _) (by decide),
      readAt_skipA _ _ _ _ 2 (length_toBE _ _) (by decide), readAt_skipA _ _ _ _ 4 (length_toBE _ _) (by decide), readAt_skipA _ _ _ _ 4 (length_toBE _ _) (by decide),
      readAt_skipA _ _ _ _ 2 (length_toBE _ _) (by decide), readAt_skipA _ _ _ _ 2 (length_toBE _ _) (by decide)]
    exact readAt_headA _ _ _ _ (by decide) (by simp)
  have hes : t.tocEntrySize < 256 ^ 2 := by rcases h7 with h | h <;> omega
  have hne : ¬ (t.tocEntrySize ≠ 2 ∧ t.tocEntrySize ≠ 4) := by rcases h7 with h | h <;> omega
  unfold parseVbri
  simp only [hdata, hdl, r0, r4, r10, r14, r18, r22, ne_eq, not_true_eq_false, or_self, ↓reduceIte, ofBE_toBE 2 1 (by decide),
    ofBE_toBE 2 _ (show t.tocEntries < 256 ^ 2 by omega), ofBE_toBE 2 _ hes, htoc, h9, hne,
    ofBE_toBE 4 _ (show t.bytes < 256 ^ 4 by omega), ofBE_toBE 4 _ (show t.frames < 256 ^ 4 by omega)]


theorem sideInfo_cases (h : Hdr) : h.sideInfo = 32 ∨ h.sideInfo = 17 ∨ h.sideInfo = 9 := by
  unfold Hdr.sideInfo sideInfoSize
  cases decide (h.version = 3) <;> cases decide (h.mode = 3) <;> simp

theorem parse_vbri_at (pre : Bytes) (s : VbriStream) (ok : s.OK) :
    parseFrom (pre ++ s.build) pre.length = .ok { s.expected with frameOffset := pre.length + s.lead.render.length } := by
  obtain ⟨hlead, hok, hl3, hside, htag, hnx⟩ := ok
  obtain ⟨rest, hscan⟩ := lead_scan_at pre s.lead hlead s.hdr (s.side ++ (s.tag.render ++ s.after))
  have hb : s.build = s.lead.render ++ (s.hdr.bytes ++ (s.side ++ (s.tag.render ++ s.after))) := rfl
  rw [← hb] at hscan
  generalize ho : pre.length + s.lead.render.length = o at *
  have d0 : (pre ++ s.build).drop o = s.hdr.bytes ++ (s.side ++ (s.tag.render ++ s.after)) := by rw [← ho]; exact drop_at2 _ _ _
  generalize hF : pre ++ s.build = F at *
  have dq : F.drop (o + 36) = s.tag.render ++ s.after := by
    rw [← List.drop_drop, d0, ← List.append_assoc]
    exact List.drop_left' (by simp [length_hdr, hside])
  have hv := parseVbri_build F (o + 36) s.tag htag s.after dq
  have hfs := frameSize_infoOf s.hdr hok
  have hlay : (infoOf s.hdr).layer = 3 := hl3
  have hxo := xing_offset s.hdr hok
  -- no Xing tag
  have hnox : parseXing F (o + (4 + s.hdr.sideInfo)) = none := by
    apply xing_none
    rw [← readAt_drop, d0]
    rcases sideInfo_cases s.hdr with h32 | h17 | h9
    · rw [h32, ← List.append_assoc, readAt_skipA _ _ _ _ 36 (by simp [length_hdr, hside]) (by decide)]
      have : readAt (s.tag.render ++ s.after) (4 + 32 - 36) 4 = [0x56, 0x42, 0x52, 0x49] := by
        simp [VbriTag.render, readAt, List.append_assoc]
      rw [this]; decide
    · rw [h17] at hnx ⊢
      have : readAt (s.hdr.bytes ++ (s.side ++ (s.tag.render ++ s.after))) (4 + 17) 4 = readAt (s.hdr.bytes ++ s.side) (4 + 17) 4 := by
        rw [← List.append_assoc]
        unfold readAt
        rw [List.drop_append_of_le_length (by simp [length_hdr, hside]), List.take_append_of_le_length (by simp [length_hdr, hside])]
      rw [this]; exact hnx
    · rw [h9] at hnx ⊢
      have : readAt (s.hdr.bytes ++ (s.side ++ (s.tag.render ++ s.after))) (4 + 9) 4 = readAt (s.hdr.bytes ++ s.side) (4 + 9) 4 := by
        rw [← List.append_assoc]
        unfold readAt
        rw [List.drop_append_of_le_length (by simp [length_hdr, hside]), List.take_append_of_le_length (by simp [length_hdr, hside])]
      rw [this]; exact hnx
  have hm : mpegFrame F o = .ok (some (vbrHeader F { offset := o, h := infoOf s.hdr, bitrate := .int (infoOf s.hdr).bitrate },
      o + (infoOf s.hdr).frameLength)) := by
    unfold mpegFrame
    rw [d0, decode_hdr s.hdr hok]
    simp only [hlay, ↓reduceIte]
  have hvb : vbrHeader F { offset := o, h := infoOf s.hdr, bitrate := .int (infoOf s.hdr).bitrate } =
      { offset := o, h := infoOf s.hdr, sketchy := false, bitrateMode := some 2, encoderInfo := some (asciiB "FhG"),
        length := some (.div (.flt (.nat (s.hdr.samples * s.tag.frames))) (.nat (infoOf s.hdr).sampleRate)),
        bitrate := if s.hdr.samples * s.tag.frames ≠ 0 then
            .trunc (.div (.nat (s.tag.bytes * 8)) (.div (.flt (.nat (s.hdr.samples * s.tag.frames))) (.nat (infoOf s.hdr).sampleRate)))
          else .int (infoOf s.hdr).bitrate } := by
    simp only [vbrHeader, hxo, hnox, Generated.vbriOffset, hv, hfs]
  have hsk : (vbrHeader F { offset := o, h := infoOf s.hdr, bitrate := .int (infoOf s.hdr).bitrate }).sketchy = false := by
    rw [hvb]
  have htf := takeFrames_first F o _ _ hm hsk
  have hsl := syncLoop_first F o rest _ htf hsk
  unfold parseFrom
  simp only [hscan, hsl, hvb]
  simp only [VbriStream.expected, headerInfo, infoOf, Option.getD]

theorem parse_vbri (s : VbriStream) (ok : s.OK) : parse s.build = .ok s.expected := by
  have h := parse_vbri_at [] s ok
  simp only [List.nil_append, List.length_nil, Nat.zero_add] at h
  rw [show parse s.build = parseFrom s.build 0 from rfl, h]
  rfl

end Mutagen.Info.Mp3
