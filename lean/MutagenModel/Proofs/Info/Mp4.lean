/- Proofs/Info/Mp4.lean — the mdhd and AudioSampleEntry decoders on specification-built payloads -/
import MutagenModel.Proofs.Info.OggCodecs
import MutagenModel.Spec.Info.Mp4
set_option linter.unusedVariables false
set_option linter.unusedSimpArgs false
namespace Mutagen.Info.Mp4
open Mutagen Mutagen.Info Mutagen.Spec.Mp4Info

theorem ofBE_append' (a b : Bytes) : ofBE (a ++ b) = ofBE a * 256 ^ b.length + ofBE b := by
  simp only [ofBE, List.reverse_append]
  have : ∀ (x y : Bytes), ofLE (x ++ y) = ofLE x + 256 ^ x.length * ofLE y := by
    intro x y
    induction x with
    | nil => simp [ofLE]
    | cons c r ih => simp only [List.cons_append, ofLE, ih, List.length_cons, Nat.pow_succ]; rw [Nat.mul_add]; ac_rfl
  rw [this]; simp only [List.length_reverse]; rw [Nat.mul_comm, Nat.add_comm]

theorem mdhd_v0 (m : Mdhd) (ok : m.OK) (hv : m.version = 0) (rest : Bytes) :
    mdhdLength (mdhdPayload m ++ rest) = .ok (mdhdExpected m) := by
  obtain ⟨_, h2, h3, h4, h5, h6, h7⟩ := ok
  simp only [hv, show ¬ (0 = 1) by decide, ↓reduceIte] at h7
  have hp : mdhdPayload m ++ rest = toBE 1 0 ++ (toBE 3 m.flags ++ (toBE 4 m.creationTime ++ (toBE 4 m.modificationTime ++
      (toBE 4 m.timescale ++ (toBE 4 m.duration ++ (toBE 2 m.language ++ (toBE 2 m.preDefined ++ rest))))))) := by
    simp only [mdhdPayload, hv, show ¬ (0 = 1) by decide, ↓reduceIte, List.append_assoc]
  unfold mdhdLength fullAtom
  rw [hp]
  have hl : ¬ (toBE 1 0 ++ (toBE 3 m.flags ++ (toBE 4 m.creationTime ++ (toBE 4 m.modificationTime ++
      (toBE 4 m.timescale ++ (toBE 4 m.duration ++ (toBE 2 m.language ++ (toBE 2 m.preDefined ++ rest))))))) ).length < 4 := by
    simp only [List.length_append, length_toBE]; omega
  have ht : (toBE 1 0 ++ (toBE 3 m.flags ++ (toBE 4 m.creationTime ++ (toBE 4 m.modificationTime ++
      (toBE 4 m.timescale ++ (toBE 4 m.duration ++ (toBE 2 m.language ++ (toBE 2 m.preDefined ++ rest)))))))).take 1 = toBE 1 0 :=
    List.take_left' (by simp)
  have hd : (toBE 1 0 ++ (toBE 3 m.flags ++ (toBE 4 m.creationTime ++ (toBE 4 m.modificationTime ++
      (toBE 4 m.timescale ++ (toBE 4 m.duration ++ (toBE 2 m.language ++ (toBE 2 m.preDefined ++ rest)))))))).drop 4 =
      toBE 4 m.creationTime ++ (toBE 4 m.modificationTime ++
      (toBE 4 m.timescale ++ (toBE 4 m.duration ++ (toBE 2 m.language ++ (toBE 2 m.preDefined ++ rest))))) := by
    rw [← List.append_assoc]; exact List.drop_left' (by simp)
  simp only [hl, ↓reduceIte, ht, hd, ofBE_toBE 1 0 (by decide)]
  have hs : readAt (toBE 4 m.creationTime ++ (toBE 4 m.modificationTime ++
      (toBE 4 m.timescale ++ (toBE 4 m.duration ++ (toBE 2 m.language ++ (toBE 2 m.preDefined ++ rest)))))) 8 8 =
      toBE 4 m.timescale ++ toBE 4 m.duration := by
    rw [readAt_skip _ _ _ _ 4 (length_toBE _ _) (by decide), readAt_skip _ _ _ _ 4 (length_toBE _ _) (by decide)]
    rw [← List.append_assoc]
    exact readAt_head' _ _ _ _ (by decide) (by simp)
  rw [hs]
  have hl8 : (toBE 4 m.timescale ++ toBE 4 m.duration).length = 8 := by simp
  have t4 : (toBE 4 m.timescale ++ toBE 4 m.duration).take 4 = toBE 4 m.timescale := List.take_left' (by simp)
  have d4 : (toBE 4 m.timescale ++ toBE 4 m.duration).drop 4 = toBE 4 m.duration := List.drop_left' (by simp)
  have hu : ¬ m.timescale = 0 := by omega
  simp only [hl8, ne_eq, not_true_eq_false, ↓reduceIte, t4, d4, ofBE_toBE 4 _ (show m.timescale < 256 ^ 4 by omega),
    ofBE_toBE 4 _ (show m.duration < 256 ^ 4 by omega), hu, mdhdExpected]

theorem mdhd_v1 (m : Mdhd) (ok : m.OK) (hv : m.version = 1) (rest : Bytes) :
    mdhdLength (mdhdPayload m ++ rest) = .ok (mdhdExpected m) := by
  obtain ⟨_, h2, h3, h4, h5, h6, h7⟩ := ok
  simp only [hv, ↓reduceIte] at h7
  have hp : mdhdPayload m ++ rest = toBE 1 1 ++ (toBE 3 m.flags ++ (toBE 8 m.creationTime ++ (toBE 8 m.modificationTime ++
      (toBE 4 m.timescale ++ (toBE 8 m.duration ++ (toBE 2 m.language ++ (toBE 2 m.preDefined ++ rest))))))) := by
    simp only [mdhdPayload, hv, ↓reduceIte, List.append_assoc]
  unfold mdhdLength fullAtom
  rw [hp]
  have hl : ¬ (toBE 1 1 ++ (toBE 3 m.flags ++ (toBE 8 m.creationTime ++ (toBE 8 m.modificationTime ++
      (toBE 4 m.timescale ++ (toBE 8 m.duration ++ (toBE 2 m.language ++ (toBE 2 m.preDefined ++ rest))))))) ).length < 4 := by
    simp only [List.length_append, length_toBE]; omega
  have ht : (toBE 1 1 ++ (toBE 3 m.flags ++ (toBE 8 m.creationTime ++ (toBE 8 m.modificationTime ++
      (toBE 4 m.timescale ++ (toBE 8 m.duration ++ (toBE 2 m.language ++ (toBE 2 m.preDefined ++ rest)))))))).take 1 = toBE 1 1 :=
    List.take_left' (by simp)
  have hd : (toBE 1 1 ++ (toBE 3 m.flags ++ (toBE 8 m.creationTime ++ (toBE 8 m.modificationTime ++
      (toBE 4 m.timescale ++ (toBE 8 m.duration ++ (toBE 2 m.language ++ (toBE 2 m.preDefined ++ rest)))))))).drop 4 =
      toBE 8 m.creationTime ++ (toBE 8 m.modificationTime ++
      (toBE 4 m.timescale ++ (toBE 8 m.duration ++ (toBE 2 m.language ++ (toBE 2 m.preDefined ++ rest))))) := by
    rw [← List.append_assoc]; exact List.drop_left' (by simp)
  simp only [hl, ↓reduceIte, ht, hd, ofBE_toBE 1 1 (by decide), show ¬ (1 = 0) by decide]
  have hs : readAt (toBE 8 m.creationTime ++ (toBE 8 m.modificationTime ++
      (toBE 4 m.timescale ++ (toBE 8 m.duration ++ (toBE 2 m.language ++ (toBE 2 m.preDefined ++ rest)))))) 16 12 =
      toBE 4 m.timescale ++ toBE 8 m.duration := by
    rw [readAt_skip _ _ _ _ 8 (length_toBE _ _) (by decide), readAt_skip _ _ _ _ 8 (length_toBE _ _) (by decide)]
    rw [← List.append_assoc]
    exact readAt_head' _ _ _ _ (by decide) (by simp)
  rw [hs]
  have hl12 : (toBE 4 m.timescale ++ toBE 8 m.duration).length = 12 := by simp
  have t4 : (toBE 4 m.timescale ++ toBE 8 m.duration).take 4 = toBE 4 m.timescale := List.take_left' (by simp)
  have d4 : (toBE 4 m.timescale ++ toBE 8 m.duration).drop 4 = toBE 8 m.duration := List.drop_left' (by simp)
  have hu : ¬ m.timescale = 0 := by omega
  simp only [hl12, ne_eq, not_true_eq_false, ↓reduceIte, t4, d4, ofBE_toBE 4 _ (show m.timescale < 256 ^ 4 by omega),
    ofBE_toBE 8 _ (show m.duration < 256 ^ 8 by omega), hu, mdhdExpected]

theorem mdhd_build (m : Mdhd) (ok : m.OK) (rest : Bytes) : mdhdLength (mdhdPayload m ++ rest) = .ok (mdhdExpected m) := by
  rcases ok.1 with hv | hv
  · exact mdhd_v0 m ok hv rest
  · exact mdhd_v1 m ok hv rest

theorem mdhd_classes (p : Bytes) (e : PyErr) (h : mdhdLength p = .error e) : e = .mutagen ∨ e = .struct_ := by
  unfold mdhdLength at h
  split at h
  · rename_i e' he
    cases h
    unfold fullAtom at he
    split at he
    · cases he; exact .inl rfl
    · cases he
  · split at h
    · simp only [] at h
      split at h
      · cases h; exact .inr rfl
      · cases h
    · split at h
      · simp only [] at h
        split at h
        · cases h; exact .inr rfl
        · cases h
      · cases h; exact .inl rfl

theorem length_entryFixed (e : AudioEntry) : (entryFixed e).length = 28 := by simp [entryFixed]

theorem entryBase_fixed (e : AudioEntry) (ok : e.OK) (rest : Bytes) :
    entryBase (entryFixed e ++ rest) = .ok { channels := e.channelCount, sampleSize := e.sampleSize, sampleRate := e.sampleRate } := by
  obtain ⟨h1, h2, h3, h4, h5, h6, h7⟩ := ok
  have hl : ¬ (entryFixed e ++ rest).length < 28 := by simp [length_entryFixed]
  have r16 : readAt (entryFixed e ++ rest) 16 2 = toBE 2 e.channelCount := by
    simp only [entryFixed, List.append_assoc]
    rw [readAt_skip _ _ _ _ 6 (length_zeros 6) (by decide), readAt_skip _ _ _ _ 2 (length_toBE _ _) (by decide),
      readAt_skip _ _ _ _ 8 (length_zeros 8) (by decide)]
    read_field
  have r18 : readAt (entryFixed e ++ rest) 18 2 = toBE 2 e.sampleSize := by
    simp only [entryFixed, List.append_assoc]
    rw [readAt_skip _ _ _ _ 6 (length_zeros 6) (by decide), readAt_skip _ _ _ _ 2 (length_toBE _ _) (by decide),
      readAt_skip _ _ _ _ 8 (length_zeros 8) (by decide)]
    read_field
  have r24 : readAt (entryFixed e ++ rest) 24 4 = toBE 4 (e.sampleRate * 2 ^ 16 + e.sampleRateFraction) := by
    simp only [entryFixed, List.append_assoc]
    rw [readAt_skip _ _ _ _ 6 (length_zeros 6) (by decide), readAt_skip _ _ _ _ 2 (length_toBE _ _) (by decide),
      readAt_skip _ _ _ _ 8 (length_zeros 8) (by decide)]
    read_field
  unfold entryBase
  rw [if_neg hl]
  simp only [r16, r18, r24, ofBE_toBE 2 _ (show e.channelCount < 256 ^ 2 by omega), ofBE_toBE 2 _ (show e.sampleSize < 256 ^ 2 by omega),
    ofBE_toBE 4 _ (show e.sampleRate * 2 ^ 16 + e.sampleRateFraction < 256 ^ 4 by omega)]
  have : (e.sampleRate * 2 ^ 16 + e.sampleRateFraction) / 2 ^ 16 = e.sampleRate := by omega
  rw [this]

end Mutagen.Info.Mp4
