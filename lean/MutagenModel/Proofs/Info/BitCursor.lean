/- Proofs/Info/BitCursor.lean — the bit-position reader of Model/Info/Aac.lean on a file whose bits from the
reader's position on are known: `At f r rem` -/
import MutagenModel.Proofs.Info.Aac
set_option linter.unusedVariables false
set_option linter.unusedSimpArgs false
namespace Mutagen.Info.Aac
open Mutagen Mutagen.Info

/-- the bits of the file from the reader's position on are `rem` -/
def At (f : Bytes) (r : R) (rem : List Bool) : Prop :=
  (bytesToBits f).drop (8 * r.start + r.pos) = rem ∧ 8 * r.start + r.pos ≤ 8 * f.length

theorem bitsToNat_append (x y : List Bool) : bitsToNat (x ++ y) = bitsToNat x * 2 ^ y.length + bitsToNat y := by
  induction x with
  | nil => simp [bitsToNat, bitsToNatAux]
  | cons b x ih =>
    rw [List.cons_append, bitsToNat_cons, bitsToNat_cons, ih, List.length_append, Nat.pow_add]
    generalize 2 ^ x.length = P
    generalize 2 ^ y.length = Q
    rw [Nat.add_mul, Nat.mul_assoc, Nat.add_assoc]

/-- `r.bits(w)` when the next `w` bits are the field `v` -/
theorem bits_at (f : Bytes) (r : R) (w v : Nat) (rest : List Bool) (h : At f r (natToBits w v ++ rest)) (hw : 0 < w)
    (hv : v < 2 ^ w) :
    r.bits f w = some (v, ⟨r.start, r.pos + w⟩) ∧ At f ⟨r.start, r.pos + w⟩ rest := by
  obtain ⟨hd, hle⟩ := h
  have hlen : ((bytesToBits f).drop (8 * r.start + r.pos)).length = w + rest.length := by
    rw [hd]; simp
  rw [List.length_drop, length_bytesToBits] at hlen
  have hq : 8 * r.start + r.pos + w ≤ 8 * f.length := by omega
  refine ⟨?_, ?_, by simp only; omega⟩
  · unfold R.bits
    rw [if_neg (by omega), if_pos hq, bitsAt_eq, hd, List.take_append_of_le_length (by simp),
      List.take_of_length_le (by simp), bitsToNat_natToBits w v hv]
  · simp only
    rw [show 8 * r.start + (r.pos + w) = (8 * r.start + r.pos) + w by omega, ← List.drop_drop, hd,
      List.drop_append_of_le_length (by simp), List.drop_of_length_le (by simp), List.nil_append]

/-- `r.skip(n)` over the next `n` bits, whatever they are -/
theorem skip_at (f : Bytes) (r : R) (bs rest : List Bool) (h : At f r (bs ++ rest)) :
    r.skip f bs.length = some ⟨r.start, r.pos + bs.length⟩ ∧ At f ⟨r.start, r.pos + bs.length⟩ rest := by
  obtain ⟨hd, hle⟩ := h
  have hlen : ((bytesToBits f).drop (8 * r.start + r.pos)).length = bs.length + rest.length := by
    rw [hd]; simp
  rw [List.length_drop, length_bytesToBits] at hlen
  refine ⟨?_, ?_, by simp only; omega⟩
  · unfold R.skip
    rw [if_pos (by omega)]
  · simp only
    rw [show 8 * r.start + (r.pos + bs.length) = (8 * r.start + r.pos) + bs.length by omega, ← List.drop_drop, hd,
      List.drop_append_of_le_length (by simp), List.drop_of_length_le (by simp), List.nil_append]

theorem skip_at' (f : Bytes) (r : R) (n : Nat) (bs rest : List Bool) (h : At f r (bs ++ rest)) (hn : bs.length = n) :
    r.skip f n = some ⟨r.start, r.pos + n⟩ ∧ At f ⟨r.start, r.pos + n⟩ rest := by
  subst hn; exact skip_at f r bs rest h

/-- a field split in two -/
theorem natToBits_split (a b x y : Nat) (hy : y < 2 ^ b) :
    natToBits (a + b) (x * 2 ^ b + y) = natToBits a x ++ natToBits b y := by
  rw [natToBits_add]
  congr 1
  · congr 1
    rw [Nat.add_comm, Nat.add_mul_div_right _ _ (Nat.pow_pos (by decide)), Nat.div_eq_of_lt hy, Nat.zero_add]
  · have := natToBits_mod b 0 (x * 2 ^ b + y)
    rw [Nat.add_zero, Nat.add_comm (x * 2 ^ b) y, Nat.add_mul_mod_self_right, Nat.mod_eq_of_lt hy] at this
    rw [Nat.add_comm (x * 2 ^ b) y]
    exact this.symm

end Mutagen.Info.Aac
