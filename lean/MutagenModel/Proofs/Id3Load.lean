/- Proofs/Id3Load.lean — the ID3v1 merge of `ID3.load` (Model/Id3Load.lean) -/
import MutagenModel.Model.Id3Load
import MutagenModel.Model.Container.Id3FileLoadM
import MutagenModel.Proofs.Id3v1
set_option linter.unusedVariables false
set_option linter.unusedSimpArgs false
namespace Mutagen.Id3Load
open Mutagen Mutagen.Id3v1 Mutagen.Id3Conv

/-- `getall(k)` would return a frame whose HashKey is `fk` -/
def keyHits (k fk : String) : Bool := fk == k || (k ++ ":").isPrefixOf fk

theorem isAll_eq (k : String) (f : Frame) : isAll k f = keyHits k f.key := rfl

/-- two HashKeys neither of which is found under the other -/
def indep (a b : String) : Prop := keyHits a b = false ∧ keyHits b a = false

/-- what decides whether a v1 frame is added -/
def keep (t : Id3Conv.Tag) (comms : List Comm) (c : Str) (f : Frame) : Bool :=
  !hasAll t f.key && !(f.id == "COMM" && isV1Copy comms c)

theorem hasAll_append (t acc : Id3Conv.Tag) (k : String) (h : ∀ a ∈ acc, keyHits k a.key = false) :
    hasAll (t ++ acc) k = hasAll t k := by
  unfold hasAll
  rw [List.any_append]
  have : acc.any (isAll k) = false := by
    rw [List.any_eq_false]
    intro a ha
    rw [isAll_eq, h a ha]; simp
  rw [this, Bool.or_false]

theorem add_new (t : Id3Conv.Tag) (f : Frame) (h : hasAll t f.key = false) : t.add f = t ++ [f] := by
  unfold Tag.add
  have : t.has f.key = false := by
    unfold Tag.has
    rw [List.any_eq_false]
    intro a ha
    unfold hasAll at h
    rw [List.any_eq_false] at h
    have := h a ha
    rw [isAll_eq] at this
    unfold keyHits at this
    simp only [Bool.or_eq_true, not_or] at this
    simpa using this.1
  rw [this]; rfl

/-- the merge loop on frames with pairwise independent HashKeys: the tag, then the frames that pass, in order -/
theorem mergeV1_filter (t : Id3Conv.Tag) (comms : List Comm) (c : Str) (fs : List Frame) :
    ∀ (acc : Id3Conv.Tag), fs.Pairwise (fun a b => indep a.key b.key) → (∀ a ∈ acc, ∀ g ∈ fs, keyHits g.key a.key = false) →
      mergeV1 (t ++ acc) comms c fs = t ++ acc ++ fs.filter (keep t comms c) := by
  induction fs with
  | nil => intro acc _ _; simp [mergeV1]
  | cons f r ih =>
    intro acc hp hacc
    have hp' := List.pairwise_cons.mp hp
    have hh : hasAll (t ++ acc) f.key = hasAll t f.key :=
      hasAll_append t acc f.key (fun a ha => hacc a ha f List.mem_cons_self)
    unfold mergeV1
    rw [hh]
    have hacc_r : ∀ a ∈ acc, ∀ g ∈ r, keyHits g.key a.key = false :=
      fun a ha g hg => hacc a ha g (List.mem_cons_of_mem _ hg)
    by_cases h1 : hasAll t f.key = true
    · simp only [h1, ↓reduceIte]
      rw [ih acc hp'.2 hacc_r]
      simp [List.filter_cons, keep, h1]
    · simp only [h1, Bool.false_eq_true, ↓reduceIte]
      by_cases h2 : (f.id == "COMM" && isV1Copy comms c) = true
      · simp only [h2, ↓reduceIte]
        rw [ih acc hp'.2 hacc_r]
        simp [List.filter_cons, keep, h1, h2]
      · simp only [h2, Bool.false_eq_true, ↓reduceIte]
        have hnew : hasAll (t ++ acc) f.key = false := by rw [hh]; simpa using h1
        rw [add_new _ f hnew, List.append_assoc]
        rw [ih (acc ++ [f]) hp'.2 (by
          intro a ha g hg
          rcases List.mem_append.mp ha with ha | ha
          · exact hacc_r a ha g hg
          · simp only [List.mem_singleton] at ha
            subst ha
            exact (hp'.1 g hg).2)]
        have hk : keep t comms c f = true := by
          simp only [keep, Bool.and_eq_true, Bool.not_eq_true']
          exact ⟨by simpa using h1, by simpa using h2⟩
        simp [List.filter_cons, hk, List.append_assoc]

/-- the HashKeys `ParseID3v1` can produce, in its order -/
def v1Keys (ver : Nat) : List String := ["TIT2", "TPE1", "TALB", if ver = 3 then "TYER" else "TDRC", v1CommKey, "TRCK", "TCON"]

instance (a b : String) : Decidable (indep a b) := by unfold indep; infer_instance

theorem v1Keys_indep (ver : Nat) : (v1Keys ver).Pairwise indep := by
  unfold v1Keys
  by_cases h : ver = 3
  · simp only [h, ↓reduceIte]; decide +kernel
  · simp only [h, ↓reduceIte]; decide +kernel

theorem v1Frames_keys_sublist (ver : Nat) (v : Id3v1.Tag) : ((v1Frames ver v).map (·.key)).Sublist (v1Keys ver) := by
  unfold v1Frames v1Keys
  simp only [List.map_append]
  have one : ∀ (c : Prop) [Decidable c] (f : Frame) (k : String), f.key = k →
      (((if c then [] else [f]) : List Frame).map (·.key)).Sublist [k] := by
    intro c _ f k hk
    split
    · simp
    · simp [hk]
  have hy : ((if v.year.isEmpty then [] else [if ver = 3 then Frame.text "TYER" 0 [v.year] else Frame.stamps "TDRC" 0 [parseStamp v.year]] : List Frame).map (·.key)).Sublist
      [if ver = 3 then "TYER" else "TDRC"] := by
    split
    · simp
    · by_cases h3 : ver = 3 <;> simp [h3, Frame.key]
  have h5 := ((((one (v.title.isEmpty = true) (Frame.text "TIT2" 0 [v.title]) "TIT2" rfl).append
    (one (v.artist.isEmpty = true) (Frame.text "TPE1" 0 [v.artist]) "TPE1" rfl)).append
    (one (v.album.isEmpty = true) (Frame.text "TALB" 0 [v.album]) "TALB" rfl)).append hy).append
    (one (v.comment.isEmpty = true) (Frame.other "COMM" v1CommKey) v1CommKey rfl)
  have e0 : ([] : List String).Sublist ["TRCK"] := by simp
  have e1 : ∀ n, (([Frame.text "TRCK" 0 [strOfNat n]] : List Frame).map (·.key)).Sublist ["TRCK"] := by intro n; simp [Frame.key]
  have g0 : ([] : List String).Sublist ["TCON"] := by simp
  have g1 : ∀ n, (([Frame.text "TCON" 0 [strOfNat n]] : List Frame).map (·.key)).Sublist ["TCON"] := by intro n; simp [Frame.key]
  cases v.track <;> cases v.genre
  · simpa [List.append_assoc] using (h5.append e0).append g0
  · simpa [List.append_assoc] using (h5.append e0).append (g1 _)
  · simpa [List.append_assoc] using (h5.append (e1 _)).append g0
  · simpa [List.append_assoc] using (h5.append (e1 _)).append (g1 _)

theorem v1Frames_pairwise (ver : Nat) (v : Id3v1.Tag) : (v1Frames ver v).Pairwise (fun a b => indep a.key b.key) := by
  have := (v1Keys_indep ver).sublist (v1Frames_keys_sublist ver v)
  exact List.pairwise_map.mp this

/-- THE MERGE, exactly: the loaded tag is what `_read` made of the body followed by those v1 frames — title, artist, album,
year (TYER for a v2.2/2.3 tag, TDRC for v2.4), comment, track, genre, each only when the ID3v1 field is not empty — under whose
HashKey the v2 tag has nothing, the comment in addition only if it does not repeat the start of a v2 comment without description -/
theorem mergeV1_v1Frames (t : Id3Conv.Tag) (comms : List Comm) (ver : Nat) (v : Id3v1.Tag) :
    mergeV1 t comms v.comment (v1Frames ver v) = t ++ (v1Frames ver v).filter (keep t comms v.comment) := by
  have := mergeV1_filter t comms v.comment (v1Frames ver v) [] (v1Frames_pairwise ver v) (by simp)
  simpa using this

theorem mergeV1_nothing (t : Id3Conv.Tag) (comms : List Comm) (ver : Nat) (v : Id3v1.Tag)
    (h : ∀ f ∈ v1Frames ver v, keep t comms v.comment f = false) :
    mergeV1 t comms v.comment (v1Frames ver v) = t := by
  rw [mergeV1_v1Frames]
  have : (v1Frames ver v).filter (keep t comms v.comment) = [] := by
    rw [List.filter_eq_nil_iff]
    intro f hf
    rw [h f hf]; simp
  rw [this, List.append_nil]

theorem isPrefixOf_self (l : Bytes) : l.isPrefixOf l = true := by
  induction l with
  | nil => rfl
  | cons a r ih => simp [List.isPrefixOf, ih]

/-- a representable comment (at most 28 Latin-1 characters, no NUL, no white space at the ends) that is the first value of a v2
comment without description: what `MakeID3v1` wrote of it and `ParseID3v1` read back is a copy -/
theorem isV1Copy_self (c : Str) (rest : List Str) (h : Representable 28 c) (comms : List Comm)
    (hmem : ({ desc := [], text := c :: rest } : Comm) ∈ comms) :
    isV1Copy comms (fix ((latin1Replace c).take 28)) = true := by
  rw [fix_representable 28 c h]
  unfold isV1Copy
  rw [List.any_eq_true]
  refine ⟨_, hmem, ?_⟩
  have hlt : ∀ x ∈ c, x < 256 := fun x hx => (h.latin1 x hx).2
  have hmap : latin1Replace c = c.map UInt8.ofNat := by
    unfold latin1Replace
    apply List.map_congr_left
    intro x hx
    simp [hlt x hx]
  have hs : bstrip (latin1Replace c) = latin1Replace c := by
    unfold bstrip
    rw [dropWhile_head _ (latin1Replace c) (by
      intro b hb
      rw [hmap, List.head?_map] at hb
      cases hh : c.head? with
      | none => rw [hh] at hb; cases hb
      | some d => rw [hh] at hb; cases hb; exact h.head d hh)]
    rw [dropWhile_head _ (latin1Replace c).reverse (by
      intro b hb
      rw [List.head?_reverse, hmap, List.getLast?_map] at hb
      cases hh : c.getLast? with
      | none => rw [hh] at hb; cases hb
      | some d => rw [hh] at hb; cases hb; exact h.last d hh), List.reverse_reverse]
  simp only [List.isEmpty_nil, Bool.true_and, hs, isPrefixOf_self]

theorem fix_nil : fix [] = [] := by decide

theorem textBytes_nonempty (f : Option (List Str)) (h : fix (textBytes f) ≠ []) : f.isSome = true := by
  cases f with
  | none => simp [textBytes, fix_nil] at h
  | some l => rfl

/-- SAVE WITH v1=2, THEN LOAD: the block `MakeID3v1` wrote for the tag adds nothing on load, when the tag still has the frames the
block was made from (`src` is what `MakeID3v1` looked at; the year came from the frame the load looks under: TDRC for a v2.4 tag,
TYER otherwise) and the comment is a copy in the sense of `__is_v1_copy` -/
theorem merge_own_block (t : Id3Conv.Tag) (comms : List Comm) (vmaj : Nat) (src : Src) (block : Bytes)
    (hb : makeID3v1 src = .ok block)
    (h1 : src.tit2.isSome = true → hasAll t "TIT2" = true) (h2 : src.tpe1.isSome = true → hasAll t "TPE1" = true)
    (h3 : src.talb.isSome = true → hasAll t "TALB" = true)
    (hy : yearStr src ≠ [] → hasAll t (if vmaj = 4 then "TDRC" else "TYER") = true)
    (htr : src.trck.isSome = true → hasAll t "TRCK" = true) (htc : src.tcon.isSome = true → hasAll t "TCON" = true)
    (hc : fix (commentBytes src.comm) = [] ∨ hasAll t v1CommKey = true ∨ isV1Copy comms (fix (commentBytes src.comm)) = true)
    (translate : Option Nat) :
    loadedTag t comms vmaj (some block) translate = loadedTag t comms vmaj none translate := by
  unfold loadedTag
  simp only []
  have hv : (if vmaj = 4 then 4 else 3) = 3 ∨ (if vmaj = 4 then 4 else 3) = 4 := by split <;> simp
  obtain ⟨track, htrack, hparse⟩ := parse_make _ hv src block hb
  rw [hparse]
  simp only []
  generalize hV : (Id3v1.Tag.mk (fix (textBytes src.tit2)) (fix (textBytes src.tpe1)) (fix (textBytes src.talb))
      (fix (((yearStr src).map UInt8.ofNat).take 4)) (fix (commentBytes src.comm))
      (if track.toNat ≠ 0 then some track.toNat else none)
      (if (genreByte src.tcon).toNat ≠ 255 then some (genreByte src.tcon).toNat else none)) = v
  have hmerge : mergeV1 t comms v.comment (v1Frames (if vmaj = 4 then 4 else 3) v) = t := by
    apply mergeV1_nothing
    intro f hf
    subst hV
    unfold v1Frames at hf
    simp only [List.mem_append] at hf
    have kf : ∀ k, hasAll t k = true → f.key = k → keep t comms (fix (commentBytes src.comm)) f = false := by
      intro k hk hfk; simp [keep, hfk, hk]
    rcases hf with ((((((hf | hf) | hf) | hf) | hf) | hf) | hf)
    · split at hf
      · cases hf
      · rename_i hne
        simp only [List.mem_singleton] at hf; subst hf
        exact kf "TIT2" (h1 (textBytes_nonempty _ (by simpa using hne))) rfl
    · split at hf
      · cases hf
      · rename_i hne
        simp only [List.mem_singleton] at hf; subst hf
        exact kf "TPE1" (h2 (textBytes_nonempty _ (by simpa using hne))) rfl
    · split at hf
      · cases hf
      · rename_i hne
        simp only [List.mem_singleton] at hf; subst hf
        exact kf "TALB" (h3 (textBytes_nonempty _ (by simpa using hne))) rfl
    · split at hf
      · cases hf
      · rename_i hne
        simp only [List.mem_singleton] at hf
        have hys : yearStr src ≠ [] := by
          intro h0; apply hne; rw [h0]; decide
        have hk := hy hys
        by_cases h4 : vmaj = 4
        · simp only [h4, ↓reduceIte] at hf hk
          have : ¬ ((4 : Nat) = 3) := by decide
          simp only [this, ↓reduceIte] at hf
          subst hf; exact kf "TDRC" hk rfl
        · simp only [h4, ↓reduceIte] at hf hk
          subst hf; exact kf "TYER" hk rfl
    · split at hf
      · cases hf
      · rename_i hne
        simp only [List.mem_singleton] at hf; subst hf
        rcases hc with hc | hc | hc
        · exact absurd (by simpa using hc) hne
        · exact kf v1CommKey hc rfl
        · simp [keep, Frame.id, hc]
    · split at hf
      · rename_i n hn
        simp only [List.mem_singleton] at hf; subst hf
        have : src.trck.isSome = true := by
          cases hs : src.trck with
          | some l => rfl
          | none =>
            rw [hs] at htrack
            simp only [trackByte] at htrack
            injection htrack with htrack
            subst htrack
            simp at hn
        exact kf "TRCK" (htr this) rfl
      · cases hf
    · split at hf
      · rename_i n hn
        simp only [List.mem_singleton] at hf; subst hf
        have : src.tcon.isSome = true := by
          cases hs : src.tcon with
          | some l => rfl
          | none =>
            rw [hs] at hn
            simp [genreByte] at hn
        exact kf "TCON" (htc this) rfl
      · cases hf
  have hvc : v.comment = fix (commentBytes src.comm) := by rw [← hV]
  rw [hvc] at hmerge
  rw [hmerge]

/-- the tag dictionary `ID3(fileobj)` ends with, from what the file-level load returned (`Id3F.Loaded`: header, body, the length of the
ID3v1 block found at the end of the file `f`): `read` is `_read` — what the frame parser makes of the body under that header, as the
dictionary and its COMM frames -/
def loadedTagOf (f : Bytes) (l : Id3F.Loaded) (read : Nat → Nat → Bytes → Id3Conv.Tag × List Comm) (v2version : Nat) (translate : Bool) :
    Id3Conv.Tag :=
  match l with
  | .v2 vmaj flags body v1 =>
    loadedTag (read vmaj flags body).1 (read vmaj flags body).2 vmaj (v1.map fun n => f.drop (f.length - n))
      (if translate then some v2version else none)
  | .v1 n => loadedTagV1 (f.drop (f.length - n)) v2version translate
  | _ => []

end Mutagen.Id3Load
